package main

import (
	"fmt"
	"math/big"

	"github.com/nspcc-dev/neofs-node/pkg/util/precision"
)

func init() {
	engines["arith"] = seqRunner{gen: arithGen, exec: arithExec}.engine()
}

func arithGen(c *runCtx, run func([]string)) {
	var ops []string
	var ns []int64
	add := func(v int64) {
		if v >= 0 {
			ns = append(ns, v)
		}
	}
	for _, b := range []int64{0, 1, 2, 9, 10, 11, 99, 100, 1 << 31, 1 << 32, 1<<53 - 1, 1 << 53, 1<<53 + 1, 1<<62 + 12345, 1<<63 - 1} {
		add(b)
	}
	p10 := int64(1)
	for k := 0; k <= 18; k++ {
		add(p10 - 1)
		add(p10)
		add(p10 + 1)
		add((1<<63 - 1) / p10)
		add((1<<63-1)/p10 + 1)
		add((1<<63-1)/p10 - 1)
		add((1<<53 - 1) / p10)
		if k < 18 {
			p10 *= 10
		}
	}
	for i := 0; i < c.n(300, 20000); i++ {
		add(int64(c.rng.Uint64() >> uint(1+c.rng.IntN(63))))
	}
	for p := 0; p <= 18; p++ {
		for _, n := range ns {
			ops = append(ops, fmt.Sprintf("arith precision dir=toBalance p=%d n=%d", p, n))
			ops = append(ops, fmt.Sprintf("arith precision dir=toFixed8 p=%d n=%d", p, n))
		}
	}
	run(ops)
}

func arithExec(c *runCtx, ops []string) {
	c.independent = true
	two63 := new(big.Int).Lsh(big.NewInt(1), 63)
	for _, line := range ops {
		o := parseOp(line)
		c.count(o.name + ":" + o.kv["dir"])
		if o.name != "precision" {
			c.emit(line, "=> bad-op")
			continue
		}
		p, n := o.int("p"), int64(o.u64("n"))
		conv := precision.NewConverter(uint32(p))
		exp := p - 8
		if exp < 0 {
			exp = -exp
		}
		f := new(big.Int).Exp(big.NewInt(10), big.NewInt(int64(exp)), nil)
		bn := big.NewInt(n)
		var got int64
		var exact *big.Int
		mul := false
		switch o.kv["dir"] {
		case "toBalance":
			got = conv.ToBalancePrecision(n)
			if p < 8 {
				exact = new(big.Int).Div(bn, f)
			} else {
				exact, mul = new(big.Int).Mul(bn, f), true
			}
		case "toFixed8":
			got = conv.ToFixed8(n)
			if p > 8 {
				exact = new(big.Int).Div(bn, f)
			} else {
				exact, mul = new(big.Int).Mul(bn, f), true
			}
		default:
			c.emit(line, "=> bad-op")
			continue
		}
		c.emit(line, fmt.Sprintf("=> ok v=%d", got))
		fits := exact.Cmp(two63) < 0
		if n < 1<<53 {
			c.oracleSig("no-silent-overflow-below-2^53", fmt.Sprintf("mul=%v fits=%v", mul, fits), big.NewInt(got).Cmp(exact) == 0,
				fmt.Sprintf("overflow dir=%s p=%d n=%d multiplication=%v productFitsInt64=%v: got %d, exact %s", o.kv["dir"], p, n, mul, fits, got, exact))
		}
		if fits {
			c.oracle("conversion-exact-when-it-fits", big.NewInt(got).Cmp(exact) == 0, fmt.Sprintf("dir=%s p=%d n=%d got %d exact %s", o.kv["dir"], p, n, got, exact))
			if o.kv["dir"] == "toBalance" {
				back := conv.ToFixed8(got)
				c.oracle("roundtrip-never-more", back <= n, fmt.Sprintf("p=%d n=%d back=%d", p, n, back))
				if p >= 8 {
					c.oracle("roundtrip-exact-when-finer", back == n, fmt.Sprintf("p=%d n=%d back=%d", p, n, back))
				}
			}
			if n > 1 && p != 8 {
				c.nontrivial(line)
			}
		}
	}
}
