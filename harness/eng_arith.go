package main

import (
	"fmt"
	"math"
	"math/big"
	"strconv"
	"strings"
	"sync"
	"sync/atomic"
	"time"

	"github.com/nspcc-dev/neofs-node/pkg/util/precision"
)

func init() {
	engines["arith"] = seqRunner{gen: arithGen, exec: arithExec}.engine()
}

// arithI64 parses a signed 64-bit value of an op line (the converter's API takes int64).
func arithI64(s string) int64 {
	v, err := strconv.ParseInt(s, 10, 64)
	if err != nil {
		panic(fmt.Sprintf("bad int64 %q", s))
	}
	return v
}

func arithI64s(s string) []int64 {
	if s == "" || s == "-" {
		return nil
	}
	var r []int64
	for _, p := range strings.Split(s, ",") {
		r = append(r, arithI64(p))
	}
	return r
}

func arithJoin(xs []int64) string {
	if len(xs) == 0 {
		return "-"
	}
	var sb strings.Builder
	for i, x := range xs {
		if i > 0 {
			sb.WriteByte(',')
		}
		sb.WriteString(strconv.FormatInt(x, 10))
	}
	return sb.String()
}

// arithAmounts: the whole int64 range the API accepts — boundary values around 0, around +-10^k (every factor the
// converter can have and its neighbours, i.e. exact multiples and non-multiples of both signs), around +-2^53 (the
// supported range), around +-(2^63/10^k) (where a product starts to wrap), MinInt64/MaxInt64 and their neighbours,
// plus seeded random magnitudes of both signs.
func arithAmounts(c *runCtx, nrand int) []int64 {
	seen := map[int64]bool{}
	var ns []int64
	add := func(v int64) {
		if !seen[v] {
			seen[v] = true
			ns = append(ns, v)
		}
	}
	both := func(v int64) {
		add(v)
		add(-v) // -MinInt64 == MinInt64: harmless
	}
	for _, b := range []int64{0, 1, 2, 9, 10, 11, 99, 100, 150, 1 << 31, 1 << 32, 1<<53 - 1, 1 << 53, 1<<53 + 1, 1<<62 + 12345, math.MaxInt64, math.MaxInt64 - 1} {
		both(b)
	}
	add(math.MinInt64)
	add(math.MinInt64 + 1)
	p10 := int64(1)
	for k := 0; k <= 18; k++ {
		both(p10 - 1)
		both(p10)
		both(p10 + 1)
		both(p10 + p10/2) // 1.5 * 10^k: a non-multiple of every larger factor, a multiple of the smaller ones
		both(math.MaxInt64 / p10)
		both(math.MaxInt64/p10 + 1)
		both(math.MaxInt64/p10 - 1)
		both((1<<53 - 1) / p10)
		add(math.MinInt64/p10*p10 + 0) // the multiple of 10^k next to MinInt64 …
		add(math.MinInt64/p10*p10 - 1) // … and the amounts between it and MinInt64 (wraps to MaxInt64 for k=0: same set)
		add(math.MinInt64 + p10 - 1)   // MinInt64 + factor - 1
		add(math.MinInt64 + p10)
		if k < 18 {
			p10 *= 10
		}
	}
	for i := 0; i < nrand; i++ {
		v := int64(c.rng.Uint64() >> uint(1+c.rng.IntN(63)))
		if c.rng.IntN(2) == 0 {
			v = -v
		}
		add(v)
	}
	return ns
}

func arithGen(c *runCtx, run func([]string)) {
	var ops []string
	ns := arithAmounts(c, c.n(300, 20000))
	for p := 0; p <= 18; p++ {
		for _, n := range ns {
			ops = append(ops, fmt.Sprintf("arith precision dir=toBalance p=%d n=%d", p, n))
			ops = append(ops, fmt.Sprintf("arith precision dir=toFixed8 p=%d n=%d", p, n))
		}
	}
	// concurrent conversions through copies of one converter (innerring.New hands one converter to the balance and
	// to the neofs processor, each converts from its own worker pool)
	for i := 0; i < c.n(40, 400); i++ {
		p := c.rng.IntN(19)
		if i%2 == 0 {
			p = []int{12, 0, 6, 18, 9, 8}[i/2%6]
		}
		k := 4 + c.rng.IntN(9)
		var as []int64
		for j := 0; j < k; j++ {
			v := int64(c.rng.Uint64() >> uint(1+c.rng.IntN(63)))
			switch c.rng.IntN(4) {
			case 0:
				v = -v
			case 1:
				v = ns[c.rng.IntN(len(ns))]
			}
			as = append(as, v)
		}
		ops = append(ops, fmt.Sprintf("arith cconv p=%d g=%d r=%d ns=%s", p, 2+c.rng.IntN(5), c.n(2000, 10000), arithJoin(as)))
	}
	run(ops)
}

// arithExact is the mathematical (big.Int) result of a conversion and whether it multiplies.
func arithExact(dir string, p int, n int64) (*big.Int, bool, *big.Int) {
	exp := p - 8
	if exp < 0 {
		exp = -exp
	}
	f := new(big.Int).Exp(big.NewInt(10), big.NewInt(int64(exp)), nil)
	bn := big.NewInt(n)
	decrease := dir == "toBalance" && p < 8 || dir == "toFixed8" && p > 8
	if decrease {
		// Euclidean division: the quotient is rounded towards minus infinity for the positive factor
		return new(big.Int).Div(bn, f), false, f
	}
	return new(big.Int).Mul(bn, f), true, f
}

var (
	arithMin64 = big.NewInt(math.MinInt64)
	arithMax64 = big.NewInt(math.MaxInt64)
)

func arithFits(x *big.Int) bool { return x.Cmp(arithMin64) >= 0 && x.Cmp(arithMax64) <= 0 }

func arithExec(c *runCtx, ops []string) {
	c.independent = true
	for _, line := range ops {
		o := parseOp(line)
		c.count(o.name + ":" + o.kv["dir"])
		switch o.name {
		case "precision":
			arithPrecision(c, line, o)
		case "cconv":
			arithConcurrent(c, line, o)
		default:
			c.emit(line, "=> bad-op")
		}
	}
}

func arithPrecision(c *runCtx, line string, o opLine) {
	dir := o.kv["dir"]
	if dir != "toBalance" && dir != "toFixed8" {
		c.emit(line, "=> bad-op")
		return
	}
	p, n := o.int("p"), arithI64(o.kv["n"])
	conv := precision.NewConverter(uint32(p))
	var got int64
	if dir == "toBalance" {
		got = conv.ToBalancePrecision(n)
	} else {
		got = conv.ToFixed8(n)
	}
	exact, mul, f := arithExact(dir, p, n)
	c.emit(line, fmt.Sprintf("=> ok v=%d", got))
	fits := arithFits(exact)
	switch {
	case n < 0:
		c.count("amount:negative")
	case n == 0:
		c.count("amount:zero")
	default:
		c.count("amount:positive")
	}
	if !mul && new(big.Int).Mod(big.NewInt(n), f).Sign() != 0 {
		c.count(fmt.Sprintf("division:non-multiple:neg=%v", n < 0))
	}
	if n < 1<<53 && n > -(1<<53) { // the supported range, either sign
		c.oracleSig("no-silent-overflow-below-2^53", fmt.Sprintf("mul=%v fits=%v neg=%v", mul, fits, n < 0), big.NewInt(got).Cmp(exact) == 0,
			fmt.Sprintf("overflow dir=%s p=%d n=%d multiplication=%v productFitsInt64=%v: got %d, exact %s", dir, p, n, mul, fits, got, exact))
	}
	if !fits {
		return
	}
	c.oracleSig("conversion-exact-when-it-fits", fmt.Sprintf("mul=%v neg=%v", mul, n < 0), big.NewInt(got).Cmp(exact) == 0,
		fmt.Sprintf("dir=%s p=%d n=%d got %d exact %s", dir, p, n, got, exact))
	if dir == "toBalance" {
		// main-net precision -> balance precision -> back, every int64 amount whose first conversion does not wrap
		back := conv.ToFixed8(got)
		backExact, _, _ := arithExact("toFixed8", p, got)
		c.oracleSig("roundtrip-never-more", fmt.Sprintf("neg=%v backfits=%v", n < 0, arithFits(backExact)), back <= n,
			fmt.Sprintf("p=%d n=%d balance=%d back=%d backProductFitsInt64=%v", p, n, got, back, arithFits(backExact)))
		if p >= 8 {
			c.oracle("roundtrip-exact-when-finer", back == n, fmt.Sprintf("p=%d n=%d back=%d", p, n, back))
		}
	}
	if (n > 1 || n < -1) && p != 8 {
		c.nontrivial(line)
	}
}

// arithConcurrent: ONE converter is made, every goroutine gets a COPY of it (Fixed8Converter is passed by value, as
// innerring.New does) and converts all amounts r times, goroutines released together by a spin barrier; every result
// must be the one a conversion gives when nothing else runs (a conversion is a pure function of its argument).
func arithConcurrent(c *runCtx, line string, o opLine) {
	p, g, r := o.int("p"), o.int("g"), o.int("r")
	ns := arithI64s(o.kv["ns"])
	if g < 1 || g > 64 || r < 1 || len(ns) == 0 {
		c.emit(line, "=> bad-op")
		return
	}
	shared := precision.NewConverter(uint32(p))
	wantB := make([]int64, len(ns))
	wantF := make([]int64, len(ns))
	for i, n := range ns { // sequential reference: a fresh converter per call, nothing overlaps
		wantB[i] = precision.NewConverter(uint32(p)).ToBalancePrecision(n)
		wantF[i] = precision.NewConverter(uint32(p)).ToFixed8(n)
	}
	var bad, panics atomic.Int64
	var firstBad atomic.Pointer[string]
	var arrived atomic.Int32
	deadline := time.Now().Add(2 * time.Second)
	var wg sync.WaitGroup
	for gi := 0; gi < g; gi++ {
		conv := shared // the copy a processor holds
		wg.Add(1)
		go func(gi int, conv precision.Fixed8Converter) {
			defer wg.Done()
			defer func() {
				if e := recover(); e != nil {
					panics.Add(1)
					bad.Add(1)
					s := fmt.Sprintf("goroutine %d: panic %v", gi, e)
					firstBad.CompareAndSwap(nil, &s)
				}
			}()
			arrived.Add(1)
			for int(arrived.Load()) < g && time.Now().Before(deadline) { // spin: start all together
			}
			for round := 0; round < r; round++ {
				for k := range ns {
					i := (k + gi*3 + round) % len(ns)
					var got, want int64
					toBal := (gi+k)%2 == 0
					if toBal {
						got, want = conv.ToBalancePrecision(ns[i]), wantB[i]
					} else {
						got, want = conv.ToFixed8(ns[i]), wantF[i]
					}
					if got != want {
						bad.Add(1)
						if firstBad.Load() == nil {
							s := fmt.Sprintf("goroutine %d round %d: toBalance=%v p=%d n=%d gave %d, alone it gives %d", gi, round, toBal, p, ns[i], got, want)
							firstBad.CompareAndSwap(nil, &s)
						}
					}
				}
			}
		}(gi, conv)
	}
	wg.Wait()
	// after the storm the shared converter still converts as a fresh one
	for i, n := range ns {
		if shared.ToBalancePrecision(n) != wantB[i] || shared.ToFixed8(n) != wantF[i] {
			bad.Add(1)
			s := fmt.Sprintf("after the concurrent run: p=%d n=%d converts to %d/%d, a fresh converter gives %d/%d", p, n,
				shared.ToBalancePrecision(n), shared.ToFixed8(n), wantB[i], wantF[i])
			firstBad.CompareAndSwap(nil, &s)
		}
	}
	c.emit(line, fmt.Sprintf("=> ok b=%s f=%s bad=%d", arithJoin(wantB), arithJoin(wantF), bad.Load()))
	detail := ""
	if s := firstBad.Load(); s != nil {
		detail = *s
	}
	c.oracle("concurrent-conversions-equal-sequential", bad.Load() == 0,
		fmt.Sprintf("%d of %d conversions through copies of one converter (%d goroutines) differ from the sequential result (%d panics); first: %s",
			bad.Load(), g*r*len(ns), g, panics.Load(), detail))
	c.count(fmt.Sprintf("cconv:goroutines=%d", g))
	c.nontrivial(line)
}
