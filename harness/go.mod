module verifharness

go 1.25.0

require github.com/nspcc-dev/neofs-node v0.0.0

require (
	github.com/decred/dcrd/crypto/ripemd160 v1.0.2 // indirect
	github.com/decred/dcrd/dcrec/secp256k1/v4 v4.4.1 // indirect
	github.com/google/uuid v1.6.0 // indirect
	github.com/hashicorp/golang-lru/v2 v2.0.7 // indirect
	github.com/klauspost/cpuid/v2 v2.3.0 // indirect
	github.com/klauspost/reedsolomon v1.13.2 // indirect
	github.com/mr-tron/base58 v1.2.0 // indirect
	github.com/mxschmitt/golang-combinations v1.2.0 // indirect
	github.com/nspcc-dev/neo-go v0.122.1-0.20260807115931-cfee8827ddfd // indirect
	github.com/nspcc-dev/neofs-sdk-go v1.0.0-rc.21.0.20260807155929-203994967075 // indirect
	github.com/nspcc-dev/rfc6979 v0.2.4 // indirect
	golang.org/x/net v0.55.0 // indirect
	golang.org/x/sys v0.45.0 // indirect
	golang.org/x/text v0.37.0 // indirect
	google.golang.org/genproto/googleapis/rpc v0.0.0-20260414002931-afd174a4e478 // indirect
	google.golang.org/grpc v1.82.1 // indirect
	google.golang.org/protobuf v1.36.11 // indirect
	gopkg.in/yaml.v3 v3.0.1 // indirect
)

replace github.com/nspcc-dev/neofs-node => /repo
