module verifharness

go 1.25.0

require (
	github.com/google/uuid v1.6.0
	github.com/klauspost/compress v1.18.4
	github.com/mr-tron/base58 v1.2.0
	github.com/nspcc-dev/bbolt v0.0.0-20260404200350-24f70ceb2bd9
	github.com/nspcc-dev/locode-db v0.8.2
	github.com/nspcc-dev/neo-go v0.122.1-0.20260807115931-cfee8827ddfd
	github.com/nspcc-dev/neofs-contract v0.26.1
	github.com/nspcc-dev/neofs-node v0.0.0
	github.com/nspcc-dev/neofs-sdk-go v1.0.0-rc.21.0.20260807155929-203994967075
	go.uber.org/zap v1.27.1
	golang.org/x/tools v0.44.0
	google.golang.org/grpc v1.82.1
	google.golang.org/protobuf v1.36.11
)

require (
	github.com/antlr4-go/antlr/v4 v4.13.1 // indirect
	github.com/beorn7/perks v1.0.1 // indirect
	github.com/bits-and-blooms/bitset v1.24.0 // indirect
	github.com/cenkalti/backoff/v4 v4.3.0 // indirect
	github.com/cespare/xxhash/v2 v2.3.0 // indirect
	github.com/consensys/gnark-crypto v0.19.2 // indirect
	github.com/decred/dcrd/crypto/ripemd160 v1.0.2 // indirect
	github.com/decred/dcrd/dcrec/secp256k1/v4 v4.4.1 // indirect
	github.com/golang/snappy v0.0.4 // indirect
	github.com/gorilla/websocket v1.5.3 // indirect
	github.com/hashicorp/golang-lru/v2 v2.0.7 // indirect
	github.com/holiman/uint256 v1.3.2 // indirect
	github.com/ipfs/go-cid v0.4.1 // indirect
	github.com/klauspost/cpuid/v2 v2.3.0 // indirect
	github.com/klauspost/reedsolomon v1.13.2 // indirect
	github.com/multiformats/go-base32 v0.1.0 // indirect
	github.com/multiformats/go-base36 v0.2.0 // indirect
	github.com/multiformats/go-multiaddr v0.16.1 // indirect
	github.com/multiformats/go-multibase v0.2.0 // indirect
	github.com/multiformats/go-multihash v0.2.3 // indirect
	github.com/multiformats/go-varint v0.0.7 // indirect
	github.com/munnerz/goautoneg v0.0.0-20191010083416-a7dc8b61c822 // indirect
	github.com/mxschmitt/golang-combinations v1.2.0 // indirect
	github.com/nspcc-dev/dbft v0.4.0 // indirect
	github.com/nspcc-dev/go-ordered-json v0.0.0-20260302080601-ff7471f924b3 // indirect
	github.com/nspcc-dev/hrw/v2 v2.0.4 // indirect
	github.com/nspcc-dev/neo-go/pkg/interop v0.0.0-20260609115526-14bc7067ea2e // indirect
	github.com/nspcc-dev/neofs-api-go/v2 v2.14.1-0.20240827150555-5ce597aa14ea // indirect
	github.com/nspcc-dev/rfc6979 v0.2.4 // indirect
	github.com/nspcc-dev/tzhash v1.8.4 // indirect
	github.com/panjf2000/ants/v2 v2.11.5 // indirect
	github.com/pierrec/lz4 v2.6.1+incompatible // indirect
	github.com/prometheus/client_golang v1.23.2 // indirect
	github.com/prometheus/client_model v0.6.2 // indirect
	github.com/prometheus/common v0.66.1 // indirect
	github.com/prometheus/procfs v0.16.1 // indirect
	github.com/spaolacci/murmur3 v1.1.0 // indirect
	github.com/syndtr/goleveldb v1.0.1-0.20210305035536-64b5b1c73954 // indirect
	github.com/twmb/murmur3 v1.1.8 // indirect
	go.uber.org/multierr v1.11.0 // indirect
	go.yaml.in/yaml/v2 v2.4.2 // indirect
	golang.org/x/crypto v0.52.0 // indirect
	golang.org/x/exp v0.0.0-20250911091902-df9299821621 // indirect
	golang.org/x/mod v0.35.0 // indirect
	golang.org/x/net v0.55.0 // indirect
	golang.org/x/sync v0.20.0 // indirect
	golang.org/x/sys v0.45.0 // indirect
	golang.org/x/text v0.37.0 // indirect
	google.golang.org/genproto/googleapis/rpc v0.0.0-20260414002931-afd174a4e478 // indirect
	gopkg.in/yaml.v3 v3.0.1 // indirect
	lukechampine.com/blake3 v1.2.1 // indirect
)

replace github.com/nspcc-dev/neofs-node => /repo
