package main

// Engine "sigchain" (C33): builds REAL signed requests (1-4 layers, re-signed the way forwarding does, all
// schemes incl. N3 witnesses against a table-driven script runner), mutates them, runs the REAL
// icrypto.VerifyRequestSignatures{,WithContext,N3} and prints accept / reject + error class.
//
// An op line is a recipe (seed, depth, schemes, versions, ttl, api, trusted, mutation list) from which exec
// rebuilds the request deterministically, followed by DERIVED keys (B=, M=, V=) that describe the mutated
// request to the model: message ids (hash-consed marshalled bytes), per layer the three signatures with
// scheme, key class and the id of the one message the (key, scheme, signature) value was produced for
// (looked up in the table of signatures the harness itself made: "untouched => verifies", never by asking
// the real verifier). exec ignores derived keys on input and recomputes them.

import (
	"context"
	"crypto/sha256"
	"errors"
	"fmt"
	"math/rand/v2"
	"strconv"
	"strings"

	"github.com/nspcc-dev/neo-go/pkg/core/block"
	"github.com/nspcc-dev/neo-go/pkg/core/transaction"
	"github.com/nspcc-dev/neo-go/pkg/crypto/hash"
	"github.com/nspcc-dev/neo-go/pkg/crypto/keys"
	"github.com/nspcc-dev/neo-go/pkg/neorpc/result"
	"github.com/nspcc-dev/neo-go/pkg/smartcontract/trigger"
	"github.com/nspcc-dev/neo-go/pkg/vm/stackitem"
	"github.com/nspcc-dev/neofs-node/pkg/network/peerauth"
	"github.com/nspcc-dev/neofs-node/pkg/util/verifbridge"
	apistatus "github.com/nspcc-dev/neofs-sdk-go/client/status"
	neofscrypto "github.com/nspcc-dev/neofs-sdk-go/crypto"
	neofsecdsa "github.com/nspcc-dev/neofs-sdk-go/crypto/ecdsa"
	protoobject "github.com/nspcc-dev/neofs-sdk-go/proto/object"
	"github.com/nspcc-dev/neofs-sdk-go/proto/refs"
	protosession "github.com/nspcc-dev/neofs-sdk-go/proto/session"
	"github.com/nspcc-dev/neofs-sdk-go/user"
	"google.golang.org/grpc/peer"
)

func init() {
	engines["sigchain"] = seqRunner{gen: scGen, exec: scExec}.engine()
}

// ---- key universe ----

var scKeys = func() []*keys.PrivateKey {
	var ks []*keys.PrivateKey
	for i := 1; i <= 8; i++ {
		b := make([]byte, 32)
		b[31] = byte(i)
		b[3] = byte(11 * i)
		p, err := keys.NewPrivateKeyFromBytes(b)
		if err != nil {
			panic(err)
		}
		ks = append(ks, p)
	}
	return ks
}()

func scPub(i int) []byte { return scKeys[i%len(scKeys)].PublicKey().Bytes() }

// scScript is the N3 verification script standing for account i (not decodable as an ECDSA key).
func scScript(i int) []byte {
	s := append([]byte{0x0c, 0x21}, scPub(i)...)
	return append(s, 0x41, 0x56, 0xe7, 0xb3, 0x27)
}

var scBadKey = append([]byte{0x05}, make([]byte, 32)...)

// ---- ideal table of the signatures the harness made ----

type scTable struct {
	signed map[string][]byte // key|scheme|sig -> message
	n3     map[string]bool   // account|script|datahash
	rng    *rand.Rand
}

func scSigKey(key []byte, scheme int32, sig []byte) string {
	return fmt.Sprintf("%x|%d|%x", key, scheme, sig)
}

type scRecSigner struct {
	neofscrypto.Signer
	t *scTable
}

func (s scRecSigner) Sign(data []byte) ([]byte, error) {
	sig, err := s.Signer.Sign(data)
	if err == nil {
		s.t.signed[scSigKey(neofscrypto.PublicKeyBytes(s.Signer.Public()), int32(s.Signer.Scheme()), sig)] = append([]byte(nil), data...)
	}
	return sig, err
}

type scN3Pub struct{ script []byte }

func (p *scN3Pub) MaxEncodedSize() int     { return len(p.script) }
func (p *scN3Pub) Encode(buf []byte) int   { return copy(buf, p.script) }
func (p *scN3Pub) Decode(b []byte) error   { p.script = append([]byte(nil), b...); return nil }
func (p *scN3Pub) Verify(_, _ []byte) bool { return false }

type scN3Signer struct {
	script []byte
	t      *scTable
}

func (s scN3Signer) Scheme() neofscrypto.Scheme    { return neofscrypto.N3 }
func (s scN3Signer) Public() neofscrypto.PublicKey { return &scN3Pub{script: s.script} }
func (s scN3Signer) Sign(data []byte) ([]byte, error) {
	invoc := make([]byte, 10)
	invoc[0], invoc[1] = 0x0c, 0x08
	for i := 2; i < len(invoc); i++ {
		invoc[i] = byte(s.t.rng.IntN(256))
	}
	h := sha256.Sum256(data)
	acc := hash.Hash160(s.script)
	s.t.n3[fmt.Sprintf("%x|%x|%x", acc.BytesBE(), append(append([]byte(nil), invoc...), s.script...), h[:])] = true
	s.t.signed[scSigKey(s.script, int32(neofscrypto.N3), invoc)] = append([]byte(nil), data...)
	return invoc, nil
}

// InvokeContainedScript makes scTable an icrypto.N3ScriptRunner: a witness is good iff the harness made it.
func (t *scTable) InvokeContainedScript(tx *transaction.Transaction, _ *block.Header, _ *trigger.Type, _ *bool) (*result.Invoke, error) {
	ok := false
	if len(tx.Signers) == 1 {
		ok = t.n3[fmt.Sprintf("%x|%x|%x", tx.Signers[0].Account.BytesBE(), tx.Script, tx.Hash().BytesBE())]
	}
	return &result.Invoke{State: "HALT", Stack: []stackitem.Item{stackitem.NewBool(ok)}}, nil
}

func (t *scTable) signer(keyIdx int, scheme int) neofscrypto.Signer {
	k := scKeys[keyIdx%len(scKeys)].PrivateKey
	switch scheme {
	case 0:
		return scRecSigner{neofsecdsa.Signer(k), t}
	case 1:
		return scRecSigner{neofsecdsa.SignerRFC6979(k), t}
	case 2:
		return scRecSigner{neofsecdsa.SignerWalletConnect(k), t}
	default:
		return scN3Signer{script: scScript(keyIdx), t: t}
	}
}

// ---- request construction ----

func scEnc(m neofscrypto.ProtoMessage) []byte {
	b := make([]byte, m.MarshaledSize())
	m.MarshalStable(b)
	return b
}

func scVersion(s string) *refs.Version {
	if s == "n" || s == "" {
		return nil
	}
	p := strings.SplitN(s, ".", 2)
	mj, _ := strconv.Atoi(p[0])
	mn := 0
	if len(p) > 1 {
		mn, _ = strconv.Atoi(p[1])
	}
	return &refs.Version{Major: uint32(mj), Minor: uint32(mn)}
}

func scSplit(s string) []string {
	if s == "" || s == "-" {
		return nil
	}
	return strings.Split(s, ",")
}

func scBuild(o opLine, t *scTable) *protoobject.GetRequest {
	seed := o.int("seed")
	depth := o.int("depth")
	sch := o.ints("sch")
	ver := scSplit(o.kv["ver"])
	ttl := o.int("ttl")
	cnr, obj := numCID(1+seed%3), numOID(1+seed%12)
	req := &protoobject.GetRequest{Body: &protoobject.GetRequest_Body{
		Address: &refs.Address{ContainerId: cnr.ProtoMessage(), ObjectId: obj.ProtoMessage()},
		Raw:     seed%2 == 1,
	}}
	at := func(xs []string, i int) string {
		if len(xs) == 0 {
			return "n"
		}
		return xs[i%len(xs)]
	}
	sc := func(i int) int {
		if len(sch) == 0 {
			return 0
		}
		return sch[i%len(sch)]
	}
	ttl0 := ttl + depth - 1
	for c := 0; c < depth; c++ {
		req.MetaHeader = &protosession.RequestMetaHeader{Version: scVersion(at(ver, c)), Epoch: uint64(10 + seed%5), Ttl: uint32(ttl0 - c), Origin: req.MetaHeader}
		vh, err := neofscrypto.SignRequestWithBuffer[*protoobject.GetRequest_Body](t.signer(c, sc(c)), req, nil)
		if err != nil {
			panic(err)
		}
		req.VerifyHeader = vh
	}
	return req
}

func scVAt(req *protoobject.GetRequest, l int) *protosession.RequestVerificationHeader {
	v := req.VerifyHeader
	for ; l > 0 && v != nil; l-- {
		v = v.Origin
	}
	return v
}

func scMAt(req *protoobject.GetRequest, l int) *protosession.RequestMetaHeader {
	m := req.MetaHeader
	for ; l > 0 && m != nil; l-- {
		m = m.Origin
	}
	return m
}

func scSigField(v *protosession.RequestVerificationHeader, kind string) **refs.Signature {
	switch kind {
	case "m":
		return &v.MetaSignature
	case "o":
		return &v.OriginSignature
	default:
		return &v.BodySignature
	}
}

// scCovered returns the bytes the signature of the given kind at layer l is supposed to cover NOW.
func scCovered(req *protoobject.GetRequest, l int, kind string) []byte {
	switch kind {
	case "m":
		return scEnc(scMAt(req, l))
	case "o":
		v := scVAt(req, l)
		if v == nil {
			return nil
		}
		return scEnc(v.Origin)
	default:
		return scEnc(req.Body)
	}
}

func scAtoi(s string) int { n, _ := strconv.Atoi(s); return n }

// scMutate applies one mutation; anything that does not apply to the current structure is a no-op.
func scMutate(req *protoobject.GetRequest, t *scTable, mut string) {
	f := strings.Split(mut, ":")
	arg := func(i int) string {
		if i < len(f) {
			return f[i]
		}
		return "0"
	}
	l := scAtoi(arg(1))
	switch f[0] {
	case "fs", "ek", "bk", "sk", "sc", "ns", "rs", "cs", "es":
		v := scVAt(req, l)
		if v == nil {
			return
		}
		p := scSigField(v, arg(2))
		if f[0] == "rs" { // valid signature of key i under scheme S over what this field has to cover now
			sg := t.signer(scAtoi(arg(3)), scAtoi(arg(4)))
			data := scCovered(req, l, arg(2))
			sig, _ := sg.Sign(data)
			*p = &refs.Signature{Key: neofscrypto.PublicKeyBytes(sg.Public()), Sign: sig, Scheme: refs.SignatureScheme(sg.Scheme())}
			return
		}
		if f[0] == "cs" { // copy the signature found at (l2, k2)
			v2 := scVAt(req, scAtoi(arg(3)))
			if v2 == nil {
				return
			}
			src := *scSigField(v2, arg(4))
			if src == nil {
				*p = nil
			} else {
				*p = &refs.Signature{Key: src.Key, Sign: src.Sign, Scheme: src.Scheme}
			}
			return
		}
		if f[0] == "ns" {
			*p = nil
			return
		}
		if *p == nil {
			return
		}
		s := &refs.Signature{Key: append([]byte(nil), (*p).Key...), Sign: append([]byte(nil), (*p).Sign...), Scheme: (*p).Scheme}
		*p = s
		switch f[0] {
		case "fs":
			if len(s.Sign) > 0 {
				s.Sign[scAtoi(arg(3))%len(s.Sign)] ^= 0x10
			}
		case "es":
			s.Sign = nil
		case "ek":
			s.Key = nil
		case "bk":
			s.Key = append([]byte(nil), scBadKey...)
		case "sk":
			s.Key = scPub(scAtoi(arg(3)))
		case "sc":
			s.Scheme = refs.SignatureScheme(scAtoi(arg(3)))
		}
	case "bb":
		if req.Body != nil {
			req.Body = &protoobject.GetRequest_Body{Address: req.Body.Address, Raw: !req.Body.Raw}
		}
	case "ba":
		if req.Body != nil {
			req.Body = &protoobject.GetRequest_Body{Address: &refs.Address{ContainerId: numCID(1).ProtoMessage(), ObjectId: numOID(99).ProtoMessage()}, Raw: req.Body.Raw}
		}
	case "nb":
		req.Body = nil
	case "mm":
		m := scMAt(req, l)
		if m == nil {
			return
		}
		switch arg(2) {
		case "e":
			m.Epoch++
		case "t":
			m.Ttl++
		case "t1":
			m.Ttl = 1
		case "x":
			m.XHeaders = append(m.XHeaders, &protosession.XHeader{Key: "k", Value: "v"})
		case "vn":
			m.Version = nil
		default: // v<major>.<minor>
			m.Version = scVersion(strings.TrimPrefix(arg(2), "v"))
		}
	case "dm":
		m := scMAt(req, l)
		if m == nil {
			return
		}
		if l == 0 {
			req.MetaHeader = m.Origin
		} else {
			scMAt(req, l-1).Origin = m.Origin
		}
	case "um":
		m := scMAt(req, l)
		if m == nil {
			return
		}
		cp := &protosession.RequestMetaHeader{Version: m.Version, Epoch: m.Epoch, Ttl: m.Ttl, XHeaders: m.XHeaders, Origin: m}
		if l == 0 {
			req.MetaHeader = cp
		} else {
			scMAt(req, l-1).Origin = cp
		}
	case "tm":
		if m := scMAt(req, l); m != nil {
			m.Origin = nil
		}
	case "nm":
		req.MetaHeader = nil
	case "dv":
		v := scVAt(req, l)
		if v == nil {
			return
		}
		if l == 0 {
			req.VerifyHeader = v.Origin
		} else {
			scVAt(req, l-1).Origin = v.Origin
		}
	case "uv":
		v := scVAt(req, l)
		if v == nil {
			return
		}
		cp := &protosession.RequestVerificationHeader{BodySignature: v.BodySignature, MetaSignature: v.MetaSignature, OriginSignature: v.OriginSignature, Origin: v}
		if l == 0 {
			req.VerifyHeader = cp
		} else {
			scVAt(req, l-1).Origin = cp
		}
	case "tv":
		if v := scVAt(req, l); v != nil {
			v.Origin = nil
		}
	case "xv": // exchange the signature triples of layers l and l+1
		a, b := scVAt(req, l), scVAt(req, l+1)
		if a == nil || b == nil {
			return
		}
		a.BodySignature, b.BodySignature = b.BodySignature, a.BodySignature
		a.MetaSignature, b.MetaSignature = b.MetaSignature, a.MetaSignature
		a.OriginSignature, b.OriginSignature = b.OriginSignature, a.OriginSignature
	case "nv":
		req.VerifyHeader = nil
	case "fx": // whoever controls the outer layers re-signs the origin signatures of layers l-1..0 (inner first)
		for j := l - 1; j >= 0; j-- {
			v := scVAt(req, j)
			if v == nil {
				continue
			}
			sg := t.signer(6, 0)
			sig, _ := sg.Sign(scEnc(v.Origin))
			v.OriginSignature = &refs.Signature{Key: neofscrypto.PublicKeyBytes(sg.Public()), Sign: sig, Scheme: refs.SignatureScheme(sg.Scheme())}
		}
	case "fw": // one more honest forwarding hop by key i under scheme S with meta version V
		req.MetaHeader = &protosession.RequestMetaHeader{Version: scVersion(arg(3)), Epoch: 10, Ttl: 1, Origin: req.MetaHeader}
		if vh, err := neofscrypto.SignRequestWithBuffer[*protoobject.GetRequest_Body](t.signer(l, scAtoi(arg(2))), req, nil); err == nil {
			req.VerifyHeader = vh
		}
	}
}

// ---- abstraction of the (mutated) real request for the model ----

type scSigAbs struct {
	present bool
	scheme  int32
	kc      string // e / b / k
	signed  int    // message id, -1 = of no current message
	kid     int    // name of the key bytes (scKeyID)
}

type scLayerAbs struct {
	id   int
	sigs [3]scSigAbs // meta, origin, body
}

type scMetaAbs struct{ hv, major, minor, ttl, id int }

type scAbs struct {
	body  int
	metas []scMetaAbs
	vs    []scLayerAbs
}

var scGoodKeys = func() map[string]bool {
	m := map[string]bool{}
	for i := range scKeys {
		m[string(scPub(i))] = true
	}
	return m
}()

// scKeyID names key bytes: 0 empty, 1..8 the ECDSA keys of the universe, 11..18 the N3 verification scripts of the
// same accounts, 20 the undecodable key, 30 anything else.
func scKeyID(b []byte) int {
	if len(b) == 0 {
		return 0
	}
	for i := range scKeys {
		if string(b) == string(scPub(i)) {
			return 1 + i
		}
		if string(b) == string(scScript(i)) {
			return 11 + i
		}
	}
	if string(b) == string(scBadKey) {
		return 20
	}
	return 30
}

func scAbstract(req *protoobject.GetRequest, t *scTable) scAbs {
	ids := map[string]int{"": 0}
	idOf := func(b []byte) int {
		if id, ok := ids[string(b)]; ok {
			return id
		}
		ids[string(b)] = len(ids)
		return len(ids) - 1
	}
	var a scAbs
	a.body = idOf(scEnc(req.Body))
	for m := req.MetaHeader; m != nil; m = m.Origin {
		x := scMetaAbs{ttl: int(m.Ttl), id: idOf(scEnc(m))}
		if m.Version != nil {
			x.hv, x.major, x.minor = 1, int(m.Version.Major), int(m.Version.Minor)
		}
		a.metas = append(a.metas, x)
	}
	var vhs []*protosession.RequestVerificationHeader
	for v := req.VerifyHeader; v != nil; v = v.Origin {
		vhs = append(vhs, v)
		a.vs = append(a.vs, scLayerAbs{id: idOf(scEnc(v))})
	}
	for i, v := range vhs {
		for k, s := range []*refs.Signature{v.MetaSignature, v.OriginSignature, v.BodySignature} {
			if s == nil {
				continue
			}
			x := scSigAbs{present: true, scheme: int32(s.Scheme), signed: -1, kid: scKeyID(s.Key)}
			switch {
			case len(s.Key) == 0:
				x.kc = "e"
			case scGoodKeys[string(s.Key)]:
				x.kc = "k"
			default:
				x.kc = "b"
			}
			if msg, ok := t.signed[scSigKey(s.Key, int32(s.Scheme), s.Sign)]; ok {
				if id, ok := ids[string(msg)]; ok {
					x.signed = id
				}
			}
			a.vs[i].sigs[k] = x
		}
	}
	return a
}

func (a scAbs) String() string {
	var sb strings.Builder
	fmt.Fprintf(&sb, "B=%d M=", a.body)
	if len(a.metas) == 0 {
		sb.WriteString("-")
	}
	for i, m := range a.metas {
		if i > 0 {
			sb.WriteByte(',')
		}
		fmt.Fprintf(&sb, "%d.%d.%d.%d.%d", m.hv, m.major, m.minor, m.ttl, m.id)
	}
	sb.WriteString(" V=")
	if len(a.vs) == 0 {
		sb.WriteString("-")
	}
	for i, v := range a.vs {
		if i > 0 {
			sb.WriteByte(',')
		}
		fmt.Fprintf(&sb, "%d", v.id)
		for _, s := range v.sigs {
			if !s.present {
				sb.WriteString("/n")
				continue
			}
			sg := "x"
			if s.signed >= 0 {
				sg = strconv.Itoa(s.signed)
			}
			fmt.Fprintf(&sb, "/%d.%s.%s.%d", s.scheme, s.kc, sg, s.kid)
		}
	}
	return sb.String()
}

// sigGood: the ideal-scheme verdict for one signature over message id msg, as the code's check would see
// it (key present, scheme usable through this entry point, key decodable, made for exactly this message).
func (s scSigAbs) good(msg int, n3on bool) bool {
	if !s.present || s.signed != msg {
		return false
	}
	if s.scheme == 3 && n3on {
		return true
	}
	return s.kc == "k" && s.scheme >= 0 && s.scheme <= 2
}

// scSpec is the property's acceptance condition, written declaratively over the abstraction (NOT the loop).
func scSpec(a scAbs, n3on bool) bool {
	if len(a.vs) == 0 {
		return false
	}
	chain := len(a.metas) == 0 || a.metas[0].hv == 0 || a.metas[0].major < 2 || (a.metas[0].major == 2 && a.metas[0].minor < 25)
	metaID := func(i int) int {
		if i < len(a.metas) {
			return a.metas[i].id
		}
		return 0
	}
	if !chain {
		return a.vs[0].sigs[0].good(metaID(0), n3on) && a.vs[0].sigs[2].good(a.body, n3on)
	}
	mo := len(a.metas) - 1
	if mo < 0 {
		mo = 0
	}
	if mo != len(a.vs)-1 {
		return false
	}
	for i, v := range a.vs {
		last := i == len(a.vs)-1
		origin := 0
		if !last {
			origin = a.vs[i+1].id
		}
		if !v.sigs[0].good(metaID(i), n3on) || !v.sigs[1].good(origin, n3on) {
			return false
		}
		if last && !v.sigs[2].good(a.body, n3on) {
			return false
		}
		if !last && v.sigs[2].present {
			return false
		}
	}
	return true
}

// ---- running the real code ----

func scErrClass(err error) string {
	if err == nil {
		return "=> ok"
	}
	var st apistatus.SignatureVerification
	if !errors.As(err, &st) {
		return "=> other-error"
	}
	msg := st.Message()
	switch msg {
	case "missing verification header":
		return "=> missing-vh"
	case "incorrect number of verification headers":
		return "=> wrong-num"
	}
	const pfx = "invalid verification header at depth "
	if !strings.HasPrefix(msg, pfx) {
		return "=> other-message"
	}
	rest := msg[len(pfx):]
	i := strings.Index(rest, ": ")
	if i < 0 {
		return "=> other-message"
	}
	d, cause := rest[:i], rest[i+2:]
	sigerr := func(s string) string {
		switch {
		case s == "missing public key":
			return "missing-key"
		case strings.HasPrefix(s, "negative scheme"):
			return "neg-scheme"
		case strings.HasPrefix(s, "unsupported scheme"):
			return "unsupported"
		case strings.HasPrefix(s, "decode public key from binary"):
			return "bad-key"
		case s == "signature mismatch":
			return "mismatch"
		case strings.HasPrefix(s, "run verification script") || s == "verification script run resulted in false":
			return "n3fail"
		}
		return "other"
	}
	var c string
	switch {
	case cause == "missing meta header's signature":
		c = "missing-meta"
	case strings.HasPrefix(cause, "invalid meta header's signature: "):
		c = "invalid-meta:" + sigerr(strings.TrimPrefix(cause, "invalid meta header's signature: "))
	case cause == "missing verification header's origin signature":
		c = "missing-origin"
	case strings.HasPrefix(cause, "invalid verification header's origin signature: "):
		c = "invalid-origin:" + sigerr(strings.TrimPrefix(cause, "invalid verification header's origin signature: "))
	case cause == "missing body signature":
		c = "missing-body"
	case strings.HasPrefix(cause, "invalid body signature: "):
		c = "invalid-body:" + sigerr(strings.TrimPrefix(cause, "invalid body signature: "))
	case cause == "body signature is set in non-origin verification header":
		c = "non-origin-body"
	default:
		c = "other"
	}
	return "=> layer d=" + d + " " + c
}

func scRun(api string, trusted bool, req *protoobject.GetRequest, t *scTable) (obs string) {
	defer func() {
		if r := recover(); r != nil {
			obs = "=> panic"
		}
	}()
	ctx := context.Background()
	if trusted {
		ctx = peer.NewContext(ctx, &peer.Peer{AuthInfo: peerauth.AuthInfo{}})
	}
	var err error
	switch api {
	case "plain":
		err = verifbridge.CryptoVerifyRequestSignatures[*protoobject.GetRequest_Body](req)
	case "ctx":
		err = verifbridge.CryptoVerifyRequestSignaturesWithContext[*protoobject.GetRequest_Body](ctx, req)
	default:
		err = verifbridge.CryptoVerifyRequestSignaturesN3[*protoobject.GetRequest_Body](ctx, req, t)
	}
	return scErrClass(err)
}

// scAuthor runs the real icrypto.GetRequestAuthor on the request's verification header: the name of the returned key
// bytes (scKeyID) or the failure; idOK = the returned account is the one derived from that key.
func scAuthor(req *protoobject.GetRequest) (obs string, kid int, scheme int32, idOK bool) {
	defer func() {
		if r := recover(); r != nil {
			obs, kid = "panic", -1
		}
	}()
	id, key, err := verifbridge.CryptoGetRequestAuthor(req.VerifyHeader)
	if err != nil {
		switch msg := err.Error(); {
		case msg == "missing verification header":
			return "no-vh", -1, 0, true
		case msg == "missing body signature":
			return "no-body-sig", -1, 0, true
		case strings.HasPrefix(msg, "unsupported scheme"):
			return "bad-scheme", -1, 0, true
		}
		return "other-error", -1, 0, true
	}
	kid = scKeyID(key)
	// the account must be derived from the returned key bytes: the user id of an ECDSA key, or the account of a script
	idOK = id == user.NewFromScriptHash(hash.Hash160(key))
	if kid >= 1 && kid <= 8 {
		idOK = idOK || id == user.NewFromECDSAPublicKey(scKeys[kid-1].PrivateKey.PublicKey)
	}
	return strconv.Itoa(kid), kid, scheme, idOK
}

// scVerifiedBodySigners: key ids of the body signatures that verification of THIS request examined and that are good
// over its body (declaratively: >= 2.25 variant - the top layer only; chain variant - every layer).
func scVerifiedBodySigners(a scAbs, n3on bool) map[int]bool {
	res := map[int]bool{}
	chain := len(a.metas) == 0 || a.metas[0].hv == 0 || a.metas[0].major < 2 || (a.metas[0].major == 2 && a.metas[0].minor < 25)
	for i, v := range a.vs {
		if !chain && i > 0 {
			break
		}
		if v.sigs[2].good(a.body, n3on) {
			res[v.sigs[2].kid] = true
		}
	}
	return res
}

var scRecipeKeys = []string{"seed", "depth", "sch", "ver", "ttl", "api", "trusted", "mut"}

func scExec(c *runCtx, ops []string) {
	c.independent = true
	for _, line := range ops {
		o := parseOp(line)
		if o.name == "replicate" {
			repExecOne(c, line, o)
			continue
		}
		if o.name != "verify" {
			c.emit(line, "=> bad-op")
			continue
		}
		seed := o.int("seed")
		t := &scTable{signed: map[string][]byte{}, n3: map[string]bool{}, rng: rand.New(rand.NewPCG(uint64(seed), 33))}
		req := scBuild(o, t)
		muts := scSplit(o.kv["mut"])
		for _, m := range muts {
			scMutate(req, t, m)
		}
		abs := scAbstract(req, t)
		api, trusted := o.kv["api"], o.kv["trusted"] == "1"
		// canonical line: recipe + derived description
		var sb strings.Builder
		sb.WriteString("sigchain verify")
		for _, k := range scRecipeKeys {
			fmt.Fprintf(&sb, " %s=%s", k, o.kv[k])
		}
		sb.WriteString(" " + abs.String())
		full := sb.String()

		obs := scRun(api, trusted, req, t)
		author, authorKey, _, authorIDOK := scAuthor(req)
		c.emit(full, obs+" a="+author)
		if authorKey >= 0 {
			c.count("author:key")
		} else {
			c.count("author:" + author)
		}

		c.count("api:" + api)
		c.count("depth:" + strconv.Itoa(len(abs.vs)))
		if strings.HasPrefix(obs, "=> layer d=") {
			c.count("errdepth:" + strings.Fields(obs)[2])
		}
		c.count("muts:" + strconv.Itoa(len(muts)))
		cls := strings.TrimPrefix(obs, "=> ")
		if strings.HasPrefix(cls, "layer") {
			cls = cls[strings.LastIndexByte(cls, ' ')+1:]
		}
		c.count("res:" + cls)
		for _, m := range muts {
			c.count("mut:" + strings.SplitN(m, ":", 2)[0])
		}
		if len(abs.vs) >= 2 && len(muts) > 0 {
			c.nontrivial(full)
		}

		// the property's own predicate on the implementation's verdict
		n3on := api == "n3"
		spec := scSpec(abs, n3on)
		exempt := api != "plain" && len(abs.vs) == 0 && len(abs.metas) > 0 && abs.metas[0].ttl == 1 && trusted
		ok := obs == "=> ok"
		detail := full + "  " + obs
		c.oracle("accepted-only-if-every-layer-verifies-or-exempt", !ok || spec || exempt, detail)
		c.oracle("well-signed-request-accepted", !(spec || exempt) || ok, detail)
		c.oracle("no-panic", obs != "=> panic", detail)
		// whose request is it: the author of an ACCEPTED request is a key whose signature over this very body was verified
		if ok {
			detail := detail + " a=" + author
			c.oracle("author-of-accepted-request-never-panics", author != "panic", detail)
			if authorKey >= 0 {
				c.oracle("author-is-a-key-whose-body-signature-was-verified", scVerifiedBodySigners(abs, n3on)[authorKey],
					detail+fmt.Sprintf(" (request attributed to key %d which made no verified signature over this body)", authorKey))
				c.oracle("author-account-derived-from-returned-key", authorIDOK, detail)
				if len(abs.vs) >= 2 {
					c.count("author:forwarded-accepted")
				}
			}
		}
		if len(muts) == 0 && o.int("depth") >= 1 {
			homog := true
			vs := scSplit(o.kv["ver"])
			for _, v := range vs {
				homog = homog && v == vs[0]
			}
			schemesOK := true
			for _, s := range o.ints("sch") {
				schemesOK = schemesOK && (s <= 2 || n3on)
			}
			if homog && schemesOK {
				c.oracle("untouched-request-accepted", ok, detail)
			}
		}
	}
}

// ---- generation ----

func scGen(c *runCtx, run func([]string)) {
	var ops []string
	if c.prop == "C31" {
		repGen(c, func(l string) { ops = append(ops, l) })
		run(ops)
		return
	}
	line := func(seed, depth int, sch []int, ver []string, ttl int, api string, trusted int, muts []string) string {
		m := "-"
		if len(muts) > 0 {
			m = strings.Join(muts, ",")
		}
		return fmt.Sprintf("sigchain verify seed=%d depth=%d sch=%s ver=%s ttl=%d api=%s trusted=%d mut=%s",
			seed, depth, joinInts(sch), strings.Join(ver, ","), ttl, api, trusted, m)
	}
	apis := []string{"plain", "ctx", "n3"}
	kinds := []string{"m", "o", "b"}
	rep := func(s string, n int) []string {
		r := make([]string, n)
		for i := range r {
			r[i] = s
		}
		return r
	}
	seed := 0
	next := func() int { seed++; return seed }
	// 1. grid: every single-signature mutation at every layer and kind, depth 1..4, both variants
	for depth := 1; depth <= 4; depth++ {
		for _, ver := range []string{"2.18", "2.25", "n"} {
			sch := make([]int, depth)
			for i := range sch {
				sch[i] = c.rng.IntN(3)
			}
			api := apis[c.rng.IntN(3)]
			ops = append(ops, line(next(), depth, sch, rep(ver, depth), 1+c.rng.IntN(2), api, c.rng.IntN(2), nil))
			for l := 0; l < depth; l++ {
				for _, k := range kinds {
					for _, mk := range []string{"fs", "ns", "ek", "bk", "sk", "sc", "es", "rs"} {
						mut := fmt.Sprintf("%s:%d:%s", mk, l, k)
						switch mk {
						case "fs":
							mut += fmt.Sprintf(":%d", c.rng.IntN(64))
						case "sk":
							mut += fmt.Sprintf(":%d", 5+c.rng.IntN(3))
						case "sc":
							mut += fmt.Sprintf(":%d", []int{-1, 0, 1, 2, 3, 4, 9}[c.rng.IntN(7)])
						case "rs":
							mut += fmt.Sprintf(":%d:%d", 5+c.rng.IntN(3), c.rng.IntN(4))
						}
						if !c.thorough() && depth >= 3 && c.rng.IntN(2) == 0 {
							continue
						}
						ops = append(ops, line(next(), depth, sch, rep(ver, depth), 1, api, c.rng.IntN(2), []string{mut}))
						if l >= 1 && c.rng.IntN(2) == 0 {
							ops = append(ops, line(next(), depth, sch, rep(ver, depth), 1, api, c.rng.IntN(2), []string{mut, fmt.Sprintf("fx:%d", l)}))
						}
					}
				}
				for _, mk := range []string{"dm", "um", "tm", "dv", "uv", "tv", "xv", "mm:%d:e", "mm:%d:t", "mm:%d:x", "mm:%d:v2.25", "mm:%d:vn", "mm:%d:v2.24", "mm:%d:v3.0", "mm:%d:v1.99"} {
					mut := fmt.Sprintf("%s:%d", mk, l)
					if strings.Contains(mk, "%d") {
						mut = fmt.Sprintf(mk, l)
					}
					ops = append(ops, line(next(), depth, sch, rep(ver, depth), 1, api, c.rng.IntN(2), []string{mut}))
				}
			}
			for _, mut := range []string{"bb", "ba", "nb", "nm", "nv"} {
				ops = append(ops, line(next(), depth, sch, rep(ver, depth), 1, api, c.rng.IntN(2), []string{mut}))
			}
		}
	}
	// 2. the exemption table: api x trusted x ttl x header present x meta present
	for _, api := range apis {
		for trusted := 0; trusted <= 1; trusted++ {
			for ttl := 0; ttl <= 3; ttl++ {
				for _, muts := range [][]string{{"nv"}, {"nv", "nm"}, nil, {"nv", "mm:0:t1"}, {"fs:0:b:3"}, {"nv", "nb"}} {
					ops = append(ops, line(next(), 1, []int{c.rng.IntN(3)}, []string{[]string{"2.18", "2.25", "n"}[c.rng.IntN(3)]}, ttl, api, trusted, muts))
				}
			}
		}
	}
	// 3. N3 witnesses through all three entry points
	for depth := 1; depth <= 3; depth++ {
		for _, api := range apis {
			for _, ver := range []string{"2.18", "2.25"} {
				sch := rep2(3, depth)
				ops = append(ops, line(next(), depth, sch, rep(ver, depth), 1, api, 0, nil))
				ops = append(ops, line(next(), depth, sch, rep(ver, depth), 1, api, 0, []string{fmt.Sprintf("fs:%d:m:4", c.rng.IntN(depth))}))
				ops = append(ops, line(next(), depth, sch, rep(ver, depth), 1, api, 0, []string{fmt.Sprintf("ek:%d:%s", c.rng.IntN(depth), kinds[c.rng.IntN(3)])}))
				ops = append(ops, line(next(), depth, sch, rep(ver, depth), 1, api, 0, []string{"bb"}))
			}
		}
	}
	// 5. whose request is it (GetRequestAuthor): requests with nested origin headers that name ANOTHER key, meta versions of
	// the top layer around 2.25. An existing request (1..3 layers signed by keys 0..2 under inner version V) is taken by key K,
	// optionally given another body, wrapped into one more meta header of version W and signed the way forwarding does; or the
	// top layer of an existing chain is re-signed by K in place (body and meta signatures) over a changed body.
	for depth := 1; depth <= 3; depth++ {
		for _, inner := range []string{"2.18", "2.25", "n"} {
			for _, outer := range []string{"2.24", "2.25", "2.26", "3.0", "1.99", "n"} {
				for _, bodyMut := range []string{"", "ba", "bb"} {
					sch := make([]int, depth)
					for i := range sch {
						sch[i] = c.rng.IntN(3)
					}
					k, ksch := 4+c.rng.IntN(4), c.rng.IntN(3)
					var muts []string
					if bodyMut != "" {
						muts = append(muts, bodyMut)
					}
					muts = append(muts, fmt.Sprintf("fw:%d:%d:%s", k, ksch, outer))
					ops = append(ops, line(next(), depth, sch, rep(inner, depth), 1+c.rng.IntN(2), apis[c.rng.IntN(3)], c.rng.IntN(2), muts))
				}
			}
			// in place: change the body, re-sign the top layer's body (and meta) signature by another key
			for _, top := range []string{"2.24", "2.25", "2.26", "n"} {
				sch := make([]int, depth)
				for i := range sch {
					sch[i] = c.rng.IntN(3)
				}
				k, ksch := 4+c.rng.IntN(4), c.rng.IntN(3)
				muts := []string{fmt.Sprintf("mm:0:v%s", top), "ba", fmt.Sprintf("rs:0:b:%d:%d", k, ksch), fmt.Sprintf("rs:0:m:%d:%d", k, ksch)}
				if top == "n" {
					muts[0] = "mm:0:vn"
				}
				ops = append(ops, line(next(), depth, sch, rep(inner, depth), 1, apis[c.rng.IntN(3)], c.rng.IntN(2), muts))
			}
		}
	}
	// N3 author (account of the verification script) and the scheme / key defects GetRequestAuthor itself has to survive
	for _, api := range apis {
		ops = append(ops, line(next(), 1, []int{3}, []string{"2.25"}, 2, api, 0, nil))
		ops = append(ops, line(next(), 2, []int{0, 3}, []string{"2.25", "2.25"}, 2, api, 0, nil))
		for _, mut := range []string{"sc:0:b:4", "sc:0:b:-1", "sc:0:b:3", "bk:0:b", "ek:0:b", "ns:0:b", "sk:0:b:6"} {
			ops = append(ops, line(next(), 1+c.rng.IntN(2), []int{c.rng.IntN(3), c.rng.IntN(3)}, []string{"2.25", "2.25"}, 2, api, 0, []string{mut}))
		}
	}
	// 4. seeded random requests with 0..3 mutations, mixed versions and schemes
	n := c.n(1500, 40000)
	for i := 0; i < n; i++ {
		depth := 1 + c.rng.IntN(4)
		sch := make([]int, depth)
		for j := range sch {
			sch[j] = c.rng.IntN(3)
			if c.rng.IntN(6) == 0 {
				sch[j] = 3
			}
		}
		var ver []string
		switch c.rng.IntN(5) {
		case 0:
			ver = rep("2.25", depth)
		case 1:
			ver = rep("n", depth)
		case 2:
			for j := 0; j < depth; j++ {
				ver = append(ver, []string{"2.18", "2.25", "2.24", "n", "3.0", "1.30"}[c.rng.IntN(6)])
			}
		default:
			ver = rep("2.18", depth)
		}
		var muts []string
		nm := []int{0, 1, 1, 1, 2, 2, 3}[c.rng.IntN(7)]
		for j := 0; j < nm; j++ {
			muts = append(muts, scRandMut(c, depth))
		}
		if nm > 0 && c.rng.IntN(3) == 0 {
			muts = append(muts, fmt.Sprintf("fx:%d", 1+c.rng.IntN(depth)))
		}
		ops = append(ops, line(next(), depth, sch, ver, 1+c.rng.IntN(3), apis[c.rng.IntN(3)], c.rng.IntN(2), muts))
	}
	run(ops)
}

func rep2(v, n int) []int {
	r := make([]int, n)
	for i := range r {
		r[i] = v
	}
	return r
}

func scRandMut(c *runCtx, depth int) string {
	l := c.rng.IntN(depth + 1)
	if c.rng.IntN(3) > 0 {
		l = c.rng.IntN(depth)
	}
	k := []string{"m", "o", "b"}[c.rng.IntN(3)]
	switch c.rng.IntN(24) {
	case 0:
		return fmt.Sprintf("fs:%d:%s:%d", l, k, c.rng.IntN(80))
	case 1:
		return fmt.Sprintf("ns:%d:%s", l, k)
	case 2:
		return fmt.Sprintf("ek:%d:%s", l, k)
	case 3:
		return fmt.Sprintf("bk:%d:%s", l, k)
	case 4:
		return fmt.Sprintf("sk:%d:%s:%d", l, k, c.rng.IntN(8))
	case 5:
		return fmt.Sprintf("sc:%d:%s:%d", l, k, []int{-1, 0, 1, 2, 3, 4}[c.rng.IntN(6)])
	case 6:
		return fmt.Sprintf("rs:%d:%s:%d:%d", l, k, c.rng.IntN(8), c.rng.IntN(4))
	case 7:
		return fmt.Sprintf("cs:%d:%s:%d:%s", l, k, c.rng.IntN(depth), []string{"m", "o", "b"}[c.rng.IntN(3)])
	case 8:
		return "bb"
	case 9:
		return "ba"
	case 10:
		return "nb"
	case 11:
		return fmt.Sprintf("mm:%d:%s", l, []string{"e", "t", "t1", "x", "vn", "v2.25", "v2.18", "v2.24", "v3.0"}[c.rng.IntN(9)])
	case 12:
		return fmt.Sprintf("dm:%d", l)
	case 13:
		return fmt.Sprintf("um:%d", l)
	case 14:
		return fmt.Sprintf("tm:%d", l)
	case 15:
		return "nm"
	case 16:
		return fmt.Sprintf("dv:%d", l)
	case 17:
		return fmt.Sprintf("uv:%d", l)
	case 18:
		return fmt.Sprintf("tv:%d", l)
	case 19:
		return fmt.Sprintf("xv:%d", l)
	case 20:
		return "nv"
	case 21:
		return fmt.Sprintf("fw:%d:%d:%s", c.rng.IntN(8), c.rng.IntN(4), []string{"2.18", "2.25", "n"}[c.rng.IntN(3)])
	case 22:
		return fmt.Sprintf("es:%d:%s", l, k)
	default:
		return fmt.Sprintf("rs:%d:b:%d:%d", l, c.rng.IntN(8), c.rng.IntN(3))
	}
}
