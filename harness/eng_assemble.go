package main

import (
	"context"
	"crypto/ecdsa"
	"crypto/elliptic"
	"crypto/rand"
	"errors"
	"fmt"
	"hash/fnv"
	"os"
	"path/filepath"
	"sort"
	"strconv"
	"strings"
	"time"

	"github.com/google/uuid"
	clientcore "github.com/nspcc-dev/neofs-node/pkg/core/client"
	"github.com/nspcc-dev/neofs-node/pkg/local_object_storage/engine"
	getsvc "github.com/nspcc-dev/neofs-node/pkg/services/object/get"
	objutil "github.com/nspcc-dev/neofs-node/pkg/services/object/util"
	"github.com/nspcc-dev/neofs-node/pkg/util/verifbridge"
	cid "github.com/nspcc-dev/neofs-sdk-go/container/id"
	"github.com/nspcc-dev/neofs-sdk-go/netmap"
	"github.com/nspcc-dev/neofs-sdk-go/object"
	oid "github.com/nspcc-dev/neofs-sdk-go/object/id"
	"go.uber.org/zap"
)

// Engine "assemble" (property C23): the REAL object GET service (getsvc.Service) over a REAL local storage
// engine holding size-split chains (both split schemes, with and without the link object), erasure-coded
// objects with missing parts and size-split objects whose children are erasure-coded. Every op line is
// self-contained: it describes the stored layout and one read request.
//
//	assemble read kind=whole|split|ec|splitec ver=1|2 link=0|1 sizes=3,5,2 seed=7 d=2 p=1 miss=- api=get|range mode=0..4 first=F second=S
//
// miss lists unavailable EC parts as child*10+part (child = 0 for kind=ec); the link object of an EC container is stored whole.
// Observation: "=> ok n=<len> sum=<fnv32a>" or "=> err <class>".

func init() {
	run := seqRunner{gen: asmGen, exec: asmExec}.engine()
	engines["assemble"] = func(c *runCtx) error {
		defer asmCloseWorld() // the world (a storage engine in a scratch directory) lives for one run
		return run(c)
	}
}

type asmNet struct {
	rules map[cid.ID]verifbridge.ECRule
	nodes []netmap.NodeInfo
}

func (n *asmNet) GetNodesForObject(addr oid.Address) ([][]netmap.NodeInfo, []uint, []verifbridge.ECRule, error) {
	if r, ok := n.rules[addr.Container()]; ok {
		return [][]netmap.NodeInfo{n.nodes[:int(r.DataPartNum+r.ParityPartNum)]}, nil, []verifbridge.ECRule{r}, nil
	}
	return [][]netmap.NodeInfo{n.nodes[:1]}, []uint{1}, nil, nil
}

// every node of the placement is the local one: the first node asked for a part is served by the local
// engine, the others go to the (always failing) remote client constructor.
func (n *asmNet) IsLocalNodePublicKey([]byte) bool { return true }

type asmNoRemote struct{}

func (asmNoRemote) Get(context.Context, netmap.NodeInfo) (clientcore.MultiAddressClient, error) {
	return nil, errors.New("no remote nodes in this world")
}

type asmWorld struct {
	dir     string
	eng     *engine.StorageEngine
	svc     *getsvc.Service
	net     *asmNet
	layouts map[string]*asmStored
}

type asmStored struct {
	addr    oid.Address
	payload []byte
}

var asmW *asmWorld

// asmHung is set when a request did not return (an endless loop in the implementation).
var asmHung bool

const asmRequestTimeout = 15 * time.Second

func asmGetWorld() *asmWorld {
	if asmW != nil {
		return asmW
	}
	dir := scratchDir("assemble")
	eng, _ := newEngine(filepath.Join(dir, "eng"), 1, shardCfg{})
	net := &asmNet{rules: map[cid.ID]verifbridge.ECRule{}}
	for i := 0; i < 8; i++ {
		var ni netmap.NodeInfo
		ni.SetPublicKey([]byte{2, byte(i + 1)})
		net.nodes = append(net.nodes, ni)
	}
	key, err := ecdsa.GenerateKey(elliptic.P256(), rand.Reader)
	if err != nil {
		panic(err)
	}
	svc := getsvc.New(net,
		getsvc.WithLogger(asmLogger()),
		getsvc.WithLocalStorageEngine(eng),
		getsvc.WithClientConstructor(asmNoRemote{}),
		getsvc.WithKeyStorage(objutil.NewKeyStorage(key, nil, nil)),
	)
	asmW = &asmWorld{dir: dir, eng: eng, svc: svc, net: net, layouts: map[string]*asmStored{}}
	return asmW
}

func asmCloseWorld() {
	if asmW != nil {
		asmW.eng.Close()
		os.RemoveAll(asmW.dir)
		asmW = nil
	}
}

type asmLayout struct {
	kind  string
	ver   int
	link  bool
	sizes []int
	seed  int
	d, p  int
	miss  map[int]bool
}

func asmLayoutKey(o opLine) string {
	return fmt.Sprintf("kind=%s ver=%s link=%s sizes=%s seed=%s d=%s p=%s miss=%s", o.kv["kind"], o.kv["ver"], o.kv["link"],
		o.kv["sizes"], o.kv["seed"], o.kv["d"], o.kv["p"], o.kv["miss"])
}

func asmParseLayout(o opLine) (l asmLayout, ok bool) {
	defer func() {
		if recover() != nil {
			ok = false
		}
	}()
	l.kind = o.kv["kind"]
	l.ver, l.link, l.sizes, l.seed = o.int("ver"), o.int("link") == 1, o.ints("sizes"), o.int("seed")
	l.d, l.p = o.int("d"), o.int("p")
	l.miss = map[int]bool{}
	for _, m := range o.ints("miss") {
		l.miss[m] = true
	}
	switch l.kind {
	case "whole", "ec":
		if len(l.sizes) != 1 {
			return l, false
		}
	case "split", "splitec":
		if len(l.sizes) < 2 || (l.ver != 1 && l.ver != 2) {
			return l, false
		}
		if l.kind == "splitec" && l.ver != 2 {
			return l, false
		}
	default:
		return l, false
	}
	if (l.kind == "ec" || l.kind == "splitec") && (l.d < 1 || l.d+l.p > 8) {
		return l, false
	}
	for _, s := range l.sizes {
		if s < 0 || s > 1<<20 {
			return l, false
		}
	}
	return l, true
}

func hdrOnly(o *object.Object) *object.Object {
	h := o.CutPayload()
	h.SetPayloadSize(o.PayloadSize())
	return h
}

// store builds the objects of a layout in its own container and puts them into the engine.
func (w *asmWorld) store(l asmLayout, cn int) *asmStored {
	total := 0
	for _, s := range l.sizes {
		total += s
	}
	payload := detPayload(total, l.seed)
	root := mkObject(cn, 1, payload)
	st := &asmStored{addr: numAddr(cn, 1), payload: payload}
	put := func(obj *object.Object) {
		if err := w.eng.Put(context.Background(), obj, nil); err != nil {
			panic(fmt.Errorf("assemble world: put: %w", err))
		}
	}
	nextID := 100
	// putEC stores the available EC parts of obj (index objIdx in the miss encoding).
	putEC := func(obj *object.Object, objIdx int) {
		rule := verifbridge.ECRule{DataPartNum: uint8(l.d), ParityPartNum: uint8(l.p)}
		parts, _, err := verifbridge.ECEncode(rule, append([]byte(nil), obj.Payload()...))
		if err != nil {
			panic(fmt.Errorf("assemble world: encode: %w", err))
		}
		for i := range parts {
			nextID++
			if l.miss[objIdx*10+i] {
				continue
			}
			part := mkObject(cn, nextID, parts[i])
			part.SetParent(hdrOnly(obj))
			part.SetAttributes(object.NewAttribute("__NEOFS__EC_RULE_IDX", "0"), object.NewAttribute("__NEOFS__EC_PART_IDX", strconv.Itoa(i)))
			put(part)
		}
	}
	ec := l.kind == "ec" || l.kind == "splitec"
	if ec {
		w.net.rules[numCID(cn)] = verifbridge.ECRule{DataPartNum: uint8(l.d), ParityPartNum: uint8(l.p)}
	}
	switch l.kind {
	case "whole":
		put(root)
	case "ec":
		putEC(root, 0)
	case "split", "splitec":
		parHdr := hdrOnly(root)
		var children []*object.Object
		off := 0
		for i, s := range l.sizes {
			c := mkObject(cn, 10+i, payload[off:off+s])
			off += s
			if l.ver == 1 {
				c.SetSplitID(asmSplitID(cn))
			} else if i > 0 {
				c.SetFirstID(numOID(10))
			}
			if i > 0 {
				c.SetPreviousID(numOID(10 + i - 1))
			}
			if i == len(l.sizes)-1 {
				c.SetParent(parHdr)
				c.SetParentID(numOID(1))
			}
			children = append(children, c)
		}
		var linkObj *object.Object
		if l.link {
			linkObj = mkObject(cn, 5, nil)
			if l.ver == 1 {
				linkObj.SetSplitID(asmSplitID(cn))
				ids := make([]oid.ID, len(children))
				for i := range children {
					ids[i] = children[i].GetID()
				}
				linkObj.SetChildren(ids...)
			} else {
				linkObj.SetType(object.TypeLink)
				linkObj.SetFirstID(numOID(10))
				mm := make([]object.MeasuredObject, len(children))
				for i := range children {
					mm[i].SetObjectID(children[i].GetID())
					mm[i].SetObjectSize(uint32(children[i].PayloadSize()))
				}
				var lnk object.Link
				lnk.SetObjects(mm)
				linkObj.WriteLink(lnk)
				linkObj.SetPayloadSize(uint64(len(linkObj.Payload())))
			}
			linkObj.SetParent(parHdr)
			linkObj.SetParentID(numOID(1))
		}
		if l.kind == "split" {
			for _, c := range children {
				put(c)
			}
			if linkObj != nil {
				put(linkObj)
			}
		} else {
			for i, c := range children {
				putEC(c, i)
			}
			if linkObj != nil { // in EC containers the link object is stored whole, never EC-coded (shard.getECPartFunc)
				put(linkObj)
			}
		}
	}
	return st
}

type asmWriter struct {
	hdr  *object.Object
	data []byte
}

func (w *asmWriter) WriteHeader(h *object.Object) error { w.hdr = h; return nil }
func (w *asmWriter) WriteChunk(p []byte) error          { w.data = append(w.data, p...); return nil }

func asmExec(c *runCtx, ops []string) {
	c.independent = true
	for _, line := range ops {
		o := parseOp(line)
		if o.name != "read" {
			c.emit(line, "=> bad-op")
			continue
		}
		l, ok := asmParseLayout(o)
		if !ok {
			c.emit(line, "=> bad-op")
			continue
		}
		api := o.kv["api"]
		mode, merr := strconv.Atoi(o.kv["mode"])
		first, ferr := strconv.ParseUint(o.kv["first"], 10, 64)
		second, serr := strconv.ParseUint(o.kv["second"], 10, 64)
		if merr != nil || ferr != nil || serr != nil || mode < 0 || mode > 4 || (api != "get" && api != "range") || (api == "range" && mode != 1) {
			c.emit(line, "=> bad-op")
			continue
		}
		w := asmGetWorld()
		key := asmLayoutKey(o)
		st := w.layouts[key]
		if st == nil {
			st = w.store(l, len(w.layouts)+1)
			w.layouts[key] = st
		}
		c.count("kind:" + l.kind)
		c.count("api:" + api + "/mode" + strconv.Itoa(mode))

		if asmHung {
			// a request of this run never returned and its goroutine still spins: stop exercising the service
			c.emit(line, "=> err hang")
			continue
		}
		out := &asmWriter{}
		var err error
		done := make(chan struct{})
		go func() {
			defer close(done)
			defer func() {
				if r := recover(); r != nil {
					err = fmt.Errorf("PANIC: %v", r)
				}
			}()
			cp := new(objutil.CommonPrm).WithLocalOnly(false)
			if api == "get" {
				var p getsvc.Prm
				p.SetObjectWriter(out)
				p.SetCommonParameters(cp)
				p.WithAddress(st.addr)
				switch mode {
				case 1:
					r := object.NewRange()
					r.SetOffset(first)
					r.SetLength(second)
					p.SetRange(r)
				case 2:
					p.SetRangeBounds(first, second)
				case 3:
					p.SetRangeFrom(first)
				case 4:
					p.SetRangeSuffix(first)
				}
				err = w.svc.Get(c.ctx(), p)
			} else {
				var p getsvc.RangePrm
				p.SetChunkWriter(out)
				p.SetCommonParameters(cp)
				p.WithAddress(st.addr)
				r := object.NewRange()
				r.SetOffset(first)
				r.SetLength(second)
				p.SetRange(r)
				err = w.svc.GetRange(c.ctx(), p)
			}
		}()
		select {
		case <-done:
		case <-time.After(asmRequestTimeout):
			asmHung = true
			c.count("err:hang")
			c.emit(line, "=> err hang")
			c.oracle("request-terminates", false, asmLayoutKey(o)+": the request did not return within "+asmRequestTimeout.String())
			continue
		}

		n := uint64(len(st.payload))
		wo, wl, wok := refSlice(mode, first, second, n)
		// every stored object misses at most p parts?
		recoverable := true
		if l.kind == "ec" || l.kind == "splitec" {
			cnt := map[int]int{}
			for m := range l.miss {
				cnt[m/10]++
			}
			for _, k := range cnt {
				if k > l.p {
					recoverable = false
				}
			}
		}
		desc := fmt.Sprintf("%s: payload %d bytes, request denotes [%d,+%d) satisfiable=%v", key, n, wo, wl, wok)
		if err != nil {
			cls := errClass(err)
			if strings.HasPrefix(err.Error(), "PANIC") {
				cls = "panic"
			}
			c.count("err:" + cls)
			c.emit(line, "=> err "+cls)
			if wok && recoverable {
				c.oracleSig("satisfiable-read-returns-bytes", l.kind+"/"+cls, false, desc+": error "+clip(err.Error()))
			} else if !wok && recoverable {
				c.oracleSig("out-of-range-iff-unsatisfiable", l.kind+"/"+cls, cls == "outOfRange", desc+": error "+clip(err.Error()))
			} else {
				c.oracle("no-panic", cls != "panic", desc+": "+clip(err.Error()))
			}
			continue
		}
		h := fnv.New32a()
		h.Write(out.data)
		c.emit(line, fmt.Sprintf("=> ok n=%d sum=%d", len(out.data), h.Sum32()))
		good := wok && uint64(len(out.data)) == wl && string(out.data) == string(st.payload[wo:wo+wl])
		c.oracleSig("read-bytes-are-the-original-slice", l.kind+"/v"+strconv.Itoa(l.ver)+"/l"+o.kv["link"]+"/"+api, good,
			fmt.Sprintf("%s: got %d bytes", desc, len(out.data)))
		if wok && wl > 0 && wl < n && l.kind != "whole" {
			c.nontrivial(line)
		}
	}
}

func asmFmt(l asmLayout, api string, mode int, first, second uint64) string {
	var miss []int
	for m := range l.miss {
		miss = append(miss, m)
	}
	sort.Ints(miss)
	lk := 0
	if l.link {
		lk = 1
	}
	return fmt.Sprintf("assemble read kind=%s ver=%d link=%d sizes=%s seed=%d d=%d p=%d miss=%s api=%s mode=%d first=%d second=%d",
		l.kind, l.ver, lk, joinInts(l.sizes), l.seed, l.d, l.p, joinInts(miss), api, mode, first, second)
}

// asmRequests: full GET, whole-range requests, every boundary of the children / EC parts, seeded ranges, overflow values.
func asmRequests(c *runCtx, l asmLayout, nReq int) []string {
	total := 0
	var bounds []int
	for _, s := range l.sizes {
		total += s
		bounds = append(bounds, total)
	}
	if l.kind == "ec" && l.d > 0 {
		per := (total + l.d - 1) / l.d
		for i := 1; i <= l.d; i++ {
			bounds = append(bounds, i*per)
		}
	}
	bounds = append(bounds, 0, total)
	var ops []string
	add := func(api string, mode int, first, second uint64) {
		ops = append(ops, asmFmt(l, api, mode, first, second))
	}
	add("get", 0, 0, 0)
	add("get", 1, 0, 0)
	add("range", 1, 0, 0)
	add("get", 3, 0, 0)
	add("range", 1, 0, uint64(total))
	near := func() int {
		b := bounds[c.rng.IntN(len(bounds))] + c.rng.IntN(3) - 1
		if b < 0 {
			b = 0
		}
		return b
	}
	huge := []uint64{1<<64 - 1, 1<<64 - 2, 1 << 63, 1<<63 - 1, 1 << 32}
	for i := 0; i < nReq; i++ {
		api := "get"
		if c.rng.IntN(2) == 0 {
			api = "range"
		}
		mode := 1
		if api == "get" && c.rng.IntN(3) == 0 {
			mode = 2 + c.rng.IntN(3)
		}
		var a, b int
		switch c.rng.IntN(4) {
		case 0:
			a, b = near(), near()
		case 1:
			a, b = c.rng.IntN(total+2), c.rng.IntN(total+2)
		default: // a random sub-range inside the payload
			a = c.rng.IntN(total + 1)
			b = a + c.rng.IntN(total-a+1)
		}
		if a > b && c.rng.IntN(4) != 0 {
			a, b = b, a
		}
		first, second := uint64(a), uint64(b-a)
		switch mode {
		case 2:
			second = uint64(b)
		case 3:
			second = 0
		case 4:
			first, second = uint64(b-a), 0
			if a > b {
				first = uint64(a)
			}
		}
		if c.rng.IntN(25) == 0 {
			first = huge[c.rng.IntN(len(huge))] - uint64(c.rng.IntN(3))
		}
		if mode <= 2 && c.rng.IntN(25) == 0 {
			second = huge[c.rng.IntN(len(huge))] - uint64(c.rng.IntN(3))
		}
		add(api, mode, first, second)
	}
	return ops
}

func asmGen(c *runCtx, run func([]string)) {
	nObj := c.n(110, 1500)
	for i := 0; i < nObj; i++ {
		var l asmLayout
		l.miss = map[int]bool{}
		l.seed = c.rng.IntN(250)
		l.ver = 1 + c.rng.IntN(2)
		l.link = c.rng.IntN(2) == 0
		l.d, l.p = 1+c.rng.IntN(4), c.rng.IntN(3)
		size := c.rng.IntN(301)
		if c.rng.IntN(8) == 0 {
			size = c.rng.IntN(8)
		}
		maxChild := 1 + c.rng.IntN(64)
		// the code's max-size splitting (all children full except the last), or arbitrary positive sizes
		var sizes []int
		if c.rng.IntN(3) != 0 {
			for rest := size; rest > 0; rest -= maxChild {
				sizes = append(sizes, min(rest, maxChild))
			}
		} else {
			for rest := size; rest > 0; {
				s := 1 + c.rng.IntN(min(rest, maxChild))
				sizes = append(sizes, s)
				rest -= s
			}
		}
		for len(sizes) > 6 { // at most 6 children: merge the tail
			sizes[len(sizes)-2] += sizes[len(sizes)-1]
			sizes = sizes[:len(sizes)-1]
		}
		ec := c.rng.IntN(2) == 0
		switch {
		case len(sizes) < 2 && !ec:
			l.kind, l.sizes = "whole", []int{size}
		case len(sizes) < 2:
			l.kind, l.sizes = "ec", []int{size}
		case !ec:
			l.kind, l.sizes = "split", sizes
		default:
			l.kind, l.sizes, l.ver = "splitec", sizes, 2
		}
		if ec && c.rng.IntN(4) != 0 {
			// some parts unavailable: mostly within the parity budget, sometimes beyond it
			nObjs := 1
			if l.kind == "splitec" {
				nObjs = len(sizes)
			}
			for oi := 0; oi < nObjs; oi++ {
				k := c.rng.IntN(l.p + 1)
				// (not for an empty payload: there the Go code races between the first header and the
				// failure counter of the concurrent part fetches, the answer is not deterministic)
				if c.rng.IntN(12) == 0 && size > 0 {
					k = l.p + 1
				}
				for _, pi := range c.rng.Perm(l.d + l.p)[:min(k, l.d+l.p)] {
					l.miss[oi*10+pi] = true
				}
			}
		}
		c.count("layout:" + l.kind)
		run(asmRequests(c, l, c.n(36, 60)))
	}
}

// asmSplitID is a valid (version 4) split UUID determined by the container number.
func asmSplitID(n int) *object.SplitID {
	var u uuid.UUID
	u[0], u[6], u[8] = 0x11, 0x40, 0x80
	u[14], u[15] = byte(n>>8), byte(n)
	s := object.NewSplitID()
	s.SetUUID(u)
	return s
}

func asmLogger() *zap.Logger {
	if os.Getenv("ASM_DEBUG") != "" {
		l, _ := zap.NewDevelopment()
		return l
	}
	return zap.NewNop()
}
