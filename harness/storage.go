package main

import (
	"crypto/sha256"
	"encoding/binary"
	"fmt"
	"os"
	"path/filepath"
	"sync/atomic"
	"time"

	"github.com/nspcc-dev/bbolt"
	"github.com/nspcc-dev/neo-go/pkg/util"
	"github.com/nspcc-dev/neofs-node/pkg/local_object_storage/blobstor/common"
	"github.com/nspcc-dev/neofs-node/pkg/local_object_storage/blobstor/fstree"
	"github.com/nspcc-dev/neofs-node/pkg/local_object_storage/engine"
	meta "github.com/nspcc-dev/neofs-node/pkg/local_object_storage/metabase"
	"github.com/nspcc-dev/neofs-node/pkg/local_object_storage/shard"
	"github.com/nspcc-dev/neofs-node/pkg/local_object_storage/writecache"
	"github.com/nspcc-dev/neofs-sdk-go/checksum"
	cid "github.com/nspcc-dev/neofs-sdk-go/container/id"
	"github.com/nspcc-dev/neofs-sdk-go/object"
	oid "github.com/nspcc-dev/neofs-sdk-go/object/id"
	"github.com/nspcc-dev/neofs-sdk-go/user"
)

// epochSrc is a settable epoch source shared by the components under test.
type epochSrc struct{ e atomic.Uint64 }

func (s *epochSrc) CurrentEpoch() uint64 { return s.e.Load() }

// numID maps a small number to the 32-byte big-endian id, so that numeric order,
// byte order and bbolt key order coincide.
func numOID(n int) oid.ID {
	var id oid.ID
	binary.BigEndian.PutUint64(id[24:], uint64(n))
	return id
}

func numCID(n int) cid.ID {
	var id cid.ID
	binary.BigEndian.PutUint64(id[24:], uint64(n))
	return id
}

func oidNum(id oid.ID) int { return int(binary.BigEndian.Uint64(id[24:])) }
func cidNum(id cid.ID) int { return int(binary.BigEndian.Uint64(id[24:])) }

func numAddr(c, o int) oid.Address { return oid.NewAddress(numCID(c), numOID(o)) }

func numOwner(n int) user.ID {
	var h util.Uint160
	binary.BigEndian.PutUint32(h[16:], uint32(n))
	return user.NewFromScriptHash(h)
}

// detPayload is the deterministic payload both sides can regenerate: byte i = (i*7 + seed) % 251.
func detPayload(size, seed int) []byte {
	b := make([]byte, size)
	for i := range b {
		b[i] = byte((i*7 + seed) % 251)
	}
	return b
}

func mkObject(c, o int, payload []byte) *object.Object {
	obj := object.New(numCID(c), numOwner(1))
	obj.SetID(numOID(o))
	obj.SetPayload(payload)
	obj.SetPayloadSize(uint64(len(payload)))
	obj.SetPayloadChecksum(checksum.NewSHA256(sha256.Sum256(payload)))
	obj.SetType(object.TypeRegular)
	return obj
}

func scratchDir(name string) string {
	d, err := os.MkdirTemp("", "vh-"+name+"-")
	if err != nil {
		panic(err)
	}
	return d
}

func newFSTree(dir string, opts ...fstree.Option) *fstree.FSTree {
	t := fstree.New(append([]fstree.Option{fstree.WithPath(dir), fstree.WithDepth(1)}, opts...)...)
	if err := t.Open(false); err != nil {
		panic(err)
	}
	if err := t.Init(common.ID{}); err != nil {
		panic(err)
	}
	return t
}

type shardCfg struct {
	wc       bool
	sync     bool // keep fsync on (crash experiments); off by default for speed
	epoch    *epochSrc
	extra    []shard.Option
	wcOpts   []writecache.Option
	fsOpts   []fstree.Option
	metaOpts []meta.Option
}

func shardOptions(dir string, cfg shardCfg) []shard.Option {
	if cfg.epoch == nil {
		cfg.epoch = &epochSrc{}
	}
	bs := fstree.New(append([]fstree.Option{fstree.WithPath(filepath.Join(dir, "blob")), fstree.WithDepth(1), fstree.WithNoSync(!cfg.sync), fstree.WithCombinedWriteInterval(200 * time.Microsecond)}, cfg.fsOpts...)...)
	opts := []shard.Option{
		shard.WithBlobstor(bs),
		shard.WithMetaBaseOptions(append([]meta.Option{
			meta.WithPath(filepath.Join(dir, "meta")),
			meta.WithPermissions(0o700),
			meta.WithEpochState(cfg.epoch),
			meta.WithMaxBatchDelay(time.Microsecond),
			meta.WithBoltDBOptions(&bbolt.Options{NoSync: !cfg.sync, NoGrowSync: !cfg.sync, NoFreelistSync: true, Timeout: time.Second, InitialMmapSize: 64 << 20}),
		}, cfg.metaOpts...)...),
		shard.WithGCRemoverSleepInterval(time.Hour),
	}
	if cfg.wc {
		opts = append(opts, shard.WithWriteCache(true),
			shard.WithWriteCacheOptions(append([]writecache.Option{writecache.WithPath(filepath.Join(dir, "wc")), writecache.WithNoSync(!cfg.sync)}, cfg.wcOpts...)...))
	}
	return append(opts, cfg.extra...)
}

func newShard(dir string, cfg shardCfg) *shard.Shard {
	s := shard.New(shardOptions(dir, cfg)...)
	if err := s.Open(); err != nil {
		panic(fmt.Errorf("shard open: %w", err))
	}
	if err := s.Init(); err != nil {
		panic(fmt.Errorf("shard init: %w", err))
	}
	return s
}

func newEngine(dir string, n int, cfg shardCfg, eopts ...engine.Option) (*engine.StorageEngine, []common.ID) {
	e := engine.New(eopts...)
	var ids []common.ID
	for i := 0; i < n; i++ {
		id, err := e.AddShard(shardOptions(filepath.Join(dir, fmt.Sprintf("s%d", i)), cfg)...)
		if err != nil {
			panic(err)
		}
		ids = append(ids, id)
	}
	if err := e.Init(); err != nil {
		panic(err)
	}
	return e, ids
}
