package main

import (
	"bufio"
	"bytes"
	"encoding/json"
	"errors"
	"fmt"
	"io"
	"os"
	"os/exec"
	"path/filepath"
	"regexp"
	"runtime"
	"sort"
	"strconv"
	"strings"
	"sync"
	"syscall"
	"time"

	"github.com/nspcc-dev/neofs-node/pkg/local_object_storage/blobstor/fstree"
	"github.com/nspcc-dev/neofs-node/pkg/util/verifhook"
	oid "github.com/nspcc-dev/neofs-sdk-go/object/id"
)

// Two more ways the engine `fstree` drives the real writers (property C12):
//
// kseq   — process kill at EVERY system call.  A child process (this binary, engine fstreekchild) opens a fresh
//          tree, runs the `setup` calls, then the `ops` calls one after the other on one OS thread, reporting every
//          call that returned.  The parent first runs the child under `strace -f` to learn the file system calls
//          the child's thread makes after the setup, then once per such call with
//          `-e inject=<call>:error=EIO:signal=SIGKILL:when=<index>`: the call is not executed and the process dies.
//          After each kill the parent reopens the tree (CleanUpTmp as at start-up) and evaluates the property:
//          every acknowledged object (also one acknowledged long before the interrupted call) reads exactly its
//          bytes through Iterate and GetBytes, every readable object is exactly one of the written values.  This is
//          process-kill consistency: what the kernel has taken (page cache) survives; no power loss.  The set of
//          distinct post-kill dumps is the observation compared with the model's `crashImages`.
//
// gsched — concurrent Puts on the portable writer, scheduled one system call at a time: every caller parks at the hook
//          points after open / write / close of genericWriter.writeFile; entry n of the schedule lets caller n make its
//          next system call.  After every step the tree directory is copied (all callers are parked, no call is in
//          flight: the copy is the image a process kill at that point leaves) and the copy is opened, cleaned and
//          checked like above.  With c=N the op runs in a child process that exits after N steps.

func init() {
	engines["fstreekchild"] = fstreeKChild
	if os.Getenv("VH_FSTREE_KCHILD") != "" {
		// during initialisation the main goroutine runs on the main OS thread; locked here it stays there for good,
		// so the per-thread call indices strace counts are the same in every run of the child
		runtime.LockOSThread()
	}
}

// ------------------------------------------------------------------ sub-operations of a kseq line

type fsSeqOp struct {
	kind byte // 'p' put, 'b' PutBatch, 'd' delete
	its  []fsItem
}

func fsParseSeq(its []fsItem, spec string) ([]fsSeqOp, bool) {
	if spec == "-" || spec == "" {
		return nil, true
	}
	var r []fsSeqOp
	for _, tok := range strings.Split(spec, ",") {
		if len(tok) < 2 {
			return nil, false
		}
		op := fsSeqOp{kind: tok[0]}
		for _, ch := range tok[1:] {
			i := int(ch - '0')
			if ch < '0' || ch > '9' || i >= len(its) {
				return nil, false
			}
			op.its = append(op.its, its[i])
		}
		switch op.kind {
		case 'p', 'd':
			if len(op.its) != 1 {
				return nil, false
			}
		case 'b':
		default:
			return nil, false
		}
		r = append(r, op)
	}
	return r, true
}

// fsRunSeqOp runs one call on the calling goroutine (no helper goroutine: the child's calls must stay on one thread).
func fsRunSeqOp(t *fstree.FSTree, op fsSeqOp) (res string) {
	defer func() {
		if r := recover(); r != nil {
			res = "panic"
		}
	}()
	switch op.kind {
	case 'p':
		return fsErrName(t.Put(fsAddr(op.its[0].a), op.its[0].data))
	case 'd':
		return fsErrName(t.Delete(fsAddr(op.its[0].a)))
	default:
		var addrs []oid.Address
		var data [][]byte
		for _, it := range op.its {
			addrs = append(addrs, fsAddr(it.a))
			data = append(data, it.data)
		}
		return fsErrName(t.VerifPutBatchOrdered(addrs, data))
	}
}

// ------------------------------------------------------------------ the child of a kseq line

// file system calls that are stop points (linux/amd64 numbers; the table also drives the warm-up below)
var fsKillCalls = []struct {
	name string
	nr   uintptr
}{
	{"open", 2}, {"openat", 257}, {"write", 1}, {"writev", 20}, {"pwrite64", 18}, {"link", 86}, {"linkat", 265},
	{"unlink", 87}, {"unlinkat", 263}, {"rename", 82}, {"renameat", 264}, {"renameat2", 316}, {"close", 3},
	{"fdatasync", 75}, {"fsync", 74}, {"ftruncate", 77}, {"truncate", 76}, {"mkdir", 83}, {"mkdirat", 258},
}

func fsKillSet() string {
	var n []string
	for _, c := range fsKillCalls {
		n = append(n, c.name)
	}
	return strings.Join(n, ",")
}

const fsKillWarmup = 24

type fsKReq struct {
	Dir   string
	Mark  string
	Cfg   fsCfg
	Line  string
	Setup string
	Ops   string
}

func fstreeKChild(c *runCtx) error {
	var req fsKReq
	if err := json.Unmarshal([]byte(os.Getenv("VH_FSTREE_KCHILD")), &req); err != nil {
		return err
	}
	its := fsParseItems(parseOp(req.Line))
	setup, ok1 := fsParseSeq(its, req.Setup)
	ops, ok2 := fsParseSeq(its, req.Ops)
	if !ok1 || !ok2 {
		return errors.New("bad kseq line")
	}
	runtime.LockOSThread() // (already locked by init) strace counts the calls of every thread separately
	t := fsOpen(req.Dir, req.Cfg)
	for _, op := range setup {
		if r := fsRunSeqOp(t, op); r != "ok" {
			return fmt.Errorf("setup call: %s", r)
		}
	}
	// Warm-up: strace counts per thread AND per system call; after these failing calls (bad descriptor / bad pointer,
	// no effect) every index this thread reaches below is larger than any index another thread of the process reaches,
	// so `when=<index>` can only fire on this thread.
	for _, sc := range fsKillCalls {
		for i := 0; i < fsKillWarmup; i++ {
			syscall.Syscall6(sc.nr, ^uintptr(0), 0, ^uintptr(0), 0, 0, 0)
		}
	}
	_ = syscall.Mkdir(req.Mark, 0o700) // the marker: stop points are the calls of this thread after it
	say := func(s string) {
		b := []byte(s)
		for len(b) > 0 {
			n, err := syscall.Write(1, b)
			if err != nil {
				os.Exit(4)
			}
			b = b[n:]
		}
	}
	for j, op := range ops {
		say(fmt.Sprintf("ACK %d %s\n", j, fsRunSeqOp(t, op)))
	}
	_ = t.Close()
	say("DONE\n")
	return nil
}

type fsKillPoint struct {
	name string
	idx  int    // index of the call among the calls of this name the thread has made since the process started
	ord  int    // index among the thread's calls of this name after the marker (the runtime's own wake-up writes left out)
	text string // the call as strace prints it, scratch directory names normalised
}

type fsTraceEv struct {
	name string
	idx  int
	text string
	inj  bool
}

var fsScratchRe = regexp.MustCompile(`/k[0-9]+(["/])`)

// fsRuntimeWrite: the Go runtime wakes its network poller by writing 8 bytes to an eventfd, from whichever thread arms
// an earlier timer; such a write is not a call of the code under test (but strace counts it).
func fsRuntimeWrite(name, text string) bool {
	return name == "write" && strings.Contains(text, `"\1\0\0\0\0\0\0\0", 8`)
}

// fsTraceMain parses a trace: the calls the marker's thread made after the marker, each with its per-name index on
// that thread counted from the start of the process.
func fsTraceMain(trace []byte, mark string) ([]fsTraceEv, bool) {
	type ev struct {
		tid  string
		name string
		text string
	}
	var evs []ev
	sc := bufio.NewScanner(bytes.NewReader(trace))
	sc.Buffer(make([]byte, 1<<20), 1<<26)
	for sc.Scan() {
		ln := sc.Text()
		sp := strings.IndexByte(ln, ' ')
		if sp <= 0 {
			continue
		}
		tid, rest := ln[:sp], strings.TrimSpace(ln[sp+1:])
		if _, err := strconv.Atoi(tid); err != nil {
			continue
		}
		par := strings.IndexByte(rest, '(')
		if par <= 0 || strings.HasPrefix(rest, "<...") || strings.HasPrefix(rest, "+++") || strings.HasPrefix(rest, "---") {
			continue
		}
		evs = append(evs, ev{tid, rest[:par], rest})
	}
	main, at := "", -1
	for i, e := range evs {
		if strings.HasPrefix(e.name, "mkdir") && strings.Contains(e.text, mark) {
			main, at = e.tid, i
		}
	}
	if at < 0 {
		return nil, false
	}
	cnt := map[string]int{}
	var out []fsTraceEv
	for i, e := range evs {
		if e.tid != main {
			continue
		}
		cnt[e.name]++
		if i > at {
			txt := e.text
			if eq := strings.LastIndex(txt, " = "); eq > 0 {
				txt = txt[:eq]
			}
			txt = strings.TrimRight(strings.TrimSuffix(strings.TrimRight(txt, " "), "<unfinished ...>"), " ")
			txt = strings.TrimSuffix(txt, ")") // a call the process died in is printed without it
			txt = fsScratchRe.ReplaceAllString(txt, "/k*$1")
			if len(txt) > 200 {
				txt = txt[:200] + "…"
			}
			out = append(out, fsTraceEv{e.name, cnt[e.name], txt, false})
		}
	}
	if len(out) > 0 {
		out[len(out)-1].inj = true // in the trace of a killed process: the call the thread died at
	}
	return out, true
}

// fsKillPlan: the stop points of the undisturbed run.
func fsKillPlan(trace []byte, mark string) ([]fsKillPoint, error) {
	evs, ok := fsTraceMain(trace, mark)
	if !ok {
		return nil, errors.New("marker call not found in the trace")
	}
	ord := map[string]int{}
	var plan []fsKillPoint
	for _, e := range evs {
		if fsRuntimeWrite(e.name, e.text) {
			continue
		}
		ord[e.name]++
		plan = append(plan, fsKillPoint{e.name, e.idx, ord[e.name], e.text})
	}
	return plan, nil
}

// fsKillVerdict looks at the trace of a run that was to be killed at p (the trace holds the calls of that name and the
// marker only, its last call is where a killed process died): hit (it died at exactly that call), or the index to try next (the thread made more or fewer calls of that name than in the undisturbed run, see fsRuntimeWrite).
func fsKillVerdict(trace []byte, mark string, p fsKillPoint, idx int, done bool) (hit bool, next int) {
	evs, ok := fsTraceMain(trace, mark)
	if !ok {
		return false, idx + 1 // died before the marker: the thread made extra calls before it
	}
	ord := 0
	for _, e := range evs {
		died := e.inj && !done
		if e.name != p.name || fsRuntimeWrite(e.name, e.text) {
			if died {
				return false, idx + 1 // died at one of the runtime's own calls
			}
			continue
		}
		ord++
		if died {
			if ord == p.ord && e.text == p.text {
				return true, idx
			}
			return false, idx + p.ord - ord
		}
		if ord == p.ord {
			return false, e.idx // the call was made and the process went on: this is its index in this run
		}
	}
	if done {
		return false, idx - 1
	}
	return false, idx + 1
}

type fsKillRun struct {
	acks []string // results of the calls that reported
	done bool
	out  string
}

func fsKillChild(root string, n int, cfg fsCfg, line, setup, ops string, straceArgs []string) (dir string, r fsKillRun, err error) {
	dir = fmt.Sprintf("%s/k%d", root, n)
	req, _ := json.Marshal(fsKReq{Dir: dir, Mark: fmt.Sprintf("%s/mark%d", root, n), Cfg: cfg, Line: line, Setup: setup, Ops: ops})
	args := append(append([]string{"-f"}, straceArgs...), os.Args[0], "fstreekchild")
	cmd := exec.Command("strace", args...)
	cmd.Env = append(os.Environ(), "VH_FSTREE_KCHILD="+string(req))
	var stdout, stderr bytes.Buffer
	cmd.Stdout, cmd.Stderr = &stdout, &stderr
	runErr := cmd.Run()
	r.out = stdout.String()
	for _, ln := range strings.Split(r.out, "\n") {
		f := strings.Fields(ln)
		switch {
		case len(f) == 3 && f[0] == "ACK":
			r.acks = append(r.acks, f[2])
		case len(f) == 1 && f[0] == "DONE":
			r.done = true
		}
	}
	if r.done && runErr != nil {
		return dir, r, fmt.Errorf("child finished but strace reports %v: %s", runErr, stderr.String())
	}
	if !r.done && runErr == nil {
		return dir, r, fmt.Errorf("child neither finished nor was killed: %s / %s", r.out, stderr.String())
	}
	return dir, r, nil
}

// fsKseq executes one kseq line; returns the observation.
func fsKseq(c *runCtx, root string, serial *int, cfg fsCfg, o opLine, line string) string {
	if runtime.GOARCH != "amd64" {
		panic("kseq: the system call table of this engine is for linux/amd64")
	}
	its := fsParseItems(o)
	setupSpec, opsSpec := o.kv["setup"], o.kv["ops"]
	setup, ok1 := fsParseSeq(its, setupSpec)
	ops, ok2 := fsParseSeq(its, opsSpec)
	if !ok1 || !ok2 || o.kv["setup"] == "" || o.kv["ops"] == "" {
		return "=> bad-op"
	}
	content := map[int][]byte{}
	vary := false
	for _, it := range its {
		if old, ok := content[it.a]; ok && !bytes.Equal(old, it.plain) {
			vary = true
		}
		content[it.a] = it.plain
	}
	base := map[int][]byte{} // acknowledged by the setup calls
	apply := func(want map[int][]byte, op fsSeqOp, res string) {
		if res != "ok" {
			return
		}
		for _, it := range op.its {
			if op.kind == 'd' {
				delete(want, it.a)
			} else if len(it.data) > 0 {
				want[it.a] = it.plain
			}
		}
	}
	for _, op := range setup {
		apply(base, op, "ok")
	}
	kroot := fmt.Sprintf("%s/kseq%d", root, *serial)
	*serial++
	if err := os.MkdirAll(kroot, 0o700); err != nil {
		panic(err)
	}
	defer os.RemoveAll(kroot)

	// evaluate one reopened tree
	states := map[string]bool{}
	var mu sync.Mutex
	eval := func(dir string, r fsKillRun, where string) {
		t := fsOpen(dir, cfg)
		_ = t.CleanUpTmp()
		mu.Lock()
		defer mu.Unlock()
		dump, got := fsDump(c, t)
		states[dump] = true
		want := map[int][]byte{}
		for a, d := range base {
			want[a] = d
		}
		for j, res := range r.acks {
			if j < len(ops) {
				apply(want, ops[j], res)
				fsOracle(c, "write-never-panics", "", res != "panic", where+": call "+strconv.Itoa(j)+" panicked")
			}
		}
		if j := len(r.acks); j < len(ops) && ops[j].kind == 'd' { // a delete cut short may or may not have removed the name
			delete(want, ops[j].its[0].a)
		}
		if !vary {
			for a, d := range got {
				fsOracle(c, "readable-object-has-exactly-the-stored-bytes", "kill", bytes.Equal(d, content[a]),
					fmt.Sprintf("%s: address %d reads %d bytes (hash %d), stored were %d bytes (hash %d)", where, a, len(d), fsHash(d), len(content[a]), fsHash(content[a])))
			}
			for a, d := range want {
				_, listed := got[a]
				fsOracle(c, "acknowledged-object-stays-readable", "kill", listed,
					fmt.Sprintf("%s: address %d was stored successfully (%d calls had returned) and not deleted; after reopening iteration does not list it", where, a, len(r.acks)))
				b, err := t.GetBytes(fsAddr(a))
				fsOracle(c, "read-returns-exactly-the-stored-bytes", "kill", err == nil && bytes.Equal(b, d),
					fmt.Sprintf("%s: GetBytes of acknowledged address %d (stored %d bytes, hash %d): %s %d:%d", where, a, len(d), fsHash(d), fsErrName(err), len(b), fsHash(b)))
			}
			for a, d := range got { // Iterate and GetBytes agree
				b, err := t.GetBytes(fsAddr(a))
				fsOracle(c, "iterate-agrees-with-get", "", err == nil && bytes.Equal(b, d),
					fmt.Sprintf("%s: address %d is listed with %d bytes, GetBytes: %s %d bytes", where, a, len(d), fsErrName(err), len(b)))
			}
		}
		_ = t.Close()
	}

	// the undisturbed run: learn the stop points
	traceFile := kroot + "/trace"
	dir0, r0, err := fsKillChild(kroot, 0, cfg, line, setupSpec, opsSpec, []string{"-o", traceFile, "-e", "trace=" + fsKillSet()})
	if err != nil || !r0.done {
		panic(fmt.Sprintf("kseq: undisturbed run: %v %q", err, r0.out))
	}
	trace, _ := os.ReadFile(traceFile)
	plan, err := fsKillPlan(trace, filepath.Base(kroot)+"/mark0")
	if err != nil {
		panic(fmt.Sprintf("kseq: %v", err))
	}
	eval(dir0, r0, "process survived")
	c.count("kseq")
	c.hist["kseq-kill-points"] += len(plan)

	// one run per stop point
	type job struct {
		n int
		p fsKillPoint
	}
	jobs := make(chan job)
	var wg sync.WaitGroup
	var failMu sync.Mutex
	var fails []string
	for w := 0; w < 4; w++ {
		wg.Add(1)
		go func() {
			defer wg.Done()
			for j := range jobs {
				idx, hit := j.p.idx, false
				for attempt := 0; attempt < 8 && !hit; attempt++ {
					tr := fmt.Sprintf("%s/trace%d", kroot, j.n)
					inj := fmt.Sprintf("inject=%s:error=EIO:signal=SIGKILL:when=%d", j.p.name, idx)
					dir, r, err := fsKillChild(kroot, j.n, cfg, line, setupSpec, opsSpec, []string{"-o", tr, "-e", "trace=" + j.p.name + ",mkdir,mkdirat", "-e", inj})
					if err != nil {
						failMu.Lock()
						fails = append(fails, err.Error())
						failMu.Unlock()
						break
					}
					trace, _ := os.ReadFile(tr)
					var next int
					hit, next = fsKillVerdict(trace, fmt.Sprintf("%s/mark%d", filepath.Base(kroot), j.n), j.p, idx, r.done)
					if !r.done { // wherever it was killed it is a process kill: the property must hold
						where := "killed at its call " + j.p.text
						if !hit {
							where = fmt.Sprintf("killed near its call %s (%s #%d)", j.p.text, j.p.name, idx)
						}
						eval(dir, r, where)
					}
					os.RemoveAll(dir)
					os.Remove(fmt.Sprintf("%s/mark%d", kroot, j.n))
					if !hit {
						mu.Lock()
						c.count("kseq-retargeted")
						mu.Unlock()
						idx = next
					}
				}
				if !hit {
					failMu.Lock()
					fails = append(fails, fmt.Sprintf("stop point %s (%s #%d) was not hit", j.p.text, j.p.name, j.p.idx))
					failMu.Unlock()
				}
			}
		}()
	}
	for i, p := range plan {
		jobs <- job{i + 1, p}
	}
	close(jobs)
	wg.Wait()
	if len(fails) > 0 {
		panic("kseq: " + strings.Join(fails, "; "))
	}
	var ss []string
	for s := range states {
		ss = append(ss, s)
	}
	sort.Strings(ss)
	return fmt.Sprintf("=> ok states=%d %s", len(ss), strings.Join(ss, ";"))
}

// ------------------------------------------------------------------ scheduled callers of the portable writer

var fsGschedParks = map[string]bool{"fstree.after.generic.open": true, "fstree.after.generic.write": true, "fstree.after.generic.close": true}

type fsGsched struct {
	t     *fstree.FSTree
	its   []fsItem
	tok   []chan struct{}
	yield chan struct{}
	fin   []bool
	res   []string
	cur   int
}

func fsNewGsched(t *fstree.FSTree, its []fsItem) *fsGsched {
	g := &fsGsched{t: t, its: its, yield: make(chan struct{}), fin: make([]bool, len(its)), res: make([]string, len(its))}
	for i := range its {
		g.tok = append(g.tok, make(chan struct{}))
		go func() {
			<-g.tok[i]
			r := func() (r string) {
				defer func() {
					if recover() != nil {
						r = "panic"
					}
				}()
				return fsErrName(t.Put(fsAddr(its[i].a), its[i].data))
			}()
			g.res[i], g.fin[i] = r, true
			g.yield <- struct{}{}
		}()
	}
	verifhook.SetPoint(func(name string) {
		if fsGschedParks[name] {
			cur := g.cur
			g.yield <- struct{}{}
			<-g.tok[cur]
		}
	})
	return g
}

// step lets caller n make its next system call; false when it does not come back in time.
func (g *fsGsched) step(n int) bool {
	if n < 0 || n >= len(g.its) || g.fin[n] {
		return true
	}
	g.cur = n
	g.tok[n] <- struct{}{}
	select {
	case <-g.yield:
		return true
	case <-time.After(fsHangLimit):
		return false
	}
}

func (g *fsGsched) finish() bool {
	for n := range g.its {
		for i := 0; !g.fin[n]; i++ {
			if i > 12 || !g.step(n) {
				return false
			}
		}
	}
	return true
}

func fsCopyTree(src, dst string) {
	err := filepath.Walk(src, func(p string, info os.FileInfo, err error) error {
		if err != nil {
			return err
		}
		rel, _ := filepath.Rel(src, p)
		q := filepath.Join(dst, rel)
		if info.IsDir() {
			return os.MkdirAll(q, 0o700)
		}
		in, err := os.Open(p)
		if err != nil {
			return err
		}
		defer in.Close()
		out, err := os.OpenFile(q, os.O_WRONLY|os.O_CREATE|os.O_TRUNC, 0o600)
		if err != nil {
			return err
		}
		if _, err = io.Copy(out, in); err != nil {
			out.Close()
			return err
		}
		return out.Close()
	})
	if err != nil {
		panic(err)
	}
}

// fsGschedChild is the crash variant: the first n steps of the schedule, then the process exits.
func fsGschedChild(t *fstree.FSTree, o opLine, n int) {
	its := fsParseItems(o)
	sched := o.ints("sched")
	g := fsNewGsched(t, its)
	for i := 0; i < n && i < len(sched); i++ {
		if !g.step(sched[i]) {
			fmt.Println("BLOCKED")
			os.Exit(5)
		}
	}
	for i := range its {
		if g.fin[i] {
			fmt.Printf("ACK %d %s\n", i, g.res[i])
		}
	}
	os.Exit(9)
}

var fsStraceProbe struct {
	once sync.Once
	ok   bool
}

// fsStraceWorks: strace is installed, may trace a child and may inject a signal (probed once per run).
func fsStraceWorks() bool {
	fsStraceProbe.once.Do(func() {
		cmd := exec.Command("strace", "-f", "-o", os.DevNull, "-e", "trace=getpid", "-e", "inject=getpid:error=EIO:signal=SIGKILL:when=65000", "true")
		fsStraceProbe.ok = cmd.Run() == nil
	})
	return fsStraceProbe.ok
}
