package main

import (
	"fmt"
	"sort"

	"github.com/nspcc-dev/neo-go/pkg/crypto/keys"
	"github.com/nspcc-dev/neofs-node/pkg/innerring/processors/governance"
)

func init() {
	engines["gov"] = seqRunner{gen: govGen, exec: govExec}.engine()
}

// govKeys is a fixed universe of keys; index = rank in the keys' own sort order,
// so that numeric order in the model equals the order sort.Sort(keys.PublicKeys) uses.
var govKeys = func() keys.PublicKeys {
	var ks keys.PublicKeys
	for i := 1; i <= 10; i++ {
		b := make([]byte, 32)
		b[31] = byte(i)
		b[0] = byte(7 * i)
		p, err := keys.NewPrivateKeyFromBytes(b)
		if err != nil {
			panic(err)
		}
		ks = append(ks, p.PublicKey())
	}
	sort.Sort(ks)
	return ks
}()

func govIdx(k *keys.PublicKey) int {
	for i, x := range govKeys {
		if x.Equal(k) {
			return i
		}
	}
	return -1
}

func govList(idx []int) keys.PublicKeys {
	ks := make(keys.PublicKeys, 0, len(idx))
	for _, i := range idx {
		ks = append(ks, govKeys[i])
	}
	return ks
}

func govIdxs(ks keys.PublicKeys) []int {
	out := make([]int, 0, len(ks))
	for _, k := range ks {
		out = append(out, govIdx(k))
	}
	return out
}

func subsetsOfSize(n, k int) [][]int {
	var out [][]int
	var rec func(start int, cur []int)
	rec = func(start int, cur []int) {
		if len(cur) == k {
			out = append(out, append([]int(nil), cur...))
			return
		}
		for i := start; i < n; i++ {
			rec(i+1, append(cur, i))
		}
	}
	rec(0, nil)
	return out
}

func govGen(c *runCtx, run func([]string)) {
	U := 7
	if c.thorough() {
		U = 8
	}
	var ops []string
	shuffle := func(xs []int) []int {
		ys := append([]int(nil), xs...)
		c.rng.Shuffle(len(ys), func(i, j int) { ys[i], ys[j] = ys[j], ys[i] })
		return ys
	}
	for n := 1; n <= U-1 && n <= 7; n++ {
		for _, cur := range subsetsOfSize(U, n) {
			for m := n; m <= U; m++ {
				mains := subsetsOfSize(U, m)
				for _, mn := range mains {
					if !c.thorough() && c.rng.IntN(4) != 0 {
						continue
					}
					ops = append(ops, fmt.Sprintf("gov alphabet cur=%s main=%s", joinInts(shuffle(cur)), joinInts(shuffle(mn))))
					// inner ring = alphabet + up to 2 extra keys (incl. main-network keys), in random order
					for t := 0; t < 2; t++ {
						ring := append([]int(nil), cur...)
						for e := 0; e < c.rng.IntN(3); e++ {
							x := c.rng.IntN(U + 2)
							dup := false
							for _, r := range ring {
								dup = dup || r == x
							}
							if !dup {
								ring = append(ring, x)
							}
						}
						ops = append(ops, fmt.Sprintf("gov sync cur=%s main=%s ring=%s", joinInts(shuffle(cur)), joinInts(shuffle(mn)), joinInts(shuffle(ring))))
					}
				}
			}
		}
	}
	// degenerate inputs
	ops = append(ops, "gov alphabet cur=- main=0,1", "gov alphabet cur=0,1,2 main=0,1", "gov alphabet cur=0,1,2,3 main=0,1,2,3",
		"gov ring ring=0,1,2 before=0,1 after=3", "gov ring ring=0,1,2,5 before=0,1,2 after=1,2,3", "gov ring ring=4,0,1,2 before=0,1,2 after=1,2,4")
	run(ops)
}

func inList(xs []int, x int) bool {
	for _, y := range xs {
		if x == y {
			return true
		}
	}
	return false
}

func hasDup(xs []int) bool {
	s := map[int]bool{}
	for _, x := range xs {
		if s[x] {
			return true
		}
		s[x] = true
	}
	return false
}

func govExec(c *runCtx, ops []string) {
	c.independent = true
	for _, line := range ops {
		o := parseOp(line)
		c.count(o.name)
		switch o.name {
		case "alphabet", "sync":
			cur, mn := o.ints("cur"), o.ints("main")
			res, err := governance.VerifNewAlphabetList(govList(cur), govList(mn))
			if err != nil {
				c.emit(line, "=> err")
				continue
			}
			if res == nil {
				c.emit(line, "=> ok none")
				// only proposed when something changed: nil means every current key is still a main-network key or no new key fits
				continue
			}
			na := govIdxs(res)
			n := len(cur)
			newCnt := 0
			members := true
			for _, x := range na {
				if !inList(cur, x) {
					newCnt++
				}
				members = members && (inList(cur, x) || inList(mn, x))
			}
			desc := fmt.Sprintf("cur=%v main=%v new=%v", cur, mn, na)
			c.oracle("alphabet-keeps-size", len(na) == n, desc)
			c.oracle("alphabet-no-duplicates", !hasDup(na), desc)
			c.oracle("alphabet-members-from-current-or-main", members, desc)
			c.oracle("alphabet-at-most-a-third-new", newCnt <= (n-1)/3, desc)
			c.oracle("alphabet-proposed-only-on-change", newCnt > 0, desc)
			c.nontrivial(line)
			if o.name == "alphabet" {
				c.emit(line, "=> ok new="+joinInts(na))
				continue
			}
			ring := o.ints("ring")
			curSorted := append([]int(nil), cur...)
			sort.Ints(curSorted)
			nr, err := governance.VerifUpdateInnerRing(govList(ring), govList(curSorted), res)
			if err != nil {
				c.emit(line, "=> ok new="+joinInts(na)+" ring=err")
				continue
			}
			ri := govIdxs(nr)
			c.emit(line, "=> ok new="+joinInts(na)+" ring="+joinInts(ri))
			// differs from the old ring exactly by the replaced keys: (ring \ current) ∪ new alphabet, as sets
			want := map[int]bool{}
			for _, x := range ring {
				if !inList(cur, x) {
					want[x] = true
				}
			}
			for _, x := range na {
				want[x] = true
			}
			same := len(want) == len(ri)
			for _, x := range ri {
				same = same && want[x]
			}
			d2 := fmt.Sprintf("%s ring=%v newRing=%v", desc, ring, ri)
			c.oracle("ring-no-duplicates", !hasDup(ri), d2)
			c.oracle("ring-differs-exactly-by-replaced-keys", hasDup(ri) || same, d2)
		case "ring":
			nr, err := governance.VerifUpdateInnerRing(govList(o.ints("ring")), govList(o.ints("before")), govList(o.ints("after")))
			if err != nil {
				c.emit(line, "=> err")
				continue
			}
			c.emit(line, "=> ok ring="+joinInts(govIdxs(nr)))
		default:
			c.emit(line, "=> bad-op")
		}
	}
}
