package main

import (
	"crypto/ecdsa"
	"crypto/sha256"
	"encoding/binary"
	"errors"
	"fmt"
	"math/big"
	"math/rand/v2"
	"sort"
	"strconv"
	"strings"
	"time"

	"github.com/google/uuid"
	"github.com/nspcc-dev/neo-go/pkg/core/transaction"
	"github.com/nspcc-dev/neo-go/pkg/crypto/keys"
	"github.com/nspcc-dev/neo-go/pkg/util"
	"github.com/nspcc-dev/neo-go/pkg/vm/stackitem"
	containerrpc "github.com/nspcc-dev/neofs-contract/rpc/container"
	ircontainer "github.com/nspcc-dev/neofs-node/pkg/innerring/processors/container"
	cntClient "github.com/nspcc-dev/neofs-node/pkg/morph/client/container"
	fschaincontracts "github.com/nspcc-dev/neofs-node/pkg/morph/contracts"
	containerEvent "github.com/nspcc-dev/neofs-node/pkg/morph/event/container"
	"github.com/nspcc-dev/neofs-sdk-go/client"
	"github.com/nspcc-dev/neofs-sdk-go/container"
	"github.com/nspcc-dev/neofs-sdk-go/container/acl"
	cid "github.com/nspcc-dev/neofs-sdk-go/container/id"
	neofscrypto "github.com/nspcc-dev/neofs-sdk-go/crypto"
	neofsecdsa "github.com/nspcc-dev/neofs-sdk-go/crypto/ecdsa"
	"github.com/nspcc-dev/neofs-sdk-go/eacl"
	"github.com/nspcc-dev/neofs-sdk-go/netmap"
	"github.com/nspcc-dev/neofs-sdk-go/session"
	sessionv2 "github.com/nspcc-dev/neofs-sdk-go/session/v2"
	"github.com/nspcc-dev/neofs-sdk-go/user"
	"go.uber.org/zap"
)

// Engine irc (C37): the REAL container processor of the inner ring (process* functions,
// checkPutContainer/checkDeleteContainer/checkSetEACL/check*AttributeRequest, verifySignature,
// verifySessionV2, validateEACL) over a real morph client that talks to an in-process fake
// RPC endpoint.  One op = one notary request; observation = approve (NotarySignAndInvokeTX
// reached) or reject.  Every op line is self-contained.

func init() {
	engines["irc"] = seqRunner{gen: ircGen, exec: ircExec}.engine()
}

const ircNKeys = 5

var ircKeys = func() []*keys.PrivateKey {
	ks := make([]*keys.PrivateKey, ircNKeys+1)
	for i := 1; i <= ircNKeys; i++ {
		b := make([]byte, 32)
		b[31] = byte(i)
		b[3] = byte(0x21 * i)
		p, err := keys.NewPrivateKeyFromBytes(b)
		if err != nil {
			panic(err)
		}
		ks[i] = p
	}
	return ks
}()

func ircPriv(k int) *ecdsa.PrivateKey { return &ircKeys[k].PrivateKey }
func ircPub(k int) []byte             { return ircKeys[k].PublicKey().Bytes() }

// ircUser: 0 = zero id, 1..5 = the user of key i, others = an account without a known key.
func ircUser(n int) user.ID {
	switch {
	case n == 0:
		return user.ID{}
	case n <= ircNKeys:
		return user.NewFromECDSAPublicKey(ircPriv(n).PublicKey)
	}
	var h util.Uint160
	h[0] = byte(n)
	h[19] = 0xEE
	return user.NewFromScriptHash(h)
}

// numbered container ids that are not stored anywhere: first byte 8*n keeps byte order = numeric order
func ircNumCID(n int) cid.ID {
	var id cid.ID
	if n == 0 {
		return id
	}
	id[0] = byte(8 * n)
	id[31] = 0x5A
	return id
}

type ircState struct {
	fake   *irFake
	procs  map[[2]bool]*ircontainer.Processor
	alpha  bool
	epoch  uint64
	now    int64
	stored map[cid.ID]container.Container
	cache  map[string]container.Container
}

func (s *ircState) IsAlphabet() bool                           { return s.alpha }
func (s *ircState) Epoch() (uint64, error)                     { return s.epoch, nil }
func (s *ircState) NetMap() (*netmap.NetMap, error)            { return nil, errors.New("verif: no netmap") }
func (s *ircState) GetEpochBlock(uint64) (uint32, error)       { return 1, nil }
func (s *ircState) GetEpochBlockByTime(uint32) (uint32, error) { return 1, nil }
func (s *ircState) Now() time.Time                             { return time.Unix(s.now, 0) }

type ircMeta struct{}

func (ircMeta) RegisterMetadataContainer(cid.ID, uint32) error { return nil }
func (ircMeta) UpdateContainerPlacement(cid.ID, [][]netmap.NodeInfo, netmap.PlacementPolicy, uint32) error {
	return nil
}

var ircGlobal *ircState

func ircGet() *ircState {
	if ircGlobal != nil {
		return ircGlobal
	}
	s := &ircState{fake: newIRFake(), procs: map[[2]bool]*ircontainer.Processor{}, stored: map[cid.ID]container.Container{},
		cache: map[string]container.Container{}}
	s.fake.invokeFunction = func(method string, args []irArg) ([]stackitem.Item, string) {
		switch method {
		case "getContainerData":
			if len(args) == 1 {
				var id cid.ID
				if b := args[0].bytes(); len(b) == 32 {
					copy(id[:], b)
					if c, ok := s.stored[id]; ok {
						return []stackitem.Item{stackitem.NewByteArray(c.Marshal())}, ""
					}
				}
			}
			return nil, containerrpc.NotFoundError
		}
		return nil, "method not found: " + method
	}
	s.fake.containedScript = func(script []byte) bool {
		return len(script) >= 2 && script[0] == 0xA7 && script[1] == 1
	}
	cc, err := cntClient.NewFromMorph(s.fake.cli, util.Uint160{1, 2, 3})
	if err != nil {
		panic(err)
	}
	for _, me := range []bool{false, true} {
		for _, ec := range []bool{false, true} {
			p, err := ircontainer.New(&ircontainer.Params{Log: zap.NewNop(), PoolSize: 1, AlphabetState: s, ContainerClient: cc,
				MetaClient: ircMeta{}, NetworkState: s, MetaEnabled: me, AllowEC: ec, ChainTime: s})
			if err != nil {
				panic(err)
			}
			s.procs[[2]bool{me, ec}] = p
		}
	}
	ircGlobal = s
	return s
}

// ---- line helpers ------------------------------------------------------------------

func (o opLine) str(k string) string {
	v := o.kv[k]
	if v == "-" {
		return ""
	}
	return v
}

func (o opLine) flag(k string) bool { return o.kv[k] == "1" }

func atoi(s string) int {
	v, err := strconv.Atoi(s)
	if err != nil {
		panic("bad number " + s)
	}
	return v
}

type ircSig struct {
	key  int
	good bool
	n3ok bool
}

func parseIrcSig(s string) ircSig {
	f := strings.Split(s, ":")
	return ircSig{key: atoi(f[0]), good: f[1] == "1", n3ok: f[2] == "1"}
}

// token signature: "-" none, "u" unsupported scheme, "e<k|x>.<signer>.<good>", "n<vs>.<n3ok>"
type ircTSig struct {
	kind    byte
	claimed int // -1 = undecodable key bytes
	signer  int
	good    bool
	vs      int
	n3ok    bool
}

func parseIrcTSig(s string) ircTSig {
	switch s[0] {
	case '-', 'u':
		return ircTSig{kind: s[0]}
	case 'e':
		f := strings.Split(s[1:], ".")
		t := ircTSig{kind: 'e', signer: atoi(f[1]), good: f[2] == "1"}
		if f[0] == "x" {
			t.claimed = -1
		} else {
			t.claimed = atoi(f[0])
		}
		return t
	case 'n':
		f := strings.Split(s[1:], ".")
		return ircTSig{kind: 'n', vs: atoi(f[0]), n3ok: f[1] == "1"}
	}
	panic("bad tsig " + s)
}

func ircOtherScript(n int) []byte {
	if n == 0 {
		return nil
	}
	return []byte{0x0C, 0x05, byte(n), 1, 2, 3, 4, 0x41}
}

func ircN3Invoc(ok bool) []byte {
	if ok {
		return []byte{0xA7, 1}
	}
	return []byte{0xA7, 0}
}

// per-line deterministic source for the degrees of freedom the model does not see
func lineRng(line string) *rand.Rand {
	h := sha256.Sum256([]byte(line))
	return rand.New(rand.NewPCG(binary.LittleEndian.Uint64(h[:8]), binary.LittleEndian.Uint64(h[8:16])))
}

func tamper(data []byte) []byte {
	d := append([]byte(nil), data...)
	if len(d) == 0 {
		return []byte{1}
	}
	d[len(d)/2] ^= 0x40
	return d
}

// signature value made by key `signer` that verifies (scheme RFC6979) over data iff good
func ircRFC6979(r *rand.Rand, signer int, good bool, data []byte) []byte {
	if good {
		sig, err := neofsecdsa.SignerRFC6979(*ircPriv(signer)).Sign(data)
		if err != nil {
			panic(err)
		}
		return sig
	}
	switch r.IntN(4) {
	case 0: // signed other bytes
		sig, _ := neofsecdsa.SignerRFC6979(*ircPriv(signer)).Sign(tamper(data))
		return sig
	case 1: // right bytes, another scheme
		sig, _ := neofsecdsa.Signer(*ircPriv(signer)).Sign(data)
		return sig
	case 2: // corrupted signature
		sig, _ := neofsecdsa.SignerRFC6979(*ircPriv(signer)).Sign(data)
		sig[len(sig)-3] ^= 1
		return sig
	default:
		return []byte{1, 2, 3}
	}
}

func ircTokenSignature(r *rand.Rand, ts ircTSig, data []byte) (neofscrypto.Signature, bool) {
	switch ts.kind {
	case '-':
		return neofscrypto.Signature{}, false
	case 'u':
		return neofscrypto.NewSignatureFromRawKey(neofscrypto.Scheme(77), ircPub(1), []byte{1}), true
	case 'n':
		return neofscrypto.NewSignatureFromRawKey(neofscrypto.N3, ircOtherScript(ts.vs+1), ircN3Invoc(ts.n3ok)), true
	}
	var pub []byte
	if ts.claimed < 0 {
		pub = []byte{0x02, 0x01}
	} else {
		pub = ircPub(ts.claimed)
	}
	scheme := []neofscrypto.Scheme{neofscrypto.ECDSA_SHA512, neofscrypto.ECDSA_DETERMINISTIC_SHA256, neofscrypto.ECDSA_WALLETCONNECT}[r.IntN(3)]
	d := data
	if !ts.good {
		d = tamper(data)
	}
	var signer neofscrypto.Signer
	switch scheme {
	case neofscrypto.ECDSA_SHA512:
		signer = neofsecdsa.Signer(*ircPriv(ts.signer))
	case neofscrypto.ECDSA_DETERMINISTIC_SHA256:
		signer = neofsecdsa.SignerRFC6979(*ircPriv(ts.signer))
	default:
		signer = neofsecdsa.SignerWalletConnect(*ircPriv(ts.signer))
	}
	val, err := signer.Sign(d)
	if err != nil {
		panic(err)
	}
	return neofscrypto.NewSignatureFromRawKey(scheme, pub, val), true
}

// witness material of one request part
type ircAuth struct {
	own  int
	tgt  int
	vs   string
	sig  ircSig
	tok  string
	kind string
}

func parseIrcAuth(o opLine, pfx, kind string) ircAuth {
	return ircAuth{own: atoi(o.kv[pfx+"own"]), tgt: atoi(o.kv[pfx+"tgt"]), vs: o.kv[pfx+"vs"], sig: parseIrcSig(o.kv[pfx+"sig"]),
		tok: o.kv[pfx+"tok"], kind: kind}
}

var ircV1Verb = map[string]int{"put": 1, "delete": 2, "eacl": 3, "setattr": 4, "rmattr": 5}
var ircV2Verb = map[string]int{"put": 8, "delete": 9, "eacl": 10, "setattr": 11, "rmattr": 12}

type ircV2Tok struct {
	version  int
	issuer   int
	subjects []int
	ctxs     [][]int // cnr, verbs...
	life     []int   // nil or iat,nbf,exp
	final    bool
	sig      ircTSig
}

func splitInts(s, sep string) []int {
	if s == "-" || s == "" {
		return nil
	}
	var r []int
	for _, p := range strings.Split(s, sep) {
		r = append(r, atoi(p))
	}
	return r
}

func parseIrcV2(s string) []ircV2Tok {
	var chain []ircV2Tok
	for _, ts := range strings.Split(s, ";") {
		f := strings.Split(ts, "/")
		t := ircV2Tok{version: atoi(f[0]), issuer: atoi(f[1]), subjects: splitInts(f[2], ","), final: f[5] == "1", sig: parseIrcTSig(f[6])}
		if f[3] != "-" {
			for _, cs := range strings.Split(f[3], "|") {
				p := strings.SplitN(cs, ".", 2)
				t.ctxs = append(t.ctxs, append([]int{atoi(p[0])}, splitInts(p[1], "+")...))
			}
		}
		t.life = splitInts(f[4], ".")
		chain = append(chain, t)
	}
	return chain
}

// cidOf maps a container number of the line to the real id (tgtN ↦ tgtID, others numbered)
type cidMap func(n int) cid.ID

func buildV2(r *rand.Rand, chain []ircV2Tok, cm cidMap) *sessionv2.Token {
	var origin *sessionv2.Token
	for i := len(chain) - 1; i >= 0; i-- {
		t := chain[i]
		var tok sessionv2.Token
		tok.SetVersion(uint32(t.version))
		tok.SetIssuer(ircUser(t.issuer))
		subj := make([]sessionv2.Target, 0, len(t.subjects))
		for _, u := range t.subjects {
			subj = append(subj, sessionv2.NewTargetUser(ircUser(u)))
		}
		if err := tok.SetSubjects(subj); err != nil {
			panic(err)
		}
		ctxs := make([]sessionv2.Context, 0, len(t.ctxs))
		for _, c := range t.ctxs {
			vs := make([]sessionv2.Verb, 0, len(c)-1)
			for _, v := range c[1:] {
				vs = append(vs, sessionv2.Verb(v))
			}
			ctx, err := sessionv2.NewContext(cm(c[0]), vs)
			if err != nil {
				panic(err)
			}
			ctxs = append(ctxs, ctx)
		}
		if err := tok.SetContexts(ctxs); err != nil {
			panic(err)
		}
		if t.life != nil {
			tok.SetIat(time.Unix(int64(t.life[0]), 0))
			tok.SetNbf(time.Unix(int64(t.life[1]), 0))
			tok.SetExp(time.Unix(int64(t.life[2]), 0))
		}
		tok.SetFinal(t.final)
		if sig, ok := ircTokenSignature(r, t.sig, tok.SignedData()); ok {
			tok.AttachSignature(sig)
		}
		tok.SetOrigin(origin)
		origin = &tok
	}
	return origin
}

// buildWitness returns (sessionToken, invocScript, verifScript) for the payload
func buildWitness(r *rand.Rand, a ircAuth, payload []byte, cm cidMap) (tokBytes, invoc, verif []byte) {
	isKey := a.vs[0] == 'k'
	if isKey {
		verif = ircPub(atoi(a.vs[1:]))
	} else {
		verif = ircOtherScript(atoi(a.vs[1:]))
	}
	if a.tok == "-" && !isKey {
		invoc = ircN3Invoc(a.sig.n3ok)
	} else {
		invoc = ircRFC6979(r, a.sig.key, a.sig.good, payload)
	}
	switch {
	case a.tok == "-":
	case a.tok == "g":
		tokBytes = []byte{0xFF, 0xFF, 0x01}
	case strings.HasPrefix(a.tok, "1:"):
		f := strings.Split(a.tok, ":")
		var tok session.Container
		tok.SetID(uuid.UUID{0x11, 0x22, 0x33, 0x44, 0x55, 0x66, 0x47, 0x88, 0x99, 0xAA, 0xBB, 0xCC, 0xDD, 0xEE, 0xFF, 0x01})
		tok.SetIssuer(ircUser(atoi(f[1])))
		tok.ForVerb(session.ContainerVerb(atoi(f[3])))
		if c := atoi(f[4]); c != 0 {
			tok.ApplyOnlyTo(cm(c))
		}
		tok.SetIat(uint64(atoi(f[5])))
		tok.SetNbf(uint64(atoi(f[6])))
		tok.SetExp(uint64(atoi(f[7])))
		if f[8] == "x" {
			tok.SetAuthKey(rawKey{0x02, 0x07})
		} else {
			tok.SetAuthKey((*neofsecdsa.PublicKeyRFC6979)(&ircPriv(atoi(f[8])).PublicKey))
		}
		if sig, ok := ircTokenSignature(r, parseIrcTSig(f[2]), tok.SignedData()); ok {
			tok.AttachSignature(sig)
		}
		tokBytes = tok.Marshal()
	case strings.HasPrefix(a.tok, "2:"):
		tokBytes = buildV2(r, parseIrcV2(a.tok[2:]), cm).Marshal()
	default:
		panic("bad tok " + a.tok)
	}
	return
}

// rawKey is a neofscrypto.PublicKey whose binary form is arbitrary bytes
type rawKey []byte

func (k rawKey) MaxEncodedSize() int     { return len(k) }
func (k rawKey) Encode(buf []byte) int   { return copy(buf, k) }
func (k rawKey) Decode([]byte) error     { return nil }
func (k rawKey) Verify(_, _ []byte) bool { return false }

// ---- containers --------------------------------------------------------------------

type ircPolicy struct {
	ecr, reps int
	init      bool
	polOK     bool
}

func ircPlacement(p ircPolicy) netmap.PlacementPolicy {
	var pp netmap.PlacementPolicy
	var reps []netmap.ReplicaDescriptor
	for i := 0; i < p.reps; i++ {
		var rd netmap.ReplicaDescriptor
		if !p.polOK && i == 0 {
			rd.SetNumberOfObjects(9) // more than maxObjectReplicasPerSet
		} else {
			rd.SetNumberOfObjects(uint32(1 + i))
		}
		reps = append(reps, rd)
	}
	pp.SetReplicas(reps)
	var ecs []netmap.ECRule
	for i := 0; i < p.ecr; i++ {
		if !p.polOK && p.reps == 0 && i == 0 {
			er := netmap.NewECRule(2, 1)
			er.SetSelectorName("nosuch") // selector that is not defined
			ecs = append(ecs, er)
		} else {
			ecs = append(ecs, netmap.NewECRule(uint32(2+i), 1))
		}
	}
	if len(ecs) > 0 {
		pp.SetECRules(ecs)
	}
	if p.init {
		var ip netmap.InitialPlacementPolicy
		ip.SetMaxReplicas(1)
		pp.SetInitial(ip)
	}
	return pp
}

// ircNewContainer builds a container whose id (after the processor's own re-marshalling when
// viaStruct) starts with byte 8*num; attribute "n" is the mined nonce.
func (s *ircState) ircNewContainer(owner int, ext bool, attrs []string, pol ircPolicy, num int, viaStruct bool) (container.Container, cid.ID) {
	key := fmt.Sprint(owner, ext, attrs, pol, num, viaStruct)
	if c, ok := s.cache[key]; ok {
		return c, cid.NewFromMarshalledContainer(ircRemarshal(c, viaStruct))
	}
	for i := 0; ; i++ {
		var c container.Container
		c.Init()
		c.SetOwner(ircUser(owner))
		if ext {
			c.SetBasicACL(acl.PublicRWExtended)
		} else {
			c.SetBasicACL(acl.PublicRW)
		}
		c.SetPlacementPolicy(ircPlacement(pol))
		for _, a := range attrs {
			v := "v"
			switch a {
			case "__NEOFS__METAINFO_CONSISTENCY":
				v = "strict"
			case "__NEOFS__LOCK_UNTIL", "Timestamp":
				v = "100"
			case "__NEOFS__NAME":
				v = "cname"
			case "__NEOFS__ZONE":
				v = "czone"
			}
			c.SetAttribute(a, v)
		}
		c.SetAttribute("n", strconv.Itoa(i))
		// a fixed nonce keeps the run reproducible
		m := c.ProtoMessage()
		m.Nonce = []byte{1, 2, 3, 4, 5, 6, 0x47, 8, 0x89, 10, 11, 12, 13, 14, 15, 16}
		var c2 container.Container
		if err := c2.FromProtoMessage(m); err != nil {
			panic(err)
		}
		id := cid.NewFromMarshalledContainer(ircRemarshal(c2, viaStruct))
		if id[0] == byte(8*num) {
			s.cache[key] = c2
			return c2, id
		}
	}
}

func ircToStruct(cnr container.Container) containerrpc.ContainerInfo {
	ver := cnr.Version()
	var attrs []*containerrpc.ContainerAttribute
	for k, v := range cnr.Attributes() {
		attrs = append(attrs, &containerrpc.ContainerAttribute{Key: k, Value: v})
	}
	return containerrpc.ContainerInfo{
		Version:       &containerrpc.ContainerAPIVersion{Major: big.NewInt(int64(ver.Major())), Minor: big.NewInt(int64(ver.Minor()))},
		Owner:         cnr.Owner().ScriptHash(),
		Nonce:         cnr.ProtoMessage().Nonce,
		BasicACL:      big.NewInt(int64(cnr.BasicACL().Bits())),
		Attributes:    attrs,
		StoragePolicy: cnr.PlacementPolicy().Marshal(),
	}
}

func ircRemarshal(c container.Container, viaStruct bool) []byte {
	if !viaStruct {
		return c.Marshal()
	}
	c2, err := cntClient.ContainerFromStruct(ircToStruct(c))
	if err != nil {
		panic(err)
	}
	return c2.Marshal()
}

// ---- eACL --------------------------------------------------------------------------

// records: "<comment>/<roles , or ->/<filters m.v+m.v or ->" separated by ";".
// Returns the binary table; comments the SDK setter refuses (invalid UTF-8, zero byte) are
// written into the protobuf message directly.
func ircTable(recs string, id cid.ID) []byte {
	var rs []eacl.Record
	var comments []string
	if recs != "-" && recs != "" {
		for _, rsx := range strings.Split(recs, ";") {
			f := strings.Split(rsx, "/")
			var targets []eacl.Target
			for _, role := range splitInts(f[1], ",") {
				targets = append(targets, eacl.NewTargetByRole(eacl.Role(role)))
			}
			var filters []eacl.Filter
			if f[2] != "-" {
				for _, fs := range strings.Split(f[2], "+") {
					p := strings.Split(fs, ".")
					val := map[string]string{"e": "", "d": "-17", "o": "1.5"}[p[1]]
					filters = append(filters, eacl.NewObjectPropertyFilter("attr", eacl.Match(atoi(p[0])), val))
				}
			}
			rs = append(rs, eacl.ConstructRecord(eacl.ActionDeny, eacl.OperationGet, targets, filters...))
			comments = append(comments, map[string]string{"1": "bad\xff\xfeutf", "2": "zero\x00byte"}[f[0]])
		}
	}
	t := eacl.ConstructTable(rs)
	if !id.IsZero() {
		t.SetCID(id)
	}
	m := t.ProtoMessage()
	for i := range m.Records {
		if comments[i] != "" {
			m.Records[i].Comment = comments[i]
		} else {
			m.Records[i].Comment = "fine"
		}
	}
	b := make([]byte, m.MarshaledSize())
	m.MarshalStable(b)
	return b
}

// ---- execution ---------------------------------------------------------------------

func ircMainTx() transaction.Transaction {
	return transaction.Transaction{Script: []byte{0x40}, Signers: []transaction.Signer{{}, {}}}
}

func ircExec(c *runCtx, ops []string) {
	c.independent = true
	s := ircGet()
	for _, line := range ops {
		o := parseOp(line)
		c.count("kind:" + o.name)
		obs := ircRun(s, line, o)
		c.emit(line, obs)
		if obs == "=> bad-op" {
			continue
		}
		ircOracle(c, line, o, obs == "=> approve")
	}
}

func ircRun(s *ircState, line string, o opLine) (obs string) {
	defer func() {
		if r := recover(); r != nil {
			obs = "=> panic " + strings.ReplaceAll(fmt.Sprint(r), " ", "_")
		}
	}()
	switch o.name {
	case "put", "create", "delete", "eacl", "setattr", "rmattr":
	default:
		return "=> bad-op"
	}
	r := lineRng(line)
	s.alpha = o.flag("alpha")
	s.epoch = o.u64("epoch")
	s.now = int64(o.u64("now"))
	proc := s.procs[[2]bool{o.flag("me"), o.flag("ec")}]
	s.fake.reset()
	for k := range s.stored {
		delete(s.stored, k)
	}
	switch o.name {
	case "put", "create":
		a := parseIrcAuth(o, "", "put")
		var attrs []string
		if v := o.str("attrs"); v != "" {
			attrs = strings.Split(v, ",")
		}
		pol := ircPolicy{ecr: o.int("ecr"), reps: o.int("reps"), init: o.flag("init"), polOK: o.flag("pol")}
		nid := o.int("nid")
		viaStruct := o.name == "create"
		cnr, id := s.ircNewContainer(a.own, !o.flag("eacl") || o.flag("e_ext"), attrs, pol, nid, viaStruct)
		cm := func(n int) cid.ID {
			if n == nid {
				return id
			}
			return ircNumCID(n)
		}
		cnrBytes := ircRemarshal(cnr, viaStruct)
		tok, invoc, verif := buildWitness(r, a, cnrBytes, cm)
		if o.name == "put" {
			req := containerEvent.CreateContainerRequest{MainTransaction: ircMainTx()}
			req.CreateContainerParams = fschaincontracts.CreateContainerParams{Container: cnrBytes, InvocationScript: invoc,
				VerificationScript: verif, SessionToken: tok, DomainName: o.str("rn"), DomainZone: o.str("rz")}
			if !o.flag("dec") {
				req.Container = []byte{0xFF, 0x01, 0x02}
			}
			proc.VerifProcessContainerPut(req, id)
		} else {
			req := containerEvent.CreateContainerV2Request{MainTransaction: ircMainTx(), Container: ircToStruct(cnr),
				InvocationScript: invoc, VerificationScript: verif, SessionToken: tok}
			if !o.flag("dec") {
				req.Container.Nonce = []byte{1, 2, 3}
			}
			if o.flag("eacl") {
				ea := parseIrcAuth(o, "e_", "eacl")
				tcid := o.int("e_tcid")
				tb := ircTable(o.kv["e_recs"], cm(tcid))
				etok, einvoc, everif := buildWitness(r, ea, tb, cm)
				if !o.flag("e_tabok") {
					tb = []byte{0xFF, 0xFF}
				}
				sub := containerEvent.PutContainerEACLRequest{MainTransaction: ircMainTx()}
				sub.PutContainerEACLParams = fschaincontracts.PutContainerEACLParams{EACL: tb, InvocationScript: einvoc,
					VerificationScript: everif, SessionToken: etok}
				req.EACLTable = &sub
			}
			proc.VerifProcessCreateContainerRequest(req)
		}
	case "delete", "setattr", "rmattr", "eacl":
		a := parseIrcAuth(o, "", o.name)
		ext := true
		if o.name == "eacl" {
			ext = o.flag("ext")
		}
		cnr, id := s.ircNewContainer(a.own, ext, nil, ircPolicy{reps: 1, polOK: true}, a.tgt, false)
		if o.flag("found") {
			s.stored[id] = cnr
		}
		cm := func(n int) cid.ID {
			if n == a.tgt {
				return id
			}
			return ircNumCID(n)
		}
		switch o.name {
		case "delete":
			rawID := id[:]
			if !o.flag("idok") {
				rawID = id[:31]
			}
			tok, invoc, verif := buildWitness(r, a, rawID, cm)
			req := containerEvent.RemoveContainerRequest{MainTransaction: ircMainTx()}
			req.RemoveContainerParams = fschaincontracts.RemoveContainerParams{ID: rawID, InvocationScript: invoc, VerificationScript: verif, SessionToken: tok}
			proc.VerifProcessContainerDelete(req)
		case "eacl":
			tcid := id
			if o.int("tcid") == 0 {
				tcid = cid.ID{}
			}
			tb := ircTable(o.kv["recs"], tcid)
			tok, invoc, verif := buildWitness(r, a, tb, cm)
			if !o.flag("tabok") {
				tb = []byte{0xFF, 0xFF}
			}
			req := containerEvent.PutContainerEACLRequest{MainTransaction: ircMainTx()}
			req.PutContainerEACLParams = fschaincontracts.PutContainerEACLParams{EACL: tb, InvocationScript: invoc, VerificationScript: verif, SessionToken: tok}
			proc.VerifProcessPutEACLRequest(req)
		default:
			useID := id
			if !o.flag("nz") {
				useID = cid.ID{}
			}
			rawID := useID[:]
			if !o.flag("idok") {
				rawID = useID[:30]
			}
			vu := time.Now().Add(time.Hour).Unix()
			if !o.flag("ne") {
				vu = time.Now().Add(-time.Hour).Unix()
			}
			if o.name == "setattr" {
				payload := client.GetSignedSetContainerAttributeParameters(client.SetContainerAttributeParameters{ID: useID, Attribute: "color", Value: "red", ValidUntil: time.Unix(vu, 0)})
				tok, invoc, verif := buildWitness(r, a, payload, cm)
				proc.VerifProcessSetAttributeRequest(containerEvent.SetAttributeRequest{MainTransaction: ircMainTx(), ID: rawID, Attribute: "color", Value: "red",
					ValidUntil: vu, InvocationScript: invoc, VerificationScript: verif, SessionToken: tok})
			} else {
				payload := client.GetSignedRemoveContainerAttributeParameters(client.RemoveContainerAttributeParameters{ID: useID, Attribute: "color", ValidUntil: time.Unix(vu, 0)})
				tok, invoc, verif := buildWitness(r, a, payload, cm)
				proc.VerifProcessRemoveAttributeRequest(containerEvent.RemoveAttributeRequest{MainTransaction: ircMainTx(), ID: rawID, Attribute: "color",
					ValidUntil: vu, InvocationScript: invoc, VerificationScript: verif, SessionToken: tok})
			}
		}
	}
	s.fake.mu.Lock()
	n := s.fake.notaryCalls
	s.fake.mu.Unlock()
	switch n {
	case 0:
		return "=> reject"
	case 1:
		return "=> approve"
	}
	return fmt.Sprintf("=> approve x%d", n)
}

// ---- the property's own predicate, evaluated from the request description ------------

// ircAuthorised says whether the witness described by a is the owner's authorisation for the
// operation, independently of the model: direct owner signature / V1 token / V2 chain.
// For V2 it returns (chain facts hold, payload signed by a party the token names).
func ircAuthorised(a ircAuth, epoch, now int) (ok bool, signerOK bool, why string) {
	isKey := a.vs[0] == 'k'
	vk := 0
	if isKey {
		vk = atoi(a.vs[1:])
	}
	switch {
	case a.tok == "-":
		if isKey {
			return vk == a.own && a.sig.key == vk && a.sig.good, true, "direct"
		}
		return a.sig.n3ok, true, "direct-n3"
	case a.tok == "g":
		return false, true, "garbage-token"
	case strings.HasPrefix(a.tok, "1:"):
		f := strings.Split(a.tok, ":")
		issuer, verb, cnr := atoi(f[1]), atoi(f[3]), atoi(f[4])
		iat, nbf, exp := atoi(f[5]), atoi(f[6]), atoi(f[7])
		ts := parseIrcTSig(f[2])
		sigOK := issuer != 0 && ((ts.kind == 'e' && ts.claimed == issuer && ts.signer == ts.claimed && ts.good) || (ts.kind == 'n' && ts.n3ok))
		keyOK := f[8] != "x" && atoi(f[8]) == a.sig.key && a.sig.good
		return sigOK && issuer == a.own && verb == ircV1Verb[a.kind] && (a.kind == "put" || cnr == 0 || cnr == a.tgt) &&
			nbf <= epoch && iat <= epoch && epoch <= exp && keyOK, true, "v1"
	}
	chain := parseIrcV2(a.tok[2:])
	verb := ircV2Verb[a.kind]
	ok = len(chain) > 0
	for i, t := range chain {
		sigOK := t.issuer != 0 && ((t.sig.kind == 'e' && t.sig.claimed == t.issuer && t.sig.signer == t.sig.claimed && t.sig.good) || (t.sig.kind == 'n' && t.sig.n3ok))
		grants := false
		for _, cx := range t.ctxs {
			if cx[0] == 0 || cx[0] == a.tgt {
				grants = grants || inList(cx[1:], verb)
			}
		}
		alive := t.life != nil && t.life[1] <= now && now <= t.life[2]
		ok = ok && sigOK && grants && alive
		if i+1 < len(chain) {
			ok = ok && inList(chain[i+1].subjects, t.issuer)
		} else {
			ok = ok && t.issuer == a.own
		}
	}
	if len(chain) > 0 {
		t := chain[0]
		signerOK = isKey && a.sig.key == vk && a.sig.good && (inList(t.subjects, vk) || t.issuer == vk)
	}
	return ok, signerOK, "v2"
}

func ircOracle(c *runCtx, line string, o opLine, approved bool) {
	if !approved {
		return
	}
	kind := o.name
	if kind == "create" {
		kind = "put"
	}
	c.oracle("approved-only-by-alphabet", o.flag("alpha"), line)
	check := func(a ircAuth) {
		ok, signerOK, why := ircAuthorised(a, o.int("epoch"), o.int("now"))
		switch why {
		case "v2":
			c.oracle("approved-v2-token-chain-from-owner-for-verb-and-container", ok, "tok=v2 "+line)
			if ok {
				c.oracleSig("approved-v2-request-signed-by-a-party-of-the-token", "v2", signerOK,
					"v2-payload-signer-unchecked: approved although the payload is not signed by a subject or the issuer of the token: "+line)
			}
		default:
			c.oracle("approved-implies-owner-signature-or-valid-owner-token", ok, why+" "+line)
		}
	}
	check(parseIrcAuth(o, "", kind))
	switch kind {
	case "put":
		okAttrs := true
		hasMeta := false
		for _, a := range strings.Split(o.str("attrs"), ",") {
			if strings.HasPrefix(a, "__NEOFS__") {
				allowed := a == "__NEOFS__NAME" || a == "__NEOFS__ZONE" || a == "__NEOFS__LOCK_UNTIL" || a == "__NEOFS__METAINFO_CONSISTENCY"
				okAttrs = okAttrs && allowed
				if a == "__NEOFS__METAINFO_CONSISTENCY" {
					hasMeta = true
					okAttrs = okAttrs && o.flag("me")
				}
			}
		}
		_ = hasMeta
		c.oracle("approved-put-only-permitted-system-attributes", okAttrs, line)
		c.oracle("approved-put-policy-valid", o.flag("pol") && (o.int("ecr") == 0 || (o.flag("ec") && o.int("reps") == 0)), line)
		if o.name == "put" && o.str("rz") != "" {
			c.oracle("approved-named-put-matches-container-domain", o.str("rn") == o.str("cn") && o.str("rz") == o.str("cz"), line)
		}
		if o.flag("eacl") {
			check(parseIrcAuth(o, "e_", "eacl"))
			c.oracle("approved-eacl-allowed-and-no-system-role", o.flag("e_tabok") && o.int("e_tcid") == o.int("nid") && !ircHasSystemRole(o.kv["e_recs"]), line)
		}
	case "eacl":
		c.oracle("approved-eacl-allowed-and-no-system-role", o.flag("ext") && o.flag("found") && !ircHasSystemRole(o.kv["recs"]), line)
	default:
		c.oracle("approved-change-of-existing-container", o.flag("found") && o.flag("idok"), line)
	}
	c.nontrivial(line)
}

func ircHasSystemRole(recs string) bool {
	if recs == "-" || recs == "" {
		return false
	}
	for _, rsx := range strings.Split(recs, ";") {
		f := strings.Split(rsx, "/")
		if inList(splitInts(f[1], ","), 2) {
			return true
		}
	}
	return false
}

var _ = sort.Ints

// ---- generation --------------------------------------------------------------------

type ircGenAuth struct {
	own, tgt int
	vs       string
	sig      ircSig
	tok      string
}

func (a ircGenAuth) render(pfx string) string {
	b := func(x bool) int {
		if x {
			return 1
		}
		return 0
	}
	return fmt.Sprintf("%sown=%d %stgt=%d %svs=%s %ssig=%d:%d:%d %stok=%s", pfx, a.own, pfx, a.tgt, pfx, a.vs, pfx, a.sig.key, b(a.sig.good), b(a.sig.n3ok), pfx, a.tok)
}

func renderV2(chain []ircV2Tok) string {
	var ts []string
	for _, t := range chain {
		var cs []string
		for _, c := range t.ctxs {
			vs := make([]string, 0, len(c)-1)
			for _, v := range c[1:] {
				vs = append(vs, strconv.Itoa(v))
			}
			cs = append(cs, fmt.Sprintf("%d.%s", c[0], strings.Join(vs, "+")))
		}
		ctx := "-"
		if len(cs) > 0 {
			ctx = strings.Join(cs, "|")
		}
		life := "-"
		if t.life != nil {
			life = fmt.Sprintf("%d.%d.%d", t.life[0], t.life[1], t.life[2])
		}
		fin := 0
		if t.final {
			fin = 1
		}
		ts = append(ts, fmt.Sprintf("%d/%d/%s/%s/%s/%d/%s", t.version, t.issuer, joinInts(t.subjects), ctx, life, fin, renderTSig(t.sig)))
	}
	return "2:" + strings.Join(ts, ";")
}

func renderTSig(t ircTSig) string {
	b := func(x bool) int {
		if x {
			return 1
		}
		return 0
	}
	switch t.kind {
	case '-', 'u':
		return string(t.kind)
	case 'n':
		return fmt.Sprintf("n%d.%d", t.vs, b(t.n3ok))
	}
	cl := strconv.Itoa(t.claimed)
	if t.claimed < 0 {
		cl = "x"
	}
	return fmt.Sprintf("e%s.%d.%d", cl, t.signer, b(t.good))
}

func goodTSig(k int) ircTSig { return ircTSig{kind: 'e', claimed: k, signer: k, good: true} }

// genAuth builds a witness for (kind, owner, target) that is valid for its mode and then applies
// `nmut` random single-field corruptions.
func genAuth(r *rand.Rand, kind string, owner, tgt int, epoch, now int, nmut int) ircGenAuth {
	a := ircGenAuth{own: owner, tgt: tgt}
	verb1, verb2 := ircV1Verb[kind], ircV2Verb[kind]
	other := func(not int) int {
		for {
			k := 1 + r.IntN(ircNKeys)
			if k != not {
				return k
			}
		}
	}
	cnrChoices := func() int { // a container number for a token: target, wildcard or another one
		switch r.IntN(4) {
		case 0:
			return 0
		case 1:
			return 1 + r.IntN(6)
		}
		if tgt == 0 {
			return 0
		}
		return tgt
	}
	mode := r.IntN(10)
	switch {
	case mode < 3: // direct
		a.tok = "-"
		a.vs = fmt.Sprintf("k%d", owner)
		a.sig = ircSig{key: owner, good: true}
		for i := 0; i < nmut; i++ {
			switch r.IntN(6) {
			case 0:
				k := other(owner)
				a.vs = fmt.Sprintf("k%d", k)
				a.sig.key = k // a stranger signing for himself
			case 1:
				a.sig.key = other(owner)
			case 2:
				a.sig.good = false
			case 3:
				a.vs = fmt.Sprintf("o%d", r.IntN(3))
				a.sig.n3ok = r.IntN(2) == 0
			case 4:
				a.vs = fmt.Sprintf("k%d", other(owner))
			case 5:
				a.tok = "g"
			}
		}
	case mode < 6: // V1
		sk := other(owner)
		f := struct {
			issuer, verb, cnr, iat, nbf, exp int
			ts                               ircTSig
			ak                               string
		}{owner, verb1, cnrChoices(), epoch - r.IntN(2), epoch - r.IntN(2), epoch + r.IntN(2), goodTSig(owner), strconv.Itoa(sk)}
		if f.cnr != 0 && f.cnr != tgt && kind != "put" {
			f.cnr = tgt
		}
		if f.iat < 0 {
			f.iat = 0
		}
		if f.nbf < 0 {
			f.nbf = 0
		}
		a.vs = fmt.Sprintf("k%d", sk)
		a.sig = ircSig{key: sk, good: true}
		for i := 0; i < nmut; i++ {
			switch r.IntN(13) {
			case 0:
				f.verb = 1 + r.IntN(6)
			case 1:
				f.cnr = 1 + r.IntN(6)
			case 2:
				k := other(owner)
				f.issuer, f.ts = k, goodTSig(k) // a well-formed token of somebody else
			case 3:
				f.ts.good = false // token changed after signing
			case 4:
				f.ts.signer = other(owner)
			case 5:
				f.ts.claimed = other(owner)
				f.ts.signer = f.ts.claimed
			case 6:
				f.exp = epoch - 1 - r.IntN(2)
				if f.exp < 0 {
					f.exp = 0
					f.nbf = 0
					f.iat = 0
				}
			case 7:
				f.nbf = epoch + 1 + r.IntN(2)
			case 8:
				f.iat = epoch + 1
			case 9:
				a.sig.key = other(sk) // payload signed by a key the token does not name
			case 10:
				a.sig.good = false // payload changed after signing
			case 11:
				f.ts = []ircTSig{{kind: '-'}, {kind: 'u'}, {kind: 'n', vs: r.IntN(2), n3ok: r.IntN(2) == 0}, {kind: 'e', claimed: -1, signer: owner, good: true}}[r.IntN(4)]
			case 12:
				f.ak = "x"
			}
		}
		a.tok = fmt.Sprintf("1:%d:%s:%d:%d:%d:%d:%d:%s", f.issuer, renderTSig(f.ts), f.verb, f.cnr, f.iat, f.nbf, f.exp, f.ak)
	default: // V2 chain
		depth := 1 + r.IntN(3)
		if r.IntN(12) == 0 {
			depth = 5 + r.IntN(2)
		}
		// root first, then delegates; reversed at the end (outermost first)
		var chain []ircV2Tok
		holder := owner
		verbs := []int{verb2}
		for _, v := range []int{2, 8, 9, 10, 11, 12} {
			if v != verb2 && r.IntN(3) == 0 {
				verbs = append(verbs, v)
			}
		}
		sort.Ints(verbs)
		lo, hi := now-20, now+20
		for d := 0; d < depth; d++ {
			next := other(holder)
			t := ircV2Tok{issuer: holder, subjects: []int{next}, life: []int{lo, lo, hi}, sig: goodTSig(holder)}
			if r.IntN(3) == 0 {
				t.subjects = append(t.subjects, 6+r.IntN(3))
			}
			c := cnrChoices()
			if c != 0 && c != tgt {
				c = tgt
			}
			if d > 0 && len(chain[d-1].ctxs) > 0 && chain[d-1].ctxs[0][0] != 0 && c == 0 {
				c = chain[d-1].ctxs[0][0] // a wildcard cannot be delegated from an explicit context
			}
			t.ctxs = [][]int{append([]int{c}, verbs...)}
			if c != 0 && r.IntN(3) == 0 && d == 0 {
				t.ctxs = [][]int{{0, 2}, append([]int{c}, verbs...)} // independent wildcard for object reads
			}
			chain = append(chain, t)
			holder = next
			lo, hi = lo+r.IntN(3), hi-r.IntN(3)
		}
		signer := holder
		if r.IntN(2) == 0 {
			signer = chain[len(chain)-1].issuer
		}
		a.vs = fmt.Sprintf("k%d", signer)
		a.sig = ircSig{key: signer, good: true}
		for i := 0; i < nmut; i++ {
			j := r.IntN(len(chain))
			t := &chain[j]
			switch r.IntN(17) {
			case 0: // the verb is not granted
				for ci := range t.ctxs {
					t.ctxs[ci] = []int{t.ctxs[ci][0], 2}
				}
			case 1:
				t.ctxs[len(t.ctxs)-1][0] = 1 + r.IntN(6)
			case 2:
				k := other(t.issuer)
				t.issuer, t.sig = k, goodTSig(k)
			case 3:
				t.sig.good = false
			case 4:
				t.sig.signer = other(t.issuer)
			case 5:
				t.life = []int{now - 30, now - 30, now - 1 - r.IntN(3)}
			case 6:
				t.life = []int{now - 30, now + 1 + r.IntN(3), now + 30}
			case 7:
				t.life = nil
			case 8:
				t.version = 1
			case 9:
				t.final = true
			case 10:
				t.subjects = []int{6 + r.IntN(3)}
			case 11: // verbs widened by a delegate
				t.ctxs[0] = append([]int{t.ctxs[0][0]}, []int{1, 2, 3, 8, 9, 10, 11, 12}...)
			case 12:
				t.life = []int{now - 50, now - 50, now + 50}
			case 13:
				t.sig = []ircTSig{{kind: '-'}, {kind: 'u'}, {kind: 'n', vs: r.IntN(2), n3ok: r.IntN(2) == 0}, {kind: 'e', claimed: -1, signer: t.issuer, good: true}}[r.IntN(4)]
			case 14: // the payload signer is a stranger / the payload was changed: V2 does not look at it
				a.sig = ircSig{key: other(signer), good: r.IntN(2) == 0}
				a.vs = fmt.Sprintf("k%d", a.sig.key)
			case 15:
				a.sig.good = false
			case 16:
				t.life = []int{now + 5, now - 5, now + 30} // issued in the future
			}
		}
		for i, j := 0, len(chain)-1; i < j; i, j = i+1, j-1 {
			chain[i], chain[j] = chain[j], chain[i]
		}
		a.tok = renderV2(chain)
	}
	return a
}

var ircAttrMenu = []string{"color", "__NEOFS__NAME", "__NEOFS__ZONE", "__NEOFS__LOCK_UNTIL", "__NEOFS__METAINFO_CONSISTENCY",
	"__NEOFS__DISABLE_HOMOMORPHIC_HASHING", "__NEOFS__X", "__NEOFSX", "Timestamp"}

func genRecs(r *rand.Rand, bad bool) string {
	n := r.IntN(3)
	if bad && n == 0 {
		n = 1
	}
	var rs []string
	badAt := -1
	if bad {
		badAt = r.IntN(n)
	}
	for i := 0; i < n; i++ {
		comment, roles, filters := 0, []int{1 + 2*r.IntN(2)}, []string{}
		for k := r.IntN(3); k > 0; k-- {
			m := 1 + r.IntN(7)
			v := "o"
			if m == 3 {
				v = "e"
			} else if m >= 4 {
				v = "d"
			} else {
				v = []string{"e", "d", "o"}[r.IntN(3)]
			}
			filters = append(filters, fmt.Sprintf("%d.%s", m, v))
		}
		if i == badAt {
			switch r.IntN(5) {
			case 0:
				comment = 1
			case 1:
				comment = 2
			case 2:
				roles = append(roles, 2)
			case 3:
				filters = append(filters, "3."+[]string{"d", "o"}[r.IntN(2)])
			case 4:
				filters = append(filters, fmt.Sprintf("%d.%s", 4+r.IntN(4), []string{"e", "o"}[r.IntN(2)]))
			}
		}
		fs := "-"
		if len(filters) > 0 {
			fs = strings.Join(filters, "+")
		}
		rs = append(rs, fmt.Sprintf("%d/%s/%s", comment, joinInts(roles), fs))
	}
	if len(rs) == 0 {
		return "-"
	}
	return strings.Join(rs, ";")
}

func b2i(b bool) int {
	if b {
		return 1
	}
	return 0
}

func ircGen(c *runCtx, run func([]string)) {
	r := c.rng
	total := c.n(1400, 12000)
	batch := 100
	for done := 0; done < total; done += batch {
		var ops []string
		for i := 0; i < batch; i++ {
			kind := []string{"put", "create", "delete", "eacl", "setattr", "rmattr"}[r.IntN(6)]
			epoch, now := 3+r.IntN(5), 100+r.IntN(50)
			owner := 1 + r.IntN(2)
			nmut := []int{0, 0, 1, 1, 1, 2}[r.IntN(6)]
			flip := func(p int) bool { return r.IntN(p) != 0 } // mostly true
			hdr := fmt.Sprintf("irc %s alpha=%d me=%d ec=%d epoch=%d now=%d", kind, b2i(flip(12)), r.IntN(2), r.IntN(2), epoch, now)
			switch kind {
			case "put", "create":
				nid := 1 + r.IntN(6)
				akind := "put"
				a := genAuth(r, akind, owner, 0, epoch, now, nmut)
				var attrs []string
				for _, at := range ircAttrMenu {
					p := 12
					if at == "color" || at == "__NEOFS__NAME" {
						p = 3
					}
					if r.IntN(p) == 0 {
						attrs = append(attrs, at)
					}
				}
				pol := ircPolicy{reps: 1 + r.IntN(2), polOK: flip(8)}
				if r.IntN(4) == 0 {
					pol.ecr = 1 + r.IntN(2)
					if r.IntN(4) != 0 {
						pol.reps = 0
					}
				}
				pol.init = r.IntN(8) == 0
				// the container's own domain as the SDK reads it
				probe, _ := ircGet().ircNewContainer(owner, true, attrs, pol, nid, kind == "create")
				d := probe.ReadDomain()
				cn, cz := d.Name(), d.Zone()
				rn, rz := "", ""
				if kind == "put" && r.IntN(3) == 0 {
					rn, rz = cn, cz
					if rz == "" {
						rz = "container"
					}
					switch r.IntN(5) {
					case 0:
						rn = "othername"
					case 1:
						rz = "otherzone"
					}
				}
				dash := func(s string) string {
					if s == "" {
						return "-"
					}
					return s
				}
				at := "-"
				if len(attrs) > 0 {
					at = strings.Join(attrs, ",")
				}
				line := fmt.Sprintf("%s %s dec=%d attrs=%s ecr=%d reps=%d init=%d pol=%d rn=%s rz=%s cn=%s cz=%s nid=%d", hdr, a.render(""), b2i(flip(15)),
					at, pol.ecr, pol.reps, b2i(pol.init), b2i(pol.polOK), dash(rn), dash(rz), dash(cn), dash(cz), nid)
				if kind == "create" && r.IntN(3) == 0 {
					ea := genAuth(r, "eacl", owner, nid, epoch, now, []int{0, 0, 1}[r.IntN(3)])
					tcid := nid
					if r.IntN(6) == 0 {
						tcid = r.IntN(7) // another container, or 0: a table that names no container at all
					}
					line += fmt.Sprintf(" eacl=1 %s e_tabok=%d e_tcid=%d e_recs=%s e_ext=%d", ea.render("e_"), b2i(flip(10)), tcid, genRecs(r, r.IntN(5) == 0), b2i(flip(6)))
				} else {
					line += " eacl=0"
				}
				ops = append(ops, line)
			case "delete":
				tgt := 1 + r.IntN(4)
				a := genAuth(r, kind, owner, tgt, epoch, now, nmut)
				ops = append(ops, fmt.Sprintf("%s %s idok=%d found=%d", hdr, a.render(""), b2i(flip(12)), b2i(flip(10))))
			case "eacl":
				tgt := 1 + r.IntN(4)
				a := genAuth(r, kind, owner, tgt, epoch, now, nmut)
				ops = append(ops, fmt.Sprintf("%s %s found=%d tabok=%d tcid=%d recs=%s ext=%d", hdr, a.render(""), b2i(flip(10)), b2i(flip(12)),
					b2i(flip(12))*tgt, genRecs(r, r.IntN(5) == 0), b2i(flip(6))))
			default:
				tgt := 1 + r.IntN(4)
				a := genAuth(r, kind, owner, tgt, epoch, now, nmut)
				ops = append(ops, fmt.Sprintf("%s %s idok=%d nz=%d ne=%d found=%d", hdr, a.render(""), b2i(flip(12)), b2i(flip(12)), b2i(flip(8)), b2i(flip(10))))
			}
		}
		run(ops)
	}
}
