package main

import (
	"errors"
	"fmt"
	"os"
	"path/filepath"
	"sort"
	"strconv"
	"strings"
	"time"

	"github.com/google/uuid"
	"github.com/nspcc-dev/bbolt"
	meta "github.com/nspcc-dev/neofs-node/pkg/local_object_storage/metabase"
	iec "github.com/nspcc-dev/neofs-node/pkg/util/verifbridge"
	apistatus "github.com/nspcc-dev/neofs-sdk-go/client/status"
	"github.com/nspcc-dev/neofs-sdk-go/object"
	oid "github.com/nspcc-dev/neofs-sdk-go/object/id"
)

var _ = iec.ECRule{}

var traceOps = os.Getenv("VH_TRACE") != ""

func init() {
	engines["meta"] = seqRunner{gen: metaGen, exec: metaExec}.engine()
}

const (
	metaNC = 3  // containers 1..metaNC
	metaNO = 12 // object ids 1..metaNO
)

// mHdr is one header of an object's chain (self, parent, grandparent) as written in an op line.
type mHdr struct {
	id, typ                       string
	size                          int
	parentID, first, split, assoc int
	exp                           string
	hasExp                        bool
	ecRule, ecPart                int
	hasEC, other                  bool
}

func parseHdr(o opLine, pre string) (mHdr, bool) {
	if _, ok := o.kv[pre+"id"]; !ok && pre != "" {
		return mHdr{}, false
	}
	geti := func(k string) int {
		v, ok := o.kv[pre+k]
		if !ok {
			return 0
		}
		n, _ := strconv.Atoi(v)
		return n
	}
	h := mHdr{id: o.kv[pre+"id"], typ: o.kv[pre+"typ"], size: geti("size"), parentID: geti("par"), first: geti("first"),
		split: geti("split"), assoc: geti("assoc"), other: o.kv[pre+"other"] == "1"}
	if pre == "" {
		h.id = o.kv["o"]
	}
	if h.typ == "" {
		h.typ = "REG"
	}
	if v, ok := o.kv[pre+"exp"]; ok {
		h.exp, h.hasExp = unhx(strings.TrimSuffix(v, "_")), true
	}
	if v, ok := o.kv[pre+"ec"]; ok {
		fmt.Sscanf(v, "%d/%d", &h.ecRule, &h.ecPart)
		h.hasEC = true
	}
	return h, true
}

func numSplitID(n int) *object.SplitID {
	var u uuid.UUID
	u[15] = byte(n)
	u[0] = 0x11
	s := object.NewSplitID()
	s.SetUUID(u)
	return s
}

func buildHdr(cn int, h mHdr, parent *object.Object) *object.Object {
	idn, _ := strconv.Atoi(h.id)
	obj := mkObject(cn, idn, nil)
	if idn == 0 {
		obj.ResetID()
	}
	obj.SetPayloadSize(uint64(h.size))
	switch h.typ {
	case "TS":
		obj.AssociateDeleted(numOID(h.assoc))
		if h.assoc == 0 {
			obj.SetAttributes()
			obj.SetType(object.TypeTombstone)
		}
	case "LOCK":
		obj.AssociateLocked(numOID(h.assoc))
		if h.assoc == 0 {
			obj.SetAttributes()
			obj.SetType(object.TypeLock)
		}
	case "LINK":
		obj.SetType(object.TypeLink)
	case "SG":
		obj.SetType(object.TypeStorageGroup) //nolint:staticcheck
	default:
		obj.SetType(object.TypeRegular)
	}
	attrs := obj.Attributes()
	if h.hasExp {
		attrs = append(attrs, object.NewAttribute(object.AttributeExpirationEpoch, h.exp))
	}
	if h.hasEC {
		attrs = append(attrs, object.NewAttribute("__NEOFS__EC_RULE_IDX", strconv.Itoa(h.ecRule)),
			object.NewAttribute("__NEOFS__EC_PART_IDX", strconv.Itoa(h.ecPart)))
	}
	obj.SetAttributes(attrs...)
	if parent != nil {
		obj.SetParent(parent)
	}
	if h.parentID != 0 && parent == nil {
		obj.SetParentID(numOID(h.parentID))
	}
	if h.first != 0 {
		obj.SetFirstID(numOID(h.first))
	}
	if h.split != 0 {
		obj.SetSplitID(numSplitID(h.split))
	}
	if h.other {
		obj.SetPreviousID(numOID(200))
	}
	return obj
}

func buildChainObj(cn int, o opLine) *object.Object {
	self, _ := parseHdr(o, "")
	var parent *object.Object
	if p, ok := parseHdr(o, "p."); ok {
		var gp *object.Object
		if g, ok := parseHdr(o, "g."); ok {
			gp = buildHdr(cn, g, nil)
		}
		parent = buildHdr(cn, p, gp)
	}
	return buildHdr(cn, self, parent)
}

func metaErrClass(err error) string {
	var si *object.SplitInfoError
	var parts iec.ECErrParts
	switch {
	case err == nil:
		return "K"
	case errors.As(err, &si):
		return "S"
	case errors.As(err, &parts):
		return "E"
	case errors.Is(err, meta.ErrLockObjectRemoval):
		return "V"
	case errors.As(err, new(apistatus.LockNonRegularObject)):
		return "Q"
	case errors.As(err, new(apistatus.ObjectLocked)):
		return "L"
	case errors.As(err, new(apistatus.ObjectAlreadyRemoved)):
		return "R"
	case errors.Is(err, meta.ErrObjectIsExpired):
		return "X"
	case errors.As(err, new(apistatus.ObjectNotFound)):
		return "N"
	}
	return "O"
}

type metaDB struct {
	db    *meta.DB
	epoch *epochSrc
	dir   string
}

func newMetaDB() *metaDB {
	dir := scratchDir("meta")
	ep := &epochSrc{}
	db := meta.New(meta.WithPath(filepath.Join(dir, "meta")), meta.WithPermissions(0o700), meta.WithEpochState(ep),
		meta.WithMaxBatchDelay(time.Microsecond), meta.WithBoltDBOptions(&bbolt.Options{NoSync: true, NoGrowSync: true, NoFreelistSync: true, Timeout: time.Second}))
	if err := db.Open(false); err != nil {
		panic(err)
	}
	if err := db.Init(numShardID()); err != nil {
		panic(err)
	}
	return &metaDB{db: db, epoch: ep, dir: dir}
}

// batched runs call inside ONE bbolt batch together with a partner call that fails in its closure without touching
// anything (a header the metabase refuses): bbolt rolls the batch back, runs the surviving closure AGAIN and the
// failed one alone. A closure that keeps results outside itself across the two runs counts them twice.
func (m *metaDB) batched(call func()) {
	m.db.VerifSetBatch(2, 2*time.Second) // the batch waits for its second call
	defer m.db.VerifSetBatch(1000, time.Microsecond)
	done := make(chan struct{})
	go func() { defer close(done); call() }()
	time.Sleep(15 * time.Millisecond) // the call is queued first
	bad := object.New(numCID(1), numOwner(1))
	bad.SetID(numOID(200)) // no payload checksum, no type-specific fields: VerifyHeaderForMetadata refuses it
	if err := m.db.Put(bad); err == nil {
		panic("batched: the partner call was expected to fail")
	}
	<-done
}

func (m *metaDB) close() {
	m.db.Close()
	os.RemoveAll(m.dir)
}

func typeName(t object.Type) string {
	switch t {
	case object.TypeTombstone:
		return "TS"
	case object.TypeLock:
		return "LOCK"
	case object.TypeLink:
		return "LINK"
	case object.TypeStorageGroup: //nolint:staticcheck
		return "SG"
	}
	return "REG"
}

// dump prints every observation point of the metabase for the whole universe, canonically.
func (m *metaDB) dump() string {
	var ex, ge, gr, lk strings.Builder
	for c := 1; c <= metaNC; c++ {
		for o := 1; o <= metaNO; o++ {
			a := numAddr(c, o)
			ok, err := m.db.Exists(a, false)
			switch {
			case err != nil:
				ex.WriteString(metaErrClass(err))
			case ok:
				ex.WriteString("T")
			default:
				ex.WriteString("F")
			}
			_, err = m.db.Get(a, false)
			ge.WriteString(metaErrClass(err))
			_, err = m.db.Get(a, true)
			gr.WriteString(metaErrClass(err))
			l, err := m.db.IsLocked(a)
			if err != nil {
				lk.WriteString("O")
			} else if l {
				lk.WriteString("1")
			} else {
				lk.WriteString("0")
			}
		}
	}
	// listing with page size 3 from the start, following the cursor
	var list []string
	var cur *meta.Cursor
	for guard := 0; guard < 100; guard++ {
		res, next, err := m.db.ListWithCursor(3, cur)
		if err != nil {
			if !errors.Is(err, meta.ErrEndOfListing) {
				list = append(list, "ERR")
			}
			break
		}
		for _, r := range res {
			list = append(list, fmt.Sprintf("%d/%d", cidNum(r.Address.Container()), oidNum(r.Address.Object())))
		}
		list = append(list, "|")
		cur = next
	}
	var exp []string
	_ = m.db.IterateExpired(m.epoch.CurrentEpoch(), func(a oid.Address, t object.Type) error {
		exp = append(exp, fmt.Sprintf("%d/%d:%s", cidNum(a.Container()), oidNum(a.Object()), typeName(t)))
		return nil
	})
	var garb []string
	bins, _ := m.db.GetGarbage(5)
	for _, b := range bins {
		var ids []string
		for _, id := range b.Objects {
			ids = append(ids, strconv.Itoa(oidNum(id)))
		}
		garb = append(garb, fmt.Sprintf("%d:%s", cidNum(b.Container), strings.Join(ids, ".")))
	}
	ctr, _ := m.db.ObjectCounters()
	var info []string
	for c := 1; c <= metaNC; c++ {
		ci, _ := m.db.GetContainerInfo(numCID(c))
		info = append(info, fmt.Sprintf("%d/%d", ci.StorageSize, ci.ObjectsNumber))
	}
	j := func(xs []string) string {
		if len(xs) == 0 {
			return "-"
		}
		return strings.Join(xs, ",")
	}
	return fmt.Sprintf("E=%s G=%s R=%s L=%s list=%s exp=%s garb=%s ctr=%d,%d,%d,%d,%d,%d,%d info=%s",
		ex.String(), ge.String(), gr.String(), lk.String(), j(list), j(exp), j(garb),
		ctr.Phy, ctr.Root, ctr.TS, ctr.Lock, ctr.Link, ctr.GC, ctr.Payload, j(info))
}

func idList(xs []int) []oid.ID {
	out := make([]oid.ID, len(xs))
	for i, x := range xs {
		out[i] = numOID(x)
	}
	return out
}

func metaExec(c *runCtx, ops []string) {
	m := newMetaDB()
	defer m.close()
	sh := newMetaShadow()
	for _, line := range ops {
		o := parseOp(line)
		c.count(o.name)
		if traceOps {
			fmt.Fprintln(os.Stderr, "TRACE", line)
		}
		var res string
		switch o.name {
		case "epoch":
			m.epoch.e.Store(o.u64("e"))
			sh.epoch = o.int("e")
			res = "=> ok"
		case "put":
			cn := o.int("c")
			obj := buildChainObj(cn, o)
			var err error
			if o.flag("bat") {
				m.batched(func() { err = m.db.Put(obj) })
			} else {
				err = m.db.Put(obj)
			}
			res = "=> " + metaErrClass(err)
			c.count("put:" + metaErrClass(err))
			sh.put(cn, o, err)
		case "mark":
			var err error
			mark := func() {
				_, err = m.db.MarkGarbage(numCID(o.int("c")), idList(o.ints("ids")), meta.GarbageMark(o.int("red")))
			}
			if o.flag("bat") {
				m.batched(mark)
			} else {
				mark()
			}
			res = "=> " + metaErrClass(err)
			sh.mark(o.int("c"), o.ints("ids"), o.int("red") == 1)
		case "inhumecnr":
			_, err := m.db.InhumeContainer(numCID(o.int("c")))
			res = "=> " + metaErrClass(err)
			sh.inhumeCnr(o.int("c"))
		case "delcnr":
			err := m.db.DeleteContainer(numCID(o.int("c")))
			res = "=> " + metaErrClass(err)
			sh.delCnr(o.int("c"))
		case "sync":
			res = "=> " + metaErrClass(m.db.SyncCounters())
		case "delete":
			var err error
			del := func() { _, _, err = m.db.Delete(numCID(o.int("c")), idList(o.ints("ids"))) }
			if o.flag("bat") {
				m.batched(del)
			} else {
				del()
			}
			res = "=> " + metaErrClass(err)
			sh.delete(o.int("c"), o.ints("ids"))
		case "revive":
			st, err := m.db.ReviveObject(numAddr(o.int("c"), o.int("o")))
			_ = err
			switch st.StatusType() {
			case meta.ReviveStatusGraveyard:
				res = fmt.Sprintf("=> graveyard tomb=%d", oidNum(st.TombstoneAddress().Object()))
			case meta.ReviveStatusGarbage:
				res = "=> garbage"
			default:
				res = "=> notrevived"
			}
			sh.revive(o.int("c"), o.int("o"), st.StatusType() != meta.ReviveStatusError)
		default:
			c.emit(line, "=> bad-op")
			continue
		}
		d := m.dump()
		c.emit(line, res+" "+d)
		sh.check(c, m, d)
	}
	if len(ops) > 5 {
		c.nontrivial(strings.Join(ops, ";"))
	}
}

// ---------------------------------------------------------------------------- generator

func metaGen(c *runCtx, run func([]string)) {
	nseq := c.n(250, 12000)
	for s := 0; s < nseq; s++ {
		g := newMetaGenState(c)
		n := 8 + c.rng.IntN(28)
		var ops []string
		for i := 0; i < n; i++ {
			op := g.op()
			// now and then a writing call shares its bbolt batch with a call that fails (the batch is rolled back and
			// the surviving closure runs a second time)
			if c.prop == "C02" && c.rng.IntN(12) == 0 && (strings.HasPrefix(op, "meta mark") || strings.HasPrefix(op, "meta put") || strings.HasPrefix(op, "meta delete")) {
				op += " bat=1"
			}
			ops = append(ops, op)
		}
		run(ops)
	}
}

// metaGenState holds the "world" of one sequence: an object id denotes one fixed header (an id is the hash
// of its header), so every put of the same address carries the same header, and every child that embeds
// parent P carries P's one header. Ids 1..8 are stored objects with random roles, ids 9..12 are virtual
// parents (never stored physically), which also keeps the parent relation acyclic.
type metaGenState struct {
	c     *runCtx
	nc    int
	epoch int
	self  [metaNC + 1][metaNO + 1]string // put-line fields of the object
	asPar [metaNC + 1][metaNO + 1]string // "size=.. [exp=..]" of the id when embedded as a parent header
}

func newMetaGenState(c *runCtx) *metaGenState {
	g := &metaGenState{c: c, nc: 1 + c.rng.IntN(2)}
	r := c.rng
	for cn := 1; cn <= metaNC; cn++ {
		for p := 9; p <= 12; p++ {
			g.asPar[cn][p] = fmt.Sprintf("size=%d", 30+r.IntN(40))
			if r.IntN(4) == 0 {
				g.asPar[cn][p] += " exp=" + g.expStr() + "_"
			}
		}
		// at most one mid-level virtual object: id 12 is then a size-split child of a v2 parent that is itself
		// EC-coded (never stored as a whole - an object is either stored physically or split into parts)
		mid := r.IntN(3) == 0
		midGP := 9 + r.IntN(3)
		midF := midGP - 8
		if mid {
			g.asPar[cn][12] = fmt.Sprintf("size=20 first=%d", midF)
		}
		parentFields := func(pre string, p int) string {
			out := fmt.Sprintf(" %sid=%d", pre, p)
			for _, f := range strings.Fields(g.asPar[cn][p]) {
				out += " " + pre + f
			}
			if mid && p == 12 && pre == "p." {
				out += fmt.Sprintf(" g.id=%d", midGP)
				for _, f := range strings.Fields(g.asPar[cn][midGP]) {
					out += " g." + f
				}
			}
			return out
		}
		withExp := func(s string) string {
			if r.IntN(3) == 0 {
				return s + " exp=" + g.expStr() + "_"
			}
			return s
		}
		// every virtual parent has one kind: size-split by first id (v2), size-split by split id (v1) or EC
		kind := [13]int{}
		for p := 9; p <= 12; p++ {
			kind[p] = r.IntN(3)
		}
		if mid {
			kind[midGP] = 0
			kind[12] = 2
		}
		pick := func(k int) int { // a parent of the given kind, 0 if there is none
			var c []int
			for p := 9; p <= 12; p++ {
				if kind[p] == k {
					c = append(c, p)
				}
			}
			if len(c) == 0 {
				return 0
			}
			return c[r.IntN(len(c))]
		}
		for o := 1; o <= 8; o++ {
			root := withExp(fmt.Sprintf("typ=REG size=%d", r.IntN(40)))
			pv2, pv1, pec := pick(0), pick(1), pick(2)
			// first id / split id are functions of the parent: members of one chain agree on them
			F, S := pv2-8, pv1-8
			switch k := r.IntN(100); {
			case k < 20:
				g.self[cn][o] = root
			case k < 25: // first part: parent header without id
				g.self[cn][o] = fmt.Sprintf("typ=REG size=%d p.id=0 p.size=50", r.IntN(20))
			case k < 31 && pv2 != 0: // middle part
				g.self[cn][o] = fmt.Sprintf("typ=REG size=%d first=%d other=1", r.IntN(20), F)
			case k < 39 && pv2 != 0: // last part carrying the parent header
				g.self[cn][o] = withExp(fmt.Sprintf("typ=REG size=%d first=%d", r.IntN(20), F)) + parentFields("p.", pv2)
			case k < 44 && pv2 != 0: // link
				g.self[cn][o] = fmt.Sprintf("typ=LINK size=0 first=%d", F) + parentFields("p.", pv2)
			case k < 48 && pv1 != 0: // v1 split member
				g.self[cn][o] = fmt.Sprintf("typ=REG size=%d split=%d", r.IntN(20), S)
			case k < 53 && pv1 != 0: // v1 last/link member carrying the parent header
				g.self[cn][o] = fmt.Sprintf("typ=REG size=%d split=%d", r.IntN(3), S) + parentFields("p.", pv1)
			case k < 56 && pv2 != 0: // only the parent id
				g.self[cn][o] = fmt.Sprintf("typ=REG size=%d first=%d par=%d", r.IntN(20), F, pv2)
			case k < 68 && pec != 0: // EC part
				g.self[cn][o] = fmt.Sprintf("typ=REG size=10 ec=%d/%d", r.IntN(2), r.IntN(3)) + parentFields("p.", pec)
			case k < 72 && mid: // EC part of the mid-level object
				g.self[cn][o] = fmt.Sprintf("typ=REG size=5 ec=0/%d", r.IntN(3)) + parentFields("p.", 12)
			case k < 84:
				g.self[cn][o] = withExp(fmt.Sprintf("typ=TS assoc=%d", g.targetNot(o)))
			case k < 96:
				g.self[cn][o] = withExp(fmt.Sprintf("typ=LOCK assoc=%d", g.targetNot(o)))
			case k < 98: // malformed: no associated object (must be rejected)
				g.self[cn][o] = fmt.Sprintf("typ=%s size=3 assoc=0", []string{"TS", "LOCK"}[r.IntN(2)])
			default:
				g.self[cn][o] = root
			}
		}
	}
	return g
}

func (g *metaGenState) cn() int { return 1 + g.c.rng.IntN(g.nc) }

// expStr is an expiration attribute the format validator accepts (strconv.ParseUint): decimal digits,
// possibly with leading zeros.
func (g *metaGenState) expStr() string {
	r := g.c.rng
	switch r.IntN(12) {
	case 0:
		return hx("0" + strconv.Itoa(r.IntN(8)))
	case 1:
		return hx([]string{"18446744073709551615", "000", "0010"}[r.IntN(3)])
	}
	return hx(strconv.Itoa(r.IntN(10)))
}

func (g *metaGenState) target() int { return 1 + g.c.rng.IntN(metaNO) }

// targetNot picks the target of a tombstone/lock: never the object itself (its id is the hash of a header
// that contains the target id).
func (g *metaGenState) targetNot(o int) int {
	for {
		if t := g.target(); t != o {
			return t
		}
	}
}

func (g *metaGenState) ids() []int {
	n := 1 + g.c.rng.IntN(3)
	ids := make([]int, n)
	for i := range ids {
		ids[i] = g.target()
	}
	return ids
}

func (g *metaGenState) op() string {
	r := g.c.rng
	cn := g.cn()
	switch k := r.IntN(100); {
	case k < 9:
		g.epoch += r.IntN(3)
		if r.IntN(6) == 0 {
			g.epoch = r.IntN(11)
		}
		return fmt.Sprintf("meta epoch e=%d", g.epoch)
	case k < 62:
		o := 1 + r.IntN(8)
		return fmt.Sprintf("meta put c=%d o=%d %s", cn, o, g.self[cn][o])
	case k < 76:
		red := 0
		if r.IntN(3) == 0 {
			red = 1
		}
		return fmt.Sprintf("meta mark c=%d ids=%s red=%d", cn, joinInts(g.ids()), red)
	case k < 86:
		return fmt.Sprintf("meta delete c=%d ids=%s", cn, joinInts(g.ids()))
	case k < 94:
		return fmt.Sprintf("meta revive c=%d o=%d", cn, g.target())
	case k < 96:
		return fmt.Sprintf("meta inhumecnr c=%d", cn)
	case k < 98:
		return "meta sync"
	default:
		return fmt.Sprintf("meta delcnr c=%d", cn)
	}
}

func sortedKeys(m map[int]bool) []int {
	var out []int
	for k := range m {
		out = append(out, k)
	}
	sort.Ints(out)
	return out
}
