// Control skeletons (DESIGN.md section 5.1, properties C29/C32/C45).
//
// For every handler of the object service and of the two control services the body is abstracted into a term
// of the language `Prog` of lean/NeoFS/Model/Handlers.lean and written to lean/NeoFS/Gen/Handlers.lean.
// The packages are type-checked from the working tree with go/types (imports are read from the compiler's
// export data listed by `go list -export`), so callees are classified by RESOLVED object (package path +
// receiver + name, see rules.go), never by spelling at the call site. Package-local callees are inlined
// (bounded depth), so moving a check into a helper or a handler into another file does not change what the
// checker sees. This file and rules.go are in the trusted base of C29/C32/C45: the theorems are about the
// emitted terms.
//
// What is abstracted, in one paragraph: calls become `chk t` (a check of rules.go), `eff e` (an effect) or
// nothing (neutral); `if`/`switch` conditions that test the result of a check (`err != nil`, `!ok`,
// `errors.Is(err, sentinel)`, combined with && || !) become `asm` refinements on the two branches, every
// other condition is a free choice; `return`/`break`/`continue` become `exit k` out of `scope`s; an inlined
// helper's error/bool result is carried to the caller's variable through a fresh `Tag.aux n`; loops are
// `loop`; deferred calls run at function exit (possibly); function literals and references to package-local
// functions used as values possibly run where they are created; calls through function-typed variables are
// neutral (their possible targets are accounted where the function value is created).
package main

import (
	"encoding/json"
	"fmt"
	"go/ast"
	"go/importer"
	"go/parser"
	"go/token"
	"go/types"
	"io"
	"os"
	"os/exec"
	"path/filepath"
	"sort"
	"strings"
)

const modPath = "github.com/nspcc-dev/neofs-node"

// ---------------------------------------------------------------- loading

type listedPkg struct {
	ImportPath string
	Dir        string
	GoFiles    []string
	Export     string
	Standard   bool
}

type checkedPkg struct {
	pkg   *types.Package
	info  *types.Info
	files []*ast.File
	decls map[*types.Func]*ast.FuncDecl
}

type loader struct {
	fset    *token.FileSet
	listed  map[string]*listedPkg
	imp     types.Importer
	checked map[string]*checkedPkg
}

func goList(repo string, patterns []string) (map[string]*listedPkg, error) {
	args := append([]string{"list", "-export", "-deps", "-json=ImportPath,Dir,GoFiles,Export,Standard"}, patterns...)
	cmd := exec.Command("go", args...)
	cmd.Dir = repo
	env := []string{}
	for _, kv := range os.Environ() {
		if strings.HasPrefix(kv, "GOFLAGS=") || strings.HasPrefix(kv, "GOPROXY=") || strings.HasPrefix(kv, "GOSUMDB=") ||
			strings.HasPrefix(kv, "GONOSUMDB=") || strings.HasPrefix(kv, "GOTOOLCHAIN=") || strings.HasPrefix(kv, "CGO_ENABLED=") {
			continue
		}
		env = append(env, kv)
	}
	// same environment as the pipeline's Go builds (lib/pipeline.py goenv); no build tags: production code
	env = append(env, "GOFLAGS=-mod=mod", "GOPROXY=off", "GOTOOLCHAIN=auto", "CGO_ENABLED=0")
	cmd.Env = env
	var stderr strings.Builder
	cmd.Stderr = &stderr
	out, err := cmd.Output()
	if err != nil {
		return nil, fmt.Errorf("go list: %v: %s", err, stderr.String())
	}
	res := map[string]*listedPkg{}
	dec := json.NewDecoder(strings.NewReader(string(out)))
	for {
		var p listedPkg
		if err := dec.Decode(&p); err == io.EOF {
			break
		} else if err != nil {
			return nil, err
		}
		res[p.ImportPath] = &p
	}
	return res, nil
}

func newLoader(repo string, patterns []string) (*loader, error) {
	listed, err := goList(repo, patterns)
	if err != nil {
		return nil, err
	}
	l := &loader{fset: token.NewFileSet(), listed: listed, checked: map[string]*checkedPkg{}}
	l.imp = importer.ForCompiler(l.fset, "gc", func(path string) (io.ReadCloser, error) {
		p, ok := listed[path]
		if !ok || p.Export == "" {
			return nil, fmt.Errorf("no export data for %s", path)
		}
		return os.Open(p.Export)
	})
	return l, nil
}

// check type-checks one package from source (its imports come from export data).
func (l *loader) check(path string) (*checkedPkg, error) {
	if c, ok := l.checked[path]; ok {
		return c, nil
	}
	lp, ok := l.listed[path]
	if !ok {
		return nil, fmt.Errorf("package %s not listed", path)
	}
	var files []*ast.File
	for _, f := range lp.GoFiles {
		af, err := parser.ParseFile(l.fset, filepath.Join(lp.Dir, f), nil, parser.SkipObjectResolution)
		if err != nil {
			return nil, err
		}
		files = append(files, af)
	}
	info := &types.Info{
		Types:      map[ast.Expr]types.TypeAndValue{},
		Defs:       map[*ast.Ident]types.Object{},
		Uses:       map[*ast.Ident]types.Object{},
		Selections: map[*ast.SelectorExpr]*types.Selection{},
		Implicits:  map[ast.Node]types.Object{},
	}
	var firstErr error
	conf := types.Config{Importer: l.imp, Error: func(err error) {
		if firstErr == nil {
			firstErr = err
		}
	}}
	pkg, _ := conf.Check(path, l.fset, files, info)
	if firstErr != nil {
		return nil, fmt.Errorf("type-checking %s: %v", path, firstErr)
	}
	c := &checkedPkg{pkg: pkg, info: info, files: files, decls: map[*types.Func]*ast.FuncDecl{}}
	for _, f := range files {
		for _, d := range f.Decls {
			if fd, ok := d.(*ast.FuncDecl); ok && fd.Body != nil {
				if fn, ok := info.Defs[fd.Name].(*types.Func); ok {
					c.decls[fn] = fd
				}
			}
		}
	}
	l.checked[path] = c
	return c, nil
}

// ---------------------------------------------------------------- terms

type prog struct {
	op   string // skip chk set copy forget asm eff seq alt loop scope exit
	tag  string
	tag2 string
	outs []string
	k    int
	a, b *prog
}

var pSkip = &prog{op: "skip"}

func pSeq(ps ...*prog) *prog {
	var r *prog = pSkip
	for i := len(ps) - 1; i >= 0; i-- {
		p := ps[i]
		if p == nil || p.op == "skip" {
			continue
		}
		if r.op == "skip" {
			r = p
		} else {
			r = &prog{op: "seq", a: p, b: r}
		}
	}
	return r
}

func pAlt(a, b *prog) *prog {
	if a.str() == b.str() {
		return a
	}
	return &prog{op: "alt", a: a, b: b}
}

func pLoop(p *prog) *prog {
	if p.op == "skip" {
		return p
	}
	return &prog{op: "loop", a: p}
}

func (p *prog) str() string {
	switch p.op {
	case "skip":
		return ".skip"
	case "chk":
		return "(.chk " + p.tag + ")"
	case "set":
		return "(.set " + p.tag + " ." + p.outs[0] + ")"
	case "copy":
		return "(.copy " + p.tag + " " + p.tag2 + ")"
	case "forget":
		return "(.forget " + p.tag + ")"
	case "asm":
		var o []string
		for _, x := range p.outs {
			o = append(o, "."+x)
		}
		return "(.asm " + p.tag + " [" + strings.Join(o, ", ") + "])"
	case "eff":
		return "(.eff ." + p.tag + ")"
	case "seq":
		return "(.seq " + p.a.str() + " " + p.b.str() + ")"
	case "alt":
		return "(.alt " + p.a.str() + " " + p.b.str() + ")"
	case "loop":
		return "(.loop " + p.a.str() + ")"
	case "scope":
		return "(.scope " + p.a.str() + ")"
	case "exit":
		return fmt.Sprintf("(.exit %d)", p.k)
	}
	return "?"
}

func (p *prog) size() int {
	n := 1
	if p.a != nil {
		n += p.a.size()
	}
	if p.b != nil {
		n += p.b.size()
	}
	return n
}

// pretty prints with line breaks on seq/alt so that generated files diff well.
func (p *prog) pretty(ind int) string {
	pad := strings.Repeat(" ", ind)
	switch p.op {
	case "seq", "alt":
		return "(." + p.op + "\n" + pad + "  " + p.a.pretty(ind+2) + "\n" + pad + "  " + p.b.pretty(ind+2) + ")"
	case "loop", "scope":
		return "(." + p.op + "\n" + pad + "  " + p.a.pretty(ind+2) + ")"
	}
	return p.str()
}

// ---------------------------------------------------------------- refinements (outcome sets as bit masks)

const (
	oPass = 1
	oSoft = 2
	oDeny = 4
	oAll  = 7
)

type refin map[string]int // tag -> allowed outcomes (absent = all)

func rConj(a, b refin) refin {
	r := refin{}
	for t, m := range a {
		r[t] = m
	}
	for t, m := range b {
		if x, ok := r[t]; ok {
			r[t] = x & m
		} else {
			r[t] = m
		}
	}
	return r
}

func rDisj(a, b refin) refin {
	r := refin{}
	for t, m := range a {
		if x, ok := b[t]; ok && (m|x) != oAll {
			r[t] = m | x
		}
	}
	return r
}

func (r refin) prog() *prog {
	var tags []string
	for t := range r {
		tags = append(tags, t)
	}
	sort.Strings(tags)
	var ps []*prog
	for _, t := range tags {
		var outs []string
		if r[t]&oPass != 0 {
			outs = append(outs, "pass")
		}
		if r[t]&oSoft != 0 {
			outs = append(outs, "soft")
		}
		if r[t]&oDeny != 0 {
			outs = append(outs, "deny")
		}
		ps = append(ps, &prog{op: "asm", tag: t, outs: outs})
	}
	return pSeq(ps...)
}

// ---------------------------------------------------------------- builder

type polarity int

const (
	polErrNil    polarity = iota // error result: nil = pass, sentinel = soft, other = deny
	polBoolTrue                  // bool result: true = pass
	polBoolFalse                 // bool result: true = deny (e.g. "under maintenance")
)

type varInfo struct {
	tag  string
	pol  polarity
	soft []string // full names of sentinel error variables meaning `soft`
}

type nilness int

const (
	nilUnknown nilness = iota
	isNil
	nonNil
)

type label struct {
	name      string
	breakAt   int // absolute scope depth of the scope a `break` leaves
	contAt    int // absolute scope depth of the scope a `continue` leaves (0 = none)
	isLoop    bool
	pendingLb bool
}

type skel struct {
	l        *loader
	cp       *checkedPkg
	problems []string
	notes    []string
	auxN     int
}

type fnCtx struct {
	sk      *skel
	stack   []*types.Func
	depth   int // scope depth (absolute) at the current point
	fnScope int // absolute depth of this function's own scope
	retTag  string
	retPol  polarity
	resBool bool
	labels  []label
	env     map[types.Object]*varInfo
	nils    map[types.Object]nilness
	defers  []*prog
	auxOwn  []string // aux tags to forget when this function's scope ends
	pendLbl string
	inClos  bool                  // inside a function literal / function value: checks made there are not the handler's
	noTrack map[types.Object]bool // variables assigned inside function literals: never tracked
}

const maxInlineDepth = 10

func (sk *skel) problem(pos token.Pos, format string, a ...any) {
	msg := fmt.Sprintf(format, a...)
	if pos.IsValid() {
		p := sk.l.fset.Position(pos)
		msg = fmt.Sprintf("%s:%d: %s", filepath.Base(p.Filename), p.Line, msg)
	}
	sk.problems = append(sk.problems, msg)
}

func (sk *skel) newAux() string {
	sk.auxN++
	return fmt.Sprintf("(.aux %d)", sk.auxN)
}

func cloneEnv(e map[types.Object]*varInfo) map[types.Object]*varInfo {
	r := make(map[types.Object]*varInfo, len(e))
	for k, v := range e {
		r[k] = v
	}
	return r
}

func cloneNils(e map[types.Object]nilness) map[types.Object]nilness {
	r := make(map[types.Object]nilness, len(e))
	for k, v := range e {
		r[k] = v
	}
	return r
}

func mergeEnv(a, b map[types.Object]*varInfo) map[types.Object]*varInfo {
	r := map[types.Object]*varInfo{}
	for k, v := range a {
		if w, ok := b[k]; ok && w.tag == v.tag && w.pol == v.pol {
			r[k] = v
		}
	}
	return r
}

func mergeNils(a, b map[types.Object]nilness) map[types.Object]nilness {
	r := map[types.Object]nilness{}
	for k, v := range a {
		if w, ok := b[k]; ok && w == v {
			r[k] = v
		}
	}
	return r
}

func sameEnv(a, b map[types.Object]*varInfo) bool {
	if len(a) != len(b) {
		return false
	}
	for k, v := range a {
		if w, ok := b[k]; !ok || w.tag != v.tag {
			return false
		}
	}
	return true
}

func isErrorType(t types.Type) bool {
	return t != nil && types.Identical(t, types.Universe.Lookup("error").Type())
}

func isBoolType(t types.Type) bool {
	b, ok := t.Underlying().(*types.Basic)
	return ok && b.Kind() == types.Bool
}

// trackedResult reports whether the last result of the signature is an error or a bool.
func trackedResult(sig *types.Signature) (ok bool, isBool bool) {
	n := sig.Results().Len()
	if n == 0 {
		return false, false
	}
	t := sig.Results().At(n - 1).Type()
	if isErrorType(t) {
		return true, false
	}
	if isBoolType(t) {
		return true, true
	}
	return false, false
}

func (c *fnCtx) obj(id *ast.Ident) types.Object {
	if o := c.sk.cp.info.Uses[id]; o != nil {
		return o
	}
	return c.sk.cp.info.Defs[id]
}

// kill drops everything known about a variable that is being reassigned.
func (c *fnCtx) kill(o types.Object) {
	delete(c.env, o)
	delete(c.nils, o)
}

// invalidateTag: a new call of check `tag` makes variables holding its previous result stale.
func (c *fnCtx) invalidateTag(tag string) {
	for o, v := range c.env {
		if v.tag == tag {
			delete(c.env, o)
		}
	}
}

// callee resolves the static callee of a call, or nil (dynamic call, conversion, builtin).
func (c *fnCtx) callee(call *ast.CallExpr) (fn *types.Func, recv ast.Expr, kind string) {
	info := c.sk.cp.info
	fun := ast.Unparen(call.Fun)
	if ix, ok := fun.(*ast.IndexExpr); ok {
		fun = ast.Unparen(ix.X)
	}
	if ix, ok := fun.(*ast.IndexListExpr); ok {
		fun = ast.Unparen(ix.X)
	}
	if tv, ok := info.Types[fun]; ok && tv.IsType() {
		return nil, nil, "conversion"
	}
	switch f := fun.(type) {
	case *ast.Ident:
		switch o := info.Uses[f].(type) {
		case *types.Func:
			return o, nil, "static"
		case *types.Builtin:
			return nil, nil, "builtin:" + o.Name()
		}
		return nil, nil, "dynamic"
	case *ast.SelectorExpr:
		if sel, ok := info.Selections[f]; ok {
			if fn, ok := sel.Obj().(*types.Func); ok {
				return fn, f.X, "static"
			}
			return nil, f.X, "dynamic" // field of function type
		}
		if fn, ok := info.Uses[f.Sel].(*types.Func); ok { // pkg.Func
			return fn, nil, "static"
		}
		return nil, nil, "dynamic"
	case *ast.FuncLit:
		return nil, nil, "funclit"
	}
	return nil, nil, "dynamic"
}

// viaDependency: the receiver expression reads a field of a struct declared in the analysed package whose
// type is an interface or comes from another package (the server's dependencies). Calls through such fields
// must be classified by rules.go; an unclassified one is a generation problem (fail-safe for new dependencies).
func (c *fnCtx) viaDependency(recv ast.Expr) bool {
	found := false
	ast.Inspect(recv, func(n ast.Node) bool {
		se, ok := n.(*ast.SelectorExpr)
		if !ok {
			return true
		}
		sel, ok := c.sk.cp.info.Selections[se]
		if !ok || sel.Kind() != types.FieldVal {
			return true
		}
		v, ok := sel.Obj().(*types.Var)
		if !ok || v.Pkg() != c.sk.cp.pkg {
			return true
		}
		ft := v.Type()
		if p, ok := ft.(*types.Pointer); ok {
			ft = p.Elem()
		}
		if _, isIface := ft.Underlying().(*types.Interface); isIface && !isErrorType(ft) {
			found = true
			return false
		}
		if n, ok := ft.(*types.Named); ok && n.Obj().Pkg() != nil && n.Obj().Pkg() != c.sk.cp.pkg &&
			strings.HasPrefix(n.Obj().Pkg().Path(), modPath+"/") {
			found = true
			return false
		}
		return true
	})
	return found
}

func fullName(fn *types.Func) string {
	return fn.Origin().FullName()
}

// evalExprs abstracts the evaluation of expressions (calls inside them, in order).
func (c *fnCtx) evalExprs(es ...ast.Expr) *prog {
	var ps []*prog
	for _, e := range es {
		if e != nil {
			ps = append(ps, c.evalExpr(e))
		}
	}
	return pSeq(ps...)
}

func (c *fnCtx) evalExpr(e ast.Expr) *prog {
	switch v := e.(type) {
	case nil:
		return pSkip
	case *ast.CallExpr:
		p, _ := c.call(v, false)
		return p
	case *ast.FuncLit:
		return c.closure(v)
	case *ast.ParenExpr:
		return c.evalExpr(v.X)
	case *ast.UnaryExpr:
		return c.evalExpr(v.X)
	case *ast.StarExpr:
		return c.evalExpr(v.X)
	case *ast.BinaryExpr:
		return pSeq(c.evalExpr(v.X), c.evalExpr(v.Y))
	case *ast.KeyValueExpr:
		return pSeq(c.evalExpr(v.Key), c.evalExpr(v.Value))
	case *ast.CompositeLit:
		return c.evalExprs(v.Elts...)
	case *ast.IndexExpr:
		return pSeq(c.evalExpr(v.X), c.evalExpr(v.Index))
	case *ast.SliceExpr:
		return pSeq(c.evalExpr(v.X), c.evalExpr(v.Low), c.evalExpr(v.High), c.evalExpr(v.Max))
	case *ast.TypeAssertExpr:
		return c.evalExpr(v.X)
	case *ast.SelectorExpr:
		if sel, ok := c.sk.cp.info.Selections[v]; ok {
			if fn, ok := sel.Obj().(*types.Func); ok { // method value
				return pSeq(c.evalExpr(v.X), c.funcValue(fn, v.Pos()))
			}
			return c.evalExpr(v.X)
		}
		if fn, ok := c.sk.cp.info.Uses[v.Sel].(*types.Func); ok {
			return c.funcValue(fn, v.Pos())
		}
		return pSkip
	case *ast.Ident:
		if fn, ok := c.sk.cp.info.Uses[v].(*types.Func); ok {
			return c.funcValue(fn, v.Pos())
		}
		return pSkip
	}
	return pSkip
}

// funcValue: a function used as a value may be called any number of times from here on; it is accounted
// where the value is created.
func (c *fnCtx) funcValue(fn *types.Func, pos token.Pos) *prog {
	kind, tag, _ := classify(fn)
	switch kind {
	case "check":
		return pSkip // a check handed over as a function value is the callee's business
	case "effect":
		return pAlt(pSkip, &prog{op: "eff", tag: tag})
	case "neutral":
		return pSkip
	}
	if fn.Pkg() == c.sk.cp.pkg {
		if _, ok := c.sk.cp.decls[fn.Origin()]; ok {
			return c.detached(func() *prog { p, _ := c.inline(fn.Origin(), pos, false); return p })
		}
	}
	return pSkip
}

// closure: a function literal possibly runs (any number of times) from where it is created. Checks made
// inside it are handed to whoever calls it (another component); they are neither credited nor debited to the
// handler, effects inside it are the handler's.
func (c *fnCtx) closure(fl *ast.FuncLit) *prog {
	return c.detached(func() *prog { return c.inlineBody(nil, fl.Type, fl.Body, fl.Pos(), false, "") })
}

func (c *fnCtx) detached(f func() *prog) *prog {
	save := c.inClos
	c.inClos = true
	p, _, e, n := c.branch(nil, func() (*prog, bool) { return f(), false })
	c.inClos = save
	c.env, c.nils = mergeEnv(c.env, e), mergeNils(c.nils, n)
	return pAlt(pSkip, pLoop(p))
}

// scanCaptured marks the variables that function literals of this body assign (they can change whenever the
// literal runs, so nothing is remembered about them).
func (c *fnCtx) scanCaptured(body *ast.BlockStmt) {
	ast.Inspect(body, func(n ast.Node) bool {
		fl, ok := n.(*ast.FuncLit)
		if !ok {
			return true
		}
		ast.Inspect(fl.Body, func(m ast.Node) bool {
			as, ok := m.(*ast.AssignStmt)
			if !ok {
				return true
			}
			for _, l := range as.Lhs {
				if id, ok := ast.Unparen(l).(*ast.Ident); ok {
					if o := c.sk.cp.info.Uses[id]; o != nil && (o.Pos() < fl.Pos() || o.Pos() > fl.End()) {
						c.noTrack[o] = true
					}
				}
			}
			return true
		})
		return true
	})
}

// call abstracts one call. If wantResult, the returned varInfo (may be nil) describes the tracked result.
func (c *fnCtx) call(call *ast.CallExpr, wantResult bool) (*prog, *varInfo) {
	fn, recv, kind := c.callee(call)
	var pre []*prog
	if recv != nil {
		pre = append(pre, c.evalExpr(recv))
	}
	switch {
	case kind == "funclit":
		fl := ast.Unparen(call.Fun).(*ast.FuncLit)
		pre = append(pre, c.evalExprs(call.Args...))
		return pSeq(append(pre, c.inlineBody(nil, fl.Type, fl.Body, fl.Pos(), false, ""))...), nil
	case kind == "conversion" || kind == "dynamic":
		if kind == "dynamic" {
			pre = append(pre, c.evalExpr(call.Fun))
		}
		pre = append(pre, c.evalExprs(call.Args...))
		return pSeq(pre...), nil
	case strings.HasPrefix(kind, "builtin:"):
		pre = append(pre, c.evalExprs(call.Args...))
		if kind == "builtin:panic" {
			pre = append(pre, &prog{op: "exit", k: c.depth - 1})
		}
		return pSeq(pre...), nil
	}
	// errors.Is / errors.As arguments etc. are evaluated like any others
	pre = append(pre, c.evalExprs(call.Args...))
	rk, tag, rl := classify(fn)
	switch rk {
	case "check":
		if c.inClos {
			return pSeq(pre...), nil
		}
		c.invalidateTag(tag)
		pre = append(pre, &prog{op: "chk", tag: tag})
		return pSeq(pre...), &varInfo{tag: tag, pol: rl.pol, soft: rl.soft}
	case "effect":
		pre = append(pre, &prog{op: "eff", tag: tag})
		return pSeq(pre...), nil
	case "neutral":
		return pSeq(pre...), nil
	}
	if fn.Pkg() == c.sk.cp.pkg {
		if _, ok := c.sk.cp.decls[fn.Origin()]; ok {
			p, vi := c.inline(fn.Origin(), call.Pos(), wantResult)
			pre = append(pre, p)
			return pSeq(pre...), vi
		}
	}
	if recv != nil && c.viaDependency(recv) {
		c.sk.problem(call.Pos(), "unclassified call %s through a dependency of the server: add a rule to harness/extract/rules.go", fullName(fn))
	} else if recv != nil {
		if tv, ok := c.sk.cp.info.Types[recv]; ok {
			if _, isIface := tv.Type.Underlying().(*types.Interface); isIface {
				if n, ok := tv.Type.(*types.Named); ok && n.Obj().Pkg() == c.sk.cp.pkg {
					c.sk.problem(call.Pos(), "unclassified call %s on an interface of the analysed package: add a rule to harness/extract/rules.go", fullName(fn))
				}
			}
		}
	}
	return pSeq(pre...), nil
}

// inline abstracts a call of a package-local function by its body.
func (c *fnCtx) inline(fn *types.Func, pos token.Pos, wantResult bool) (*prog, *varInfo) {
	for _, f := range c.stack {
		if f == fn {
			c.sk.notes = append(c.sk.notes, "recursive call of "+fn.Name()+" abstracted to nothing")
			return pSkip, nil
		}
	}
	if len(c.stack) >= maxInlineDepth {
		c.sk.problem(pos, "inlining depth %d exceeded at %s", maxInlineDepth, fn.Name())
		return pSkip, nil
	}
	fd := c.sk.cp.decls[fn]
	ret := ""
	var vi *varInfo
	if wantResult {
		if ok, isBool := trackedResult(fn.Type().(*types.Signature)); ok {
			ret = c.sk.newAux()
			vi = &varInfo{tag: ret, pol: polErrNil}
			if isBool {
				vi.pol = polBoolTrue
			}
			c.auxOwn = append(c.auxOwn, ret)
		}
	}
	return c.inlineBody(fn, fd.Type, fd.Body, pos, vi != nil && vi.pol != polErrNil, ret), vi
}

func (c *fnCtx) inlineBody(fn *types.Func, _ *ast.FuncType, body *ast.BlockStmt, _ token.Pos, resBool bool, ret string) *prog {
	sub := &fnCtx{sk: c.sk, stack: c.stack, depth: c.depth + 1, fnScope: c.depth + 1, retTag: ret, resBool: resBool,
		env: c.env, nils: c.nils, inClos: c.inClos, noTrack: c.noTrack}
	if sub.noTrack == nil {
		sub.noTrack = map[types.Object]bool{}
	}
	sub.scanCaptured(body)
	if fn != nil {
		sub.stack = append(append([]*types.Func{}, c.stack...), fn)
	}
	p, _ := sub.block(body.List)
	res := []*prog{pScopeKeep(p)}
	for i := len(sub.defers) - 1; i >= 0; i-- {
		res = append(res, pAlt(pSkip, sub.defers[i]))
	}
	for _, a := range sub.auxOwn {
		res = append(res, &prog{op: "forget", tag: a})
	}
	c.env, c.nils = sub.env, sub.nils
	return pSeq(res...)
}

// block abstracts a statement list; reports whether it always leaves (return/break/continue/panic).
func (c *fnCtx) block(list []ast.Stmt) (*prog, bool) {
	var ps []*prog
	for _, s := range list {
		p, term := c.stmt(s)
		ps = append(ps, p)
		if term {
			return pSeq(ps...), true
		}
	}
	return pSeq(ps...), false
}

func (c *fnCtx) exitTo(abs int) *prog { return &prog{op: "exit", k: c.depth - abs} }

// bind records what the variables on the left of an assignment hold afterwards.
func (c *fnCtx) bind(lhs []ast.Expr, vi *varInfo, define bool) *prog {
	var ps []*prog
	for i, l := range lhs {
		id, ok := ast.Unparen(l).(*ast.Ident)
		if !ok || id.Name == "_" {
			continue
		}
		o := c.obj(id)
		if o == nil {
			continue
		}
		c.kill(o)
		if vi != nil && i == len(lhs)-1 && !c.noTrack[o] {
			c.env[o] = vi
		}
	}
	return pSeq(ps...)
}

func (c *fnCtx) assign(lhs, rhs []ast.Expr, define bool) *prog {
	var ps []*prog
	for _, l := range lhs { // index/selector expressions on the left are evaluated too
		if _, ok := ast.Unparen(l).(*ast.Ident); !ok {
			ps = append(ps, c.evalExpr(l))
		}
	}
	if len(rhs) == 1 {
		if call, ok := ast.Unparen(rhs[0]).(*ast.CallExpr); ok {
			known := c.staticNil(call)
			p, vi := c.call(call, known == nilUnknown)
			ps = append(ps, p)
			if known != nilUnknown && len(lhs) == 1 {
				ps = append(ps, c.bind(lhs, nil, define))
				if id, ok := ast.Unparen(lhs[0]).(*ast.Ident); ok && id.Name != "_" {
					if o := c.obj(id); o != nil && isErrorType(o.Type()) {
						c.nils[o] = known
					}
				}
				return pSeq(ps...)
			}
			if vi != nil { // the tracked result is the call's last result
				last := ast.Unparen(lhs[len(lhs)-1])
				if id, ok := last.(*ast.Ident); !ok || id.Name == "_" {
					vi = nil
				} else if o := c.obj(id); o == nil || !(isErrorType(o.Type()) || isBoolType(o.Type())) {
					vi = nil
				}
			}
			ps = append(ps, c.bind(lhs, vi, define))
			return pSeq(ps...)
		}
	}
	ps = append(ps, c.evalExprs(rhs...))
	ps = append(ps, c.bind(lhs, nil, define))
	// nil-ness of plainly assigned error values
	if len(lhs) == len(rhs) {
		for i := range lhs {
			id, ok := ast.Unparen(lhs[i]).(*ast.Ident)
			if !ok || id.Name == "_" {
				continue
			}
			o := c.obj(id)
			if o == nil || !isErrorType(o.Type()) {
				continue
			}
			switch c.staticNil(rhs[i]) {
			case isNil:
				c.nils[o] = isNil
			case nonNil:
				c.nils[o] = nonNil
			}
		}
	}
	return pSeq(ps...)
}

// staticNil: what is known about an error-typed expression without looking at tracked checks.
func (c *fnCtx) staticNil(e ast.Expr) nilness {
	e = ast.Unparen(e)
	info := c.sk.cp.info
	switch v := e.(type) {
	case *ast.Ident:
		if v.Name == "nil" {
			if _, ok := info.Uses[v].(*types.Nil); ok {
				return isNil
			}
		}
		o := c.obj(v)
		if o == nil {
			return nilUnknown
		}
		if n, ok := c.nils[o]; ok {
			return n
		}
		if vr, ok := o.(*types.Var); ok && vr.Parent() == vr.Pkg().Scope() {
			return nonNil // package-level error variable (sentinel); assumed initialised non-nil
		}
	case *ast.SelectorExpr:
		if vr, ok := info.Uses[v.Sel].(*types.Var); ok && vr.Pkg() != nil && vr.Parent() == vr.Pkg().Scope() {
			return nonNil // sentinel of another package
		}
	case *ast.CompositeLit:
		return nonNil
	case *ast.UnaryExpr:
		if v.Op == token.AND {
			return nonNil
		}
	case *ast.CallExpr:
		fn, _, kind := c.callee(v)
		if kind == "conversion" {
			return nonNil
		}
		if fn != nil && errorConstructors[fullName(fn)] {
			return nonNil
		}
		if fn != nil && fn.Pkg() == c.sk.cp.pkg { // package-local constructor returning a concrete (struct) error type
			sig := fn.Type().(*types.Signature)
			if sig.Results().Len() == 1 {
				if _, isStruct := sig.Results().At(0).Type().Underlying().(*types.Struct); isStruct {
					return nonNil
				}
			}
		}
	}
	return nilUnknown
}

// returnValue emits how the tracked result of an inlined helper is set by `return e`.
func (c *fnCtx) returnValue(e ast.Expr) *prog {
	ret := c.retTag
	e = ast.Unparen(e)
	chkAny := &prog{op: "chk", tag: ret}
	set := func(o string) *prog { return &prog{op: "set", tag: ret, outs: []string{o}} }
	if c.resBool {
		switch v := e.(type) {
		case *ast.Ident:
			if v.Name == "true" {
				return set("pass")
			}
			if v.Name == "false" {
				return set("deny")
			}
			if o := c.obj(v); o != nil {
				if vi, ok := c.env[o]; ok {
					return c.copyFrom(ret, vi, false)
				}
			}
			return chkAny
		case *ast.UnaryExpr:
			if v.Op == token.NOT {
				if id, ok := ast.Unparen(v.X).(*ast.Ident); ok {
					if o := c.obj(id); o != nil {
						if vi, ok := c.env[o]; ok {
							return c.copyFrom(ret, vi, true)
						}
					}
				}
			}
			return pSeq(c.evalExpr(e), chkAny)
		case *ast.CallExpr:
			p, vi := c.call(v, true)
			if vi != nil && vi.pol != polErrNil {
				return pSeq(p, c.copyFrom(ret, vi, false))
			}
			return pSeq(p, chkAny)
		}
		return pSeq(c.evalExpr(e), chkAny)
	}
	// error result
	if id, ok := e.(*ast.Ident); ok {
		if o := c.obj(id); o != nil {
			if vi, ok := c.env[o]; ok && vi.pol == polErrNil {
				return &prog{op: "copy", tag: ret, tag2: vi.tag}
			}
		}
	}
	if call, ok := e.(*ast.CallExpr); ok {
		if c.staticNil(e) == nonNil { // an error constructor
			p, _ := c.call(call, false)
			return pSeq(p, set("deny"))
		}
		p, vi := c.call(call, true)
		if vi != nil && vi.pol == polErrNil {
			return pSeq(p, &prog{op: "copy", tag: ret, tag2: vi.tag})
		}
		return pSeq(p, chkAny)
	}
	pre := c.evalExpr(e)
	switch c.staticNil(e) {
	case isNil:
		return pSeq(pre, set("pass"))
	case nonNil:
		return pSeq(pre, set("deny"))
	}
	return pSeq(pre, chkAny)
}

// copyFrom sets bool-valued `dst` (true = pass) from a tracked bool, honouring its polarity and negation.
func (c *fnCtx) copyFrom(dst string, vi *varInfo, negate bool) *prog {
	inv := vi.pol == polBoolFalse
	if negate {
		inv = !inv
	}
	if !inv {
		return &prog{op: "copy", tag: dst, tag2: vi.tag}
	}
	return pAlt(
		pSeq(&prog{op: "asm", tag: vi.tag, outs: []string{"deny"}}, &prog{op: "set", tag: dst, outs: []string{"pass"}}),
		pSeq(&prog{op: "asm", tag: vi.tag, outs: []string{"pass", "soft"}}, &prog{op: "set", tag: dst, outs: []string{"deny"}}))
}

type condRes struct {
	pre        *prog
	t, f       refin
	nilT, nilF map[types.Object]nilness
}

func swapCond(r condRes) condRes {
	return condRes{pre: r.pre, t: r.f, f: r.t, nilT: r.nilF, nilF: r.nilT}
}

func boolRefin(vi *varInfo) (refin, refin) {
	if vi.pol == polBoolFalse {
		return refin{vi.tag: oDeny}, refin{vi.tag: oPass}
	}
	return refin{vi.tag: oPass}, refin{vi.tag: oDeny}
}

// cond abstracts a branch condition: calls made while evaluating it and what each outcome says about the
// latest results of checks.
func (c *fnCtx) cond(e ast.Expr) condRes {
	e = ast.Unparen(e)
	switch v := e.(type) {
	case *ast.UnaryExpr:
		if v.Op == token.NOT {
			return swapCond(c.cond(v.X))
		}
	case *ast.BinaryExpr:
		switch v.Op {
		case token.LAND, token.LOR:
			a := c.cond(v.X)
			b := c.cond(v.Y)
			r := condRes{pre: pSeq(a.pre, b.pre)}
			if v.Op == token.LAND {
				r.t, r.f = rConj(a.t, b.t), rDisj(a.f, b.f)
				r.nilT = unionNils(a.nilT, b.nilT)
			} else {
				r.t, r.f = rDisj(a.t, b.t), rConj(a.f, b.f)
				r.nilF = unionNils(a.nilF, b.nilF)
			}
			return r
		case token.EQL, token.NEQ:
			x, y := ast.Unparen(v.X), ast.Unparen(v.Y)
			if c.staticNilLit(x) {
				x, y = y, x
			}
			if id, ok := x.(*ast.Ident); ok && c.staticNilLit(y) {
				if o := c.obj(id); o != nil {
					var r condRes
					if vi, ok := c.env[o]; ok && vi.pol == polErrNil {
						r = condRes{pre: pSkip, t: refin{vi.tag: oSoft | oDeny}, f: refin{vi.tag: oPass}}
					} else if isErrorType(o.Type()) {
						r = condRes{pre: pSkip, nilT: map[types.Object]nilness{o: nonNil}, nilF: map[types.Object]nilness{o: isNil}}
					} else {
						return condRes{pre: c.evalExpr(e)}
					}
					if v.Op == token.EQL {
						r = swapCond(r)
					}
					return r
				}
			}
		}
	case *ast.Ident:
		if o := c.obj(v); o != nil {
			if vi, ok := c.env[o]; ok && vi.pol != polErrNil {
				t, f := boolRefin(vi)
				return condRes{pre: pSkip, t: t, f: f}
			}
		}
	case *ast.CallExpr:
		fn, _, _ := c.callee(v)
		if fn != nil && fullName(fn) == "errors.Is" && len(v.Args) == 2 {
			if id, ok := ast.Unparen(v.Args[0]).(*ast.Ident); ok {
				if o := c.obj(id); o != nil {
					if vi, ok := c.env[o]; ok && vi.pol == polErrNil {
						if sn := c.sentinelName(v.Args[1]); sn != "" {
							for _, s := range vi.soft {
								if s == sn {
									return condRes{pre: pSkip, t: refin{vi.tag: oSoft}, f: refin{vi.tag: oPass | oDeny}}
								}
							}
						}
					}
				}
			}
			return condRes{pre: c.evalExpr(e)}
		}
		p, vi := c.call(v, true)
		if vi != nil && vi.pol != polErrNil {
			t, f := boolRefin(vi)
			return condRes{pre: p, t: t, f: f}
		}
		return condRes{pre: p}
	}
	return condRes{pre: c.evalExpr(e)}
}

func unionNils(a, b map[types.Object]nilness) map[types.Object]nilness {
	r := map[types.Object]nilness{}
	for k, v := range a {
		r[k] = v
	}
	for k, v := range b {
		r[k] = v
	}
	return r
}

func (c *fnCtx) staticNilLit(e ast.Expr) bool {
	id, ok := e.(*ast.Ident)
	if !ok || id.Name != "nil" {
		return false
	}
	_, isNilObj := c.sk.cp.info.Uses[id].(*types.Nil)
	return isNilObj
}

func (c *fnCtx) sentinelName(e ast.Expr) string {
	e = ast.Unparen(e)
	var id *ast.Ident
	switch v := e.(type) {
	case *ast.Ident:
		id = v
	case *ast.SelectorExpr:
		id = v.Sel
	default:
		return ""
	}
	if vr, ok := c.sk.cp.info.Uses[id].(*types.Var); ok && vr.Pkg() != nil {
		return vr.Pkg().Path() + "." + vr.Name()
	}
	return ""
}

// branch runs f with a copy of the variable knowledge refined by nl; returns the knowledge after it.
func (c *fnCtx) branch(nl map[types.Object]nilness, f func() (*prog, bool)) (*prog, bool, map[types.Object]*varInfo, map[types.Object]nilness) {
	saveE, saveN := c.env, c.nils
	c.env, c.nils = cloneEnv(saveE), cloneNils(saveN)
	for o, n := range nl {
		c.nils[o] = n
	}
	p, term := f()
	e, n := c.env, c.nils
	c.env, c.nils = saveE, saveN
	return p, term, e, n
}

func (c *fnCtx) join(t1 bool, e1 map[types.Object]*varInfo, n1 map[types.Object]nilness, t2 bool, e2 map[types.Object]*varInfo, n2 map[types.Object]nilness) {
	switch {
	case t1 && t2:
		c.env, c.nils = e1, n1
	case t1:
		c.env, c.nils = e2, n2
	case t2:
		c.env, c.nils = e1, n1
	default:
		c.env, c.nils = mergeEnv(e1, e2), mergeNils(n1, n2)
	}
}

func (c *fnCtx) ifStmt(s *ast.IfStmt) (*prog, bool) {
	var ps []*prog
	if s.Init != nil {
		p, _ := c.stmt(s.Init)
		ps = append(ps, p)
	}
	cr := c.cond(s.Cond)
	ps = append(ps, cr.pre)
	pt, tt, et, nt := c.branch(cr.nilT, func() (*prog, bool) { return c.block(s.Body.List) })
	pe, te, ee, ne := c.branch(cr.nilF, func() (*prog, bool) {
		switch el := s.Else.(type) {
		case nil:
			return pSkip, false
		case *ast.BlockStmt:
			return c.block(el.List)
		case *ast.IfStmt:
			return c.ifStmt(el)
		}
		return pSkip, false
	})
	c.join(tt, et, nt, te, ee, ne)
	ps = append(ps, pAlt(pSeq(cr.t.prog(), pt), pSeq(cr.f.prog(), pe)))
	return pSeq(ps...), tt && te
}

// loopBody abstracts a loop body until the variable knowledge at the loop head is stable.
func (c *fnCtx) loopBody(f func() *prog) *prog {
	for i := 0; i < 8; i++ {
		e0, n0 := cloneEnv(c.env), cloneNils(c.nils)
		aux0 := c.sk.auxN
		p, _, e1, n1 := c.branch(nil, func() (*prog, bool) { return f(), false })
		m := mergeEnv(e0, e1)
		if sameEnv(m, e0) {
			c.env, c.nils = m, mergeNils(n0, n1)
			return p
		}
		c.sk.auxN = aux0
		c.env, c.nils = m, mergeNils(n0, n1)
	}
	c.env, c.nils = map[types.Object]*varInfo{}, map[types.Object]nilness{}
	return f()
}

func (c *fnCtx) takeLabel() string {
	l := c.pendLbl
	c.pendLbl = ""
	return l
}

func (c *fnCtx) loopStmt(init ast.Stmt, head func() *prog, body *ast.BlockStmt, post ast.Stmt) (*prog, bool) {
	name := c.takeLabel()
	var ps []*prog
	if init != nil {
		p, _ := c.stmt(init)
		ps = append(ps, p)
	}
	// scope(break) { loop { head; scope(continue) { body }; post } }
	c.depth += 2
	c.labels = append(c.labels, label{name: name, breakAt: c.depth - 1, contAt: c.depth, isLoop: true})
	lp := c.loopBody(func() *prog {
		aux0 := len(c.auxOwn)
		c.depth -= 1
		h := head()
		c.depth += 1
		b, _ := c.block(body.List)
		c.depth -= 1
		var po *prog = pSkip
		if post != nil {
			po, _ = c.stmt(post)
		}
		c.depth += 1
		// helper results created in one iteration are dead in the next one
		var fg []*prog
		for _, a := range c.auxOwn[aux0:] {
			fg = append(fg, &prog{op: "forget", tag: a})
			for o, v := range c.env {
				if v.tag == a {
					delete(c.env, o)
				}
			}
		}
		return pSeq(h, pScopeKeep(b), po, pSeq(fg...))
	})
	c.labels = c.labels[:len(c.labels)-1]
	c.depth -= 2
	ps = append(ps, pScopeKeep(pLoop(lp)))
	return pSeq(ps...), false
}

func pScopeKeep(p *prog) *prog { return &prog{op: "scope", a: p} }

func (c *fnCtx) stmt(s ast.Stmt) (*prog, bool) {
	switch v := s.(type) {
	case nil, *ast.EmptyStmt:
		return pSkip, false
	case *ast.ExprStmt:
		p := c.evalExpr(v.X)
		if call, ok := ast.Unparen(v.X).(*ast.CallExpr); ok {
			if _, _, kind := c.callee(call); kind == "builtin:panic" {
				return p, true
			}
		}
		return p, false
	case *ast.IncDecStmt:
		return c.evalExpr(v.X), false
	case *ast.SendStmt:
		return pSeq(c.evalExpr(v.Chan), c.evalExpr(v.Value)), false
	case *ast.AssignStmt:
		return c.assign(v.Lhs, v.Rhs, v.Tok == token.DEFINE), false
	case *ast.DeclStmt:
		gd, ok := v.Decl.(*ast.GenDecl)
		if !ok || gd.Tok != token.VAR {
			return pSkip, false
		}
		var ps []*prog
		for _, sp := range gd.Specs {
			vs := sp.(*ast.ValueSpec)
			var lhs []ast.Expr
			for _, n := range vs.Names {
				lhs = append(lhs, n)
			}
			if len(vs.Values) > 0 {
				ps = append(ps, c.assign(lhs, vs.Values, true))
			} else {
				for _, n := range vs.Names {
					if o := c.obj(n); o != nil && isErrorType(o.Type()) {
						c.nils[o] = isNil
					}
				}
			}
		}
		return pSeq(ps...), false
	case *ast.BlockStmt:
		return c.block(v.List)
	case *ast.LabeledStmt:
		c.pendLbl = v.Label.Name
		return c.stmt(v.Stmt)
	case *ast.IfStmt:
		c.pendLbl = ""
		return c.ifStmt(v)
	case *ast.ForStmt:
		return c.loopStmt(v.Init, func() *prog {
			if v.Cond == nil {
				return pSkip
			}
			return c.cond(v.Cond).pre
		}, v.Body, v.Post)
	case *ast.RangeStmt:
		pre := c.evalExpr(v.X)
		p, t := c.loopStmt(nil, func() *prog {
			for _, e := range []ast.Expr{v.Key, v.Value} {
				if id, ok := e.(*ast.Ident); ok {
					if o := c.obj(id); o != nil {
						c.kill(o)
					}
				}
			}
			return pSkip
		}, v.Body, nil)
		return pSeq(pre, p), t
	case *ast.SwitchStmt:
		return c.switchStmt(v.Init, v.Tag, v.Body, false)
	case *ast.TypeSwitchStmt:
		var pre *prog = pSkip
		switch a := v.Assign.(type) {
		case *ast.ExprStmt:
			pre = c.evalExpr(a.X)
		case *ast.AssignStmt:
			pre = c.evalExprs(a.Rhs...)
		}
		p, t := c.switchStmt(v.Init, nil, v.Body, true)
		return pSeq(pre, p), t
	case *ast.SelectStmt:
		name := c.takeLabel()
		c.depth++
		c.labels = append(c.labels, label{name: name, breakAt: c.depth})
		var alts *prog
		base, baseN := c.env, c.nils
		var outE map[types.Object]*varInfo
		var outN map[types.Object]nilness
		for _, cl := range v.Body.List {
			cc := cl.(*ast.CommClause)
			c.env, c.nils = cloneEnv(base), cloneNils(baseN)
			var ps []*prog
			if cc.Comm != nil {
				p, _ := c.stmt(cc.Comm)
				ps = append(ps, p)
			}
			b, term := c.block(cc.Body)
			ps = append(ps, b)
			if !term {
				if outE == nil {
					outE, outN = c.env, c.nils
				} else {
					outE, outN = mergeEnv(outE, c.env), mergeNils(outN, c.nils)
				}
			}
			if alts == nil {
				alts = pSeq(ps...)
			} else {
				alts = pAlt(alts, pSeq(ps...))
			}
		}
		if outE == nil {
			outE, outN = base, baseN
		}
		c.env, c.nils = outE, outN
		c.labels = c.labels[:len(c.labels)-1]
		c.depth--
		if alts == nil {
			alts = pSkip
		}
		return pScopeKeep(alts), false
	case *ast.ReturnStmt:
		var ps []*prog
		n := len(v.Results)
		if c.retTag != "" {
			if n == 0 {
				ps = append(ps, &prog{op: "chk", tag: c.retTag})
			} else {
				ps = append(ps, c.evalExprs(v.Results[:n-1]...))
				if n == 1 {
					if call, ok := ast.Unparen(v.Results[0]).(*ast.CallExpr); ok {
						if fn, _, _ := c.callee(call); fn != nil && fn.Type().(*types.Signature).Results().Len() > 1 {
							// return f() forwarding several results: the tracked one is f's last
							p, vi := c.call(call, true)
							ps = append(ps, p)
							if vi != nil && (vi.pol == polErrNil) == !c.resBool {
								if c.resBool {
									ps = append(ps, c.copyFrom(c.retTag, vi, false))
								} else {
									ps = append(ps, &prog{op: "copy", tag: c.retTag, tag2: vi.tag})
								}
							} else {
								ps = append(ps, &prog{op: "chk", tag: c.retTag})
							}
							ps = append(ps, c.exitTo(c.fnScope))
							return pSeq(ps...), true
						}
					}
				}
				ps = append(ps, c.returnValue(v.Results[n-1]))
			}
		} else {
			ps = append(ps, c.evalExprs(v.Results...))
		}
		ps = append(ps, c.exitTo(c.fnScope))
		return pSeq(ps...), true
	case *ast.BranchStmt:
		switch v.Tok {
		case token.BREAK, token.CONTINUE:
			for i := len(c.labels) - 1; i >= 0; i-- {
				l := c.labels[i]
				if v.Label != nil && l.name != v.Label.Name {
					continue
				}
				if v.Tok == token.CONTINUE {
					if !l.isLoop {
						continue
					}
					return c.exitTo(l.contAt), true
				}
				return c.exitTo(l.breakAt), true
			}
			c.sk.problem(v.Pos(), "break/continue target not found")
		default:
			c.sk.problem(v.Pos(), "%s is outside the skeleton fragment", v.Tok)
		}
		return pSkip, true
	case *ast.DeferStmt:
		saveD := c.depth
		c.depth = c.fnScope - 1 // deferred calls run after the function's scope has been left
		p := c.evalExpr(v.Call)
		c.depth = saveD
		c.defers = append(c.defers, p)
		return pSkip, false
	case *ast.GoStmt:
		return pAlt(pSkip, c.evalExpr(v.Call)), false
	}
	c.sk.problem(s.Pos(), "statement %T is outside the skeleton fragment", s)
	return pSkip, false
}

func (c *fnCtx) switchStmt(init ast.Stmt, tag ast.Expr, body *ast.BlockStmt, typeSwitch bool) (*prog, bool) {
	name := c.takeLabel()
	var ps []*prog
	if init != nil {
		p, _ := c.stmt(init)
		ps = append(ps, p)
	}
	ps = append(ps, c.evalExpr(tag))
	c.depth++
	c.labels = append(c.labels, label{name: name, breakAt: c.depth})
	type clause struct {
		cc *ast.CaseClause
	}
	var clauses []*ast.CaseClause
	var def *ast.CaseClause
	for _, cl := range body.List {
		cc := cl.(*ast.CaseClause)
		for _, st := range cc.Body {
			if bs, ok := st.(*ast.BranchStmt); ok && bs.Tok == token.FALLTHROUGH {
				c.sk.problem(bs.Pos(), "fallthrough is outside the skeleton fragment")
			}
		}
		if cc.List == nil {
			def = cc
		} else {
			clauses = append(clauses, cc)
		}
	}
	var res *prog
	allTerm := true
	var outE map[types.Object]*varInfo
	var outN map[types.Object]nilness
	collect := func(term bool, e map[types.Object]*varInfo, n map[types.Object]nilness) {
		if term {
			return
		}
		allTerm = false
		if outE == nil {
			outE, outN = e, n
		} else {
			outE, outN = mergeEnv(outE, e), mergeNils(outN, n)
		}
	}
	if tag == nil && !typeSwitch {
		// switch { case cond: ... }: an if-else chain
		var build func(i int) *prog
		build = func(i int) *prog {
			if i == len(clauses) {
				if def == nil {
					collect(false, c.env, c.nils)
					return pSkip
				}
				p, term, e, n := c.branch(nil, func() (*prog, bool) { return c.block(def.Body) })
				collect(term, e, n)
				return p
			}
			cc := clauses[i]
			var cr condRes
			for j, e := range cc.List {
				x := c.cond(e)
				if j == 0 {
					cr = x
				} else {
					cr = condRes{pre: pSeq(cr.pre, x.pre), t: rDisj(cr.t, x.t), f: rConj(cr.f, x.f), nilF: unionNils(cr.nilF, x.nilF)}
				}
			}
			pt, term, e, n := c.branch(cr.nilT, func() (*prog, bool) { return c.block(cc.Body) })
			collect(term, e, n)
			var pe *prog
			saveE, saveN := c.env, c.nils
			c.env, c.nils = cloneEnv(saveE), cloneNils(saveN)
			for o, nl := range cr.nilF {
				c.nils[o] = nl
			}
			pe = build(i + 1)
			c.env, c.nils = saveE, saveN
			return pSeq(cr.pre, pAlt(pSeq(cr.t.prog(), pt), pSeq(cr.f.prog(), pe)))
		}
		res = build(0)
	} else {
		for _, cc := range clauses {
			if !typeSwitch {
				ps = append(ps, c.evalExprs(cc.List...))
			}
		}
		all := clauses
		if def != nil {
			all = append(all, def)
		}
		for _, cc := range all {
			p, term, e, n := c.branch(nil, func() (*prog, bool) { return c.block(cc.Body) })
			collect(term, e, n)
			if res == nil {
				res = p
			} else {
				res = pAlt(res, p)
			}
		}
		if def == nil {
			collect(false, c.env, c.nils)
			if res == nil {
				res = pSkip
			} else {
				res = pAlt(res, pSkip)
			}
		}
	}
	if outE != nil {
		c.env, c.nils = outE, outN
	}
	c.labels = c.labels[:len(c.labels)-1]
	c.depth--
	ps = append(ps, pScopeKeep(res))
	return pSeq(ps...), allTerm
}

// ---------------------------------------------------------------- simplification

// simplify removes scopes nothing exits to (exits crossing a removed scope are renumbered), drops code after
// an unconditional exit and collapses trivial choices. Scopes are always emitted during construction, so exit
// numbers are consistent before and after.
func simplify(p *prog) *prog {
	switch p.op {
	case "seq":
		a, b := simplify(p.a), simplify(p.b)
		if alwaysExits(a) {
			return a
		}
		return pSeq(a, b)
	case "alt":
		return pAlt(simplify(p.a), simplify(p.b))
	case "loop":
		return pLoop(simplify(p.a))
	case "scope":
		a := simplify(p.a)
		if !exitsTo(a, 0) {
			return simplify(renumber(a, 0))
		}
		if a.op == "exit" && a.k == 0 {
			return pSkip
		}
		if a.op == "seq" && a.b.op == "exit" && a.b.k == 0 && !anyExit(a.a) {
			return a.a
		}
		return &prog{op: "scope", a: a}
	}
	return p
}

// exitsTo: some exit inside p leaves exactly the scope `lvl` levels up from p's own nesting.
func exitsTo(p *prog, lvl int) bool {
	switch p.op {
	case "exit":
		return p.k == lvl
	case "seq", "alt":
		return exitsTo(p.a, lvl) || exitsTo(p.b, lvl)
	case "loop":
		return exitsTo(p.a, lvl)
	case "scope":
		return exitsTo(p.a, lvl+1)
	}
	return false
}

func anyExit(p *prog) bool {
	switch p.op {
	case "exit":
		return true
	case "seq", "alt":
		return anyExit(p.a) || anyExit(p.b)
	case "loop", "scope":
		return anyExit(p.a)
	}
	return false
}

// renumber: the scope `lvl` levels up is being removed; exits crossing it leave one scope less.
func renumber(p *prog, lvl int) *prog {
	switch p.op {
	case "exit":
		if p.k > lvl {
			return &prog{op: "exit", k: p.k - 1}
		}
		return p
	case "seq", "alt":
		return &prog{op: p.op, a: renumber(p.a, lvl), b: renumber(p.b, lvl)}
	case "loop":
		return &prog{op: "loop", a: renumber(p.a, lvl)}
	case "scope":
		return &prog{op: "scope", a: renumber(p.a, lvl+1)}
	}
	return p
}

// dropDeadAux removes operations on helper-result tags that no branch condition ever reads (directly or
// through a copy): they cannot influence which checks and effects are reachable.
func dropDeadAux(p *prog) *prog {
	for {
		used := map[string]bool{}
		var scan func(q *prog)
		scan = func(q *prog) {
			if q == nil {
				return
			}
			switch q.op {
			case "asm":
				used[q.tag] = true
			case "copy":
				used[q.tag2] = true
			}
			scan(q.a)
			scan(q.b)
		}
		scan(p)
		changed := false
		var rw func(q *prog) *prog
		rw = func(q *prog) *prog {
			if q == nil {
				return nil
			}
			switch q.op {
			case "chk", "set", "copy", "forget":
				if strings.HasPrefix(q.tag, "(.aux") && !used[q.tag] {
					changed = true
					return pSkip
				}
				return q
			case "seq":
				return pSeq(rw(q.a), rw(q.b))
			case "alt":
				return pAlt(rw(q.a), rw(q.b))
			case "loop", "scope":
				return &prog{op: q.op, a: rw(q.a)}
			}
			return q
		}
		p = rw(p)
		if !changed {
			return p
		}
	}
}

// ---------------------------------------------------------------- region summaries
//
// A region that touches no real check (no chk/asm/set/copy/forget on a tag of the table, only helper-result
// tags) cannot change what a policy over the real checks sees: every effect inside it happens in the same
// real-check state. Such regions (response copying loops, forwarding closures, parameter conversion ...) are
// the bulk of a handler; they are replaced by a summary with the same observable behaviour for such policies:
// any number of the region's effects in any order, any value for the helper results the region assigns and
// does not forget, then normal completion or any of the exits that leave the region. This keeps the terms
// small enough for kernel evaluation (a real-check-free region of hundreds of nodes becomes a handful).

func isAuxTag(t string) bool { return strings.HasPrefix(t, "(.aux") }

func realFree(p *prog) bool {
	if p == nil {
		return true
	}
	switch p.op {
	case "chk", "set", "forget", "asm":
		return isAuxTag(p.tag)
	case "copy":
		return isAuxTag(p.tag) && isAuxTag(p.tag2)
	}
	return realFree(p.a) && realFree(p.b)
}

// auxUse counts, per helper-result tag, reads (asm, copy source: key "r"+tag) and assignments (chk, set, copy
// destination: key "w"+tag).
func auxReads(p *prog, m map[string]int) {
	if p == nil {
		return
	}
	switch p.op {
	case "asm":
		m["r"+p.tag]++
	case "copy":
		m["r"+p.tag2]++
		m["w"+p.tag]++
	case "chk", "set":
		m["w"+p.tag]++
	}
	auxReads(p.a, m)
	auxReads(p.b, m)
}

// liveOut: the region is not closed for helper results: it assigns one that is read outside of it, or reads
// one that is assigned outside of it. Then the correlation between the value and the paths of the region
// matters and the region is kept as it is.
func liveOut(p *prog, total map[string]int) bool {
	in := map[string]int{}
	auxReads(p, in)
	for k, n := range in {
		t := k[1:]
		if k[0] == 'w' && total["r"+t] > in["r"+t] {
			return true
		}
		if k[0] == 'r' && total["w"+t] > in["w"+t] {
			return true
		}
		_ = n
	}
	return false
}

func summarise(p *prog) *prog {
	effs, escapes := map[string]bool{}, map[int]bool{}
	var walk func(q *prog, lvl int)
	walk = func(q *prog, lvl int) {
		if q == nil {
			return
		}
		switch q.op {
		case "eff":
			effs[q.tag] = true
		case "exit":
			if q.k >= lvl {
				escapes[q.k-lvl] = true
			}
		case "scope":
			walk(q.a, lvl+1)
			return
		}
		walk(q.a, lvl)
		walk(q.b, lvl)
	}
	walk(p, 0)
	var es []string
	for k := range effs {
		es = append(es, k)
	}
	sort.Strings(es)
	var parts []*prog
	if len(es) > 0 {
		var alts *prog
		for _, e := range es {
			x := &prog{op: "eff", tag: e}
			if alts == nil {
				alts = x
			} else {
				alts = pAlt(alts, x)
			}
		}
		parts = append(parts, &prog{op: "loop", a: alts})
	}
	var tail *prog
	if !alwaysExits(p) {
		tail = pSkip
	}
	var ks []int
	for k := range escapes {
		ks = append(ks, k)
	}
	sort.Ints(ks)
	for _, k := range ks {
		x := &prog{op: "exit", k: k}
		if tail == nil {
			tail = x
		} else {
			tail = pAlt(tail, x)
		}
	}
	if tail == nil {
		tail = pSkip
	}
	return pSeq(append(parts, tail)...)
}

const summaryThreshold = 6

func flattenSeq(p *prog, out []*prog) []*prog {
	if p.op == "seq" {
		return flattenSeq(p.b, flattenSeq(p.a, out))
	}
	return append(out, p)
}

func compress(p *prog, total map[string]int) *prog {
	if realFree(p) && !liveOut(p, total) {
		if p.size() > summaryThreshold {
			return summarise(p)
		}
		return p
	}
	switch p.op {
	case "seq":
		items := flattenSeq(p, nil)
		var res []*prog
		for i := 0; i < len(items); {
			if !realFree(items[i]) || liveOut(items[i], total) {
				res = append(res, compress(items[i], total))
				i++
				continue
			}
			// longest run of real-check-free items whose helper results stay inside the run
			j := i + 1
			best := i + 1
			for j <= len(items) {
				if liveOut(pSeq(items[i:j]...), total) {
					// keep extending: a later item may be the reader
				} else {
					best = j
				}
				if j == len(items) || !realFree(items[j]) {
					break
				}
				j++
			}
			grp := pSeq(items[i:best]...)
			if grp.size() > summaryThreshold {
				grp = summarise(grp)
			}
			res = append(res, grp)
			i = best
		}
		return pSeq(res...)
	case "alt":
		return pAlt(compress(p.a, total), compress(p.b, total))
	case "loop", "scope":
		return &prog{op: p.op, a: compress(p.a, total)}
	}
	return p
}

func compressTop(p *prog) *prog {
	total := map[string]int{}
	auxReads(p, total)
	return compress(p, total)
}

func alwaysExits(p *prog) bool {
	switch p.op {
	case "exit":
		return true
	case "seq":
		return alwaysExits(p.a) || alwaysExits(p.b)
	case "alt":
		return alwaysExits(p.a) && alwaysExits(p.b)
	}
	return false
}

// ---------------------------------------------------------------- handler enumeration and output

type handler struct {
	name string
	p    *prog
}

// ifaceMethods lists the methods of a named interface type of another package, found by import path and name.
func (l *loader) ifaceMethods(cp *checkedPkg, pkgPath, name string) ([]string, error) {
	for _, imp := range cp.pkg.Imports() {
		if imp.Path() == pkgPath {
			o := imp.Scope().Lookup(name)
			if o == nil {
				return nil, fmt.Errorf("%s.%s not found", pkgPath, name)
			}
			it, ok := o.Type().Underlying().(*types.Interface)
			if !ok {
				return nil, fmt.Errorf("%s.%s is not an interface", pkgPath, name)
			}
			var ms []string
			for i := 0; i < it.NumMethods(); i++ {
				if it.Method(i).Exported() {
					ms = append(ms, it.Method(i).Name())
				}
			}
			sort.Strings(ms)
			return ms, nil
		}
	}
	return nil, fmt.Errorf("package %s is not imported by %s", pkgPath, cp.pkg.Path())
}

func (sk *skel) handlerSkeleton(recvType, method string) (*prog, error) {
	o := sk.cp.pkg.Scope().Lookup(recvType)
	if o == nil {
		return nil, fmt.Errorf("type %s not found in %s", recvType, sk.cp.pkg.Path())
	}
	ms := types.NewMethodSet(types.NewPointer(o.Type()))
	sel := ms.Lookup(sk.cp.pkg, method)
	if sel == nil {
		return nil, fmt.Errorf("method %s.%s not found", recvType, method)
	}
	fn := sel.Obj().(*types.Func)
	fd, ok := sk.cp.decls[fn]
	if !ok {
		return nil, fmt.Errorf("method %s.%s has no body in the package (promoted from an embedded type?)", recvType, method)
	}
	c := &fnCtx{sk: sk, env: map[types.Object]*varInfo{}, nils: map[types.Object]nilness{}}
	p := c.inlineBody(fn, fd.Type, fd.Body, fd.Pos(), false, "")
	return simplify(dropDeadAux(simplify(compressTop(simplify(dropDeadAux(simplify(p))))))), nil
}

// sameShapeMethods: exported methods of the server type whose parameter list equals that of a method of the
// service interface. They are alternative implementations of an RPC (package main patches the gRPC service
// description to call HeadBuffered / SearchV2Buffered instead of Head / SearchV2), so they are handlers too;
// a new one appears automatically.
func (l *loader) sameShapeMethods(cp *checkedPkg, sv service) ([]string, error) {
	var it *types.Interface
	for _, imp := range cp.pkg.Imports() {
		if imp.Path() == sv.ifacePkg {
			if o := imp.Scope().Lookup(sv.iface); o != nil {
				it, _ = o.Type().Underlying().(*types.Interface)
			}
		}
	}
	o := cp.pkg.Scope().Lookup(sv.recv)
	if it == nil || o == nil {
		return nil, fmt.Errorf("%s: interface or server type not found", sv.lean)
	}
	ms := types.NewMethodSet(types.NewPointer(o.Type()))
	var res []string
	for i := 0; i < ms.Len(); i++ {
		fn := ms.At(i).Obj().(*types.Func)
		if !fn.Exported() {
			continue
		}
		ps := fn.Type().(*types.Signature).Params()
		for j := 0; j < it.NumMethods(); j++ {
			if types.Identical(ps, it.Method(j).Type().(*types.Signature).Params()) && ps.Len() > 0 {
				res = append(res, fn.Name())
				break
			}
		}
	}
	return res, nil
}

type service struct {
	lean     string // Lean list name
	pkg      string // analysed package
	recv     string // server type
	ifacePkg string
	iface    string
}

var services = []service{
	{lean: "objectHandlers", pkg: modPath + "/pkg/services/object", recv: "Server",
		ifacePkg: "github.com/nspcc-dev/neofs-sdk-go/proto/object", iface: "ObjectServiceServer"},
	{lean: "controlHandlers", pkg: modPath + "/pkg/services/control/server", recv: "Server",
		ifacePkg: modPath + "/pkg/services/control", iface: "ControlServiceServer"},
	{lean: "irControlHandlers", pkg: modPath + "/pkg/services/control/ir/server", recv: "Server",
		ifacePkg: modPath + "/pkg/services/control/ir", iface: "ControlServiceServer"},
}

func genHandlers(repo, out string) []string {
	var problems []string
	fail := func(format string, a ...any) []string {
		return append(problems, "Handlers: "+fmt.Sprintf(format, a...))
	}
	patterns := []string{"./pkg/services/object", "./pkg/services/control/server", "./pkg/services/control/ir/server"}
	l, err := newLoader(repo, patterns)
	if err != nil {
		return fail("%v", err)
	}
	var sb strings.Builder
	sb.WriteString("/-\nGENERATED by /verif/harness/extract (skel.go, rules.go) from /repo's working tree on every check run. Do not edit.\n" +
		"Control skeletons of every handler of the object service and of the two control services\n" +
		"(language and semantics: NeoFS/Model/Handlers.lean).\n-/\nimport NeoFS.Model.Handlers\nnamespace NeoFS.Gen\nopen NeoFS.Handlers\n\n")
	var notes []string
	for _, sv := range services {
		cp, err := l.check(sv.pkg)
		if err != nil {
			return fail("%v", err)
		}
		currentPkgIsControl = sv.lean != "objectHandlers"
		names, err := l.ifaceMethods(cp, sv.ifacePkg, sv.iface)
		if err != nil {
			return fail("%v", err)
		}
		alt, err := l.sameShapeMethods(cp, sv)
		if err != nil {
			return fail("%v", err)
		}
		names = append(names, alt...)
		sort.Strings(names)
		var uniq []string
		for i, n := range names {
			if (i == 0 || names[i-1] != n) && !strings.HasPrefix(n, "mustEmbedUnimplemented") {
				uniq = append(uniq, n)
			}
		}
		if len(uniq) == 0 {
			return fail("no handlers found for %s", sv.lean)
		}
		var entries []string
		for _, m := range uniq {
			sk := &skel{l: l, cp: cp}
			p, err := sk.handlerSkeleton(sv.recv, m)
			if err != nil {
				problems = append(problems, "Handlers: "+sv.lean+"."+m+": "+err.Error())
				continue
			}
			for _, pr := range sk.problems {
				problems = append(problems, "Handlers: "+sv.lean+"."+m+": "+pr)
			}
			for _, n := range sk.notes {
				notes = append(notes, sv.lean+"."+m+": "+n)
			}
			def := sv.lean + "_" + m
			fmt.Fprintf(&sb, "/-- skeleton of `(*%s.%s).%s` (%d nodes) -/\ndef %s : Prog :=\n  %s\n\n", cp.pkg.Name(), sv.recv, m, p.size(), def, p.pretty(2))
			entries = append(entries, fmt.Sprintf("(\"%s\", %s)", m, def))
		}
		fmt.Fprintf(&sb, "/-- every handler of the service: the methods of `%s.%s` plus the server's exported methods with the same parameter list -/\ndef %s : List (String × Prog) :=\n  [%s]\n\n",
			sv.ifacePkg, sv.iface, sv.lean, strings.Join(entries, ",\n   "))
	}
	sort.Strings(notes)
	if len(notes) > 0 {
		sb.WriteString("/- translator notes:\n")
		last := ""
		for _, n := range notes {
			if n != last {
				sb.WriteString("  " + n + "\n")
			}
			last = n
		}
		sb.WriteString("-/\n")
	}
	sb.WriteString("end NeoFS.Gen\n")
	if err := os.WriteFile(filepath.Join(out, "Handlers.lean"), []byte(sb.String()), 0o644); err != nil {
		return fail("%v", err)
	}
	return problems
}

func init() { extraGens = append(extraGens, genHandlers) }
