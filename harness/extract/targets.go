package main

// targets is the whitelist of micro-translated functions and conditions.
var targets = []target{
	{Kind: "func", File: "pkg/local_object_storage/blobstor/common/storage.go", Recv: "PayloadRange", Name: "Resolve", Lean: "resolve",
		Env: map[string]ityp{"r.First": tU64, "r.Second": tU64, "r.Mode": tU8}},
	{Kind: "func", File: "pkg/local_object_storage/blobstor/common/storage.go", Recv: "PayloadRange", Name: "IsFull", Lean: "isFull",
		Env: map[string]ityp{"r.First": tU64, "r.Second": tU64, "r.Mode": tU8}},
	{Kind: "func", File: "pkg/local_object_storage/blobstor/fstree/util.go", Name: "checkTooBigRange", Lean: "checkTooBigRange"},
	{Kind: "cond", File: "pkg/local_object_storage/shard/gc.go", Recv: "Shard", Name: "setEpochEventHandler", Lean: "unpaidGraceExpired",
		Mention: "maxUnpaidEpochDelay", Params: []string{"ne.epoch", "unpaidSince"},
		Env: map[string]ityp{"ne.epoch": tU64, "unpaidSince": tI64}},
}
