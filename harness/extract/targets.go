package main

// targets is the whitelist of micro-translated functions and conditions.
var targets = []target{
	{Kind: "func", File: "pkg/local_object_storage/blobstor/common/storage.go", Recv: "PayloadRange", Name: "Resolve", Lean: "resolve",
		Env: map[string]ityp{"r.First": tU64, "r.Second": tU64, "r.Mode": tU8}},
	{Kind: "func", File: "pkg/local_object_storage/blobstor/common/storage.go", Recv: "PayloadRange", Name: "IsFull", Lean: "isFull",
		Env: map[string]ityp{"r.First": tU64, "r.Second": tU64, "r.Mode": tU8}},
	{Kind: "func", File: "pkg/local_object_storage/blobstor/fstree/util.go", Name: "checkTooBigRange", Lean: "checkTooBigRange"},
	{Kind: "cond", File: "pkg/local_object_storage/shard/gc.go", Recv: "Shard", Name: "setEpochEventHandler", Lean: "unpaidGraceExpired",
		Mention: "maxUnpaidEpochDelay", Params: []string{"ne.epoch", "unpaidSince"},
		Env: map[string]ityp{"ne.epoch": tU64, "unpaidSince": tI64}},
	// C23: buffer length of EC range copying and the out-of-range guards of the assembly paths
	{Kind: "func", File: "pkg/services/object/get/ec.go", Name: "calcECRangeBufferLen", Lean: "calcECRangeBufferLen"},
	{Kind: "cond", File: "pkg/services/object/get/assembly_v2.go", Recv: "execCtx", Name: "processV2Link", Lean: "v2LinkRangeGuard",
		Mention: "seekTo", Params: []string{"seekOff", "seekTo", "parSize"},
		Env: map[string]ityp{"seekOff": tU64, "seekTo": tU64, "parSize": tU64}},
	{Kind: "cond", File: "pkg/services/object/get/assemble.go", Recv: "execCtx", Name: "initFromChild", Lean: "v1RangeGuard",
		Mention: "seekTo", Params: []string{"seekOff", "seekTo", "parSize"},
		Env: map[string]ityp{"seekOff": tU64, "seekTo": tU64, "parSize": tU64}},
	{Kind: "cond", File: "pkg/services/object/get/ec.go", Recv: "Service", Name: "copyECObjectRangeByParts", Lean: "ecRangeGuard",
		Mention: "pldLen", Mention2: "ln", Params: []string{"off", "ln", "pldLen"},
		Env: map[string]ityp{"off": tU64, "ln": tU64, "pldLen": tU64}},
}
