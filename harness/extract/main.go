// Command extract regenerates lean/NeoFS/Gen/*.lean from /repo's working tree.
//
// It is a deliberately tiny translator (DESIGN.md section 5.1): a whitelisted
// set of loop-free integer functions and conditions is translated statement by
// statement into Lean definitions over Int with explicit 64-bit wrap-around,
// and named constants are evaluated. Anything outside the fragment is a
// translation error, never silently skipped.
package main

import (
	"fmt"
	"go/ast"
	"go/parser"
	"go/token"
	"os"
	"path/filepath"
	"sort"
	"strconv"
	"strings"
)

type ityp string

const (
	tU64  ityp = "u64"
	tU32  ityp = "u32"
	tU16  ityp = "u16"
	tU8   ityp = "u8"
	tI64  ityp = "i64"
	tInt  ityp = "int" // Go int: modelled as int64
	tBool ityp = "bool"
	tMath ityp = "math" // unbounded (untyped constants)
)

var modulus = map[ityp]string{tU64: "18446744073709551616", tU32: "4294967296", tU16: "65536", tU8: "256"}

func parseTyp(s string) (ityp, bool) {
	switch s {
	case "uint64":
		return tU64, true
	case "uint32":
		return tU32, true
	case "uint16":
		return tU16, true
	case "uint8", "byte":
		return tU8, true
	case "int64":
		return tI64, true
	case "int":
		return tInt, true
	case "bool":
		return tBool, true
	}
	return "", false
}

type target struct {
	Kind     string // "func" | "cond"
	File     string
	Recv     string // receiver type name for methods ("" for functions)
	Name     string // function name
	Lean     string // Lean definition name
	Env      map[string]ityp
	Params   []string // for "cond": Lean parameter order (expressions as they appear in Go, e.g. "ne.epoch")
	Mention  string   // for "cond": the if-condition must mention this identifier
	Mention2 string   // for "cond" (optional): ... and this one too
	NamedTy  map[string]ityp
}

type tr struct {
	fset   *token.FileSet
	consts map[string]string // evaluated integer constants visible to the function
	env    map[string]ityp
	named  map[string]ityp
	errs   []string
	nres   int
	resTy  []string // result kinds: "int", "bool", "error"
}

func (t *tr) fail(n ast.Node, format string, a ...any) string {
	msg := fmt.Sprintf(format, a...)
	if n != nil {
		msg = t.fset.Position(n.Pos()).String() + ": " + msg
	}
	t.errs = append(t.errs, msg)
	return "(sorryUntranslatable)"
}

func leanName(goExpr string) string {
	r := strings.NewReplacer(".", "_", "(", "_", ")", "", "[", "_", "]", "", " ", "")
	return r.Replace(goExpr)
}

func exprText(e ast.Expr) string {
	switch v := e.(type) {
	case *ast.Ident:
		return v.Name
	case *ast.SelectorExpr:
		return exprText(v.X) + "." + v.Sel.Name
	case *ast.ParenExpr:
		return exprText(v.X)
	}
	return "?"
}

// wrap applies the modular semantics of a machine type to a mathematical term.
func wrap(ty ityp, term string) string {
	switch ty {
	case tU64, tU32, tU16, tU8:
		return "((" + term + ") % " + modulus[ty] + ")"
	case tI64, tInt:
		return "(((" + term + ") + 9223372036854775808) % 18446744073709551616 - 9223372036854775808)"
	}
	return "(" + term + ")"
}

// expr translates an integer or boolean expression; returns Lean term and its type.
func (t *tr) expr(e ast.Expr) (string, ityp) {
	switch v := e.(type) {
	case *ast.ParenExpr:
		return t.expr(v.X)
	case *ast.BasicLit:
		if v.Kind == token.INT {
			n, err := strconv.ParseUint(strings.ReplaceAll(v.Value, "_", ""), 0, 64)
			if err != nil {
				return t.fail(e, "literal %s", v.Value), tMath
			}
			return strconv.FormatUint(n, 10), tMath
		}
		return t.fail(e, "unsupported literal %s", v.Value), tMath
	case *ast.Ident:
		switch v.Name {
		case "true":
			return "true", tBool
		case "false":
			return "false", tBool
		}
		if ty, ok := t.env[v.Name]; ok {
			return leanName(v.Name), ty
		}
		if c, ok := t.consts[v.Name]; ok {
			return c, tMath
		}
		return t.fail(e, "identifier %s has no known type or constant value", v.Name), tMath
	case *ast.SelectorExpr:
		txt := exprText(v)
		if ty, ok := t.env[txt]; ok {
			return leanName(txt), ty
		}
		switch txt {
		case "math.MaxInt64":
			return "9223372036854775807", tMath
		case "math.MaxUint64":
			return "18446744073709551615", tMath
		case "math.MaxUint32":
			return "4294967295", tMath
		}
		if c, ok := t.consts[v.Sel.Name]; ok {
			return c, tMath
		}
		return t.fail(e, "selector %s has no known type", txt), tMath
	case *ast.CallExpr:
		fn := exprText(v.Fun)
		if ty, ok := parseTyp(fn); ok && len(v.Args) == 1 { // conversion
			a, _ := t.expr(v.Args[0])
			return wrap(ty, a), ty
		}
		if nt, ok := t.named[fn]; ok && len(v.Args) == 1 {
			a, _ := t.expr(v.Args[0])
			return wrap(nt, a), nt
		}
		if (fn == "min" || fn == "max") && len(v.Args) == 2 {
			a, ta := t.expr(v.Args[0])
			b, tb := t.expr(v.Args[1])
			ty := ta
			if ty == tMath {
				ty = tb
			}
			return "(" + fn + " " + a + " " + b + ")", ty
		}
		return t.fail(e, "unsupported call %s", fn), tMath
	case *ast.UnaryExpr:
		if v.Op == token.NOT {
			a, _ := t.expr(v.X)
			return "(!" + a + ")", tBool
		}
		if v.Op == token.SUB {
			a, ty := t.expr(v.X)
			return wrap(ty, "-"+a), ty
		}
		return t.fail(e, "unsupported unary %s", v.Op), tMath
	case *ast.BinaryExpr:
		a, ta := t.expr(v.X)
		b, tb := t.expr(v.Y)
		ty := ta
		if ty == tMath {
			ty = tb
		}
		switch v.Op {
		case token.ADD:
			return wrap(ty, a+" + "+b), ty
		case token.SUB:
			return wrap(ty, a+" - "+b), ty
		case token.MUL:
			return wrap(ty, a+" * "+b), ty
		case token.QUO:
			if ty == tI64 || ty == tInt {
				return "(Int.tdiv " + a + " " + b + ")", ty
			}
			return "(" + a + " / " + b + ")", ty
		case token.REM:
			if ty == tI64 || ty == tInt {
				return "(Int.tmod " + a + " " + b + ")", ty
			}
			return "(" + a + " % " + b + ")", ty
		case token.EQL:
			return "(decide (" + a + " = " + b + "))", tBool
		case token.NEQ:
			return "(decide (" + a + " ≠ " + b + "))", tBool
		case token.LSS:
			return "(decide (" + a + " < " + b + "))", tBool
		case token.LEQ:
			return "(decide (" + a + " ≤ " + b + "))", tBool
		case token.GTR:
			return "(decide (" + a + " > " + b + "))", tBool
		case token.GEQ:
			return "(decide (" + a + " ≥ " + b + "))", tBool
		case token.LAND:
			return "(" + a + " && " + b + ")", tBool
		case token.LOR:
			return "(" + a + " || " + b + ")", tBool
		}
		return t.fail(e, "unsupported operator %s", v.Op), tMath
	}
	return t.fail(e, "unsupported expression %T", e), tMath
}

func errName(e ast.Expr) string {
	switch v := e.(type) {
	case *ast.Ident:
		return v.Name
	case *ast.SelectorExpr:
		return v.Sel.Name
	case *ast.CallExpr:
		return "error:" + exprText(v.Fun)
	}
	return "error"
}

func (t *tr) ret(r *ast.ReturnStmt) string {
	if len(r.Results) != len(t.resTy) {
		return t.fail(r, "return with %d values, want %d", len(r.Results), len(t.resTy))
	}
	var vals []string
	for i, e := range r.Results {
		if t.resTy[i] == "error" {
			if id, ok := e.(*ast.Ident); ok && id.Name == "nil" {
				continue
			}
			return `(.error "` + errName(e) + `")`
		}
		s, _ := t.expr(e)
		vals = append(vals, s)
	}
	hasErr := false
	for _, k := range t.resTy {
		if k == "error" {
			hasErr = true
		}
	}
	tuple := "()"
	if len(vals) == 1 {
		tuple = vals[0]
	} else if len(vals) > 1 {
		tuple = "(" + strings.Join(vals, ", ") + ")"
	}
	if hasErr {
		return "(.ok " + tuple + ")"
	}
	return tuple
}

func ind(n int) string { return strings.Repeat("  ", n) }

// endsInReturn reports whether the block always returns.
func endsInReturn(b []ast.Stmt) bool {
	if len(b) == 0 {
		return false
	}
	switch v := b[len(b)-1].(type) {
	case *ast.ReturnStmt:
		return true
	case *ast.IfStmt:
		if v.Else == nil {
			return false
		}
		eb, ok := v.Else.(*ast.BlockStmt)
		if !ok {
			return false
		}
		return endsInReturn(v.Body.List) && endsInReturn(eb.List)
	}
	return false
}

// stmts translates a statement list followed by continuation k (more statements) in CPS:
// every branch that does not return continues with a copy of k.
func (t *tr) stmts(list []ast.Stmt, k []ast.Stmt, depth int) string {
	if len(list) == 0 {
		if len(k) == 0 {
			return t.fail(nil, "control reaches end of function without return")
		}
		return t.stmts(k, nil, depth)
	}
	s, rest := list[0], list[1:]
	switch v := s.(type) {
	case *ast.ReturnStmt:
		return t.ret(v)
	case *ast.DeclStmt:
		gd, ok := v.Decl.(*ast.GenDecl)
		if !ok || gd.Tok != token.VAR {
			return t.fail(s, "unsupported declaration")
		}
		out := ""
		for _, sp := range gd.Specs {
			vs := sp.(*ast.ValueSpec)
			ty, ok := parseTyp(exprText0(vs.Type))
			if !ok {
				return t.fail(s, "unsupported var type")
			}
			for i, n := range vs.Names {
				val := "0"
				if len(vs.Values) > i {
					val, _ = t.expr(vs.Values[i])
				}
				t.env[n.Name] = ty
				out += "let " + leanName(n.Name) + " : Int := " + val + "\n" + ind(depth)
			}
		}
		return out + t.stmts(rest, k, depth)
	case *ast.AssignStmt:
		if v.Tok != token.ASSIGN && v.Tok != token.DEFINE {
			return t.fail(s, "unsupported assignment operator %s", v.Tok)
		}
		if len(v.Lhs) != len(v.Rhs) {
			return t.fail(s, "unsupported multi-value assignment")
		}
		var names, vals []string
		for i := range v.Lhs {
			val, ty := t.expr(v.Rhs[i])
			name := exprText(v.Lhs[i])
			if _, ok := t.env[name]; !ok {
				if v.Tok != token.DEFINE {
					return t.fail(s, "assignment to unknown variable %s", name)
				}
				if ty == tMath {
					ty = tInt
				}
				t.env[name] = ty
			}
			names = append(names, leanName(name))
			vals = append(vals, val)
		}
		out := ""
		if len(names) == 1 {
			out = "let " + names[0] + " : Int := " + vals[0] + "\n" + ind(depth)
		} else { // simultaneous assignment
			for i := range names {
				out += "let tmp" + strconv.Itoa(i) + "_ : Int := " + vals[i] + "\n" + ind(depth)
			}
			for i := range names {
				out += "let " + names[i] + " : Int := tmp" + strconv.Itoa(i) + "_\n" + ind(depth)
			}
		}
		return out + t.stmts(rest, k, depth)
	case *ast.IfStmt:
		if v.Init != nil { // `if x := e; cond {…}` = `x := e` followed by the plain if (names are function-local)
			cp := *v
			cp.Init = nil
			return t.stmts(append([]ast.Stmt{v.Init, &cp}, rest...), k, depth)
		}
		c, _ := t.expr(v.Cond)
		cont := append(append([]ast.Stmt{}, rest...), k...)
		thenS := t.stmts(v.Body.List, cont, depth+1)
		var elseS string
		if v.Else == nil {
			elseS = t.stmts(cont, nil, depth+1)
		} else if eb, ok := v.Else.(*ast.BlockStmt); ok {
			elseS = t.stmts(eb.List, cont, depth+1)
		} else if ei, ok := v.Else.(*ast.IfStmt); ok {
			elseS = t.stmts([]ast.Stmt{ei}, cont, depth+1)
		}
		return "if " + c + " then\n" + ind(depth+1) + thenS + "\n" + ind(depth) + "else\n" + ind(depth+1) + elseS
	case *ast.SwitchStmt:
		if v.Init != nil { // `switch x := e; x {…}` = `x := e` followed by the plain switch
			cp := *v
			cp.Init = nil
			return t.stmts(append([]ast.Stmt{v.Init, &cp}, rest...), k, depth)
		}
		cont := append(append([]ast.Stmt{}, rest...), k...)
		var tag string
		if v.Tag != nil {
			tag, _ = t.expr(v.Tag)
		}
		var def []ast.Stmt
		hasDef := false
		type cse struct {
			cond string
			body []ast.Stmt
		}
		var cases []cse
		for _, c := range v.Body.List {
			cc := c.(*ast.CaseClause)
			for _, st := range cc.Body {
				if _, ok := st.(*ast.BranchStmt); ok {
					return t.fail(st, "fallthrough/break in switch")
				}
			}
			if cc.List == nil {
				def, hasDef = cc.Body, true
				continue
			}
			var conds []string
			for _, e := range cc.List {
				x, _ := t.expr(e)
				if v.Tag != nil {
					conds = append(conds, "(decide ("+tag+" = "+x+"))")
				} else {
					conds = append(conds, x)
				}
			}
			cases = append(cases, cse{strings.Join(conds, " || "), cc.Body})
		}
		out := ""
		d := depth
		for _, c := range cases {
			out += "if " + c.cond + " then\n" + ind(d+1) + t.stmts(c.body, cont, d+1) + "\n" + ind(d) + "else\n" + ind(d+1)
			d++
		}
		if hasDef {
			out += t.stmts(def, cont, d)
		} else {
			out += t.stmts(cont, nil, d)
		}
		return out
	}
	return t.fail(s, "unsupported statement %T", s)
}

func exprText0(e ast.Expr) string {
	if e == nil {
		return ""
	}
	return exprText(e)
}

// evalConsts evaluates the integer constants of a file (iota blocks, literals).
func evalConsts(f *ast.File, into map[string]string) {
	for _, d := range f.Decls {
		gd, ok := d.(*ast.GenDecl)
		if !ok || gd.Tok != token.CONST {
			continue
		}
		var lastExpr ast.Expr
		for i, sp := range gd.Specs {
			vs := sp.(*ast.ValueSpec)
			if len(vs.Values) > 0 {
				lastExpr = vs.Values[0]
			}
			if lastExpr == nil || len(vs.Names) != 1 {
				continue
			}
			if v, ok := evalConstExpr(lastExpr, i, into); ok {
				into[vs.Names[0].Name] = v
			}
		}
	}
}

func evalConstExpr(e ast.Expr, iota int, known map[string]string) (string, bool) {
	switch v := e.(type) {
	case *ast.BasicLit:
		if v.Kind == token.INT {
			n, err := strconv.ParseInt(strings.ReplaceAll(v.Value, "_", ""), 0, 64)
			if err == nil {
				return strconv.FormatInt(n, 10), true
			}
		}
	case *ast.Ident:
		if v.Name == "iota" {
			return strconv.Itoa(iota), true
		}
		if k, ok := known[v.Name]; ok {
			return k, true
		}
	case *ast.ParenExpr:
		return evalConstExpr(v.X, iota, known)
	case *ast.CallExpr: // typed conversion T(expr)
		if len(v.Args) == 1 {
			return evalConstExpr(v.Args[0], iota, known)
		}
	case *ast.BinaryExpr:
		a, ok1 := evalConstExpr(v.X, iota, known)
		b, ok2 := evalConstExpr(v.Y, iota, known)
		if ok1 && ok2 {
			x, _ := strconv.ParseInt(a, 10, 64)
			y, _ := strconv.ParseInt(b, 10, 64)
			switch v.Op {
			case token.ADD:
				return strconv.FormatInt(x+y, 10), true
			case token.SUB:
				return strconv.FormatInt(x-y, 10), true
			case token.MUL:
				return strconv.FormatInt(x*y, 10), true
			case token.SHL:
				return strconv.FormatInt(x<<uint(y), 10), true
			}
		}
	}
	return "", false
}

func findFunc(f *ast.File, recv, name string) *ast.FuncDecl {
	for _, d := range f.Decls {
		fd, ok := d.(*ast.FuncDecl)
		if !ok || fd.Name.Name != name {
			continue
		}
		if recv == "" && fd.Recv == nil {
			return fd
		}
		if recv != "" && fd.Recv != nil && len(fd.Recv.List) == 1 {
			rt := fd.Recv.List[0].Type
			if st, ok := rt.(*ast.StarExpr); ok {
				rt = st.X
			}
			if exprText(rt) == recv {
				return fd
			}
		}
	}
	return nil
}

func translate(repo string, tg target) (string, []string) {
	fset := token.NewFileSet()
	path := filepath.Join(repo, tg.File)
	f, err := parser.ParseFile(fset, path, nil, 0)
	if err != nil {
		return "", []string{err.Error()}
	}
	t := &tr{fset: fset, consts: map[string]string{}, env: map[string]ityp{}, named: tg.NamedTy}
	// constants of every file of the package
	matches, _ := filepath.Glob(filepath.Join(filepath.Dir(path), "*.go"))
	for _, m := range matches {
		if strings.HasSuffix(m, "_test.go") {
			continue
		}
		if pf, err := parser.ParseFile(fset, m, nil, 0); err == nil {
			evalConsts(pf, t.consts)
		}
	}
	for k, v := range tg.Env {
		t.env[k] = v
	}
	fd := findFunc(f, tg.Recv, tg.Name)
	if fd == nil {
		return "", []string{fmt.Sprintf("%s: function %s.%s not found", tg.File, tg.Recv, tg.Name)}
	}
	switch tg.Kind {
	case "func":
		var params []string
		for _, p := range fd.Type.Params.List {
			ty, ok := parseTyp(exprText0(p.Type))
			if !ok {
				if nt, ok2 := tg.NamedTy[exprText0(p.Type)]; ok2 {
					ty, ok = nt, true
				}
			}
			if !ok {
				return "", []string{fmt.Sprintf("%s: parameter type %s of %s outside the fragment", tg.File, exprText0(p.Type), tg.Name)}
			}
			for _, n := range p.Names {
				t.env[n.Name] = ty
				params = append(params, n.Name)
			}
		}
		var envKeys []string
		for k := range tg.Env {
			envKeys = append(envKeys, k)
		}
		sort.Strings(envKeys)
		all := append(envKeys, params...)
		if fd.Type.Results != nil {
			for _, r := range fd.Type.Results.List {
				n := len(r.Names)
				if n == 0 {
					n = 1
				}
				for i := 0; i < n; i++ {
					switch exprText0(r.Type) {
					case "error":
						t.resTy = append(t.resTy, "error")
					case "bool":
						t.resTy = append(t.resTy, "bool")
					default:
						t.resTy = append(t.resTy, "int")
					}
				}
			}
		}
		// local constants declared inside the body are handled as consts
		body := t.stmts(fd.Body.List, nil, 1)
		var ps []string
		for _, p := range all {
			ps = append(ps, leanName(p))
		}
		nInts, hasErr, hasBool := 0, false, false
		for _, k := range t.resTy {
			switch k {
			case "int":
				nInts++
			case "error":
				hasErr = true
			case "bool":
				hasBool = true
			}
		}
		rt := "Unit"
		switch {
		case hasBool && nInts == 0:
			rt = "Bool"
		case nInts == 1:
			rt = "Int"
		case nInts > 1:
			rt = "(" + strings.TrimSuffix(strings.Repeat("Int × ", nInts), " × ") + ")"
		}
		if hasErr {
			rt = "Except String " + rt
		}
		out := fmt.Sprintf("/-- micro-translation of `%s%s` (%s) -/\ndef %s (%s : Int) : %s :=\n  %s\n",
			recvPrefix(tg.Recv), tg.Name, tg.File, tg.Lean, strings.Join(ps, " "), rt, body)
		return out, t.errs
	case "cond":
		// local const declarations inside the function body
		ast.Inspect(fd.Body, func(n ast.Node) bool {
			if ds, ok := n.(*ast.DeclStmt); ok {
				if gd, ok := ds.Decl.(*ast.GenDecl); ok && gd.Tok == token.CONST {
					tmp := &ast.File{Decls: []ast.Decl{gd}}
					evalConsts(tmp, t.consts)
				}
			}
			return true
		})
		var found []ast.Expr
		ast.Inspect(fd.Body, func(n ast.Node) bool {
			if is, ok := n.(*ast.IfStmt); ok {
				mentions, mentions2 := false, tg.Mention2 == ""
				ast.Inspect(is.Cond, func(m ast.Node) bool {
					if id, ok := m.(*ast.Ident); ok && id.Name == tg.Mention {
						mentions = true
					}
					if id, ok := m.(*ast.Ident); ok && id.Name == tg.Mention2 {
						mentions2 = true
					}
					return true
				})
				if mentions && mentions2 {
					found = append(found, is.Cond)
				}
			}
			return true
		})
		if len(found) != 1 {
			return "", []string{fmt.Sprintf("%s: expected exactly one if-condition mentioning %s in %s, found %d", tg.File, tg.Mention, tg.Name, len(found))}
		}
		c, _ := t.expr(found[0])
		var ps []string
		for _, p := range tg.Params {
			ps = append(ps, leanName(p))
		}
		out := fmt.Sprintf("/-- micro-translation of the condition mentioning `%s` in `%s%s` (%s) -/\ndef %s (%s : Int) : Bool :=\n  %s\n",
			tg.Mention, recvPrefix(tg.Recv), tg.Name, tg.File, tg.Lean, strings.Join(ps, " "), c)
		return out, t.errs
	}
	return "", []string{"unknown target kind " + tg.Kind}
}

func recvPrefix(r string) string {
	if r == "" {
		return ""
	}
	return r + "."
}

func main() {
	if len(os.Args) < 3 {
		fmt.Fprintln(os.Stderr, "usage: extract <repo> <outdir>")
		os.Exit(2)
	}
	repo, out := os.Args[1], os.Args[2]
	var sb strings.Builder
	sb.WriteString("/-\nGENERATED by /verif/harness/extract from /repo's working tree on every check run. Do not edit.\n" +
		"Machine integers are Lean `Int`s; every arithmetic result is wrapped to the width of its Go type.\n-/\nnamespace NeoFS.Gen\n\n")
	var problems []string
	for _, tg := range targets {
		s, errs := translate(repo, tg)
		if len(errs) > 0 {
			for _, e := range errs {
				problems = append(problems, tg.Lean+": "+e)
			}
			continue
		}
		sb.WriteString(s)
		sb.WriteString("\n")
	}
	sb.WriteString("end NeoFS.Gen\n")
	if err := os.WriteFile(filepath.Join(out, "Arith.lean"), []byte(sb.String()), 0o644); err != nil {
		fmt.Fprintln(os.Stderr, err)
		os.Exit(2)
	}
	problems = append(problems, genIRHandlers(repo, out)...)
	for _, g := range extraGens { // further generated files (one generator per file of this package)
		problems = append(problems, g(repo, out)...)
	}
	for _, p := range problems {
		fmt.Println("PROBLEM " + p)
	}
}
