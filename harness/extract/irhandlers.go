package main

// Control skeletons of the inner ring's event / notary / timer entry points (C35).
//
// Every method `handle*` / `Handle*` / `process*` / `Process*` of the `Processor` types under
// pkg/innerring/processors/* and the listed methods of innerring.Server are abstracted to a term of
// a tiny structured language (NeoFS.IRSkel.Prog): sequencing, nondeterministic branches, loops,
// returns, alphabet tests and chain-mutating effects.  Calls are classified by their type-resolved
// callee (go/types), never by the spelling at the call site:
//   * effect  — any function of pkg/morph/client/... from which a transaction-sending primitive of
//               morph client.Client is statically reachable (computed as a fixpoint);
//   * test    — IsAlphabet() / AlphabetIndex() of the inner ring state (only inside conditions);
//   * inline  — a callee with a body inside pkg/innerring/... (inlined as a scope, depth <= 6);
//               interface methods are resolved to all implementations among the loaded packages;
//   * neutral — everything else (reads, logging, SDK, std).
// Function literals are inlined where they appear (worker-pool submissions run the closure).

import (
	"fmt"
	"go/ast"
	"go/token"
	"go/types"
	"os"
	"path/filepath"
	"sort"
	"strings"

	"golang.org/x/tools/go/packages"
	"golang.org/x/tools/go/types/typeutil"
)

const irModule = "github.com/nspcc-dev/neofs-node"

// transaction-sending primitives of (*client.Client)
var irPrimEffects = map[string]bool{"Invoke": true, "TransferGas": true, "notaryInvoke": true, "sendNotaryRequest": true,
	"NotarySignAndInvokeTX": true, "runAlphabetNotaryScript": true}

type irDecl struct {
	decl *ast.FuncDecl
	pkg  *packages.Package
}

type irGenT struct {
	decls    map[*types.Func]irDecl
	effects  map[*types.Func]bool
	named    []*types.Named
	problems []string
	dyn      map[string]bool
	unres    map[string]bool
	memo     map[*types.Func]string
	cuts     int
}

type tri int

const (
	triU tri = iota
	triT
	triF
)

func triNot(a tri) tri {
	switch a {
	case triT:
		return triF
	case triF:
		return triT
	}
	return triU
}

func triOr(a, b tri) tri {
	if a == triT || b == triT {
		return triT
	}
	if a == triF && b == triF {
		return triF
	}
	return triU
}

func triAnd(a, b tri) tri { return triNot(triOr(triNot(a), triNot(b))) }

type irEnv struct {
	pkg   *packages.Package
	idx   map[types.Object]bool
	alpha map[types.Object]bool
	stack []*types.Func
	depth int
}

func inInnerRing(p *types.Package) bool {
	return p != nil && strings.HasPrefix(p.Path(), irModule+"/pkg/innerring")
}

func inMorphClient(p *types.Package) bool {
	return p != nil && strings.HasPrefix(p.Path(), irModule+"/pkg/morph/client")
}

func funcName(f *types.Func) string {
	s := f.Name()
	if sig, ok := f.Type().(*types.Signature); ok && sig.Recv() != nil {
		t := sig.Recv().Type()
		if p, ok := t.(*types.Pointer); ok {
			t = p.Elem()
		}
		if n, ok := t.(*types.Named); ok {
			s = n.Obj().Name() + "." + s
		}
	}
	if f.Pkg() != nil {
		s = strings.TrimPrefix(f.Pkg().Path(), irModule+"/") + "." + s
	}
	return s
}

func (g *irGenT) callee(info *types.Info, call *ast.CallExpr) *types.Func {
	f, _ := typeutil.Callee(info, call).(*types.Func)
	if f != nil {
		f = f.Origin()
	}
	return f
}

// ---- Lean term builders (with the obvious simplifications) ----

func lSeq(a, b string) string {
	if a == ".skip" {
		return b
	}
	if b == ".skip" {
		return a
	}
	return "(.seq " + a + " " + b + ")"
}

func lBranch(a, b string) string {
	if a == b {
		return a
	}
	return "(.branch " + a + " " + b + ")"
}

func lWrap(c, a string) string {
	if a == ".skip" {
		return a
	}
	return "(." + c + " " + a + ")"
}

func lIfAlpha(a, b string) string {
	if a == ".skip" && b == ".skip" {
		return ".skip"
	}
	return "(.ifAlpha " + a + " " + b + ")"
}

// ---- conditions ----

func (g *irGenT) isAlphaTest(info *types.Info, call *ast.CallExpr) (isAlpha, isIndex bool) {
	f := g.callee(info, call)
	if f == nil || !inInnerRing(f.Pkg()) {
		return false, false
	}
	return f.Name() == "IsAlphabet", f.Name() == "AlphabetIndex"
}

func isZero(e ast.Expr) bool {
	b, ok := e.(*ast.BasicLit)
	return ok && b.Kind == token.INT && b.Value == "0"
}

// cond returns the truth value of e when the node is alphabet / is not alphabet.
func (g *irGenT) cond(env *irEnv, e ast.Expr) (whenAlpha, whenNot tri) {
	info := env.pkg.TypesInfo
	switch v := e.(type) {
	case *ast.ParenExpr:
		return g.cond(env, v.X)
	case *ast.UnaryExpr:
		if v.Op == token.NOT {
			a, n := g.cond(env, v.X)
			return triNot(a), triNot(n)
		}
	case *ast.Ident:
		if env.alpha[info.ObjectOf(v)] {
			return triT, triF
		}
	case *ast.CallExpr:
		if a, _ := g.isAlphaTest(info, v); a {
			return triT, triF
		}
		// a helper whose body is a single `return <condition>`
		if f := g.callee(info, v); f != nil && inInnerRing(f.Pkg()) && env.depth < 4 {
			if d, ok := g.decls[f]; ok && d.decl.Body != nil && len(d.decl.Body.List) == 1 {
				if r, ok := d.decl.Body.List[0].(*ast.ReturnStmt); ok && len(r.Results) == 1 {
					return g.cond(&irEnv{pkg: d.pkg, idx: map[types.Object]bool{}, alpha: map[types.Object]bool{}, depth: env.depth + 1}, r.Results[0])
				}
			}
		}
	case *ast.BinaryExpr:
		switch v.Op {
		case token.LOR:
			a1, n1 := g.cond(env, v.X)
			a2, n2 := g.cond(env, v.Y)
			return triOr(a1, a2), triOr(n1, n2)
		case token.LAND:
			a1, n1 := g.cond(env, v.X)
			a2, n2 := g.cond(env, v.Y)
			return triAnd(a1, a2), triAnd(n1, n2)
		case token.LSS, token.GEQ:
			if isZero(v.Y) && g.isIndexExpr(env, v.X) {
				if v.Op == token.LSS {
					return triF, triT
				}
				return triT, triF
			}
		}
	}
	return triU, triU
}

func (g *irGenT) isIndexExpr(env *irEnv, e ast.Expr) bool {
	switch v := e.(type) {
	case *ast.ParenExpr:
		return g.isIndexExpr(env, v.X)
	case *ast.Ident:
		return env.idx[env.pkg.TypesInfo.ObjectOf(v)]
	case *ast.CallExpr:
		_, idx := g.isAlphaTest(env.pkg.TypesInfo, v)
		return idx
	}
	return false
}

// ---- calls ----

func (g *irGenT) implementations(iface *types.Interface, name string) []*types.Func {
	var res []*types.Func
	for _, n := range g.named {
		if _, isI := n.Underlying().(*types.Interface); isI {
			continue
		}
		for _, t := range []types.Type{n, types.NewPointer(n)} {
			if types.Implements(t, iface) {
				obj, _, _ := types.LookupFieldOrMethod(t, true, n.Obj().Pkg(), name)
				if f, ok := obj.(*types.Func); ok {
					if _, viaIface := f.Type().(*types.Signature).Recv().Type().Underlying().(*types.Interface); !viaIface {
						res = append(res, f.Origin())
					}
				}
				break
			}
		}
	}
	return res
}

func (g *irGenT) call(env *irEnv, call *ast.CallExpr) string {
	info := env.pkg.TypesInfo
	f := g.callee(info, call)
	if f == nil {
		// conversion, builtin or dynamic call of a function value
		if tv, ok := info.Types[call.Fun]; ok && tv.IsValue() {
			if _, isSig := tv.Type.Underlying().(*types.Signature); isSig {
				if _, lit := ast.Unparen(call.Fun).(*ast.FuncLit); !lit {
					g.dyn[types.ExprString(call.Fun)] = true
				}
			}
		}
		return ".skip"
	}
	return g.classify(env, f)
}

func (g *irGenT) classify(env *irEnv, f *types.Func) string {
	if g.effects[f] {
		return fmt.Sprintf("(.effect %q)", funcName(f))
	}
	sig := f.Type().(*types.Signature)
	if sig.Recv() != nil {
		if iface, ok := sig.Recv().Type().Underlying().(*types.Interface); ok {
			if f.Pkg() == nil || !strings.HasPrefix(f.Pkg().Path(), irModule) {
				return ".skip"
			}
			if inInnerRing(f.Pkg()) && (f.Name() == "IsAlphabet" || f.Name() == "AlphabetIndex") {
				return ".skip"
			}
			impls := g.implementations(iface, f.Name())
			if len(impls) == 0 {
				g.unres[funcName(f)] = true
				return fmt.Sprintf("(.effect %q)", "unresolved:"+funcName(f))
			}
			out := ""
			for i, m := range impls {
				t := g.classify(env, m)
				if i == 0 {
					out = t
				} else {
					out = lBranch(out, t)
				}
			}
			return out
		}
	}
	d, ok := g.decls[f]
	if !ok || d.decl.Body == nil || !inInnerRing(f.Pkg()) {
		return ".skip"
	}
	for _, s := range env.stack {
		if s == f {
			g.cuts++
			return ".skip" // recursion: the body is already being inlined
		}
	}
	if t, ok := g.memo[f]; ok {
		return t
	}
	if len(env.stack) >= 8 {
		g.cuts++
		return fmt.Sprintf("(.effect %q)", "depth:"+funcName(f))
	}
	before := g.cuts
	sub := &irEnv{pkg: d.pkg, idx: map[types.Object]bool{}, alpha: map[types.Object]bool{}, stack: append(append([]*types.Func(nil), env.stack...), f)}
	t := lWrap("scope", g.block(sub, d.decl.Body.List))
	if g.cuts == before {
		g.memo[f] = t
	}
	return t
}

// exprCalls: effects of evaluating an expression (calls in evaluation order, closures inlined).
func (g *irGenT) exprCalls(env *irEnv, e ast.Node) string {
	out := ".skip"
	if e == nil {
		return out
	}
	var walk func(n ast.Node)
	walk = func(n ast.Node) {
		switch v := n.(type) {
		case nil:
		case *ast.FuncLit:
			out = lSeq(out, lWrap("scope", g.block(env, v.Body.List)))
		case *ast.CallExpr:
			walk(v.Fun)
			for _, a := range v.Args {
				walk(a)
			}
			out = lSeq(out, g.call(env, v))
		default:
			ast.Inspect(n, func(m ast.Node) bool {
				if m == n || m == nil {
					return true
				}
				switch m.(type) {
				case *ast.CallExpr, *ast.FuncLit:
					walk(m)
					return false
				}
				return true
			})
		}
	}
	walk(e)
	return out
}

// ---- statements ----

func (g *irGenT) block(env *irEnv, stmts []ast.Stmt) string {
	out := ".skip"
	for _, s := range stmts {
		out = lSeq(out, g.stmt(env, s))
	}
	return out
}

func (g *irGenT) stmt(env *irEnv, s ast.Stmt) string {
	switch v := s.(type) {
	case nil, *ast.EmptyStmt:
		return ".skip"
	case *ast.BlockStmt:
		return g.block(env, v.List)
	case *ast.LabeledStmt:
		return g.stmt(env, v.Stmt)
	case *ast.ExprStmt:
		return g.exprCalls(env, v.X)
	case *ast.AssignStmt:
		out := ".skip"
		for _, r := range v.Rhs {
			out = lSeq(out, g.exprCalls(env, r))
		}
		for _, l := range v.Lhs {
			out = lSeq(out, g.exprCalls(env, l))
		}
		if len(v.Lhs) >= 1 && len(v.Rhs) == 1 {
			if id, ok := v.Lhs[0].(*ast.Ident); ok {
				obj := env.pkg.TypesInfo.ObjectOf(id)
				is, isA := false, false
				if c, ok := ast.Unparen(v.Rhs[0]).(*ast.CallExpr); ok {
					isA, is = g.isAlphaTest(env.pkg.TypesInfo, c)
				}
				delete(env.idx, obj)
				delete(env.alpha, obj)
				if is {
					env.idx[obj] = true
				}
				if isA {
					env.alpha[obj] = true
				}
			}
		}
		return out
	case *ast.DeclStmt, *ast.IncDecStmt, *ast.SendStmt:
		return g.exprCalls(env, v)
	case *ast.GoStmt:
		return g.exprCalls(env, v.Call)
	case *ast.DeferStmt:
		return g.exprCalls(env, v.Call)
	case *ast.ReturnStmt:
		out := ".skip"
		for _, r := range v.Results {
			out = lSeq(out, g.exprCalls(env, r))
		}
		return lSeq(out, ".ret")
	case *ast.BranchStmt:
		if v.Tok == token.BREAK || v.Tok == token.CONTINUE {
			return ".brk"
		}
		return ".skip"
	case *ast.IfStmt:
		out := g.stmt(env, v.Init)
		out = lSeq(out, g.exprCalls(env, v.Cond))
		wa, wn := g.cond(env, v.Cond)
		a := g.block(env, v.Body.List)
		b := g.stmt(env, v.Else)
		sel := func(t tri) string {
			switch t {
			case triT:
				return a
			case triF:
				return b
			}
			return lBranch(a, b)
		}
		if wa == triU && wn == triU {
			return lSeq(out, lBranch(a, b))
		}
		return lSeq(out, lIfAlpha(sel(wa), sel(wn)))
	case *ast.ForStmt:
		out := g.stmt(env, v.Init)
		body := lSeq(g.exprCalls(env, v.Cond), lSeq(g.block(env, v.Body.List), g.stmt(env, v.Post)))
		return lSeq(out, lWrap("loop", body))
	case *ast.RangeStmt:
		return lSeq(g.exprCalls(env, v.X), lWrap("loop", g.block(env, v.Body.List)))
	case *ast.SwitchStmt:
		out := lSeq(g.stmt(env, v.Init), g.exprCalls(env, v.Tag))
		return lSeq(out, g.cases(env, v.Body))
	case *ast.TypeSwitchStmt:
		out := lSeq(g.stmt(env, v.Init), g.stmt(env, v.Assign))
		return lSeq(out, g.cases(env, v.Body))
	case *ast.SelectStmt:
		return g.cases(env, v.Body)
	}
	g.problems = append(g.problems, fmt.Sprintf("irhandlers: unsupported statement %T", s))
	return ".skip"
}

// cases: a switch/select is over-approximated by a loop over the nondeterministic choice of its
// clauses (a loop also catches `break`).
func (g *irGenT) cases(env *irEnv, body *ast.BlockStmt) string {
	alt := ".skip"
	first := true
	for _, c := range body.List {
		var t string
		switch cc := c.(type) {
		case *ast.CaseClause:
			t = ".skip"
			for _, e := range cc.List {
				t = lSeq(t, g.exprCalls(env, e))
			}
			t = lSeq(t, g.block(env, cc.Body))
		case *ast.CommClause:
			t = lSeq(g.stmt(env, cc.Comm), g.block(env, cc.Body))
		}
		if first {
			alt, first = t, false
		} else {
			alt = lBranch(alt, t)
		}
	}
	return lWrap("loop", alt)
}

// ---- driver ----

func genIRHandlers(repo, out string) []string {
	cfg := &packages.Config{
		Mode: packages.NeedName | packages.NeedFiles | packages.NeedSyntax | packages.NeedTypes | packages.NeedTypesInfo | packages.NeedImports,
		Dir:  repo,
		Env:  append(os.Environ(), "GOFLAGS=", "GOPROXY=off", "GOWORK=off"),
	}
	pkgs, err := packages.Load(cfg, "./pkg/innerring/...", "./pkg/morph/...", "./pkg/util/precision/...")
	if err != nil {
		return []string{"irhandlers: loading packages: " + err.Error()}
	}
	g := &irGenT{decls: map[*types.Func]irDecl{}, effects: map[*types.Func]bool{}, dyn: map[string]bool{}, unres: map[string]bool{}, memo: map[*types.Func]string{}}
	var mine []*packages.Package
	packages.Visit(pkgs, nil, func(p *packages.Package) {
		if strings.HasPrefix(p.PkgPath, irModule+"/pkg/") {
			mine = append(mine, p)
		}
	})
	sort.Slice(mine, func(i, j int) bool { return mine[i].PkgPath < mine[j].PkgPath })
	for _, p := range mine {
		for _, e := range p.Errors {
			g.problems = append(g.problems, "irhandlers: "+p.PkgPath+": "+e.Error())
		}
		if p.Types == nil || p.TypesInfo == nil {
			continue
		}
		names := p.Types.Scope().Names()
		for _, n := range names {
			if tn, ok := p.Types.Scope().Lookup(n).(*types.TypeName); ok && !tn.IsAlias() {
				if nm, ok := tn.Type().(*types.Named); ok && nm.TypeParams().Len() == 0 {
					g.named = append(g.named, nm)
				}
			}
		}
		for _, f := range p.Syntax {
			for _, d := range f.Decls {
				if fd, ok := d.(*ast.FuncDecl); ok {
					if obj, ok := p.TypesInfo.Defs[fd.Name].(*types.Func); ok {
						g.decls[obj] = irDecl{fd, p}
					}
				}
			}
		}
	}
	if len(g.problems) > 0 {
		return g.problems
	}
	// effect set: fixpoint over pkg/morph/client/...
	for f := range g.decls {
		if f.Pkg().Path() == irModule+"/pkg/morph/client" && irPrimEffects[f.Name()] {
			if sig := f.Type().(*types.Signature); sig.Recv() != nil && strings.HasSuffix(sig.Recv().Type().String(), "client.Client") {
				g.effects[f] = true
			}
		}
	}
	nprim := len(g.effects)
	if nprim != len(irPrimEffects) {
		g.problems = append(g.problems, fmt.Sprintf("irhandlers: expected %d transaction-sending primitives of morph client.Client, found %d", len(irPrimEffects), nprim))
	}
	for changed := true; changed; {
		changed = false
		for f, d := range g.decls {
			if g.effects[f] || !inMorphClient(f.Pkg()) || d.decl.Body == nil {
				continue
			}
			hit := false
			ast.Inspect(d.decl.Body, func(n ast.Node) bool {
				if c, ok := n.(*ast.CallExpr); ok {
					if cf := g.callee(d.pkg.TypesInfo, c); cf != nil && g.effects[cf] {
						hit = true
					}
				}
				return !hit
			})
			if hit {
				g.effects[f] = true
				changed = true
			}
		}
	}
	// entry points
	type entry struct{ name, kind, term string }
	var entries, control []entry
	serverEntries := map[string]string{"voteForFSChainValidator": "startup", "VoteForFSChainValidator": "governance", "RequestNotary": "control"}
	var funcs []*types.Func
	for f := range g.decls {
		funcs = append(funcs, f)
	}
	sort.Slice(funcs, func(i, j int) bool { return funcName(funcs[i]) < funcName(funcs[j]) })
	for _, f := range funcs {
		d := g.decls[f]
		sig := f.Type().(*types.Signature)
		if sig.Recv() == nil || d.decl.Body == nil || strings.HasSuffix(d.pkg.Fset.Position(d.decl.Pos()).Filename, "_test.go") {
			continue
		}
		rt := sig.Recv().Type()
		if p, ok := rt.(*types.Pointer); ok {
			rt = p.Elem()
		}
		nm, ok := rt.(*types.Named)
		if !ok {
			continue
		}
		kind := ""
		switch {
		case strings.HasPrefix(f.Pkg().Path(), irModule+"/pkg/innerring/processors/") && nm.Obj().Name() == "Processor":
			n := strings.ToLower(f.Name())
			if strings.HasPrefix(n, "handle") {
				kind = "handler"
			} else if strings.HasPrefix(n, "process") {
				kind = "process"
			}
		case f.Pkg().Path() == irModule+"/pkg/innerring" && nm.Obj().Name() == "Server":
			kind = serverEntries[f.Name()]
			if f.Name() == "SignNotary" {
				kind = "control-unlisted"
			}
		}
		if kind == "" {
			continue
		}
		env := &irEnv{pkg: d.pkg, idx: map[types.Object]bool{}, alpha: map[types.Object]bool{}, stack: []*types.Func{f}}
		e := entry{funcName(f), kind, g.block(env, d.decl.Body.List)}
		if kind == "control-unlisted" {
			control = append(control, e)
		} else {
			entries = append(entries, e)
		}
	}
	if len(entries) < 30 {
		g.problems = append(g.problems, fmt.Sprintf("irhandlers: only %d entry points found", len(entries)))
	}
	// Server.IsAlphabet must be `AlphabetIndex() >= 0`
	isAlphaOK := false
	for f, d := range g.decls {
		if funcName(f) == "pkg/innerring.Server.IsAlphabet" && len(d.decl.Body.List) == 1 {
			if r, ok := d.decl.Body.List[0].(*ast.ReturnStmt); ok && len(r.Results) == 1 {
				env := &irEnv{pkg: d.pkg, idx: map[types.Object]bool{}, alpha: map[types.Object]bool{}}
				wa, wn := g.cond(env, r.Results[0])
				isAlphaOK = wa == triT && wn == triF
			}
		}
	}
	var sb strings.Builder
	sb.WriteString("/-\nGENERATED by /verif/harness/extract (irhandlers.go) from /repo's working tree on every check run. Do not edit.\n" +
		"Control skeletons of the inner ring entry points; see NeoFS/Model/Skel.lean for the language.\n-/\nimport NeoFS.Model.Skel\nnamespace NeoFS.Gen\nopen NeoFS.IRSkel\n\n")
	fmt.Fprintf(&sb, "/-- `Server.IsAlphabet` is literally `AlphabetIndex() >= 0` -/\ndef irServerIsAlphabetIsIndexTest : Bool := %v\n\n", isAlphaOK)
	var effNames []string
	for f := range g.effects {
		effNames = append(effNames, funcName(f))
	}
	sort.Strings(effNames)
	fmt.Fprintf(&sb, "/-- functions of pkg/morph/client/... from which a transaction-sending primitive is reachable -/\ndef irEffectFunctions : List String := [\n")
	for i, n := range effNames {
		c := ","
		if i == len(effNames)-1 {
			c = ""
		}
		fmt.Fprintf(&sb, "  %q%s\n", n, c)
	}
	sb.WriteString("]\n\n")
	lst := func(m map[string]bool) string {
		var ks []string
		for k := range m {
			ks = append(ks, fmt.Sprintf("%q", k))
		}
		sort.Strings(ks)
		return "[" + strings.Join(ks, ", ") + "]"
	}
	fmt.Fprintf(&sb, "/-- calls through function-typed values met while abstracting (not followed) -/\ndef irDynamicCalls : List String := %s\n\n", lst(g.dyn))
	fmt.Fprintf(&sb, "/-- in-repo interface methods without an implementation among the loaded packages (counted as effects) -/\ndef irUnresolved : List String := %s\n\n", lst(g.unres))
	emit := func(name string, es []entry) {
		for i, e := range es {
			fmt.Fprintf(&sb, "def %s_%d : Entry := ⟨%q, %q,\n  %s⟩\n\n", name, i, e.name, e.kind, e.term)
		}
		fmt.Fprintf(&sb, "def %s : List Entry := [", name)
		for i := range es {
			if i > 0 {
				sb.WriteString(", ")
			}
			fmt.Fprintf(&sb, "%s_%d", name, i)
		}
		sb.WriteString("]\n\n")
	}
	emit("irHandlers", entries)
	emit("irControlUnlisted", control)
	sb.WriteString("end NeoFS.Gen\n")
	if err := os.WriteFile(filepath.Join(out, "IRHandlers.lean"), []byte(sb.String()), 0o644); err != nil {
		g.problems = append(g.problems, err.Error())
	}
	return g.problems
}
