package main

import (
	"fmt"
	"go/ast"
	"go/parser"
	"go/token"
	"os"
	"path/filepath"
	"sort"
	"strings"
)

// Shared-state facts of the authorisation path of the two control servers (Gen/CtlShared.lean, C32): what
// `(*Server).isValidRequest` and the functions of its package it calls (transitively) touch of the things that
// OUTLIVE a request - fields of the server (the receiver) and package-level variables. The concurrent model
// (Model/CtlConc.lean) says a step of a request touches nothing of the server but reads of its configuration; these
// facts are what that is read from:
//
//	fieldsRead      receiver fields the path mentions
//	fieldsWritten   receiver fields it assigns, increments or takes the address of
//	fieldsAliased   receiver fields it slices (`s.buf[:n]`: the way a buffer kept in the server is handed out)
//	pkgVarsRead     package-level variables it mentions
//	pkgVarsWritten  package-level variables it assigns, increments, slices or takes the address of
//	serverMethodsWritingReadFields  methods of the server type (code that runs while requests are served) that assign
//	                a field the path reads, as "field<-Method"
//
// Purely syntactic (go/parser); method calls ON a field (a logger, a metrics counter, a mutex) and fields passed
// whole to a call (`slices.ContainsFunc(s.allowedKeys, ...)`) are not listed: those are reads as a rule.

type ctlSharedTarget struct{ dir, lean, doc string }

var ctlSharedTargets = []ctlSharedTarget{
	{"pkg/services/control/server", "storageNode", "control server of the storage node (pkg/services/control/server)"},
	{"pkg/services/control/ir/server", "innerRing", "control server of the inner ring (pkg/services/control/ir/server)"},
}

const ctlSharedEntry = "isValidRequest"

type ctlSharedUse struct {
	recvType                                                                                     string
	funcs, fieldsRead, fieldsWritten, fieldsAliased, pkgVarsRead, pkgVarsWritten, methodsWriting []string
}

func ctlSharedRecvType(fd *ast.FuncDecl) string {
	if fd.Recv == nil || len(fd.Recv.List) != 1 {
		return ""
	}
	t := fd.Recv.List[0].Type
	if st, ok := t.(*ast.StarExpr); ok {
		t = st.X
	}
	if id, ok := t.(*ast.Ident); ok {
		return id.Name
	}
	return ""
}

func ctlSharedRecvName(fd *ast.FuncDecl) string {
	if fd.Recv == nil || len(fd.Recv.List) != 1 || len(fd.Recv.List[0].Names) != 1 {
		return ""
	}
	return fd.Recv.List[0].Names[0].Name
}

func analyseCtlShared(dir string) (ctlSharedUse, error) {
	var u ctlSharedUse
	fset := token.NewFileSet()
	pkgs, err := parser.ParseDir(fset, dir, func(fi os.FileInfo) bool {
		return !strings.HasSuffix(fi.Name(), "_test.go") && !strings.HasPrefix(fi.Name(), "export_verif")
	}, 0)
	if err != nil {
		return u, err
	}
	funcs := map[string]*ast.FuncDecl{} // "Recv.Name" / "Name"
	var all []*ast.FuncDecl
	pkgVars := map[string]bool{}
	pkgVarSpecs := map[*ast.ValueSpec]bool{}
	for _, p := range pkgs {
		for _, f := range p.Files {
			for _, d := range f.Decls {
				switch x := d.(type) {
				case *ast.FuncDecl:
					key := x.Name.Name
					if rt := ctlSharedRecvType(x); rt != "" {
						key = rt + "." + key
					}
					funcs[key] = x
					all = append(all, x)
				case *ast.GenDecl:
					if x.Tok == token.VAR {
						for _, s := range x.Specs {
							vs := s.(*ast.ValueSpec)
							pkgVarSpecs[vs] = true
							for _, n := range vs.Names {
								pkgVars[n.Name] = true
							}
						}
					}
				}
			}
		}
	}
	var entry *ast.FuncDecl
	for k, fd := range funcs {
		if strings.HasSuffix(k, "."+ctlSharedEntry) {
			entry = fd
		}
	}
	if entry == nil {
		return u, fmt.Errorf("no method %s", ctlSharedEntry)
	}
	u.recvType = ctlSharedRecvType(entry)

	isPkgVar := func(id *ast.Ident) bool {
		if !pkgVars[id.Name] {
			return false
		}
		if id.Obj == nil {
			return true // declared in another file of the package
		}
		vs, ok := id.Obj.Decl.(*ast.ValueSpec)
		return ok && pkgVarSpecs[vs]
	}
	set := map[string]map[string]bool{}
	add := func(kind, name string) {
		if set[kind] == nil {
			set[kind] = map[string]bool{}
		}
		set[kind][name] = true
	}
	// rootOf: the receiver field ("f:<name>") or package variable ("v:<name>") an expression is rooted at
	var rootOf func(e ast.Expr, rn string) string
	rootOf = func(e ast.Expr, rn string) string {
		switch x := e.(type) {
		case *ast.ParenExpr:
			return rootOf(x.X, rn)
		case *ast.StarExpr:
			return rootOf(x.X, rn)
		case *ast.IndexExpr:
			return rootOf(x.X, rn)
		case *ast.SliceExpr:
			return rootOf(x.X, rn)
		case *ast.UnaryExpr:
			if x.Op == token.AND {
				return rootOf(x.X, rn)
			}
		case *ast.SelectorExpr:
			if id, ok := x.X.(*ast.Ident); ok && rn != "" && id.Name == rn && (id.Obj == nil || id.Obj.Kind == ast.Var) {
				return "f:" + x.Sel.Name
			}
			return rootOf(x.X, rn)
		case *ast.Ident:
			if isPkgVar(x) {
				return "v:" + x.Name
			}
		}
		return ""
	}
	written := func(e ast.Expr, rn string, alias bool) {
		r := rootOf(e, rn)
		switch {
		case strings.HasPrefix(r, "f:") && alias:
			add("fieldsAliased", r[2:])
		case strings.HasPrefix(r, "f:"):
			add("fieldsWritten", r[2:])
		case strings.HasPrefix(r, "v:"):
			add("pkgVarsWritten", r[2:])
		}
	}
	done := map[*ast.FuncDecl]bool{}
	var visit func(fd *ast.FuncDecl)
	visit = func(fd *ast.FuncDecl) {
		if fd == nil || fd.Body == nil || done[fd] {
			return
		}
		done[fd] = true
		name := fd.Name.Name
		if rt := ctlSharedRecvType(fd); rt != "" {
			name = rt + "." + name
		}
		add("funcs", name)
		rn := ""
		if ctlSharedRecvType(fd) == u.recvType {
			rn = ctlSharedRecvName(fd)
		}
		ast.Inspect(fd.Body, func(n ast.Node) bool {
			switch x := n.(type) {
			case *ast.SelectorExpr:
				if id, ok := x.X.(*ast.Ident); ok && rn != "" && id.Name == rn && (id.Obj == nil || id.Obj.Kind == ast.Var) {
					if m, isMethod := funcs[u.recvType+"."+x.Sel.Name]; isMethod {
						visit(m)
					} else {
						add("fieldsRead", x.Sel.Name)
					}
				}
			case *ast.Ident:
				if isPkgVar(x) {
					add("pkgVarsRead", x.Name)
				}
			case *ast.AssignStmt:
				if x.Tok != token.DEFINE {
					for _, l := range x.Lhs {
						written(l, rn, false)
					}
				}
			case *ast.IncDecStmt:
				written(x.X, rn, false)
			case *ast.RangeStmt:
				if x.Tok == token.ASSIGN {
					if x.Key != nil {
						written(x.Key, rn, false)
					}
					if x.Value != nil {
						written(x.Value, rn, false)
					}
				}
			case *ast.UnaryExpr:
				if x.Op == token.AND {
					written(x.X, rn, false)
				}
			case *ast.SliceExpr:
				written(x.X, rn, true)
			case *ast.CallExpr:
				if id, ok := x.Fun.(*ast.Ident); ok {
					if callee, isFunc := funcs[id.Name]; isFunc && (id.Obj == nil || id.Obj.Kind == ast.Fun) {
						visit(callee)
					}
				}
			}
			return true
		})
	}
	visit(entry)
	// who else assigns the fields the path reads: methods of the server type run while requests are served
	for _, fd := range all {
		if fd.Body == nil || ctlSharedRecvType(fd) != u.recvType || done[fd] {
			continue
		}
		ast.Inspect(fd.Body, func(n ast.Node) bool {
			var lhs []ast.Expr
			switch x := n.(type) {
			case *ast.AssignStmt:
				if x.Tok != token.DEFINE {
					lhs = x.Lhs
				}
			case *ast.IncDecStmt:
				lhs = []ast.Expr{x.X}
			}
			for _, l := range lhs {
				ast.Inspect(l, func(m ast.Node) bool {
					if s, ok := m.(*ast.SelectorExpr); ok && set["fieldsRead"][s.Sel.Name] {
						add("methodsWriting", s.Sel.Name+"<-"+fd.Name.Name)
					}
					return true
				})
			}
			return true
		})
	}
	list := func(kind string) []string {
		var r []string
		for k := range set[kind] {
			r = append(r, k)
		}
		sort.Strings(r)
		return r
	}
	u.funcs, u.fieldsRead, u.fieldsWritten, u.fieldsAliased = list("funcs"), list("fieldsRead"), list("fieldsWritten"), list("fieldsAliased")
	u.pkgVarsRead, u.pkgVarsWritten, u.methodsWriting = list("pkgVarsRead"), list("pkgVarsWritten"), list("methodsWriting")
	return u, nil
}

func genCtlShared(repo, out string) []string {
	var problems []string
	var sb strings.Builder
	sb.WriteString("/-\nGENERATED by /verif/harness/extract (ctlshared.go) from /repo's working tree on every check run. Do not edit.\n" +
		"What the authorisation path of the control servers (`isValidRequest` and the functions of its package it calls)\n" +
		"touches of the state that outlives a request (structure: NeoFS/Model/CtlConc.lean).\n-/\n" +
		"import NeoFS.Model.CtlConc\nnamespace NeoFS.Gen.CtlShared\nopen NeoFS.CtlConc\n\n")
	strs := func(xs []string) string {
		q := make([]string, len(xs))
		for i, x := range xs {
			q[i] = fmt.Sprintf("%q", x)
		}
		return "[" + strings.Join(q, ", ") + "]"
	}
	for _, t := range ctlSharedTargets {
		u, err := analyseCtlShared(filepath.Join(repo, t.dir))
		if err != nil {
			problems = append(problems, fmt.Sprintf("ctlshared: %s: %v", t.dir, err))
		}
		fmt.Fprintf(&sb, "/-- %s -/\ndef %s : AuthPathUse :=\n  { funcs := %s\n    fieldsRead := %s\n    fieldsWritten := %s\n    fieldsAliased := %s\n"+
			"    pkgVarsRead := %s\n    pkgVarsWritten := %s\n    serverMethodsWritingReadFields := %s }\n\n",
			t.doc, t.lean, strs(u.funcs), strs(u.fieldsRead), strs(u.fieldsWritten), strs(u.fieldsAliased), strs(u.pkgVarsRead), strs(u.pkgVarsWritten), strs(u.methodsWriting))
	}
	sb.WriteString("end NeoFS.Gen.CtlShared\n")
	if err := os.WriteFile(filepath.Join(out, "CtlShared.lean"), []byte(sb.String()), 0o644); err != nil {
		problems = append(problems, "ctlshared: "+err.Error())
	}
	return problems
}

func init() { extraGens = append(extraGens, genCtlShared) }
