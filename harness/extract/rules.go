package main

import (
	"go/types"
	"regexp"
	"strings"
)

// The tag table of the control skeletons (DESIGN.md section 5.1): which RESOLVED callee is a check, which is
// an effect, which is neutral. Keys are go/types full names (`pkgpath.Func`, `(pkgpath.Type).Method`,
// `(*pkgpath.Type).Method`; `*` in a pattern matches any run of characters). The first matching rule wins.
// A callee that matches no rule is inlined when it is declared in the analysed package, is a generation
// PROBLEM when it is reached through a dependency field of the server (so that a new dependency has to be
// classified here before the check passes again), and is neutral otherwise (SDK, standard library, message
// accessors). TRUSTED: the theorems of C29/C32/C45 are relative to this table; the dynamic `rpc` engine
// cross-checks it (recording fakes must stay untouched whenever the skeleton says a request is refused).

const (
	objPkg  = modPath + "/pkg/services/object"
	aclPkg  = modPath + "/pkg/services/object/acl/v2"
	ctlPkg  = modPath + "/pkg/services/control/server"
	irPkg   = modPath + "/pkg/services/control/ir/server"
	sdk     = "github.com/nspcc-dev/neofs-sdk-go"
	grpcPkg = "google.golang.org/grpc"
)

type rule struct {
	pat  string
	kind string // check | effect | neutral
	tag  string // Lean Tag / Eff constructor
	pol  polarity
	soft []string
	re   *regexp.Regexp
}

var rules = []*rule{
	// ---- object service: checks
	{pat: modPath + "/internal/crypto.VerifyRequestSignatures*", kind: "check", tag: ".sig", pol: polErrNil},
	{pat: "(" + objPkg + ".FSChain).LocalNodeUnderMaintenance", kind: "check", tag: ".maint", pol: polBoolFalse},
	{pat: "(" + objPkg + ".ACLInfoExtractor).*RequestToInfo", kind: "check", tag: ".reqInfo", pol: polErrNil, soft: []string{aclPkg + ".ErrSkipRequest"}},
	{pat: "(" + objPkg + ".ACLInfoExtractor).Verify*TokenMessage", kind: "check", tag: ".token", pol: polErrNil},
	{pat: "(" + aclPkg + ".ACLChecker).CheckBasicACL", kind: "check", tag: ".basic", pol: polBoolTrue},
	{pat: "(" + aclPkg + ".ACLChecker).StickyBitCheck", kind: "check", tag: ".sticky", pol: polBoolTrue},
	{pat: "(" + aclPkg + ".ACLChecker).CheckEACL", kind: "check", tag: ".eacl", pol: polErrNil, soft: []string{aclPkg + ".ErrNotMatched"}},
	{pat: "(" + sdk + "/crypto.PublicKey).Verify", kind: "check", tag: ".objSig", pol: polBoolTrue},
	{pat: "(" + objPkg + ".FSChain).ForEachContainerNodePublicKeyInLastTwoEpochs", kind: "check", tag: ".cnrCli", pol: polErrNil},
	{pat: "(" + objPkg + ".FSChain).ForEachContainerNodePublicKey", kind: "check", tag: ".cnrSrv", pol: polErrNil},
	// ---- object service: dependencies
	{pat: "(" + objPkg + ".FSChain).*", kind: "neutral"}, // chain state reads used by the checks themselves
	{pat: "(" + modPath + "/pkg/core/container.Source).*", kind: "neutral"},
	{pat: "(" + modPath + "/pkg/core/netmap.State*).*", kind: "neutral"},
	{pat: "(" + modPath + "/internal/crypto.N3ScriptRunner).*", kind: "neutral"},
	{pat: "(" + objPkg + ".Handlers).Put", kind: "neutral"}, // putsvc.Service.Put only allocates the Streamer
	{pat: "(" + objPkg + ".Handlers).*", kind: "effect", tag: "storage"},
	{pat: "(*" + objPkg + "/put.Streamer).MaxObjectSize", kind: "neutral"},
	{pat: "(*" + objPkg + "/put.Streamer).Init", kind: "effect", tag: "storage"},
	{pat: "(*" + objPkg + "/put.Streamer).*", kind: "effect", tag: "putCont"},
	{pat: "(" + objPkg + ".Storage).*", kind: "effect", tag: "storage"},
	{pat: "(" + objPkg + ".sessions).*", kind: "effect", tag: "storage"},
	{pat: "(*" + modPath + "/pkg/services/meta.Meta).*", kind: "effect", tag: "storage"},
	{pat: "(*" + modPath + "/pkg/local_object_storage/engine.StorageEngine).*", kind: "effect", tag: "storage"},
	{pat: "(" + objPkg + ".ClientConstructor).*", kind: "effect", tag: "forward"},
	{pat: "(" + modPath + "/pkg/core/client.MultiAddressClient).APIVersion", kind: "neutral"},
	{pat: "(" + modPath + "/pkg/core/client.MultiAddressClient).*", kind: "effect", tag: "forward"},
	{pat: "(" + modPath + "/pkg/core/client.Client).*", kind: "effect", tag: "forward"},
	{pat: "(*" + grpcPkg + ".ClientConn).*", kind: "effect", tag: "forward"},
	{pat: "(" + grpcPkg + ".ClientStream).*", kind: "effect", tag: "forward"},
	{pat: "(" + grpcPkg + ".ClientConnInterface).*", kind: "effect", tag: "forward"},
	{pat: "(" + sdk + "/proto/object.ObjectServiceClient).*", kind: "effect", tag: "forward"},
	{pat: "(" + grpcPkg + ".*Client[*]).*", kind: "effect", tag: "forward"},
	{pat: "(" + grpcPkg + ".ServerStream).SendMsg", kind: "effect", tag: "data"},
	{pat: "(" + grpcPkg + ".*Server[*]).Send*", kind: "effect", tag: "respond"},
	{pat: "(" + sdk + "/proto/object.ObjectService_*Server).Send*", kind: "effect", tag: "respond"},
	{pat: "(" + objPkg + ".MetricCollector).*", kind: "neutral"},
	// ---- control services
	{pat: "(" + sdk + "/crypto.Signature).Verify", kind: "check", tag: ".ctlSig", pol: polBoolTrue},
	{pat: "(" + ctlPkg + ".HealthChecker).*", kind: "effect", tag: "ctl"},
	{pat: "(" + ctlPkg + ".NodeState).*", kind: "effect", tag: "ctl"},
	{pat: "(*" + modPath + "/pkg/services/object/placement.Service).*", kind: "effect", tag: "ctl"},
	{pat: "(*" + modPath + "/pkg/services/replicator.Replicator).*", kind: "effect", tag: "ctl"},
	{pat: "(" + irPkg + ".HealthChecker).*", kind: "effect", tag: "ctl"},
	{pat: "(" + irPkg + ".NotaryManager).*", kind: "effect", tag: "ctl"},
	{pat: "(" + ctlPkg + ".SignedMessage).*", kind: "neutral"},
	{pat: "(" + irPkg + ".SignedMessage).*", kind: "neutral"},
	// ---- plumbing reached through server fields
	{pat: "(*go.uber.org/zap.Logger).*", kind: "neutral"},
	{pat: "(*sync/atomic.Bool).*", kind: "neutral"},
	{pat: "(*sync.Once).*", kind: "neutral"},
	{pat: "(error).Error", kind: "neutral"},
	{pat: "(*github.com/nspcc-dev/neo-go/pkg/crypto/keys.PrivateKey).*", kind: "neutral"},
	{pat: "(*github.com/nspcc-dev/neo-go/pkg/crypto/keys.PublicKey).*", kind: "neutral"},
}

// In the control packages every engine call is a control-plane effect; in the object package an engine call
// is a storage effect. The rule list is ordered, so the package-specific override is applied in classify.
var errorConstructors = map[string]bool{
	"errors.New":                           true,
	"fmt.Errorf":                           true,
	"google.golang.org/grpc/status.Error":  true,
	"google.golang.org/grpc/status.Errorf": true,
	objPkg + ".newBadRequestError":         true,
	objPkg + ".basicACLErr":                true,
	objPkg + ".eACLErr":                    true,
}

func init() {
	for _, r := range rules {
		q := regexp.QuoteMeta(r.pat)
		q = strings.ReplaceAll(q, `\*`, `.*`)
		// "(*pkg.T)" starts with a literal star: QuoteMeta turned it into `\(\*`, which the line above made
		// `\(.*`; restore the literal pointer star
		if strings.HasPrefix(r.pat, "(*") {
			q = `\(\*` + strings.TrimPrefix(q, `\(.*`)
		}
		q = strings.ReplaceAll(q, `\[.*\]`, `\[.*\]`)
		r.re = regexp.MustCompile("^" + q + "$")
	}
}

var currentPkgIsControl bool

func classify(fn *types.Func) (kind, tag string, r *rule) {
	if fn == nil {
		return "", "", nil
	}
	name := fullName(fn)
	for _, r := range rules {
		if r.re.MatchString(name) {
			tag := r.tag
			if currentPkgIsControl && r.kind == "effect" {
				tag = "ctl"
			}
			return r.kind, tag, r
		}
	}
	return "", "", nil
}
