package main

// Facts about shard modes, regenerated into lean/NeoFS/Gen/ShardMode.lean (C14, C43):
//   - the five mode constants of pkg/local_object_storage/shard/mode/mode.go (iota blocks, `|`, math.MaxUint32);
//   - the bit predicates Mode.ReadOnly / Mode.NoMetabase translated to Lean terms over Nat (`&&&`, `|||`), and
//     Mode.IsValid (a switch over constants);
//   - the mode guards found in the Shard methods the models are parameterised by: does the method return
//     ErrReadOnlyMode under a `.ReadOnly()` test, ErrDegradedMode under a `.NoMetabase()` test; does removeGarbage
//     return unless the mode is ReadWrite; does the write-cache flush worker test `readOnly()`;
//   - the shape of Shard.setMode: the base component order and the condition under which it is reversed.
//
// Located by role (receiver type + method name + shape of the statement), not by line.

import (
	"fmt"
	"go/ast"
	"go/parser"
	"go/token"
	"math/big"
	"os"
	"path/filepath"
	"sort"
	"strings"
)

// extraGens are generators of further Gen/*.lean files; main runs them after the micro-translations.
var extraGens []func(repo, out string) []string

func init() { extraGens = append(extraGens, genShardMode) }

var mathConsts = map[string]string{
	"math.MaxUint32": "4294967295", "math.MaxUint64": "18446744073709551615", "math.MaxInt64": "9223372036854775807",
	"math.MaxUint16": "65535", "math.MaxUint8": "255", "math.MaxInt32": "2147483647",
}

func bigConst(e ast.Expr, iota int, known map[string]*big.Int) (*big.Int, bool) {
	switch v := e.(type) {
	case *ast.BasicLit:
		if v.Kind == token.INT {
			n, ok := new(big.Int).SetString(strings.ReplaceAll(v.Value, "_", ""), 0)
			return n, ok
		}
	case *ast.Ident:
		if v.Name == "iota" {
			return big.NewInt(int64(iota)), true
		}
		if k, ok := known[v.Name]; ok {
			return k, true
		}
	case *ast.SelectorExpr:
		if s, ok := mathConsts[exprText(v)]; ok {
			n, _ := new(big.Int).SetString(s, 10)
			return n, true
		}
	case *ast.ParenExpr:
		return bigConst(v.X, iota, known)
	case *ast.CallExpr:
		if len(v.Args) == 1 {
			return bigConst(v.Args[0], iota, known)
		}
	case *ast.BinaryExpr:
		a, ok1 := bigConst(v.X, iota, known)
		b, ok2 := bigConst(v.Y, iota, known)
		if ok1 && ok2 {
			switch v.Op {
			case token.ADD:
				return new(big.Int).Add(a, b), true
			case token.SUB:
				return new(big.Int).Sub(a, b), true
			case token.MUL:
				return new(big.Int).Mul(a, b), true
			case token.OR:
				return new(big.Int).Or(a, b), true
			case token.AND:
				return new(big.Int).And(a, b), true
			case token.SHL:
				return new(big.Int).Lsh(a, uint(b.Uint64())), true
			}
		}
	}
	return nil, false
}

// modeConsts evaluates every integer constant of the file; blocks may refer to constants declared later, so the
// evaluation is repeated until nothing new resolves.
func modeConsts(f *ast.File) map[string]*big.Int {
	known := map[string]*big.Int{}
	for pass := 0; pass < 4; pass++ {
		for _, d := range f.Decls {
			gd, ok := d.(*ast.GenDecl)
			if !ok || gd.Tok != token.CONST {
				continue
			}
			var last ast.Expr
			for i, sp := range gd.Specs {
				vs := sp.(*ast.ValueSpec)
				if len(vs.Values) > 0 {
					last = vs.Values[0]
				}
				if last == nil || len(vs.Names) != 1 {
					continue
				}
				if v, ok := bigConst(last, i, known); ok {
					known[vs.Names[0].Name] = v
				}
			}
		}
	}
	return known
}

// modePred translates a boolean expression over the receiver `recv` and the mode constants into a Lean Bool term
// over `m : Nat`.
func modePred(e ast.Expr, recv string, consts map[string]*big.Int) (string, bool) {
	var num func(e ast.Expr) (string, bool)
	num = func(e ast.Expr) (string, bool) {
		switch v := e.(type) {
		case *ast.Ident:
			if v.Name == recv {
				return "m", true
			}
			if c, ok := consts[v.Name]; ok {
				return c.String(), true
			}
		case *ast.BasicLit:
			if v.Kind == token.INT {
				if n, ok := new(big.Int).SetString(strings.ReplaceAll(v.Value, "_", ""), 0); ok {
					return n.String(), true
				}
			}
		case *ast.ParenExpr:
			return num(v.X)
		case *ast.BinaryExpr:
			a, ok1 := num(v.X)
			b, ok2 := num(v.Y)
			if ok1 && ok2 {
				switch v.Op {
				case token.AND:
					return "(" + a + " &&& " + b + ")", true
				case token.OR:
					return "(" + a + " ||| " + b + ")", true
				}
			}
		}
		return "", false
	}
	switch v := e.(type) {
	case *ast.ParenExpr:
		return modePred(v.X, recv, consts)
	case *ast.UnaryExpr:
		if v.Op == token.NOT {
			if a, ok := modePred(v.X, recv, consts); ok {
				return "(!" + a + ")", true
			}
		}
	case *ast.BinaryExpr:
		switch v.Op {
		case token.LAND, token.LOR:
			a, ok1 := modePred(v.X, recv, consts)
			b, ok2 := modePred(v.Y, recv, consts)
			if ok1 && ok2 {
				op := " && "
				if v.Op == token.LOR {
					op = " || "
				}
				return "(" + a + op + b + ")", true
			}
		case token.NEQ, token.EQL:
			a, ok1 := num(v.X)
			b, ok2 := num(v.Y)
			if ok1 && ok2 {
				op := " != "
				if v.Op == token.EQL {
					op = " == "
				}
				return "(" + a + op + b + ")", true
			}
		}
	}
	return "", false
}

func recvName(fd *ast.FuncDecl) string {
	if fd.Recv != nil && len(fd.Recv.List) == 1 && len(fd.Recv.List[0].Names) == 1 {
		return fd.Recv.List[0].Names[0].Name
	}
	return ""
}

// singleReturn returns the expression of a body that is exactly `return <expr>`.
func singleReturn(fd *ast.FuncDecl) ast.Expr {
	if fd == nil || fd.Body == nil || len(fd.Body.List) != 1 {
		return nil
	}
	if r, ok := fd.Body.List[0].(*ast.ReturnStmt); ok && len(r.Results) == 1 {
		return r.Results[0]
	}
	return nil
}

// callsSel reports whether the expression is (or contains, through `!`, `&&`, `||`) a call of a method named sel.
func callsSel(e ast.Node, sel string) bool {
	found := false
	ast.Inspect(e, func(n ast.Node) bool {
		if c, ok := n.(*ast.CallExpr); ok {
			if s, ok := c.Fun.(*ast.SelectorExpr); ok && s.Sel.Name == sel {
				found = true
			}
		}
		return true
	})
	return found
}

func returnsIdent(b *ast.BlockStmt, name string) bool {
	found := false
	ast.Inspect(b, func(n ast.Node) bool {
		if r, ok := n.(*ast.ReturnStmt); ok {
			for _, x := range r.Results {
				if id, ok := x.(*ast.Ident); ok && id.Name == name {
					found = true
				}
			}
		}
		return true
	})
	return found
}

// guardOf: does the function contain `if <…>.pred() { … return …, errName }` (also as an else-if branch), directly
// or in a helper of the same package whose result it returns at once (`return s.helper(…)`,
// `if err := s.helper(…); err != nil { return … }`), so that extracting the guard into a helper changes nothing.
func guardOf(funcs map[string]*ast.FuncDecl, fd *ast.FuncDecl, pred, errName string, depth int) bool {
	if fd == nil || fd.Body == nil {
		return false
	}
	found := false
	ast.Inspect(fd.Body, func(n ast.Node) bool {
		if is, ok := n.(*ast.IfStmt); ok && callsSel(is.Cond, pred) && returnsIdent(is.Body, errName) {
			found = true
		}
		return true
	})
	if found || depth == 0 {
		return found
	}
	recvT := ""
	if fd.Recv != nil && len(fd.Recv.List) == 1 {
		rt := fd.Recv.List[0].Type
		if st, ok := rt.(*ast.StarExpr); ok {
			rt = st.X
		}
		recvT = exprText(rt)
	}
	callee := func(e ast.Expr) *ast.FuncDecl {
		c, ok := e.(*ast.CallExpr)
		if !ok {
			return nil
		}
		switch f := c.Fun.(type) {
		case *ast.Ident:
			return funcs[f.Name]
		case *ast.SelectorExpr:
			if id, ok := f.X.(*ast.Ident); ok && id.Name == recvName(fd) && recvT != "" {
				return funcs[recvT+"."+f.Sel.Name]
			}
		}
		return nil
	}
	hasReturn := func(b *ast.BlockStmt) bool {
		r := false
		ast.Inspect(b, func(n ast.Node) bool {
			if _, ok := n.(*ast.ReturnStmt); ok {
				r = true
			}
			return true
		})
		return r
	}
	for _, st := range fd.Body.List {
		switch v := st.(type) {
		case *ast.ReturnStmt:
			for _, x := range v.Results {
				if g := callee(x); g != nil && g != fd && guardOf(funcs, g, pred, errName, depth-1) {
					return true
				}
			}
		case *ast.IfStmt:
			if as, ok := v.Init.(*ast.AssignStmt); ok && len(as.Rhs) == 1 && hasReturn(v.Body) {
				if g := callee(as.Rhs[0]); g != nil && g != fd && guardOf(funcs, g, pred, errName, depth-1) {
					return true
				}
			}
		}
	}
	return false
}

// directCall: does the body contain a call of a function or method named name?
func directCall(fd *ast.FuncDecl, name string) bool {
	if fd == nil || fd.Body == nil {
		return false
	}
	found := false
	ast.Inspect(fd.Body, func(n ast.Node) bool {
		if c, ok := n.(*ast.CallExpr); ok {
			switch f := c.Fun.(type) {
			case *ast.Ident:
				found = found || f.Name == name
			case *ast.SelectorExpr:
				found = found || f.Sel.Name == name
			}
		}
		return true
	})
	return found
}

// reachesCall: does fd call something named target, directly or through functions / methods on its own receiver
// of the same package (to the given depth; function literals and `go` statements included)?
func reachesCall(funcs map[string]*ast.FuncDecl, fd *ast.FuncDecl, target string, depth int) bool {
	if fd == nil || fd.Body == nil {
		return false
	}
	if directCall(fd, target) {
		return true
	}
	if depth == 0 {
		return false
	}
	recvT := ""
	if fd.Recv != nil && len(fd.Recv.List) == 1 {
		rt := fd.Recv.List[0].Type
		if st, ok := rt.(*ast.StarExpr); ok {
			rt = st.X
		}
		recvT = exprText(rt)
	}
	found := false
	ast.Inspect(fd.Body, func(n ast.Node) bool {
		c, ok := n.(*ast.CallExpr)
		if !ok || found {
			return true
		}
		var g *ast.FuncDecl
		switch f := c.Fun.(type) {
		case *ast.Ident:
			g = funcs[f.Name]
		case *ast.SelectorExpr:
			if id, ok := f.X.(*ast.Ident); ok && id.Name == recvName(fd) && recvT != "" {
				g = funcs[recvT+"."+f.Sel.Name]
			}
		}
		if g != nil && g != fd && reachesCall(funcs, g, target, depth-1) {
			found = true
		}
		return true
	})
	return found
}

func parseDirFuncs(dir string) (map[string]*ast.FuncDecl, error) {
	fset := token.NewFileSet()
	matches, _ := filepath.Glob(filepath.Join(dir, "*.go"))
	res := map[string]*ast.FuncDecl{}
	for _, m := range matches {
		if strings.HasSuffix(m, "_test.go") || strings.Contains(filepath.Base(m), "export_verif") {
			continue
		}
		f, err := parser.ParseFile(fset, m, nil, 0)
		if err != nil {
			return nil, err
		}
		for _, d := range f.Decls {
			if fd, ok := d.(*ast.FuncDecl); ok {
				key := fd.Name.Name
				if fd.Recv != nil && len(fd.Recv.List) == 1 {
					rt := fd.Recv.List[0].Type
					if st, ok := rt.(*ast.StarExpr); ok {
						rt = st.X
					}
					key = exprText(rt) + "." + key
				}
				res[key] = fd
			}
		}
	}
	return res, nil
}

func lb(b bool) string {
	if b {
		return "true"
	}
	return "false"
}

func genShardMode(repo, out string) []string {
	var problems []string
	bad := func(format string, a ...any) { problems = append(problems, "shardMode: "+fmt.Sprintf(format, a...)) }
	var sb strings.Builder
	sb.WriteString("/-\nGENERATED by /verif/harness/extract (modes.go) from /repo's working tree on every check run. Do not edit.\n" +
		"Shard mode constants, bit predicates and the mode guards of the shard's write paths.\n-/\nnamespace NeoFS.Gen.ShardMode\n\n")

	// ---- constants and predicates of mode.Mode
	modePath := filepath.Join(repo, "pkg/local_object_storage/shard/mode/mode.go")
	fset := token.NewFileSet()
	mf, err := parser.ParseFile(fset, modePath, nil, 0)
	if err != nil {
		return []string{"shardMode: " + err.Error()}
	}
	consts := modeConsts(mf)
	names := []struct{ goName, lean string }{
		{"ReadWrite", "readWrite"}, {"ReadOnly", "readOnly"}, {"Degraded", "degraded"},
		{"DegradedReadOnly", "degradedReadOnly"}, {"Disabled", "disabled"},
	}
	for _, n := range names {
		v, ok := consts[n.goName]
		if !ok {
			bad("constant mode.%s not found or not evaluable", n.goName)
			v = big.NewInt(0)
		}
		fmt.Fprintf(&sb, "/-- `mode.%s` -/\ndef %s : Nat := %s\n", n.goName, n.lean, v.String())
	}
	sb.WriteString("\n/-- the five modes in the order ReadWrite, ReadOnly, Degraded, DegradedReadOnly, Disabled -/\n" +
		"def modes : List Nat := [readWrite, readOnly, degraded, degradedReadOnly, disabled]\n\n")
	for _, p := range []struct{ goName, lean string }{{"ReadOnly", "isReadOnly"}, {"NoMetabase", "noMetabase"}} {
		fd := findFunc(mf, "Mode", p.goName)
		e := singleReturn(fd)
		term, ok := "", false
		if e != nil {
			term, ok = modePred(e, recvName(fd), consts)
		}
		if !ok {
			bad("predicate Mode.%s is not a single boolean expression over the receiver and the mode constants", p.goName)
			term = "false"
		}
		fmt.Fprintf(&sb, "/-- `Mode.%s` (translated expression) -/\ndef %s (m : Nat) : Bool := %s\n\n", p.goName, p.lean, term)
	}
	// IsValid: switch m { case A, B, …: return true; default: return false }
	{
		fd := findFunc(mf, "Mode", "IsValid")
		var vals []string
		ok := false
		if fd != nil && fd.Body != nil && len(fd.Body.List) == 1 {
			if sw, isSw := fd.Body.List[0].(*ast.SwitchStmt); isSw && exprText0(sw.Tag) == recvName(fd) {
				ok = true
				for _, cl := range sw.Body.List {
					cc := cl.(*ast.CaseClause)
					truth := returnsIdent(&ast.BlockStmt{List: cc.Body}, "true")
					if cc.List == nil { // default
						if truth {
							ok = false
						}
						continue
					}
					if !truth {
						continue
					}
					for _, x := range cc.List {
						if v, k := bigConst(x, 0, consts); k {
							vals = append(vals, v.String())
						} else {
							ok = false
						}
					}
				}
			}
		}
		if !ok {
			bad("Mode.IsValid is not a switch over mode constants")
		}
		fmt.Fprintf(&sb, "/-- `Mode.IsValid`: the listed values -/\ndef validModes : List Nat := [%s]\n\n", strings.Join(vals, ", "))
	}

	// ---- guards of the shard's methods
	shardFuncs, err := parseDirFuncs(filepath.Join(repo, "pkg/local_object_storage/shard"))
	if err != nil {
		return append(problems, "shardMode: "+err.Error())
	}
	methods := []struct{ key, lean string }{
		{"Shard.Put", "put"}, {"Shard.deleteObjs", "deleteObjs"}, {"Shard.MarkGarbage", "markGarbage"},
		{"Shard.InhumeContainer", "inhumeContainer"}, {"Shard.DeleteContainer", "deleteContainer"},
		{"Shard.ReviveObject", "reviveObject"}, {"Shard.FlushWriteCache", "flushWriteCache"}, {"Shard.Restore", "restore"},
		{"Shard.List", "list"}, {"Shard.Select", "select"}, {"Shard.ListContainers", "listContainers"},
		{"Shard.ContainerInfo", "containerInfo"}, {"Shard.IsLocked", "isLocked"},
	}
	sort.Slice(methods, func(i, j int) bool { return methods[i].lean < methods[j].lean })
	for _, m := range methods {
		fd := shardFuncs[m.key]
		if fd == nil {
			bad("method %s not found", m.key)
		}
		fmt.Fprintf(&sb, "/-- `%s` returns ErrReadOnlyMode under a `.ReadOnly()` test -/\ndef %s_guardRO : Bool := %s\n", m.key, m.lean, lb(guardOf(shardFuncs, fd, "ReadOnly", "ErrReadOnlyMode", 2)))
		fmt.Fprintf(&sb, "/-- `%s` returns ErrDegradedMode under a `.NoMetabase()` test -/\ndef %s_guardDegraded : Bool := %s\n", m.key, m.lean, lb(guardOf(shardFuncs, fd, "NoMetabase", "ErrDegradedMode", 2)))
	}
	// removeGarbage: `if s.info.Mode != mode.ReadWrite { return }`
	{
		fd := shardFuncs["Shard.removeGarbage"]
		found := false
		if fd != nil {
			ast.Inspect(fd.Body, func(n ast.Node) bool {
				is, ok := n.(*ast.IfStmt)
				if !ok {
					return true
				}
				be, ok := is.Cond.(*ast.BinaryExpr)
				if ok && be.Op == token.NEQ && exprText(be.Y) == "mode.ReadWrite" && len(is.Body.List) == 1 {
					if r, ok := is.Body.List[0].(*ast.ReturnStmt); ok && len(r.Results) == 0 {
						found = true
					}
				}
				return true
			})
		} else {
			bad("Shard.removeGarbage not found")
		}
		fmt.Fprintf(&sb, "\n/-- `Shard.removeGarbage` returns at once unless the mode is ReadWrite -/\ndef removeGarbage_rwOnly : Bool := %s\n", lb(found))
	}
	// collectExpiredObjects: returns when NoMetabase()
	{
		fd := shardFuncs["Shard.collectExpiredObjects"]
		found := false
		if fd != nil {
			ast.Inspect(fd.Body, func(n ast.Node) bool {
				if is, ok := n.(*ast.IfStmt); ok && callsSel(is.Cond, "NoMetabase") && len(is.Body.List) == 1 {
					if r, ok := is.Body.List[0].(*ast.ReturnStmt); ok && len(r.Results) == 0 {
						found = true
					}
				}
				return true
			})
		} else {
			bad("Shard.collectExpiredObjects not found")
		}
		fmt.Fprintf(&sb, "/-- `Shard.collectExpiredObjects` returns at once in a mode without metabase -/\ndef collectExpired_guardDegraded : Bool := %s\n", lb(found))
	}
	// setMode: base order [metaBase, storage(, writeCache)], reversed when `m != mode.ReadWrite`
	{
		fd := shardFuncs["Shard.setMode"]
		var base []string
		cond := ""
		swaps := 0
		list := "" // name of the slice of component switches (whatever it is called)
		if fd != nil {
			ast.Inspect(fd.Body, func(n ast.Node) bool {
				if v, ok := n.(*ast.AssignStmt); ok && len(v.Lhs) == 1 && len(v.Rhs) == 1 && list == "" {
					if cl, ok := v.Rhs[0].(*ast.CompositeLit); ok {
						if at, ok := cl.Type.(*ast.ArrayType); ok {
							if _, ok := at.Elt.(*ast.FuncType); ok {
								list = exprText(v.Lhs[0])
							}
						}
					}
				}
				return true
			})
			ast.Inspect(fd.Body, func(n ast.Node) bool {
				switch v := n.(type) {
				case *ast.AssignStmt:
					if len(v.Lhs) == 1 && exprText(v.Lhs[0]) == list && len(v.Rhs) == 1 {
						if cl, ok := v.Rhs[0].(*ast.CompositeLit); ok {
							for _, el := range cl.Elts {
								base = append(base, exprText(el))
							}
						}
						if call, ok := v.Rhs[0].(*ast.CallExpr); ok && exprText(call.Fun) == "append" {
							for _, a := range call.Args[1:] {
								base = append(base, exprText(a))
							}
						}
					}
					if len(v.Lhs) == 2 && len(v.Rhs) == 2 && v.Tok == token.ASSIGN {
						if ix, ok := v.Lhs[0].(*ast.IndexExpr); ok && exprText(ix.X) == list {
							swaps++
						}
					}
				case *ast.IfStmt:
					if be, ok := v.Cond.(*ast.BinaryExpr); ok && exprText(be.Y) == "mode.ReadWrite" && exprText(be.X) == "m" {
						cond = be.Op.String()
					}
				}
				return true
			})
		} else {
			bad("Shard.setMode not found")
		}
		want := []string{"s.metaBase.SetMode", "s.setModeStorage", "s.writeCache.SetMode"}
		okOrder := len(base) == 3
		for i := range want {
			if i >= len(base) || base[i] != want[i] {
				okOrder = false
			}
		}
		fmt.Fprintf(&sb, "\n/-- `Shard.setMode`: the component list is built as metabase, storage, write-cache -/\ndef setMode_baseOrderMetaBlobWC : Bool := %s\n", lb(okOrder))
		fmt.Fprintf(&sb, "/-- `Shard.setMode`: the first and last components are swapped exactly when `m != mode.ReadWrite` -/\ndef setMode_reversedUnlessRW : Bool := %s\n", lb(cond == "!=" && swaps == 2))
	}
	// write-cache flush worker: flushes only `if !c.readOnly()`
	{
		wcFuncs, err := parseDirFuncs(filepath.Join(repo, "pkg/local_object_storage/writecache"))
		if err != nil {
			return append(problems, "shardMode: "+err.Error())
		}
		fd := wcFuncs["cache.flushWorker"]
		found := false
		if fd != nil {
			ast.Inspect(fd.Body, func(n ast.Node) bool {
				if is, ok := n.(*ast.IfStmt); ok {
					if u, ok := is.Cond.(*ast.UnaryExpr); ok && u.Op == token.NOT && callsSel(u.X, "readOnly") &&
						(callsSel(is.Body, "flushSingle") || callsSel(is.Body, "flushBatch")) {
						found = true
					}
				}
				return true
			})
		} else {
			bad("cache.flushWorker not found")
		}
		fmt.Fprintf(&sb, "\n/-- the write-cache flush worker flushes only under `!c.readOnly()` -/\ndef flushWorker_guardRO : Bool := %s\n", lb(found))
		for _, m := range []struct{ key, lean string }{{"cache.Put", "wcPut"}, {"cache.Delete", "wcDelete"}} {
			fmt.Fprintf(&sb, "/-- write-cache `%s` returns ErrReadOnly under `readOnly()` -/\ndef %s_guardRO : Bool := %s\n", m.key, m.lean, lb(guardOf(wcFuncs, wcFuncs[m.key], "readOnly", "ErrReadOnly", 2)))
		}
	}
	// life cycle of the write-cache flush loop and of a shard over the engine's maintenance cycle
	{
		wcFuncs, err := parseDirFuncs(filepath.Join(repo, "pkg/local_object_storage/writecache"))
		if err != nil {
			return append(problems, "shardMode: "+err.Error())
		}
		sb.WriteString("\n")
		for _, m := range []struct{ key, lean, doc string }{
			{"cache.Init", "wcInit", "`cache.Init` starts the background flush loop (reaches `runFlushLoop`)"},
			{"cache.Open", "wcOpen", "`cache.Open` starts the background flush loop (reaches `runFlushLoop`)"},
			{"cache.SetMode", "wcSetMode", "`cache.SetMode` starts the background flush loop (reaches `runFlushLoop`)"},
		} {
			if wcFuncs[m.key] == nil {
				bad("%s not found", m.key)
			}
			fmt.Fprintf(&sb, "/-- %s -/\ndef %s_startsFlushLoop : Bool := %s\n", m.doc, m.lean, lb(reachesCall(wcFuncs, wcFuncs[m.key], "runFlushLoop", 4)))
		}
		if wcFuncs["cache.runFlushLoop"] == nil {
			bad("cache.runFlushLoop not found")
		}
		shFuncs, err := parseDirFuncs(filepath.Join(repo, "pkg/local_object_storage/shard"))
		if err != nil {
			return append(problems, "shardMode: "+err.Error())
		}
		if shFuncs["Shard.Open"] == nil || shFuncs["Shard.Close"] == nil {
			bad("Shard.Open / Shard.Close not found")
		}
		fmt.Fprintf(&sb, "/-- `Shard.Open` initializes a component or applies the shard's mode (reaches `Init`, `setMode` or `SetMode`) -/\ndef shardOpen_initsOrSetsMode : Bool := %s\n",
			lb(reachesCall(shFuncs, shFuncs["Shard.Open"], "Init", 3) || reachesCall(shFuncs, shFuncs["Shard.Open"], "setMode", 1) || directCall(shFuncs["Shard.Open"], "SetMode")))
		engFuncs, err := parseDirFuncs(filepath.Join(repo, "pkg/local_object_storage/engine"))
		if err != nil {
			return append(problems, "shardMode: "+err.Error())
		}
		for _, k := range []string{"StorageEngine.BlockExecution", "StorageEngine.ResumeExecution", "StorageEngine.setBlockExecErr", "StorageEngine.open", "StorageEngine.close"} {
			if engFuncs[k] == nil {
				bad("%s not found", k)
			}
		}
		fmt.Fprintf(&sb, "/-- `StorageEngine.BlockExecution` closes every shard (reaches `Shard.Close` through `setBlockExecErr` / `close`) -/\ndef engineBlock_closesShards : Bool := %s\n",
			lb(reachesCall(engFuncs, engFuncs["StorageEngine.BlockExecution"], "Close", 3)))
		fmt.Fprintf(&sb, "/-- `StorageEngine.ResumeExecution` opens every shard again (reaches `Shard.Open` through `setBlockExecErr` / `open`) -/\ndef engineResume_opensShards : Bool := %s\n",
			lb(reachesCall(engFuncs, engFuncs["StorageEngine.ResumeExecution"], "Open", 3)))
		fmt.Fprintf(&sb, "/-- `StorageEngine.ResumeExecution` also initializes the shards or applies their modes (reaches `Init` / `SetMode`) -/\ndef engineResume_initsShards : Bool := %s\n",
			lb(reachesCall(engFuncs, engFuncs["StorageEngine.ResumeExecution"], "Init", 3) || reachesCall(engFuncs, engFuncs["StorageEngine.ResumeExecution"], "SetMode", 3)))
	}
	sb.WriteString("\nend NeoFS.Gen.ShardMode\n")
	if err := os.WriteFile(filepath.Join(out, "ShardMode.lean"), []byte(sb.String()), 0o644); err != nil {
		problems = append(problems, "shardMode: "+err.Error())
	}
	return problems
}
