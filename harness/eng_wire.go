package main

// Engine "wire" (C41): feeds the REAL fast object parsers of internal/object (through pkg/util/verifbridge) and the
// REAL decoders (protobuf-go's message loop, SDK object.Unmarshal) with the same byte strings and prints one
// canonical observation per byte string; Driver/Wire.lean computes the same line from Model/Wire.lean.
//
// Answers of calls the model takes as parameters are recorded in the op line by exec itself (never trusted from
// the incoming line): cbad = value offsets whose proto.Unmarshal into the field's message fails, sem = 1 when
// Object.FromProtoMessage rejected an otherwise well-scanned prefix.

import (
	"bytes"
	"encoding/hex"
	"fmt"
	"math"
	"strconv"
	"strings"

	"github.com/nspcc-dev/neofs-node/pkg/util/verifbridge"
	neofscrypto "github.com/nspcc-dev/neofs-sdk-go/crypto"
	"github.com/nspcc-dev/neofs-sdk-go/object"
	protoobject "github.com/nspcc-dev/neofs-sdk-go/proto/object"
	iprotobuf "github.com/nspcc-dev/neofs-sdk-go/proto/protobuf"
	"github.com/nspcc-dev/neofs-sdk-go/proto/refs"
	"google.golang.org/protobuf/encoding/protowire"
	"google.golang.org/protobuf/proto"
	"google.golang.org/protobuf/types/known/emptypb"
)

func init() {
	engines["wire"] = seqRunner{gen: wireGen, exec: wireExec}.engine()
}

type stableMsg interface {
	MarshaledSize() int
	MarshalStable([]byte)
}

func wireMarshal(m stableMsg) []byte {
	b := make([]byte, m.MarshaledSize())
	m.MarshalStable(b)
	return b
}

func wireHex(b []byte) string { return hex.EncodeToString(b) + "_" }

func wireUnhex(s string) []byte {
	b, err := hex.DecodeString(strings.TrimSuffix(s, "_"))
	if err != nil {
		panic("bad hex in op line: " + err.Error())
	}
	return b
}

// ---------- observation helpers ----------

func wireErrClass(err error) string {
	s := err.Error()
	switch {
	case s == "empty data":
		return "empty"
	case strings.HasPrefix(s, "parse tag at offset"), strings.HasPrefix(s, "parse varint"), strings.HasPrefix(s, "invalid number"):
		return "tag"
	case strings.HasPrefix(s, "unordered fields"):
		return "unordered"
	case strings.HasPrefix(s, "repeated field"):
		return "repeated"
	case strings.HasPrefix(s, "wrong type of field"):
		return "wtype"
	case strings.HasPrefix(s, "parse field #"):
		return "field"
	case strings.HasPrefix(s, "unknown field type"):
		return "unktype"
	}
	return "other"
}

type wireBounds struct {
	id, sig, hdr iprotobuf.FieldBounds
	err          error
	panicked     bool
}

func wireCallBounds(f func([]byte) (iprotobuf.FieldBounds, iprotobuf.FieldBounds, iprotobuf.FieldBounds, error), b []byte) (r wireBounds) {
	defer func() {
		if p := recover(); p != nil {
			r = wireBounds{panicked: true}
		}
	}()
	r.id, r.sig, r.hdr, r.err = f(bytes.Clone(b))
	return
}

func (r wireBounds) String() string {
	if r.panicked {
		return "panic"
	}
	if r.err != nil {
		return wireErrClass(r.err)
	}
	fb := func(f iprotobuf.FieldBounds) string { return fmt.Sprintf("%d:%d:%d", f.From, f.ValueFrom, f.To) }
	return "ok:" + fb(r.id) + "/" + fb(r.sig) + "/" + fb(r.hdr)
}

func (r wireBounds) ok() bool { return !r.panicked && r.err == nil }

func wireInRange(f iprotobuf.FieldBounds, n int) bool {
	return 0 <= f.From && f.From <= f.ValueFrom && f.ValueFrom <= f.To && f.To <= n
}

type wireField struct{ num, wt, from, vfrom, to int }

// wireTop runs protobuf-go's real message loop on b (all fields unknown) and, when it accepts, lists the fields.
func wireTop(b []byte) (string, []wireField, bool) {
	if proto.Unmarshal(b, new(emptypb.Empty)) != nil {
		return "err", nil, false
	}
	var fs []wireField
	off := 0
	for off < len(b) {
		num, typ, n := protowire.ConsumeTag(b[off:])
		if n < 0 {
			return "walk-mismatch", nil, false
		}
		m := protowire.ConsumeFieldValue(num, typ, b[off+n:])
		if m < 0 {
			return "walk-mismatch", nil, false
		}
		vf := off + n
		if typ == protowire.BytesType {
			_, k := protowire.ConsumeVarint(b[off+n:])
			vf += k
		}
		fs = append(fs, wireField{int(num), int(typ), off, vf, off + n + m})
		off += n + m
	}
	var sb strings.Builder
	fmt.Fprintf(&sb, "ok:%d:", len(fs))
	if len(fs) == 0 {
		sb.WriteString("-")
	}
	for i, f := range fs {
		if i > 0 {
			sb.WriteByte(',')
		}
		fmt.Fprintf(&sb, "%d.%d.%d.%d.%d", f.num, f.wt, f.from, f.vfrom, f.to)
	}
	return sb.String(), fs, true
}

// wireCbad records the answers of proto.Unmarshal for the values ExtractHeaderAndPayload would hand to it.
func wireCbad(b []byte) []int {
	var bad []int
	off := 0
	for off < len(b) {
		num, typ, n := protowire.ConsumeTag(b[off:])
		if n < 0 || typ != protowire.BytesType || num == protoobject.FieldObjectPayload {
			break
		}
		v, m := protowire.ConsumeBytes(b[off+n:])
		if m < 0 {
			break
		}
		var msg proto.Message
		switch num {
		case protoobject.FieldObjectID:
			msg = new(refs.ObjectID)
		case protoobject.FieldObjectSignature:
			msg = new(refs.Signature)
		case protoobject.FieldObjectHeader:
			msg = new(protoobject.Header)
		}
		if msg == nil {
			break
		}
		if proto.Unmarshal(v, msg) != nil {
			bad = append(bad, off+n+m-len(v))
			break
		}
		off += n + m
	}
	return bad
}

type wireEHP struct {
	obj      *object.Object
	rest     []byte
	err      error
	panicked bool
}

func wireCallEHP(b []byte) (r wireEHP) {
	defer func() {
		if p := recover(); p != nil {
			r = wireEHP{panicked: true}
		}
	}()
	r.obj, r.rest, r.err = verifbridge.WireExtractHeaderAndPayload(bytes.Clone(b))
	return
}

// class of the outcome and the sem hint
func (r wireEHP) class(n int) (string, int) {
	if r.panicked {
		return "panic", 0
	}
	if r.err != nil {
		s := r.err.Error()
		switch {
		case s == "empty data":
			return "empty", 0
		case strings.HasPrefix(s, "unmarshal object ID"):
			return "content1", 0
		case strings.HasPrefix(s, "unmarshal object signature"):
			return "content2", 0
		case strings.HasPrefix(s, "unmarshal object header"):
			return "content3", 0
		case strings.HasPrefix(s, "invalid tag at offset"), strings.HasPrefix(s, "unexpected wire type"),
			strings.HasPrefix(s, "invalid varint at offset"), strings.HasPrefix(s, "invalid bytes field at offset"),
			strings.HasPrefix(s, "unknown field number"):
			return "wire", 0
		}
		return "sem", 1
	}
	id := "-"
	if oid := r.obj.GetID(); !oid.IsZero() {
		id = hex.EncodeToString(oid[:])
	}
	return fmt.Sprintf("ok:%d:%s", n-len(r.rest), id), 0
}

func wireNatRes(v uint64, err error) string {
	if err != nil {
		return wireErrClass(err)
	}
	return "ok:" + strconv.FormatUint(v, 10)
}

func wireCallU64(f func([]byte) (uint64, error), b []byte) (s string, v uint64, ok bool) {
	defer func() {
		if p := recover(); p != nil {
			s, ok = "panic", false
		}
	}()
	v, err := f(b)
	return wireNatRes(v, err), v, err == nil
}

func wireTypeHeader(b []byte) (uint64, error) {
	t, err := verifbridge.WireGetTypeHeader(b)
	return uint64(uint32(t)), err
}

// ---------- the object-level op ----------

type wireObjRes struct {
	top    string
	fields []wireField
	topOK  bool
	np     wireBounds
	par    wireBounds
	ehp    wireEHP
}

func wireRunObj(c *runCtx, b []byte) (wireObjRes, string, string) {
	var r wireObjRes
	r.top, r.fields, r.topOK = wireTop(b)
	r.np = wireCallBounds(verifbridge.WireGetNonPayloadFieldBounds, b)
	r.par = wireCallBounds(verifbridge.WireGetParentNonPayloadFieldBounds, b)
	r.ehp = wireCallEHP(b)
	ecls, sem := r.ehp.class(len(b))
	hints := fmt.Sprintf("cbad=%s sem=%d", joinInts(wireCbad(b)), sem)
	obs := fmt.Sprintf("=> top=%s np=%s par=%s ehp=%s", r.top, r.np, r.par, ecls)
	c.count("np:" + strings.SplitN(r.np.String(), ":", 2)[0])
	c.count("par:" + strings.SplitN(r.par.String(), ":", 2)[0])
	c.count("ehp:" + strings.SplitN(ecls, ":", 2)[0])
	c.count("top:" + strings.SplitN(r.top, ":", 2)[0])
	return r, hints, obs
}

func wireSlice(b []byte, f iprotobuf.FieldBounds) []byte { return b[f.ValueFrom:f.To] }

func wireLate(fs []wireField, stop int) bool {
	for _, f := range fs {
		if f.from >= stop && f.wt == 2 && f.num >= 1 && f.num <= 3 {
			return true
		}
	}
	return false
}

// wireObjOracle evaluates the property on the implementation's own answers for byte string b.
func wireObjOracle(c *runCtx, b []byte, r wireObjRes) {
	d := func(s string) string { return clip(s + " b=" + hex.EncodeToString(b)) }
	c.oracle("fast-paths-never-panic", !r.np.panicked && !r.par.panicked && !r.ehp.panicked, d("panic"))
	if r.np.ok() {
		c.oracle("bounds-in-range", wireInRange(r.np.id, len(b)) && wireInRange(r.np.sig, len(b)) && wireInRange(r.np.hdr, len(b)), d("np "+r.np.String()))
	}
	if r.par.ok() {
		c.oracle("bounds-in-range", wireInRange(r.par.id, len(b)) && wireInRange(r.par.sig, len(b)) && wireInRange(r.par.hdr, len(b)), d("par "+r.par.String()))
	}
	if r.ehp.err == nil && !r.ehp.panicked {
		c.oracle("bounds-in-range", len(r.ehp.rest) <= len(b), d("ehp rest"))
	}
	var full object.Object
	if full.Unmarshal(b) != nil {
		return
	}
	c.count("full:ok")
	c.oracle("full-decode-implies-wire-level-ok", r.topOK, d("object.Unmarshal accepts, protobuf loop on unknown fields refuses"))
	pm := full.ProtoMessage()
	canonical := bytes.Equal(full.Marshal(), b)
	if !canonical {
		// what the full decoder's wire stage yields (FromProtoMessage/ProtoMessage drop empty messages)
		pm = new(protoobject.Object)
		if proto.Unmarshal(b, pm) != nil {
			return
		}
	}
	eqMsg := func(f iprotobuf.FieldBounds, m stableMsg, isNil bool) bool {
		if isNil {
			return f.IsMissing()
		}
		return !f.IsMissing() && bytes.Equal(wireSlice(b, f), wireMarshal(m))
	}
	// semantic comparison for non-canonical encodings
	semEq := func(f iprotobuf.FieldBounds, fresh, want proto.Message, isNil bool) bool {
		if isNil {
			return f.IsMissing()
		}
		if f.IsMissing() {
			return false
		}
		return proto.Unmarshal(wireSlice(b, f), fresh) == nil && proto.Equal(fresh, want)
	}
	if canonical {
		c.count("full:canonical")
		c.nontrivial(hex.EncodeToString(b))
		ok := r.np.ok() && eqMsg(r.np.id, pm.ObjectId, pm.ObjectId == nil) && eqMsg(r.np.sig, pm.Signature, pm.Signature == nil) &&
			eqMsg(r.np.hdr, pm.Header, pm.Header == nil)
		if len(b) == 0 {
			ok = r.np.err != nil // the empty object: the fast paths answer "empty data" by contract
		}
		c.oracle("canonical-encoding-bounds-equal-full-decode", ok, d("np="+r.np.String()))
		// header-level getters on the header the full decoder sees
		if pm.Header != nil && r.np.ok() && !r.np.hdr.IsMissing() {
			hb := wireSlice(b, r.np.hdr)
			_, pl, ok1 := wireCallU64(verifbridge.WireGetPayloadLengthHeader, hb)
			_, ty, ok2 := wireCallU64(wireTypeHeader, hb)
			c.oracle("canonical-payload-length-and-type-equal-full-decode", ok1 && ok2 && pl == pm.Header.PayloadLength && ty == uint64(pm.Header.ObjectType),
				d(fmt.Sprintf("plen=%d/%d typ=%d/%d", pl, pm.Header.PayloadLength, ty, pm.Header.ObjectType)))
		}
		// parent fields
		var pid *refs.ObjectID
		var psig *refs.Signature
		var phdr *protoobject.Header
		if pm.Header != nil && pm.Header.Split != nil {
			pid, psig, phdr = pm.Header.Split.Parent, pm.Header.Split.ParentSignature, pm.Header.Split.ParentHeader
		}
		if len(b) > 0 {
			okp := r.par.ok() && eqMsg(r.par.id, pid, pid == nil) && eqMsg(r.par.sig, psig, psig == nil) && eqMsg(r.par.hdr, phdr, phdr == nil)
			c.oracle("canonical-encoding-parent-bounds-equal-full-decode", okp, d("par="+r.par.String()))
			// ExtractHeaderAndPayload: same header object, payload prefix = payload
			oke := r.ehp.err == nil && !r.ehp.panicked && bytes.Equal(r.ehp.obj.Marshal(), full.CutPayload().Marshal()) &&
				bytes.Equal(r.ehp.rest, full.Payload())
			c.oracle("canonical-encoding-extract-equals-full-decode", oke, d(fmt.Sprintf("ehp err=%v", r.ehp.err)))
		}
		return
	}
	c.count("full:noncanonical")
	// non-canonical but accepted by the full decoder: a fast path that answers may differ only when a LEN field
	// 1..3 stands after the point where its scan stops (the class proved in Props/C41: late fields)
	if r.np.ok() {
		same := semEq(r.np.id, new(refs.ObjectID), pm.ObjectId, pm.ObjectId == nil) &&
			semEq(r.np.sig, new(refs.Signature), pm.Signature, pm.Signature == nil) &&
			semEq(r.np.hdr, new(protoobject.Header), pm.Header, pm.Header == nil)
		stop := len(b)
		if !r.np.hdr.IsMissing() {
			stop = r.np.hdr.To
		} else {
			for _, f := range r.fields {
				if f.num > 3 {
					stop = f.from
					break
				}
			}
		}
		if !same {
			c.count("np:disagree-late")
		}
		c.oracle("noncanonical-disagreement-only-with-late-fields", same || wireLate(r.fields, stop), d("np="+r.np.String()))
	}
	// ExtractHeaderAndPayload replaces (the full decoder merges) repeated fields and returns everything after the
	// payload length as payload prefix: it may differ from the full decode only when a field 1..3 is repeated before
	// the payload or anything follows the first payload field
	if r.ehp.err == nil && !r.ehp.panicked {
		same := bytes.Equal(r.ehp.obj.Marshal(), full.CutPayload().Marshal()) && bytes.Equal(r.ehp.rest, full.Payload())
		seen := map[int]bool{}
		class := false
		for i, f := range r.fields {
			if f.num == 4 && f.wt == 2 {
				class = class || i != len(r.fields)-1
				break
			}
			class = class || seen[f.num]
			seen[f.num] = true
		}
		if !same {
			c.count("ehp:disagree-dup-or-late")
		}
		c.oracle("noncanonical-extract-disagreement-only-with-repeated-or-late-fields", same || class, d("ehp"))
	}
}

// ---------- exec ----------

func wireExec(c *runCtx, ops []string) {
	c.independent = true
	for _, line := range ops {
		o := parseOp(line)
		c.count("op:" + o.name)
		switch o.name {
		case "consts":
			c.emit("wire consts", fmt.Sprintf("=> ok obj=%d,%d,%d,%d hdr=%d,%d,%d split=%d,%d,%d,%d",
				protoobject.FieldObjectID, protoobject.FieldObjectSignature, protoobject.FieldObjectHeader, protoobject.FieldObjectPayload,
				protoobject.FieldHeaderPayloadLength, protoobject.FieldHeaderObjectType, protoobject.FieldHeaderSplit,
				protoobject.FieldHeaderSplitParent, protoobject.FieldHeaderSplitPrevious, protoobject.FieldHeaderSplitParentSignature,
				protoobject.FieldHeaderSplitParentHeader))
		case "obj":
			b := wireUnhex(o.kv["b"])
			r, hints, obs := wireRunObj(c, b)
			c.emit("wire obj b="+wireHex(b)+" "+hints, obs)
			wireObjOracle(c, b, r)
		case "trunc":
			full := wireUnhex(o.kv["b"])
			at := o.int("at")
			if at > len(full) {
				at = len(full)
			}
			b := full[:at]
			r, hints, obs := wireRunObj(c, b)
			c.emit(fmt.Sprintf("wire trunc b=%s at=%d %s", wireHex(full), at, hints), obs)
			wireObjOracle(c, b, r)
			wireTruncOracle(c, full, at, r)
		case "hdr":
			b := wireUnhex(o.kv["b"])
			top, _, _ := wireTop(b)
			ps, pl, pok := wireCallU64(verifbridge.WireGetPayloadLengthHeader, b)
			ts, ty, tok := wireCallU64(wireTypeHeader, b)
			parh := wireCallBounds(verifbridge.WireGetParentNonPayloadFieldBoundsHeader, b)
			c.emit("wire hdr b="+wireHex(b), fmt.Sprintf("=> top=%s plen=%s typ=%s parh=%s", top, ps, ts, parh))
			c.count("plen:" + strings.SplitN(ps, ":", 2)[0])
			c.count("parh:" + strings.SplitN(parh.String(), ":", 2)[0])
			d := clip("b=" + hex.EncodeToString(b))
			c.oracle("fast-paths-never-panic", ps != "panic" && ts != "panic" && !parh.panicked, d)
			if parh.ok() {
				c.oracle("bounds-in-range", wireInRange(parh.id, len(b)) && wireInRange(parh.sig, len(b)) && wireInRange(parh.hdr, len(b)), d)
			}
			var h protoobject.Header
			if proto.Unmarshal(b, &h) == nil && bytes.Equal(wireMarshal(&h), b) && len(b) > 0 {
				c.count("hdr:canonical")
				c.nontrivial("h" + hex.EncodeToString(b))
				c.oracle("canonical-payload-length-and-type-equal-full-decode", pok && tok && pl == h.PayloadLength && ty == uint64(uint32(h.ObjectType)),
					fmt.Sprintf("plen=%s typ=%s %s", ps, ts, d))
				var pid *refs.ObjectID
				var psig *refs.Signature
				var phdr *protoobject.Header
				if h.Split != nil {
					pid, psig, phdr = h.Split.Parent, h.Split.ParentSignature, h.Split.ParentHeader
				}
				eq := func(f iprotobuf.FieldBounds, m stableMsg, isNil bool) bool {
					if isNil {
						return f.IsMissing()
					}
					return !f.IsMissing() && bytes.Equal(b[f.ValueFrom:f.To], wireMarshal(m))
				}
				c.oracle("canonical-encoding-parent-bounds-equal-full-decode",
					parh.ok() && eq(parh.id, pid, pid == nil) && eq(parh.sig, psig, psig == nil) && eq(parh.hdr, phdr, phdr == nil), "parh="+parh.String()+" "+d)
			}
		case "varint":
			b := wireUnhex(o.kv["b"])
			v, n := protowire.ConsumeVarint(b)
			switch {
			case n > 0:
				c.emit("wire varint b="+wireHex(b), fmt.Sprintf("=> ok v=%d n=%d", v, n))
				// canonical-encoding oracle: re-encoding is never longer and decodes to the same value
				re := protowire.AppendVarint(nil, v)
				v2, n2 := protowire.ConsumeVarint(re)
				c.oracle("varint-reencode-roundtrip", v2 == v && n2 == len(re) && len(re) <= n, fmt.Sprintf("b=%x", b))
			case protowire.ParseError(n) != nil && strings.Contains(protowire.ParseError(n).Error(), "overflow"):
				c.emit("wire varint b="+wireHex(b), "=> overflow")
			default:
				c.emit("wire varint b="+wireHex(b), "=> trunc")
			}
		case "uv":
			v := o.u64("v")
			c.emit(fmt.Sprintf("wire uv v=%d", v), "=> ok b="+hex.EncodeToString(protowire.AppendVarint(nil, v)))
		default:
			c.emit(line, "=> bad-op")
		}
	}
}

// wireTruncOracle: answers on a prefix of a canonical encoding never contradict the answers on the whole encoding.
func wireTruncOracle(c *runCtx, full []byte, at int, r wireObjRes) {
	var fo object.Object
	if fo.Unmarshal(full) != nil || !bytes.Equal(fo.Marshal(), full) {
		return
	}
	whole := wireCallBounds(verifbridge.WireGetNonPayloadFieldBounds, full)
	d := clip(fmt.Sprintf("at=%d prefix=%s whole=%s b=%x", at, r.np, whole, full))
	if r.np.ok() && whole.ok() {
		same := func(p, w iprotobuf.FieldBounds) bool { return p.IsMissing() || p == w }
		c.oracle("truncation-answers-consistent-with-whole", same(r.np.id, whole.id) && same(r.np.sig, whole.sig) && same(r.np.hdr, whole.hdr), d)
	}
	if r.ehp.err == nil && !r.ehp.panicked {
		pl := fo.Payload()
		okp := len(r.ehp.rest) <= len(pl) && bytes.Equal(r.ehp.rest, pl[:len(r.ehp.rest)])
		// the header object is the whole one's whenever the prefix still holds the header field
		if whole.ok() && !whole.hdr.IsMissing() && at >= whole.hdr.To {
			okp = okp && bytes.Equal(r.ehp.obj.Marshal(), fo.CutPayload().Marshal())
		}
		c.oracle("truncation-answers-consistent-with-whole", okp, "ehp "+d)
	}
}

// ---------- generation ----------

func wireLEN(num int, v []byte) []byte {
	b := protowire.AppendTag(nil, protowire.Number(num), protowire.BytesType)
	b = protowire.AppendVarint(b, uint64(len(v)))
	return append(b, v...)
}

// wirePieces splits a well-formed message into its top-level fields (raw bytes).
func wirePieces(b []byte) [][]byte {
	var ps [][]byte
	for len(b) > 0 {
		_, _, n := protowire.ConsumeField(b)
		if n < 0 {
			return append(ps, b)
		}
		ps = append(ps, b[:n])
		b = b[n:]
	}
	return ps
}

func wireJoin(ps [][]byte) []byte {
	var b []byte
	for _, p := range ps {
		b = append(b, p...)
	}
	return b
}

// unknown / ill-typed fields of every wire type
var wireOdd = [][]byte{
	{0x28, 0x01},                         // #5 varint
	{0x28, 0x80, 0x00},                   // #5 varint, over-long
	{0x29, 1, 2, 3, 4, 5, 6, 7, 8},       // #5 fixed64
	{0x2a, 0x01, 0x00},                   // #5 LEN
	{0x2a, 0x00},                         // #5 LEN empty
	{0x2b, 0x2c},                         // #5 group, empty
	{0x2b, 0x08, 0x01, 0x2c},             // #5 group with a varint inside
	{0x2b, 0x33, 0x34, 0x2c},             // #5 group with nested group #6
	{0x2b, 0x34},                         // #5 group closed by #6
	{0x2c},                               // lone end group
	{0x2d, 1, 2, 3, 4},                   // #5 fixed32
	{0x2e},                               // wire type 6
	{0x2f},                               // wire type 7
	{0x08, 0x01},                         // #1 as varint
	{0x1d, 1, 2, 3, 4},                   // #3 as fixed32
	{0x13, 0x14},                         // #2 as group
	{0x0a, 0x00},                         // #1 LEN empty
	{0x1a, 0x00},                         // #3 LEN empty
	{0x22, 0x00},                         // #4 LEN empty
	{0xc2, 0xa3, 0x09, 0x00},             // #19000 (reserved) LEN empty
	{0x82, 0xe2, 0x09, 0x00},             // #20000 LEN empty
	{0xfa, 0xff, 0xff, 0xff, 0x0f, 0x00}, // #2^29-1 LEN empty
	{0x82, 0x80, 0x80, 0x80, 0x10, 0x00}, // #2^29 LEN empty (beyond MaxValidNumber)
	{0x00},                               // number 0
	{0x8a, 0x00, 0x00},                   // tag 0x0a over-long, empty
	{0x5a, 0x00},                         // #11 LEN empty (empty split inside a header)
}

func wireHugeLens() [][]byte {
	var out [][]byte
	for _, v := range []uint64{1 << 31, math.MaxInt64, 1 << 63, math.MaxUint64, 1 << 14, 127, 128} {
		out = append(out, protowire.AppendVarint(nil, v))
	}
	out = append(out, []byte{0xff, 0xff, 0xff, 0xff, 0xff, 0xff, 0xff, 0xff, 0xff, 0x02}, // overflow
		[]byte{0x80, 0x80, 0x80, 0x80, 0x80, 0x80, 0x80, 0x80, 0x80, 0x01}, // 2^63 in 10 bytes
		[]byte{0x80, 0x80, 0x80, 0x80, 0x80, 0x80, 0x80, 0x80, 0x80, 0x00}, // 0 in 10 bytes
		[]byte{0x80, 0x80}) // truncated
	return out
}

// wireGenObject builds a random valid object; hdrTarget > 0 pads the header to exactly that many bytes.
func wireGenObject(c *runCtx, hdrTarget int, withParent bool) *object.Object {
	r := c.rng
	pl := detPayload([]int{0, 0, 1, 5, 127, 128, 300}[r.IntN(7)], r.IntN(250))
	obj := mkObject(1+r.IntN(3), 1+r.IntN(12), pl)
	if r.IntN(5) == 0 {
		obj.ResetID()
	}
	if r.IntN(4) != 0 {
		sig := neofscrypto.NewSignatureFromRawKey(neofscrypto.Scheme(r.IntN(4)), detPayload(33, r.IntN(99)), detPayload(64+r.IntN(2), r.IntN(99)))
		obj.SetSignature(&sig)
	}
	obj.SetType(object.Type(r.IntN(5)))
	if r.IntN(3) == 0 {
		obj.SetPayloadSize(uint64(r.IntN(1 << 20)))
	}
	if r.IntN(6) == 0 {
		obj.SetPayloadSize(math.MaxUint64 - uint64(r.IntN(3)))
	}
	obj.SetCreationEpoch(uint64(r.IntN(300)))
	if withParent {
		par := mkObject(1, 20+r.IntN(5), nil)
		par.SetPayloadSize(uint64(r.IntN(100000)))
		par.SetAttributes(object.NewAttribute("k", strings.Repeat("p", r.IntN(200))))
		switch r.IntN(4) {
		case 0:
			par.ResetID()
		case 1:
			psig := neofscrypto.NewSignatureFromRawKey(neofscrypto.ECDSA_SHA512, detPayload(33, 3), detPayload(64, 4))
			par.SetSignature(&psig)
		case 2:
			psig := neofscrypto.NewSignatureFromRawKey(neofscrypto.ECDSA_SHA512, detPayload(33, 3), detPayload(64, 4))
			par.SetSignature(&psig)
			if r.IntN(2) == 0 {
				obj.SetPreviousID(numOID(30 + r.IntN(3)))
			}
		}
		obj.SetParent(par)
		if r.IntN(3) == 0 {
			obj.SetFirstID(numOID(40))
		}
	} else if r.IntN(5) == 0 {
		// split without a parent header
		obj.SetPreviousID(numOID(31))
		if r.IntN(2) == 0 {
			obj.SetParentID(numOID(21))
		}
	}
	if r.IntN(2) == 0 {
		obj.SetAttributes(object.NewAttribute("a", strings.Repeat("x", r.IntN(40))), object.NewAttribute("bb", "y"))
	}
	if hdrTarget > 0 {
		attrs := obj.Attributes()
		pad := hdrTarget - obj.HeaderLen() - 8
		for try := 0; try < 12 && pad >= 0; try++ {
			obj.SetAttributes(append(append([]object.Attribute(nil), attrs...), object.NewAttribute("pad", strings.Repeat("z", pad)))...)
			if diff := hdrTarget - obj.HeaderLen(); diff == 0 {
				break
			} else {
				pad += diff
			}
		}
	}
	return obj
}

func wireGen(c *runCtx, run func([]string)) {
	r := c.rng
	var ops []string
	flush := func() {
		if len(ops) > 0 {
			run(ops)
			ops = nil
		}
	}
	obj := func(b []byte) { ops = append(ops, "wire obj b="+wireHex(b)) }
	hdr := func(b []byte) { ops = append(ops, "wire hdr b="+wireHex(b)) }
	trunc := func(b []byte, at int) { ops = append(ops, fmt.Sprintf("wire trunc b=%s at=%d", wireHex(b), at)) }
	ops = append(ops, "wire consts")

	// --- varints: value boundaries, over-long and overflowing encodings, truncations
	for _, sh := range []uint{0, 7, 14, 21, 28, 35, 42, 49, 56, 63} {
		for _, dlt := range []int64{-1, 0, 1} {
			v := uint64(1)<<sh + uint64(dlt)
			ops = append(ops, fmt.Sprintf("wire uv v=%d", v))
			e := protowire.AppendVarint(nil, v)
			ops = append(ops, "wire varint b="+wireHex(e))
			for k := 0; k < len(e); k++ {
				ops = append(ops, "wire varint b="+wireHex(e[:k]))
			}
			// over-long: continuation bit on the last byte, then zero bytes
			ol := bytes.Clone(e)
			for len(ol) < 11 {
				ol[len(ol)-1] |= 0x80
				ol = append(ol, 0)
				ops = append(ops, "wire varint b="+wireHex(ol))
			}
		}
	}
	ops = append(ops, fmt.Sprintf("wire uv v=%d", uint64(math.MaxUint64)), "wire uv v=0")
	for _, last := range []byte{0, 1, 2, 3, 0x7f, 0x80, 0x81, 0xff} {
		b := bytes.Repeat([]byte{0xff}, 9)
		ops = append(ops, "wire varint b="+wireHex(append(b, last)), "wire varint b="+wireHex(append(append(b, last), 0x01)))
	}
	for i := 0; i < c.n(300, 3000); i++ {
		n := 1 + r.IntN(11)
		b := make([]byte, n)
		for j := range b {
			b[j] = byte(r.IntN(256))
			if r.IntN(3) != 0 {
				b[j] |= 0x80
			}
		}
		ops = append(ops, "wire varint b="+wireHex(b))
	}
	flush()

	// --- short byte strings from an alphabet of interesting bytes (dense: every string up to length 3, samples up to 9)
	alpha := []byte{0x00, 0x01, 0x02, 0x08, 0x0a, 0x0b, 0x0c, 0x12, 0x1a, 0x22, 0x2a, 0x5a, 0x7f, 0x80, 0xff}
	obj(nil)
	hdr(nil)
	for _, a := range alpha {
		obj([]byte{a})
		hdr([]byte{a})
		for _, b := range alpha {
			obj([]byte{a, b})
			hdr([]byte{a, b})
			if a == 0x0a || a == 0x12 || a == 0x1a || a == 0x22 || a == 0x5a || a == 0x0b {
				for _, d := range alpha {
					obj([]byte{a, b, d})
					hdr([]byte{a, b, d})
				}
			}
		}
	}
	for i := 0; i < c.n(1500, 30000); i++ {
		n := 3 + r.IntN(8)
		b := make([]byte, n)
		for j := range b {
			b[j] = alpha[r.IntN(len(alpha))]
		}
		if i%2 == 0 {
			obj(b)
		} else {
			hdr(b)
		}
	}
	flush()

	// --- canonical objects and everything derived from them
	type tgt struct {
		hdrLen int
		parent bool
	}
	targets := []tgt{{0, false}, {0, true}, {0, false}, {0, true}}
	for _, l := range []int{126, 127, 128, 129} {
		targets = append(targets, tgt{l, false})
	}
	for _, l := range []int{400, 16383, 16384, 16385} {
		targets = append(targets, tgt{l, l == 400})
	}
	for i := 0; i < c.n(10, 200); i++ {
		targets = append(targets, tgt{0, r.IntN(2) == 0})
	}
	odd := append([][]byte(nil), wireOdd...)
	for ti, t := range targets {
		o := wireGenObject(c, t.hdrLen, t.parent)
		enc := o.Marshal()
		big := len(enc) > 2000
		obj(enc)
		// header-only form written by WriteWithoutPayload (payload tag + length, no payload bytes)
		var wb bytes.Buffer
		_ = verifbridge.WireWriteWithoutPayload(&wb, *o)
		obj(wb.Bytes())
		pm := o.ProtoMessage()
		var hb, phb []byte
		if pm.Header != nil {
			hb = wireMarshal(pm.Header)
			hdr(hb)
			if pm.Header.Split != nil && pm.Header.Split.ParentHeader != nil {
				phb = wireMarshal(pm.Header.Split.ParentHeader)
				hdr(phb)
			}
		}
		// truncations
		if !big {
			for at := 0; at <= len(enc); at++ {
				trunc(enc, at)
			}
			for at := 0; at < len(hb); at += 1 + r.IntN(3) {
				hdr(hb[:at])
			}
		} else {
			for at := 0; at < 120; at++ {
				trunc(enc, at)
			}
			for k := 0; k < 40; k++ {
				trunc(enc, r.IntN(len(enc)+1))
			}
			for at := len(enc) - 5; at <= len(enc); at++ {
				trunc(enc, at)
			}
		}
		if big && ti%2 == 1 {
			flush()
			continue
		}
		ps := wirePieces(enc)
		// permutations of the top-level fields
		var perm func(k int, cur [][]byte, used []bool)
		perm = func(k int, cur [][]byte, used []bool) {
			if k == len(ps) {
				obj(wireJoin(cur))
				return
			}
			for i := range ps {
				if !used[i] {
					used[i] = true
					perm(k+1, append(cur, ps[i]), used)
					used[i] = false
				}
			}
		}
		if !big {
			perm(0, nil, make([]bool, len(ps)))
		}
		// duplicated fields, odd fields at every position, dropped fields
		for pos := 0; pos <= len(ps); pos++ {
			ins := func(x []byte) {
				q := append(append(append([][]byte(nil), ps[:pos]...), x), ps[pos:]...)
				obj(wireJoin(q))
			}
			for j := range ps {
				if !big || len(ps[j]) < 200 {
					ins(ps[j])
				}
			}
			for _, x := range odd {
				ins(x)
			}
			if pos < len(ps) {
				q := append(append([][]byte(nil), ps[:pos]...), ps[pos+1:]...)
				obj(wireJoin(q))
			}
		}
		// a second, different header / id after the payload and before it
		if pm.Header != nil {
			h2 := proto.Clone(pm.Header).(*protoobject.Header)
			h2.PayloadLength = 777
			h2.CreationEpoch = 0
			x := wireLEN(3, wireMarshal(h2))
			obj(append(bytes.Clone(enc), x...))
			obj(append(bytes.Clone(x), enc...))
			obj(append(bytes.Clone(enc), wireLEN(1, wireMarshal(numOIDMsg(9)))...))
		}
		// lengths and tags rewritten: oversized, over-long, overflowing
		for j := range ps {
			_, _, tn := protowire.ConsumeTag(ps[j])
			_, ln := protowire.ConsumeVarint(ps[j][tn:])
			if ln < 0 {
				continue
			}
			for _, hl := range wireHugeLens() {
				q := append([][]byte(nil), ps...)
				q[j] = append(append(bytes.Clone(ps[j][:tn]), hl...), ps[j][tn+ln:]...)
				obj(wireJoin(q))
			}
			// over-long tag and over-long length
			q := append([][]byte(nil), ps...)
			q[j] = append([]byte{ps[j][0] | 0x80, 0x00}, ps[j][1:]...)
			obj(wireJoin(q))
			olen := bytes.Clone(ps[j][tn : tn+ln])
			olen[len(olen)-1] |= 0x80
			olen = append(olen, 0x00)
			q = append([][]byte(nil), ps...)
			q[j] = append(append(bytes.Clone(ps[j][:tn]), olen...), ps[j][tn+ln:]...)
			obj(wireJoin(q))
			// off-by-one lengths on the last field
			if j == len(ps)-1 {
				for _, dl := range []int{-1, 1} {
					v, _ := protowire.ConsumeVarint(ps[j][tn:])
					q = append([][]byte(nil), ps...)
					q[j] = append(protowire.AppendVarint(bytes.Clone(ps[j][:tn]), uint64(int(v)+dl)), ps[j][tn+ln:]...)
					obj(wireJoin(q))
				}
			}
		}
		// every top-level field with every other wire type in its tag (the field number is kept)
		for j := range ps {
			if len(ps[j]) == 0 {
				continue
			}
			for w := byte(0); w < 8; w++ {
				if ps[j][0]&7 == w {
					continue
				}
				q := append([][]byte(nil), ps...)
				q[j] = bytes.Clone(ps[j])
				q[j][0] = q[j][0]&^7 | w
				obj(wireJoin(q))
			}
		}
		// single-byte mutations (header region dense, then sampled)
		nm := c.n(250, 2500)
		if big {
			nm = 60
		}
		for k := 0; k < nm; k++ {
			m := bytes.Clone(enc)
			i := r.IntN(len(m))
			if big && r.IntN(2) == 0 {
				i = r.IntN(100)
			}
			switch r.IntN(6) {
			case 0:
				m[i] ^= 0x01
			case 1:
				m[i] ^= 0x80
			case 2:
				m[i] = 0
			case 3:
				m[i] = 0xff
			case 4:
				m[i] = byte(r.IntN(256))
			case 5:
				m[i] = alpha[r.IntN(len(alpha))]
			}
			obj(m)
		}
		// header-level structure: permuted / duplicated / odd fields inside the header, also wrapped back into an object
		if hb != nil && !big {
			hps := wirePieces(hb)
			wrap := func(h []byte) {
				hdr(h)
				var q []byte
				if pm.ObjectId != nil {
					q = append(q, wireLEN(1, wireMarshal(pm.ObjectId))...)
				}
				q = append(q, wireLEN(3, h)...)
				if len(pm.Payload) > 0 {
					q = append(q, wireLEN(4, pm.Payload)...)
				}
				obj(q)
			}
			for k := 0; k < c.n(40, 400); k++ {
				q := append([][]byte(nil), hps...)
				switch r.IntN(5) {
				case 0:
					i, j := r.IntN(len(q)), r.IntN(len(q))
					q[i], q[j] = q[j], q[i]
				case 1:
					i, pos := r.IntN(len(q)), r.IntN(len(q)+1)
					q = append(append(append([][]byte(nil), q[:pos]...), hps[i]), q[pos:]...)
				case 2:
					pos := r.IntN(len(q) + 1)
					q = append(append(append([][]byte(nil), q[:pos]...), odd[r.IntN(len(odd))]), q[pos:]...)
				case 3:
					i := r.IntN(len(q))
					q = append(append([][]byte(nil), q[:i]...), q[i+1:]...)
				case 4:
					// the same inside the split message
					for i := range q {
						num, _, tn := protowire.ConsumeTag(q[i])
						if num != protoobject.FieldHeaderSplit {
							continue
						}
						sv, sn := protowire.ConsumeBytes(q[i][tn:])
						if sn < 0 {
							continue
						}
						sps := wirePieces(sv)
						if len(sps) == 0 {
							continue
						}
						switch r.IntN(4) {
						case 0:
							a, b := r.IntN(len(sps)), r.IntN(len(sps))
							sps[a], sps[b] = sps[b], sps[a]
						case 1:
							pos := r.IntN(len(sps) + 1)
							sps = append(append(append([][]byte(nil), sps[:pos]...), sps[r.IntN(len(sps))]), sps[pos:]...)
						case 2:
							pos := r.IntN(len(sps) + 1)
							sps = append(append(append([][]byte(nil), sps[:pos]...), odd[r.IntN(len(odd))]), sps[pos:]...)
						case 3:
							a := r.IntN(len(sps))
							sps = append(append([][]byte(nil), sps[:a]...), sps[a+1:]...)
						}
						q[i] = wireLEN(int(protoobject.FieldHeaderSplit), wireJoin(sps))
					}
				}
				wrap(wireJoin(q))
			}
			for k := 0; k < c.n(60, 600); k++ {
				m := bytes.Clone(hb)
				i := r.IntN(len(m))
				if r.IntN(2) == 0 {
					m[i] = byte(r.IntN(256))
				} else {
					m[i] = alpha[r.IntN(len(alpha))]
				}
				wrap(m)
			}
		}
		flush()
	}
}

func numOIDMsg(n int) *refs.ObjectID {
	id := numOID(n)
	return &refs.ObjectID{Value: id[:]}
}
