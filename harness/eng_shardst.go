package main

import (
	"bufio"
	"bytes"
	"errors"
	"fmt"
	"io"
	"os"
	"os/exec"
	"path/filepath"
	"sort"
	"strconv"
	"strings"
	"sync"
	"time"

	"github.com/nspcc-dev/bbolt"
	"github.com/nspcc-dev/neofs-node/pkg/local_object_storage/blobstor/common"
	"github.com/nspcc-dev/neofs-node/pkg/local_object_storage/blobstor/fstree"
	meta "github.com/nspcc-dev/neofs-node/pkg/local_object_storage/metabase"
	"github.com/nspcc-dev/neofs-node/pkg/local_object_storage/shard"
	"github.com/nspcc-dev/neofs-node/pkg/local_object_storage/writecache"
	"github.com/nspcc-dev/neofs-node/pkg/util/verifhook"
	apistatus "github.com/nspcc-dev/neofs-sdk-go/client/status"
	"github.com/nspcc-dev/neofs-sdk-go/object"
	oid "github.com/nspcc-dev/neofs-sdk-go/object/id"
)

// Engine shardst: one REAL shard (with and without write-cache) driven synchronously, op by op; an op line
// carrying crash=K is executed by a child process (this binary, engine shardst-child) that opens the shard on
// the same directory, runs the op and exits inside the K-th verifhook point (a real process crash: the bolt
// file, the blob files and the cache files stay as they are); the parent reopens the shard and observes.
// Serves C15 (everything listed as available is readable) and C09 (nothing removed becomes readable again).

func init() {
	engines["shardst"] = seqRunner{gen: ssGen, exec: ssExec}.engine()
	engines["shardst-child"] = func(c *runCtx) error { ssChild(); return nil }
}

const ssMaxID = 12

// points that are not boundaries of persistent steps (schedule control only)
var ssNonStepPoints = map[string]bool{"wc.flush.afterRead": true}

// ssAfterRead, when set, runs once inside the flusher right after it has read the cache file.
var ssAfterRead func()

func ssSchedulePoint(name string) bool {
	if !ssNonStepPoints[name] {
		return false
	}
	if f := ssAfterRead; f != nil && name == "wc.flush.afterRead" {
		ssAfterRead = nil
		f()
	}
	return true
}

type ssHost struct {
	dir   string
	wc    bool
	ep    *epochSrc
	sh    *shard.Shard
	extra func(op string) // test hook of the parent: called inside wc.flush.afterRead (flush-vs-delete schedules)
}

var errSSParked = errors.New("background flushing is parked")

// ssParkFlusher keeps the write-cache's background scheduler from starting: objects leave the cache at the
// explicit flush ops only (a scheduler tick between two ops would make the run timing dependent).
// ssCrashPoints are the named points between the component steps the model knows; points other harness
// engines added to the same code paths (write-cache internals, file-tree system calls) are not counted.
var ssCrashPoints = map[string]bool{
	"shard.put.afterData": true, "shard.put.afterMeta": true, "shard.put.rollbackCache": true, "shard.put.rollbackBlob": true,
	"shard.delete.afterMeta": true, "shard.delete.afterCache": true, "shard.delete.afterBlob": true,
	"shard.mark.afterMeta": true, "shard.mark.afterCache": true,
	"wc.flush.afterRead": true, "wc.flush.afterMainPut": true, "wc.flush.afterCacheDelete": true,
	"meta.resync.afterReset": true,
}

func ssParkFlusher() {
	verifhook.SetFault(func(name string) error {
		if name == "wc.flush.scheduler" {
			return errSSParked
		}
		return nil
	})
}

func (h *ssHost) open() {
	ssParkFlusher()
	defer func() {
		// a shard that does not start is a finding about the history so far: make the history part of the report
		if r := recover(); r != nil {
			panic(fmt.Sprintf("%v\nshard does not start after: %s", r, strings.Join(ssCurSeq(), " ; ")))
		}
	}()
	h.sh = newShard(h.dir, shardCfg{wc: h.wc, epoch: h.ep, metaOpts: []meta.Option{meta.WithBoltDBOptions(ssBoltOpts())}, extra: []shard.Option{shard.WithContainerPayments(&payFake{disabled: true})}})
	h.sh.VerifHandleNewEpoch(h.ep.e.Load()) // the node announces the current epoch after a start
}

func (h *ssHost) close() {
	if h.sh != nil {
		if err := h.sh.Close(); err != nil {
			panic(err)
		}
		h.sh = nil
	}
}

func ssObject(o opLine) *object.Object {
	a := o.int("a")
	switch o.kv["k"] {
	case "reg":
		return mkObject(1, a, detPayload(o.int("p"), a))
	case "ts":
		obj := mkObject(1, a, nil)
		obj.AssociateDeleted(numOID(o.int("tg")))
		attrs := append(obj.Attributes(), object.NewAttribute(object.AttributeExpirationEpoch, o.kv["exp"]))
		obj.SetAttributes(attrs...)
		return obj
	}
	panic("bad object kind in " + fmt.Sprint(o.kv))
}

func ssOIDs(ids []int) []oid.ID {
	r := make([]oid.ID, len(ids))
	for i, x := range ids {
		r[i] = numOID(x)
	}
	return r
}

// blobOrder is the order in which the main storage hands its objects to a resync.
func ssBlobOrder(dir string) []int {
	fst := fstree.New(fstree.WithPath(filepath.Join(dir, "blob")), fstree.WithDepth(1), fstree.WithNoSync(true))
	if err := fst.Open(true); err != nil {
		panic(err)
	}
	defer fst.Close()
	if err := fst.Init(common.ID{}); err != nil {
		panic(err)
	}
	var order []int
	if err := fst.Iterate(func(a oid.Address, _ []byte) error {
		order = append(order, oidNum(a.Object()))
		return nil
	}, nil); err != nil {
		panic(err)
	}
	return order
}

// ssResync is what `neofs-lancet meta resync` does: the metabase is reset and refilled from the main storage
// (the shard is closed meanwhile).
func ssResync(dir string, ep *epochSrc) error {
	db := meta.New(meta.WithPath(filepath.Join(dir, "meta")), meta.WithPermissions(0o700), meta.WithEpochState(ep),
		meta.WithBoltDBOptions(ssBoltOpts()))
	if err := db.Open(false); err != nil {
		return err
	}
	defer db.Close()
	if err := db.Init(common.ID{}); err != nil {
		return err
	}
	fst := fstree.New(fstree.WithPath(filepath.Join(dir, "blob")), fstree.WithDepth(1), fstree.WithNoSync(true))
	if err := fst.Open(true); err != nil {
		return err
	}
	defer fst.Close()
	if err := fst.Init(common.ID{}); err != nil {
		return err
	}
	return db.ResyncFromBlobstor(fst, nil)
}

// run executes one operation to completion on the open shard; returns the result token.
func (h *ssHost) run(o opLine) string {
	switch o.name {
	case "put":
		obj := ssObject(o)
		err := h.sh.Put(obj, nil)
		switch {
		case err == nil:
			return "ok"
		case errors.Is(err, meta.ErrObjectIsExpired):
			return "expired"
		case errors.As(err, new(apistatus.ObjectAlreadyRemoved)):
			return "alreadyRemoved"
		default:
			return "other"
		}
	case "del":
		if err := h.sh.Delete(numCID(1), ssOIDs(o.ints("ids"))); err != nil {
			return "err"
		}
		return "ok"
	case "mark":
		m := meta.GarbageMarkDefault
		if o.kv["m"] == "r" {
			m = meta.GarbageMarkRedundant
		}
		if err := h.sh.MarkGarbage(numCID(1), ssOIDs(o.ints("ids")), m); err != nil {
			return "err"
		}
		return "ok"
	case "gc":
		h.sh.VerifRemoveGarbage()
		return "ok"
	case "flush":
		if c := h.sh.VerifWriteCache(); c != nil {
			if err := writecache.VerifFlushSingle(c, numAddr(1, o.int("a"))); err != nil {
				return "err"
			}
		}
		return "ok"
	case "flushdel":
		// a schedule, not a crash: the flusher has read the cache file when the object is deleted
		if c := h.sh.VerifWriteCache(); c != nil {
			a := o.int("a")
			ssAfterRead = func() { _ = h.sh.Delete(numCID(1), []oid.ID{numOID(a)}) }
			err := writecache.VerifFlushSingle(c, numAddr(1, a))
			ssAfterRead = nil
			if err != nil {
				return "err"
			}
		}
		return "ok"
	case "flushall":
		if h.sh.VerifWriteCache() != nil {
			if err := h.sh.FlushWriteCache(false); err != nil {
				return "err"
			}
		}
		return "ok"
	case "epoch":
		e := uint64(o.int("e"))
		if cur := h.ep.e.Load(); cur > e { // epochs do not go back
			e = cur
		}
		h.ep.e.Store(e)
		h.sh.VerifHandleNewEpoch(e)
		return "ok"
	case "reopen":
		h.close()
		h.open()
		return "ok"
	case "resync":
		h.close()
		err := ssResync(h.dir, h.ep)
		h.open()
		if err != nil {
			return "err"
		}
		return "ok"
	}
	return ""
}

func ssBoltOpts() *bbolt.Options {
	return &bbolt.Options{NoSync: true, NoGrowSync: true, NoFreelistSync: true, Timeout: time.Second, InitialMmapSize: 1 << 20}
}

// ---------------------------------------------------------------- child process

// ssChild is the crashing process. It is started ahead of time (process start-up of this binary costs more
// than the operation) and waits for one instruction line on stdin: dir, wc, crash, epoch, out, op (tab separated).
func ssChild() {
	line, err := bufio.NewReader(os.Stdin).ReadString('\n')
	if err != nil {
		os.Exit(0) // the parent went away without using this process
	}
	f := strings.Split(strings.TrimRight(line, "\n"), "\t")
	if len(f) != 6 {
		os.Exit(2)
	}
	dir := f[0]
	k, _ := strconv.Atoi(f[2])
	e, _ := strconv.ParseUint(f[3], 10, 64)
	out := f[4]
	o := parseOp(f[5])
	h := &ssHost{dir: dir, wc: f[1] == "1", ep: &epochSrc{}}
	h.ep.e.Store(e)
	n := 0
	verifhook.SetPoint(func(name string) {
		if ssSchedulePoint(name) || !ssCrashPoints[name] {
			return
		}
		n++
		if n == k {
			_ = os.WriteFile(out, []byte(fmt.Sprintf("%s#%d", name, n)), 0o644)
			os.Exit(9) // the crash: nothing is closed, nothing is flushed
		}
	})
	if o.name == "resync" {
		_ = ssResync(dir, h.ep)
	} else {
		h.open()
		h.run(o)
	}
	_ = os.WriteFile(out, []byte("end"), 0o644)
	os.Exit(0) // the operation completed; the process still dies without closing anything
}

type ssProc struct {
	cmd   *exec.Cmd
	stdin io.WriteCloser
	out   *bytes.Buffer
}

var (
	ssPool     chan *ssProc
	ssPoolOnce sync.Once
)

func ssSpawn() *ssProc {
	cmd := exec.Command(os.Args[0], "shardst-child")
	in, err := cmd.StdinPipe()
	if err != nil {
		panic(err)
	}
	p := &ssProc{cmd: cmd, stdin: in, out: &bytes.Buffer{}}
	cmd.Stdout, cmd.Stderr = p.out, p.out
	if err := cmd.Start(); err != nil {
		panic(err)
	}
	return p
}

func ssTakeChild() *ssProc {
	ssPoolOnce.Do(func() {
		ssPool = make(chan *ssProc, 6)
		for i := 0; i < 3; i++ {
			go func() {
				for {
					ssPool <- ssSpawn()
				}
			}()
		}
	})
	return <-ssPool
}

func (h *ssHost) crashRun(line string, k int) string {
	h.close()
	out := filepath.Join(h.dir, "child.out")
	_ = os.Remove(out)
	wc := "0"
	if h.wc {
		wc = "1"
	}
	t0 := time.Now()
	p := ssTakeChild()
	t1 := time.Now()
	fmt.Fprintf(p.stdin, "%s\t%s\t%d\t%d\t%s\t%s\n", h.dir, wc, k, h.ep.e.Load(), out, line)
	p.stdin.Close()
	err := p.cmd.Wait()
	if os.Getenv("VH_SS_TIMING") != "" {
		fmt.Fprintln(os.Stderr, "take", t1.Sub(t0), "run", time.Since(t1))
	}
	res, rerr := os.ReadFile(out)
	if rerr != nil {
		panic(fmt.Sprintf("crash child left no report (%v): %s", err, p.out.String()))
	}
	h.open()
	return "crash@" + string(res)
}

// ---------------------------------------------------------------- observation and oracles

type ssObs struct {
	dump   string
	exists map[int]string
	get    map[int]string
}

func (h *ssHost) observe(c *runCtx, expect map[int][]byte) ssObs {
	ob := ssObs{exists: map[int]string{}, get: map[int]string{}}
	inWC := map[int]bool{}
	if wc := h.sh.VerifWriteCache(); wc != nil {
		_ = writecache.VerifFiles(wc, func(a oid.Address, _ []byte) error {
			inWC[oidNum(a.Object())] = true
			return nil
		})
	}
	garb := map[int]bool{}
	db := h.sh.VerifMetabase()
	_ = db.IterateOverGarbage(func(id oid.ID) error {
		garb[oidNum(id)] = true
		return nil
	}, numCID(1), oid.ID{})
	var toks []string
	var tB, tS, tE, tG time.Duration
	defer func() {
		if os.Getenv("VH_SS_TIMING") != "" {
			fmt.Fprintln(os.Stderr, "observe parts blob", tB, "status", tS, "exists", tE, "get", tG)
		}
	}()
	for a := 1; a <= ssMaxID; a++ {
		addr := numAddr(1, a)
		t0 := time.Now()
		inBlob, _ := h.sh.VerifBlobstor().Exists(addr)
		tB += time.Since(t0)
		t0 = time.Now()
		st, _ := db.ObjectStatus(addr)
		tS += time.Since(t0)
		indexed := len(st.HeaderIndex) > 0
		t0 = time.Now()
		ex, err := h.sh.Exists(addr, false)
		tE += time.Since(t0)
		t0 = time.Now()
		defer func() { tG += 0 }()
		var el string
		switch {
		case err == nil && ex:
			el = "A"
		case err == nil:
			el = "N"
		case errors.Is(err, meta.ErrObjectIsExpired):
			el = "E"
		case errors.As(err, new(apistatus.ObjectAlreadyRemoved)):
			el = "T"
		case errors.As(err, new(apistatus.ObjectNotFound)):
			el = "G"
		default:
			el = "?"
		}
		obj, gerr := h.sh.Get(addr, false)
		tG += time.Since(t0)
		var gl string
		switch {
		case gerr == nil:
			gl = "R"
			if want, ok := expect[a]; ok && c.prop != "C09" {
				c.oracle("read-bytes-are-the-stored-bytes", bytes.Equal(obj.Marshal(), want), fmt.Sprintf("object %d read back with different bytes", a))
			}
		case errors.Is(gerr, shard.ErrMetaWithNoObject):
			gl = "M"
		case errors.Is(gerr, meta.ErrObjectIsExpired):
			gl = "e"
		case errors.As(gerr, new(apistatus.ObjectAlreadyRemoved)):
			gl = "t"
		case errors.As(gerr, new(apistatus.ObjectNotFound)):
			gl = "n"
		default:
			gl = "?"
		}
		ob.exists[a], ob.get[a] = el, gl
		if inBlob || inWC[a] || indexed || garb[a] {
			f := func(b bool, s string) string {
				if b {
					return s
				}
				return "-"
			}
			toks = append(toks, fmt.Sprintf("%d:%s%s%s%s%s%s", a, f(inBlob, "b"), f(inWC[a], "w"), f(indexed, "i"), f(garb[a], "g"), el, gl))
		}
	}
	if len(toks) == 0 {
		ob.dump = "-"
	} else {
		ob.dump = strings.Join(toks, " ")
	}
	return ob
}

func ssExec(c *runCtx, ops []string) {
	ssSeqCtx = c
	verifhook.SetPoint(func(name string) { ssSchedulePoint(name) })
	dir := scratchDir("shardst")
	defer os.RemoveAll(dir)
	h := &ssHost{dir: dir, ep: &epochSrc{}}
	defer func() { h.close() }()
	expect := map[int][]byte{}  // bytes of every object ever handed to Put
	removed := map[int]string{} // C09 shadow: address -> how it was reported removed
	crashes := 0
	for _, line := range ops {
		o := parseOp(line)
		if o.name == "cfg" {
			h.close()
			os.RemoveAll(dir)
			os.MkdirAll(dir, 0o755)
			h.wc = o.kv["wc"] == "1"
			h.ep = &epochSrc{}
			h.open()
			c.emit(line, "=> ok "+h.observe(c, expect).dump)
			continue
		}
		if h.sh == nil { // a sequence that does not start with cfg (shrunk): default configuration
			h.open()
		}
		known := map[string]bool{"put": true, "del": true, "mark": true, "gc": true, "flush": true, "flushall": true, "flushdel": true, "epoch": true, "reopen": true, "resync": true}
		if !known[o.name] {
			c.emit(line, "=> bad-op")
			continue
		}
		c.count(o.name)
		full := line
		if o.name == "put" {
			expect[o.int("a")] = ssObject(o).Marshal()
		}
		if o.name == "resync" { // the order the main storage is iterated in is an input of the model
			h.close()
			order := ssBlobOrder(dir)
			h.open()
			var kept []string
			for _, t := range strings.Fields(line) {
				if !strings.HasPrefix(t, "order=") {
					kept = append(kept, t)
				}
			}
			full = strings.Join(kept, " ") + " order=" + joinInts(order)
			o = parseOp(full)
		}
		var res string
		if ks, ok := o.kv["crash"]; ok {
			k, err := strconv.Atoi(ks)
			if err != nil || k < 1 {
				c.emit(line, "=> bad-op")
				continue
			}
			var kept []string
			for _, t := range strings.Fields(full) {
				if !strings.HasPrefix(t, "crash=") {
					kept = append(kept, t)
				}
			}
			res = h.crashRun(strings.Join(kept, " "), k)
			crashes++
			c.count("crashpoint:" + strings.SplitN(strings.TrimPrefix(res, "crash@"), "#", 2)[0])
		} else {
			t0 := time.Now()
			res = h.run(o)
			if os.Getenv("VH_SS_TIMING") != "" {
				fmt.Fprintln(os.Stderr, "op", o.name, time.Since(t0))
			}
		}
		t1 := time.Now()
		ob := h.observe(c, expect)
		if os.Getenv("VH_SS_TIMING") != "" {
			fmt.Fprintln(os.Stderr, "observe", time.Since(t1))
		}
		// C15: whatever the metadata reports as available is readable (bytes compared in observe)
		if c.prop != "C09" {
			for a := 1; a <= ssMaxID; a++ {
				if ob.exists[a] == "A" {
					c.oracleSig("listed-available-implies-readable", res, ob.get[a] == "R",
						fmt.Sprintf("after %q (%s): object %d is reported available by the metabase but Get answers %s; state %s", full, res, a, ob.get[a], ob.dump))
				}
			}
		}
		// C09: once reported removed, never readable again without a new Put
		if c.prop == "C09" {
			if o.name == "put" { // a new upload (attempt) of the object, completed or cut: the property no longer speaks about it
				delete(removed, o.int("a"))
			}
			for a := 1; a <= ssMaxID; a++ {
				if how, was := removed[a]; was {
					c.oracleSig("removed-object-stays-unreadable", o.name, ob.get[a] != "R",
						fmt.Sprintf("after %q: object %d was reported removed (%s) and no Put of it followed, yet Get returns it; state %s", full, a, how, ob.dump))
					if ob.get[a] == "R" {
						delete(removed, a) // reported once
						continue
					}
				}
				if _, stored := expect[a]; stored && removed[a] == "" {
					switch {
					case ob.exists[a] == "T":
						removed[a] = "tombstoned at " + full
					case ob.exists[a] == "G":
						removed[a] = "marked as garbage at " + full
					}
				}
			}
			if o.name == "del" && res == "ok" {
				for _, a := range o.ints("ids") {
					if _, stored := expect[a]; stored && removed[a] == "" && ob.get[a] != "R" {
						removed[a] = "deleted at " + full
					}
				}
			}
		}
		c.emit(full, "=> "+res+" "+ob.dump)
	}
	if crashes > 0 || len(ops) > 4 {
		c.nontrivial(fmt.Sprint(ops))
	}
}

// ---------------------------------------------------------------- generation

func ssRandOp(c *runCtx, wc bool, tsT, tsE map[int]int, epoch *int) string {
	reg := func() int { return 1 + c.rng.IntN(4) }
	ids := func() string {
		n := 1 + c.rng.IntN(2)
		set := map[int]bool{}
		for len(set) < n {
			if c.rng.IntN(6) == 0 {
				set[7+c.rng.IntN(3)] = true
			} else {
				set[reg()] = true
			}
		}
		var l []int
		for x := range set {
			l = append(l, x)
		}
		sort.Ints(l)
		return joinInts(l)
	}
	for {
		switch k := c.rng.IntN(100); {
		case k < 28:
			a := reg()
			return fmt.Sprintf("shardst put a=%d k=reg p=%d", a, 10+a)
		case k < 40:
			t := 7 + c.rng.IntN(3)
			return fmt.Sprintf("shardst put a=%d k=ts tg=%d exp=%d p=0", t, tsT[t], tsE[t])
		case k < 48:
			return "shardst del ids=" + ids()
		case k < 62:
			return fmt.Sprintf("shardst mark ids=%s m=%s", ids(), []string{"d", "r", "r"}[c.rng.IntN(3)])
		case k < 78:
			return "shardst gc"
		case k < 86:
			if !wc {
				continue
			}
			if c.rng.IntN(3) == 0 {
				return "shardst flushall"
			}
			a := reg()
			if c.rng.IntN(4) == 0 {
				a = 7 + c.rng.IntN(3)
			}
			if c.rng.IntN(4) == 0 {
				return fmt.Sprintf("shardst flushdel a=%d", a)
			}
			return fmt.Sprintf("shardst flush a=%d", a)
		case k < 94:
			*epoch += c.rng.IntN(3)
			return fmt.Sprintf("shardst epoch e=%d", *epoch)
		case k < 97:
			return "shardst reopen"
		default:
			if c.prop == "C09" {
				return "shardst resync"
			}
			if c.rng.IntN(2) == 0 {
				return "shardst resync"
			}
			return "shardst reopen"
		}
	}
}

func ssCrashable(line string) bool {
	n := parseOp(line).name
	return n == "put" || n == "del" || n == "mark" || n == "gc" || n == "flush" || n == "flushdel" || n == "resync"
}

func ssGen(c *runCtx, run func([]string)) {
	if c.prop == "C09" {
		ssGenC09(c, run)
		return
	}
	mk := func(n int) (ops []string, wc bool) {
		wc = c.rng.IntN(3) != 0
		w := 0
		if wc {
			w = 1
		}
		ops = []string{fmt.Sprintf("shardst cfg wc=%d", w)}
		tsT, tsE := map[int]int{}, map[int]int{}
		for t := 7; t <= 9; t++ {
			tsT[t] = 1 + c.rng.IntN(4)
			tsE[t] = 1 + c.rng.IntN(4)
		}
		epoch := 0
		for j := 0; j < n; j++ {
			ops = append(ops, ssRandOp(c, wc, tsT, tsE, &epoch))
		}
		return
	}
	if c.thorough() {
		// every crash point of short histories: each op of the history is cut at every step boundary
		for i := 0; i < c.n(0, 60); i++ {
			base, _ := mk(3 + c.rng.IntN(4))
			for j := 1; j < len(base); j++ {
				if !ssCrashable(base[j]) {
					continue
				}
				for k := 1; k <= 7; k++ {
					seq := append([]string(nil), base[:j]...)
					seq = append(seq, fmt.Sprintf("%s crash=%d", base[j], k))
					seq = append(seq, base[j+1:]...)
					run(seq)
				}
			}
		}
		return
	}
	for i := 0; i < c.n(24, 0); i++ {
		ops, _ := mk(4 + c.rng.IntN(7))
		// one or two of the crashable ops are cut at a seeded step boundary
		var idx []int
		for j := 1; j < len(ops); j++ {
			if ssCrashable(ops[j]) {
				idx = append(idx, j)
			}
		}
		for n := 0; n < 1+c.rng.IntN(3) && len(idx) > 0; n++ {
			j := idx[c.rng.IntN(len(idx))]
			if !strings.Contains(ops[j], "crash=") {
				ops[j] += fmt.Sprintf(" crash=%d", []int{1, 1, 1, 1, 2, 2, 2, 3, 3, 4, 5, 6}[c.rng.IntN(12)])
			}
		}
		run(ops)
	}
}

// ssGenC09: two streams. The first one has no resync (the known trigger): every assertion must hold there.
// The second one mixes resyncs in: every failure it produces must shrink to a history with a resync.
func ssGenC09(c *runCtx, run func([]string)) {
	mk := func(n int, resync bool) []string {
		wc := c.rng.IntN(3) != 0
		w := 0
		if wc {
			w = 1
		}
		ops := []string{fmt.Sprintf("shardst cfg wc=%d", w)}
		tsT, tsE := map[int]int{}, map[int]int{}
		for t := 7; t <= 9; t++ {
			tsT[t] = 1 + c.rng.IntN(4)
			tsE[t] = 1 + c.rng.IntN(3)
		}
		epoch := 0
		for j := 0; j < n; j++ {
			op := ssRandOp(c, wc, tsT, tsE, &epoch)
			if parseOp(op).name == "resync" {
				if !resync {
					op = "shardst gc"
				}
			} else if resync && c.rng.IntN(7) == 0 {
				op = "shardst resync"
			}
			ops = append(ops, op)
		}
		var idx []int
		for j := 1; j < len(ops); j++ {
			if ssCrashable(ops[j]) {
				idx = append(idx, j)
			}
		}
		for k := 0; k < c.rng.IntN(3) && len(idx) > 0; k++ {
			j := idx[c.rng.IntN(len(idx))]
			if !strings.Contains(ops[j], "crash=") {
				ops[j] += fmt.Sprintf(" crash=%d", []int{1, 1, 1, 2, 2, 3, 4}[c.rng.IntN(7)])
			}
		}
		return ops
	}
	for i := 0; i < c.n(20, 1500); i++ {
		run(mk(6+c.rng.IntN(8), false))
	}
	for i := 0; i < c.n(6, 500); i++ {
		run(mk(6+c.rng.IntN(8), true))
	}
}

// ssSeq is the op sequence executed so far (for diagnostics only).
var ssSeqCtx *runCtx

func ssCurSeq() []string {
	if ssSeqCtx == nil {
		return nil
	}
	return ssSeqCtx.curSeq
}
