package main

import (
	"bytes"
	"encoding/base64"
	"encoding/hex"
	"fmt"
	"math/big"
	"os"
	"sort"
	"strconv"
	"strings"

	"github.com/google/uuid"
	"github.com/mr-tron/base58"
	objectcore "github.com/nspcc-dev/neofs-node/pkg/core/object"
	"github.com/nspcc-dev/neofs-node/pkg/local_object_storage/engine"
	"github.com/nspcc-dev/neofs-node/pkg/local_object_storage/shard"
	"github.com/nspcc-dev/neofs-sdk-go/checksum"
	"github.com/nspcc-dev/neofs-sdk-go/client"
	"github.com/nspcc-dev/neofs-sdk-go/object"
	oid "github.com/nspcc-dev/neofs-sdk-go/object/id"
	"github.com/nspcc-dev/neofs-sdk-go/user"
	"github.com/nspcc-dev/neofs-sdk-go/version"
)

// Engine "smerge" (C04): (a) MergeSearchResults / calcMaxUniqueSearchResults / CalculateCursor / the cursor half of
// PreprocessSearchQuery on generated inputs, (b) a real StorageEngine over 1..4 real shards holding overlapping
// copies of one corpus: for every primary attribute kind and page size the engine's page chain (every returned cursor
// goes back through the real PreprocessSearchQuery) is compared with the model and with the page chain of a
// single-shard engine over the union.  Model: Model/SearchMerge.lean.
func init() {
	engines["smerge"] = seqRunner{gen: smergeGen, exec: smergeExec}.engine()
}

const (
	smAssociate = "__NEOFS__ASSOCIATE"
)

// ---------- line syntax ----------

func smShowItems(items []client.SearchResultItem) string {
	if len(items) == 0 {
		return "-"
	}
	parts := make([]string, len(items))
	for i, it := range items {
		a := "~"
		if len(it.Attributes) > 0 {
			a = hex.EncodeToString([]byte(it.Attributes[0]))
		}
		parts[i] = idStr(it.ID) + ":" + a
	}
	return strings.Join(parts, ",")
}

// idStr prints an id as a decimal number (ids are 32-byte big-endian numbers; the direct streams use ids below 2^63,
// the worlds small ones).
func idStr(id oid.ID) string {
	return new(big.Int).SetBytes(id[:]).String()
}

func smParseItem(t string) (client.SearchResultItem, bool) {
	p := strings.SplitN(t, ":", 2)
	if len(p) != 2 {
		return client.SearchResultItem{}, false
	}
	n, ok := new(big.Int).SetString(p[0], 10)
	if !ok || n.Sign() < 0 || n.BitLen() > 256 {
		return client.SearchResultItem{}, false
	}
	var it client.SearchResultItem
	n.FillBytes(it.ID[:])
	if p[1] != "~" {
		b, err := hex.DecodeString(p[1])
		if err != nil {
			return it, false
		}
		it.Attributes = []string{string(b)}
	}
	return it, true
}

func smParseSets(t string) ([][]client.SearchResultItem, bool) {
	if t == "-" {
		return nil, true
	}
	var sets [][]client.SearchResultItem
	for _, st := range strings.Split(t, "/") {
		var set []client.SearchResultItem
		if st != "-" {
			for _, x := range strings.Split(st, ",") {
				it, ok := smParseItem(x)
				if !ok {
					return nil, false
				}
				set = append(set, it)
			}
		}
		sets = append(sets, set)
	}
	return sets, true
}

func smParseMores(t string) ([]bool, bool) {
	if t == "-" {
		return nil, true
	}
	var r []bool
	for _, c := range t {
		switch c {
		case '0':
			r = append(r, false)
		case '1':
			r = append(r, true)
		default:
			return nil, false
		}
	}
	return r, true
}

func smHexArg(s string) ([]byte, bool) {
	b, err := hex.DecodeString(s)
	return b, err == nil
}

// ---------- direct ops ----------

func smMergeErrClass(err error) string {
	m := err.Error()
	switch {
	case strings.Contains(m, "non-int attribute"):
		return "nonint"
	case strings.Contains(m, "attribute value"):
		return "badattr"
	}
	return "other:" + m
}

func smFilter(attr, op string) (*object.SearchFilter, bool) {
	var fs object.SearchFilters
	switch op {
	case "nil":
		return nil, true
	case "np":
		fs.AddFilter(attr, "", object.MatchNotPresent)
	case "int":
		fs.AddFilter(attr, "0", object.MatchNumGE)
	case "str":
		fs.AddFilter(attr, "", object.MatchStringNotEqual)
	default:
		return nil, false
	}
	return &fs[0], true
}

func smSeekErrClass(err error) string {
	m := err.Error()
	switch {
	case strings.Contains(m, "for listing query"):
		return "oidlen"
	case strings.Contains(m, "exceeds the limit"):
		return "toolong"
	case strings.Contains(m, "for int query"):
		return "intlen"
	case strings.Contains(m, "too short len"):
		return "short"
	case strings.Contains(m, "wrong primary attribute"):
		return "wrongattr"
	case strings.Contains(m, "wrong key-value delimiter"):
		return "kvdelim"
	case strings.Contains(m, "invalid sign byte"):
		return "sign"
	case strings.Contains(m, "wrong value-OID delimiter"):
		return "valoiddelim"
	}
	return "other:" + m
}

func smDirect(c *runCtx, line string, o opLine) (res string, post func()) {
	defer func() {
		if r := recover(); r != nil {
			res, post = fmt.Sprintf("=> panic %v", r), nil
		}
	}()
	switch o.name {
	case "merge":
		attr, ok1 := smHexArg(o.kv["attr"])
		sets, ok2 := smParseSets(o.kv["sets"])
		mores, ok3 := smParseMores(o.kv["mores"])
		if !ok1 || !ok2 || !ok3 {
			return "=> bad-op", nil
		}
		lim := o.int("lim")
		// the union the property speaks about, computed before the merge (which reslices its argument)
		in := make([][]client.SearchResultItem, len(sets))
		for i := range sets {
			in[i] = append([]client.SearchResultItem(nil), sets[i]...)
		}
		r, more, err := objectcore.MergeSearchResults(uint16(lim), string(attr), o.int("int") == 1, sets, mores)
		if err != nil {
			return "=> err " + smMergeErrClass(err), nil
		}
		m := 0
		if more {
			m = 1
		}
		if o.kv["sorted"] == "1" {
			post = func() {
				c.independent = true
				smMergeOracle(c, string(attr), o.int("int") == 1, lim, in, mores, r, more)
				c.independent = false
			}
		}
		return fmt.Sprintf("=> ok res=%s more=%d", smShowItems(r), m), post
	case "calcmax":
		sets, ok := smParseSets(o.kv["sets"])
		if !ok || len(sets) == 0 {
			return "=> bad-op", nil
		}
		return fmt.Sprintf("=> ok n=%d", objectcore.VerifCalcMaxUniqueSearchResults(uint16(o.int("lim")), sets)), nil
	case "cursor":
		attr, ok1 := smHexArg(o.kv["attr"])
		it, ok2 := smParseItem(o.kv["item"])
		f, ok3 := smFilter(string(attr), o.kv["op"])
		if !ok1 || !ok2 || !ok3 {
			return "=> bad-op", nil
		}
		cur, err := objectcore.CalculateCursor(f, it)
		if err != nil {
			return "=> err", nil
		}
		return "=> ok c=" + hex.EncodeToString(cur), nil
	case "accept":
		attr, ok1 := smHexArg(o.kv["attr"])
		cur, ok2 := smHexArg(o.kv["cur"])
		if !ok1 || !ok2 || len(cur) == 0 {
			return "=> bad-op", nil
		}
		var fs object.SearchFilters
		var attrs []string
		if len(attr) > 0 {
			attrs = []string{string(attr)}
			if o.int("int") == 1 {
				fs.AddFilter(string(attr), "0", object.MatchNumGE)
			} else {
				fs.AddFilter(string(attr), "", object.MatchStringNotEqual)
			}
		}
		_, sc, err := objectcore.PreprocessSearchQuery(fs, attrs, base64.StdEncoding.EncodeToString(cur))
		if err != nil {
			return "=> err " + smSeekErrClass(err), nil
		}
		return fmt.Sprintf("=> ok seek=%s pfx=%s", hex.EncodeToString(sc.PrimarySeekKey), hex.EncodeToString(sc.PrimaryKeysPrefix)), nil
	}
	return "=> bad-op", nil
}

// smRawOf is the value the index stores for an API attribute string of the given primary attribute (what the
// single-shard index orders by).
func smRawOf(attr string, isInt bool, v string) ([]byte, *big.Int, bool) {
	if isInt {
		n, ok := new(big.Int).SetString(v, 10)
		return nil, n, ok
	}
	switch attr {
	case object.FilterOwnerID, object.FilterParentID, object.FilterFirstSplitObject, smAssociate:
		b, err := base58.Decode(v)
		return b, nil, err == nil
	case object.FilterPayloadChecksum:
		b, err := hex.DecodeString(v)
		return b, nil, err == nil
	case object.FilterSplitID:
		u, err := uuid.Parse(v)
		return u[:], nil, err == nil
	}
	return []byte(v), nil, true
}

// smMergeOracle: for sets that are sorted by the index order and duplicate-free, the merge must be the first lim
// elements of the sorted duplicate-free union, and more must tell whether anything is left.
func smMergeOracle(c *runCtx, attr string, isInt bool, lim int, sets [][]client.SearchResultItem, mores []bool, res []client.SearchResultItem, more bool) {
	type ent struct {
		it  client.SearchResultItem
		raw []byte
		n   *big.Int
	}
	seen := map[oid.ID]bool{}
	var all []ent
	for _, s := range sets {
		for _, it := range s {
			if seen[it.ID] {
				continue
			}
			seen[it.ID] = true
			e := ent{it: it}
			if attr != "" {
				var ok bool
				if e.raw, e.n, ok = smRawOf(attr, isInt, it.Attributes[0]); !ok {
					return
				}
			}
			all = append(all, e)
		}
	}
	sort.Slice(all, func(i, j int) bool {
		if attr != "" {
			var x int
			if isInt {
				x = all[i].n.Cmp(all[j].n)
			} else {
				x = bytes.Compare(all[i].raw, all[j].raw)
			}
			if x != 0 {
				return x < 0
			}
		}
		return bytes.Compare(all[i].it.ID[:], all[j].it.ID[:]) < 0
	})
	want := make([]client.SearchResultItem, 0, lim)
	for i := 0; i < len(all) && i < lim; i++ {
		want = append(want, all[i].it)
	}
	smOracle(c, "merge-is-the-first-lim-items-of-the-sorted-union", smShowItems(res) == smShowItems(want),
		fmt.Sprintf("attr %q int=%v lim=%d: merge gives %s, the sorted duplicate-free union starts with %s", attr, isInt, lim, smShowItems(res), smShowItems(want)))
	anyMore := false
	for i, m := range mores {
		// a set reports more only when it is a full page
		if m && i < len(sets) && len(sets[i]) >= lim {
			anyMore = true
		}
	}
	wantMore := lim > 0 && (len(all) > lim || (anyMore && len(all) > 0)) // nothing is returned or promised for a zero limit
	realistic := true
	for i, m := range mores {
		if m && (i >= len(sets) || len(sets[i]) < lim) {
			realistic = false
		}
	}
	if realistic {
		smOracle(c, "merge-reports-more-iff-something-is-left", more == wantMore,
			fmt.Sprintf("attr %q lim=%d sets=%d union=%d mores=%v: more=%v", attr, lim, len(sets), len(all), mores, more))
	}
}

// smOracle evaluates an assertion; at most two failures per assertion are recorded with their sequence (the pipeline
// shrinks every recorded failure, and one witness per assertion is what a report needs), the rest is only counted.
var smFailCount = map[string]int{}

func smOracle(c *runCtx, assertion string, ok bool, detail string) {
	if !ok {
		smFailCount[assertion]++
		if smFailCount[assertion] > 2 {
			c.nOracle++
			c.count("oracle_fail:" + assertion)
			return
		}
	}
	c.oracle(assertion, ok, detail)
}

// ---------- worlds ----------

type smWorld struct {
	dir    string
	eng    *engine.StorageEngine
	shards []*shard.Shard
	udir   string
	union  *engine.StorageEngine
	ushard *shard.Shard
	multi  int // objects held by more than one shard
	holder map[int]int
}

func newSmWorld(n int) *smWorld {
	w := &smWorld{dir: scratchDir("smerge"), udir: scratchDir("smergeu"), holder: map[int]int{}}
	e, sids := newEngine(w.dir, n, shardCfg{})
	w.eng = e
	for _, id := range sids {
		w.shards = append(w.shards, e.VerifShard(id))
	}
	u, usids := newEngine(w.udir, 1, shardCfg{})
	w.union = u
	w.ushard = u.VerifShard(usids[0])
	return w
}

func (w *smWorld) close() {
	w.eng.Close()
	w.union.Close()
	os.RemoveAll(w.dir)
	os.RemoveAll(w.udir)
}

func smBuildObject(o opLine) (*object.Object, bool) {
	own, ok := smHexArg(o.kv["own"])
	if !ok || len(own) != user.IDSize {
		return nil, false
	}
	ck, ok := smHexArg(o.kv["ck"])
	if !ok || len(ck) != 32 {
		return nil, false
	}
	typB, ok := smHexArg(o.kv["typ"])
	if !ok {
		return nil, false
	}
	var typ object.Type
	if !typ.DecodeString(string(typB)) {
		return nil, false
	}
	verB, ok := smHexArg(o.kv["ver"])
	if !ok {
		return nil, false
	}
	var ver version.Version
	if err := ver.DecodeString(string(verB)); err != nil {
		return nil, false
	}
	obj := object.New(numCID(1), user.ID(own))
	obj.SetID(numOID(o.int("o")))
	obj.SetVersion(&ver)
	pl := detPayload(3, o.int("o"))
	obj.SetPayload(pl)
	obj.SetPayloadSize(uint64(len(pl)))
	obj.SetPayloadChecksum(checksum.NewSHA256([32]byte(ck)))
	obj.SetType(typ)
	opt := func(k string, ln int) ([]byte, bool, bool) {
		v, present := o.kv[k]
		if !present {
			return nil, false, false
		}
		if v == "-" {
			return nil, false, true
		}
		b, ok := smHexArg(v)
		if !ok || (ln > 0 && len(b) != ln) {
			return nil, false, false
		}
		return b, true, true
	}
	if b, set, ok := opt("split", 16); !ok {
		return nil, false
	} else if set {
		obj.SetSplitID(object.NewSplitIDFromV2(b))
	}
	if b, set, ok := opt("par", 32); !ok {
		return nil, false
	} else if set {
		obj.SetParentID(oid.ID(b))
	}
	if b, set, ok := opt("first", 32); !ok {
		return nil, false
	} else if set {
		obj.SetFirstID(oid.ID(b))
	}
	var attrs []object.Attribute
	if b, set, ok := opt("assoc", 32); !ok {
		return nil, false
	} else if set {
		attrs = append(attrs, object.NewAttribute(smAssociate, oid.ID(b).EncodeToString()))
	}
	if b, set, ok := opt("num", 0); !ok {
		return nil, false
	} else if set {
		attrs = append(attrs, object.NewAttribute("N", string(b)))
	}
	if b, set, ok := opt("str", 0); !ok {
		return nil, false
	} else if set {
		attrs = append(attrs, object.NewAttribute("S", string(b)))
	}
	obj.SetAttributes(attrs...)
	return obj, true
}

type smWalkSpec struct {
	attr  string // "" = id-sorted, no filters
	isInt bool
}

func smWalkAttr(a string) (smWalkSpec, bool) {
	switch a {
	case "id":
		return smWalkSpec{}, true
	case "own":
		return smWalkSpec{attr: object.FilterOwnerID}, true
	case "ck":
		return smWalkSpec{attr: object.FilterPayloadChecksum}, true
	case "split":
		return smWalkSpec{attr: object.FilterSplitID}, true
	case "par":
		return smWalkSpec{attr: object.FilterParentID}, true
	case "first":
		return smWalkSpec{attr: object.FilterFirstSplitObject}, true
	case "assoc":
		return smWalkSpec{attr: smAssociate}, true
	case "num":
		return smWalkSpec{attr: "N", isInt: true}, true
	case "nstr":
		return smWalkSpec{attr: "N"}, true
	case "str":
		return smWalkSpec{attr: "S"}, true
	case "typ":
		return smWalkSpec{attr: object.FilterType}, true
	case "ver":
		return smWalkSpec{attr: object.FilterVersion}, true
	}
	return smWalkSpec{}, false
}

// smAPIValue turns the stored (raw) value of an attribute into the string the API uses for it.
func smAPIValue(attr string, raw []byte) (string, bool) {
	switch attr {
	case object.FilterOwnerID, object.FilterParentID, object.FilterFirstSplitObject, smAssociate:
		return base58.Encode(raw), len(raw) > 0
	case object.FilterPayloadChecksum:
		return hex.EncodeToString(raw), true
	case object.FilterSplitID:
		u, err := uuid.FromBytes(raw)
		return u.String(), err == nil
	}
	return string(raw), true
}

const smMinInt = "-115792089237316195423570985008687907853269984665640564039457584007913129639935"

func smFilters(sp smWalkSpec, f string) (object.SearchFilters, []string, bool) {
	if sp.attr == "" {
		return nil, nil, f == "all"
	}
	var fs object.SearchFilters
	attrs := []string{sp.attr}
	switch {
	case f == "all" && sp.isInt:
		fs.AddFilter(sp.attr, smMinInt, object.MatchNumGE)
	case f == "all":
		fs.AddFilter(sp.attr, "", object.MatchStringNotEqual)
	case strings.HasPrefix(f, "eq:") && !sp.isInt:
		raw, ok := smHexArg(f[3:])
		if !ok {
			return nil, nil, false
		}
		v, ok := smAPIValue(sp.attr, raw)
		if !ok {
			return nil, nil, false
		}
		fs.AddFilter(sp.attr, v, object.MatchStringEqual)
	case sp.isInt && len(f) > 3 && f[2] == ':':
		var m object.SearchMatchType
		switch f[:2] {
		case "ge":
			m = object.MatchNumGE
		case "gt":
			m = object.MatchNumGT
		case "le":
			m = object.MatchNumLE
		case "lt":
			m = object.MatchNumLT
		default:
			return nil, nil, false
		}
		if _, ok := new(big.Int).SetString(f[3:], 10); !ok || strings.HasPrefix(f[3:], "+") && strings.HasPrefix(f[4:], "+") {
			return nil, nil, false
		}
		fs.AddFilter(sp.attr, f[3:], m)
	default:
		return nil, nil, false
	}
	return fs, attrs, true
}

type smPage struct {
	items  []client.SearchResultItem
	cursor []byte
	tag    string // "", "REJ", "ERR:merge", "ERR:cursor", "ERR:pre", "GUARD"
}

// smChain walks the page chain of one engine: every returned cursor is Base64-encoded as the server does and goes
// back through the real PreprocessSearchQuery.
func smChain(e *engine.StorageEngine, fs object.SearchFilters, attrs []string, count int) []smPage {
	var pages []smPage
	cursor := ""
	for range 64 {
		ofs, sc, err := objectcore.PreprocessSearchQuery(fs, attrs, cursor)
		if err != nil {
			if cursor == "" {
				return append(pages, smPage{tag: "ERR:pre"})
			}
			pages[len(pages)-1].tag = "REJ"
			return pages
		}
		items, cur, err := e.Search(nil, numCID(1), ofs, attrs, sc, uint16(count)) //nolint:staticcheck // the context is unused
		if err != nil {
			tag := "ERR:merge"
			if strings.Contains(err.Error(), "recalculate cursor") {
				tag = "ERR:cursor"
			}
			return append(pages, smPage{tag: tag})
		}
		pages = append(pages, smPage{items: items, cursor: cur})
		if cur == nil {
			return pages
		}
		cursor = base64.StdEncoding.EncodeToString(cur)
	}
	return append(pages, smPage{tag: "GUARD"})
}

func smShowChain(pages []smPage) string {
	parts := make([]string, 0, len(pages))
	for _, p := range pages {
		switch p.tag {
		case "":
			c := "-"
			if p.cursor != nil {
				c = hex.EncodeToString(p.cursor)
			}
			parts = append(parts, smShowItems(p.items)+"@"+c)
		case "REJ":
			parts = append(parts, smShowItems(p.items)+"@"+hex.EncodeToString(p.cursor)+"!REJ")
		default:
			parts = append(parts, p.tag)
		}
	}
	return strings.Join(parts, ";")
}

func smWalk(c *runCtx, w *smWorld, line string, o opLine) (res string, post func()) {
	defer func() {
		if r := recover(); r != nil {
			res, post = fmt.Sprintf("=> panic %v", r), nil
		}
	}()
	sp, ok := smWalkAttr(o.kv["a"])
	if !ok {
		return "=> bad-op", nil
	}
	count, err := strconv.Atoi(o.kv["count"])
	if err != nil || count <= 0 || count > 1000 {
		return "=> bad-op", nil
	}
	fs, attrs, ok := smFilters(sp, o.kv["f"])
	if !ok {
		return "=> bad-op", nil
	}
	got := smChain(w.eng, fs, attrs, count)
	want := smChain(w.union, fs, attrs, count)
	// the property's oracle: page by page the same items (ids and attribute values) in the same order as a single
	// search over the union, no duplicates, no omissions, every returned cursor accepted
	accepted := true
	for _, p := range got {
		if p.tag != "" {
			accepted = false
		}
	}
	kind := o.kv["a"]
	post = func() {
		smOracle(c, "every-returned-cursor-is-accepted-on-the-next-request", accepted,
			fmt.Sprintf("walk %s f=%s count=%d over %d shards: %s", kind, o.kv["f"], count, len(w.shards), smShowChain(got)))
		flat := func(ps []smPage) (s []string, pg []string) {
			for _, p := range ps {
				pg = append(pg, smShowItems(p.items))
				for _, it := range p.items {
					s = append(s, smShowItems([]client.SearchResultItem{it}))
				}
			}
			return
		}
		gi, gp := flat(got)
		wi, wp := flat(want)
		dup := false
		seen := map[string]bool{}
		for _, p := range got {
			for _, it := range p.items {
				k := idStr(it.ID)
				if seen[k] {
					dup = true
				}
				seen[k] = true
			}
		}
		smOracle(c, "merged-pages-have-no-duplicates", !dup, fmt.Sprintf("walk %s f=%s count=%d over %d shards: %s", kind, o.kv["f"], count, len(w.shards), smShowChain(got)))
		smOracle(c, "merged-pages-equal-a-single-search-over-the-union", strings.Join(gi, ",") == strings.Join(wi, ",") && strings.Join(gp, ";") == strings.Join(wp, ";"),
			fmt.Sprintf("walk %s f=%s count=%d over %d shards: pages %s, single search over the union %s", kind, o.kv["f"], count, len(w.shards), smShowChain(got), smShowChain(want)))
		if len(w.shards) > 1 && w.multi > 0 && len(wi) > count {
			c.nontrivial(kind + "|" + o.kv["f"] + "|" + strconv.Itoa(count) + "|" + strings.Join(wi, ","))
		}
	}
	c.count("walk:" + kind)
	return "=> " + smShowChain(got), post
}

func smergeExec(c *runCtx, ops []string) {
	var w *smWorld
	defer func() {
		if w != nil {
			w.close()
		}
	}()
	for _, line := range ops {
		o := parseOp(line)
		c.count(o.name)
		switch o.name {
		case "merge", "calcmax", "cursor", "accept":
			res, post := smDirect(c, line, o)
			c.emit(line, res)
			if post != nil {
				post()
			}
		case "init":
			n, err := strconv.Atoi(o.kv["n"])
			if err != nil || n < 1 || n > 4 {
				c.emit(line, "=> bad-op")
				continue
			}
			if w != nil {
				w.close()
			}
			w = newSmWorld(n)
			c.emit(line, "=> ok")
		case "put":
			if w == nil {
				c.emit(line, "=> bad-op")
				continue
			}
			shs := o.ints("sh")
			bad := len(shs) == 0
			for _, k := range shs {
				if k < 0 || k >= len(w.shards) {
					bad = true
				}
			}
			obj, ok := smBuildObject(o)
			if bad || !ok {
				c.emit(line, "=> bad-op")
				continue
			}
			res := "=> ok"
			done := map[int]bool{}
			for _, k := range shs {
				if done[k] {
					continue
				}
				done[k] = true
				if err := w.shards[k].Put(obj, nil); err != nil {
					res = "=> err " + clip(err.Error())
				}
			}
			if err := w.ushard.Put(obj, nil); err != nil {
				res = "=> err " + clip(err.Error())
			}
			if len(done) > 1 {
				w.multi++
			}
			c.emit(line, res)
		case "walk":
			if w == nil {
				c.emit(line, "=> bad-op")
				continue
			}
			res, post := smWalk(c, w, line, o)
			c.emit(line, res)
			if post != nil {
				post()
			}
		default:
			c.emit(line, "=> bad-op")
		}
	}
}

// ---------- generation ----------

var smKinds = []string{"id", "own", "ck", "split", "par", "first", "assoc", "num", "nstr", "str", "typ", "ver"}

// smOIDPool: ids whose Base58 forms have different lengths and whose order as Base58 strings differs from their
// order as bytes (57 < 58 as bytes, "…z" > "…21" as strings), plus full-width ones.
func smOIDPool() [][]byte {
	var pool [][]byte
	for _, n := range []int{1, 2, 57, 58, 59, 3363, 3364, 255, 256} {
		id := numOID(n)
		pool = append(pool, id[:])
	}
	for _, first := range []byte{0x00, 0x01, 0x08, 0x09, 0x7f, 0xff} {
		b := bytes.Repeat([]byte{0x11}, 32)
		b[0] = first
		pool = append(pool, b)
		b2 := bytes.Repeat([]byte{0xee}, 32)
		b2[0] = first
		pool = append(pool, b2)
	}
	return pool
}

var smNumPool = []string{"0", "-0", "+0", "1", "-1", "2", "9", "10", "11", "-9", "-10", "-11", "99", "100", "-100", "007", "+7", "7", "-007",
	"18446744073709551616", "-18446744073709551616", "340282366920938463463374607431768211456",
	"115792089237316195423570985008687907853269984665640564039457584007913129639935",
	"-115792089237316195423570985008687907853269984665640564039457584007913129639935",
	"115792089237316195423570985008687907853269984665640564039457584007913129639934", "12a", "1.5", "--1", "abc", " 1"}

var smStrPool = []string{"a", "ab", "abc", "b", "B", "a\x01", "a\xff", "\x01", "\xff\xff", "z", "10", "9", "~", "ab\x7f"}

type smObjSpec struct {
	id    int
	line  string // everything after "sh=… "
	raw   map[string][]byte
	num   string
	isNum bool
}

func smGenObject(c *runCtx, id int, oids [][]byte) smObjSpec {
	r := c.rng
	sp := smObjSpec{id: id, raw: map[string][]byte{}}
	own := numOwner(1 + r.IntN(4))
	ck := bytes.Repeat([]byte{byte(r.IntN(3))}, 32)
	ck[31] = byte(r.IntN(3))
	if r.IntN(3) == 0 {
		ck[0] = byte(0x0f + r.IntN(3)*0x71)
	}
	typ := []string{"REGULAR", "REGULAR", "LINK", "LOCK"}[r.IntN(4)]
	ver := fmt.Sprintf("v2.%d", []int{9, 10, 18}[r.IntN(3)])
	parts := []string{fmt.Sprintf("o=%d own=%s ck=%s typ=%s ver=%s", id, hex.EncodeToString(own[:]), hex.EncodeToString(ck),
		hex.EncodeToString([]byte(typ)), hex.EncodeToString([]byte(ver)))}
	sp.raw["own"], sp.raw["ck"], sp.raw["typ"], sp.raw["ver"] = own[:], ck, []byte(typ), []byte(ver)
	optB := func(k string, b []byte) {
		if b == nil {
			parts = append(parts, k+"=-")
			return
		}
		parts = append(parts, k+"="+hex.EncodeToString(b))
		sp.raw[k] = b
	}
	pick := func() []byte { return oids[r.IntN(len(oids))] }
	if r.IntN(3) > 0 {
		u := make([]byte, 16)
		u[0] = byte(r.IntN(3) * 0x55)
		u[15] = byte(r.IntN(3))
		u[4], u[6], u[8], u[10] = byte(r.IntN(2)*0xa0), byte(r.IntN(2)*0x0a), byte(r.IntN(2)), byte(r.IntN(2)*0xff)
		optB("split", u)
	} else {
		optB("split", nil)
	}
	for _, k := range []string{"par", "first"} {
		if r.IntN(4) > 0 {
			optB(k, pick())
		} else {
			optB(k, nil)
		}
	}
	if typ == "LOCK" || r.IntN(3) > 0 {
		optB("assoc", pick())
	} else {
		optB("assoc", nil)
	}
	if r.IntN(5) > 0 {
		n := smNumPool[r.IntN(len(smNumPool))]
		optB("num", []byte(n))
		sp.raw["nstr"] = []byte(n)
	} else {
		optB("num", nil)
	}
	if r.IntN(5) > 0 {
		optB("str", []byte(smStrPool[r.IntN(len(smStrPool))]))
	} else {
		optB("str", nil)
	}
	sp.line = strings.Join(parts, " ")
	return sp
}

func smGenWorld(c *runCtx) []string {
	r := c.rng
	n := 1 + r.IntN(4)
	if r.IntN(6) > 0 && n == 1 {
		n = 2 + r.IntN(3)
	}
	ops := []string{fmt.Sprintf("smerge init n=%d", n)}
	oids := smOIDPool()
	nobj := 3 + r.IntN(9)
	var specs []smObjSpec
	for i := 0; i < nobj; i++ {
		sp := smGenObject(c, 101+i, oids) // ids apart from the small ids the associate/parent pools use
		specs = append(specs, sp)
		// overlapping copies: each object on a random non-empty subset of the shards
		var shs []int
		for k := 0; k < n; k++ {
			if r.IntN(2) == 0 {
				shs = append(shs, k)
			}
		}
		if len(shs) == 0 {
			shs = []int{r.IntN(n)}
		}
		ops = append(ops, fmt.Sprintf("smerge put sh=%s %s", joinInts(shs), sp.line))
	}
	walks := c.n(1, 1)
	for wv := 0; wv < walks; wv++ {
		for _, k := range smKinds {
			counts := []int{1, 2, 1 + r.IntN(nobj), nobj, nobj + 1}
			for _, cnt := range counts[:2+r.IntN(3)] {
				ops = append(ops, fmt.Sprintf("smerge walk a=%s f=all count=%d", k, cnt))
			}
			// an equality walk (all values equal: order by id alone) and integer thresholds
			sp := specs[r.IntN(len(specs))]
			if k == "num" {
				v := smNumPool[r.IntN(22)]
				op := []string{"ge", "gt", "le", "lt"}[r.IntN(4)]
				if !strings.HasPrefix(v, "115792") && !strings.HasPrefix(v, "-115792") {
					ops = append(ops, fmt.Sprintf("smerge walk a=num f=%s:%s count=%d", op, v, 1+r.IntN(3)))
				}
			} else if k != "id" {
				if raw, ok := sp.raw[k]; ok {
					ops = append(ops, fmt.Sprintf("smerge walk a=%s f=eq:%s count=%d", k, hex.EncodeToString(raw), 1+r.IntN(3)))
				}
			}
		}
	}
	return ops
}

// smAttrFor gives the API string of a raw value for the direct streams.
func smGenValue(c *runCtx, attr string, isInt bool, oids [][]byte) (api string, raw []byte, n *big.Int) {
	r := c.rng
	if isInt {
		for {
			v := smNumPool[r.IntN(25)]
			if x, ok := new(big.Int).SetString(v, 10); ok {
				return v, nil, x
			}
		}
	}
	switch attr {
	case object.FilterOwnerID:
		own := numOwner(1 + r.IntN(5))
		raw = own[:]
	case object.FilterParentID, object.FilterFirstSplitObject, smAssociate:
		raw = oids[r.IntN(len(oids))]
	case object.FilterPayloadChecksum:
		raw = bytes.Repeat([]byte{byte(r.IntN(3) * 0x7f)}, 32)
		raw[r.IntN(32)] = byte(r.IntN(256))
	case object.FilterSplitID:
		raw = make([]byte, 16)
		raw[r.IntN(16)] = byte(r.IntN(256))
		raw[r.IntN(16)] = byte(r.IntN(256))
	default:
		raw = []byte(smStrPool[r.IntN(len(smStrPool))])
	}
	api, _ = smAPIValue(attr, raw)
	return api, raw, nil
}

var smDirectAttrs = []struct {
	attr  string
	isInt bool
}{
	{"", false}, {object.FilterOwnerID, false}, {object.FilterPayloadChecksum, false}, {object.FilterSplitID, false},
	{object.FilterParentID, false}, {object.FilterFirstSplitObject, false}, {smAssociate, false}, {"N", true}, {"N", false},
	{"S", false}, {object.FilterType, false}, {object.FilterVersion, false}, {object.FilterCreationEpoch, true},
}

func smItemStr(id int, api string, has bool) string {
	if !has {
		return fmt.Sprintf("%d:~", id)
	}
	return fmt.Sprintf("%d:%s", id, hex.EncodeToString([]byte(api)))
}

// smGenMerge: a universe of items (one attribute value per id), spread over 1..4 sets with overlap; every set sorted
// by the index order (raw value bytes or numeric value, then id).
func smGenMerge(c *runCtx, oids [][]byte) []string {
	r := c.rng
	ka := smDirectAttrs[r.IntN(len(smDirectAttrs))]
	type uitem struct {
		id  int
		api string
		raw []byte
		n   *big.Int
	}
	nu := 1 + r.IntN(9)
	var uni []uitem
	usedID := map[int]bool{}
	for len(uni) < nu {
		id := 1 + r.IntN(14)
		if usedID[id] {
			continue
		}
		usedID[id] = true
		it := uitem{id: id}
		if ka.attr != "" {
			it.api, it.raw, it.n = smGenValue(c, ka.attr, ka.isInt, oids)
		}
		uni = append(uni, it)
	}
	sort.Slice(uni, func(i, j int) bool {
		if ka.attr != "" {
			var x int
			if ka.isInt {
				x = uni[i].n.Cmp(uni[j].n)
			} else {
				x = bytes.Compare(uni[i].raw, uni[j].raw)
			}
			if x != 0 {
				return x < 0
			}
		}
		return uni[i].id < uni[j].id
	})
	ns := 1 + r.IntN(4)
	sets := make([][]string, ns)
	lens := make([]int, ns)
	for _, it := range uni {
		placed := false
		for k := 0; k < ns; k++ {
			if r.IntN(2) == 0 {
				sets[k] = append(sets[k], smItemStr(it.id, it.api, ka.attr != ""))
				lens[k]++
				placed = true
			}
		}
		if !placed && r.IntN(4) > 0 {
			k := r.IntN(ns)
			sets[k] = append(sets[k], smItemStr(it.id, it.api, ka.attr != ""))
			lens[k]++
		}
	}
	lim := 1 + r.IntN(nu+2)
	// realistic more-flags: only full pages report more; sometimes nil, sometimes arbitrary
	mores := "-"
	switch r.IntN(4) {
	case 0:
	case 1:
		var sb strings.Builder
		for k := 0; k < ns; k++ {
			sb.WriteByte("01"[r.IntN(2)])
		}
		mores = sb.String()
	default:
		// cut every set to a page of lim items and set its flag iff something was cut
		var sb strings.Builder
		for k := 0; k < ns; k++ {
			if lens[k] > lim {
				sets[k] = sets[k][:lim]
				sb.WriteByte('1')
			} else if lens[k] == lim && r.IntN(3) == 0 {
				sb.WriteByte('1')
			} else {
				sb.WriteByte('0')
			}
		}
		mores = sb.String()
	}
	ss := make([]string, ns)
	for k := range sets {
		if len(sets[k]) == 0 {
			ss[k] = "-"
		} else {
			ss[k] = strings.Join(sets[k], ",")
		}
	}
	ci := 0
	if ka.isInt {
		ci = 1
	}
	all := strings.Join(ss, "/")
	ops := []string{fmt.Sprintf("smerge merge lim=%d attr=%s int=%d sets=%s mores=%s sorted=1", lim, hex.EncodeToString([]byte(ka.attr)), ci, all, mores),
		fmt.Sprintf("smerge calcmax lim=%d sets=%s", lim, all)}
	return ops
}

// smGenMalformed: arbitrary (unsorted, incoherent, invalid) inputs: the model must still follow the code.
func smGenMalformed(c *runCtx, oids [][]byte) []string {
	r := c.rng
	ka := smDirectAttrs[r.IntN(len(smDirectAttrs))]
	ns := r.IntN(5)
	ss := make([]string, ns)
	for k := range ss {
		m := r.IntN(5)
		var items []string
		for j := 0; j < m; j++ {
			api := ""
			if ka.attr != "" {
				switch r.IntN(6) {
				case 0:
					api = smNumPool[r.IntN(len(smNumPool))]
				case 1:
					api = smStrPool[r.IntN(len(smStrPool))]
				default:
					api, _, _ = smGenValue(c, ka.attr, ka.isInt, oids)
				}
			}
			items = append(items, smItemStr(1+r.IntN(6), api, ka.attr != ""))
		}
		if m == 0 {
			ss[k] = "-"
		} else {
			ss[k] = strings.Join(items, ",")
		}
	}
	all := "-"
	if ns > 0 {
		all = strings.Join(ss, "/")
	}
	var sb strings.Builder
	for k := 0; k < r.IntN(ns+2); k++ {
		sb.WriteByte("01"[r.IntN(2)])
	}
	mores := sb.String()
	if mores == "" {
		mores = "-"
	}
	ci := 0
	if ka.isInt {
		ci = 1
	}
	lim := r.IntN(8)
	ops := []string{fmt.Sprintf("smerge merge lim=%d attr=%s int=%d sets=%s mores=%s sorted=0", lim, hex.EncodeToString([]byte(ka.attr)), ci, all, mores)}
	if ns > 0 && lim > 0 {
		ops = append(ops, fmt.Sprintf("smerge calcmax lim=%d sets=%s", lim, all))
	}
	return ops
}

func smGenCursor(c *runCtx, oids [][]byte) []string {
	r := c.rng
	attrs := []string{object.FilterOwnerID, object.FilterPayloadChecksum, object.FilterSplitID, object.FilterParentID,
		object.FilterFirstSplitObject, smAssociate, "N", "S", object.FilterType, object.FilterVersion, object.FilterCreationEpoch,
		"$Object:homomorphicHash", object.FilterRoot, "X"}
	attr := attrs[r.IntN(len(attrs))]
	op := []string{"str", "str", "str", "int", "int", "np", "nil"}[r.IntN(7)]
	var api string
	switch r.IntN(8) {
	case 0:
		api = smNumPool[r.IntN(len(smNumPool))]
	case 1:
		api = smStrPool[r.IntN(len(smStrPool))]
	case 2:
		// right family, wrong length
		api = []string{hex.EncodeToString(make([]byte, 31)), hex.EncodeToString(make([]byte, 33)), strings.Repeat("0", 65), strings.Repeat("g", 64),
			strings.ToUpper(hex.EncodeToString(bytes.Repeat([]byte{0xab}, 32))), hex.EncodeToString(bytes.Repeat([]byte{0x1c}, 64)),
			"00000000-0000-0000-0000-00000000000", "00000000-0000-0000-0000_000000000000", "0000000g-0000-0000-0000-000000000000",
			base58.Encode(make([]byte, 31)), "0OIl", "1", ""}[r.IntN(13)]
	default:
		if attr == "$Object:homomorphicHash" {
			api = hex.EncodeToString(bytes.Repeat([]byte{byte(r.IntN(256))}, 64))
		} else {
			api, _, _ = smGenValue(c, attr, op == "int" && (attr == "N" || attr == object.FilterCreationEpoch), oids)
		}
	}
	id := 1 + r.IntN(300)
	item := smItemStr(id, api, r.IntN(12) > 0)
	ops := []string{fmt.Sprintf("smerge cursor attr=%s op=%s item=%s", hex.EncodeToString([]byte(attr)), op, item)}
	// feed the cursor the code computes back into PreprocessSearchQuery, also damaged
	f, _ := smFilter(attr, op)
	it, _ := smParseItem(item)
	var cur []byte
	func() {
		defer func() { _ = recover() }()
		cur, _ = objectcore.CalculateCursor(f, it)
	}()
	if len(cur) > 0 {
		ci := 0
		if op == "int" {
			ci = 1
		}
		accAttr := attr
		if attr == object.FilterRoot {
			ci = 0
		}
		if op == "nil" || op == "np" || !strings.Contains(item, ":") || strings.HasSuffix(item, ":~") {
			accAttr = ""
		}
		ops = append(ops, fmt.Sprintf("smerge accept attr=%s int=%d cur=%s", hex.EncodeToString([]byte(accAttr)), ci, hex.EncodeToString(cur)))
		d := append([]byte(nil), cur...)
		switch r.IntN(6) {
		case 0:
			d = d[:len(d)-1]
		case 1:
			d = append(d, 0)
		case 2:
			d[r.IntN(len(d))] ^= byte(1 + r.IntN(255))
		case 3:
			if len(d) > 33 {
				d[len(d)-33] = byte(r.IntN(2))
			}
		case 4:
			d[0] ^= 0x20
		case 5:
			d = d[:r.IntN(len(d))+1]
		}
		ci2 := r.IntN(2)
		if attr == object.FilterRoot { // ROOT/PHY filters are always string-equal ones
			ci2 = 0
		}
		ops = append(ops, fmt.Sprintf("smerge accept attr=%s int=%d cur=%s", hex.EncodeToString([]byte(attr)), ci2, hex.EncodeToString(d)),
			fmt.Sprintf("smerge accept attr= int=0 cur=%s", hex.EncodeToString(d)))
	}
	return ops
}

func smergeGen(c *runCtx, run func([]string)) {
	oids := smOIDPool()
	// direct streams: many small self-contained cases per sequence
	for s := 0; s < c.n(40, 1500); s++ {
		var ops []string
		for i := 0; i < 25; i++ {
			ops = append(ops, smGenMerge(c, oids)...)
		}
		for i := 0; i < 8; i++ {
			ops = append(ops, smGenMalformed(c, oids)...)
		}
		for i := 0; i < 12; i++ {
			ops = append(ops, smGenCursor(c, oids)...)
		}
		run(ops)
	}
	// worlds
	for s := 0; s < c.n(36, 1500); s++ {
		run(smGenWorld(c))
	}
}
