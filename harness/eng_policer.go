package main

import (
	"bytes"
	"context"
	"crypto/ecdsa"
	"crypto/elliptic"
	"crypto/rand"
	"errors"
	"fmt"
	"io"
	"os"
	"sort"
	"strconv"
	"strings"
	"sync"
	"time"

	clientcore "github.com/nspcc-dev/neofs-node/pkg/core/client"
	objectcore "github.com/nspcc-dev/neofs-node/pkg/core/object"
	"github.com/nspcc-dev/neofs-node/pkg/local_object_storage/engine"
	putsvc "github.com/nspcc-dev/neofs-node/pkg/services/object/put"
	objutil "github.com/nspcc-dev/neofs-node/pkg/services/object/util"
	"github.com/nspcc-dev/neofs-node/pkg/services/policer"
	"github.com/nspcc-dev/neofs-node/pkg/services/replicator"
	"github.com/nspcc-dev/neofs-node/pkg/util/verifbridge"
	apistatus "github.com/nspcc-dev/neofs-sdk-go/client/status"
	neofscrypto "github.com/nspcc-dev/neofs-sdk-go/crypto"
	"github.com/nspcc-dev/neofs-sdk-go/netmap"
	"github.com/nspcc-dev/neofs-sdk-go/object"
	oid "github.com/nspcc-dev/neofs-sdk-go/object/id"
	"go.uber.org/zap"
)

func init() {
	engines["policer"] = seqRunner{gen: policerGen, exec: policerExec}.engine()
}

// ---------------------------------------------------------------------------------------------
// The fixture: the REAL policer decision code (processObject and everything below it) and the REAL
// replicator (HandleTask) over a real storage engine holding the object; the network, the remote HEAD
// answers and the remote nodes' replication endpoints are fakes scripted by the op line.

const polMaxNode = 9

func polNode(id int, maint bool) netmap.NodeInfo {
	var n netmap.NodeInfo
	k := make([]byte, 33)
	k[0] = 2
	k[32] = byte(id)
	n.SetPublicKey(k)
	n.SetNetworkEndpoints("/ip4/10.0.0." + strconv.Itoa(id) + "/tcp/8080")
	if maint {
		n.SetMaintenance()
	} else {
		n.SetOnline()
	}
	return n
}

func polNodeID(n netmap.NodeInfo) int { return int(n.PublicKey()[32]) }

// polCase is the script of the current pass; the long-lived fakes read it.
type polCase struct {
	me     int
	ans    string // per node id (1-based): h n m e
	repl   string // per node id: 1 0
	mtx    sync.Mutex
	heads  []int        // remote HEADs issued, in order
	headOK map[int]bool // nodes whose header was read
	stored map[int]bool // nodes whose replication endpoint accepted the object
	tasks  []polTask
	// cluster mode (C27): holders of the object; HEAD answers and stores go through it
	cluster map[int]bool
	down    map[int]bool
	maintc  map[int]bool // nodes in the MAINTENANCE state of the network map (cluster mode)
	// op `task`: the context of HandleTask is cancelled while the object is being sent to node cutAt
	cutAt     int
	cutStored bool // ... after the node stored the object and answered
	cancel    context.CancelFunc
	// op `recreate`: payloads of the parts of the object (what a re-created part must carry)
	wantParts [][]byte
	badParts  []string
}

type polTask struct {
	q     int
	nodes []int
	done  []int
	part  int // index of the EC part carried by the task itself, -1 when the task carries no object
}

type polFixture struct {
	dir  string
	eng  *engine.StorageEngine
	repl *replicator.Replicator
	cur  *polCase
}

var polFix *polFixture

type polLocalKey struct{ f *polFixture }

func (k polLocalKey) IsLocalNodePublicKey(b []byte) bool {
	return len(b) == 33 && int(b[32]) == k.f.cur.me
}

// polClient is the API client of one remote node: only ReplicateObject is ever used by the replicator.
type polClient struct {
	clientcore.MultiAddressClient
	f  *polFixture
	id int
}

var errPolRefused = errors.New("remote node refused the object")

func (c polClient) ReplicateObject(ctx context.Context, id oid.ID, src io.ReadSeeker, _ neofscrypto.Signer, _ bool) (*neofscrypto.Signature, error) {
	// the replicator shares one stream between the nodes of a task (client.DemuxReplicatedObject)
	if _, err := src.Seek(0, io.SeekStart); err != nil {
		return nil, err
	}
	b, err := io.ReadAll(src)
	if err != nil {
		return nil, err
	}
	var obj object.Object
	if err := obj.Unmarshal(b); err != nil {
		return nil, fmt.Errorf("remote node got a broken object: %w", err)
	}
	if obj.GetID() != id {
		return nil, errors.New("remote node got another object")
	}
	cs := c.f.cur
	cs.mtx.Lock()
	defer cs.mtx.Unlock()
	ok := c.id >= 1 && c.id <= len(cs.repl) && cs.repl[c.id-1] == '1'
	if cs.cluster != nil {
		ok = !cs.down[c.id] && !cs.maintc[c.id]
	}
	if cs.cutAt == c.id && cs.cancel != nil {
		// the caller gives up (shutdown) while this transfer is in flight
		cs.cancel()
		if !cs.cutStored {
			return nil, fmt.Errorf("transfer interrupted: %w", ctx.Err())
		}
	}
	if !ok {
		return nil, errPolRefused
	}
	cs.stored[c.id] = true
	if cs.cluster != nil {
		cs.cluster[c.id] = true
	}
	return nil, nil
}

type polClientCons struct{ f *polFixture }

func (c polClientCons) Get(_ context.Context, n netmap.NodeInfo) (clientcore.MultiAddressClient, error) {
	return polClient{f: c.f, id: polNodeID(n)}, nil
}

// polRecorder wraps the real replicator: records every task and the successes it reports.
type polRecorder struct{ f *polFixture }

type polResult struct {
	inner replicator.TaskResult
	t     *polTask
}

func (r polResult) SubmitSuccessfulReplication(n netmap.NodeInfo) {
	r.t.done = append(r.t.done, polNodeID(n))
	r.inner.SubmitSuccessfulReplication(n)
}

func (r polRecorder) HandleTask(ctx context.Context, task replicator.Task, res replicator.TaskResult) {
	t := polTask{q: int(task.VerifCopiesNumber()), part: -1}
	for _, n := range task.Nodes() {
		t.nodes = append(t.nodes, polNodeID(n))
	}
	if obj := task.VerifObject(); obj != nil {
		t.part = policer.VerifECPartIndex(*obj)
		cs := r.f.cur
		cs.mtx.Lock()
		if t.part < 0 || t.part >= len(cs.wantParts) || !bytes.Equal(obj.Payload(), cs.wantParts[t.part]) ||
			obj.GetID() != task.VerifObjectAddress().Object() {
			cs.badParts = append(cs.badParts, fmt.Sprintf("part %d", t.part))
		}
		cs.mtx.Unlock()
	}
	r.f.repl.HandleTask(ctx, task, polResult{inner: res, t: &t})
	cs := r.f.cur
	cs.mtx.Lock()
	cs.tasks = append(cs.tasks, t)
	cs.mtx.Unlock()
}

const (
	polStoredObj  = 1 // object 1/1 is in the local storage engine
	polMissingObj = 2 // object 1/2 is not (the replicator cannot read it)
)

func polSetup() *polFixture {
	if polFix != nil {
		return polFix
	}
	f := &polFixture{dir: scratchDir("policer")}
	f.eng, _ = newEngine(f.dir, 1, shardCfg{})
	obj := mkObject(1, polStoredObj, detPayload(64, 3))
	if err := f.eng.Put(context.Background(), obj, nil); err != nil {
		panic(err)
	}
	key, err := ecdsa.GenerateKey(elliptic.P256(), rand.Reader)
	if err != nil {
		panic(err)
	}
	lg := zap.NewNop()
	if os.Getenv("VH_POLICER_LOG") != "" {
		lg, _ = zap.NewDevelopment()
	}
	f.repl = replicator.New(
		replicator.WithLogger(lg),
		replicator.WithPutTimeout(5*time.Second),
		replicator.WithLocalStorage(f.eng),
		replicator.WithLocalNodeKey(polLocalKey{f}),
		replicator.WithRemoteSender(putsvc.NewRemoteSender(objutil.NewKeyStorage(key, nil, nil), polClientCons{f})),
	)
	polFix = f
	return f
}

func polTeardown() {
	if polFix != nil {
		polFix.eng.Close()
		os.RemoveAll(polFix.dir)
		polFix = nil
	}
}

var (
	polErrNotFound = fmt.Errorf("remote head: %w", apistatus.ErrObjectNotFound)
	polErrMaint    = fmt.Errorf("remote head: %w", apistatus.ErrNodeUnderMaintenance)
	polErrOther    = errors.New("remote head: connection refused")
)

// ---------------------------------------------------------------------------------------------
// one pass

type polPassIn struct {
	typ    string
	ec     []int // nil or [rule, part]
	net    string
	rep    []int
	ecr    [][2]int
	lists  [][]int
	me     int
	innm   bool
	maint  map[int]bool
	ans    string
	repl   string
	stored bool
	shards int
	legacy bool
}

func polParseLists(s string) [][]int {
	if s == "-" || s == "" {
		return nil
	}
	var out [][]int
	for _, l := range strings.Split(s, "/") {
		var xs []int
		if l != "-" {
			for _, t := range strings.Split(l, ".") {
				v, err := strconv.Atoi(t)
				if err != nil {
					panic("bad list " + s)
				}
				xs = append(xs, v)
			}
		}
		out = append(out, xs)
	}
	return out
}

func polParsePairs(s string) [][2]int {
	if s == "-" || s == "" {
		return nil
	}
	var out [][2]int
	for _, l := range strings.Split(s, ",") {
		t := strings.Split(l, ".")
		if len(t) != 2 {
			panic("bad pair " + s)
		}
		a, err1 := strconv.Atoi(t[0])
		b, err2 := strconv.Atoi(t[1])
		if err1 != nil || err2 != nil {
			panic("bad pair " + s)
		}
		out = append(out, [2]int{a, b})
	}
	return out
}

func polParsePass(o opLine) (in polPassIn, ok bool) {
	defer func() {
		if recover() != nil {
			ok = false
		}
	}()
	for _, k := range []string{"typ", "ec", "net", "rep", "ecr", "lists", "me", "innm", "maint", "ans", "repl", "stored", "shards", "legacy"} {
		if _, has := o.kv[k]; !has {
			return in, false
		}
	}
	in.typ = o.kv["typ"]
	if in.typ != "REG" && in.typ != "TS" && in.typ != "LOCK" && in.typ != "LINK" {
		return in, false
	}
	if o.kv["ec"] != "-" {
		p := polParsePairs(o.kv["ec"])
		if len(p) != 1 {
			return in, false
		}
		in.ec = []int{p[0][0], p[0][1]}
	}
	in.net = o.kv["net"]
	if in.net != "ok" && in.net != "nocnr" && in.net != "err" {
		return in, false
	}
	in.rep = o.ints("rep")
	in.ecr = polParsePairs(o.kv["ecr"])
	in.lists = polParseLists(o.kv["lists"])
	in.me = o.int("me")
	in.innm = o.kv["innm"] == "1"
	in.maint = map[int]bool{}
	for _, m := range o.ints("maint") {
		in.maint[m] = true
	}
	in.ans, in.repl = o.kv["ans"], o.kv["repl"]
	in.stored = o.kv["stored"] == "1"
	in.shards = o.int("shards")
	in.legacy = o.kv["legacy"] == "1"
	for _, k := range []string{"innm", "stored", "legacy"} {
		if o.kv[k] != "0" && o.kv[k] != "1" {
			return in, false
		}
	}
	if len(in.ans) != len(in.repl) || strings.Trim(in.ans, "hnme") != "" || strings.Trim(in.repl, "01") != "" {
		return in, false
	}
	for _, l := range in.lists {
		for _, n := range l {
			if n < 1 || n > len(in.ans) {
				return in, false
			}
		}
	}
	if in.net == "ok" && len(in.lists) != len(in.rep)+len(in.ecr) {
		return in, false
	}
	if in.me < 0 || in.me > 200 || in.shards < 0 || len(in.ans) > 200 {
		return in, false
	}
	for _, r := range in.rep {
		if r < 0 {
			return in, false
		}
	}
	return in, true
}

type polPassOut struct {
	deleted []bool
	shards  bool
	cs      *polCase
}

func polObjType(t string) object.Type {
	switch t {
	case "TS":
		return object.TypeTombstone
	case "LOCK":
		return object.TypeLock
	case "LINK":
		return object.TypeLink
	}
	return object.TypeRegular
}

// polRunPass runs the real processObject of a policer whose environment is scripted by `in`.
func polRunPass(f *polFixture, in polPassIn, cs *polCase) polPassOut {
	f.cur = cs
	env := &policer.VerifEnv{InNetmap: in.innm, Replicator: polRecorder{f}}
	lk := polNode(in.me, false).PublicKey()
	if in.me == 0 || in.me > 200 {
		lk = []byte{0xff}
	}
	env.LocalKey = lk
	switch in.net {
	case "nocnr":
		env.NetErr = fmt.Errorf("read container: %w", apistatus.ErrContainerNotFound)
	case "err":
		env.NetErr = errors.New("network map is not available")
	}
	for _, l := range in.lists {
		nl := make([]netmap.NodeInfo, 0, len(l))
		for _, n := range l {
			nl = append(nl, polNode(n, in.maint[n]))
		}
		env.NodeLists = append(env.NodeLists, nl)
	}
	for _, r := range in.rep {
		env.RepRules = append(env.RepRules, uint(r))
	}
	for _, r := range in.ecr {
		env.ECRules = append(env.ECRules, [2]uint8{uint8(r[0]), uint8(r[1])})
	}
	env.Head = func(n netmap.NodeInfo, _ oid.Address) error {
		id := polNodeID(n)
		cs.mtx.Lock()
		defer cs.mtx.Unlock()
		cs.heads = append(cs.heads, id)
		a := byte('e')
		if cs.cluster != nil {
			switch {
			case cs.down[id]:
				a = 'e'
			case cs.maintc[id]:
				a = 'm'
			case cs.cluster[id]:
				a = 'h'
			default:
				a = 'n'
			}
		} else if id >= 1 && id <= len(cs.ans) {
			a = cs.ans[id-1]
		}
		switch a {
		case 'h':
			cs.headOK[id] = true
			return nil
		case 'n':
			return polErrNotFound
		case 'm':
			return polErrMaint
		}
		return polErrOther
	}
	objNum := polStoredObj
	if !in.stored {
		objNum = polMissingObj
	}
	awa := objectcore.AddressWithAttributes{Address: numAddr(1, objNum), Type: polObjType(in.typ), Attributes: []string{"", "", ""}}
	if in.ec != nil {
		awa.Attributes[0], awa.Attributes[1] = policer.VerifECAttributes(in.ec[0], in.ec[1])
		par := numOID(77)
		awa.Attributes[2] = string(par[:])
	}
	for i := 0; i < in.shards; i++ {
		awa.ShardIDs = append(awa.ShardIDs, "shard"+strconv.Itoa(i))
	}
	p := policer.VerifNew(env)
	p.VerifProcessObject(context.Background(), awa)
	return polPassOut{deleted: env.Deleted, shards: len(env.ShardDrops) > 0, cs: cs}
}

func polDots(xs []int) string {
	if len(xs) == 0 {
		return "-"
	}
	s := make([]string, len(xs))
	for i, x := range xs {
		s[i] = strconv.Itoa(x)
	}
	return strings.Join(s, ".")
}

func polShowOut(out polPassOut) string {
	dels := "-"
	if len(out.deleted) > 0 {
		dels = ""
		for _, r := range out.deleted {
			if r {
				dels += "R"
			} else {
				dels += "D"
			}
		}
	}
	tasks := "-"
	if len(out.cs.tasks) > 0 {
		var ts []string
		for _, t := range out.cs.tasks {
			ts = append(ts, fmt.Sprintf("%d:%s:%s", t.q, polDots(t.nodes), polDots(t.done)))
		}
		tasks = strings.Join(ts, ";")
	}
	sh := 0
	if out.shards {
		sh = 1
	}
	return fmt.Sprintf("=> ok del=%s shards=%d heads=%s tasks=%s", dels, sh, joinInts(out.cs.heads), tasks)
}

func polContains(xs []int, x int) bool {
	for _, y := range xs {
		if x == y {
			return true
		}
	}
	return false
}

// polOracle evaluates the property's own sentences on what the real code did (C26) and the replicator's
// reporting rule (C27's last sentence), from the fakes' logs only.
func polOracle(c *runCtx, in polPassIn, out polPassOut, desc string) {
	cs := out.cs
	polReplicatorOracle(c, in.me, cs, desc)
	polQuantityOracle(c, in, cs, desc)

	redundant := 0
	for _, r := range out.deleted {
		if r {
			redundant++
		}
	}
	confirmed := map[int]bool{} // header read from the node, or replication to it succeeded (and it stored)
	for n := range cs.headOK {
		confirmed[n] = true
	}
	for _, t := range cs.tasks {
		for _, n := range t.done {
			if cs.stored[n] {
				confirmed[n] = true
			}
		}
	}
	delete(confirmed, in.me)
	if in.net != "ok" {
		c.oracle("no-redundancy-drop-without-placement", redundant == 0, desc)
		return
	}
	if in.ec != nil && len(in.ecr) > 0 {
		if redundant == 0 {
			return
		}
		// EC part: dropped only if a node earlier in the part's node sequence is confirmed to hold it
		if in.ec[0] >= len(in.ecr) {
			c.oracle("ec-part-dropped-only-with-confirmed-better-holder", false, desc)
			return
		}
		r := in.ecr[in.ec[0]]
		nodes := in.lists[len(in.rep)+in.ec[0]]
		better := false
		for i := range verifbridge.ECNodeSequenceForPart(in.ec[1], r[0]+r[1], len(nodes)) {
			if nodes[i] == in.me {
				break
			}
			better = better || confirmed[nodes[i]]
		}
		c.oracle("ec-part-dropped-only-with-confirmed-better-holder", better, desc)
		return
	}
	// --- lock and link objects are never removed from container nodes
	inCnr := false
	for _, l := range in.lists {
		inCnr = inCnr || polContains(l, in.me)
	}
	if (in.typ == "LOCK" || in.typ == "LINK") && inCnr {
		c.oracle("lock-link-never-dropped-on-container-node", redundant == 0, desc)
	}
	if redundant == 0 {
		return
	}
	// --- for every REP rule that lists the local node: enough OTHER nodes of the list are confirmed
	okAll := true
	for i, copies := range in.rep {
		if !polContains(in.lists[i], in.me) {
			continue
		}
		cnt := 0
		seen := map[int]bool{}
		for _, n := range in.lists[i] {
			if confirmed[n] && !seen[n] {
				cnt++
			}
			seen[n] = true
		}
		okAll = okAll && cnt >= copies
	}
	c.oracle("drop-only-with-enough-confirmed-holders-per-rule", okAll, desc)
	if !inCnr {
		// a node outside the container gives its copy up only if somebody is confirmed to hold the object
		c.oracle("outside-node-drops-only-with-a-confirmed-holder", len(confirmed) > 0, desc)
	}
	// maintenance / unreachable answers never were the reason: implied by the two assertions above because
	// `confirmed` contains only header reads and acknowledged stores
}

// the replicator never reports more successes than asked, only task nodes, and only nodes that stored the object
func polReplicatorOracle(c *runCtx, me int, cs *polCase, desc string) {
	for _, t := range cs.tasks {
		okT := len(t.done) <= t.q
		seen := map[int]bool{}
		for _, n := range t.done {
			okT = okT && polContains(t.nodes, n) && cs.stored[n] && !seen[n] && n != me
			seen[n] = true
		}
		c.oracle("replicator-reports-only-real-stores-within-quantity", okT, desc)
	}
}

// ---------------------------------------------------------------------------------------------
// a cluster of nodes sharing one object (C27)

type polCluster struct {
	typ    string
	rep    []int
	lists  [][]int
	hold   map[int]bool
	full   int  // consecutive full rounds with every node up
	alive  bool // the object had a holder when the stable streak began
	prev   string
	nodes  map[int]bool
	setup  string
	rounds []string
}

func (cl *polCluster) holders() []int {
	var h []int
	for n, ok := range cl.hold {
		if ok {
			h = append(h, n)
		}
	}
	sort.Ints(h)
	return h
}

// required nodes of rule i: the primary nodes (the first REP nodes of the list; every node for LOCK/LINK)
func (cl *polCluster) primaries(i int) []int {
	k := cl.rep[i]
	if cl.typ == "LOCK" || cl.typ == "LINK" {
		k = len(cl.lists[i])
	}
	if k > len(cl.lists[i]) {
		k = len(cl.lists[i])
	}
	return cl.lists[i][:k]
}

func (cl *polCluster) covered(i int) bool {
	k := cl.rep[i]
	if cl.typ == "LOCK" || cl.typ == "LINK" {
		k = len(cl.lists[i])
	}
	cnt := 0
	seen := map[int]bool{}
	for _, n := range cl.lists[i] {
		if cl.hold[n] && !seen[n] {
			cnt++
		}
		seen[n] = true
	}
	return cnt >= k
}

// polRound lets the holders of `order` run the real policer pass one after another against the shared state.
func polRound(c *runCtx, f *polFixture, cl *polCluster, order, down, maint []int, line string) string {
	dn := map[int]bool{}
	for _, d := range down {
		dn[d] = true
	}
	mt := map[int]bool{}
	for _, m := range maint {
		mt[m] = true
	}
	// the convergence sentences of the property are about a stable network map with reachable nodes: nobody down,
	// nobody under maintenance
	isFull := len(down) == 0 && len(maint) == 0
	for n := range cl.nodes {
		isFull = isFull && polContains(order, n)
	}
	for n := range cl.hold {
		isFull = isFull && (!cl.hold[n] || polContains(order, n))
	}
	if isFull && cl.full == 0 {
		cl.alive = len(cl.holders()) > 0
	}
	tasks, realTasks := 0, 0
	var drops []int
	for _, me := range order {
		if !cl.hold[me] || dn[me] || mt[me] {
			continue
		}
		var before []bool
		for i := range cl.rep {
			before = append(before, cl.covered(i))
		}
		cs := &polCase{me: me, headOK: map[int]bool{}, stored: map[int]bool{}, cluster: cl.hold, down: dn, maintc: mt}
		in := polPassIn{typ: cl.typ, net: "ok", rep: cl.rep, lists: cl.lists, me: me, innm: true, maint: mt, stored: true, shards: 1}
		out := polRunPass(f, in, cs)
		if len(out.deleted) > 0 {
			delete(cl.hold, me)
			drops = append(drops, me)
		}
		tasks += len(cs.tasks)
		for _, t := range cs.tasks {
			if len(t.nodes) > 0 {
				realTasks++
			} else {
				c.count("task-without-candidates")
			}
		}
		desc := fmt.Sprintf("%s | %s | pass of node %d: %s -> holders %v", cl.setup, line, me, polShowOut(out), cl.holders())
		polReplicatorOracle(c, me, cs, desc)
		polQuantityOracle(c, in, cs, desc)
		for i := range cl.rep {
			// the policer never takes a rule below its required number of copies
			c.oracle("pass-keeps-covered-rule-covered", !before[i] || cl.covered(i), desc)
		}
	}
	obs := fmt.Sprintf("=> ok hold=%s tasks=%d drops=%s", joinInts(cl.holders()), tasks, joinInts(drops))
	if isFull {
		cl.full++
	} else {
		cl.full = 0
	}
	desc := cl.setup + " | " + strings.Join(cl.rounds, " | ") + " | " + line + " " + obs
	if cl.full >= polConvergeRounds && cl.alive {
		all := true
		for i := range cl.rep {
			if len(cl.lists[i]) < cl.rep[i] {
				continue // the rule cannot be met by its list
			}
			all = all && cl.covered(i)
			for _, n := range cl.primaries(i) {
				all = all && cl.hold[n]
			}
		}
		c.oracle("stable-cycles-restore-required-copies-on-primary-nodes", all, desc)
	}
	if cl.full >= polConvergeRounds+1 && cl.alive {
		// a task without candidate nodes replicates nothing (it is a false "shortage" report, counted in the histogram)
		c.oracle("stable-cycles-stop-replicating", realTasks == 0, desc)
		if cl.full >= polConvergeRounds+2 { // redundant copies were cleaned in the cycle before: nothing moves any more
			c.oracle("stable-cycles-reach-a-fixed-point", len(drops) == 0, desc)
		}
		if realTasks == 0 && tasks > 0 {
			c.count("quiescent-round-with-empty-tasks")
		}
	}
	return obs
}

// cycles of a stable network after which every rule must be met (and one more: no further tasks)
const polConvergeRounds = 2

func policerExec(c *runCtx, ops []string) {
	f := polSetup()
	var cl *polCluster
	c.independent = true
	for _, line := range ops {
		if n := parseOp(line).name; n == "cluster" || n == "round" {
			c.independent = false
		}
	}
	for _, line := range ops {
		o := parseOp(line)
		c.count(o.name)
		switch o.name {
		case "pass":
			in, ok := polParsePass(o)
			if !ok {
				c.emit(line, "=> bad-op")
				continue
			}
			cs := &polCase{me: in.me, ans: in.ans, repl: in.repl, headOK: map[int]bool{}, stored: map[int]bool{}}
			out := polRunPass(f, in, cs)
			obs := polShowOut(out)
			c.emit(line, obs)
			polOracle(c, in, out, line+"  "+obs)
			c.count("del:" + strings.SplitN(strings.SplitN(obs, "del=", 2)[1], " ", 2)[0])
			if len(cs.tasks) > 0 {
				c.count("with-task")
			}
			if len(cs.heads) > 0 && (len(cs.tasks) > 0 || len(out.deleted) > 0) {
				c.nontrivial(line)
			}
		case "cluster":
			ok := true
			func() {
				defer func() {
					if recover() != nil {
						ok = false
					}
				}()
				n := &polCluster{typ: o.kv["typ"], rep: o.ints("rep"), lists: polParseLists(o.kv["lists"]), hold: map[int]bool{}, nodes: map[int]bool{}, setup: line}
				for _, k := range []string{"typ", "rep", "lists", "hold"} {
					if _, has := o.kv[k]; !has {
						ok = false
					}
				}
				if n.typ != "REG" && n.typ != "TS" && n.typ != "LOCK" && n.typ != "LINK" || len(n.lists) != len(n.rep) {
					ok = false
				}
				for _, r := range n.rep {
					ok = ok && r >= 0
				}
				for _, l := range n.lists {
					for _, x := range l {
						ok = ok && x >= 1 && x <= 200
						n.nodes[x] = true
					}
				}
				for _, x := range o.ints("hold") {
					ok = ok && x >= 1 && x <= 200
					n.hold[x] = true
				}
				if ok {
					cl = n
				}
			}()
			if !ok {
				c.emit(line, "=> bad-op")
				continue
			}
			c.emit(line, "=> ok hold="+joinInts(cl.holders()))
		case "round":
			var order, down, maint []int
			ok := cl != nil
			func() {
				defer func() {
					if recover() != nil {
						ok = false
					}
				}()
				if _, has := o.kv["order"]; !has {
					ok = false
				}
				if _, has := o.kv["down"]; !has {
					ok = false
				}
				if _, has := o.kv["maint"]; !has {
					ok = false
				}
				order, down, maint = o.ints("order"), o.ints("down"), o.ints("maint")
				for _, x := range append(append(append([]int(nil), order...), down...), maint...) {
					ok = ok && x >= 0
				}
			}()
			if !ok {
				if cl == nil && parseOpOK(o, "order", "down", "maint") {
					// a round without a cluster: the model runs it on the empty cluster
					c.emit(line, "=> ok hold=- tasks=0 drops=-")
					continue
				}
				c.emit(line, "=> bad-op")
				continue
			}
			obs := polRound(c, f, cl, order, down, maint, line)
			c.emit(line, obs)
			cl.rounds = append(cl.rounds, line+" "+obs)
			c.nontrivial(cl.setup + strings.Join(cl.rounds, "|"))
		case "task":
			polExecTask(c, f, o, line)
		case "recreate":
			polExecRecreate(c, f, o, line)
		default:
			c.emit(line, "=> bad-op")
		}
	}
}

func parseOpOK(o opLine, keys ...string) (ok bool) {
	defer func() {
		if recover() != nil {
			ok = false
		}
	}()
	for _, k := range keys {
		if _, has := o.kv[k]; !has {
			return false
		}
		for _, x := range o.ints(k) {
			if x < 0 {
				return false
			}
		}
	}
	return true
}

// ---------------------------------------------------------------------------------------------
// generation

func polPassLine(typ string, ec string, net string, rep []int, ecr string, lists [][]int, me int, innm int, maint []int, ans, repl string, stored, shards, legacy int) string {
	var ls []string
	for _, l := range lists {
		ls = append(ls, polDots(l))
	}
	lstr := "-"
	if len(ls) > 0 {
		lstr = strings.Join(ls, "/")
	}
	sort.Ints(maint)
	return fmt.Sprintf("policer pass typ=%s ec=%s net=%s rep=%s ecr=%s lists=%s me=%d innm=%d maint=%s ans=%s repl=%s stored=%d shards=%d legacy=%d",
		typ, ec, net, joinInts(rep), ecr, lstr, me, innm, joinInts(maint), ans, repl, stored, shards, legacy)
}

func polAllStrings(alpha string, n int) []string {
	out := []string{""}
	for i := 0; i < n; i++ {
		var nx []string
		for _, p := range out {
			for _, ch := range alpha {
				nx = append(nx, p+string(ch))
			}
		}
		out = nx
	}
	return out
}

// policerClusterGen: small clusters with random initial replica distributions; some cycles of an unstable
// network (nodes down, only some nodes run), then cycles of a stable one.
func policerClusterGen(c *runCtx, run func([]string)) {
	for i := 0; i < c.n(700, 20000); i++ {
		n := 3 + c.rng.IntN(4)
		nv := 1 + c.rng.IntN(2)
		if c.rng.IntN(6) == 0 {
			nv = 3
		}
		var lists [][]int
		var rep []int
		for v := 0; v < nv; v++ {
			perm := c.rng.Perm(n)
			k := 1 + c.rng.IntN(n)
			l := make([]int, k)
			for j := range l {
				l[j] = perm[j] + 1
			}
			lists = append(lists, l)
			rep = append(rep, 1+c.rng.IntN(min(3, k)))
		}
		typ := []string{"REG", "REG", "REG", "REG", "TS", "LOCK", "LINK"}[c.rng.IntN(7)]
		var hold []int
		for len(hold) == 0 {
			for x := 1; x <= n+1; x++ { // n+1: a node that is in no list
				if c.rng.IntN(3) == 0 {
					hold = append(hold, x)
				}
			}
		}
		var ls []string
		for _, l := range lists {
			ls = append(ls, polDots(l))
		}
		ops := []string{fmt.Sprintf("policer cluster typ=%s rep=%s lists=%s hold=%s", typ, joinInts(rep), strings.Join(ls, "/"), joinInts(hold))}
		for u := c.rng.IntN(4); u > 0; u-- {
			var order, down, maint []int
			for _, x := range c.rng.Perm(n + 1) {
				if c.rng.IntN(3) != 0 {
					order = append(order, x+1)
				}
			}
			for x := 1; x <= n+1; x++ {
				if c.rng.IntN(4) == 0 {
					down = append(down, x)
				}
			}
			for x := 1; x <= n+1; x++ {
				if c.rng.IntN(6) == 0 {
					maint = append(maint, x)
				}
			}
			ops = append(ops, fmt.Sprintf("policer round order=%s down=%s maint=%s", joinInts(order), joinInts(down), joinInts(maint)))
		}
		if c.rng.IntN(3) == 0 {
			// cycles of a network in which everybody is reachable except ONE node that stays in the MAINTENANCE state
			// of the network map (any node: primary, backup, outsider)
			m := 1 + c.rng.IntN(n+1)
			for s := 0; s < 2; s++ {
				var order []int
				for _, x := range c.rng.Perm(n + 1) {
					order = append(order, x+1)
				}
				ops = append(ops, fmt.Sprintf("policer round order=%s down=- maint=%d", joinInts(order), m))
			}
		}
		for s := 0; s < polConvergeRounds+2; s++ {
			var order []int
			for _, x := range c.rng.Perm(n + 1) {
				order = append(order, x+1)
			}
			ops = append(ops, fmt.Sprintf("policer round order=%s down=- maint=-", joinInts(order)))
		}
		run(ops)
	}
	run([]string{"policer round order=1,2 down=- maint=-", "policer cluster typ=REG rep=1,1 lists=1.2 hold=1", "policer cluster typ=REG rep=1 lists=1.2 hold=0",
		"policer cluster typ=REG rep=1 lists=1.2", "policer round order=1", "policer round order=1 down=-"})
}

func policerGen(c *runCtx, run func([]string)) {
	defer polTeardown()
	if c.prop == "C27" {
		policerClusterGen(c, run)
		policerMaintGen(c, run)
		policerTaskGen(c, run)
		return
	}
	if c.prop == "C22" {
		policerRecreateGen(c, run)
		return
	}
	var ops []string
	types := []string{"REG", "TS", "LOCK", "LINK"}
	randBits := func(n int, pOne int) string {
		b := make([]byte, n)
		for i := range b {
			b[i] = '0'
			if c.rng.IntN(100) < pOne {
				b[i] = '1'
			}
		}
		return string(b)
	}
	// (1) exhaustive small scope: one list of L distinct nodes, the local node at every position or absent,
	// every answer table, copies 1..L
	maxL := 3
	if c.thorough() {
		maxL = 4
	}
	for L := 1; L <= maxL; L++ {
		list := make([]int, L)
		for i := range list {
			list[i] = i + 1
		}
		for me := 0; me <= L; me++ {
			meID := me
			if me == 0 {
				meID = polMaxNode // a node that is in no list
			}
			for _, ans := range polAllStrings("hnme", L) {
				for copies := 1; copies <= L && copies <= 3; copies++ {
					for _, typ := range types {
						if typ != "REG" && !c.thorough() && c.rng.IntN(3) != 0 {
							continue
						}
						var maint []int
						if c.rng.IntN(4) == 0 {
							maint = append(maint, 1+c.rng.IntN(L))
						}
						ops = append(ops, polPassLine(typ, "-", "ok", []int{copies}, "-", [][]int{list}, meID, 1, maint, ans, randBits(L, 60), 1, 1+c.rng.IntN(2), 0))
					}
				}
			}
		}
	}
	// (2) seeded larger placements: 1..3 REP lists over up to 6 nodes (lists overlap), plus EC lists
	randList := func(n, maxLen int) []int {
		perm := c.rng.Perm(n)
		k := 1 + c.rng.IntN(maxLen)
		if k > n {
			k = n
		}
		out := make([]int, k)
		for i := range out {
			out[i] = perm[i] + 1
		}
		return out
	}
	randAns := func(n int) string {
		b := make([]byte, n)
		w := [][]int{{40, 35, 15, 10}, {25, 25, 25, 25}, {60, 30, 5, 5}}[c.rng.IntN(3)]
		for i := range b {
			r := c.rng.IntN(100)
			switch {
			case r < w[0]:
				b[i] = 'h'
			case r < w[0]+w[1]:
				b[i] = 'n'
			case r < w[0]+w[1]+w[2]:
				b[i] = 'm'
			default:
				b[i] = 'e'
			}
		}
		return string(b)
	}
	for i := 0; i < c.n(5000, 120000); i++ {
		n := 2 + c.rng.IntN(5) // universe 2..6
		nv := 1 + c.rng.IntN(3)
		var lists [][]int
		var rep []int
		for v := 0; v < nv; v++ {
			l := randList(n, 6)
			lists = append(lists, l)
			rep = append(rep, 1+c.rng.IntN(min(3, len(l))))
		}
		ecr := "-"
		if c.rng.IntN(4) == 0 { // a container with EC rules too: TS/LOCK/LINK broadcast over them
			ne := 1 + c.rng.IntN(2)
			var rs []string
			for e := 0; e < ne; e++ {
				l := randList(n, 6)
				lists = append(lists, l)
				rs = append(rs, fmt.Sprintf("%d.%d", 1+c.rng.IntN(3), c.rng.IntN(3)))
			}
			ecr = strings.Join(rs, ",")
			if c.rng.IntN(5) == 0 {
				lists = lists[nv:]
				rep = nil
			}
		}
		me := 1 + c.rng.IntN(n+1)
		if me == n+1 {
			me = polMaxNode
		}
		var maint []int
		for m := 1; m <= n; m++ {
			if c.rng.IntN(6) == 0 && m != me {
				maint = append(maint, m)
			}
		}
		typ := types[[]int{0, 0, 0, 1, 2, 3}[c.rng.IntN(6)]]
		net := "ok"
		if r := c.rng.IntN(40); r == 0 {
			net = "nocnr"
		} else if r == 1 {
			net = "err"
		}
		innm := 1
		if c.rng.IntN(8) == 0 {
			innm = 0
		}
		stored := 1
		if c.rng.IntN(12) == 0 {
			stored = 0
		}
		ec := "-"
		if c.rng.IntN(30) == 0 { // EC attributes on an object processed by REP rules / inconsistent indexes
			ec = fmt.Sprintf("%d.%d", c.rng.IntN(3), c.rng.IntN(5))
			typ = "REG"
		}
		ops = append(ops, polPassLine(typ, ec, net, rep, ecr, lists, me, innm, maint, randAns(n), randBits(n, 65), stored, 1+c.rng.IntN(3), 0))
	}
	// (3) EC parts: one or two EC rules (after 0..1 REP rules), every part index incl. invalid ones
	for i := 0; i < c.n(2500, 60000); i++ {
		n := 2 + c.rng.IntN(5)
		var lists [][]int
		var rep []int
		if c.rng.IntN(3) == 0 {
			l := randList(n, 6)
			lists = append(lists, l)
			rep = append(rep, 1+c.rng.IntN(min(3, len(l))))
		}
		ne := 1 + c.rng.IntN(2)
		var rs []string
		var totals []int
		for e := 0; e < ne; e++ {
			lists = append(lists, randList(n, 6))
			d, p := 1+c.rng.IntN(3), c.rng.IntN(3)
			totals = append(totals, d+p)
			rs = append(rs, fmt.Sprintf("%d.%d", d, p))
		}
		ri := c.rng.IntN(ne)
		pi := c.rng.IntN(totals[ri])
		if c.rng.IntN(25) == 0 {
			ri = ne + c.rng.IntN(2)
		} else if c.rng.IntN(25) == 0 {
			pi = totals[ri] + c.rng.IntN(2)
		}
		me := 1 + c.rng.IntN(n+1)
		if me == n+1 {
			me = polMaxNode
		}
		stored := 1
		if c.rng.IntN(12) == 0 {
			stored = 0
		}
		ops = append(ops, polPassLine("REG", fmt.Sprintf("%d.%d", ri, pi), "ok", rep, strings.Join(rs, ","), lists, me, 1, nil, randAns(n), randBits(n, 65), stored, 1, 0))
	}
	// (4) malformed lines: the model must reject exactly what the harness rejects
	ops = append(ops,
		"policer pass typ=REG",
		"policer pass typ=XX ec=- net=ok rep=1 ecr=- lists=1.2 me=1 innm=1 maint=- ans=hn repl=11 stored=1 shards=1 legacy=0",
		"policer pass typ=REG ec=- net=ok rep=1 ecr=- lists=1.3 me=1 innm=1 maint=- ans=hn repl=11 stored=1 shards=1 legacy=0",
		"policer pass typ=REG ec=- net=ok rep=1,1 ecr=- lists=1.2 me=1 innm=1 maint=- ans=hn repl=11 stored=1 shards=1 legacy=0",
		"policer pass typ=REG ec=- net=ok rep=1 ecr=- lists=1.2 me=1 innm=1 maint=- ans=hx repl=11 stored=1 shards=1 legacy=0",
		"policer nosuchop")
	run(ops)
}
