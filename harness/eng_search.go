package main

// Engine "search" (property C03): real meta.DB.Search / Shard.Search driven through the real
// objectcore.PreprocessSearchQuery with real object.SearchFilters, page after page following the
// returned cursor.  The oracle is a brute-force evaluation of the query over the engine's own list of
// the objects (never looking at the index): available objects satisfying every filter, ordered by
// (stored bytes of the first requested attribute | numeric value, id), cut into the requested pages.

import (
	"bytes"
	"encoding/base64"
	"encoding/hex"
	"errors"
	"fmt"
	"math/big"
	"os"
	"sort"
	"strconv"
	"strings"

	"github.com/google/uuid"
	"github.com/mr-tron/base58"
	objectcore "github.com/nspcc-dev/neofs-node/pkg/core/object"
	meta "github.com/nspcc-dev/neofs-node/pkg/local_object_storage/metabase"
	"github.com/nspcc-dev/neofs-node/pkg/local_object_storage/shard"
	"github.com/nspcc-dev/neofs-sdk-go/checksum"
	"github.com/nspcc-dev/neofs-sdk-go/client"
	cid "github.com/nspcc-dev/neofs-sdk-go/container/id"
	"github.com/nspcc-dev/neofs-sdk-go/object"
	oid "github.com/nspcc-dev/neofs-sdk-go/object/id"
	"github.com/nspcc-dev/neofs-sdk-go/user"
	"github.com/nspcc-dev/neofs-sdk-go/version"
)

func init() {
	engines["search"] = seqRunner{gen: searchGen, exec: searchExec}.engine()
}

// ---------------------------------------------------------------------------- objects

type sObj struct {
	id     int
	typ    string
	verMaj int
	verMin int
	owner  []byte // 25
	ce     uint64
	size   uint64
	cs     []byte // 32
	split  []byte // 16 or nil
	first  int
	par    int
	assoc  int
	attrs  [][2]string
}

func parseSObj(o opLine) (sObj, error) {
	var s sObj
	var err error
	s.id = o.int("o")
	s.typ = o.kv["typ"]
	if _, err = fmt.Sscanf(o.kv["ver"], "%d.%d", &s.verMaj, &s.verMin); err != nil {
		return s, err
	}
	if s.owner, err = hex.DecodeString(o.kv["own"]); err != nil || len(s.owner) != user.IDSize {
		return s, errors.New("bad owner")
	}
	s.ce, s.size = o.u64("ce"), o.u64("size")
	if s.cs, err = hex.DecodeString(o.kv["cs"]); err != nil || len(s.cs) != 32 {
		return s, errors.New("bad checksum")
	}
	if v := o.kv["split"]; v != "-" && v != "" {
		if s.split, err = hex.DecodeString(v); err != nil || len(s.split) != 16 {
			return s, errors.New("bad split")
		}
	}
	s.first, s.par, s.assoc = o.int("first"), o.int("par"), o.int("assoc")
	if v := o.kv["attrs"]; v != "-" && v != "" {
		for _, p := range strings.Split(v, ",") {
			kv := strings.Split(p, ":")
			if len(kv) != 2 {
				return s, errors.New("bad attrs")
			}
			s.attrs = append(s.attrs, [2]string{unhx(kv[0]), unhx(kv[1])})
		}
	}
	return s, nil
}

func (s sObj) line() string {
	sp := "-"
	if s.split != nil {
		sp = hex.EncodeToString(s.split)
	}
	var as []string
	for _, a := range s.attrs {
		as = append(as, hx(a[0])+":"+hx(a[1]))
	}
	at := "-"
	if len(as) > 0 {
		at = strings.Join(as, ",")
	}
	return fmt.Sprintf("search obj o=%d typ=%s ver=%d.%d own=%s ce=%d size=%d cs=%s split=%s first=%d par=%d assoc=%d attrs=%s",
		s.id, s.typ, s.verMaj, s.verMin, hex.EncodeToString(s.owner), s.ce, s.size, hex.EncodeToString(s.cs), sp, s.first, s.par, s.assoc, at)
}

func (s sObj) build() *object.Object {
	var own user.ID
	copy(own[:], s.owner)
	obj := object.New(numCID(1), own)
	obj.SetID(numOID(s.id))
	var t object.Type
	if !t.DecodeString(s.typ) {
		panic("bad type " + s.typ)
	}
	obj.SetType(t)
	var v version.Version
	v.SetMajor(uint32(s.verMaj))
	v.SetMinor(uint32(s.verMin))
	obj.SetVersion(&v)
	obj.SetCreationEpoch(s.ce)
	obj.SetPayloadSize(s.size)
	obj.SetPayloadChecksum(checksum.NewSHA256([32]byte(s.cs)))
	if s.split != nil {
		var u uuid.UUID
		copy(u[:], s.split)
		sid := object.NewSplitID()
		sid.SetUUID(u)
		obj.SetSplitID(sid)
	}
	if s.first != 0 {
		obj.SetFirstID(numOID(s.first))
	}
	if s.par != 0 {
		obj.SetParentID(numOID(s.par))
	}
	var as []object.Attribute
	for _, a := range s.attrs {
		as = append(as, object.NewAttribute(a[0], a[1]))
	}
	if s.assoc != 0 {
		as = append(as, object.NewAttribute(object.AttributeAssociatedObject, numOID(s.assoc).EncodeToString()))
	}
	obj.SetAttributes(as...)
	return obj
}

// sVal is one indexed attribute of an object in the two forms the property speaks about: the string a
// client sees / filters by, and the bytes the results are ordered by.
type sVal struct {
	api string
	raw []byte
}

const (
	sAttrOwner  = object.FilterOwnerID
	sAttrCS     = object.FilterPayloadChecksum
	sAttrSplit  = object.FilterSplitID
	sAttrFirst  = object.FilterFirstSplitObject
	sAttrParent = object.FilterParentID
	sAttrAssoc  = object.AttributeAssociatedObject
)

// values lists what the statement calls the object's attributes (user and system ones), independently of
// the code under test.
func (s sObj) values() map[string]sVal {
	m := map[string]sVal{}
	str := func(k, v string) { m[k] = sVal{v, []byte(v)} }
	str(object.FilterVersion, fmt.Sprintf("v%d.%d", s.verMaj, s.verMin))
	m[sAttrOwner] = sVal{base58.Encode(s.owner), s.owner}
	str(object.FilterType, s.typ)
	str(object.FilterCreationEpoch, strconv.FormatUint(s.ce, 10))
	str(object.FilterPayloadSize, strconv.FormatUint(s.size, 10))
	m[sAttrCS] = sVal{hex.EncodeToString(s.cs), s.cs}
	if s.split != nil {
		m[sAttrSplit] = sVal{uuid.UUID(s.split).String(), s.split}
	}
	idv := func(k string, n int) {
		if n != 0 {
			id := numOID(n)
			m[k] = sVal{id.EncodeToString(), id[:]}
		}
	}
	idv(sAttrFirst, s.first)
	idv(sAttrParent, s.par)
	if s.split == nil && s.first == 0 && s.par == 0 && s.typ == "REGULAR" {
		str(object.FilterRoot, "1")
	}
	str(object.FilterPhysical, "1")
	for _, a := range s.attrs {
		str(a[0], a[1])
	}
	idv(sAttrAssoc, s.assoc)
	return m
}

// ---------------------------------------------------------------------------- queries

type sFilter struct {
	attr, op, val string
}

type sQuery struct {
	via   string
	fs    []sFilter
	attrs []string
	pages []int
}

var sOps = map[string]object.SearchMatchType{
	"EQ": object.MatchStringEqual, "NE": object.MatchStringNotEqual, "PFX": object.MatchCommonPrefix, "NP": object.MatchNotPresent,
	"GT": object.MatchNumGT, "GE": object.MatchNumGE, "LT": object.MatchNumLT, "LE": object.MatchNumLE,
}

func isNumOp(op string) bool { return op == "GT" || op == "GE" || op == "LT" || op == "LE" }

func (q sQuery) line() string {
	var fs []string
	for _, f := range q.fs {
		fs = append(fs, hx(f.attr)+":"+f.op+":"+hx(f.val))
	}
	f := "-"
	if len(fs) > 0 {
		f = strings.Join(fs, ",")
	}
	var as []string
	for _, a := range q.attrs {
		as = append(as, hx(a))
	}
	at := "-"
	if len(as) > 0 {
		at = strings.Join(as, ",")
	}
	return fmt.Sprintf("search q via=%s f=%s at=%s pg=%s", q.via, f, at, joinInts(q.pages))
}

func parseSQuery(o opLine) (sQuery, error) {
	q := sQuery{via: o.kv["via"], pages: o.ints("pg")}
	if v := o.kv["f"]; v != "-" && v != "" {
		for _, p := range strings.Split(v, ",") {
			t := strings.Split(p, ":")
			if len(t) != 3 {
				return q, errors.New("bad filter")
			}
			if _, ok := sOps[t[1]]; !ok && t[1] != "FLAG" {
				return q, errors.New("bad op")
			}
			q.fs = append(q.fs, sFilter{unhx(t[0]), t[1], unhx(t[2])})
		}
	}
	if v := o.kv["at"]; v != "-" && v != "" {
		for _, p := range strings.Split(v, ",") {
			q.attrs = append(q.attrs, unhx(p))
		}
	}
	if len(q.pages) == 0 {
		return q, errors.New("no pages")
	}
	for _, p := range q.pages {
		if p < 1 || p > 1000 {
			return q, errors.New("bad page size")
		}
	}
	return q, nil
}

// valid mirrors what the object service checks before PreprocessSearchQuery is reached.
func (q sQuery) valid() bool {
	if len(q.fs) > 8 || len(q.attrs) > 8 {
		return false
	}
	for _, f := range q.fs {
		switch f.attr {
		case "", object.FilterContainerID, object.FilterID, object.FilterPayloadHomomorphicHash: //nolint:staticcheck
			return false
		case object.FilterRoot, object.FilterPhysical:
			if f.op != "FLAG" || f.val != "" {
				return false
			}
		case sAttrOwner, sAttrCS, sAttrSplit, sAttrFirst, sAttrParent, sAttrAssoc:
			// numeric matchers are defined for creation epoch, payload size and plain attributes only
			if f.op == "FLAG" || isNumOp(f.op) {
				return false
			}
		default:
			if f.op == "FLAG" {
				return false
			}
		}
	}
	for _, a := range q.attrs {
		if a == "" || a == object.FilterContainerID || a == object.FilterID { //nolint:staticcheck
			return false
		}
	}
	if len(q.attrs) > 0 && (len(q.fs) == 0 || q.fs[0].attr != q.attrs[0]) {
		return false
	}
	return true
}

func (q sQuery) filters() object.SearchFilters {
	var fs object.SearchFilters
	for _, f := range q.fs {
		switch {
		case f.attr == object.FilterRoot:
			fs.AddRootFilter()
		case f.attr == object.FilterPhysical:
			fs.AddPhyFilter()
		default:
			fs.AddFilter(f.attr, f.val, sOps[f.op])
		}
	}
	return fs
}

// ---------------------------------------------------------------------------- the statement's own evaluation

var sBigMax = new(big.Int).Sub(new(big.Int).Lsh(big.NewInt(1), 256), big.NewInt(1))

// sInt is the statement's notion of an integer value: an optionally signed decimal number in range.
func sInt(s string) (*big.Int, bool) {
	if !decimalRE.MatchString(s) {
		return nil, false
	}
	n, ok := new(big.Int).SetString(strings.TrimPrefix(s, "+"), 10)
	if !ok || n.CmpAbs(sBigMax) > 0 {
		return nil, false
	}
	return n, true
}

// sameValue compares a stored value with a filter value of the same attribute: binary system attributes are
// compared decoded when the filter value decodes (so hex case does not matter), as strings otherwise.
func sDecoded(attr, flt string) ([]byte, bool) {
	switch attr {
	case sAttrOwner:
		b, err := base58.Decode(flt)
		return b, err == nil && len(b) == user.IDSize
	case sAttrFirst, sAttrParent, sAttrAssoc:
		b, err := base58.Decode(flt)
		return b, err == nil && len(b) == oid.Size
	case sAttrCS:
		b, err := hex.DecodeString(flt)
		return b, err == nil
	case sAttrSplit:
		u, err := uuid.Parse(flt)
		return u[:], err == nil
	}
	return nil, false
}

func sMatch(vals map[string]sVal, f sFilter) bool {
	v, ok := vals[f.attr]
	op, val := f.op, f.val
	if op == "FLAG" {
		op, val = "EQ", "1"
	}
	if op == "NP" {
		return !ok
	}
	if !ok {
		return false
	}
	if isNumOp(op) {
		a, ok1 := sInt(v.api)
		b, ok2 := sInt(val)
		if !ok1 || !ok2 {
			return false
		}
		c := a.Cmp(b)
		switch op {
		case "GT":
			return c > 0
		case "GE":
			return c >= 0
		case "LT":
			return c < 0
		}
		return c <= 0
	}
	x, y := []byte(v.api), []byte(val)
	if d, ok := sDecoded(f.attr, val); ok {
		x, y = v.raw, d
	}
	switch op {
	case "EQ":
		return bytes.Equal(x, y)
	case "NE":
		return !bytes.Equal(x, y)
	}
	return bytes.HasPrefix(x, y)
}

type sItem struct {
	id    int
	attrs []string
}

// sExpected is the list the statement asks for; emptyByRule reports queries that may be answered empty or
// rejected (absence filter over a system field, numeric boundary that nothing can satisfy, invalid number).
func sExpected(objs []sObj, avail func(int) bool, q sQuery) (items []sItem, invalid bool) {
	numPrim := len(q.fs) > 0 && isNumOp(q.fs[0].op)
	byAttr := len(q.attrs) > 0 && q.fs[0].op != "NP"
	for _, f := range q.fs {
		if f.op == "NP" && strings.HasPrefix(f.attr, "$Object:") {
			return nil, false // nothing lacks a system field: deliberately empty
		}
		if isNumOp(f.op) {
			if !decimalRE.MatchString(f.val) {
				return nil, true
			}
			n, _ := new(big.Int).SetString(strings.TrimPrefix(f.val, "+"), 10)
			if n.CmpAbs(sBigMax) > 0 {
				return nil, true
			}
		}
	}
	type row struct {
		it  sItem
		key []byte
		num *big.Int
	}
	var rows []row
	for _, o := range objs {
		if !avail(o.id) {
			continue
		}
		vals := o.values()
		ok := true
		for _, f := range q.fs {
			if !sMatch(vals, f) {
				ok = false
				break
			}
		}
		if !ok {
			continue
		}
		r := row{it: sItem{id: o.id}}
		for i, a := range q.attrs {
			v := vals[a].api
			if i == 0 && numPrim {
				n, _ := sInt(v)
				v = n.String()
				r.num = n
			}
			r.it.attrs = append(r.it.attrs, v)
		}
		if byAttr {
			r.key = vals[q.attrs[0]].raw
		}
		rows = append(rows, r)
	}
	sort.SliceStable(rows, func(i, j int) bool {
		if byAttr {
			var c int
			if numPrim {
				c = rows[i].num.Cmp(rows[j].num)
			} else {
				c = bytes.Compare(rows[i].key, rows[j].key)
			}
			if c != 0 {
				return c < 0
			}
		}
		return rows[i].it.id < rows[j].it.id
	})
	for _, r := range rows {
		items = append(items, r.it)
	}
	return items, false
}

func sShowItems(items []sItem) string {
	if len(items) == 0 {
		return "-"
	}
	var out []string
	for _, it := range items {
		s := strconv.Itoa(it.id)
		for _, a := range it.attrs {
			s += "/" + hx(a)
		}
		out = append(out, s)
	}
	return strings.Join(out, ",")
}

// ---------------------------------------------------------------------------- execution

type sWorld struct {
	m      *metaDB
	sh     *shard.Shard
	shDir  string
	epoch  *epochSrc
	objs   []sObj
	marked map[int]bool
}

func (w *sWorld) close() {
	if w.m != nil {
		w.m.close()
	}
	if w.sh != nil {
		w.sh.Close()
		os.RemoveAll(w.shDir)
	}
}

// avail is the engine's own book-keeping of what was removed: a removal mark, a stored tombstone for the
// object, or an expiration epoch in the past (no locks are generated).
func (w *sWorld) avail(id int) bool {
	if w.marked[id] {
		return false
	}
	for _, o := range w.objs {
		if o.typ == "TOMBSTONE" && o.assoc == id {
			return false
		}
	}
	for _, o := range w.objs {
		if o.id != id {
			continue
		}
		for _, a := range o.attrs {
			if a[0] == object.AttributeExpirationEpoch {
				if e, err := strconv.ParseUint(a[1], 10, 64); err == nil && w.epoch.CurrentEpoch() > e {
					return false
				}
			}
		}
	}
	return true
}

func (w *sWorld) search(via string, cnr cid.ID, fs []objectcore.SearchFilter, attrs []string, cur *objectcore.SearchCursor, count uint16) (res []client.SearchResultItem, nc []byte, err error) {
	defer func() {
		if r := recover(); r != nil {
			err = fmt.Errorf("panic: %v", r)
		}
	}()
	if via == "shard" && w.sh != nil {
		return w.sh.Search(cnr, fs, attrs, cur, count)
	}
	return w.m.db.Search(cnr, fs, attrs, cur, count)
}

func searchExec(c *runCtx, ops []string) {
	w := &sWorld{marked: map[int]bool{}}
	defer w.close()
	useShard := false
	for _, line := range ops {
		if o := parseOp(line); o.name == "q" && o.kv["via"] == "shard" {
			useShard = true
		}
	}
	if useShard {
		w.shDir = scratchDir("search")
		w.epoch = &epochSrc{}
		w.sh = newShard(w.shDir, shardCfg{epoch: w.epoch})
	} else {
		w.m = newMetaDB()
		w.epoch = w.m.epoch
	}
	for _, line := range ops {
		o := parseOp(line)
		if o.engine != "search" {
			c.emit(line, "=> bad-op")
			continue
		}
		c.count(o.name)
		switch o.name {
		case "obj":
			s, err := parseSObj(o)
			if err != nil {
				c.emit(line, "=> bad-op")
				continue
			}
			dup := false
			for _, x := range w.objs {
				dup = dup || x.id == s.id
			}
			if dup { // one header per id
				c.emit(line, "=> dup")
				continue
			}
			obj := s.build()
			if w.sh != nil {
				err = w.sh.Put(obj, nil)
			} else {
				err = w.m.db.Put(obj)
			}
			if err != nil {
				c.emit(line, "=> err")
				c.count("put-err")
				continue
			}
			w.objs = append(w.objs, s)
			c.emit(line, "=> ok")
		case "mark":
			ids := o.ints("ids")
			var err error
			if w.sh != nil {
				err = w.sh.MarkGarbage(numCID(1), idList(ids), meta.GarbageMark(0))
			} else {
				_, err = w.m.db.MarkGarbage(numCID(1), idList(ids), meta.GarbageMark(0))
			}
			if err != nil {
				c.emit(line, "=> err")
				continue
			}
			for _, id := range ids {
				w.marked[id] = true
			}
			c.emit(line, "=> ok")
		case "del":
			// physical removal (what the GC does): every index key of the object must go with it
			ids := o.ints("ids")
			var err error
			if w.sh != nil {
				err = w.sh.Delete(numCID(1), idList(ids))
			} else {
				_, _, err = w.m.db.Delete(numCID(1), idList(ids))
			}
			if err != nil {
				c.emit(line, "=> err")
				continue
			}
			kept := w.objs[:0]
			for _, x := range w.objs {
				gone := false
				for _, id := range ids {
					gone = gone || x.id == id
				}
				if !gone {
					kept = append(kept, x)
				}
			}
			w.objs = kept
			for _, id := range ids {
				delete(w.marked, id)
			}
			c.emit(line, "=> ok")
		case "epoch":
			w.epoch.e.Store(o.u64("e"))
			c.emit(line, "=> ok")
		case "q":
			q, err := parseSQuery(o)
			if err != nil || !q.valid() {
				c.emit(line, "=> bad-op")
				continue
			}
			c.emit(line, w.runQuery(c, q))
		default:
			c.emit(line, "=> bad-op")
		}
	}
}

func (w *sWorld) exists(id int) bool {
	if w.sh != nil {
		ok, err := w.sh.Exists(numAddr(1, id), false)
		return err == nil && ok
	}
	ok, err := w.m.db.Exists(numAddr(1, id), false)
	return err == nil && ok
}

// sOracle records at most two witnesses per assertion and run (every witness is shrunk by replaying, which is
// what costs time when something is broken); further failures are only counted.
func sOracle(c *runCtx, assertion string, ok bool, detail string) {
	if !ok && c.hist["oracle_fail:"+assertion] >= 2 {
		c.nOracle++
		c.count("oracle_fail:" + assertion)
		return
	}
	c.oracleSig(assertion, "", ok, detail)
}

func (w *sWorld) runQuery(c *runCtx, q sQuery) string {
	c.curSeq = append(c.curSeq, q.line()) // the query is part of the witness of its own assertions
	defer func() { c.curSeq = c.curSeq[:len(c.curSeq)-1] }()
	// the availability the run assumes is what the metabase itself answers
	for _, o := range w.objs {
		sOracle(c, "search-avail-bookkeeping", w.exists(o.id) == w.avail(o.id), fmt.Sprintf("object %d: Exists=%v, engine's book-keeping=%v", o.id, w.exists(o.id), w.avail(o.id)))
	}
	exp, invalid := sExpected(w.objs, w.avail, q)
	fs := q.filters()
	var out []string
	var got []sItem
	cursor := ""
	status := "ok"
	rest := exp
	for pi := 0; pi < 200; pi++ {
		count := q.pages[min(pi, len(q.pages)-1)]
		ofs, cur, err := objectcore.PreprocessSearchQuery(fs, q.attrs, cursor)
		if err != nil {
			if errors.Is(err, objectcore.ErrUnreachableQuery) {
				status = "unreachable"
			} else {
				status = "err"
			}
			break
		}
		res, nc, err := w.search(q.via, numCID(1), ofs, q.attrs, cur, uint16(count))
		if err != nil {
			status = "dberr"
			c.count("dberr")
			sOracle(c, "search-no-internal-error", false, fmt.Sprintf("page %d: %v", pi, err))
			break
		}
		var items []sItem
		for _, r := range res {
			items = append(items, sItem{id: oidNum(r.ID), attrs: r.Attributes})
		}
		got = append(got, items...)
		cs := "-"
		if nc != nil {
			cs = hex.EncodeToString(nc)
		}
		out = append(out, sShowItems(items)+"|"+cs)
		// per page: the first `count` of what is left, and a cursor iff something is left after it
		n := min(count, len(rest))
		sOracle(c, "search-page-exact", sShowItems(items) == sShowItems(rest[:n]),
			fmt.Sprintf("page %d (count %d): got %s want %s", pi, count, sShowItems(items), sShowItems(rest[:n])))
		rest = rest[n:]
		more := len(rest) > 0
		if len(q.fs) == 0 && nc != nil && !more && len(items) > 0 {
			// the listing of all objects decides on the cursor before it looks at the availability of what
			// follows: a cursor may be followed by one empty last page when only removed objects remain
			for _, o := range w.objs {
				more = more || o.id > items[len(items)-1].id
			}
		}
		sOracle(c, "search-cursor-iff-more", (nc != nil) == more, fmt.Sprintf("page %d: cursor=%v but %d items are left", pi, nc != nil, len(rest)))
		if n < len(items) || n > 0 && n == count && len(rest) > 0 {
			c.nontrivial(fmt.Sprint(q.line(), len(w.objs), pi))
		}
		if nc == nil {
			break
		}
		cursor = base64.StdEncoding.EncodeToString(nc)
	}
	c.count("status:" + status)
	c.count(fmt.Sprintf("filters:%d", len(q.fs)))
	switch status {
	case "ok":
		sOracle(c, "search-all-matches-once", sShowItems(got) == sShowItems(exp), fmt.Sprintf("all pages: got %s want %s", sShowItems(got), sShowItems(exp)))
		sOracle(c, "search-valid-query-accepted", !invalid, "a query with an invalid number was answered")
		if len(exp) > 0 {
			c.count("nonempty-result")
		}
	case "unreachable":
		sOracle(c, "search-unreachable-is-empty", len(exp) == 0 && len(out) == 0, fmt.Sprintf("query answered as unreachable but %s match", sShowItems(exp)))
	case "err":
		// a rejected query must have a reason the statement accepts: a malformed number, or a first filter
		// whose value is not a valid encoding of the field it is applied to
		sOracle(c, "search-rejected-only-if-invalid", invalid || w.primaryUndecodable(q) || len(exp) == 0, fmt.Sprintf("query rejected although %s match", sShowItems(exp)))
	}
	if len(out) == 0 {
		return "=> " + status
	}
	return "=> " + status + " " + strings.Join(out, ";")
}

func (w *sWorld) primaryUndecodable(q sQuery) bool {
	if len(q.fs) == 0 {
		return false
	}
	f := q.fs[0]
	switch f.attr {
	case sAttrOwner, sAttrFirst, sAttrParent, sAttrAssoc:
		_, err := base58.Decode(f.val)
		return err != nil
	case sAttrCS:
		_, err := hex.DecodeString(f.val)
		return err != nil
	case sAttrSplit:
		_, err := uuid.Parse(f.val)
		return err != nil
	}
	return false
}

// ---------------------------------------------------------------------------- generator

var (
	sUserAttrs = []string{"a", "ab", "n", "m", object.AttributeExpirationEpoch}
	sStrVals   = []string{"a", "ab", "abc", "abd", "b", "ab\x01", "a b", "A", "abcd", "\xff", "ab\xff"}
	sNumVals   = []string{"0", "1", "-1", "5", "+5", "05", "-0", "10", "9", "-10", "1e3", " 7", "7 ", "--1", "+", "18446744073709551616",
		"115792089237316195423570985008687907853269984665640564039457584007913129639935",
		"-115792089237316195423570985008687907853269984665640564039457584007913129639935",
		"115792089237316195423570985008687907853269984665640564039457584007913129639936",
		"-115792089237316195423570985008687907853269984665640564039457584007913129639936",
		"115792089237316195423570985008687907853269984665640564039457584007913129639934",
		"+115792089237316195423570985008687907853269984665640564039457584007913129639935",
		"0115792089237316195423570985008687907853269984665640564039457584007913129639935"}
	sTypes = []string{"REGULAR", "REGULAR", "REGULAR", "REGULAR", "LINK", "STORAGE_GROUP"}
)

type sGenWorld struct {
	c      *runCtx
	owners [][]byte
	css    [][]byte
	splits [][]byte
	objs   []sObj
}

func pickS(c *runCtx, xs []string) string { return xs[c.rng.IntN(len(xs))] }

func newSGenWorld(c *runCtx) *sGenWorld {
	g := &sGenWorld{c: c}
	for i := 1; i <= 3; i++ {
		o := numOwner(i)
		g.owners = append(g.owners, o[:])
	}
	mk := func(n int, b ...byte) []byte {
		out := make([]byte, n)
		copy(out, b)
		return out
	}
	g.css = [][]byte{mk(32, 0xab), mk(32, 0xab, 0xcd), mk(32, 0xab, 0xcd, 1), mk(32), mk(32, 0, 0, 7), bytes.Repeat([]byte{0xff}, 32), bytes.Repeat([]byte{0x11}, 32)}
	g.splits = [][]byte{mk(16, 0x11, 0x22), mk(16, 0x11, 0x23), bytes.Repeat([]byte{0x5a}, 16), mk(16, 0, 0, 9)}
	return g
}

func (g *sGenWorld) obj(id int) sObj {
	r := g.c.rng
	s := sObj{id: id, typ: pickS(g.c, sTypes), verMaj: 2, verMin: []int{18, 7, 18, 21}[r.IntN(4)],
		owner: g.owners[r.IntN(len(g.owners))], ce: uint64(r.IntN(4)), size: []uint64{0, 1, 5, 10, 100, 1 << 40}[r.IntN(6)],
		cs: g.css[r.IntN(len(g.css))]}
	if r.IntN(3) == 0 {
		s.split = g.splits[r.IntN(len(g.splits))]
	}
	if r.IntN(4) == 0 {
		s.first = 100 + r.IntN(3)
	}
	if r.IntN(4) == 0 {
		s.par = 100 + r.IntN(3)
	}
	if r.IntN(6) == 0 {
		s.assoc = 1 + r.IntN(40) // a plain reference, removes nothing
	}
	for _, a := range sUserAttrs {
		if r.IntN(2) == 0 {
			continue
		}
		var v string
		switch {
		case a == object.AttributeExpirationEpoch:
			if r.IntN(3) != 0 {
				continue
			}
			v = []string{"0", "1", "2", "3", "05", "+1", "x"}[r.IntN(7)]
		case a == "n" || (a == "m" && r.IntN(2) == 0):
			v = pickS(g.c, sNumVals)
		default:
			v = pickS(g.c, sStrVals)
		}
		s.attrs = append(s.attrs, [2]string{a, v})
	}
	return s
}

// filterValue picks a value for a filter over attr: mostly values that occur, their prefixes and neighbours.
func (g *sGenWorld) filterValue(attr, op string) string {
	r := g.c.rng
	if isNumOp(op) {
		if r.IntN(12) == 0 {
			return pickS(g.c, []string{"", "x", "1.5", "-", "0x10"})
		}
		if attr == object.FilterCreationEpoch || attr == object.FilterPayloadSize {
			return pickS(g.c, []string{"0", "1", "2", "3", "5", "10", "-1", "+2", "02", "100", "1099511627776"})
		}
		return pickS(g.c, sNumVals[:len(sNumVals)-4]) // decimal or not: invalid ones must be rejected
	}
	var occurring []string
	for _, o := range g.objs {
		if v, ok := o.values()[attr]; ok {
			occurring = append(occurring, v.api)
		}
	}
	if len(occurring) > 0 && r.IntN(8) != 0 {
		v := occurring[r.IntN(len(occurring))]
		switch r.IntN(6) {
		case 0, 1:
			if op == "PFX" || r.IntN(3) == 0 {
				return v[:r.IntN(len(v)+1)]
			}
		case 2:
			return v + "x"
		case 3:
			if attr == sAttrCS && len(v) >= 2 {
				return v[:2*r.IntN(len(v)/2+1)]
			}
		}
		return v
	}
	switch attr {
	case "n", "m":
		return pickS(g.c, sNumVals)
	case object.FilterType:
		return pickS(g.c, []string{"REGULAR", "TOMBSTONE", "LINK", "R", "LOCK", ""})
	case object.FilterVersion:
		return pickS(g.c, []string{"v2.18", "v2.7", "v2", "v2.1", "v3", ""})
	}
	return pickS(g.c, append([]string{"", "zz"}, sStrVals...))
}

var sFilterAttrs = []string{"a", "a", "ab", "n", "n", "m", "missing", object.FilterVersion, object.FilterOwnerID, object.FilterType,
	object.FilterCreationEpoch, object.FilterPayloadSize, object.FilterPayloadChecksum, object.FilterSplitID, object.FilterFirstSplitObject,
	object.FilterParentID, object.FilterRoot, object.FilterPhysical, object.AttributeAssociatedObject, object.AttributeExpirationEpoch}

func (g *sGenWorld) filter(attr string) sFilter {
	r := g.c.rng
	if attr == object.FilterRoot || attr == object.FilterPhysical {
		return sFilter{attr, "FLAG", ""}
	}
	op := []string{"EQ", "EQ", "NE", "PFX", "PFX", "NP", "GT", "GE", "LT", "LE"}[r.IntN(10)]
	switch attr {
	case sAttrOwner, sAttrCS, sAttrSplit, sAttrFirst, sAttrParent, sAttrAssoc:
		op = []string{"EQ", "EQ", "NE", "PFX", "PFX", "NP"}[r.IntN(6)]
	}
	if op == "NP" {
		return sFilter{attr, op, ""}
	}
	return sFilter{attr, op, g.filterValue(attr, op)}
}

func (g *sGenWorld) query() sQuery {
	r := g.c.rng
	q := sQuery{via: "db"}
	nf := []int{0, 1, 1, 1, 2, 2, 2, 3, 3, 4}[r.IntN(10)]
	for i := 0; i < nf; i++ {
		attr := sFilterAttrs[r.IntN(len(sFilterAttrs))]
		if i > 0 && r.IntN(3) == 0 { // several filters over one attribute (ranges, prefix and exclusion)
			attr = q.fs[r.IntN(len(q.fs))].attr
		}
		q.fs = append(q.fs, g.filter(attr))
	}
	if nf > 0 && r.IntN(4) != 0 {
		q.attrs = []string{q.fs[0].attr}
		for k := r.IntN(3); k > 0; k-- {
			q.attrs = append(q.attrs, sFilterAttrs[r.IntN(len(sFilterAttrs))])
		}
	}
	switch r.IntN(6) {
	case 0:
		q.pages = []int{1}
	case 1:
		q.pages = []int{2}
	case 2:
		q.pages = []int{1 + r.IntN(4), 1 + r.IntN(3), 1 + r.IntN(5)}
	case 3:
		q.pages = []int{1000}
	case 4:
		q.pages = []int{max(1, len(g.objs)-r.IntN(3))}
	default:
		q.pages = []int{3, 1}
	}
	return q
}

func searchGen(c *runCtx, run func([]string)) {
	nWorlds := c.n(60, 4000)
	for wi := 0; wi < nWorlds; wi++ {
		g := newSGenWorld(c)
		r := c.rng
		via := "db"
		if wi%5 == 4 {
			via = "shard"
		}
		var ops []string
		n := 8 + r.IntN(23)
		ids := r.Perm(40)[:n]
		for _, id := range ids {
			g.objs = append(g.objs, g.obj(id+1))
		}
		// tombstones for some of them (stored objects themselves, found by searches too)
		nts := r.IntN(3)
		for i := 0; i < nts; i++ {
			t := g.obj(50 + i)
			t.typ, t.assoc, t.split, t.first, t.par = "TOMBSTONE", g.objs[r.IntN(n)].id, nil, 0, 0
			if r.IntN(12) == 0 {
				t.assoc = g.objs[r.IntN(len(g.objs))].id // possibly another tombstone: refused
			}
			g.objs = append(g.objs, t)
		}
		for _, o := range g.objs {
			ops = append(ops, o.line())
		}
		if k := r.IntN(4); k > 0 {
			var m []int
			for i := 0; i < k; i++ {
				m = append(m, g.objs[r.IntN(len(g.objs))].id)
			}
			ops = append(ops, "search mark ids="+joinInts(m))
		}
		if r.IntN(2) == 0 {
			// physically remove one or two stored regular objects that no tombstone targets
			var d []int
			for _, o := range g.objs {
				if o.typ == "TOMBSTONE" || o.par != 0 || len(d) >= 2 || r.IntN(3) != 0 {
					continue
				}
				targeted := false
				for _, t := range g.objs {
					targeted = targeted || (t.typ == "TOMBSTONE" && t.assoc == o.id)
				}
				if !targeted {
					d = append(d, o.id)
				}
			}
			if len(d) > 0 {
				ops = append(ops, "search del ids="+joinInts(d))
			}
		}
		ops = append(ops, fmt.Sprintf("search epoch e=%d", r.IntN(4)))
		nq := c.n(25, 40)
		for i := 0; i < nq; i++ {
			q := g.query()
			q.via = via
			if !q.valid() {
				continue
			}
			ops = append(ops, q.line())
			if i == nq/2 && r.IntN(2) == 0 {
				ops = append(ops, fmt.Sprintf("search epoch e=%d", 2+r.IntN(4)))
			}
		}
		run(ops)
	}
}
