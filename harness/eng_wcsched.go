package main

// Engine `wcsched` (C17 extension): the REAL background flush scheduler (timer tick 1 s, error back-off 10 s) of a real
// write-cache with ONE flush worker over a real FSTree behind a recording, failure-injecting main storage. One op = one
// fresh cache: put objects of given sizes, let the first scheduler pass run, report the batches the main storage received
// (= the scheduler's batch cutting), the flushObjs markers left when all workers are idle, and optionally the state after
// the back-off with an accepting storage. The ops of a sequence are independent and run concurrently.

import (
	"fmt"
	"os"
	"path/filepath"
	"sort"
	"strings"
	"sync"
	"time"

	"github.com/nspcc-dev/neofs-node/pkg/local_object_storage/blobstor/common"
	"github.com/nspcc-dev/neofs-node/pkg/local_object_storage/blobstor/fstree"
	"github.com/nspcc-dev/neofs-node/pkg/local_object_storage/writecache"
	oid "github.com/nspcc-dev/neofs-sdk-go/object/id"
)

func init() {
	engines["wcsched"] = seqRunner{gen: wcsGen, exec: wcsExec}.engine()
}

// recStorage records every write call of the main storage; the failAt-th call fails (after a pause that lets the
// scheduler reach its next hand-over, so that the worker's error signal is what answers it).
type recStorage struct {
	*fstree.FSTree
	mu     sync.Mutex
	calls  [][]int
	n      int
	failAt int
}

func (s *recStorage) record(as []int) bool {
	s.mu.Lock()
	defer s.mu.Unlock()
	s.n++
	sort.Ints(as)
	s.calls = append(s.calls, as)
	return s.n == s.failAt
}

func (s *recStorage) Put(a oid.Address, d []byte) error {
	if s.record([]int{oidNum(a.Object())}) {
		time.Sleep(40 * time.Millisecond)
		return errInjected
	}
	return s.FSTree.Put(a, d)
}

func (s *recStorage) PutBatch(m map[oid.Address][]byte) error {
	var as []int
	for a := range m {
		as = append(as, oidNum(a.Object()))
	}
	if s.record(as) {
		time.Sleep(40 * time.Millisecond)
		return errInjected
	}
	return s.FSTree.PutBatch(m)
}

// wcsCase runs one case; the observation is timing dependent (1 s tick), so a run whose puts were not complete well
// before the first tick, or whose observation came too close to the second tick, is repeated on a fresh cache.
func wcsCase(c *runCtx, line string) (string, string) {
	o := parseOp(line)
	if o.name != "pass" {
		return line, "=> bad-op"
	}
	for try := 0; ; try++ {
		sub := &runCtx{prop: c.prop, hist: map[string]int{}, distinct: map[[8]byte]struct{}{}}
		full, res, ok := wcsCaseOnce(sub, o, line)
		if ok || try == 6 {
			c.nOracle += sub.nOracle
			c.failures = append(c.failures, sub.failures...)
			return full, res
		}
	}
}

func wcsCaseOnce(c *runCtx, o opLine, line string) (string, string, bool) {
	psizes := o.ints("psizes")
	dir := scratchDir("wcsched")
	defer os.RemoveAll(dir)
	main := &recStorage{FSTree: fstree.New(fstree.WithPath(filepath.Join(dir, "main")), fstree.WithDepth(1), fstree.WithNoSync(true)), failAt: o.int("fail")}
	if err := main.Open(false); err != nil {
		panic(err)
	}
	if err := main.Init(common.ID{}); err != nil {
		panic(err)
	}
	defer main.Close()
	wc := writecache.New(writecache.WithPath(filepath.Join(dir, "wc")), writecache.WithStorage(main), writecache.WithNoSync(true),
		writecache.WithFlushWorkersCount(1), writecache.WithMaxFlushBatchThreshold(o.u64("thr")),
		writecache.WithMaxFlushBatchCount(o.int("count")), writecache.WithMaxFlushBatchSize(o.u64("size")))
	if err := wc.Open(false); err != nil {
		panic(err)
	}
	start := time.Now()
	if err := wc.Init(common.ID{}); err != nil {
		panic(err)
	}
	defer wc.Close()
	var lens []int
	for i, ps := range psizes {
		obj := mkObject(1, i+1, detPayload(ps, i+1))
		data := obj.Marshal()
		lens = append(lens, len(data))
		if err := wc.Put(numAddr(1, i+1), obj, data); err != nil {
			panic(err)
		}
	}
	timely := time.Since(start) < 700*time.Millisecond
	full := line
	if _, ok := o.kv["lens"]; !ok {
		full = line + " lens=" + joinInts(lens)
	}
	state := func() (string, []int, []int) {
		files, _ := writecache.VerifFileAddrs(wc)
		var fs, infl []int
		for _, a := range files {
			fs = append(fs, oidNum(a.Object()))
		}
		for _, a := range writecache.VerifInflight(wc) {
			infl = append(infl, oidNum(a.Object()))
		}
		sort.Ints(fs)
		sort.Ints(infl)
		return fmt.Sprintf("files=%s infl=%s", joinInts(fs), joinInts(infl)), fs, infl
	}
	// the first tick fires 1 s after Init; 0.6 s later every hand-over of that pass is answered and the worker is idle
	time.Sleep(time.Until(start.Add(1600 * time.Millisecond)))
	timely = timely && time.Since(start) < 1900*time.Millisecond
	if !timely {
		return full, "", false
	}
	main.mu.Lock()
	var cs []string
	for _, b := range main.calls {
		cs = append(cs, "["+joinInts(b)+"]")
	}
	main.failAt = 0 // the main storage accepts writes from now on
	main.mu.Unlock()
	st, _, infl := state()
	c.oracle("no-flush-marker-without-a-running-job", len(infl) == 0,
		fmt.Sprintf("all flush workers are idle, yet flushObjs still marks %v (the scheduler skips marked addresses for ever)", infl))
	res := fmt.Sprintf("=> ok calls=%s %s", strings.Join(cs, ""), st)
	if len(cs) == 0 {
		res = fmt.Sprintf("=> ok calls=- %s", st)
	}
	if o.kv["wait"] == "1" {
		// error back-off (10 s) + two ticks: with an accepting storage everything must have been flushed
		time.Sleep(time.Until(start.Add(14 * time.Second)))
		st2, files, _ := state()
		c.oracle("cache-is-emptied-once-the-storage-accepts-writes", len(files) == 0,
			fmt.Sprintf("13 s after the failure (back-off 10 s, tick 1 s) the cache still holds %v", files))
		res += " later " + st2
	}
	return full, res, true
}

func wcsExec(c *runCtx, ops []string) {
	type out struct{ op, obs string }
	res := make([]out, len(ops))
	var wg sync.WaitGroup
	sem := make(chan struct{}, 6)
	var mu sync.Mutex
	for i, line := range ops {
		wg.Add(1)
		go func() {
			defer wg.Done()
			sem <- struct{}{}
			defer func() { <-sem }()
			// runCtx is not concurrency-safe: collect oracle calls under a lock through a per-case shim
			sub := &runCtx{prop: c.prop, hist: map[string]int{}, distinct: map[[8]byte]struct{}{}}
			op, obs := wcsCase(sub, line)
			mu.Lock()
			res[i] = out{op, obs}
			c.nOracle += sub.nOracle
			for _, f := range sub.failures {
				f.Ops = []string{op}
				f.Seq = c.nSeq
				c.failures = append(c.failures, f)
				c.count("oracle_fail:" + f.Assertion)
			}
			mu.Unlock()
		}()
	}
	wg.Wait()
	for _, r := range res {
		o := parseOp(r.op)
		c.count(o.name)
		c.emit(r.op, r.obs)
		if o.kv["fail"] != "0" && o.kv["fail"] != "" {
			c.nontrivial(r.op)
		}
	}
}

func wcsGen(c *runCtx, run func([]string)) {
	c.independent = true
	small := []int{10, 60, 110, 160, 210, 260, 310, 360}
	big := []int{2000, 2600, 3200}
	var ops []string
	add := func(ps []int, count, size, fail, wait int) {
		ops = append(ops, fmt.Sprintf("wcsched pass psizes=%s thr=1200 count=%d size=%d fail=%d wait=%d", joinInts(ps), count, size, fail, wait))
	}
	// the boundary cases: error answer while a big object forces the open batch out (the leak before the repair)
	add([]int{10, 2000}, 128, 1000000, 0, 0)
	add([]int{10, 60, 110, 2000}, 2, 1000000, 1, 1)
	add([]int{2000, 10, 60}, 128, 1000000, 1, 0)
	add([]int{10, 60, 110, 160, 2000, 2600}, 2, 1000000, 2, 1)
	for i := 0; i < c.n(10, 60); i++ {
		ns, nb := 1+c.rng.IntN(5), c.rng.IntN(3)
		var ps []int
		for _, j := range c.rng.Perm(len(small))[:ns] {
			ps = append(ps, small[j])
		}
		for _, j := range c.rng.Perm(len(big))[:nb] {
			ps = append(ps, big[j])
		}
		c.rng.Shuffle(len(ps), func(a, b int) { ps[a], ps[b] = ps[b], ps[a] })
		wait := 0
		if c.thorough() && c.rng.IntN(4) == 0 {
			wait = 1
		}
		add(ps, []int{2, 3, 128}[c.rng.IntN(3)], []int{900, 1000000}[c.rng.IntN(2)], c.rng.IntN(4), wait)
	}
	run(ops)
}
