package main

// Engine `wcsched` (C17 extension): the REAL background flush scheduler (timer tick 1 s, error back-off 10 s) of a real
// write-cache with ONE flush worker over a real FSTree behind a recording, failure-injecting main storage. One op = one
// fresh cache: put objects of given sizes, let the first scheduler pass run, report the batches the main storage received
// (= the scheduler's batch cutting), the flushObjs markers left when all workers are idle, and optionally the state after
// the back-off with an accepting storage. The ops of a sequence are independent and run concurrently.
//
// Op `span`: flushes that SPAN scheduler passes. Rounds of puts, each followed by one real scheduler pass, while the
// first main-storage call that carries a chosen victim id is held open inside the storage (the worker sits in its
// main-storage put with the batch it was given); there is always one more worker than held calls, so the later passes
// run to completion over the other objects. Then the held calls end one by one (ok or failure). Observed on the REAL
// scheduler state at every quiescent point: the calls the storage received, the cache files, the flushObjs markers.
// The passes are real timer ticks; the only schedule control is (a) the held storage call and (b) a gate on the
// `writecache.flush.scheduler` fault point that makes the scheduler skip its tick while the harness is in the middle
// of a round's puts or of ending a held call (so that a pass never sees half a round). Quiescence is awaited by polling
// for the property's own condition (markers = addresses of the held calls) with a long timeout: a violation is a state
// that never gets there.

import (
	"fmt"
	"os"
	"path/filepath"
	"runtime"
	"sort"
	"strconv"
	"strings"
	"sync"
	"sync/atomic"
	"time"

	"github.com/nspcc-dev/neofs-node/pkg/local_object_storage/blobstor/common"
	"github.com/nspcc-dev/neofs-node/pkg/local_object_storage/blobstor/fstree"
	"github.com/nspcc-dev/neofs-node/pkg/local_object_storage/writecache"
	"github.com/nspcc-dev/neofs-node/pkg/util/verifhook"
	oid "github.com/nspcc-dev/neofs-sdk-go/object/id"
)

func init() {
	engines["wcsched"] = seqRunner{gen: wcsGen, exec: wcsExec}.engine()
}

// recStorage records every write call of the main storage; the failAt-th call fails (after a pause that lets the
// scheduler reach its next hand-over, so that the worker's error signal is what answers it).
type recStorage struct {
	*fstree.FSTree
	mu     sync.Mutex
	calls  [][]int
	n      int
	failAt int
}

func (s *recStorage) record(as []int) bool {
	s.mu.Lock()
	defer s.mu.Unlock()
	s.n++
	sort.Ints(as)
	s.calls = append(s.calls, as)
	return s.n == s.failAt
}

func (s *recStorage) Put(a oid.Address, d []byte) error {
	if s.record([]int{oidNum(a.Object())}) {
		time.Sleep(40 * time.Millisecond)
		return errInjected
	}
	return s.FSTree.Put(a, d)
}

func (s *recStorage) PutBatch(m map[oid.Address][]byte) error {
	var as []int
	for a := range m {
		as = append(as, oidNum(a.Object()))
	}
	if s.record(as) {
		time.Sleep(40 * time.Millisecond)
		return errInjected
	}
	return s.FSTree.PutBatch(m)
}

// wcsCase runs one case; the observation is timing dependent (1 s tick), so a run whose puts were not complete well
// before the first tick, or whose observation came too close to the second tick, is repeated on a fresh cache.
func wcsCase(c *runCtx, line string) (string, string) {
	o := parseOp(line)
	if o.name == "span" {
		return wcsSpan(c, o, line)
	}
	if o.name != "pass" {
		return line, "=> bad-op"
	}
	for try := 0; ; try++ {
		sub := &runCtx{prop: c.prop, hist: map[string]int{}, distinct: map[[8]byte]struct{}{}}
		full, res, ok := wcsCaseOnce(sub, o, line)
		if ok || try == 6 {
			c.nOracle += sub.nOracle
			c.failures = append(c.failures, sub.failures...)
			return full, res
		}
	}
}

func wcsCaseOnce(c *runCtx, o opLine, line string) (string, string, bool) {
	psizes := o.ints("psizes")
	dir := scratchDir("wcsched")
	defer os.RemoveAll(dir)
	main := &recStorage{FSTree: fstree.New(fstree.WithPath(filepath.Join(dir, "main")), fstree.WithDepth(1), fstree.WithNoSync(true)), failAt: o.int("fail")}
	if err := main.Open(false); err != nil {
		panic(err)
	}
	if err := main.Init(common.ID{}); err != nil {
		panic(err)
	}
	defer main.Close()
	wc := writecache.New(writecache.WithPath(filepath.Join(dir, "wc")), writecache.WithStorage(main), writecache.WithNoSync(true),
		writecache.WithFlushWorkersCount(1), writecache.WithMaxFlushBatchThreshold(o.u64("thr")),
		writecache.WithMaxFlushBatchCount(o.int("count")), writecache.WithMaxFlushBatchSize(o.u64("size")))
	if err := wc.Open(false); err != nil {
		panic(err)
	}
	start := time.Now()
	if err := wc.Init(common.ID{}); err != nil {
		panic(err)
	}
	defer wc.Close()
	var lens []int
	for i, ps := range psizes {
		obj := mkObject(1, i+1, detPayload(ps, i+1))
		data := obj.Marshal()
		lens = append(lens, len(data))
		if err := wc.Put(numAddr(1, i+1), obj, data); err != nil {
			panic(err)
		}
	}
	timely := time.Since(start) < 700*time.Millisecond
	full := line
	if _, ok := o.kv["lens"]; !ok {
		full = line + " lens=" + joinInts(lens)
	}
	state := func() (string, []int, []int) {
		files, _ := writecache.VerifFileAddrs(wc)
		var fs, infl []int
		for _, a := range files {
			fs = append(fs, oidNum(a.Object()))
		}
		for _, a := range writecache.VerifInflight(wc) {
			infl = append(infl, oidNum(a.Object()))
		}
		sort.Ints(fs)
		sort.Ints(infl)
		return fmt.Sprintf("files=%s infl=%s", joinInts(fs), joinInts(infl)), fs, infl
	}
	// the first tick fires 1 s after Init; 0.6 s later every hand-over of that pass is answered and the worker is idle
	time.Sleep(time.Until(start.Add(1600 * time.Millisecond)))
	timely = timely && time.Since(start) < 1900*time.Millisecond
	if !timely {
		return full, "", false
	}
	main.mu.Lock()
	var cs []string
	for _, b := range main.calls {
		cs = append(cs, "["+joinInts(b)+"]")
	}
	main.failAt = 0 // the main storage accepts writes from now on
	main.mu.Unlock()
	st, _, infl := state()
	c.oracle("no-flush-marker-without-a-running-job", len(infl) == 0,
		fmt.Sprintf("all flush workers are idle, yet flushObjs still marks %v (the scheduler skips marked addresses for ever)", infl))
	res := fmt.Sprintf("=> ok calls=%s %s", strings.Join(cs, ""), st)
	if len(cs) == 0 {
		res = fmt.Sprintf("=> ok calls=- %s", st)
	}
	if o.kv["wait"] == "1" {
		// error back-off (10 s) + two ticks: with an accepting storage everything must have been flushed
		time.Sleep(time.Until(start.Add(14 * time.Second)))
		st2, files, _ := state()
		c.oracle("cache-is-emptied-once-the-storage-accepts-writes", len(files) == 0,
			fmt.Sprintf("13 s after the failure (back-off 10 s, tick 1 s) the cache still holds %v", files))
		res += " later " + st2
	}
	return full, res, true
}

func wcsExec(c *runCtx, ops []string) {
	verifhook.SetFault(wcsFault)
	defer verifhook.SetFault(nil)
	type out struct {
		op, obs string
		sub     *runCtx
	}
	res := make([]out, len(ops))
	var wg sync.WaitGroup
	sem := make(chan struct{}, 6)
	for i, line := range ops {
		wg.Add(1)
		go func() {
			defer wg.Done()
			sem <- struct{}{}
			defer func() { <-sem }()
			// runCtx is not concurrency-safe: every case collects its oracle calls in a shim of its own
			sub := &runCtx{prop: c.prop, hist: map[string]int{}, distinct: map[[8]byte]struct{}{}}
			op, obs := wcsCase(sub, line)
			res[i] = out{op, obs, sub}
		}()
	}
	wg.Wait()
	// merged in op order; one witness per assertion and run is kept (every kept witness is replayed by the pipeline, and a
	// violating case takes its time-outs)
	kept := map[string]bool{}
	for _, r := range res {
		o := parseOp(r.op)
		c.count(o.name)
		c.emit(r.op, r.obs)
		c.nOracle += r.sub.nOracle
		for _, f := range r.sub.failures {
			c.count("oracle_fail:" + f.Assertion)
			if kept[f.Assertion] {
				continue
			}
			kept[f.Assertion] = true
			f.Ops = []string{r.op}
			f.Seq = c.nSeq
			c.failures = append(c.failures, f)
		}
		if o.kv["fail"] != "0" && o.kv["fail"] != "" {
			c.nontrivial(r.op)
		}
		if o.name == "span" && len(o.ints("stall")) > 0 && len(o.ints("rounds")) > 1 {
			c.nontrivial(r.op)
		}
	}
}

func wcsGen(c *runCtx, run func([]string)) {
	c.independent = true
	small := []int{10, 60, 110, 160, 210, 260, 310, 360}
	big := []int{2000, 2600, 3200}
	var ops []string
	add := func(ps []int, count, size, fail, wait int) {
		ops = append(ops, fmt.Sprintf("wcsched pass psizes=%s thr=1200 count=%d size=%d fail=%d wait=%d", joinInts(ps), count, size, fail, wait))
	}
	// the boundary cases: error answer while a big object forces the open batch out (the leak before the repair)
	add([]int{10, 2000}, 128, 1000000, 0, 0)
	add([]int{10, 60, 110, 2000}, 2, 1000000, 1, 1)
	add([]int{2000, 10, 60}, 128, 1000000, 1, 0)
	add([]int{10, 60, 110, 160, 2000, 2600}, 2, 1000000, 2, 1)
	for i := 0; i < c.n(10, 60); i++ {
		ns, nb := 1+c.rng.IntN(5), c.rng.IntN(3)
		var ps []int
		for _, j := range c.rng.Perm(len(small))[:ns] {
			ps = append(ps, small[j])
		}
		for _, j := range c.rng.Perm(len(big))[:nb] {
			ps = append(ps, big[j])
		}
		c.rng.Shuffle(len(ps), func(a, b int) { ps[a], ps[b] = ps[b], ps[a] })
		wait := 0
		if c.thorough() && c.rng.IntN(4) == 0 {
			wait = 1
		}
		add(ps, []int{2, 3, 128}[c.rng.IntN(3)], []int{900, 1000000}[c.rng.IntN(2)], c.rng.IntN(4), wait)
	}
	// flushes that span scheduler passes: 2..3 rounds of 1..4 objects, 1..2 held calls (victims mostly in the earlier
	// rounds, anywhere in the sorted order), each ending ok or with a failure; a failure is followed through the back-off
	all := append(append([]int{}, small...), big...)
	var spans []string
	for i := 0; i < c.n(8, 40); i++ {
		nr := 2 + c.rng.IntN(2)
		var rounds, ps []int
		perm := c.rng.Perm(len(all))
		for r := 0; r < nr; r++ {
			n := 1 + c.rng.IntN(4)
			if len(ps)+n > len(all) {
				n = len(all) - len(ps)
			}
			if n == 0 {
				break
			}
			rounds = append(rounds, n)
			for k := 0; k < n; k++ {
				ps = append(ps, all[perm[len(ps)]])
			}
		}
		nv := 1 + c.rng.IntN(2)
		var stall, ends []int
		early := len(ps) - rounds[len(rounds)-1]
		for _, v := range c.rng.Perm(len(ps)) {
			if len(stall) == nv {
				break
			}
			if v < early || c.rng.IntN(4) == 0 {
				stall = append(stall, v+1)
				ends = append(ends, c.rng.IntN(2))
			}
		}
		wait := 0
		for _, e := range ends {
			if e == 0 {
				wait = 1
			}
		}
		spans = append(spans, fmt.Sprintf("wcsched span psizes=%s rounds=%s thr=1200 count=%d size=%d stall=%s end=%s wait=%d", joinInts(ps), joinInts(rounds),
			[]int{2, 3, 128}[c.rng.IntN(3)], []int{900, 1000000}[c.rng.IntN(2)], joinInts(stall), joinInts(ends), wait))
	}
	// the span cases go first: a difference is reported with the ops that precede it in the sequence
	run(append(spans, ops...))
}

// ---------------------------------------------------------------------------------------------------------------------
// span

// wcsGates: goroutine that called Cache.Init -> gate of that case. The scheduler goroutine of a cache is started by
// Init (runFlushLoop), so the id of its creator goroutine, read from its own stack trace ("created by … in goroutine N"),
// tells the fault callback which case the asking scheduler belongs to (the hook itself carries only the point name).
var wcsGates sync.Map

func wcsGoids() (self, creator int64) {
	buf := make([]byte, 16384)
	st := string(buf[:runtime.Stack(buf, false)])
	num := func(s string) int64 {
		n := 0
		for n < len(s) && s[n] >= '0' && s[n] <= '9' {
			n++
		}
		v, err := strconv.ParseInt(s[:n], 10, 64)
		if err != nil {
			return -1
		}
		return v
	}
	self, creator = -1, -1
	if strings.HasPrefix(st, "goroutine ") {
		self = num(st[len("goroutine "):])
	}
	if i := strings.LastIndex(st, " in goroutine "); i >= 0 {
		creator = num(st[i+len(" in goroutine "):])
	}
	return
}

func wcsFault(name string) error {
	if name != "writecache.flush.scheduler" {
		return nil
	}
	_, creator := wcsGoids()
	if g, ok := wcsGates.Load(creator); ok {
		gt := g.(*wcsGate)
		gt.asked.Add(1)
		gt.last.Store(time.Now().UnixNano())
		if gt.closed.Load() {
			return errInjected
		}
	}
	return nil
}

type wcsGate struct {
	closed atomic.Bool
	asked  atomic.Int64 // ticks of this case's scheduler seen by the gate (shows that the dispatch works)
	last   atomic.Int64 // time of the last tick seen
}

// shut closes the gate and gives a pass that was let through a moment ago the time to take its snapshot of the
// counters (the first thing a pass does), so that what the harness does next falls entirely after that snapshot.
func (g *wcsGate) shut() {
	g.closed.Store(true)
	for time.Since(time.Unix(0, g.last.Load())) < 40*time.Millisecond {
		time.Sleep(5 * time.Millisecond)
	}
}

type spanCall struct {
	ids     []int
	held    bool
	done    bool
	release chan bool
}

// spanStorage records every write call of the main storage and holds open the first call that carries an armed id.
type spanStorage struct {
	*fstree.FSTree
	mu      sync.Mutex
	calls   []*spanCall
	armed   map[int]bool
	inProg  map[int]int
	overlap []int // ids that reached the storage while another call with the same id was still in progress
}

func (s *spanStorage) do(ids []int, put func() error) error {
	sort.Ints(ids)
	s.mu.Lock()
	cl := &spanCall{ids: ids, release: make(chan bool, 1)}
	for _, id := range ids {
		if s.inProg[id] > 0 {
			s.overlap = append(s.overlap, id)
		}
		s.inProg[id]++
		if s.armed[id] {
			cl.held = true
		}
	}
	if cl.held {
		for _, id := range ids {
			delete(s.armed, id)
		}
	}
	s.calls = append(s.calls, cl)
	held := cl.held
	s.mu.Unlock()
	ok := true
	if held {
		ok = <-cl.release
	}
	var err error
	if ok {
		err = put()
	} else {
		err = errInjected
	}
	s.mu.Lock()
	cl.held, cl.done = false, true
	for _, id := range ids {
		s.inProg[id]--
	}
	s.mu.Unlock()
	return err
}

func (s *spanStorage) Put(a oid.Address, d []byte) error {
	return s.do([]int{oidNum(a.Object())}, func() error { return s.FSTree.Put(a, d) })
}

func (s *spanStorage) PutBatch(m map[oid.Address][]byte) error {
	var ids []int
	for a := range m {
		ids = append(ids, oidNum(a.Object()))
	}
	return s.do(ids, func() error { return s.FSTree.PutBatch(m) })
}

// snapshot: ids of held calls, ids of calls in progress that are not held, ids seen by any call, rendering of the calls from index `from`
func (s *spanStorage) snapshot(from int) (held, busy []int, seen map[int]bool, calls string, n int) {
	s.mu.Lock()
	defer s.mu.Unlock()
	seen = map[int]bool{}
	var cs [][]int
	for i, cl := range s.calls {
		for _, id := range cl.ids {
			seen[id] = true
		}
		if cl.held {
			held = append(held, cl.ids...)
		} else if !cl.done {
			busy = append(busy, cl.ids...)
		}
		if i >= from {
			cs = append(cs, cl.ids)
		}
	}
	sort.Ints(held)
	sort.Slice(cs, func(i, j int) bool { return cs[i][0] < cs[j][0] })
	calls = "-"
	if len(cs) > 0 {
		calls = ""
		for _, b := range cs {
			calls += "[" + joinInts(b) + "]"
		}
	}
	return held, busy, seen, calls, len(s.calls)
}

func (s *spanStorage) heldCall(id int) *spanCall {
	s.mu.Lock()
	defer s.mu.Unlock()
	for _, cl := range s.calls {
		if cl.held {
			for _, x := range cl.ids {
				if x == id {
					return cl
				}
			}
		}
	}
	return nil
}

func (s *spanStorage) releaseAll() {
	s.mu.Lock()
	defer s.mu.Unlock()
	for _, cl := range s.calls {
		if cl.held {
			select {
			case cl.release <- true:
			default:
			}
		}
	}
}

func intsEq(a, b []int) bool {
	if len(a) != len(b) {
		return false
	}
	for i := range a {
		if a[i] != b[i] {
			return false
		}
	}
	return true
}

// how long a quiescent state may take to arrive (a violation is a state that never arrives; once one wait of a case
// has timed out the later waits of that case are cut short)
const wcsSpanTimeout = 5 * time.Second

func wcsSpan(c *runCtx, o opLine, line string) (string, string) {
	for _, k := range []string{"psizes", "rounds", "thr", "count", "size", "stall", "end"} {
		if _, ok := o.kv[k]; !ok {
			return line, "=> bad-op"
		}
	}
	psizes, rounds, stall, ends := o.ints("psizes"), o.ints("rounds"), o.ints("stall"), o.ints("end")
	tot := 0
	for _, n := range rounds {
		if n <= 0 {
			return line, "=> bad-op"
		}
		tot += n
	}
	if tot != len(psizes) || len(stall) != len(ends) {
		return line, "=> bad-op"
	}
	for i, v := range stall {
		if v <= 0 || v > len(psizes) || ends[i] < 0 || ends[i] > 1 {
			return line, "=> bad-op"
		}
	}
	dir := scratchDir("wcsched")
	defer os.RemoveAll(dir)
	main := &spanStorage{FSTree: fstree.New(fstree.WithPath(filepath.Join(dir, "main")), fstree.WithDepth(1), fstree.WithNoSync(true)),
		armed: map[int]bool{}, inProg: map[int]int{}}
	for _, v := range stall {
		main.armed[v] = true
	}
	if err := main.Open(false); err != nil {
		panic(err)
	}
	if err := main.Init(common.ID{}); err != nil {
		panic(err)
	}
	defer main.Close()
	wc := writecache.New(writecache.WithPath(filepath.Join(dir, "wc")), writecache.WithStorage(main), writecache.WithNoSync(true),
		writecache.WithFlushWorkersCount(len(stall)+1), writecache.WithMaxFlushBatchThreshold(o.u64("thr")),
		writecache.WithMaxFlushBatchCount(o.int("count")), writecache.WithMaxFlushBatchSize(o.u64("size")))
	if err := wc.Open(false); err != nil {
		panic(err)
	}
	gate := &wcsGate{}
	gate.closed.Store(true)
	self, _ := wcsGoids()
	wcsGates.Store(self, gate)
	defer wcsGates.Delete(self)
	if err := wc.Init(common.ID{}); err != nil {
		panic(err)
	}
	defer wc.Close()
	defer main.releaseAll() // Close waits for the workers

	state := func() (string, []int, []int) {
		files, _ := writecache.VerifFileAddrs(wc)
		var fs, infl []int
		for _, a := range files {
			fs = append(fs, oidNum(a.Object()))
		}
		for _, a := range writecache.VerifInflight(wc) {
			infl = append(infl, oidNum(a.Object()))
		}
		sort.Ints(fs)
		sort.Ints(infl)
		return fmt.Sprintf("files=%s infl=%s", joinInts(fs), joinInts(infl)), fs, infl
	}
	// quiescent: every id put so far has reached the storage, only the held calls are in progress and the markers
	// are exactly the addresses of the held calls (the workers holding them are the only running jobs)
	nput := 0
	quiet := func() bool {
		held, busy, seen, _, _ := main.snapshot(0)
		if len(busy) > 0 {
			return false
		}
		for id := 1; id <= nput; id++ {
			if !seen[id] {
				return false
			}
		}
		_, _, infl := state()
		return intsEq(held, infl)
	}
	timedOut := false
	await := func(cond func() bool) bool {
		dl := time.Now().Add(wcsSpanTimeout)
		if timedOut {
			dl = time.Now().Add(wcsSpanTimeout / 4)
		}
		for !cond() {
			if time.Now().After(dl) {
				timedOut = true
				return false
			}
			time.Sleep(3 * time.Millisecond)
		}
		return true
	}
	check := func(where string) string {
		held, _, _, _, _ := main.snapshot(0)
		st, _, infl := state()
		c.oracle("flush-markers-are-exactly-the-batches-held-by-workers", intsEq(held, infl),
			fmt.Sprintf("%s: the only running flush jobs hold %v (their main-storage put is still open), flushObjs marks %v", where, held, infl))
		main.mu.Lock()
		ov := append([]int(nil), main.overlap...)
		main.mu.Unlock()
		c.oracle("an-object-is-never-handed-to-two-workers-at-once", len(ov) == 0,
			fmt.Sprintf("%s: %v reached the main storage while another flush of the same object was still running", where, ov))
		return st
	}

	var lens []int
	var res strings.Builder
	res.WriteString("=> ok")
	from := 0
	for r, n := range rounds {
		gate.shut()
		for k := 0; k < n; k++ {
			i := nput + k
			obj := mkObject(1, i+1, detPayload(psizes[i], i+1))
			data := obj.Marshal()
			lens = append(lens, len(data))
			if err := wc.Put(numAddr(1, i+1), obj, data); err != nil {
				panic(err)
			}
		}
		nput += n
		gate.closed.Store(false)
		await(quiet)
		st := check(fmt.Sprintf("after the pass of round %d", r+1))
		_, _, _, calls, ncalls := main.snapshot(from)
		from = ncalls
		fmt.Fprintf(&res, " | pass calls=%s %s", calls, st)
	}
	anyFail := false
	var failedAt time.Time
	for i, v := range stall {
		cl := main.heldCall(v)
		if cl == nil {
			res.WriteString(" | end -")
			continue
		}
		given := append([]int(nil), cl.ids...)
		gate.shut()
		cl.release <- ends[i] == 1
		if ends[i] == 0 && !anyFail {
			anyFail, failedAt = true, time.Now()
		}
		// the worker is done when its call has returned, (ok:) its files have left the cache, and the markers of the
		// addresses it was given are gone
		okw := await(func() bool {
			main.mu.Lock()
			done := cl.done
			main.mu.Unlock()
			if !done {
				return false
			}
			_, fs, infl := state()
			for _, id := range given {
				if containsInt(infl, id) || (ends[i] == 1 && containsInt(fs, id)) {
					return false
				}
			}
			return true
		})
		_, _, infl := state()
		c.oracle("a-finished-worker-has-unmarked-every-address-it-was-given", okw,
			fmt.Sprintf("the worker that was given %v is done (its main-storage put returned ok=%v %v ago), flushObjs still marks %v", given, ends[i] == 1, wcsSpanTimeout, infl))
		await(quiet)
		st := check(fmt.Sprintf("after the held flush of %v ended (ok=%v)", given, ends[i] == 1))
		gate.closed.Store(false)
		fmt.Fprintf(&res, " | end %s", st)
	}
	final := func(where string) {
		_, fs, _ := state()
		var missing []int
		for id := 1; id <= nput; id++ {
			if _, err := main.FSTree.Get(numAddr(1, id)); err != nil {
				missing = append(missing, id)
			}
		}
		c.oracle("cache-is-emptied-once-the-storage-accepts-writes", len(fs) == 0 && len(missing) == 0,
			fmt.Sprintf("%s the cache still holds %v, the main storage lacks %v", where, fs, missing))
	}
	if o.kv["wait"] == "1" {
		if anyFail {
			// error back-off (10 s) + the pass that follows it
			time.Sleep(time.Until(failedAt.Add(10 * time.Second)))
			await(func() bool { _, fs, _ := state(); return len(fs) == 0 && quiet() })
		}
		st := check("after the back-off")
		final("every main-storage call since the failure succeeded; more than 11 s after it (back-off 10 s, tick 1 s)")
		fmt.Fprintf(&res, " | later %s", st)
	} else if !anyFail {
		final("no main-storage call failed, all workers are idle, yet")
	}
	if gate.asked.Load() == 0 {
		panic("wcsched span: the fault-point dispatch by creator goroutine did not find this case's scheduler (harness defect)")
	}
	full := line
	if _, ok := o.kv["lens"]; !ok {
		full = line + " lens=" + joinInts(lens)
	}
	return full, res.String()
}

func containsInt(xs []int, x int) bool {
	for _, y := range xs {
		if y == x {
			return true
		}
	}
	return false
}
