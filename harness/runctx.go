package main

import (
	"bufio"
	"context"
	"crypto/sha256"
	"encoding/json"
	"flag"
	"fmt"
	"math/rand/v2"
	"os"
	"sort"
	"strconv"
	"strings"
)

// runCtx carries everything one engine run needs: the single PRNG all random
// choices derive from, the output streams of the line protocol and the
// measured statistics that end up in the evidence file.
type runCtx struct {
	engine string
	prop   string
	tier   string
	seed   uint64
	rng    *rand.Rand
	replay string
	budget int // scaling factor chosen by the check (1 = quick default)

	opsW  *bufio.Writer
	implW *bufio.Writer
	opsF  *os.File
	implF *os.File
	stats string

	nOps      int
	nSeq      int
	curSeq    []string
	distinct  map[[8]byte]struct{}
	hist      map[string]int
	samples   []string
	failures  []oracleFailure
	nOracle   int
	maxSample int
	nSampled  int
	failSigs  map[string]int
	// independent is set by engines whose ops do not depend on earlier ops of the sequence
	independent bool
	srng        *rand.Rand
}

func clip(s string) string {
	if len(s) > 400 {
		return s[:400] + "…"
	}
	return s
}

type oracleFailure struct {
	Prop      string   `json:"prop"`
	Assertion string   `json:"assertion"`
	Detail    string   `json:"detail"`
	Seq       int      `json:"seq"`
	Ops       []string `json:"ops"`
}

func newRunCtx(engine string, args []string) (*runCtx, error) {
	fs := flag.NewFlagSet(engine, flag.ContinueOnError)
	var (
		prop   = fs.String("prop", "", "property id the run serves")
		tier   = fs.String("tier", "quick", "quick|thorough")
		seed   = fs.Uint64("seed", 1, "PRNG seed")
		ops    = fs.String("ops", "", "file to write operation lines to")
		impl   = fs.String("impl", "", "file to write implementation observations to")
		stats  = fs.String("stats", "", "file to write run statistics (JSON) to")
		replay = fs.String("replay", "", "replay the operation lines of this file instead of generating")
		budget = fs.Int("budget", 1, "budget multiplier")
	)
	if err := fs.Parse(args); err != nil {
		return nil, err
	}
	c := &runCtx{engine: engine, prop: *prop, tier: *tier, seed: *seed, replay: *replay, stats: *stats,
		budget: *budget, distinct: map[[8]byte]struct{}{}, hist: map[string]int{}, maxSample: 6}
	c.rng = rand.New(rand.NewPCG(*seed, 0x9e3779b97f4a7c15^uint64(len(engine))))
	c.srng = rand.New(rand.NewPCG(*seed, 77))
	var err error
	if *ops != "" {
		if c.opsF, err = os.Create(*ops); err != nil {
			return nil, err
		}
		c.opsW = bufio.NewWriterSize(c.opsF, 1<<20)
	}
	if *impl != "" {
		if c.implF, err = os.Create(*impl); err != nil {
			return nil, err
		}
		c.implW = bufio.NewWriterSize(c.implF, 1<<20)
	}
	return c, nil
}

func (c *runCtx) ctx() context.Context { return context.Background() }

func (c *runCtx) thorough() bool { return c.tier == "thorough" }

// n scales a quick-tier count to the tier and budget of the run.
func (c *runCtx) n(quick, thorough int) int {
	v := quick
	if c.thorough() {
		v = thorough
	}
	return v * c.budget
}

// reset starts a new operation sequence (fresh state on both sides).
func (c *runCtx) reset() {
	c.nSeq++
	c.curSeq = c.curSeq[:0]
	c.emit("reset", "=> reset")
}

// emit records one operation line and the implementation's observation of it.
func (c *runCtx) emit(op, obs string) {
	if strings.ContainsAny(op, "\n\r") || strings.ContainsAny(obs, "\n\r") {
		panic("newline in protocol line: " + op + " / " + obs)
	}
	c.nOps++
	if op != "reset" {
		c.curSeq = append(c.curSeq, op)
	}
	if c.opsW != nil {
		c.opsW.WriteString(op)
		c.opsW.WriteByte('\n')
	}
	if c.implW != nil {
		c.implW.WriteString(obs)
		c.implW.WriteByte('\n')
	}
	if op != "reset" {
		// reservoir sample (own PRNG stream so that sampling never perturbs generation)
		c.nSampled++
		if len(c.samples) < c.maxSample {
			c.samples = append(c.samples, clip(op+"  "+obs))
		} else if j := c.srng.IntN(c.nSampled); j < c.maxSample {
			c.samples[j] = clip(op + "  " + obs)
		}
	}
}

// count adds to a named histogram bucket (op kinds, error kinds, branches).
func (c *runCtx) count(key string) { c.hist[key]++ }

// nontrivial records a case that is non-trivial by the engine's rule; distinct
// cases are counted by the hash of key.
func (c *runCtx) nontrivial(key string) {
	h := sha256.Sum256([]byte(key))
	var k [8]byte
	copy(k[:], h[:8])
	c.distinct[k] = struct{}{}
}

// oracle evaluates one assertion of the property's own predicate on the
// implementation's output.
func (c *runCtx) oracle(assertion string, ok bool, detail string) {
	c.oracleSig(assertion, "", ok, detail)
}

// oracleSig is oracle with a failure signature: at most 6 failures are recorded per
// (assertion, signature), so that a rare kind of failure is never crowded out by a frequent one.
func (c *runCtx) oracleSig(assertion, sig string, ok bool, detail string) {
	c.nOracle++
	if ok {
		return
	}
	c.count("oracle_fail:" + assertion)
	key := assertion + "|" + sig
	if c.failSigs == nil {
		c.failSigs = map[string]int{}
	}
	c.failSigs[key]++
	if c.failSigs[key] <= 6 && len(c.failures) < 300 {
		ops := append([]string(nil), c.curSeq...)
		if c.independent && len(ops) > 0 { // every op is a self-contained case: the last op is the witness
			ops = ops[len(ops)-1:]
		}
		if len(detail) > 900 {
			detail = detail[:900] + "…"
		}
		c.failures = append(c.failures, oracleFailure{Prop: c.prop, Assertion: assertion, Detail: detail, Seq: c.nSeq, Ops: ops})
	}
}

func (c *runCtx) finish() {
	if c.opsW != nil {
		c.opsW.Flush()
		c.opsF.Close()
	}
	if c.implW != nil {
		c.implW.Flush()
		c.implF.Close()
	}
	if c.stats == "" {
		return
	}
	keys := make([]string, 0, len(c.hist))
	for k := range c.hist {
		keys = append(keys, k)
	}
	sort.Strings(keys)
	hist := map[string]int{}
	for _, k := range keys {
		hist[k] = c.hist[k]
	}
	out := map[string]any{
		"engine": c.engine, "prop": c.prop, "tier": c.tier, "seed": c.seed,
		"ops": c.nOps, "sequences": c.nSeq, "distinct_nontrivial": len(c.distinct),
		"oracle_evaluations": c.nOracle, "histogram": hist, "samples": c.samples,
		"failures": c.failures,
	}
	b, _ := json.MarshalIndent(out, "", " ")
	os.WriteFile(c.stats, b, 0o644)
}

// replayLines returns the sequences (split at "reset") of the replay file.
func (c *runCtx) replayLines() ([][]string, error) {
	b, err := os.ReadFile(c.replay)
	if err != nil {
		return nil, err
	}
	var seqs [][]string
	var cur []string
	started := false
	for _, ln := range strings.Split(string(b), "\n") {
		ln = strings.TrimSpace(ln)
		if ln == "" || strings.HasPrefix(ln, "#") {
			continue
		}
		if ln == "reset" {
			if started {
				seqs = append(seqs, cur)
			}
			cur = nil
			started = true
			continue
		}
		started = true
		cur = append(cur, ln)
	}
	if started {
		seqs = append(seqs, cur)
	}
	return seqs, nil
}

// kv parses "name k=v k=v" into the name and a key/value map.
type opLine struct {
	engine string
	name   string
	kv     map[string]string
}

func parseOp(line string) opLine {
	f := strings.Fields(line)
	o := opLine{kv: map[string]string{}}
	if len(f) > 0 {
		o.engine = f[0]
	}
	if len(f) > 1 {
		o.name = f[1]
	}
	for _, t := range f[2:] {
		if i := strings.IndexByte(t, '='); i >= 0 {
			o.kv[t[:i]] = t[i+1:]
		}
	}
	return o
}

func (o opLine) int(k string) int {
	v, err := strconv.Atoi(o.kv[k])
	if err != nil {
		panic(fmt.Sprintf("bad int %s=%q", k, o.kv[k]))
	}
	return v
}

func (o opLine) u64(k string) uint64 {
	v, err := strconv.ParseUint(o.kv[k], 10, 64)
	if err != nil {
		panic(fmt.Sprintf("bad uint %s=%q", k, o.kv[k]))
	}
	return v
}

func (o opLine) ints(k string) []int {
	s := o.kv[k]
	if s == "" || s == "-" {
		return nil
	}
	var r []int
	for _, p := range strings.Split(s, ",") {
		v, err := strconv.Atoi(p)
		if err != nil {
			panic(fmt.Sprintf("bad int list %s=%q", k, s))
		}
		r = append(r, v)
	}
	return r
}

func joinInts(xs []int) string {
	if len(xs) == 0 {
		return "-"
	}
	var sb strings.Builder
	for i, x := range xs {
		if i > 0 {
			sb.WriteByte(',')
		}
		sb.WriteString(strconv.Itoa(x))
	}
	return sb.String()
}

// seqRunner is the common shape of an engine: a generator of operation
// sequences and an executor of one sequence against the real code.
type seqRunner struct {
	gen  func(c *runCtx, run func(ops []string))
	exec func(c *runCtx, ops []string)
}

func (r seqRunner) engine() engineFn {
	return func(c *runCtx) error {
		if c.replay != "" {
			seqs, err := c.replayLines()
			if err != nil {
				return err
			}
			for _, s := range seqs {
				c.reset()
				r.exec(c, s)
			}
			return nil
		}
		r.gen(c, func(ops []string) {
			c.reset()
			r.exec(c, ops)
		})
		return nil
	}
}
