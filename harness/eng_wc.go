package main

import (
	"errors"
	"fmt"
	"os"
	"path/filepath"
	"sort"
	"strings"
	"sync"
	"sync/atomic"
	"time"

	"github.com/nspcc-dev/neofs-node/pkg/local_object_storage/blobstor/common"
	"github.com/nspcc-dev/neofs-node/pkg/local_object_storage/blobstor/fstree"
	"github.com/nspcc-dev/neofs-node/pkg/local_object_storage/writecache"
	"github.com/nspcc-dev/neofs-node/pkg/util/verifhook"
	oid "github.com/nspcc-dev/neofs-sdk-go/object/id"
)

func init() {
	engines["wc"] = seqRunner{gen: wcGen, exec: wcExec}.engine()
}

// failingStorage is the main storage behind the cache: a real FSTree whose writes fail while `fail` is set.
type failingStorage struct {
	*fstree.FSTree
	fail atomic.Bool
}

var errInjected = errors.New("injected main storage failure")

func (s *failingStorage) Put(a oid.Address, d []byte) error {
	if s.fail.Load() {
		return errInjected
	}
	return s.FSTree.Put(a, d)
}

func (s *failingStorage) PutBatch(m map[oid.Address][]byte) error {
	if s.fail.Load() {
		return errInjected
	}
	return s.FSTree.PutBatch(m)
}

const wcMaxSize = 6000

func wcGen(c *runCtx, run func([]string)) {
	for i := 0; i < c.n(120, 6000); i++ {
		var ops []string
		n := 6 + c.rng.IntN(25)
		// an address is the hash of the object: one address always carries the same bytes
		var psize [6]int
		for a := range psize {
			psize[a] = []int{0, 10, 300, 900, 2500}[c.rng.IntN(5)] + c.rng.IntN(3)
		}
		for j := 0; j < n; j++ {
			a := 1 + c.rng.IntN(5)
			switch k := c.rng.IntN(100); {
			case k < 50:
				ops = append(ops, fmt.Sprintf("wc put a=%d psize=%d", a, psize[a]))
			case k < 57:
				ops = append(ops, fmt.Sprintf("wc cput a=%d k=%d psize=%d n=%d", 100+10*j, 6, c.rng.IntN(3), 2+c.rng.IntN(3)))
			case k < 65:
				ops = append(ops, fmt.Sprintf("wc del a=%d", a))
			case k < 80:
				ops = append(ops, fmt.Sprintf("wc flushall ok=%d", c.rng.IntN(2)))
			case k < 90:
				ops = append(ops, "wc reopen")
			default:
				ops = append(ops, fmt.Sprintf("wc flushall ok=1"))
			}
		}
		run(ops)
	}
}

func wcExec(c *runCtx, ops []string) {
	dir := scratchDir("wc")
	defer os.RemoveAll(dir)
	mainFS := fstree.New(fstree.WithPath(filepath.Join(dir, "main")), fstree.WithDepth(1), fstree.WithNoSync(true))
	main := &failingStorage{FSTree: mainFS}
	main.fail.Store(true) // background flushes never get through; flushing happens at the explicit steps
	if err := main.Open(false); err != nil {
		panic(err)
	}
	if err := main.Init(common.ID{}); err != nil {
		panic(err)
	}
	defer main.Close()
	newCache := func() writecache.Cache {
		wc := writecache.New(writecache.WithPath(filepath.Join(dir, "wc")), writecache.WithStorage(main),
			writecache.WithMaxCacheSize(wcMaxSize), writecache.WithNoSync(true), writecache.WithFlushWorkersCount(2))
		if err := wc.Open(false); err != nil {
			panic(err)
		}
		if err := wc.Init(common.ID{}); err != nil {
			panic(err)
		}
		return wc
	}
	wc := newCache()
	defer func() { wc.Close() }()
	lens := map[int]int{} // last stored marshalled length per address (shadow of acknowledged puts)
	var sizeOK bool
	var sizeDetail string
	observe := func() string {
		writecache.VerifQuiesce(wc)
		size, n := writecache.VerifSize(wc)
		var files []string
		var total uint64
		_ = writecache.VerifFiles(wc, func(a oid.Address, d []byte) error {
			files = append(files, fmt.Sprintf("%d:%d", oidNum(a.Object()), len(d)))
			total += uint64(len(d))
			return nil
		})
		sortKV(files)
		var mains []string
		_ = main.Iterate(func(a oid.Address, d []byte) error {
			mains = append(mains, fmt.Sprintf("%d:%d", oidNum(a.Object()), len(d)))
			return nil
		}, nil)
		sortKV(mains)
		sizeOK = size == total && n == len(files)
		sizeDetail = fmt.Sprintf("reported size %d for %d objects, the cache holds %d bytes in %d files %v", size, n, total, len(files), files)
		j := func(x []string) string {
			if len(x) == 0 {
				return "-"
			}
			return fmt.Sprint(x)
		}
		return fmt.Sprintf("size=%d n=%d files=%s main=%s", size, n, j(files), j(mains))
	}
	for _, line := range ops {
		o := parseOp(line)
		c.count(o.name)
		full := line
		var res string
		switch o.name {
		case "put":
			a := o.int("a")
			obj := mkObject(1, a, detPayload(o.int("psize"), a))
			data := obj.Marshal()
			if _, ok := o.kv["len"]; !ok {
				full = fmt.Sprintf("%s len=%d", line, len(data))
			}
			err := wc.Put(numAddr(1, a), obj, data)
			switch {
			case err == nil:
				res = "ok"
				lens[a] = len(data)
			case errors.Is(err, writecache.ErrOutOfSpace):
				res = "noSpace"
			default:
				res = "err"
			}
		case "cput":
			// k objects, each put for the first time by n concurrent writers that are lined up (spin barrier) right
			// before the accounting step (point wc.put.afterFile): every object must be accounted once
			a0, k, n := o.int("a"), o.int("k"), o.int("n")
			res = "ok"
			var lensNew []string
			for j := 0; j < k; j++ {
				a := a0 + j
				obj := mkObject(1, a, detPayload(o.int("psize"), a))
				data := obj.Marshal()
				lensNew = append(lensNew, fmt.Sprint(len(data)))
				var arrived atomic.Int32
				deadline := time.Now().Add(2 * time.Second)
				verifhook.SetPoint(func(name string) {
					if name != "wc.put.afterFile" {
						return
					}
					arrived.Add(1)
					for int(arrived.Load()) < n && time.Now().Before(deadline) { // spin: release all writers at once
					}
				})
				errs := make([]error, n)
				var wg sync.WaitGroup
				for i := 0; i < n; i++ {
					wg.Add(1)
					go func(i int) {
						defer wg.Done()
						errs[i] = wc.Put(numAddr(1, a), obj, data)
					}(i)
				}
				wg.Wait()
				verifhook.SetPoint(nil)
				for _, err := range errs {
					if errors.Is(err, writecache.ErrOutOfSpace) {
						res = "noSpace"
					} else if err != nil {
						res = "err"
					}
				}
				if res == "ok" {
					lens[a] = len(data)
				}
			}
			if _, ok := o.kv["lens"]; !ok {
				full = fmt.Sprintf("%s lens=%s", line, strings.Join(lensNew, ","))
			}
		case "del":
			err := wc.Delete(numAddr(1, o.int("a")))
			if err == nil {
				res = "ok"
				delete(lens, o.int("a"))
			} else {
				res = "notFound"
			}
		case "flushall":
			ok := o.kv["ok"] == "1"
			main.fail.Store(!ok)
			err := wc.Flush(false)
			main.fail.Store(true)
			writecache.VerifQuiesce(wc)
			if err == nil {
				res = "ok"
			} else {
				res = "storage"
			}
			if ok {
				_, n := writecache.VerifSize(wc)
				c.oracle("flush-empties-the-cache-once-storage-accepts-writes", err == nil && n == 0, fmt.Sprintf("err=%v, %d objects left", err, n))
				for a, l := range lens {
					d, gerr := main.GetBytes(numAddr(1, a))
					c.oracle("flushed-object-is-in-main-storage", gerr == nil && len(d) == l, fmt.Sprintf("object %d: %v", a, gerr))
				}
				lens = map[int]int{}
			}
		case "reopen":
			if err := wc.Close(); err != nil {
				panic(err)
			}
			wc = newCache()
			res = "ok"
		default:
			c.emit(line, "=> bad-op")
			continue
		}
		c.emit(full, "=> "+res+" "+observe())
		c.oracle("reported-size-equals-held-bytes", sizeOK, sizeDetail) // after emit: the op is part of the witness
	}
	if len(ops) > 5 {
		c.nontrivial(fmt.Sprint(ops))
	}
}

// sortKV orders "id:len" entries by numeric id (the model lists them in id order).
func sortKV(xs []string) {
	num := func(s string) int {
		n := 0
		fmt.Sscanf(s, "%d:", &n)
		return n
	}
	sort.Slice(xs, func(i, j int) bool { return num(xs[i]) < num(xs[j]) })
}
