package main

// C30 part of engine "acl": real session (V1, V2) and bearer tokens built with the SDK and signed with real keys, valid and
// tampered, run through the real acl/v2.Service verification functions on ONE service per sequence, so that its verdict
// caches (shared with the object format validator's AuthenticateObject) are exercised across epoch changes.

import (
	"context"
	"crypto/sha256"
	"errors"
	"fmt"
	"strconv"
	"strings"
	"time"

	"github.com/google/uuid"
	v2 "github.com/nspcc-dev/neofs-node/pkg/services/object/acl/v2"
	"github.com/nspcc-dev/neofs-node/pkg/services/object/common"
	"github.com/nspcc-dev/neofs-node/pkg/util/verifbridge"
	"github.com/nspcc-dev/neofs-sdk-go/bearer"
	apistatus "github.com/nspcc-dev/neofs-sdk-go/client/status"
	"github.com/nspcc-dev/neofs-sdk-go/container"
	"github.com/nspcc-dev/neofs-sdk-go/container/acl"
	cid "github.com/nspcc-dev/neofs-sdk-go/container/id"
	neofscrypto "github.com/nspcc-dev/neofs-sdk-go/crypto"
	neofsecdsa "github.com/nspcc-dev/neofs-sdk-go/crypto/ecdsa"
	"github.com/nspcc-dev/neofs-sdk-go/eacl"
	"github.com/nspcc-dev/neofs-sdk-go/object"
	oid "github.com/nspcc-dev/neofs-sdk-go/object/id"
	protoacl "github.com/nspcc-dev/neofs-sdk-go/proto/acl"
	protoobject "github.com/nspcc-dev/neofs-sdk-go/proto/object"
	"github.com/nspcc-dev/neofs-sdk-go/proto/refs"
	protosession "github.com/nspcc-dev/neofs-sdk-go/proto/session"
	"github.com/nspcc-dev/neofs-sdk-go/session"
	sessionv2 "github.com/nspcc-dev/neofs-sdk-go/session/v2"
	"github.com/nspcc-dev/neofs-sdk-go/user"
	"github.com/nspcc-dev/neofs-sdk-go/version"
	"google.golang.org/protobuf/proto"
)

// tokCID: containers 1 < 2 in byte order (V2 contexts must be sorted by container id)
func tokCID(n int) cid.ID {
	a, b := aclCID(1), aclCID(2)
	if string(a[:]) > string(b[:]) {
		a, b = b, a
	}
	switch n {
	case 1:
		return a
	case 2:
		return b
	}
	return cid.ID{}
}

type tokCnrSrc struct{ cnr container.Container }

func (s tokCnrSrc) Get(cid.ID) (container.Container, error) { return s.cnr, nil }

type tokNNS struct{}

func (tokNNS) HasUser(string, user.ID) (bool, error) { return false, nil }

// tokState is what lives as long as one sequence: the service with its caches, the epoch and the chain time.
type tokState struct {
	w     *aclWorldT
	nm    *aclNetmapP
	tm    *aclTimeP
	svc   v2.Service
	cache *verifbridge.ObjectSessionsCache
	fs    aclFSChain
}

type aclNetmapP struct{ aclNetmap }

func (s *aclNetmapP) Epoch() (uint64, error) { return s.epoch, nil }

type aclTimeP struct{ t time.Time }

func (s *aclTimeP) Now() time.Time { return s.t }

func newTokState(w *aclWorldT) *tokState {
	st := &tokState{w: w, nm: &aclNetmapP{aclNetmap{epoch: 5, inCnr: true}}, tm: &aclTimeP{time.Unix(1000, 0)}}
	st.cache = verifbridge.NewObjectSessionsCache(64)
	var cnr container.Container
	cnr.SetOwner(w.usr[1])
	var ba acl.Basic
	ba.FromBits(0x0FFFFFFF)
	cnr.SetBasicACL(ba)
	st.svc = v2.New(st.fs, st.cache, v2.WithIRFetcher(aclIR{}), v2.WithNetmapper(st.nm), v2.WithContainerSource(tokCnrSrc{cnr}), v2.WithTimeProvider(st.tm))
	return st
}

func tokClass(err error) string {
	switch {
	case err == nil:
		return "ok"
	case errors.Is(err, apistatus.ErrSessionTokenExpired):
		return "expired"
	case errors.As(err, new(apistatus.ObjectAccessDenied)):
		return "denied"
	}
	return "rejected"
}

func tokUUID(seed string) uuid.UUID {
	h := sha256.Sum256([]byte(seed))
	var id uuid.UUID
	copy(id[:], h[:16])
	id[6] = (id[6] & 0x0f) | 0x40
	id[8] = (id[8] & 0x3f) | 0x80
	return id
}

// ---- V1

type tokV1 struct {
	iss, sgn, sig int
	nbf, iat, exp uint64
	cnr           int
	objs          []int
	verb          int
	mut           string
}

func tokParseV1(o opLine) tokV1 {
	return tokV1{iss: o.int("iss"), sgn: o.int("sgn"), sig: o.int("sig"), nbf: o.u64("nbf"), iat: o.u64("iat"), exp: o.u64("exp"),
		cnr: o.int("cnr"), objs: o.ints("objs"), verb: o.int("verb"), mut: o.kv["mut"]}
}

func (t tokV1) fields() string {
	return fmt.Sprintf("iss=%d sgn=%d sig=%d nbf=%d iat=%d exp=%d cnr=%d objs=%s verb=%d mut=%s", t.iss, t.sgn, t.sig, t.nbf, t.iat, t.exp, t.cnr, joinInts(t.objs), t.verb, t.mut)
}

func (w *aclWorldT) v1Token(t tokV1) session.Object {
	var tok session.Object
	tok.SetID(tokUUID("v1"))
	tok.SetAuthKey((*neofsecdsa.PublicKey)(&w.priv[6].PrivateKey.PublicKey))
	tok.SetNbf(t.nbf)
	tok.SetIat(t.iat)
	tok.SetExp(t.exp)
	tok.BindContainer(tokCID(t.cnr))
	var objs []oid.ID
	for _, o := range t.objs {
		objs = append(objs, numOID(o))
	}
	if len(objs) > 0 {
		tok.LimitByObjects(objs...)
	}
	tok.ForVerb(session.ObjectVerb(t.verb))
	tok.SetIssuer(w.usr[t.iss])
	return tok
}

// v1Msg builds the token as sent: signed by key sgn; with mut=F the signature was made over a token whose field F differed.
func (w *aclWorldT) v1Msg(t tokV1) *protosession.SessionToken {
	orig := t
	switch t.mut {
	case "exp":
		orig.exp++
	case "nbf":
		orig.nbf++
	case "iat":
		orig.iat++
	case "cnr":
		orig.cnr = 3 - t.cnr
	case "objs":
		orig.objs = append([]int{9}, t.objs...)
	case "verb":
		orig.verb = t.verb%6 + 1
	case "iss":
		orig.iss = t.sgn
	}
	so := w.v1Token(orig)
	if err := so.SetSignature(w.sign[t.sgn]); err != nil {
		panic(err)
	}
	sig, _ := so.Signature()
	sent := w.v1Token(t)
	sent.AttachSignature(sig)
	m := sent.ProtoMessage()
	if t.sig == 0 {
		m.Signature.Sign[len(m.Signature.Sign)/2] ^= 0x04
	}
	return m
}

func (t tokV1) sigValid() bool {
	return t.sig == 1 && (t.mut == "none" || (t.mut == "iss" && t.iss == t.sgn))
}

// ---- V2

type tokCtx struct {
	cnr   int
	verbs []int
}

type tokV2 struct {
	ver, iss, sgn, sig int
	iat, nbf, exp      uint64
	subj               []int
	ctx                []tokCtx
	mut                string
	fin                bool // `final`: may not be delegated further (chains only)
}

func tokParseV2(o opLine) tokV2 {
	t := tokV2{ver: o.int("ver"), iss: o.int("iss"), sgn: o.int("sgn"), sig: o.int("sig"), iat: o.u64("iat"), nbf: o.u64("nbf"), exp: o.u64("exp"),
		subj: o.ints("subj"), mut: o.kv["mut"]}
	t.ctx = tokParseCtx(o.kv["ctx"])
	return t
}

func tokParseCtx(s string) (ctx []tokCtx) {
	if s == "-" || s == "" {
		return nil
	}
	for _, p := range strings.Split(s, "|") {
		cv := strings.SplitN(p, ":", 2)
		c, err := strconv.Atoi(cv[0])
		if err != nil || len(cv) != 2 {
			panic("bad ctx")
		}
		x := tokCtx{cnr: c}
		if cv[1] != "" {
			for _, v := range strings.Split(cv[1], ".") {
				n, err := strconv.Atoi(v)
				if err != nil {
					panic("bad ctx verb")
				}
				x.verbs = append(x.verbs, n)
			}
		}
		ctx = append(ctx, x)
	}
	return ctx
}

func tokCtxString(ctx []tokCtx) string {
	var cs []string
	for _, c := range ctx {
		var vs []string
		for _, v := range c.verbs {
			vs = append(vs, strconv.Itoa(v))
		}
		cs = append(cs, strconv.Itoa(c.cnr)+":"+strings.Join(vs, "."))
	}
	if len(cs) == 0 {
		return "-"
	}
	return strings.Join(cs, "|")
}

func (t tokV2) fields() string {
	return fmt.Sprintf("ver=%d iss=%d sgn=%d sig=%d iat=%d nbf=%d exp=%d subj=%s ctx=%s mut=%s", t.ver, t.iss, t.sgn, t.sig, t.iat, t.nbf, t.exp, joinInts(t.subj), tokCtxString(t.ctx), t.mut)
}

func (w *aclWorldT) v2Body(t tokV2) *protosession.SessionTokenV2_Body {
	b := &protosession.SessionTokenV2_Body{Version: uint32(t.ver), Lifetime: &protosession.TokenLifetime{Iat: t.iat, Nbf: t.nbf, Exp: t.exp}, Final: t.fin}
	if t.iss != 0 {
		b.Issuer = w.usr[t.iss].ProtoMessage()
	}
	for _, s := range t.subj {
		tg := &protosession.Target{}
		if s != 0 {
			tg.Identifier = &protosession.Target_OwnerId{OwnerId: w.usr[s].ProtoMessage()}
		}
		b.Subjects = append(b.Subjects, tg)
	}
	for _, c := range t.ctx {
		m := &protosession.SessionContextV2{}
		if c.cnr != 0 {
			m.Container = tokCID(c.cnr).ProtoMessage()
		}
		for _, v := range c.verbs {
			m.Verbs = append(m.Verbs, protosession.Verb(v))
		}
		b.Contexts = append(b.Contexts, m)
	}
	return b
}

func (w *aclWorldT) v2Msg(t tokV2) *protosession.SessionTokenV2 {
	orig := t
	switch t.mut {
	case "exp":
		orig.exp++
	case "nbf":
		orig.nbf--
	case "iat":
		orig.iat--
	case "ctx":
		orig.ctx = append([]tokCtx{}, t.ctx...)
		if len(orig.ctx) > 0 {
			orig.ctx = orig.ctx[:len(orig.ctx)-1]
		}
	case "subj":
		orig.subj = append([]int{5}, t.subj...)
	case "iss":
		orig.iss = t.sgn
	}
	ob := w.v2Body(orig)
	buf := make([]byte, ob.MarshaledSize())
	ob.MarshalStable(buf)
	var sig neofscrypto.Signature
	if err := sig.Calculate(w.sign[t.sgn], buf); err != nil {
		panic(err)
	}
	m := &protosession.SessionTokenV2{Body: w.v2Body(t), Signature: sig.ProtoMessage()}
	if t.sig == 0 {
		m.Signature.Sign[len(m.Signature.Sign)/2] ^= 0x04
	}
	return m
}

func (t tokV2) sigValid() bool {
	return t.sig == 1 && (t.mut == "none" || (t.mut == "iss" && t.iss == t.sgn))
}

// ---- V2 with a delegation chain: level 0 is the token presented with the request, level i+1 the origin of level i,
// the last level the root (its issuer is the account the request is judged as)

type tokChain []tokV2

// `n=<origins> t<i>=iss,sgn,sig,iat,nbf,exp,fin,ver s<i>=subjects c<i>=contexts m<i>=field changed after signing`
func tokParseChain(o opLine) tokChain {
	n := o.int("n")
	if n < 0 || n > 8 {
		panic("bad chain length")
	}
	var ch tokChain
	for i := 0; i <= n; i++ {
		k := strconv.Itoa(i)
		f := o.ints("t" + k)
		if len(f) != 8 || f[6] > 1 || f[2] > 1 {
			panic("bad chain level")
		}
		mut, ok := o.kv["m"+k]
		if _, ok2 := o.kv["s"+k]; !ok || !ok2 || o.kv["c"+k] == "" {
			panic("bad chain level")
		}
		ch = append(ch, tokV2{iss: f[0], sgn: f[1], sig: f[2], iat: uint64(f[3]), nbf: uint64(f[4]), exp: uint64(f[5]), fin: f[6] == 1, ver: f[7],
			subj: o.ints("s" + k), ctx: tokParseCtx(o.kv["c"+k]), mut: mut})
	}
	return ch
}

func (ch tokChain) fields() string {
	var sb strings.Builder
	fmt.Fprintf(&sb, "n=%d", len(ch)-1)
	for i, t := range ch {
		fin := 0
		if t.fin {
			fin = 1
		}
		fmt.Fprintf(&sb, " t%d=%d,%d,%d,%d,%d,%d,%d,%d s%d=%s c%d=%s m%d=%s", i, t.iss, t.sgn, t.sig, t.iat, t.nbf, t.exp, fin, t.ver,
			i, joinInts(t.subj), i, tokCtxString(t.ctx), i, t.mut)
	}
	return sb.String()
}

// chainMsg nests the really signed tokens: every level is signed on its own (the signature covers the body, not the origin)
func (w *aclWorldT) chainMsg(ch tokChain) *protosession.SessionTokenV2 {
	var m *protosession.SessionTokenV2
	for i := len(ch) - 1; i >= 0; i-- {
		x := w.v2Msg(ch[i])
		x.Origin = m
		m = x
	}
	return m
}

func tokSubset(a, b []int) bool {
	for _, x := range a {
		if !inList(b, x) {
			return false
		}
	}
	return true
}

// tokRefDelegation: the property's reading of "x was delegated by o", written from the rules and not from the code's walk:
// o names x's issuer, x lives inside o's lifetime, every context of x is covered by o's context for the same container or,
// failing that, by o's wildcard context.
func tokRefDelegation(x, o tokV2) bool {
	if !inList(o.subj, x.iss) || o.nbf > x.nbf || o.exp < x.exp || o.fin {
		return false
	}
	for _, c := range x.ctx {
		var same, wild *tokCtx
		for i := range o.ctx {
			if o.ctx[i].cnr == c.cnr {
				same = &o.ctx[i]
			}
			if o.ctx[i].cnr == 0 {
				wild = &o.ctx[i]
			}
		}
		switch {
		case same != nil:
			if !tokSubset(c.verbs, same.verbs) {
				return false
			}
		case wild != nil:
			if !tokSubset(c.verbs, wild.verbs) {
				return false
			}
		default:
			return false
		}
	}
	return true
}

// ---- bearer (token-level check only; the request-level rules are the `req` lines)

func tokParseBearer(o opLine) aclBearer {
	return aclBearer{iss: o.int("iss"), sgn: o.int("sgn"), sig: o.int("sig"), nbf: o.u64("nbf"), iat: o.u64("iat"), exp: o.u64("exp"), cnr: o.int("cnr"), tgt: o.int("tgt")}
}

func (w *aclWorldT) bearerMsgMut(b aclBearer, mut string) *protoacl.BearerToken {
	mk := func(b aclBearer) bearer.Token {
		var tok bearer.Token
		t := eacl.ConstructTable(nil)
		switch b.cnr {
		case 1, 2:
			t.SetCID(tokCID(b.cnr))
		}
		tok.SetEACLTable(t)
		if b.tgt != 0 {
			tok.ForUser(w.usr[b.tgt])
		}
		tok.SetNbf(b.nbf)
		tok.SetIat(b.iat)
		tok.SetExp(b.exp)
		if b.iss != 0 {
			tok.SetIssuer(w.usr[b.iss])
		}
		return tok
	}
	orig := b
	switch mut {
	case "exp":
		orig.exp++
	case "nbf":
		orig.nbf++
	case "iat":
		orig.iat++
	case "cnr":
		orig.cnr = (b.cnr + 1) % 3
	case "tgt":
		orig.tgt = b.tgt%4 + 1
	case "iss":
		orig.iss = b.sgn
	}
	ot := mk(orig)
	var sig neofscrypto.Signature
	if err := sig.Calculate(w.sign[b.sgn], ot.SignedData()); err != nil {
		panic(err)
	}
	sent := mk(b)
	sent.AttachSignature(sig)
	m := sent.ProtoMessage()
	if b.sig == 0 {
		m.Signature.Sign[len(m.Signature.Sign)/2] ^= 0x04
	}
	return m
}

// ---- effect of an accepted session token: whose request is it

func (st *tokState) author(tokens common.RequestTokens, rc int) string {
	w := st.w
	cnrID := tokCID(rc)
	addr := &refs.Address{ContainerId: cnrID.ProtoMessage(), ObjectId: numOID(4).ProtoMessage()}
	q := &protoobject.GetRequest{Body: &protoobject.GetRequest_Body{Address: addr}, MetaHeader: &protosession.RequestMetaHeader{Ttl: 2},
		VerifyHeader: &protosession.RequestVerificationHeader{BodySignature: &refs.Signature{Key: w.pub[6], Scheme: refs.SignatureScheme_ECDSA_SHA512}}}
	info, err := st.svc.GetRequestToInfo(context.Background(), q, cnrID, tokens)
	if err != nil || info.SenderAccount == nil {
		return "?"
	}
	return strconv.Itoa(w.userNum(*info.SenderAccount))
}

// ---- one line

var (
	tokCur    *tokState
	tokCurSeq int
)

func tokExec(c *runCtx, w *aclWorldT, line string, o opLine) (handled bool) {
	st := tokCur
	if st == nil || tokCurSeq != c.nSeq { // a new sequence: fresh service, caches, epoch and time
		st = newTokState(w)
		tokCur, tokCurSeq = st, c.nSeq
	}
	defer func() {
		if p := recover(); p != nil {
			c.emit(line, "=> bad-op")
			handled = true
		}
	}()
	ctx := context.Background()
	_ = ctx
	switch o.name {
	case "epoch":
		st.nm.epoch = o.u64("e")
		c.emit(line, "=> ok")
	case "time":
		st.tm.t = time.Unix(int64(o.u64("t")), 0)
		c.emit(line, "=> ok")
	case "purge": // what the new-epoch handlers of cmd/neofs-node/object.go do
		st.svc.ResetTokenCheckCache()
		st.cache.ResetCache()
		c.emit(line, "=> ok")
	case "v1":
		t := tokParseV1(o)
		rv, rc, ro := o.int("rv"), o.int("rc"), o.int("ro")
		var reqObj oid.ID
		if ro != 0 {
			reqObj = numOID(ro)
		}
		tok, err := st.svc.VerifySessionV1TokenMessage(w.v1Msg(t), session.ObjectVerb(rv), tokCID(rc), reqObj)
		cls := tokClass(err)
		obs := "=> " + cls
		if err == nil {
			obs += " as=" + st.author(common.RequestTokens{SessionV1: &tok}, rc)
		}
		c.count("v1:" + cls)
		c.emit(line, obs)
		// oracle (reference validity from the generator's ground truth)
		valid := t.sigValid() && t.iss == t.sgn && t.nbf <= st.nm.epoch && t.iat <= st.nm.epoch && st.nm.epoch <= t.exp &&
			t.cnr == rc && (t.verb == 5 || ro == 0 || len(t.objs) == 0 || inList(t.objs, ro)) && tokRefVerb(rv, t.verb)
		c.oracleSig("session-token-honoured-only-if-valid-for-request", fmt.Sprintf("v1 sig=%v life=%v", t.sigValid(), t.exp >= st.nm.epoch), !(err == nil && !valid),
			fmt.Sprintf("V1 token accepted at epoch %d although not valid for the request: %s", st.nm.epoch, line))
		c.oracle("valid-session-token-accepted", !(err != nil && valid), fmt.Sprintf("valid V1 token refused (%v): %s", err, line))
		if err == nil {
			c.nontrivial(line)
		}
	case "v2":
		t := tokParseV2(o)
		rv, rc := o.int("rv"), o.int("rc")
		tok, err := st.svc.VerifySessionTokenMessage(w.v2Msg(t), sessionv2.Verb(rv), tokCID(rc))
		cls := tokClass(err)
		obs := "=> " + cls
		if err == nil {
			obs += " as=" + st.author(common.RequestTokens{Session: &tok}, rc)
		}
		c.count("v2:" + cls)
		c.emit(line, obs)
		now := uint64(st.tm.t.Unix())
		admits := false
		for _, x := range t.ctx {
			admits = admits || ((x.cnr == 0 || x.cnr == rc) && inList(x.verbs, rv))
		}
		valid := t.sigValid() && t.iss == t.sgn && t.iss != 0 && t.iat <= now && t.nbf <= now && now <= t.exp && admits
		c.oracleSig("session-token-honoured-only-if-valid-for-request", fmt.Sprintf("v2 sig=%v", t.sigValid()), !(err == nil && !valid),
			fmt.Sprintf("V2 token accepted at time %d although not valid for the request: %s", now, line))
		if err == nil {
			c.nontrivial(line)
		}
	case "v2c":
		ch := tokParseChain(o)
		rv, rc := o.int("rv"), o.int("rc")
		tok, err := st.svc.VerifySessionTokenMessage(w.chainMsg(ch), sessionv2.Verb(rv), tokCID(rc))
		cls := tokClass(err)
		obs := "=> " + cls
		as := ""
		if err == nil {
			as = st.author(common.RequestTokens{Session: &tok}, rc)
			obs += " as=" + as
		}
		c.count("v2c:" + cls)
		c.count(fmt.Sprintf("v2c-origins:%d:%s", len(ch)-1, cls))
		c.emit(line, obs)
		now := uint64(st.tm.t.Unix())
		admits := false
		for _, x := range ch[0].ctx {
			admits = admits || ((x.cnr == 0 || x.cnr == rc) && inList(x.verbs, rv))
		}
		// reference validity from the generator's ground truth: EVERY token of the chain signed by its own issuer, every
		// delegation step covered by the origin, at most MaxDelegationDepth origins, outermost token valid for the request
		valid := len(ch)-1 <= sessionv2.MaxDelegationDepth && ch[0].iat <= now && ch[0].nbf <= now && now <= ch[0].exp && admits
		badLevel := -1
		for i, t := range ch {
			ok := t.sigValid() && t.iss == t.sgn && t.iss != 0
			if ok && i+1 < len(ch) {
				ok = tokRefDelegation(t, ch[i+1])
			}
			if !ok && badLevel < 0 {
				badLevel = i
			}
			valid = valid && ok
		}
		c.oracleSig("session-token-honoured-only-if-valid-for-request", fmt.Sprintf("v2c origins=%d bad=%d", len(ch)-1, badLevel), !(err == nil && !valid),
			fmt.Sprintf("delegated V2 token (%d origins) accepted at time %d although level %d of its chain is not valid (signed by its issuer / delegated by its origin): %s", len(ch)-1, now, badLevel, line))
		root := ch[len(ch)-1]
		c.oracleSig("request-judged-as-original-issuer-only-if-root-token-signed-by-it", fmt.Sprintf("origins=%d", len(ch)-1),
			!(err == nil && !(as == strconv.Itoa(root.iss) && root.sigValid() && root.sgn == root.iss)),
			fmt.Sprintf("request judged as account %s, root token issued by %d signed by %d (signature valid: %v): %s", as, root.iss, root.sgn, root.sigValid(), line))
		if err == nil && len(ch) > 1 {
			c.nontrivial(line)
		}
	case "v2depth": // the SDK constant the model's chain-depth bound stands for
		c.emit(line, fmt.Sprintf("=> ok max=%d", sessionv2.MaxDelegationDepth))
	case "bearer":
		b := tokParseBearer(o)
		mut := o.kv["mut"]
		_, err := st.svc.VerifyBearerTokenMessage(w.bearerMsgMut(b, mut))
		cls := tokClass(err)
		c.count("bearer:" + cls)
		c.emit(line, "=> "+cls)
		sigValid := b.sig == 1 && (mut == "none" || (mut == "iss" && b.iss == b.sgn))
		valid := sigValid && b.iss == b.sgn && b.iss != 0 && b.nbf <= st.nm.epoch && b.iat <= st.nm.epoch && st.nm.epoch <= b.exp
		c.oracleSig("bearer-token-honoured-only-if-valid", fmt.Sprintf("sig=%v life=%v", sigValid, b.exp >= st.nm.epoch), !(err == nil && !valid),
			fmt.Sprintf("bearer token accepted at epoch %d although invalid: %s", st.nm.epoch, line))
		c.oracle("valid-bearer-token-accepted", !(err != nil && valid), fmt.Sprintf("valid bearer token refused (%v): %s", err, line))
		if err == nil {
			c.nontrivial(line)
		}
	case "objauth": // the object format validator authenticates an object carrying the V1 token: same cache, same key
		t := tokParseV1(o)
		m := w.v1Msg(t)
		var tok session.Object
		if err := tok.FromProtoMessage(m); err != nil {
			c.emit(line, "=> err")
			break
		}
		obj := object.New(tokCID(t.cnr), w.usr[t.iss])
		v := version.Current()
		obj.SetVersion(&v)
		obj.SetSessionToken(&tok)
		obj.SetPayloadSize(0)
		obj.SetID(oid.ID(sha256.Sum256(obj.Marshal())))
		if err := obj.Sign(neofsecdsa.SignerRFC6979(w.priv[6].PrivateKey)); err != nil {
			panic(err)
		}
		err := verifbridge.AuthenticateObject(*obj, nil, st.cache, tokNNS{})
		if err != nil {
			c.emit(line, "=> err")
		} else {
			c.emit(line, "=> ok")
		}
	case "mutbyte": // a single flipped byte anywhere in the encoded token: never accepted
		kind, pos := o.kv["k"], o.int("pos")
		res := st.mutByte(kind, pos, o)
		if res == "undecodable" { // cannot even be decoded from the wire: not accepted
			res = "not-ok"
		}
		c.emit(line, "=> "+res)
		c.oracle("single-byte-mutation-rejects", res != "ok", "token with one flipped byte accepted: "+line)
	default:
		return false
	}
	return true
}

func tokRefVerb(rv, tv int) bool {
	switch rv {
	case 3:
		return tv == 3 || tv == 2 || tv == 5 || tv == 6
	case 4:
		return tv == 4 || tv == 5
	}
	return tv == rv
}

// canonical valid tokens for byte mutations
func (st *tokState) mutByte(kind string, pos int, o opLine) string {
	w := st.w
	flip := func(b []byte) []byte {
		c := append([]byte(nil), b...)
		c[pos%len(c)] ^= byte(1 << uint(pos/len(c)%8))
		return c
	}
	switch kind {
	case "v1":
		m := w.v1Msg(tokV1{iss: 1, sgn: 1, sig: 1, nbf: 1, iat: 1, exp: 1 << 40, cnr: 1, objs: []int{4}, verb: 2, mut: "none"})
		b := make([]byte, m.MarshaledSize())
		m.MarshalStable(b)
		var m2 protosession.SessionToken
		if err := proto.Unmarshal(flip(b), &m2); err != nil {
			return "undecodable"
		}
		b2 := make([]byte, m2.MarshaledSize())
		m2.MarshalStable(b2)
		if string(b2) == string(b) {
			return "unchanged"
		}
		_, err := st.svc.VerifySessionV1TokenMessage(&m2, session.VerbObjectGet, tokCID(1), numOID(4))
		if err == nil {
			return "ok"
		}
		return "not-ok"
	case "v2":
		m := w.v2Msg(tokV2{iss: 1, sgn: 1, sig: 1, iat: 1, nbf: 1, exp: 1 << 40, subj: []int{2}, ctx: []tokCtx{{1, []int{2, 3}}}, mut: "none"})
		b := make([]byte, m.MarshaledSize())
		m.MarshalStable(b)
		var m2 protosession.SessionTokenV2
		if err := proto.Unmarshal(flip(b), &m2); err != nil {
			return "undecodable"
		}
		b2 := make([]byte, m2.MarshaledSize())
		m2.MarshalStable(b2)
		if string(b2) == string(b) {
			return "unchanged"
		}
		_, err := st.svc.VerifySessionTokenMessage(&m2, sessionv2.VerbObjectGet, tokCID(1))
		if err == nil {
			return "ok"
		}
		return "not-ok"
	case "b":
		m := w.bearerMsgMut(aclBearer{iss: 1, sgn: 1, sig: 1, nbf: 1, iat: 1, exp: 1 << 40, cnr: 1, tgt: 2}, "none")
		b := make([]byte, m.MarshaledSize())
		m.MarshalStable(b)
		var m2 protoacl.BearerToken
		if err := proto.Unmarshal(flip(b), &m2); err != nil {
			return "undecodable"
		}
		b2 := make([]byte, m2.MarshaledSize())
		m2.MarshalStable(b2)
		if string(b2) == string(b) {
			return "unchanged"
		}
		_, err := st.svc.VerifyBearerTokenMessage(&m2)
		if err == nil {
			return "ok"
		}
		return "not-ok"
	}
	panic("bad kind")
}

// ------------------------------------------------------------------ generator

// tokGenChain builds a VALID delegation chain with n origins at chain time now: the root is issued by one of the accounts
// 1..3, every further token by an account its origin names; lifetimes and contexts only narrow towards level 0.
func tokGenChain(c *runCtx, n int, now uint64) tokChain {
	roots := [][]tokCtx{
		{{0, []int{2, 3, 5}}},
		{{1, []int{1, 2, 3}}, {2, []int{2, 3, 5}}},
		{{0, []int{3, 4}}, {1, []int{2, 3}}},
		{{1, []int{2, 3, 6}}},
	}
	ch := make(tokChain, n+1)
	cp := func(ctx []tokCtx) []tokCtx {
		var r []tokCtx
		for _, x := range ctx {
			r = append(r, tokCtx{x.cnr, append([]int(nil), x.verbs...)})
		}
		return r
	}
	for i := n; i >= 0; i-- {
		t := tokV2{sig: 1, mut: "none"}
		if i == n {
			t.iss = 1 + c.rng.IntN(3)
			t.nbf, t.exp = now-8, now+8
			t.ctx = cp(roots[c.rng.IntN(len(roots))])
		} else {
			o := ch[i+1]
			t.iss = o.subj[c.rng.IntN(len(o.subj))]
			t.nbf, t.exp = o.nbf+uint64(c.rng.IntN(2)), o.exp-uint64(c.rng.IntN(2))
			t.ctx = cp(o.ctx)
			switch c.rng.IntN(5) {
			case 0: // drop a verb
				k := c.rng.IntN(len(t.ctx))
				if len(t.ctx[k].verbs) > 1 {
					j := c.rng.IntN(len(t.ctx[k].verbs))
					t.ctx[k].verbs = append(t.ctx[k].verbs[:j], t.ctx[k].verbs[j+1:]...)
				}
			case 1: // drop a context
				if len(t.ctx) > 1 {
					k := c.rng.IntN(len(t.ctx))
					t.ctx = append(t.ctx[:k], t.ctx[k+1:]...)
				}
			case 2: // a container of its own under the origin's wildcard
				if len(t.ctx) == 1 && t.ctx[0].cnr == 0 {
					t.ctx[0].cnr = 1 + c.rng.IntN(2)
				}
			}
		}
		t.sgn, t.iat = t.iss, t.nbf
		t.subj = []int{1 + c.rng.IntN(5)}
		if c.rng.IntN(3) == 0 {
			t.subj = append(t.subj, 1+c.rng.IntN(5))
		}
		ch[i] = t
	}
	return ch
}

var tokChainDefects = []string{"sig", "sgn", "iss", "exp", "named", "life", "verb", "final", "ver", "nosubj"}

// tokChainDefect plants ONE defect at level l of a valid chain; false if the defect does not apply there.
func tokChainDefect(c *runCtx, ch tokChain, l int, kind string) bool {
	t := &ch[l]
	other := func(a int) int { return 1 + (a+c.rng.IntN(4))%5 } // an account 1..5 different from a
	switch kind {
	case "sig": // one bit of the signature flipped
		t.sig = 0
	case "sgn": // the token as sent is signed by ANOTHER account's key ("issued by the owner", signed by somebody else)
		t.sgn = other(t.iss)
	case "iss": // signed by another account as ITS token, the issuer field replaced afterwards
		t.sgn, t.mut = other(t.iss), "iss"
	case "exp": // a signed field changed after signing
		t.mut = []string{"exp", "nbf", "iat", "ctx", "subj"}[c.rng.IntN(5)]
	case "named": // the origin does not name this token's issuer
		if l+1 >= len(ch) {
			return false
		}
		ch[l+1].subj = []int{other(t.iss)}
	case "life": // lifetime wider than the origin's
		if l+1 >= len(ch) {
			return false
		}
		if c.rng.IntN(2) == 0 {
			t.exp = ch[l+1].exp + 1
		} else {
			t.nbf = ch[l+1].nbf - 1
			t.iat = t.nbf
		}
	case "verb": // a verb the origin does not have for that container
		if l+1 >= len(ch) {
			return false
		}
		k := c.rng.IntN(len(t.ctx))
		t.ctx[k].verbs = append(append([]int(nil), t.ctx[k].verbs...), 7)
	case "final": // a final token used as an origin
		if l == 0 {
			return false
		}
		t.fin = true
	case "ver":
		t.ver = 1
	case "nosubj":
		if l == 0 {
			t.subj = nil
		} else {
			return false
		}
	default:
		panic("defect kind")
	}
	return true
}

func tokChainLine(c *runCtx, ch tokChain) string {
	rv, rc := 2+c.rng.IntN(2), 1+c.rng.IntN(2)
	if c.rng.IntN(4) != 0 { // mostly a request the outermost token admits
		x := ch[0].ctx[c.rng.IntN(len(ch[0].ctx))]
		rv = x.verbs[c.rng.IntN(len(x.verbs))]
		if x.cnr != 0 {
			rc = x.cnr
		}
	}
	return fmt.Sprintf("acl v2c %s rv=%d rc=%d", ch.fields(), rv, rc)
}

// tokChainGrid: chains of EVERY depth 0..MaxDelegationDepth+1, valid and with every kind of defect at EVERY level; one short
// sequence per (depth, level) so that a failure shrinks quickly
func tokChainGrid(c *runCtx, now uint64) (seqs [][]string) {
	tm := fmt.Sprintf("acl time t=%d", now)
	for n := 0; n <= sessionv2.MaxDelegationDepth+1; n++ {
		seqs = append(seqs, []string{tm, "acl v2depth", tokChainLine(c, tokGenChain(c, n, now))})
		for l := 0; l <= n; l++ {
			ops := []string{tm}
			for _, kind := range tokChainDefects {
				ch := tokGenChain(c, n, now)
				if tokChainDefect(c, ch, l, kind) {
					ops = append(ops, tokChainLine(c, ch))
				}
			}
			seqs = append(seqs, ops)
		}
	}
	return seqs
}

func tokGen(c *runCtx, run func([]string)) {
	nseq := c.n(160, 6000)
	muts1 := []string{"exp", "nbf", "iat", "cnr", "objs", "verb", "iss"}
	muts2 := []string{"exp", "nbf", "iat", "ctx", "subj", "iss"}
	mutsB := []string{"exp", "nbf", "iat", "cnr", "tgt", "iss"}
	for _, ops := range tokChainGrid(c, uint64(1000+c.rng.IntN(50))) {
		run(ops)
	}
	for s := 0; s < nseq; s++ {
		var ops []string
		e := uint64(3 + c.rng.IntN(5))
		now := uint64(1000 + c.rng.IntN(50))
		ops = append(ops, fmt.Sprintf("acl epoch e=%d", e), fmt.Sprintf("acl time t=%d", now))
		// a small pool of tokens reused along the sequence, so that the caches are hit across epoch changes
		var pool []string
		for len(pool) < 5 {
			switch c.rng.IntN(5) {
			case 4: // a delegated V2 token: 0..MaxDelegationDepth+1 origins, half of them with one defect at a random level
				n := c.rng.IntN(sessionv2.MaxDelegationDepth + 2)
				ch := tokGenChain(c, n, now)
				if c.rng.IntN(2) == 0 {
					tokChainDefect(c, ch, c.rng.IntN(n+1), tokChainDefects[c.rng.IntN(len(tokChainDefects))])
				}
				pool = append(pool, "v2c "+ch.fields())
			case 0, 1:
				t := tokV1{iss: 1 + c.rng.IntN(3), sig: 1, mut: "none", nbf: e - uint64(c.rng.IntN(2)), iat: e - uint64(c.rng.IntN(2)), exp: e + uint64(c.rng.IntN(3)),
					cnr: 1 + c.rng.IntN(2), verb: 1 + c.rng.IntN(7)}
				t.sgn = t.iss
				if c.rng.IntN(3) == 0 {
					t.cnr = 1
				}
				for k := c.rng.IntN(3); k > 0; k-- {
					t.objs = append(t.objs, 3+c.rng.IntN(3))
				}
				switch c.rng.IntN(12) {
				case 0:
					t.sig = 0
				case 1:
					t.sgn = 1 + c.rng.IntN(3)
				case 2:
					t.mut = muts1[c.rng.IntN(len(muts1))]
				case 3:
					t.exp = e - 1
				case 4:
					t.nbf = e + 1
					t.exp = e + 2
				case 5:
					t.iat = e + 1
					t.exp = e + 2
				}
				pool = append(pool, "v1 "+t.fields())
			case 2:
				t := tokV2{iss: 1 + c.rng.IntN(3), sig: 1, mut: "none", iat: now - uint64(c.rng.IntN(2)), nbf: now - uint64(c.rng.IntN(2)), exp: now + uint64(c.rng.IntN(3)), subj: []int{2}}
				t.sgn = t.iss
				switch c.rng.IntN(4) {
				case 0:
					t.ctx = []tokCtx{{0, []int{2, 3}}}
				case 1:
					t.ctx = []tokCtx{{1, []int{1 + c.rng.IntN(3), 4 + c.rng.IntN(3)}}}
				case 2:
					t.ctx = []tokCtx{{1, []int{2}}, {2, []int{2, 3, 5}}}
				default:
					t.ctx = []tokCtx{{0, []int{3}}, {2, []int{1, 2}}}
				}
				switch c.rng.IntN(16) {
				case 0:
					t.sig = 0
				case 1:
					t.sgn = 1 + c.rng.IntN(3)
				case 2:
					t.mut = muts2[c.rng.IntN(len(muts2))]
				case 3:
					t.exp = now - 1
					t.iat, t.nbf = now-2, now-2
				case 4:
					t.nbf = now + 1
					t.exp = now + 2
				case 5:
					t.iat = now + 1
					t.exp = now + 2
				case 6:
					t.ctx = []tokCtx{{1, []int{3, 2}}} // unsorted verbs
				case 7:
					t.ctx = []tokCtx{{2, []int{2}}, {1, []int{2}}} // unsorted containers
				case 8:
					t.ver = 1
				case 9:
					t.subj = nil
				case 10:
					t.ctx = []tokCtx{{0, []int{2}}, {1, []int{2}}} // explicit context repeats the wildcard's verbs
				}
				pool = append(pool, "v2 "+t.fields())
			default:
				b := aclBearer{iss: 1 + c.rng.IntN(3), sig: 1, nbf: e - uint64(c.rng.IntN(2)), iat: e - uint64(c.rng.IntN(2)), exp: e + uint64(c.rng.IntN(3)), cnr: c.rng.IntN(3), tgt: c.rng.IntN(4)}
				b.sgn = b.iss
				mut := "none"
				switch c.rng.IntN(12) {
				case 0:
					b.sig = 0
				case 1:
					b.sgn = 1 + c.rng.IntN(3)
				case 2:
					mut = mutsB[c.rng.IntN(len(mutsB))]
				case 3:
					b.exp = e - 1
				case 4:
					b.nbf = e + 1
					b.exp = e + 2
				case 5:
					b.iss = 0
				}
				pool = append(pool, fmt.Sprintf("bearer iss=%d sgn=%d sig=%d nbf=%d iat=%d exp=%d cnr=%d tgt=%d mut=%s", b.iss, b.sgn, b.sig, b.nbf, b.iat, b.exp, b.cnr, b.tgt, mut))
			}
		}
		for i := 8 + c.rng.IntN(14); i > 0; i-- {
			switch x := c.rng.IntN(20); {
			case x == 0:
				e += uint64(c.rng.IntN(3))
				ops = append(ops, fmt.Sprintf("acl epoch e=%d", e))
			case x == 1:
				now += uint64(c.rng.IntN(3))
				ops = append(ops, fmt.Sprintf("acl time t=%d", now))
			case x == 2:
				ops = append(ops, "acl purge")
			case x == 3:
				k, pos := []string{"v1", "v2", "b"}[c.rng.IntN(3)], c.rng.IntN(4000)
				if newTokStateForGen(c).mutByte(k, pos, opLine{}) != "unchanged" {
					ops = append(ops, fmt.Sprintf("acl mutbyte k=%s pos=%d", k, pos))
				}
			default:
				p := pool[c.rng.IntN(len(pool))]
				switch {
				case strings.HasPrefix(p, "v1 "):
					if c.rng.IntN(6) == 0 {
						ops = append(ops, "acl objauth "+p[3:])
						continue
					}
					ro := 0
					if c.rng.IntN(5) != 0 {
						ro = 3 + c.rng.IntN(3)
					}
					t := tokParseV1(parseOp("acl " + p))
					rv := t.verb
					switch c.rng.IntN(4) {
					case 0:
						rv = 1 + c.rng.IntN(7)
					case 1:
						rv = []int{3, 4}[c.rng.IntN(2)]
					}
					rc := t.cnr
					if c.rng.IntN(6) == 0 {
						rc = 1 + c.rng.IntN(2)
					}
					ops = append(ops, fmt.Sprintf("acl %s rv=%d rc=%d ro=%d", p, rv, rc, ro))
				case strings.HasPrefix(p, "v2c "):
					ch := tokParseChain(parseOp("acl " + p))
					l := tokChainLine(c, ch)
					ops = append(ops, l)
				case strings.HasPrefix(p, "v2 "):
					ops = append(ops, fmt.Sprintf("acl %s rv=%d rc=%d", p, 1+c.rng.IntN(6), 1+c.rng.IntN(2)))
				default:
					ops = append(ops, "acl "+p)
				}
			}
		}
		run(ops)
	}
	// requests carrying bearer tokens through the whole decision (shared with C28)
	var ops []string
	for len(ops) < c.n(1500, 30000) {
		r := aclGenReq(c)
		if r.b != nil {
			ops = append(ops, r.line())
		}
	}
	run(ops)
}

var _ = user.ID{}

var tokGenState *tokState

func newTokStateForGen(c *runCtx) *tokState {
	if tokGenState == nil {
		tokGenState = newTokState(aclWorld())
	}
	return tokGenState
}
