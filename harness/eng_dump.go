package main

import (
	"bytes"
	"encoding/binary"
	"errors"
	"fmt"
	"io"
	"os"
	"path/filepath"
	"sort"
	"strings"

	"github.com/nspcc-dev/neofs-node/pkg/local_object_storage/shard"
	"github.com/nspcc-dev/neofs-node/pkg/local_object_storage/shard/mode"
	"github.com/nspcc-dev/neofs-sdk-go/object"
)

func init() {
	engines["dump"] = seqRunner{gen: dumpGen, exec: dumpExec}.engine()
}

// chunkReader returns short reads: the i-th Read delivers at most chunks[i] bytes (at least 1); after the
// list is exhausted reads are full.
type chunkReader struct {
	data   []byte
	chunks []int
}

func (r *chunkReader) Read(p []byte) (int, error) {
	if len(r.data) == 0 {
		return 0, io.EOF
	}
	n := len(p)
	if len(r.chunks) > 0 {
		c := r.chunks[0]
		r.chunks = r.chunks[1:]
		if c < 1 {
			c = 1
		}
		if c < n {
			n = c
		}
	}
	if n > len(r.data) {
		n = len(r.data)
	}
	copy(p, r.data[:n])
	r.data = r.data[n:]
	return n, nil
}

func dumpGen(c *runCtx, run func([]string)) {
	for i := 0; i < c.n(60, 3000); i++ {
		n := c.rng.IntN(7)
		sizes := make([]int, n)
		for j := range sizes {
			sizes[j] = []int{0, 1, 10, 100, 1000, 5000}[c.rng.IntN(6)] + c.rng.IntN(5)
		}
		var chunks []int
		switch c.rng.IntN(5) {
		case 0: // plain reader
		case 1: // one byte at a time
			for j := 0; j < 40000; j++ {
				chunks = append(chunks, 1)
			}
		case 2: // half reader
			for j := 0; j < 200; j++ {
				chunks = append(chunks, 2+c.rng.IntN(3))
			}
		default:
			for j := 0; j < 50+c.rng.IntN(300); j++ {
				chunks = append(chunks, 1+c.rng.IntN([]int{3, 40, 700, 9000}[c.rng.IntN(4)]))
			}
		}
		corrupt := -1
		if n > 0 && c.rng.IntN(3) == 0 {
			corrupt = c.rng.IntN(n)
		}
		run([]string{fmt.Sprintf("dump restore sizes=%s wc=%d chunks=%s corrupt=%d ignore=%d ck=%d", joinInts(sizes), c.rng.IntN(2),
			compressChunks(chunks), corrupt, c.rng.IntN(2), c.rng.IntN(4))})
	}
}

// compressChunks writes runs as k*v to keep op lines short.
func compressChunks(ch []int) string {
	if len(ch) == 0 {
		return "-"
	}
	var parts []string
	for i := 0; i < len(ch); {
		j := i
		for j < len(ch) && ch[j] == ch[i] {
			j++
		}
		if j-i > 1 {
			parts = append(parts, fmt.Sprintf("%dx%d", j-i, ch[i]))
		} else {
			parts = append(parts, fmt.Sprint(ch[i]))
		}
		i = j
	}
	return strings.Join(parts, ",")
}

func expandChunks(s string) []int {
	if s == "-" || s == "" {
		return nil
	}
	var out []int
	for _, p := range strings.Split(s, ",") {
		var k, v int
		if strings.Contains(p, "x") {
			fmt.Sscanf(p, "%dx%d", &k, &v)
		} else {
			k = 1
			fmt.Sscanf(p, "%d", &v)
		}
		for i := 0; i < k; i++ {
			out = append(out, v)
		}
	}
	return out
}

func dumpExec(c *runCtx, ops []string) {
	for _, line := range ops {
		o := parseOp(line)
		c.count(o.name)
		if o.name != "restore" {
			c.emit(line, "=> bad-op")
			continue
		}
		sizes := o.ints("sizes")
		wc := o.kv["wc"] == "1"
		dir := scratchDir("dump")
		src := newShard(filepath.Join(dir, "src"), shardCfg{wc: wc})
		for i, sz := range sizes {
			if err := src.Put(mkObject(1, i+1, detPayload(sz, i)), nil); err != nil {
				panic(err)
			}
		}
		if err := src.SetMode(mode.ReadOnly); err != nil {
			panic(err)
		}
		var buf bytes.Buffer
		if _, err := src.Dump(&buf, false); err != nil {
			panic(err)
		}
		src.Close()
		// record layout of the dump: ids and lengths in dump order
		raw := buf.Bytes()
		var ids, lens []int
		var offs []int
		for p := 4; p+4 <= len(raw); {
			l := int(binary.LittleEndian.Uint32(raw[p:]))
			var ob object.Object
			if err := ob.Unmarshal(raw[p+4 : p+4+l]); err != nil {
				panic(err)
			}
			ids = append(ids, oidNum(ob.GetID()))
			lens = append(lens, l)
			offs = append(offs, p+4)
			p += 4 + l
		}
		corrupt := o.int("corrupt")
		if corrupt >= 0 && corrupt < len(offs) {
			rec := raw[offs[corrupt] : offs[corrupt]+lens[corrupt]]
			if !dumpCorrupt(rec, o.int("ck")) {
				// an invalid protobuf tag at the start of the record body
				rec[0], rec[1] = 0xFF, 0xFF
			}
		}
		full := fmt.Sprintf("%s ids=%s lens=%s", line, joinInts(ids), joinInts(lens))
		dst := newShard(filepath.Join(dir, "dst"), shardCfg{})
		cnt, fail, err := dst.Restore(&chunkReader{data: append([]byte(nil), raw...), chunks: expandChunks(o.kv["chunks"])}, o.kv["ignore"] == "1")
		var restored []int
		good := true
		for i, sz := range sizes {
			got, gerr := dst.Get(numAddr(1, i+1), false)
			if gerr == nil {
				restored = append(restored, i+1)
				good = good && bytes.Equal(got.Payload(), detPayload(sz, i))
			}
		}
		dst.Close()
		os.RemoveAll(dir)
		sort.Ints(restored)
		res := "ok"
		if err != nil {
			res = "err"
			if errors.Is(err, shard.ErrInvalidMagic) {
				res = "badmagic"
			}
		}
		c.emit(full, fmt.Sprintf("=> %s count=%d fail=%d restored=%s", res, cnt, fail, joinInts(restored)))
		// property oracle
		desc := fmt.Sprintf("%d objects, corrupt=%d ignore=%s chunks=%.40s", len(sizes), corrupt, o.kv["ignore"], o.kv["chunks"])
		c.oracle("restored-bytes-identical", good, desc)
		if corrupt < 0 {
			c.oracle("restore-stores-exactly-the-dumped-objects", err == nil && cnt == len(sizes) && fail == 0 && len(restored) == len(sizes),
				fmt.Sprintf("%s: err=%v count=%d fail=%d restored=%v", desc, err, cnt, fail, restored))
		} else if o.kv["ignore"] == "1" {
			c.oracle("corrupted-record-skipped-others-restored", err == nil && cnt == len(sizes)-1 && fail == 1 && len(restored) == len(sizes)-1,
				fmt.Sprintf("%s: err=%v count=%d fail=%d restored=%v", desc, err, cnt, fail, restored))
		} else {
			c.oracle("corrupted-record-reported", err != nil, desc)
		}
		if len(sizes) > 1 && o.kv["chunks"] != "-" {
			c.nontrivial(line)
		}
	}
}

// dumpCorrupt damages one record of a dump in place, keeping its length: kind 1 declares one payload byte more than
// the record holds (length prefix of the payload field, the last field), kind 2 does the same to the header field
// (which then swallows the payload's tag and ends inside a field). Both make a full decode of the record fail for
// certain while ID, signature and header bytes stay in place. Returns false when the record has no such field
// (the caller falls back to an invalid tag at the start).
func dumpCorrupt(rec []byte, kind int) bool {
	field := map[int]int{1: 4, 2: 3}[kind]
	if field == 0 {
		return false
	}
	for p := 0; p < len(rec); {
		tag, n := binary.Uvarint(rec[p:])
		if n <= 0 || tag&7 != 2 {
			return false
		}
		l, m := binary.Uvarint(rec[p+n:])
		if m <= 0 {
			return false
		}
		if int(tag>>3) == field {
			if rec[p+n]&0x7F == 0x7F { // +1 would carry into the next varint byte
				return false
			}
			rec[p+n]++
			return true
		}
		p += n + m + int(l)
	}
	return false
}
