package main

import (
	"errors"
	"fmt"
	"os"
	"path/filepath"
	"sort"
	"strconv"
	"strings"
	"time"

	"github.com/nspcc-dev/bbolt"
	"github.com/nspcc-dev/neofs-node/pkg/local_object_storage/blobstor/common"
	meta "github.com/nspcc-dev/neofs-node/pkg/local_object_storage/metabase"
	"github.com/nspcc-dev/neofs-sdk-go/object"
	oid "github.com/nspcc-dev/neofs-sdk-go/object/id"
	"go.uber.org/zap"
	"go.uber.org/zap/zapcore"
)

// Engine "resync" (C18): the real meta.DB.ResyncFromBlobstor over a blob storage that hands the stored objects
// over in a CHOSEN order, and the real meta.DB.PutBatch on states built incrementally, against
// Model/Resync.lean. A sequence defines its world first (`def`: the one header chain an address denotes).
//
//	resync def c=1 o=4 typ=REG size=10 p.id=9 …   define the object of address 1/4 (fields of a meta put line)
//	resync run e=5 order=1/4,1/7[ rep=K][ tail=…] rebuild at epoch e: blobs = (order × K) ++ tail, in that order
//	resync putw c=1 o=4                            DB.Put of the world object (incremental construction)
//	resync rebuild                                 rebuild from the objects accepted by putw, in history order
//	resync batch objs=1/4,1/7                      DB.PutBatch of world objects on the current state
//	resync epoch e=5 | mark … | delete …           as in engine meta
//	resync batchsize                               the constant resyncBatchSize
func init() {
	engines["resync"] = seqRunner{gen: resyncGen, exec: resyncExec}.engine()
}

// orderedStorage is a blob storage that only knows how to enumerate: the stored objects, marshalled, in the
// order given. The rebuild uses nothing else of the interface (the embedded nil interface panics otherwise).
type orderedStorage struct {
	common.Storage
	objs []*object.Object
}

func (s *orderedStorage) ShardID() common.ID { return common.ID{} }

func (s *orderedStorage) Iterate(h func(oid.Address, []byte) error, _ func(oid.Address, error) error) error {
	for _, o := range s.objs {
		if err := h(o.Address(), o.Marshal()); err != nil {
			return err
		}
	}
	return nil
}

// skipLog collects what PutBatch reports as skipped (a warning that carries an address and an error).
type skipLog struct {
	zapcore.LevelEnabler
	skips *[]string
	with  []zapcore.Field
}

func (l skipLog) With(f []zapcore.Field) zapcore.Core {
	return skipLog{LevelEnabler: l.LevelEnabler, skips: l.skips, with: append(append([]zapcore.Field(nil), l.with...), f...)}
}
func (l skipLog) Check(e zapcore.Entry, ce *zapcore.CheckedEntry) *zapcore.CheckedEntry {
	if l.Enabled(e.Level) {
		return ce.AddCore(e, l)
	}
	return ce
}
func (l skipLog) Sync() error { return nil }
func (l skipLog) Write(e zapcore.Entry, fields []zapcore.Field) error {
	if e.Level != zapcore.WarnLevel {
		return nil
	}
	var addr *oid.Address
	var err error
	for _, f := range fields {
		switch v := f.Interface.(type) {
		case oid.Address:
			a := v
			addr = &a
		case error:
			if f.Type == zapcore.ErrorType {
				err = v
			}
		}
	}
	if addr != nil && err != nil {
		*l.skips = append(*l.skips, fmt.Sprintf("%d/%d:%s", cidNum(addr.Container()), oidNum(addr.Object()), metaErrClass(err)))
	}
	return nil
}

type rsWorld struct {
	m     *metaDB
	skips []string
	defs  map[[2]int]opLine
	// puts accepted by putw since the start of the sequence, in history order; pure = nothing but putw changed
	// the state and the epoch did not move after the first putw
	accepted []string
	pure     bool
	runs     map[string]*rsRun // first run of every (epoch, object multiset)
}

type rsRun struct {
	order, e, l, err string
	abort            string // err, with the "other" class refined for the oracle's diagnosis
	skips            []string
}

func newRSWorld() *rsWorld {
	w := &rsWorld{defs: map[[2]int]opLine{}, pure: true, runs: map[string]*rsRun{}}
	dir := scratchDir("resync")
	ep := &epochSrc{}
	log := zap.New(skipLog{LevelEnabler: zapcore.WarnLevel, skips: &w.skips})
	db := meta.New(meta.WithPath(filepath.Join(dir, "meta")), meta.WithPermissions(0o700), meta.WithEpochState(ep), meta.WithLogger(log),
		meta.WithMaxBatchDelay(time.Microsecond), meta.WithBoltDBOptions(&bbolt.Options{NoSync: true, NoGrowSync: true, NoFreelistSync: true, Timeout: time.Second}))
	if err := db.Open(false); err != nil {
		panic(err)
	}
	if err := db.Init(numShardID()); err != nil {
		panic(err)
	}
	w.m = &metaDB{db: db, epoch: ep, dir: dir}
	return w
}

func parseAddrList(s string) [][2]int {
	if s == "" || s == "-" {
		return nil
	}
	var out [][2]int
	for _, t := range strings.Split(s, ",") {
		p := strings.Split(t, "/")
		if len(p) != 2 {
			panic("bad address list " + s)
		}
		a, err1 := strconv.Atoi(p[0])
		b, err2 := strconv.Atoi(p[1])
		if err1 != nil || err2 != nil {
			panic("bad address list " + s)
		}
		out = append(out, [2]int{a, b})
	}
	return out
}

func addrStr(a [2]int) string { return fmt.Sprintf("%d/%d", a[0], a[1]) }

func joinAddrs(as [][2]int) string {
	if len(as) == 0 {
		return "-"
	}
	s := make([]string, len(as))
	for i, a := range as {
		s[i] = addrStr(a)
	}
	return strings.Join(s, ",")
}

// lookup builds the defined objects among the addresses, in order (undefined addresses are dropped).
func (w *rsWorld) lookup(as [][2]int) ([]*object.Object, [][2]int) {
	var objs []*object.Object
	var kept [][2]int
	for _, a := range as {
		if d, ok := w.defs[a]; ok {
			objs = append(objs, rsValidSplitID(buildChainObj(a[0], d)))
			kept = append(kept, a)
		}
	}
	return objs, kept
}

// rsValidSplitID turns the numbered split ids of the shared object builder into version-4 UUIDs (the rebuild
// decodes every blob, and decoding rejects other versions); equal numbers stay equal ids.
func rsValidSplitID(o *object.Object) *object.Object {
	for h := o; h != nil; h = h.Parent() {
		if sid := h.SplitID(); sid != nil {
			b := sid.ToV2()
			if len(b) == 16 {
				b[6] = b[6]&0x0f | 0x40
				b[8] = b[8]&0x3f | 0x80
				h.SetSplitID(object.NewSplitIDFromV2(b))
			}
		}
	}
	return o
}

type rsIndex struct {
	text    string
	indexed map[string]bool
	garbage map[string]bool
}

func (w *rsWorld) index() rsIndex {
	ix := rsIndex{indexed: map[string]bool{}, garbage: map[string]bool{}}
	bs, err := w.m.db.VerifDump()
	if err != nil {
		ix.text = "idx=ERR garb=ERR cnrs=ERR"
		return ix
	}
	sort.Slice(bs, func(i, j int) bool { return cidNum(bs[i].Container) < cidNum(bs[j].Container) })
	var idx, garb, cnrs []string
	for _, b := range bs {
		cn := cidNum(b.Container)
		cnrs = append(cnrs, strconv.Itoa(cn))
		for i, id := range b.IDs {
			a := fmt.Sprintf("%d/%d", cn, oidNum(id))
			ix.indexed[a] = true
			if !b.Phy[i] {
				a += "v"
			}
			idx = append(idx, a)
		}
		for _, id := range b.Garbage {
			a := fmt.Sprintf("%d/%d", cn, oidNum(id))
			ix.garbage[a] = true
			garb = append(garb, a)
		}
	}
	j := func(xs []string) string {
		if len(xs) == 0 {
			return "-"
		}
		return strings.Join(xs, ",")
	}
	ix.text = fmt.Sprintf("idx=%s garb=%s cnrs=%s", j(idx), j(garb), j(cnrs))
	return ix
}

// ancestors of a defined object: the parent ids its own chain declares and the ones a member of the same split
// chain (same first id / split id) declares, one level further up likewise.
func (w *rsWorld) ancestors(a [2]int) map[int]bool {
	out := map[int]bool{}
	declared := func(o opLine) []int {
		var r []int
		for _, k := range []string{"p.id", "g.id", "par"} {
			if v, ok := o.kv[k]; ok {
				if n, err := strconv.Atoi(v); err == nil && n != 0 {
					r = append(r, n)
				}
			}
		}
		return r
	}
	d, ok := w.defs[a]
	if !ok {
		return out
	}
	for _, p := range declared(d) {
		out[p] = true
	}
	for b, e := range w.defs {
		if b[0] != a[0] || b == a {
			continue
		}
		sameFirst := d.kv["first"] != "" && d.kv["first"] != "0" && e.kv["first"] == d.kv["first"]
		sameSplit := d.kv["split"] != "" && d.kv["split"] != "0" && e.kv["split"] == d.kv["split"]
		if sameFirst || sameSplit {
			for _, p := range declared(e) {
				out[p] = true
			}
		}
	}
	// an EC part (or child) whose EMBEDDED parent header names this chain's first part makes that parent a virtual
	// member of the chain: what it declares above itself is above the chain too
	chainFirst := d.kv["first"]
	if chainFirst == "" || chainFirst == "0" {
		chainFirst = strconv.Itoa(a[1])
	}
	for b, e := range w.defs {
		if b[0] != a[0] || e.kv["p.first"] != chainFirst {
			continue
		}
		if g, err := strconv.Atoi(e.kv["g.id"]); err == nil && g != 0 {
			out[g] = true
		}
	}
	// grandparents declared by any chain that embeds one of the parents
	for _, e := range w.defs {
		if p, err := strconv.Atoi(e.kv["p.id"]); err == nil && out[p] {
			if g, err := strconv.Atoi(e.kv["g.id"]); err == nil && g != 0 {
				out[g] = true
			}
		}
	}
	return out
}

// chainUnderTombstone: the address is a member of a split chain (or the first part other members name) and a
// tombstone of the set targets an ancestor of that chain.
func (w *rsWorld) chainUnderTombstone(a [2]int, order [][2]int) bool {
	anc := w.ancestors(a)
	for b, d := range w.defs {
		if b[0] == a[0] && d.kv["first"] == strconv.Itoa(a[1]) {
			for p := range w.ancestors(b) {
				anc[p] = true
			}
		}
	}
	for _, b := range order {
		if d, ok := w.defs[b]; ok && b[0] == a[0] && d.kv["typ"] == "TS" {
			if t, err := strconv.Atoi(d.kv["assoc"]); err == nil && anc[t] {
				return true
			}
		}
	}
	return false
}

// chainMembers: the address itself and the defined objects of its split chain (same first id / split id, the
// first part the others name).
func (w *rsWorld) chainMembers(a [2]int) map[[2]int]bool {
	out := map[[2]int]bool{a: true}
	d, ok := w.defs[a]
	for b, e := range w.defs {
		if b[0] != a[0] {
			continue
		}
		if e.kv["first"] == strconv.Itoa(a[1]) {
			out[b] = true
		}
		if !ok {
			continue
		}
		if d.kv["first"] == strconv.Itoa(b[1]) {
			out[b] = true
		}
		if f := d.kv["first"]; f != "" && f != "0" && e.kv["first"] == f {
			out[b] = true
		}
		if f := d.kv["split"]; f != "" && f != "0" && e.kv["split"] == f {
			out[b] = true
		}
		// the object whose embedded parent header links the chain (by its first id) to what is above it
		cf := d.kv["first"]
		if cf == "" || cf == "0" {
			cf = strconv.Itoa(a[1])
		}
		if e.kv["p.first"] == cf {
			out[b] = true
		}
	}
	return out
}

// metAfterTombstoneOfParent: a tombstone of an ancestor of the object's split chain comes in the order before
// some member of that chain (the object itself or the sibling that links the chain to the parent).
func (w *rsWorld) metAfterTombstoneOfParent(a [2]int, order [][2]int) bool {
	mem := w.chainMembers(a)
	anc := map[int]bool{}
	for b := range mem {
		for p := range w.ancestors(b) {
			anc[p] = true
		}
	}
	seenTS := false
	for _, b := range order {
		if seenTS && mem[b] {
			return true
		}
		if d, ok := w.defs[b]; ok && b[0] == a[0] && d.kv["typ"] == "TS" {
			if t, err := strconv.Atoi(d.kv["assoc"]); err == nil && anc[t] {
				seenTS = true
			}
		}
	}
	return false
}

func dumpField(d, k string) string {
	for _, t := range strings.Fields(d) {
		if strings.HasPrefix(t, k+"=") {
			return t[len(k)+1:]
		}
	}
	return ""
}

// skipCause names what the two skip lists do not share: the error classes of the objects PutBatch skipped in
// one order only.
func skipCause(a, b []string) string {
	in := func(xs []string, x string) bool {
		for _, y := range xs {
			if y == x {
				return true
			}
		}
		return false
	}
	codes := map[string]bool{}
	for _, x := range a {
		if !in(b, x) {
			codes[x[strings.IndexByte(x, ':')+1:]] = true
		}
	}
	for _, x := range b {
		if !in(a, x) {
			codes[x[strings.IndexByte(x, ':')+1:]] = true
		}
	}
	if len(codes) == 0 {
		return "unknown"
	}
	var cs []string
	for k := range codes {
		cs = append(cs, k)
	}
	sort.Strings(cs)
	return "skipped-in-one-order-only:" + strings.Join(cs, ",")
}

// rsShort keeps oracle details readable for rebuilds from more than a thousand blobs.
func rsShort(s string) string {
	if len(s) > 100 {
		return s[:45] + "…" + s[len(s)-45:]
	}
	return s
}

func listOr(xs []string) string {
	if len(xs) == 0 {
		return "-"
	}
	return strings.Join(xs, ",")
}

// rebuild runs the real ResyncFromBlobstor over the objects in the given order and evaluates the property.
func (w *rsWorld) rebuild(c *runCtx, e uint64, order [][2]int, objs []*object.Object, incremental bool) string {
	// inside the fragment of the partial theorem every assertion must hold: no failure there is a known finding
	frag := w.inFragment(order)
	inFrag := func(cause string) string {
		if frag {
			return "inside-proved-fragment(" + cause + ")"
		}
		return cause
	}
	if frag {
		c.count("run:in-fragment")
	}
	var before string
	if incremental {
		before = w.m.dump()
	}
	w.m.epoch.e.Store(e)
	w.skips = w.skips[:0]
	var undecodable []string
	err := w.m.db.ResyncFromBlobstor(&orderedStorage{objs: objs}, func(a oid.Address, e error) error {
		// what the rebuild does with onIterationError == nil: the blob is ignored
		undecodable = append(undecodable, fmt.Sprintf("%d/%d", cidNum(a.Container()), oidNum(a.Object())))
		if traceOps {
			fmt.Fprintln(os.Stderr, "TRACE undecodable", a, e)
		}
		return nil
	})
	c.oracle("harness-objects-decodable", len(undecodable) == 0, "the rebuild could not decode generated objects: "+strings.Join(undecodable, ","))
	code := metaErrClass(err)
	c.count("run:" + code)
	d := w.m.dump()
	ix := w.index()
	// the property's status classes: available (T; S/E for a split or EC parent), removed (R), expired (X), absent
	// (Exists answers false: F, or "not found" N for an id that carries a garbage mark)
	run := &rsRun{order: rsShort(joinAddrs(order)), e: strings.ReplaceAll(dumpField(d, "E"), "N", "F"), l: dumpField(d, "L"), err: code, abort: code, skips: append([]string(nil), w.skips...)}
	if code == "O" && strings.Contains(err.Error(), "TS's target is another TS") {
		run.abort = "T"
	}
	for _, s := range run.skips {
		c.count("skip:" + s[strings.IndexByte(s, ':')+1:])
	}

	// --- order independence: same multiset of blobs, same epoch => same views
	sorted := make([]string, len(order))
	for i, a := range order {
		sorted[i] = fmt.Sprintf("%02d/%02d", a[0], a[1])
	}
	sort.Strings(sorted)
	key := fmt.Sprintf("%d|%s", e, strings.Join(sorted, ","))
	if first, ok := w.runs[key]; !ok {
		w.runs[key] = run
	} else {
		// a rebuild that reports failure leaves a partial metabase (the batches flushed before the failing one):
		// then only the failure itself is compared
		same := first.err == run.err && (run.err != "K" || (first.e == run.e && first.l == run.l))
		detail := ""
		sig := ""
		if !same {
			cause := skipCause(first.skips, run.skips)
			if first.err != run.err {
				cause = "aborted-in-one-order-only:" + strings.ReplaceAll(first.abort+run.abort, "K", "")
			}
			where := "result"
			var diffs [][2]int
			for i := 0; i < len(first.e) && i < len(run.e); i++ {
				if first.e[i] != run.e[i] || first.l[i] != run.l[i] {
					if where == "result" {
						where = fmt.Sprintf("%d/%d", i/metaNO+1, i%metaNO+1)
					}
					diffs = append(diffs, [2]int{i/metaNO + 1, i%metaNO + 1})
				}
			}
			if cause == "unknown" && len(diffs) > 0 {
				// nothing was skipped differently: is every differing address a member (or the first part) of a
				// split chain one of whose ancestors is tombstoned in this set? A tombstone marks the chain
				// members indexed when it is met, the ones met later are indexed without a mark.
				all := true
				for _, a := range diffs {
					all = all && w.chainUnderTombstone(a, order)
				}
				if all {
					cause = "tombstone-marks-only-chain-members-met-before-it"
				}
			}
			detail = fmt.Sprintf("statuses differ at %s: order %s gives %s E=%s L=%s skipped=%s; order %s gives %s E=%s L=%s skipped=%s; cause=%s",
				where, first.order, first.err, first.e, first.l, rsShort(listOr(first.skips)), run.order, run.err, run.e, run.l, rsShort(listOr(run.skips)), cause)
			cause = inFrag(cause)
			detail = detail[:strings.LastIndex(detail, "cause=")] + "cause=" + cause
			sig = cause
		}
		c.oracleSig("statuses-independent-of-blob-order", sig, same, detail)
	}

	// --- reclaim: every stored object is known to the metabase (indexed, or listed as garbage); every object
	// reported as removed that is indexed is listed by GetGarbage
	if err == nil {
		var orphans []string
		seen := map[string]bool{}
		for _, a := range order {
			s := addrStr(a)
			if seen[s] {
				continue
			}
			seen[s] = true
			if !ix.indexed[s] && !ix.garbage[s] {
				code := "?"
				for _, sk := range run.skips {
					if strings.HasPrefix(sk, s+":") {
						code = sk[len(s)+1:]
					}
				}
				orphans = append(orphans, s+":"+code)
			}
		}
		cause := "unknown"
		if len(orphans) > 0 {
			codes := map[string]bool{}
			for _, o := range orphans {
				codes[o[strings.IndexByte(o, ':')+1:]] = true
			}
			var cs []string
			for k := range codes {
				cs = append(cs, k)
			}
			sort.Strings(cs)
			cause = inFrag("skipped-and-never-indexed:" + strings.Join(cs, ","))
		}
		c.oracleSig("every-stored-object-known-to-metabase-after-rebuild", cause, len(orphans) == 0,
			fmt.Sprintf("blobs the rebuilt metabase neither indexes nor lists as garbage (GC can never reclaim them): %s; order %s; cause=%s",
				rsShort(strings.Join(orphans, ",")), run.order, cause))

		listed := map[string]bool{}
		bins, _ := w.m.db.GetGarbage(100000)
		for _, b := range bins {
			for _, id := range b.Objects {
				listed[fmt.Sprintf("%d/%d", cidNum(b.Container), oidNum(id))] = true
			}
		}
		var missing []string
		gcause := "unknown"
		for i := 0; i < len(run.e); i++ {
			a := fmt.Sprintf("%d/%d", i/metaNO+1, i%metaNO+1)
			if run.e[i] == 'R' && ix.indexed[a] && !listed[a] {
				missing = append(missing, a)
				if w.metAfterTombstoneOfParent([2]int{i/metaNO + 1, i%metaNO + 1}, order) {
					if gcause == "unknown" {
						gcause = "met-after-tombstone-of-parent"
					}
				} else {
					gcause = "other"
				}
			}
		}
		gcause = inFrag(gcause)
		c.oracleSig("removed-indexed-object-listed-by-getgarbage", gcause, len(missing) == 0,
			"reported removed, indexed, but not listed by GetGarbage: "+strings.Join(missing, ",")+"; order "+run.order+"; cause="+gcause)
	}

	if incremental {
		same := strings.ReplaceAll(dumpField(before, "E"), "N", "F") == run.e && dumpField(before, "L") == run.l && err == nil
		c.oracle("rebuild-equals-incremental-construction", same,
			fmt.Sprintf("incremental E=%s L=%s; rebuilt (%s) E=%s L=%s; order %s", dumpField(before, "E"), dumpField(before, "L"), code, run.e, run.l, run.order))
	}
	out := "=> " + code + " " + d + " " + ix.text
	return out + " frag=" + map[bool]string{true: "1", false: "0"}[frag]
}

// inFragment is the hypothesis of the partial theorem (Model/Resync.lean plainObjs over unsplit objects),
// computed from the definitions of the blobs: per container distinct non-zero ids, no split fields, types
// REG / TS / LOCK (the latter two with a target), no tombstone or lock aimed at a tombstone or lock, no id aimed
// at by both a tombstone and a lock, no expiration on a tombstone's target.
func (w *rsWorld) inFragment(order [][2]int) bool {
	type hd struct {
		cn, id, assoc int
		typ           string
		exp           bool
	}
	var hs []hd
	num := func(o opLine, k string) int {
		n, _ := strconv.Atoi(o.kv[k])
		return n
	}
	for _, a := range order {
		d := w.defs[a]
		if _, ok := d.kv["p.id"]; ok {
			return false
		}
		typ := d.kv["typ"]
		if typ == "" {
			typ = "REG"
		}
		h := hd{cn: a[0], id: a[1], assoc: num(d, "assoc"), typ: typ}
		_, h.exp = d.kv["exp"]
		if h.id == 0 || num(d, "par") != 0 || num(d, "first") != 0 || num(d, "split") != 0 {
			return false
		}
		if !(typ == "REG" || ((typ == "TS" || typ == "LOCK") && h.assoc != 0)) {
			return false
		}
		hs = append(hs, h)
	}
	for i, a := range hs {
		for j, x := range hs {
			if x.cn != a.cn {
				continue
			}
			if i != j && x.id == a.id {
				return false
			}
			if a.typ != "TS" && a.typ != "LOCK" {
				continue
			}
			if x.id == a.assoc && !(x.typ == "REG" && (a.typ != "TS" || !x.exp)) {
				return false
			}
			if (x.typ == "TS" || x.typ == "LOCK") && x.assoc == a.assoc && x.typ != a.typ {
				return false
			}
		}
	}
	return true
}

func resyncExec(c *runCtx, ops []string) {
	w := newRSWorld()
	defer w.m.close()
	epochMoved := false
	for _, line := range ops {
		o := parseOp(line)
		c.count(o.name)
		if traceOps {
			fmt.Fprintln(os.Stderr, "TRACE", line)
		}
		switch o.name {
		case "def":
			if _, ok := o.kv["c"]; !ok {
				c.emit(line, "=> bad-op")
				continue
			}
			w.defs[[2]int{o.int("c"), o.int("o")}] = o
			c.emit(line, "=> ok")
		case "batchsize":
			c.emit(line, fmt.Sprintf("=> %d", meta.VerifResyncBatchSize))
		case "run":
			order := parseAddrList(o.kv["order"])
			rep := 1
			if _, ok := o.kv["rep"]; ok {
				rep = o.int("rep")
			}
			objs1, kept := w.lookup(order)
			var objs []*object.Object
			var all [][2]int
			for i := 0; i < rep; i++ {
				objs = append(objs, objs1...)
				all = append(all, kept...)
			}
			tobjs, tkept := w.lookup(parseAddrList(o.kv["tail"]))
			objs = append(objs, tobjs...)
			all = append(all, tkept...)
			w.pure = false
			c.emit(line, w.rebuild(c, o.u64("e"), all, objs, false))
			if len(all) > 1 {
				c.nontrivial(fmt.Sprint(w.defs) + line)
			}
		case "rebuild":
			order := parseAddrList(strings.Join(w.accepted, ","))
			objs, kept := w.lookup(order)
			c.emit(line, w.rebuild(c, w.m.epoch.CurrentEpoch(), kept, objs, w.pure))
		case "putw":
			a := [2]int{o.int("c"), o.int("o")}
			objs, _ := w.lookup([][2]int{a})
			if len(objs) != 1 {
				c.emit(line, "=> undefined")
				continue
			}
			err := w.m.db.Put(objs[0])
			c.count("putw:" + metaErrClass(err))
			if err == nil {
				// an object stored twice is one blob
				dup := false
				for _, x := range w.accepted {
					dup = dup || x == addrStr(a)
				}
				if !dup {
					w.accepted = append(w.accepted, addrStr(a))
				}
			}
			epochMoved = true
			c.emit(line, "=> "+metaErrClass(err)+" "+w.m.dump()+" "+w.index().text)
		case "batch":
			objs, kept := w.lookup(parseAddrList(o.kv["objs"]))
			w.pure = false
			w.skips = w.skips[:0]
			err := w.m.db.PutBatch(objs)
			c.count("batch:" + metaErrClass(err))
			for _, s := range w.skips {
				c.count("batchskip:" + s[strings.IndexByte(s, ':')+1:])
			}
			if len(kept) > 1 {
				c.nontrivial(fmt.Sprint(w.defs) + strings.Join(c.curSeq, ";") + line)
			}
			c.emit(line, "=> "+metaErrClass(err)+" "+w.m.dump()+" "+w.index().text)
		case "epoch":
			if epochMoved {
				w.pure = false
			}
			w.m.epoch.e.Store(o.u64("e"))
			c.emit(line, "=> ok "+w.m.dump()+" "+w.index().text)
		case "put":
			w.pure = false
			err := w.m.db.Put(buildChainObj(o.int("c"), o))
			c.emit(line, "=> "+metaErrClass(err)+" "+w.m.dump()+" "+w.index().text)
		case "mark":
			w.pure = false
			_, err := w.m.db.MarkGarbage(numCID(o.int("c")), idList(o.ints("ids")), meta.GarbageMark(o.int("red")))
			c.emit(line, "=> "+metaErrClass(err)+" "+w.m.dump()+" "+w.index().text)
		case "delete":
			w.pure = false
			_, _, err := w.m.db.Delete(numCID(o.int("c")), idList(o.ints("ids")))
			c.emit(line, "=> "+metaErrClass(err)+" "+w.m.dump()+" "+w.index().text)
		default:
			c.emit(line, "=> bad-op")
		}
	}
}

var _ = errors.Is

// ---------------------------------------------------------------------------- generator

// permutations of 0..n-1 (n ≤ 5: all; otherwise `limit` seeded ones, the identity first)
func rsPerms(c *runCtx, n, limit int) [][]int {
	id := make([]int, n)
	for i := range id {
		id[i] = i
	}
	if n <= 5 {
		var out [][]int
		var rec func(k int)
		p := append([]int(nil), id...)
		rec = func(k int) {
			if k == n {
				out = append(out, append([]int(nil), p...))
				return
			}
			for i := k; i < n; i++ {
				p[k], p[i] = p[i], p[k]
				rec(k + 1)
				p[k], p[i] = p[i], p[k]
			}
		}
		rec(0)
		if len(out) > limit {
			c.rng.Shuffle(len(out)-1, func(i, j int) { out[i+1], out[j+1] = out[j+1], out[i+1] })
			out = out[:limit]
		}
		return out
	}
	out := [][]int{id}
	for len(out) < limit {
		p := append([]int(nil), id...)
		c.rng.Shuffle(n, func(i, j int) { p[i], p[j] = p[j], p[i] })
		out = append(out, p)
	}
	return out
}

func rsDefLine(cn, o int, fields string) string {
	return fmt.Sprintf("resync def c=%d o=%d %s", cn, o, fields)
}

// rsRetarget points tombstones and locks of the chosen set at members of the set or at their parents, so
// that the interesting relations (tombstone/lock vs target, vs children of a target) are dense.
func rsRetarget(c *runCtx, fields string, self int, members []int, parents []int) string {
	if !strings.Contains(fields, "assoc=") || strings.Contains(fields, "assoc=0") {
		return fields
	}
	r := c.rng
	var cand []int
	for _, m := range members {
		if m != self {
			cand = append(cand, m)
		}
	}
	cand = append(cand, parents...)
	if len(cand) == 0 || r.IntN(10) < 2 {
		return fields
	}
	t := cand[r.IntN(len(cand))]
	f := strings.Fields(fields)
	for i, x := range f {
		if strings.HasPrefix(x, "assoc=") {
			f[i] = "assoc=" + strconv.Itoa(t)
		}
	}
	return strings.Join(f, " ")
}

// rsFirstParts: the id a split chain names as its first part denotes a regular object (the first part), never a
// tombstone, lock or link - in the small universe of the shared generator the numbers can collide.
func rsFirstParts(g *metaGenState, cn int) {
	for o := 1; o <= 8; o++ {
		for _, x := range strings.Fields(g.self[cn][o]) {
			if strings.HasPrefix(x, "first=") {
				if f, err := strconv.Atoi(x[6:]); err == nil && f >= 1 && f <= 8 && !strings.HasPrefix(g.self[cn][f], "typ=REG") {
					g.self[cn][f] = "typ=REG size=9 p.id=0 p.size=50"
				}
			}
		}
	}
}

func rsParentsOf(fields string) []int {
	var out []int
	for _, x := range strings.Fields(fields) {
		for _, k := range []string{"p.id=", "g.id=", "par="} {
			if strings.HasPrefix(x, k) {
				if n, err := strconv.Atoi(x[len(k):]); err == nil && n != 0 {
					out = append(out, n)
				}
			}
		}
	}
	return out
}

// rsPlainWorld draws a set of the fragment the partial theorem covers: unsplit regular objects (some with an
// expiration), tombstones and locks whose targets are regular objects or absent ids; no id is the target of both a
// tombstone and a lock, a tombstone's target has no expiration, no tombstone or lock is a target.
func rsPlainWorld(c *runCtx, cn, k int) map[int]string {
	r := c.rng
	out := map[int]string{}
	ids := r.Perm(8)[:k]
	var regs, plainRegs []int
	nreg := 1 + r.IntN(k)
	for i, id := range ids {
		o := id + 1
		if i < nreg {
			f := fmt.Sprintf("typ=REG size=%d", r.IntN(40))
			if r.IntN(3) == 0 {
				f += " exp=" + hx(strconv.Itoa(r.IntN(10))) + "_"
			} else {
				plainRegs = append(plainRegs, o)
			}
			regs = append(regs, o)
			out[o] = f
		}
	}
	kind := map[int]string{} // target -> TS | LOCK
	for _, id := range ids[nreg:] {
		o := id + 1
		typ := []string{"TS", "LOCK"}[r.IntN(2)]
		var cand []int
		if typ == "TS" {
			cand = append(cand, plainRegs...)
		} else {
			cand = append(cand, regs...)
		}
		cand = append(cand, 9+r.IntN(4)) // an id nothing is stored under
		var t int
		for try := 0; ; try++ {
			t = cand[r.IntN(len(cand))]
			if kind[t] == "" || kind[t] == typ {
				break
			}
			if try > 20 {
				t = 0
				break
			}
		}
		if t == 0 {
			out[o] = fmt.Sprintf("typ=REG size=%d", r.IntN(40))
			continue
		}
		kind[t] = typ
		f := fmt.Sprintf("typ=%s assoc=%d", typ, t)
		if r.IntN(3) == 0 {
			f += " exp=" + hx(strconv.Itoa(r.IntN(10))) + "_"
		}
		out[o] = f
	}
	_ = cn
	return out
}

func resyncGen(c *runCtx, run func([]string)) {
	r := c.rng
	run([]string{"resync batchsize"})

	// (1) object sets of the generated worlds, every permutation of small sets
	nsets := c.n(70, 2500)
	for s := 0; s < nsets; s++ {
		g := newMetaGenState(c)
		cn := 1 + r.IntN(2)
		k := 2 + r.IntN(4) // 2..5
		if r.IntN(8) == 0 {
			k = 6 + r.IntN(3)
		}
		members := make([]int, 0, k)
		for _, i := range r.Perm(8)[:k] {
			members = append(members, i+1)
		}
		sort.Ints(members)
		var parents []int
		for _, o := range members {
			parents = append(parents, rsParentsOf(g.self[cn][o])...)
		}
		var ops []string
		var addrs [][2]int
		rsFirstParts(g, cn)
		rsFirstParts(g, 3-cn)
		for _, o := range members {
			if strings.Contains(g.self[cn][o], "assoc=0") {
				// a tombstone / lock without a target never passes the format checks: not a stored object
				g.self[cn][o] = "typ=REG size=3"
			}
			ops = append(ops, rsDefLine(cn, o, rsRetarget(c, g.self[cn][o], o, members, parents)))
			addrs = append(addrs, [2]int{cn, o})
		}
		// sometimes a second container takes part (puts on different buckets do not interact)
		if r.IntN(4) == 0 {
			cn2 := 3 - cn
			for _, i := range r.Perm(8)[:1+r.IntN(2)] {
				if strings.Contains(g.self[cn2][i+1], "assoc=0") {
					g.self[cn2][i+1] = "typ=REG size=3"
				}
				ops = append(ops, rsDefLine(cn2, i+1, g.self[cn2][i+1]))
				addrs = append(addrs, [2]int{cn2, i + 1})
			}
		}
		e := r.IntN(11)
		limit := 120 // every permutation of up to 5 blobs
		if len(addrs) > 5 {
			limit = 24
			if c.thorough() {
				limit = 120
			}
		}
		for _, p := range rsPerms(c, len(addrs), limit) {
			ord := make([][2]int, len(p))
			for i, j := range p {
				ord[i] = addrs[j]
			}
			ops = append(ops, fmt.Sprintf("resync run e=%d order=%s", e, joinAddrs(ord)))
		}
		run(ops)
	}

	// (2) the fragment of the partial theorem: every assertion must hold
	nplain := c.n(50, 2000)
	for s := 0; s < nplain; s++ {
		var ops []string
		var addrs [][2]int
		ncn := 1 + r.IntN(2)
		for cn := 1; cn <= ncn; cn++ {
			k := 2 + r.IntN(4)
			if ncn == 2 {
				k = 2 + r.IntN(2)
			}
			w := rsPlainWorld(c, cn, k)
			var ids []int
			for o := range w {
				ids = append(ids, o)
			}
			sort.Ints(ids)
			for _, o := range ids {
				ops = append(ops, rsDefLine(cn, o, w[o]))
				addrs = append(addrs, [2]int{cn, o})
			}
		}
		e := r.IntN(11)
		for _, p := range rsPerms(c, len(addrs), 24) {
			ord := make([][2]int, len(p))
			for i, j := range p {
				ord[i] = addrs[j]
			}
			ops = append(ops, fmt.Sprintf("resync run e=%d order=%s", e, joinAddrs(ord)))
		}
		run(ops)
	}

	// (3) incremental construction (puts only, one epoch), then the rebuild from what was accepted
	ninc := c.n(60, 2500)
	for s := 0; s < ninc; s++ {
		g := newMetaGenState(c)
		cn := 1 + r.IntN(2)
		var ops []string
		for o := 1; o <= 8; o++ {
			ops = append(ops, rsDefLine(cn, o, g.self[cn][o]))
		}
		ops = append(ops, fmt.Sprintf("resync epoch e=%d", r.IntN(11)))
		n := 3 + r.IntN(8)
		for i := 0; i < n; i++ {
			ops = append(ops, fmt.Sprintf("resync putw c=%d o=%d", cn, 1+r.IntN(8)))
		}
		ops = append(ops, "resync rebuild")
		run(ops)
	}

	// (4) PutBatch on states built incrementally, batches with refused objects; tombstones / locks that carry
	// a parent header leave the parent indexed when they are refused themselves
	nbatch := c.n(60, 2500)
	for s := 0; s < nbatch; s++ {
		g := newMetaGenState(c)
		cn := 1 + r.IntN(2)
		var ops []string
		var all [][2]int
		for o := 1; o <= 8; o++ {
			f := g.self[cn][o]
			if strings.Contains(f, "assoc=") && !strings.Contains(f, "assoc=0") && r.IntN(3) == 0 {
				p := 9 + r.IntN(4)
				f += fmt.Sprintf(" p.id=%d p.%s", p, strings.ReplaceAll(g.asPar[cn][p], " ", " p."))
				f = rsRetarget(c, f, o, []int{1, 2, 3, 4, 5, 6, 7, 8}, nil)
			}
			ops = append(ops, rsDefLine(cn, o, f))
			all = append(all, [2]int{cn, o})
		}
		ep := r.IntN(11)
		ops = append(ops, fmt.Sprintf("resync epoch e=%d", ep))
		for i, n := 0, r.IntN(5); i < n; i++ {
			switch r.IntN(6) {
			case 0:
				ops = append(ops, fmt.Sprintf("resync mark c=%d ids=%d red=%d", cn, 1+r.IntN(12), r.IntN(2)))
			default:
				ops = append(ops, fmt.Sprintf("resync putw c=%d o=%d", cn, 1+r.IntN(8)))
			}
		}
		if r.IntN(3) == 0 {
			ep += r.IntN(4)
			ops = append(ops, fmt.Sprintf("resync epoch e=%d", ep))
		}
		for b, nb := 0, 1+r.IntN(2); b < nb; b++ {
			k := 2 + r.IntN(5)
			var objs [][2]int
			for _, i := range r.Perm(8)[:k] {
				objs = append(objs, all[i])
			}
			ops = append(ops, "resync batch objs="+joinAddrs(objs))
		}
		run(ops)
	}

	// (5) batch boundaries: more than resyncBatchSize blobs (the same objects met again and again), an aborting
	// object in the second batch
	nbig := c.n(3, 40)
	for s := 0; s < nbig; s++ {
		g := newMetaGenState(c)
		cn := 1
		var ops []string
		var addrs [][2]int
		k := 3 + r.IntN(3)
		for _, i := range r.Perm(8)[:k] {
			ops = append(ops, rsDefLine(cn, i+1, g.self[cn][i+1]))
			addrs = append(addrs, [2]int{cn, i + 1})
		}
		// 2/7 is a lock whose target 2/6 is a tombstone object: refused with "lock non regular" (aborts its batch)
		ops = append(ops, rsDefLine(2, 6, "typ=TS assoc=3"), rsDefLine(2, 7, "typ=LOCK assoc=6"), rsDefLine(2, 5, "typ=REG size=7"))
		rep := 1000/len(addrs) + r.IntN(2)
		tails := []string{"2/5,2/6,2/7", "2/6,2/5,2/7,2/5", "2/7,2/6,2/5"}
		ops = append(ops, fmt.Sprintf("resync run e=%d order=%s rep=%d tail=%s", r.IntN(11), joinAddrs(addrs), rep, tails[r.IntN(len(tails))]))
		run(ops)
	}
}
