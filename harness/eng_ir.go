package main

// Engine "ir", stream "notary" (C34): generated notary requests are pushed through the REAL
// event listener (notary preparator -> registered parser -> registered handler) with the REAL
// container processor behind it; the morph client is a connection-less client whose
// NotarySignAndInvokeTX / TestInvoke are intercepted (verif tag) and recorded.
//
// Op line (every op is self-contained):
//   ir notary alpha=N ir=0|1 w=<witness kinds> s=<signer kinds> a=<main attrs> fa=<fallback attrs> nvb=H h=H
//             local=0|1 dup=0|1 tail=0|1 c1=<call> [c2=<call>] [c3=<call>]
//   call = contract,method,valid,argkind,argkind,...
// Observation: "=> <prepare error class>" or "=> ok n=<calls> ev=<first method>|parseErr signed=0|1".

import (
	"bytes"
	"errors"
	"fmt"
	"math/big"
	"os"
	"strings"
	"sync"
	"time"

	"github.com/nspcc-dev/neo-go/pkg/core/transaction"
	"github.com/nspcc-dev/neo-go/pkg/crypto/hash"
	"github.com/nspcc-dev/neo-go/pkg/crypto/keys"
	"github.com/nspcc-dev/neo-go/pkg/io"
	"github.com/nspcc-dev/neo-go/pkg/network/payload"
	"github.com/nspcc-dev/neo-go/pkg/smartcontract"
	"github.com/nspcc-dev/neo-go/pkg/smartcontract/callflag"
	"github.com/nspcc-dev/neo-go/pkg/smartcontract/scparser"
	"github.com/nspcc-dev/neo-go/pkg/util"
	"github.com/nspcc-dev/neo-go/pkg/vm/emit"
	"github.com/nspcc-dev/neo-go/pkg/vm/opcode"
	"github.com/nspcc-dev/neo-go/pkg/vm/stackitem"
	containerrpc "github.com/nspcc-dev/neofs-contract/rpc/container"
	netmaprpc "github.com/nspcc-dev/neofs-contract/rpc/netmap"
	cntproc "github.com/nspcc-dev/neofs-node/pkg/innerring/processors/container"
	"github.com/nspcc-dev/neofs-node/pkg/morph/client"
	cntcli "github.com/nspcc-dev/neofs-node/pkg/morph/client/container"
	"github.com/nspcc-dev/neofs-node/pkg/morph/event"
	netmapEvent "github.com/nspcc-dev/neofs-node/pkg/morph/event/netmap"
	reputationEvent "github.com/nspcc-dev/neofs-node/pkg/morph/event/reputation"
	"github.com/nspcc-dev/neofs-sdk-go/container"
	"github.com/nspcc-dev/neofs-sdk-go/container/acl"
	cid "github.com/nspcc-dev/neofs-sdk-go/container/id"
	neofsecdsa "github.com/nspcc-dev/neofs-sdk-go/crypto/ecdsa"
	"github.com/nspcc-dev/neofs-sdk-go/eacl"
	"github.com/nspcc-dev/neofs-sdk-go/netmap"
	"github.com/nspcc-dev/neofs-sdk-go/reputation"
	"github.com/nspcc-dev/neofs-sdk-go/user"
	"go.uber.org/zap"
	"go.uber.org/zap/zapcore"
	"go.uber.org/zap/zaptest/observer"
)

func init() {
	engines["ir"] = seqRunner{gen: irGen, exec: irExec}.engine()
}

// ---- fixed universe -------------------------------------------------------------------------

var irMethods = []string{"put", "putNamed", "create", "createV2", "delete", "remove", "setEACL", "putEACL",
	"putReport", "setAttribute", "removeAttribute", "addNode", "updateState", "transfer", "foo"}

const (
	mPut = iota
	mPutNamed
	mCreate
	mCreateV2
	mDelete
	mRemove
	mSetEACL
	mPutEACL
	mReport
	mSetAttr
	mRemoveAttr
	mAddNode
	mUpdateState
	mTransfer
	mFoo
)

func irHash(b byte) util.Uint160 {
	var h util.Uint160
	for i := range h {
		h[i] = b + byte(i)
	}
	return h
}

// contracts: 0 container, 1 netmap, 2 reputation, 3 and 4 foreign
var irContracts = []util.Uint160{irHash(0x10), irHash(0x40), irHash(0x70), irHash(0xa0), irHash(0xd0)}

var (
	irProxyHash  = irHash(0x21)
	irNotaryHash = irHash(0x31)
)

var irKeys = map[int]*keys.PrivateKey{}

func irKey(i int) *keys.PrivateKey {
	if k, ok := irKeys[i]; ok {
		return k
	}
	k := irKeyNew(i)
	irKeys[i] = k
	return k
}

func irKeyNew(i int) *keys.PrivateKey {
	b := make([]byte, 32)
	b[31] = byte(i)
	b[0] = byte(3*i + 1)
	p, err := keys.NewPrivateKeyFromBytes(b)
	if err != nil {
		panic(err)
	}
	return p
}

// arg kinds
const (
	akBytes = iota
	akJunk
	akInt01
	akIntN
	akBoolT
	akNull
	akList2
	akCnr
	akNode
	akPubkey
	akCount
)

type irCall struct {
	contract, method int
	valid            bool
	args             []int
}

type irWorld struct {
	mu       sync.Mutex
	alphaN   int
	isAlpha  bool
	signed   []*transaction.Transaction
	reached  []string
	drained  bool
	obs      *observer.ObservedLogs
	listener event.Listener
	twin     event.Listener
	cp       *cntproc.Processor
	height   uint32

	localKey *keys.PrivateKey
	ownerKey *keys.PrivateKey
	cnr      container.Container
	cnrBytes []byte
	cnrID    cid.ID
	eacl     []byte
	repValue []byte
}

type irAlphaState struct{ w *irWorld }

func (s irAlphaState) IsAlphabet() bool { return s.w.isAlpha }

type irNetState struct{}

func (irNetState) Epoch() (uint64, error)                     { return 10, nil }
func (irNetState) NetMap() (*netmap.NetMap, error)            { return nil, errors.New("no netmap in harness") }
func (irNetState) GetEpochBlock(uint64) (uint32, error)       { return 1, nil }
func (irNetState) GetEpochBlockByTime(uint32) (uint32, error) { return 1, nil }

type irClock struct{}

func (irClock) Now() time.Time { return time.Unix(1_700_000_000, 0) }

type irBlocks struct{ w *irWorld }

func (b irBlocks) BlockCount() (uint32, error) { return b.w.height, nil }

func (w *irWorld) alphabet() (keys.PublicKeys, error) {
	ks := make(keys.PublicKeys, 0, w.alphaN)
	for i := 0; i < w.alphaN; i++ {
		ks = append(ks, irKey(20+i).PublicKey())
	}
	return ks, nil
}

var irWorlds = map[int]*irWorld{}

// world returns the (lazily built) listener + processor set for an alphabet of n keys.
func irWorldFor(n int) *irWorld {
	if w, ok := irWorlds[n]; ok {
		return w
	}
	w := &irWorld{alphaN: n, localKey: irKey(20), ownerKey: irKey(50)}
	core, obs := observer.New(zapcore.WarnLevel)
	w.obs = obs
	log := zap.New(core, zap.Hooks(func(e zapcore.Entry) error {
		if os.Getenv("VERIF_IR_DEBUG") != "" {
			fmt.Fprintln(os.Stderr, "LOG", e.Level, e.Message)
		}
		if strings.Contains(e.Message, "worker pool drained") {
			w.mu.Lock()
			w.drained = true
			w.mu.Unlock()
		}
		return nil
	}))

	// world container, owned by ownerKey, eACL-extendable
	owner := user.NewFromECDSAPublicKey(w.ownerKey.PrivateKey.PublicKey)
	var pol netmap.PlacementPolicy
	if err := pol.DecodeString("REP 1"); err != nil {
		panic(err)
	}
	w.cnr.Init()
	w.cnr.SetOwner(owner)
	w.cnr.SetBasicACL(acl.PublicRWExtended)
	w.cnr.SetPlacementPolicy(pol)
	w.cnr.SetName("verif")
	// the contract structure carries no attributes in the harness; creation time etc. are not set
	// Re-derive the container from its contract structure so that the binary form signed by the
	// owner is exactly the one the processor re-marshals.
	st := irCnrStruct(w.cnr)
	c2, err := cntcli.ContainerFromStruct(*st)
	if err != nil {
		panic(err)
	}
	w.cnr = c2
	w.cnrBytes = w.cnr.Marshal()
	w.cnrID = cid.NewFromMarshalledContainer(w.cnrBytes)
	tbl := eacl.NewTableForContainer(w.cnrID, []eacl.Record{
		eacl.ConstructRecord(eacl.ActionDeny, eacl.OperationPut, []eacl.Target{eacl.NewTargetByRole(eacl.RoleOthers)}),
	})
	w.eacl = tbl.Marshal()
	var peer reputation.PeerID
	peer.SetPublicKey(irKey(60).PublicKey().Bytes())
	var tr reputation.Trust
	tr.SetPeer(peer)
	tr.SetValue(0.5)
	var gt reputation.GlobalTrust
	gt.Init()
	gt.SetManager(peer)
	gt.SetTrust(tr)
	if err := gt.Sign(user.NewAutoIDSigner(irKey(60).PrivateKey)); err != nil {
		panic(err)
	}
	w.repValue = gt.Marshal()

	icpt := func(method string, args ...any) (bool, any, error) {
		switch method {
		case "NotarySignAndInvokeTX":
			w.mu.Lock()
			w.signed = append(w.signed, args[0].(*transaction.Transaction))
			w.mu.Unlock()
			return true, nil, nil
		case "TestInvoke":
			if args[0].(util.Uint160) == irContracts[0] && args[1].(string) == "getInfo" {
				it, err := irCnrStruct(w.cnr).ToStackItem()
				if err != nil {
					return true, nil, err
				}
				return true, []stackitem.Item{it}, nil
			}
		}
		return false, nil, nil
	}
	cli := client.VerifNewInterceptedClient(w.localKey, icpt, irNotaryHash, irProxyHash, w.alphabet)
	cc, err := cntcli.NewFromMorph(cli, irContracts[0])
	if err != nil {
		panic(err)
	}
	w.cp, err = cntproc.New(&cntproc.Params{Log: log, PoolSize: 1, AlphabetState: irAlphaState{w}, ContainerClient: cc,
		NetworkState: irNetState{}, ChainTime: irClock{}})
	if err != nil {
		panic(err)
	}
	mk := func() event.Listener {
		l, err := event.NewListener(event.ListenerParams{Logger: log, Client: cli})
		if err != nil {
			panic(err)
		}
		l.EnableNotarySupport(irProxyHash, w.localKey.GetScriptHash(), w.alphabet, irBlocks{w})
		for _, p := range w.cp.ListenerNotaryParsers() {
			l.SetNotaryParser(p)
		}
		for _, h := range w.cp.ListenerNotaryHandlers() {
			orig := h.Handler()
			name := h.RequestType().String()
			h.SetHandler(func(e event.Event) {
				w.mu.Lock()
				w.reached = append(w.reached, name)
				w.mu.Unlock()
				for i := 0; ; i++ {
					w.mu.Lock()
					w.drained = false
					w.mu.Unlock()
					orig(e)
					w.mu.Lock()
					d := w.drained
					w.mu.Unlock()
					if !d {
						break
					}
					if i > 10000 {
						panic("container worker pool stays drained")
					}
					time.Sleep(50 * time.Microsecond)
				}
			})
			l.RegisterNotaryHandler(h)
		}
		// netmap and reputation: the real parsers under the keys the real processors use; the
		// handlers only record (their processors are driven by the C35 stream).
		reg := func(contract int, method string, p event.NotaryUnaryParser) {
			var pi event.NotaryParserInfo
			pi.SetScriptHash(irContracts[contract])
			pi.SetRequestType(event.NotaryTypeFromString(method))
			pi.SetUnaryParser(p)
			l.SetNotaryParser(pi)
			var hi event.NotaryHandlerInfo
			hi.SetScriptHash(irContracts[contract])
			hi.SetRequestType(event.NotaryTypeFromString(method))
			hi.SetHandler(func(event.Event) {
				w.mu.Lock()
				w.reached = append(w.reached, method)
				w.mu.Unlock()
			})
			l.RegisterNotaryHandler(hi)
		}
		reg(1, netmapEvent.AddNodeNotaryEvent, netmapEvent.ParseAddNodeNotary)
		reg(1, netmapEvent.UpdateStateNotaryEvent, netmapEvent.ParseUpdatePeerNotary)
		reg(2, reputationEvent.PutNotaryEvent, reputationEvent.ParsePutNotary)
		return l
	}
	w.listener, w.twin = mk(), mk()
	irWorlds[n] = w
	return w
}

func irCnrStruct(cnr container.Container) *containerrpc.ContainerInfo {
	ver := cnr.Version()
	owner := cnr.Owner()
	var attrs []*containerrpc.ContainerAttribute
	for k, v := range cnr.Attributes() {
		attrs = append(attrs, &containerrpc.ContainerAttribute{Key: k, Value: v})
	}
	return &containerrpc.ContainerInfo{
		Version:       &containerrpc.ContainerAPIVersion{Major: big.NewInt(int64(ver.Major())), Minor: big.NewInt(int64(ver.Minor()))},
		Owner:         owner.ScriptHash(),
		Nonce:         cnr.ProtoMessage().Nonce,
		BasicACL:      big.NewInt(int64(cnr.BasicACL().Bits())),
		Attributes:    attrs,
		StoragePolicy: cnr.PlacementPolicy().Marshal(),
	}
}

// ---- request construction -------------------------------------------------------------------

func (w *irWorld) sign(data []byte, ok bool) []byte {
	sig, err := neofsecdsa.SignerRFC6979(w.ownerKey.PrivateKey).Sign(data)
	if err != nil {
		panic(err)
	}
	if !ok {
		sig[5] ^= 0x40
	}
	return sig
}

// irCraftable says for which (position, first method, method) the generator can make the
// handler's validation succeed (valid=1 is only generated / accepted for these).
func irCraftable(pos int, first int, cl irCall) bool {
	canon := func(want []int) bool {
		if len(want) != len(cl.args) {
			return false
		}
		for i := range want {
			if want[i] != cl.args[i] {
				return false
			}
		}
		return true
	}
	if pos == 0 {
		m := cl.method
		return cl.contract == 0 && (m == mCreate || m == mCreateV2 || m == mRemove || m == mPutEACL) && canon(irCanonArgs(0, m))
	}
	return pos == 1 && first == mCreateV2 && canon([]int{akBytes, akBytes, akBytes, akBytes})
}

// content returns the byte contents of the bytes-kind arguments of a call, in order.
func (w *irWorld) content(pos int, first int, c irCall) [][]byte {
	pub := w.ownerKey.PublicKey().Bytes()
	switch {
	case pos == 0 && c.method == mCreate:
		return [][]byte{w.cnrBytes, w.sign(w.cnrBytes, c.valid), pub, {}, {}, {}}
	case pos == 0 && c.method == mCreateV2:
		return [][]byte{w.sign(w.cnrBytes, c.valid), pub, {}}
	case pos == 0 && c.method == mRemove:
		return [][]byte{w.cnrID[:], w.sign(w.cnrID[:], c.valid), pub, {}}
	case c.contract == 2 && c.method == mPut:
		return [][]byte{w.repValue}
	case pos == 0 && c.method == mReport:
		return [][]byte{w.cnrID[:], irKey(60).PublicKey().Bytes()}
	case pos == 0 && c.method == mPutEACL, pos == 1 && first == mCreateV2:
		return [][]byte{w.eacl, w.sign(w.eacl, c.valid), pub, {}}
	}
	return nil
}

func (w *irWorld) script(calls []irCall, tail int) []byte {
	bw := io.NewBufBinWriter()
	first := -1
	if len(calls) > 0 {
		first = calls[0].method
	}
	for pos, c := range calls {
		cont := w.content(pos, first, c)
		bi := 0
		// arguments are pushed in reverse order, then packed
		type pusher func()
		var ps []pusher
		for _, k := range c.args {
			switch k {
			case akBytes:
				var b []byte
				if bi < len(cont) {
					b = cont[bi]
				}
				bi++
				ps = append(ps, func() { emit.Bytes(bw.BinWriter, b) })
			case akJunk:
				ps = append(ps, func() { emit.Bytes(bw.BinWriter, []byte{0xff, 0xff, 0xff}) })
			case akInt01:
				ps = append(ps, func() { emit.Int(bw.BinWriter, 1) })
			case akIntN:
				ps = append(ps, func() { emit.Int(bw.BinWriter, 1000) })
			case akBoolT:
				ps = append(ps, func() { emit.Bool(bw.BinWriter, true) })
			case akNull:
				ps = append(ps, func() { emit.Opcodes(bw.BinWriter, opcode.PUSHNULL) })
			case akList2:
				ps = append(ps, func() { emit.Array(bw.BinWriter, []byte{1}, []byte{2}) })
			case akCnr:
				ps = append(ps, func() { emit.Convertible(bw.BinWriter, irCnrStruct(w.cnr)) })
			case akNode:
				ps = append(ps, func() {
					emit.Convertible(bw.BinWriter, &netmaprpc.NetmapNode2{Addresses: []string{"/ip4/1.2.3.4/tcp/8080"},
						Attributes: map[string]string{"k": "v"}, Key: irKey(60).PublicKey(), State: big.NewInt(1)})
				})
			case akPubkey:
				ps = append(ps, func() { emit.Bytes(bw.BinWriter, irKey(60).PublicKey().Bytes()) })
			}
		}
		for i := len(ps) - 1; i >= 0; i-- {
			ps[i]()
		}
		emit.Int(bw.BinWriter, int64(len(ps)))
		emit.Opcodes(bw.BinWriter, opcode.PACK)
		emit.AppCallNoArgs(bw.BinWriter, irContracts[c.contract], irMethods[c.method], callflag.All)
	}
	if tail == 1 {
		emit.Opcodes(bw.BinWriter, opcode.RET)
	}
	if bw.Err != nil {
		panic(bw.Err)
	}
	return bw.Bytes()
}

var irNonce uint32

func (w *irWorld) request(o opLine, calls []irCall) *payload.P2PNotaryRequest {
	irNonce++
	alpha, _ := w.alphabet()
	alphaScript, err := smartcontract.CreateMultiSigRedeemScript(len(alpha)*2/3+1, alpha)
	if err != nil {
		panic(err)
	}
	otherScript, _ := smartcontract.CreateMultiSigRedeemScript(1, keys.PublicKeys{irKey(61).PublicKey()})
	mtx := transaction.New(w.script(calls, o.int("tail")), 0)
	mtx.Nonce = irNonce
	mtx.ValidUntilBlock = 10_000
	for _, k := range o.ints("s") {
		var acc util.Uint160
		switch k {
		case 0:
			acc = irProxyHash
		case 1:
			acc = hash.Hash160(alphaScript)
		case 2:
			acc = irNotaryHash
		default:
			acc = irKey(62).GetScriptHash()
		}
		mtx.Signers = append(mtx.Signers, transaction.Signer{Account: acc, Scopes: transaction.Global})
	}
	for _, a := range o.ints("a") {
		if a >= 100 {
			mtx.Attributes = append(mtx.Attributes, transaction.Attribute{Type: transaction.NotaryAssistedT, Value: &transaction.NotaryAssisted{NKeys: uint8(a - 100)}})
		} else {
			mtx.Attributes = append(mtx.Attributes, transaction.Attribute{Type: transaction.NotValidBeforeT, Value: &transaction.NotValidBefore{Height: 1}})
		}
	}
	dummy := append([]byte{byte(opcode.PUSHDATA1), 64}, make([]byte, 64)...)
	other := append([]byte{byte(opcode.PUSHDATA1), 64}, bytes.Repeat([]byte{7}, 64)...)
	for _, k := range o.ints("w") {
		var wt transaction.Witness
		switch k / 10 {
		case 1:
			wt.InvocationScript = dummy
		case 2:
			wt.InvocationScript = other
		default:
			wt.InvocationScript = []byte{}
		}
		switch k % 10 {
		case 1:
			wt.VerificationScript = alphaScript
		case 2:
			wt.VerificationScript = otherScript
		default:
			wt.VerificationScript = []byte{}
		}
		mtx.Scripts = append(mtx.Scripts, wt)
	}
	ftx := transaction.New([]byte{byte(opcode.RET)}, 0)
	ftx.Nonce = irNonce
	ftx.ValidUntilBlock = 10_000
	sender := irKey(63).GetScriptHash()
	if o.int("local") == 1 {
		sender = w.localKey.GetScriptHash()
	}
	ftx.Signers = []transaction.Signer{{Account: irNotaryHash, Scopes: transaction.None}, {Account: sender, Scopes: transaction.None}}
	for _, a := range o.ints("fa") {
		switch a {
		case 1:
			ftx.Attributes = append(ftx.Attributes, transaction.Attribute{Type: transaction.NotValidBeforeT, Value: &transaction.NotValidBefore{Height: uint32(o.int("nvb"))}})
		case 2:
			ftx.Attributes = append(ftx.Attributes, transaction.Attribute{Type: transaction.ConflictsT, Value: &transaction.Conflicts{Hash: mtx.Hash()}})
		default:
			ftx.Attributes = append(ftx.Attributes, transaction.Attribute{Type: transaction.NotaryAssistedT, Value: &transaction.NotaryAssisted{NKeys: 0}})
		}
	}
	ftx.Scripts = []transaction.Witness{{InvocationScript: dummy, VerificationScript: []byte{}}, {InvocationScript: other, VerificationScript: []byte{}}}
	return &payload.P2PNotaryRequest{MainTransaction: mtx, FallbackTransaction: ftx,
		Witness: transaction.Witness{InvocationScript: other, VerificationScript: []byte{}}}
}

func irPrepClass(err error) string {
	var s string
	if err != nil {
		s = err.Error()
	}
	switch {
	case err == nil:
		return "ok"
	case errors.Is(err, event.ErrTXAlreadyHandled):
		return "alreadyHandled"
	case errors.Is(err, event.ErrMainTXExpired):
		return "expired"
	case errors.Is(err, event.ErrUnknownEvent):
		return "unknown"
	case strings.Contains(s, "unexpected amount of witnesses"):
		return "witnessCount"
	case strings.Contains(s, "unexpected amount of cosigners"):
		return "cosignersCount"
	case strings.Contains(s, "incorrect Alphabet signer"):
		return "alphaSigner"
	case strings.Contains(s, "non-empty Proxy witnesses"):
		return "proxyWitness"
	case strings.Contains(s, "empty Invoker witness"):
		return "invokerWitness"
	case strings.Contains(s, "incorrect Alphabet verification"):
		return "alphaWitness"
	case strings.Contains(s, "incorrect Notary contract placeholder"):
		return "placeholder"
	case strings.Contains(s, "main tx has incorrect attributes amount"):
		return "attrCount"
	case strings.Contains(s, "main tx has incorrect attribute"):
		return "attr"
	case strings.Contains(s, "no valid contract calls"):
		return "noCalls"
	case strings.Contains(s, "fallback tx has incorrect attributes amount"):
		return "fbAttrCount"
	case strings.Contains(s, "fallback tx has incorrect attributes"):
		return "fbAttrs"
	case strings.HasPrefix(s, "parsing ") || strings.Contains(s, "unexpected parsing position"):
		return "parse"
	}
	return "other:" + s
}

func irParseCall(o opLine, k string) (irCall, bool, bool) {
	if _, ok := o.kv[k]; !ok {
		return irCall{}, false, true
	}
	v := o.ints(k)
	if len(v) < 3 || v[0] < 0 || v[0] >= len(irContracts) || v[1] < 0 || v[1] >= len(irMethods) || v[2] < 0 || v[2] > 1 {
		return irCall{}, true, false
	}
	for _, a := range v[3:] {
		if a < 0 || a >= akCount {
			return irCall{}, true, false
		}
	}
	return irCall{contract: v[0], method: v[1], valid: v[2] == 1, args: v[3:]}, true, true
}

// irExpected is the independent statement of "an expected call": the (contract, method)
// pairs the inner ring registers notary parsers for.
func irExpected(h util.Uint160, method string) bool {
	switch h {
	case irContracts[0]:
		for _, m := range irMethods[:mAddNode] {
			if m == method {
				return true
			}
		}
	case irContracts[1]:
		return method == "addNode" || method == "updateState"
	case irContracts[2]:
		return method == "put"
	}
	return false
}

func irExec(c *runCtx, ops []string) {
	// the ix* ops (caching indexer, C35) form stateful sequences; every other op is self-contained
	c.independent = true
	for _, line := range ops {
		if strings.HasPrefix(parseOp(line).name, "ix") {
			c.independent = false
		}
	}
	var ix *ixWorld
	for _, line := range ops {
		o := parseOp(line)
		if strings.HasPrefix(o.name, "ix") {
			if ix == nil {
				ix = newIxWorld()
			}
			ix.exec(c, line, o)
			continue
		}
		var pend []func()
		orc := func(a string, ok bool, d string) { pend = append(pend, func() { c.oracle(a, ok, d) }) }
		emitObs := func(obs string) {
			c.emit(line, obs)
			for _, f := range pend {
				f()
			}
		}
		if o.name != "notary" {
			irExecOther(c, line, o)
			continue
		}
		c.count("notary")
		bad := false
		for _, k := range []string{"alpha", "ir", "w", "s", "a", "fa", "nvb", "h", "local", "dup", "tail"} {
			if _, ok := o.kv[k]; !ok {
				bad = true
			}
		}
		var calls []irCall
		gap := false
		for _, k := range []string{"c1", "c2", "c3"} {
			cl, present, ok := irParseCall(o, k)
			if !ok || (present && gap) {
				bad = true
			}
			if present {
				calls = append(calls, cl)
			} else {
				gap = true
			}
		}
		if !bad {
			for pos, cl := range calls {
				if cl.valid && !irCraftable(pos, calls[0].method, cl) {
					bad = true
				}
			}
			n := o.int("alpha")
			bad = bad || n < 1 || n > 7 || o.int("tail") > 1
		}
		if bad {
			emitObs("=> bad-op")
			continue
		}
		w := irWorldFor(o.int("alpha"))
		w.isAlpha = o.int("ir") == 1
		w.height = uint32(o.int("h"))
		w.mu.Lock()
		w.signed, w.reached = nil, nil
		w.mu.Unlock()
		nr := w.request(o, calls)

		var prepErr error
		func() {
			defer func() {
				if r := recover(); r != nil {
					prepErr = fmt.Errorf("panic: %v", r)
				}
			}()
			if o.int("dup") == 1 {
				event.VerifPrepare(w.twin, nr)
				event.VerifHandleNotary(w.listener, nr)
				w.cp.VerifSync()
				w.mu.Lock()
				w.signed, w.reached = nil, nil
				w.mu.Unlock()
			}
			_, prepErr = event.VerifPrepare(w.twin, nr)
			event.VerifHandleNotary(w.listener, nr)
			w.cp.VerifSync()
		}()
		for _, e := range w.obs.TakeAll() {
			if os.Getenv("VERIF_IR_DEBUG") != "" {
				fmt.Fprintln(os.Stderr, "  ", e.Message, e.ContextMap())
			}
		}
		cls := irPrepClass(prepErr)
		c.count("prep:" + cls)
		w.mu.Lock()
		signed, reached := w.signed, w.reached
		w.mu.Unlock()
		if cls != "ok" {
			orc("no-cosign-without-prepared-request", len(signed) == 0, line)
			emitObs("=> " + cls)
			continue
		}
		ev := "parseErr"
		if len(reached) > 0 {
			ev = fmt.Sprint(calls[0].method)
			orc("handler-matches-first-call", reached[0] == irMethods[calls[0].method], line+" reached="+reached[0])
		}
		c.count("ev:" + ev)
		// the property's oracle: every call of a co-signed script is an expected call whose
		// arguments were made valid for its handler
		for _, tx := range signed {
			orc("cosigned-is-the-request", tx.Hash() == nr.MainTransaction.Hash(), line)
			ctx := scparser.NewContext(tx.Script, 0)
			i := 0
			for ctx.NextIP() < len(tx.Script) {
				h, m, _, _, err := scparser.GetAppCallFromContext(ctx)
				if err != nil {
					orc("cosigned-script-parses", false, line)
					break
				}
				orc("cosigned-call-expected", irExpected(h, m), fmt.Sprintf("%s call#%d=%s.%s", line, i, h.StringLE(), m))
				orc("cosigned-call-validated", i < len(calls) && calls[i].valid, fmt.Sprintf("%s call#%d", line, i))
				i++
			}
			orc("cosigned-only-as-alphabet", w.isAlpha, line)
			// required structure, stated on the op line's own fields (independent of the model)
			ws, ss, as, fas := o.ints("w"), o.ints("s"), o.ints("a"), o.ints("fa")
			nw := len(ws)
			orc("cosigned-witness-count", nw == 3 || nw == 4, line)
			if nw == 3 || nw == 4 {
				inv := 0
				if nw == 4 {
					inv = 1
				}
				orc("cosigned-signers", len(ss) == nw && ss[1] == 1, line)
				orc("cosigned-notary-attribute", len(as) == 1 && as[0] == 100+o.int("alpha")+inv, line)
				orc("cosigned-witnesses", ws[0] == 0 && ws[1]%10 == 1 && (ws[nw-1] == 0 || ws[nw-1] == 10) && (nw == 3 || ws[2] != 0), line)
			}
			nNVB := 0
			for _, a := range fas {
				if a == 1 {
					nNVB++
				}
			}
			orc("cosigned-fallback-unexpired", len(fas) == 3 && nNVB == 1 && o.int("h") < o.int("nvb"), line)
			orc("cosigned-not-own-not-repeated", o.int("local") == 0 && o.int("dup") == 0, line)
		}
		orc("cosigned-at-most-once", len(signed) <= 1, line)
		if len(signed) > 0 || len(calls) > 1 {
			c.nontrivial(line)
		}
		c.count(fmt.Sprintf("signed:%d", len(signed)))
		sg := 0
		if len(signed) > 0 {
			sg = 1
		}
		emitObs(fmt.Sprintf("=> ok n=%d ev=%s signed=%d", len(calls), ev, sg))
	}
}

// ---- generation -----------------------------------------------------------------------------

// canonical argument kinds per (contract, method)
func irCanonArgs(contract, method int) []int {
	B, I, T := akBytes, akIntN, akBoolT
	switch {
	case contract == 2 && method == mPut:
		return []int{I, akPubkey, B}
	case method == mPut:
		return []int{B, B, B, B}
	case method == mPutNamed:
		return []int{B, B, B, B, B, B}
	case method == mCreate:
		return []int{B, B, B, B, B, B, T}
	case method == mCreateV2:
		return []int{akCnr, B, B, B}
	case method == mDelete:
		return []int{B, B, B}
	case method == mRemove, method == mSetEACL, method == mPutEACL, method == mTransfer, method == mFoo:
		return []int{B, B, B, B}
	case method == mReport:
		return []int{B, I, I, B}
	case method == mSetAttr:
		return []int{B, B, B, I, B, B, B}
	case method == mRemoveAttr:
		return []int{B, B, I, B, B, B}
	case method == mAddNode:
		return []int{akNode}
	case method == mUpdateState:
		return []int{akInt01, akPubkey}
	}
	return []int{B}
}

func irGenCall(c *runCtx, pos int, first int) irCall {
	r := c.rng
	var cl irCall
	// registered pair most of the time
	x := r.IntN(10)
	if pos == 0 && x >= 6 && r.IntN(2) == 0 {
		x = 0
	}
	switch {
	case x < 6:
		if pos == 1 && first == mCreateV2 && r.IntN(2) == 0 {
			cl.contract, cl.method = 0, mPutEACL
		} else if y := r.IntN(14); y < 11 {
			cl.contract, cl.method = 0, y
			if pos == 0 && r.IntN(3) == 0 {
				cl.method = mCreateV2
			}
		} else if y == 11 {
			cl.contract, cl.method = 1, mAddNode
		} else if y == 12 {
			cl.contract, cl.method = 1, mUpdateState
		} else {
			cl.contract, cl.method = 2, mPut
		}
	case x < 8: // registered method on a foreign / other contract
		cl.contract, cl.method = 1+r.IntN(4), r.IntN(len(irMethods))
	default: // unregistered method
		cl.contract, cl.method = r.IntN(5), mTransfer+r.IntN(2)
	}
	if pos == 0 && first >= 0 {
		cl.method = first
	}
	cl.args = irCanonArgs(cl.contract, cl.method)
	if pos == 1 && first == mCreateV2 && r.IntN(3) > 0 {
		cl.args = []int{akBytes, akBytes, akBytes, akBytes}
	}
	cl.args = append([]int(nil), cl.args...)
	switch r.IntN(14) {
	case 0:
		if len(cl.args) > 0 {
			cl.args = cl.args[:len(cl.args)-1]
		}
	case 1:
		cl.args = append(cl.args, r.IntN(akCount))
	case 2:
		if len(cl.args) > 0 {
			cl.args[r.IntN(len(cl.args))] = r.IntN(akCount)
		}
	case 3:
		if cl.method == mPut && cl.contract == 0 {
			cl.args = append(cl.args, akBytes, akBytes)
			if r.IntN(2) == 0 {
				cl.args = append(cl.args, []int{akBoolT, akInt01, akIntN}[r.IntN(3)])
			}
		}
	}
	return cl
}

func irCallStr(cl irCall) string {
	v := 0
	if cl.valid {
		v = 1
	}
	xs := append([]int{cl.contract, cl.method, v}, cl.args...)
	return joinInts(xs)
}

func irGen(c *runCtx, run func([]string)) {
	if c.prop == "C35" {
		irGenAuth(c, run)
		return
	}
	r := c.rng
	var ops []string
	n := c.n(1500, 20000)
	for i := 0; i < n; i++ {
		alpha := []int{1, 4, 4, 4, 7}[r.IntN(5)]
		inv := r.IntN(4) == 0
		w := []int{0, 1, 0}
		s := []int{0, 1, 2}
		nk := alpha
		if inv {
			w = []int{0, 1, 22, 0}
			s = []int{0, 1, 3, 2}
			nk++
		}
		if r.IntN(3) == 0 { // the alphabet witness already carries somebody's signature
			w[1] = 21
		}
		if r.IntN(3) == 0 {
			w[len(w)-1] = 10
		}
		a := []int{100 + nk}
		fa := []int{3, 1, 2}
		nvb, h := 100, 50
		local, dup, tail, ir := 0, 0, 0, 1
		// structural mutations: about 40% of the requests get one (sometimes two)
		for k := 0; k < 2; k++ {
			if r.IntN(100) >= 28 {
				continue
			}
			switch r.IntN(16) {
			case 0:
				w = w[:len(w)-1]
			case 1:
				w = append(w, 0)
			case 2:
				s = s[:len(s)-1]
			case 3:
				s[1] = []int{0, 2, 3}[r.IntN(3)]
			case 4:
				s[0], s[len(s)-1] = 3, 3 // first / last signer are not checked by the preparator
			case 5:
				a = [][]int{{}, {100 + nk, 100 + nk}, {1}, {100 + nk + 1}, {100 + nk - 1}, {100}}[r.IntN(6)]
			case 6:
				w[0] = []int{10, 2, 22, 1}[r.IntN(4)]
			case 7:
				w[1] = []int{0, 2, 20, 22}[r.IntN(4)]
			case 8:
				w[len(w)-1] = []int{20, 1, 2, 11}[r.IntN(4)]
			case 9:
				if inv {
					w[2] = []int{0, 20, 2}[r.IntN(3)]
				}
			case 10:
				fa = [][]int{{3, 1}, {3, 1, 2, 2}, {3, 2, 2}, {1, 1, 3}, {}}[r.IntN(5)]
			case 11:
				h = []int{99, 100, 101, 5000}[r.IntN(4)]
			case 12:
				local = 1
			case 13:
				dup = 1
			case 14:
				tail = 1
			case 15:
				ir = 0
			}
		}
		nc := []int{1, 1, 1, 1, 2, 2, 2, 2, 2, 3, 3, 0}[r.IntN(12)]
		var calls []irCall
		for p := 0; p < nc; p++ {
			first := -1
			if p > 0 {
				first = calls[0].method
			}
			cl := irGenCall(c, p, first)
			calls = append(calls, cl)
		}
		for p := range calls {
			if irCraftable(p, calls[0].method, calls[p]) && r.IntN(4) > 0 {
				calls[p].valid = true
			}
		}
		sb := fmt.Sprintf("ir notary alpha=%d ir=%d w=%s s=%s a=%s fa=%s nvb=%d h=%d local=%d dup=%d tail=%d",
			alpha, ir, joinInts(w), joinInts(s), joinInts(a), joinInts(fa), nvb, h, local, dup, tail)
		for p, cl := range calls {
			sb += fmt.Sprintf(" c%d=%s", p+1, irCallStr(cl))
		}
		ops = append(ops, sb)
	}
	run(ops)
}
