package main

import (
	"fmt"
	"os"
	"regexp"
	"sort"
	"strings"

	"github.com/nspcc-dev/neofs-node/pkg/local_object_storage/engine"
	meta "github.com/nspcc-dev/neofs-node/pkg/local_object_storage/metabase"
	"github.com/nspcc-dev/neofs-node/pkg/local_object_storage/shard"
	"github.com/nspcc-dev/neofs-sdk-go/object"
	oid "github.com/nspcc-dev/neofs-sdk-go/object/id"
)

// Engine "gc" (C44): histories on a real shard inside a real engine (so that expired objects go through
// StorageEngine.processExpiredObjects), with synchronous removeGarbage passes and remover batch sizes 1..3,
// against Model/GC.lean (gcPass over the metabase model + blob set).
func init() {
	engines["gc"] = seqRunner{gen: gcGen, exec: gcExec}.engine()
}

type gcWorld struct {
	dir   string
	eng   *engine.StorageEngine
	sh    *shard.Shard
	epoch *epochSrc
}

func newGCWorld(batch int) *gcWorld {
	w := &gcWorld{dir: scratchDir("gc"), epoch: &epochSrc{}}
	var ids = make([]string, 0)
	_ = ids
	e, sids := newEngine(w.dir, 1, shardCfg{epoch: w.epoch, extra: []shard.Option{
		shard.WithRemoverBatchSize(batch), shard.WithContainerPayments(&payFake{disabled: true})}})
	w.eng = e
	w.sh = e.VerifShard(sids[0])
	return w
}

func (w *gcWorld) close() {
	if w.eng != nil {
		w.eng.Close()
	}
	os.RemoveAll(w.dir)
}

type gcView struct {
	idx, garb, dead, cnrs, blobs []string
	phy                          map[string]bool
}

func (w *gcWorld) view() gcView {
	v := gcView{phy: map[string]bool{}}
	bs, err := w.sh.VerifMetabase().VerifDump()
	if err != nil {
		v.idx = []string{"ERR"}
	}
	sort.Slice(bs, func(i, j int) bool { return cidNum(bs[i].Container) < cidNum(bs[j].Container) })
	for _, b := range bs {
		cn := cidNum(b.Container)
		v.cnrs = append(v.cnrs, fmt.Sprint(cn))
		if b.Dead {
			v.dead = append(v.dead, fmt.Sprint(cn))
		}
		for i, id := range b.IDs {
			a := fmt.Sprintf("%d/%d", cn, oidNum(id))
			if b.Phy[i] {
				v.idx = append(v.idx, a)
				v.phy[a] = true
			} else {
				v.idx = append(v.idx, a+"v")
			}
		}
		for _, id := range b.Garbage {
			v.garb = append(v.garb, fmt.Sprintf("%d/%d", cn, oidNum(id)))
		}
	}
	addrs, err := w.sh.VerifBlobAddresses()
	if err != nil {
		v.blobs = []string{"ERR"}
	}
	sort.Slice(addrs, func(i, j int) bool {
		a, b := addrs[i], addrs[j]
		if ca, cb := cidNum(a.Container()), cidNum(b.Container()); ca != cb {
			return ca < cb
		}
		return oidNum(a.Object()) < oidNum(b.Object())
	})
	for _, a := range addrs {
		v.blobs = append(v.blobs, fmt.Sprintf("%d/%d", cidNum(a.Container()), oidNum(a.Object())))
	}
	return v
}

func (v gcView) String() string {
	j := func(xs []string) string {
		if len(xs) == 0 {
			return "-"
		}
		return strings.Join(xs, ",")
	}
	return fmt.Sprintf("idx=%s garb=%s dead=%s cnrs=%s blobs=%s", j(v.idx), j(v.garb), j(v.dead), j(v.cnrs), j(v.blobs))
}

func gcExec(c *runCtx, ops []string) {
	var w *gcWorld
	defer func() {
		if w != nil {
			w.close()
		}
	}()
	var last string
	same := 0
	dirty := false // a history op happened since the last epoch advance
	var lastEpoch uint64
	for _, line := range ops {
		o := parseOp(line)
		c.count(o.name)
		if o.name == "init" {
			if w != nil {
				w.close()
			}
			w = newGCWorld(o.int("batch"))
			lastEpoch, dirty = 0, false
			c.emit(line, "=> ok")
			continue
		}
		if w == nil {
			c.emit(line, "=> bad-op")
			continue
		}
		var res string
		switch o.name {
		case "put":
			err := w.sh.Put(buildChainObj(o.int("c"), o), nil)
			res = "=> " + metaErrClass(err)
			c.count("put:" + metaErrClass(err))
			dirty = true
		case "mark":
			dirty = true
			err := w.sh.MarkGarbage(numCID(o.int("c")), idList(o.ints("ids")), meta.GarbageMark(o.int("red")))
			res = "=> " + metaErrClass(err)
		case "inhumecnr":
			dirty = true
			res = "=> " + metaErrClass(w.sh.InhumeContainer(numCID(o.int("c"))))
		case "epoch":
			w.epoch.e.Store(o.u64("e"))
			w.sh.VerifHandleNewEpoch(o.u64("e"))
			res = "=> ok"
			if o.u64("e") > lastEpoch { // "with epochs advancing": a repeated announcement of the same epoch is no advance
				dirty = false
			}
			lastEpoch = max(lastEpoch, o.u64("e"))
		case "gc":
			w.sh.VerifRemoveGarbage()
			res = "=> ok"
		default:
			c.emit(line, "=> bad-op")
			continue
		}
		v := w.view()
		vs := v.String()
		if o.name == "gc" && vs == last {
			same++
		} else {
			same = 0
		}
		last = vs
		c.emit(line, res+" "+vs)
		if o.name == "gc" && same >= 2 && !dirty {
			// property oracle at quiescence (three passes in a row changed nothing): everything that should be
			// removed is gone from the metadata and from the blob storage
			c.oracle("quiescent-gc-left-no-garbage-mark", len(v.garb) == 0, "garbage marks left: "+strings.Join(v.garb, ","))
			c.oracle("quiescent-gc-left-no-removed-container", len(v.dead) == 0, "removed containers left: "+strings.Join(v.dead, ","))
			var orphan []string
			for _, b := range v.blobs {
				if !v.phy[b] {
					orphan = append(orphan, b)
				}
			}
			c.oracle("quiescent-gc-left-no-blob-without-metadata", len(orphan) == 0, "blobs without a physical index entry: "+strings.Join(orphan, ","))
			var exp []string
			_ = w.sh.VerifMetabase().IterateExpired(w.epoch.CurrentEpoch(), func(a oid.Address, _ object.Type) error {
				exp = append(exp, fmt.Sprintf("%d/%d", cidNum(a.Container()), oidNum(a.Object())))
				return nil
			})
			c.oracle("quiescent-gc-left-no-expired-unlocked-object", len(exp) == 0, "expired unlocked objects left: "+strings.Join(exp, ","))
		}
	}
	if len(ops) > 8 {
		c.nontrivial(strings.Join(ops, ";"))
	}
}

var gcStripExp = regexp.MustCompile(` (p\.|g\.)?exp=[0-9a-f]*_`)

func gcGen(c *runCtx, run func([]string)) {
	nseq := c.n(120, 6000)
	for s := 0; s < nseq; s++ {
		g := newMetaGenState(c)
		batch := 1 + c.rng.IntN(3)
		ops := []string{fmt.Sprintf("gc init batch=%d", batch)}
		n := 8 + c.rng.IntN(22)
		cur := 0 // epochs only advance ("with epochs advancing")
		for i := 0; i < n; i++ {
			var line string
			switch k := c.rng.IntN(100); {
			case k < 12:
				line = "gc gc"
			default:
				line = g.op()
				if strings.HasPrefix(line, "meta delete") || strings.HasPrefix(line, "meta revive") || strings.HasPrefix(line, "meta delcnr") {
					line = "gc gc"
				}
				line = "gc" + strings.TrimPrefix(strings.TrimPrefix(line, "gc"), "meta")
				if strings.HasPrefix(line, "gc epoch") {
					if e := parseOp(line).int("e"); e > cur {
						cur = e
					}
					line = fmt.Sprintf("gc epoch e=%d", cur)
				}
			}
			// expirations only on unsplit objects: the engine's handling of expired split parents (children
			// collected through link objects) is outside the model
			if strings.Contains(line, " put ") && (strings.Contains(line, "first=") || strings.Contains(line, "split=") ||
				strings.Contains(line, "p.id=") || strings.Contains(line, "ec=") || strings.Contains(line, "par=")) {
				line = gcStripExp.ReplaceAllString(line, "")
			}
			ops = append(ops, line)
		}
		// epochs advance past every expiration, GC runs until quiescence
		e := max(11, cur+1)
		for i := 0; i < 3; i++ {
			ops = append(ops, fmt.Sprintf("gc epoch e=%d", e))
			e += 1 + c.rng.IntN(2)
			for j := 0; j < 14; j++ {
				ops = append(ops, "gc gc")
			}
		}
		run(ops)
	}
}
