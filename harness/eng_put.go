package main

import (
	"errors"
	"fmt"
	"runtime"
	"sort"
	"strconv"
	"strings"
	"sync"
	"sync/atomic"
	"time"

	"github.com/nspcc-dev/neo-go/pkg/crypto/keys"
	putsvc "github.com/nspcc-dev/neofs-node/pkg/services/object/put"
	"github.com/nspcc-dev/neofs-node/pkg/util/verifbridge"
	"github.com/nspcc-dev/neofs-node/pkg/util/verifhook"
	apistatus "github.com/nspcc-dev/neofs-sdk-go/client/status"
	neofsecdsa "github.com/nspcc-dev/neofs-sdk-go/crypto/ecdsa"
	"github.com/nspcc-dev/neofs-sdk-go/netmap"
	"github.com/nspcc-dev/neofs-sdk-go/object"
	"github.com/nspcc-dev/neofs-sdk-go/user"
)

// Engine "put" (C25): runs the real distributedTarget.saveObject (placement iteration,
// REP rule counting, broadcast objects, EC rules and EC parts, initial policy limits)
// with scripted nodes and compares verdict + asked/acknowledging nodes with Model/Put.lean.
//
// op line:  put save typ=T rep=… ec=… lists=… local=L signer=S part=P init=I lim=… max=M pl=B fail=… sched=…
//
//	typ    0 regular, 1 tombstone, 2 lock, 3 link
//	rep    copies per REP rule; ec: d*100+p per EC rule; lists: node lists (one per rule, REP first) separated by 0
//	local  the local node (0 = in no list); signer 1 = node-side slicing (session signer present), 0 = sealed object
//	part   "-" or ruleIdx,partIdx (the object is an already encoded EC part)
//	init   1 = initial placement policy present with lim (replica limits), max (MaxReplicas), pl (PreferLocal)
//	fail   nodes that answer with an error; sched: model-side schedule seed (the implementation runs real goroutines)
//
// op line:  put ecrace <the fields of save> trials=N — the same case under FORCED interleavings of the EC part
// routines (ecRendezvous: hook points put.ec.applyRule / put.ec.beforeTryNode), N times; one observation: the verdict
// of every interleaving (the model runs the lock-step schedule), or "interleaving-dependent …" if the trials differ.
func init() {
	engines["put"] = seqRunner{gen: putGen, exec: putExec}.engine()
}

var putKey = func() *keys.PrivateKey {
	b := make([]byte, 32)
	b[31] = 7
	b[0] = 3
	k, err := keys.NewPrivateKeyFromBytes(b)
	if err != nil {
		panic(err)
	}
	return k
}()

func putNodeKey(k int) []byte { return []byte(fmt.Sprintf("node-%03d", k)) }

func putNodeNum(pk []byte) int {
	n, err := strconv.Atoi(strings.TrimPrefix(string(pk), "node-"))
	if err != nil {
		return -1
	}
	return n
}

func splitLists(xs []int) [][]int {
	var out [][]int
	cur := []int{}
	for _, x := range xs {
		if x == 0 {
			out = append(out, cur)
			cur = []int{}
			continue
		}
		cur = append(cur, x)
	}
	return append(out, cur)
}

func joinLists(ls [][]int) string {
	var parts []string
	for _, l := range ls {
		for _, x := range l {
			parts = append(parts, strconv.Itoa(x))
		}
		parts = append(parts, "0")
	}
	if len(parts) > 0 {
		parts = parts[:len(parts)-1]
	}
	if len(parts) == 0 {
		return "-"
	}
	return strings.Join(parts, ",")
}

type putCase struct {
	typ    int
	rep    []int
	ec     []int
	lists  [][]int
	local  int
	signer bool
	part   []int
	init   bool
	lim    []int
	max    int
	pl     bool
	fail   []int
	sched  int
}

func (p putCase) line() string {
	b := func(x bool) int {
		if x {
			return 1
		}
		return 0
	}
	return fmt.Sprintf("put save typ=%d rep=%s ec=%s lists=%s local=%d signer=%d part=%s init=%d lim=%s max=%d pl=%d fail=%s sched=%d",
		p.typ, joinInts(p.rep), joinInts(p.ec), joinLists(p.lists), p.local, b(p.signer), joinInts(p.part), b(p.init), joinInts(p.lim), p.max, b(p.pl),
		joinInts(p.fail), p.sched)
}

func parsePutCase(o opLine) putCase {
	return putCase{typ: o.int("typ"), rep: o.ints("rep"), ec: o.ints("ec"), lists: splitLists(o.ints("lists")), local: o.int("local"),
		signer: o.int("signer") == 1, part: o.ints("part"), init: o.int("init") == 1, lim: o.ints("lim"), max: o.int("max"), pl: o.int("pl") == 1,
		fail: o.ints("fail"), sched: o.int("sched")}
}

type ecAck struct{ rule, part, node int }

type putLog struct {
	mu       sync.Mutex
	asked    []int
	acks     []int
	ecAsked  []ecAck
	ecAcks   []ecAck
	postN    int
	twice    bool
	ecTwice  bool
	seenMain map[int]bool
}

func putExec(c *runCtx, ops []string) {
	c.independent = true
	for _, line := range ops {
		o := parseOp(line)
		c.count(o.name)
		switch o.name {
		case "save":
			putSave(c, line, parsePutCase(o))
		case "ecrace":
			putECRace(c, line, parsePutCase(o), o.int("trials"))
		default:
			c.emit(line, "=> bad-op")
		}
	}
}

func ecAttrInt(obj *object.Object, key string) int {
	for _, a := range obj.Attributes() {
		if a.Key() == key {
			v, err := strconv.Atoi(a.Value())
			if err != nil {
				return -1
			}
			return v
		}
	}
	return -1
}

func putSave(c *runCtx, line string, p putCase) {
	if len(p.lists) != len(p.rep)+len(p.ec) {
		c.emit(line, "=> bad-op")
		return
	}
	verdict, lg, obs := putOnce(p, line, nil)
	c.count("verdict:" + verdict)
	c.emit(line, obs)
	putOracle(c, p, lg, verdict)
	if len(lg.asked)+len(lg.ecAsked) > 1 && len(p.fail) > 0 {
		c.nontrivial(line)
	}
}

// putOnce runs the real saveObject once for the case and returns the verdict, the recorded sends and the
// canonical observation. sendHook (optional) runs at the start of every scripted node's answer.
func putOnce(p putCase, line string, sendHook func(ok bool)) (string, *putLog, string) {
	vc := &putsvc.VerifPutCase{}
	for _, r := range p.rep {
		vc.Rep = append(vc.Rep, uint(r))
	}
	for _, e := range p.ec {
		vc.EC = append(vc.EC, verifbridge.ECRule{DataPartNum: uint8(e / 100), ParityPartNum: uint8(e % 100)})
	}
	for _, l := range p.lists {
		ns := make([]netmap.NodeInfo, len(l))
		for j, k := range l {
			ns[j].SetPublicKey(putNodeKey(k))
			ns[j].SetNetworkEndpoints("localhost:" + strconv.Itoa(10000+k))
		}
		vc.Lists = append(vc.Lists, ns)
	}
	if p.local > 0 {
		vc.LocalKey = putNodeKey(p.local)
	}
	if p.signer {
		vc.SessionSigner = user.NewAutoIDSigner(putKey.PrivateKey)
	}
	vc.NodeSigner = (*neofsecdsa.Signer)(&putKey.PrivateKey)
	vc.ECPart.RuleIndex, vc.ECPart.Index = -1, -1
	if len(p.part) == 2 {
		vc.ECPart.RuleIndex, vc.ECPart.Index = p.part[0], p.part[1]
	}
	if p.init {
		var ip netmap.InitialPlacementPolicy
		lim := make([]uint32, len(p.lim))
		for i, x := range p.lim {
			lim[i] = uint32(x)
		}
		if len(lim) > 0 {
			ip.SetReplicaLimits(lim)
		}
		ip.SetMaxReplicas(uint32(p.max))
		ip.SetPreferLocal(p.pl)
		vc.Initial = &ip
	}
	payload := detPayload(37, len(line))
	if p.typ == 1 || p.typ == 2 {
		payload = nil
	}
	obj := mkObject(1, 1, payload)
	switch p.typ {
	case 1:
		obj.SetType(object.TypeTombstone)
		obj.AssociateDeleted(numOID(2))
	case 2:
		obj.SetType(object.TypeLock)
		obj.AssociateLocked(numOID(2))
	case 3:
		obj.SetType(object.TypeLink)
	}
	obj.ResetID()
	if err := obj.CalculateAndSetID(); err != nil {
		panic(err)
	}
	vc.Obj = *obj

	failing := map[int]bool{}
	for _, f := range p.fail {
		failing[f] = true
	}
	lg := &putLog{seenMain: map[int]bool{}}
	vc.Send = func(local bool, nodeKey []byte, o *object.Object) error {
		n := putNodeNum(nodeKey)
		ok := !failing[n]
		if sendHook != nil {
			sendHook(ok)
		}
		lg.mu.Lock()
		defer lg.mu.Unlock()
		if local != (n == p.local) {
			lg.twice = true // local flag and node identity disagree
		}
		r, pi := ecAttrInt(o, "__NEOFS__EC_RULE_IDX"), ecAttrInt(o, "__NEOFS__EC_PART_IDX")
		if len(p.part) != 2 && r >= 0 && pi >= 0 {
			for _, a := range lg.ecAsked {
				if a.rule == r && a.node == n {
					lg.ecTwice = true // two parts of one rule reserved the same node
				}
			}
			lg.ecAsked = append(lg.ecAsked, ecAck{r, pi, n})
			if ok {
				lg.ecAcks = append(lg.ecAcks, ecAck{r, pi, n})
			}
		} else {
			if lg.seenMain[n] {
				lg.twice = true
			}
			lg.seenMain[n] = true
			lg.asked = append(lg.asked, n)
			if ok {
				lg.acks = append(lg.acks, n)
			}
		}
		if !ok {
			return errors.New("scripted node failure")
		}
		return nil
	}
	vc.Post = func(*object.Object, []netmap.NodeInfo) {
		lg.mu.Lock()
		lg.postN++
		lg.mu.Unlock()
	}

	verdict := "ok"
	func() {
		defer func() {
			if r := recover(); r != nil {
				verdict = "panic"
			}
		}()
		err := putsvc.VerifSaveObject(vc)
		switch {
		case err == nil:
		case errors.Is(err, apistatus.ErrIncomplete):
			verdict = "incomplete"
		default:
			verdict = "err"
		}
	}()
	sort.Ints(lg.asked)
	sort.Ints(lg.acks)

	// EC rules whose every part was acknowledged
	var ecDone []int
	for j, e := range p.ec {
		total := e/100 + e%100
		got := map[int]bool{}
		for _, a := range lg.ecAcks {
			if a.rule == j {
				got[a.part] = true
			}
		}
		if len(got) == total && total > 0 {
			ecDone = append(ecDone, j)
		}
	}
	obs := "=> " + verdict
	if verdict != "panic" {
		obs += " asked=" + joinInts(lg.asked) + " acks=" + joinInts(lg.acks)
		if verdict == "ok" {
			obs += " ec=" + joinInts(ecDone)
		}
	}
	return verdict, lg, obs
}

func distinctIn(list []int, acks []int) int {
	in := map[int]bool{}
	for _, a := range acks {
		in[a] = true
	}
	seen := map[int]bool{}
	n := 0
	for _, x := range list {
		if in[x] && !seen[x] {
			seen[x] = true
			n++
		}
	}
	return n
}

// putOracle evaluates the property on the recorded acknowledgements.
func putOracle(c *runCtx, p putCase, lg *putLog, verdict string) {
	detail := fmt.Sprintf("verdict=%s asked=%v acks=%v ecAcks=%v", verdict, lg.asked, lg.acks, lg.ecAcks)
	c.oracle("no-panic", verdict != "panic", detail)
	c.oracle("node-asked-once-per-object", !lg.twice, detail)
	c.oracle("ec-node-reserved-by-one-part-of-a-rule", !lg.ecTwice, fmt.Sprintf("ecAsked=%v %s", lg.ecAsked, detail))
	if verdict != "ok" {
		return
	}
	broadcastTyp := p.typ != 0
	nrep := len(p.rep)
	capped := p.init && p.max > 0
	limited := p.init && len(p.lim) > 0
	if len(p.part) == 2 { // an EC part object: one acknowledgement from a node of its rule's list
		if limited && nrep+p.part[0] < len(p.lim) && p.lim[nrep+p.part[0]] == 0 {
			c.oracle("ecpart-deferred-to-post-placement", lg.postN > 0 || len(p.lists[nrep+p.part[0]]) == 0, detail)
			return
		}
		c.oracle("ecpart-acknowledged-by-a-node-of-its-list", distinctIn(p.lists[nrep+p.part[0]], lg.acks) >= 1, detail)
		return
	}
	if broadcastTyp {
		for i := range p.lists {
			need := 0
			if i < nrep {
				need = p.rep[i]
			} else {
				need = p.ec[i-nrep]/100 + p.ec[i-nrep]%100
			}
			c.oracle("rep-rule-copies-acknowledged", distinctIn(p.lists[i], lg.acks) >= need, fmt.Sprintf("list=%d need=%d %s", i, need, detail))
		}
		return
	}
	// regular object
	total := 0
	for i := 0; i < nrep; i++ {
		need := p.rep[i]
		if limited && i < len(p.lim) {
			need = p.lim[i]
		}
		got := distinctIn(p.lists[i], lg.acks)
		if !capped {
			c.oracle("rep-rule-copies-acknowledged", got >= need, fmt.Sprintf("list=%d need=%d %s", i, need, detail))
		}
		total += min(got, need)
	}
	ecApplied := 0
	if p.signer {
		for j, e := range p.ec {
			tot := e/100 + e%100
			disabled := limited && nrep+j < len(p.lim) && p.lim[nrep+j] == 0
			parts := map[int][]int{}
			nodes := map[int]int{}
			for _, a := range lg.ecAcks {
				if a.rule == j {
					parts[a.part] = append(parts[a.part], a.node)
					nodes[a.node]++
				}
			}
			full := len(parts) == tot
			if full {
				ecApplied++
			}
			if !capped && !disabled {
				c.oracle("ec-rule-all-parts-acknowledged", full, fmt.Sprintf("rule=%d %s", j, detail))
			}
			if full {
				okNodes := true
				for part, ns := range parts {
					okNodes = okNodes && len(ns) == 1 && part < tot
				}
				for n, k := range nodes {
					okNodes = okNodes && k == 1 && inList(p.lists[nrep+j], n)
				}
				c.oracle("ec-rule-parts-on-distinct-nodes-of-its-list", okNodes, fmt.Sprintf("rule=%d list=%v %s", j, p.lists[nrep+j], detail))
			}
		}
	}
	if capped {
		// the total cap is reached unless the enabled limits cannot add up to it
		sum := 0
		for i := 0; i < nrep; i++ {
			if limited && i < len(p.lim) {
				sum += p.lim[i]
			} else {
				sum += p.rep[i]
			}
		}
		if p.signer {
			for j := range p.ec {
				if limited && nrep+j < len(p.lim) {
					sum += p.lim[nrep+j]
				} else {
					sum++
				}
			}
		}
		c.oracle("max-replicas-not-exceeded", len(lg.acks)+ecApplied <= p.max, fmt.Sprintf("max=%d acks=%d ec=%d %s", p.max, len(lg.acks), ecApplied, detail))
		c.oracle("max-replicas-reached", total+ecApplied >= min(p.max, sum), fmt.Sprintf("max=%d limits-sum=%d counted=%d %s", p.max, sum, total+ecApplied, detail))
	}
}

// ---- generation ----

func putGen(c *runCtx, run func([]string)) {
	var ops []string
	add := func(p putCase) { ops = append(ops, p.line()) }
	U := 7
	randList := func(n int) []int {
		perm := c.rng.Perm(U)
		l := make([]int, n)
		for i := range l {
			l[i] = perm[i] + 1
		}
		return l
	}
	randFail := func() []int {
		var f []int
		mode := c.rng.IntN(4)
		for k := 1; k <= U; k++ {
			switch mode {
			case 0:
				if c.rng.IntN(4) == 0 {
					f = append(f, k)
				}
			case 1:
				if c.rng.IntN(2) == 0 {
					f = append(f, k)
				}
			case 2:
				if c.rng.IntN(4) != 0 {
					f = append(f, k)
				}
			}
		}
		return f
	}
	// 1. REP rules only: 1–3 vectors × 1–6 nodes × copies 1–4, every object type, local anywhere; all failure tables for small universes
	for i := 0; i < c.n(700, 20000); i++ {
		nv := 1 + c.rng.IntN(3)
		p := putCase{typ: c.rng.IntN(4), local: c.rng.IntN(U + 1), signer: c.rng.IntN(2) == 0, sched: c.rng.IntN(1000)}
		if c.rng.IntN(3) > 0 {
			p.typ = 0
		}
		for v := 0; v < nv; v++ {
			n := 1 + c.rng.IntN(6)
			p.lists = append(p.lists, randList(n))
			p.rep = append(p.rep, 1+c.rng.IntN(4))
		}
		if i%5 == 0 { // exhaustive failure tables over the nodes in use (≤ 2^7)
			used := map[int]bool{}
			for _, l := range p.lists {
				for _, x := range l {
					used[x] = true
				}
			}
			var us []int
			for k := 1; k <= U; k++ {
				if used[k] {
					us = append(us, k)
				}
			}
			if len(us) <= 5 || c.thorough() {
				for m := 0; m < 1<<len(us); m++ {
					q := p
					q.fail = nil
					for b, k := range us {
						if m>>b&1 == 1 {
							q.fail = append(q.fail, k)
						}
					}
					add(q)
				}
				continue
			}
		}
		p.fail = randFail()
		add(p)
	}
	ecRules := []int{101, 201, 202, 301, 102}
	// 2. EC rules (node-side slicing), EC + REP mixes, broadcast objects in EC containers, ready EC parts
	for i := 0; i < c.n(500, 12000); i++ {
		p := putCase{local: c.rng.IntN(U + 1), signer: true, sched: c.rng.IntN(1000)}
		nrep := c.rng.IntN(3)
		if c.rng.IntN(2) == 0 {
			nrep = 0
		}
		for v := 0; v < nrep; v++ {
			p.lists = append(p.lists, randList(1+c.rng.IntN(5)))
			p.rep = append(p.rep, 1+c.rng.IntN(3))
		}
		nec := 1 + c.rng.IntN(2)
		for v := 0; v < nec; v++ {
			e := ecRules[c.rng.IntN(len(ecRules))]
			if v > 0 && c.rng.IntN(3) == 0 {
				e = p.ec[0] // a repeated rule
			}
			p.ec = append(p.ec, e)
			tot := e/100 + e%100
			n := tot + c.rng.IntN(3)
			if c.rng.IntN(6) == 0 && tot > 1 {
				n = tot - 1
			}
			p.lists = append(p.lists, randList(min(n, U)))
		}
		switch c.rng.IntN(6) {
		case 0:
			p.typ = 1 + c.rng.IntN(3)
		case 1, 2:
			j := c.rng.IntN(nec)
			p.part = []int{j, c.rng.IntN(p.ec[j]/100 + p.ec[j]%100)}
			p.signer = false
		case 3:
			if nrep > 0 {
				p.signer = false // sealed object in a REP+EC container: REP rules only
			}
		}
		p.fail = randFail()
		add(p)
	}
	// 3. initial placement policies: limits, total caps, local preference
	for i := 0; i < c.n(600, 15000); i++ {
		p := putCase{local: c.rng.IntN(U + 1), signer: c.rng.IntN(2) == 0, sched: c.rng.IntN(1000), init: true}
		nrep := 1 + c.rng.IntN(3)
		for v := 0; v < nrep; v++ {
			p.lists = append(p.lists, randList(1+c.rng.IntN(6)))
			p.rep = append(p.rep, 1+c.rng.IntN(4))
		}
		nec := 0
		if p.signer && c.rng.IntN(3) == 0 {
			nec = 1 + c.rng.IntN(2)
		}
		for v := 0; v < nec; v++ {
			e := ecRules[c.rng.IntN(len(ecRules))]
			p.ec = append(p.ec, e)
			p.lists = append(p.lists, randList(min(e/100+e%100+c.rng.IntN(2), U)))
		}
		sum := 0
		if c.rng.IntN(3) > 0 {
			for v := 0; v < nrep; v++ {
				p.lim = append(p.lim, c.rng.IntN(p.rep[v]+1))
			}
			for v := 0; v < nec; v++ {
				p.lim = append(p.lim, c.rng.IntN(2))
			}
			for _, x := range p.lim {
				sum += x
			}
		} else {
			for _, x := range p.rep {
				sum += x
			}
			sum += nec
		}
		if c.rng.IntN(4) > 0 && sum > 0 {
			p.max = 1 + c.rng.IntN(sum)
			p.pl = c.rng.IntN(2) == 0
		}
		if c.rng.IntN(8) == 0 && nec > 0 {
			j := c.rng.IntN(nec)
			p.part = []int{j, c.rng.IntN(p.ec[j]/100 + p.ec[j]%100)}
			p.signer = false
		}
		p.fail = randFail()
		add(p)
	}
	// 4. forced interleavings of the EC part routines: several parts find their own node column refusing at the
	// same moment and go for the same reserve nodes (with and without enough good nodes for every part)
	for i := 0; i < c.n(80, 600); i++ {
		p := putCase{local: c.rng.IntN(U + 1), signer: true, sched: c.rng.IntN(1000)}
		if c.rng.IntN(4) == 0 {
			p.lists = append(p.lists, randList(1+c.rng.IntN(4)))
			p.rep = append(p.rep, 1)
		}
		e := ecRules[c.rng.IntN(len(ecRules))]
		tot := e/100 + e%100
		l := randList(min(tot+1+c.rng.IntN(3), U))
		p.ec = append(p.ec, e)
		p.lists = append(p.lists, l)
		// two or more of the parts' first nodes refuse; the reserve nodes mostly accept
		first := c.rng.Perm(tot)
		for _, k := range first[:min(tot, 2+c.rng.IntN(2))] {
			p.fail = append(p.fail, l[k])
		}
		for _, n := range l[tot:] {
			if c.rng.IntN(5) == 0 {
				p.fail = append(p.fail, n)
			}
		}
		sort.Ints(p.fail)
		ops = append(ops, strings.Replace(p.line(), "put save ", "put ecrace ", 1)+fmt.Sprintf(" trials=%d", c.n(40, 80)))
	}
	run(ops)
}

// ---- forced interleavings of the EC part routines (op ecrace) ----

// ecRendezvous lines the part routines of ONE applyECRule call up at the moments the reservation of a node
// (ecProgress.canTryNode) can be contended: (1) the first answers of the nodes arrive together (a refusing
// node answers only when every part has sent its first request), (2) the first routine that is about to
// reserve node #i (point put.ec.beforeTryNode) waits a moment for a second routine going for the same node;
// both are then released together. Everything is bounded by short timeouts, so no schedule can block.
type ecRendezvous struct {
	mu    sync.Mutex
	parts int
	sent  atomic.Int32
	state map[int]int // node index: 0 nobody yet, 1 a routine is waiting, 2 passed
	flag  map[int]*atomic.Int64
	met   int // rendezvous that took place (two routines released together)
}

var rvBase = time.Now()

func rvNanos() int64 { return int64(time.Since(rvBase)) }

// spinUntil busy-waits for cond (checking the deadline now and then); false = timed out
func spinUntil(cond func() bool, d time.Duration) bool {
	deadline := time.Now().Add(d)
	for i := 0; !cond(); i++ {
		if i%64 == 63 {
			if time.Now().After(deadline) {
				return false
			}
			runtime.Gosched()
		}
	}
	return true
}

func (r *ecRendezvous) pointN(name string, n int) {
	switch name {
	case "put.ec.applyRule":
		r.mu.Lock()
		r.parts = n
		r.sent.Store(0)
		r.state = map[int]int{}
		r.flag = map[int]*atomic.Int64{}
		r.mu.Unlock()
	case "put.ec.beforeTryNode":
		r.mu.Lock()
		if r.state == nil { // a ready EC part (no shared progress): nothing to line up
			r.mu.Unlock()
			return
		}
		var goAt int64
		switch r.state[n] {
		case 0: // the first routine going for node #n: wait a moment for a second one
			f := new(atomic.Int64)
			r.state[n], r.flag[n] = 1, f
			r.mu.Unlock()
			if !spinUntil(func() bool { return f.Load() != 0 }, 300*time.Microsecond) {
				r.mu.Lock()
				if r.state[n] == 1 {
					r.state[n] = 2
				}
				r.mu.Unlock()
			}
			goAt = f.Load()
		case 1: // the second one: both leave at the same instant
			r.state[n] = 2
			r.met++
			f := r.flag[n]
			r.mu.Unlock()
			goAt = rvNanos() + 3000
			f.Store(goAt)
		default:
			r.mu.Unlock()
		}
		for goAt != 0 && rvNanos() < goAt {
		}
	}
}

// sendHook: refusing nodes answer together, once every part routine has sent a request
func (r *ecRendezvous) sendHook(ok bool) {
	r.mu.Lock()
	parts := int32(r.parts)
	r.mu.Unlock()
	if parts == 0 {
		return
	}
	r.sent.Add(1)
	if !ok {
		spinUntil(func() bool { return r.sent.Load() >= parts }, time.Millisecond)
	}
}

// putECRace runs the case `trials` times with the part routines lined up by ecRendezvous. Every trial must give
// the same observation (the model gives the verdict of every interleaving) and meet the property's oracle.
func putECRace(c *runCtx, line string, p putCase, trials int) {
	if len(p.lists) != len(p.rep)+len(p.ec) || trials < 1 || trials > 1000 {
		c.emit(line, "=> bad-op")
		return
	}
	type trial struct {
		verdict string
		lg      *putLog
		obs     string
	}
	var ts []trial
	distinct := map[string]bool{}
	met := 0
	for i := 0; i < trials; i++ {
		rv := &ecRendezvous{}
		verifhook.SetPointN(rv.pointN)
		v, lg, obs := putOnce(p, line, rv.sendHook)
		verifhook.SetPointN(nil)
		met += rv.met
		ts = append(ts, trial{v, lg, obs})
		distinct[obs] = true
	}
	c.hist["ecrace-rendezvous"] += met
	var all []string
	for o := range distinct {
		all = append(all, o)
	}
	sort.Strings(all)
	obs := all[0]
	if len(all) > 1 {
		obs = "=> interleaving-dependent " + strings.ReplaceAll(strings.Join(all, " | "), "=> ", "")
	}
	c.count("verdict:" + ts[0].verdict)
	c.emit(line, obs)
	for _, t := range ts {
		putOracle(c, p, t.lg, t.verdict)
	}
	if met > 0 {
		c.nontrivial(line)
	}
}
