package main

import (
	"errors"
	"fmt"
	"math/big"
	"strings"
	"sync/atomic"
	"time"

	"github.com/nspcc-dev/locode-db/pkg/locodedb"
	"github.com/nspcc-dev/neo-go/pkg/core/transaction"
	"github.com/nspcc-dev/neo-go/pkg/network/payload"
	"github.com/nspcc-dev/neo-go/pkg/util"
	netmaprpc "github.com/nspcc-dev/neofs-contract/rpc/netmap"
	irnetmap "github.com/nspcc-dev/neofs-node/pkg/innerring/processors/netmap"
	"github.com/nspcc-dev/neofs-node/pkg/innerring/processors/netmap/nodevalidation"
	irlocode "github.com/nspcc-dev/neofs-node/pkg/innerring/processors/netmap/nodevalidation/locode"
	"github.com/nspcc-dev/neofs-node/pkg/innerring/processors/netmap/nodevalidation/privatedomains"
	statevalidation "github.com/nspcc-dev/neofs-node/pkg/innerring/processors/netmap/nodevalidation/state"
	"github.com/nspcc-dev/neofs-node/pkg/innerring/processors/netmap/nodevalidation/structure"
	cntClient "github.com/nspcc-dev/neofs-node/pkg/morph/client/container"
	nmClient "github.com/nspcc-dev/neofs-node/pkg/morph/client/netmap"
	netmapEvent "github.com/nspcc-dev/neofs-node/pkg/morph/event/netmap"
	"github.com/nspcc-dev/neofs-sdk-go/netmap"
)

// Engine irn (C38): the REAL netmap processor of the inner ring (processAddNode,
// processUpdatePeer, processNewEpochTick, processNewEpoch) and the REAL CompositeValidator
// with the real state / structure / private-domains / locode validators (real locode DB; NNS,
// the availability probe and the external validator are answered by the op line) over the
// real morph client pointed at the in-process fake RPC endpoint.

func init() {
	engines["irn"] = seqRunner{gen: irnGen, exec: irnExec}.engine()
}

type irnState struct {
	fake      *irFake
	alpha     bool
	counter   atomic.Uint64
	resets    int
	nnsAns    int
	reach     bool
	ext       bool
	calls     int
	failed    int
	reqs      []int
	scripts   int
	epochProc *irnetmap.Processor
	nm        *nmClient.Client
	nmPlain   *nmClient.Client // over the client without notary support: NewEpoch arguments are visible
	cnr       *cntClient.Client
	nmHist    *nmClient.Client // as alphabet, for the ONE processor of a history
	// contract methods other than newEpoch invoked as notary requests since the last op
	otherInvokes int
	histFails    map[string]int
	hist         *irnHist // the history state of the running sequence (eng_irn_hist.go)
}

func (s *irnState) IsAlphabet() bool             { return s.alpha }
func (s *irnState) SetEpochCounter(v uint64)     { s.counter.Store(v) }
func (s *irnState) EpochCounter() uint64         { return s.counter.Load() }
func (s *irnState) SetEpochDuration(uint64)      {}
func (s *irnState) EpochDuration() time.Duration { return time.Hour }
func (s *irnState) ResetEpochTimer(uint32) error { s.resets++; return nil }
func (s *irnState) CheckDomainRecord(_, _ string) error {
	switch s.nnsAns {
	case 0:
		return nil
	case 1:
		return fmt.Errorf("wrapped: %w", privatedomains.ErrMissingDomainRecord)
	}
	return errors.New("nns unavailable")
}

// recording wrapper: which validator was called and which one failed first
type irnRec struct {
	s   *irnState
	idx int
	v   irnetmap.NodeValidator
}

func (r irnRec) Verify(n netmap.NodeInfo) error {
	r.s.calls++
	err := r.v.Verify(n)
	if err != nil && r.s.failed < 0 {
		r.s.failed = r.idx
	}
	return err
}

type irnOracle struct{ ok *bool }

func (o irnOracle) Verify(netmap.NodeInfo) error {
	if *o.ok {
		return nil
	}
	return errors.New("oracle says no")
}

var irnGlobal *irnState

func irnGet() *irnState {
	if irnGlobal != nil {
		return irnGlobal
	}
	s := &irnState{fake: ircGet().fake}
	var err error
	s.nm, err = nmClient.NewFromMorph(s.fake.cli, util.Uint160{9, 9, 9})
	if err != nil {
		panic(err)
	}
	s.nmPlain, err = nmClient.NewFromMorph(s.fake.cliPlain, util.Uint160{9, 9, 9})
	if err != nil {
		panic(err)
	}
	irnGlobal = s
	return s
}

func (s *irnState) validators(idx []int) irnetmap.NodeValidator {
	var vs []irnetmap.NodeValidator
	for pos, i := range idx {
		var v irnetmap.NodeValidator
		switch i {
		case 0:
			v = statevalidation.New()
		case 1:
			v = structure.New()
		case 2:
			v = irnOracle{&s.reach}
		case 3:
			v = privatedomains.New(s)
		case 4:
			v = irlocode.New()
		case 5:
			v = irnOracle{&s.ext}
		default:
			panic("bad validator index")
		}
		vs = append(vs, irnRec{s, pos, v})
	}
	return nodevalidation.New(vs...)
}

type irnNode struct {
	st                int
	addrs             []int
	attrs             []string
	dom, key, lc, lck bool
	lcf               []int
}

const irnLocode = "RU MOW"

func irnParseNode(o opLine) irnNode {
	n := irnNode{st: o.int("st"), addrs: o.ints("addrs"), dom: o.flag("dom"), key: o.flag("key"), lc: o.flag("lc"), lck: o.flag("lck"), lcf: o.ints("lcf")}
	if v := o.str("attrs"); v != "" {
		n.attrs = strings.Split(v, ",")
	}
	return n
}

func (n irnNode) endpoints(line string) []string {
	r := lineRng(line)
	var out []string
	for i, ok := range n.addrs {
		if ok == 1 {
			out = append(out, []string{fmt.Sprintf("/ip4/10.0.0.%d/tcp/8080", i+1), fmt.Sprintf("/dns4/node%d.example/tcp/8080/tls", i), fmt.Sprintf("/ip6/::%d/tcp/80", i+1)}[r.IntN(3)])
		} else {
			out = append(out, []string{"/ip4/1.2.3.4/udp/80", "/ip4/1.2.3.4", "/dns/node.example/tcp/8080", "/ip4/1.2.3.4/tcp/80/http"}[r.IntN(4)])
		}
	}
	return out
}

// locode-derived attributes: field i equals the database record iff lcf[i] == 1
func (n irnNode) locodeAttrs() [][2]string {
	if !n.lc {
		return nil
	}
	code := irnLocode
	if !n.lck {
		code = "ZZ QQQ"
	}
	rec, err := locodedb.Get(irnLocode)
	if err != nil {
		panic(err)
	}
	want := []string{irnLocode[:2], rec.Country, rec.Location, rec.Cont.String(), rec.SubDivCode, rec.SubDivName}
	keys := []string{"CountryCode", "Country", "Location", "Continent", "SubDivCode", "SubDiv"}
	out := [][2]string{{"UN-LOCODE", code}}
	for i, k := range keys {
		v := want[i]
		if i < len(n.lcf) && n.lcf[i] == 0 {
			v = "wrong-" + k
		}
		if v != "" {
			out = append(out, [2]string{k, v})
		}
	}
	return out
}

func (n irnNode) info(line string) netmap.NodeInfo {
	var ni netmap.NodeInfo
	ni.SetNetworkEndpoints(n.endpoints(line)...)
	var attrs [][2]string
	for _, k := range n.attrs {
		attrs = append(attrs, [2]string{k, "v"})
	}
	attrs = append(attrs, n.locodeAttrs()...)
	if n.dom {
		attrs = append(attrs, [2]string{"VerifiedNodesDomain", "nodes.example"})
	}
	ni.SetAttributes(attrs)
	if n.key {
		ni.SetPublicKey(ircPub(1))
	}
	switch n.st {
	case 1:
		ni.SetOnline()
	case 2:
		ni.SetOffline()
	case 3:
		ni.SetMaintenance()
	}
	return ni
}

func irnExec(c *runCtx, ops []string) {
	s := irnGet()
	// chain answers: IsValidScript of notary main transactions, recorded NewEpoch requests, the
	// contract's node list and the container list read by the new epoch handler (eng_irn_hist.go)
	s.fake.invokeScript = s.histInvokeScript
	prevFn := s.fake.invokeFunction
	s.fake.invokeFunction = s.histInvokeFunction
	s.fake.cli.VerifSetInterceptor(s.histIntercept)
	defer s.fake.cli.VerifSetInterceptor(nil)
	defer func() { s.fake.invokeFunction = prevFn }()
	// ONE processor and ONE composite validator for the history ops of the sequence (default until hinit)
	s.hist = s.newHist(nil, false, 0)
	proc := irnetmap.VerifNewProcessor(s.nm, s, s, s, s.validators(nil))
	s.epochProc = irnetmap.VerifNewProcessor(s.nmPlain, s, s, s, s.validators(nil))
	// validate / addnode / updpeer ops do not depend on earlier ops; epoch histories do
	c.independent = true
	for _, line := range ops {
		switch parseOp(line).name {
		case "init", "tick", "newepoch", "alpha":
			c.independent = false
		default:
			if irnIsHistOp(parseOp(line).name) {
				c.independent = false
			}
		}
	}
	for _, line := range ops {
		o := parseOp(line)
		c.count("op:" + o.name)
		var post []func()
		obs := irnRun(c, s, &proc, line, o, &post)
		c.emit(line, obs)
		for _, f := range post {
			f()
		}
	}
}

func irnRun(c *runCtx, s *irnState, procp **irnetmap.Processor, line string, o opLine, post *[]func()) (obs string) {
	// the property's assertions are evaluated after the op has been recorded (the witness of a failure is the op itself)
	orc := func(assertion string, ok bool, detail string) {
		*post = append(*post, func() { c.oracle(assertion, ok, detail) })
	}
	defer func() {
		if r := recover(); r != nil {
			obs = "=> panic " + strings.ReplaceAll(fmt.Sprint(r), " ", "_")
		}
	}()
	proc := *procp
	s.fake.reset()
	s.calls, s.failed, s.scripts, s.reqs, s.otherInvokes = 0, -1, 0, nil, 0
	epochObs := func() string {
		return fmt.Sprintf("=> req=%s counter=%d resets=%d", joinInts(s.reqs), s.counter.Load(), s.resets)
	}
	if irnIsHistOp(o.name) {
		// every recorded failure is shrunk by replaying subsequences of its history: two witnesses per assertion
		// and run are kept, the rest is counted
		horc := func(assertion string, ok bool, detail string) {
			if !ok {
				if s.histFails == nil {
					s.histFails = map[string]int{}
				}
				s.histFails[assertion]++
				if s.histFails[assertion] > 2 {
					*post = append(*post, func() { c.nOracle++; c.count("oracle_fail:" + assertion) })
					return
				}
			}
			orc(assertion, ok, detail)
		}
		if obs, ok := irnHistRun(c, s, line, o, horc); ok {
			return obs
		}
		return "=> bad-op"
	}
	switch o.name {
	case "validate", "addnode":
		n := irnParseNode(o)
		s.reach, s.ext, s.nnsAns = o.flag("reach"), o.flag("ext"), o.int("nns")
		vidx := o.ints("vs")
		val := s.validators(vidx)
		wantOK := irnNodeAcceptable(n, o, vidx)
		if o.name == "validate" {
			err := val.Verify(n.info(line))
			orc("composite-accepts-iff-every-validator-accepts", (err == nil) == wantOK, line)
			if err == nil {
				c.nontrivial(line)
				return fmt.Sprintf("=> ok calls=%d", s.calls)
			}
			return fmt.Sprintf("=> err by=%d calls=%d", s.failed, s.calls)
		}
		alpha := s.alpha
		s.alpha = o.flag("alpha")
		defer func() { s.alpha = alpha }()
		p := irnetmap.VerifNewProcessor(s.nm, s, s, s, val)
		script := []byte{0xA8, 0}
		if o.flag("halts") {
			script[1] = 1
		}
		tx := transaction.New(script, 0)
		tx.Signers = []transaction.Signer{{}, {}}
		state := big.NewInt(0)
		switch n.st {
		case 1:
			state = netmaprpc.NodeStateOnline
		case 2:
			state = netmaprpc.NodeStateOffline
		case 3:
			state = netmaprpc.NodeStateMaintenance
		}
		attrs := map[string]string{}
		for _, k := range n.attrs {
			attrs[k] = "v"
		}
		for _, kv := range n.locodeAttrs() {
			attrs[kv[0]] = kv[1]
		}
		if n.dom {
			attrs["VerifiedNodesDomain"] = "nodes.example"
		}
		node := netmaprpc.NetmapNode2{Addresses: n.endpoints(line), Attributes: attrs, Key: ircKeys[1].PublicKey(), State: state}
		p.VerifProcessAddNode(netmapEvent.VerifNewAddNode(node, &payload.P2PNotaryRequest{MainTransaction: tx}))
		by := "-"
		if s.failed >= 0 {
			by = fmt.Sprint(s.failed)
		}
		approved := s.fake.notaryCalls > 0
		if approved {
			c.nontrivial(line)
		}
		orc("admitted-only-by-alphabet-with-valid-script-and-all-validators",
			!approved || (o.flag("alpha") && o.flag("halts") && (n.st == 1 || n.st == 3) && wantOK), line)
		orc("acceptable-candidate-is-admitted-by-alphabet",
			approved || !(o.flag("alpha") && o.flag("halts") && (n.st == 1 || n.st == 3) && wantOK), line)
		return fmt.Sprintf("=> notary=%d script=%d calls=%d by=%s", s.fake.notaryCalls, s.scripts, s.calls, by)
	case "updpeer":
		alpha := s.alpha
		s.alpha = o.flag("alpha")
		defer func() { s.alpha = alpha }()
		tx := transaction.New([]byte{0x40}, 0)
		tx.Signers = []transaction.Signer{{}, {}}
		proc.VerifProcessUpdatePeer(netmapEvent.VerifNewUpdatePeer(ircKeys[2].PublicKey(), &payload.P2PNotaryRequest{MainTransaction: tx}))
		orc("peer-update-approved-only-by-alphabet", s.fake.notaryCalls == 0 || o.flag("alpha"), line)
		return fmt.Sprintf("=> notary=%d", s.fake.notaryCalls)
	case "init":
		s.counter.Store(o.u64("counter"))
		s.alpha = o.flag("alpha")
		s.resets = 0
		return epochObs()
	case "tick":
		before := s.counter.Load()
		s.epochProc.VerifProcessNewEpochTick()
		if s.alpha {
			orc("alphabet-tick-requests-exactly-the-next-epoch-once", len(s.reqs) == 1 && s.reqs[0] == int(before)+1, line+" "+epochObs())
			c.nontrivial(fmt.Sprint(line, before))
		} else {
			orc("non-alphabet-tick-requests-nothing", len(s.reqs) == 0, line+" "+epochObs())
		}
		return epochObs()
	case "newepoch":
		s.epochProc.VerifProcessNewEpoch(netmapEvent.VerifNewEpoch(o.u64("e"), util.Uint256{1}))
		orc("notification-sets-the-epoch", s.counter.Load() == o.u64("e") && len(s.reqs) == 0, line+" "+epochObs())
		return epochObs()
	case "alpha":
		s.alpha = o.flag("b")
		return epochObs()
	}
	return "=> bad-op"
}

// irnNodeAcceptable is the property's own reading of "every configured validator accepts".
func irnNodeAcceptable(n irnNode, o opLine, vidx []int) bool {
	for _, i := range vidx {
		ok := true
		switch i {
		case 0:
			ok = n.st == 1 || n.st == 3
		case 1:
			seen := map[string]bool{}
			for _, k := range n.attrs {
				if seen[k] {
					ok = false
				}
				seen[k] = true
			}
			for _, a := range n.addrs {
				ok = ok && a == 1
			}
		case 2:
			ok = o.flag("reach")
		case 3:
			ok = !n.dom || (n.key && o.int("nns") == 0)
		case 4:
			if n.lc {
				ok = n.lck
				for _, b := range n.lcf {
					ok = ok && b == 1
				}
			}
		case 5:
			ok = o.flag("ext")
		}
		if !ok {
			return false
		}
	}
	return true
}

func irnGen(c *runCtx, run func([]string)) {
	r := c.rng
	flip := func(p int) int { // mostly 1
		if r.IntN(p) == 0 {
			return 0
		}
		return 1
	}
	nodeFields := func(addnode bool) string {
		st := []int{1, 1, 1, 3, 3, 2, 0}[r.IntN(7)]
		var addrs []int
		for k := r.IntN(4); k > 0; k-- {
			addrs = append(addrs, flip(8))
		}
		var attrs []string
		for _, k := range []string{"Price", "Capacity", "Tag"} {
			if r.IntN(2) == 0 {
				attrs = append(attrs, k)
			}
		}
		if !addnode && r.IntN(5) == 0 && len(attrs) > 0 {
			attrs = append(attrs, attrs[r.IntN(len(attrs))]) // repeated attribute (raw node info only)
		}
		at := "-"
		if len(attrs) > 0 {
			at = strings.Join(attrs, ",")
		}
		key := 1
		if !addnode {
			key = flip(8)
		}
		lcf := []int{flip(10), flip(10), flip(10), flip(10), flip(10), flip(10)}
		return fmt.Sprintf("st=%d addrs=%s attrs=%s reach=%d dom=%d key=%d nns=%d lc=%d lck=%d lcf=%s ext=%d", st, joinInts(addrs), at, flip(8),
			r.IntN(2), key, []int{0, 0, 0, 1, 2}[r.IntN(5)], r.IntN(2), flip(8), joinInts(lcf), flip(6))
	}
	vsList := func() string {
		base := []int{0, 1, 2, 3, 4}
		if r.IntN(2) == 0 {
			base = append(base, 5)
		}
		switch r.IntN(4) {
		case 0: // another order
			r.Shuffle(len(base), func(i, j int) { base[i], base[j] = base[j], base[i] })
		case 1: // a subset
			var sub []int
			for _, v := range base {
				if r.IntN(3) != 0 {
					sub = append(sub, v)
				}
			}
			base = sub
		}
		return joinInts(base)
	}
	var ops []string
	for i := 0; i < c.n(700, 6000); i++ {
		ops = append(ops, fmt.Sprintf("irn validate vs=%s %s", vsList(), nodeFields(false)))
	}
	for i := 0; i < c.n(500, 4000); i++ {
		ops = append(ops, fmt.Sprintf("irn addnode alpha=%d halts=%d vs=%s %s", flip(8), flip(8), vsList(), nodeFields(true)))
	}
	for i := 0; i < 20; i++ {
		ops = append(ops, fmt.Sprintf("irn updpeer alpha=%d", r.IntN(2)))
	}
	// these ops do not depend on each other: short sequences keep shrinking cheap
	for i := 0; i < len(ops); i += 20 {
		run(ops[i:min(i+20, len(ops))])
	}
	for h := 0; h < c.n(150, 1500); h++ {
		cur := r.IntN(10)
		hist := []string{fmt.Sprintf("irn init counter=%d alpha=%d", cur, flip(4))}
		for k := 3 + r.IntN(12); k > 0; k-- {
			switch x := r.IntN(10); {
			case x < 5:
				hist = append(hist, "irn tick")
			case x < 8:
				e := cur + 1 // the contract executed a request for the next epoch
				if r.IntN(3) == 0 {
					e = r.IntN(14)
				}
				cur = e
				hist = append(hist, fmt.Sprintf("irn newepoch e=%d", e))
			default:
				hist = append(hist, fmt.Sprintf("irn alpha b=%d", r.IntN(2)))
			}
		}
		run(hist)
	}
	// histories against ONE processor and ONE composite validator (eng_irn_hist.go)
	for h := 0; h < c.n(200, 2000); h++ {
		run(irnGenHistory(r))
	}
}
