package main

// Op `crace` of engine `rpc` (C32): ONE real control server (storage node: pkg/services/control/server over a real
// one-shard engine; inner ring: pkg/services/control/ir/server) serves many requests AT THE SAME TIME. Nothing in the
// authorisation of a control request may depend on what other requests are in flight: the verdict is a function of
// (body, signature, configured keys). For every listed method three bodies of EQUAL encoded length are built by
// reflection (X, Y, Z; all fields set, every scalar differs), and these request kinds are sent together:
//
//	g1  body X signed by the first configured key                       -> must pass
//	g2  body Z signed by the second configured key                      -> must pass
//	fo  body Y with the Signature COPIED from g1 (key configured, signature genuine - over another body) -> denied
//	wk  body Y correctly signed by a key that is not configured         -> denied
//	ns  body Y without signature                                        -> denied
//	bs  body Y signed by the first configured key, signature bytes damaged -> denied
//
// sync=1: all requests of a round are lined up twice, at named points in unchanged code, and released together, n
// rounds: after the scan of the configured keys (`ctl.auth.afterKeyScan` / `irctl.auth.afterKeyScan`: every request
// has scanned before any of them acts on the result) and right before the signature verification
// (`ctl.auth.beforeVerify` / `irctl.auth.beforeVerify`: every request has marshalled its signed data and decoded its
// key before any of them verifies). sync=0: every request is re-sent n times by
// its own goroutine with no coordination (volume). Body Y is never sent by an authorised request, so any recorded
// dependency call that carries Y's values is the effect of a request nobody authorised.

import (
	"context"
	"fmt"
	"reflect"
	"sort"
	"strings"
	"sync"
	"sync/atomic"
	"time"

	"github.com/nspcc-dev/neo-go/pkg/crypto/keys"
	"github.com/nspcc-dev/neofs-node/pkg/util/verifhook"
	neofscrypto "github.com/nspcc-dev/neofs-sdk-go/crypto"
	neofsecdsa "github.com/nspcc-dev/neofs-sdk-go/crypto/ecdsa"
	grpccodes "google.golang.org/grpc/codes"
	grpcstatus "google.golang.org/grpc/status"
)

var craceKinds = []string{"g1", "g2", "fo", "wk", "ns", "bs"}

func craceAuthorised(kind string) bool { return kind == "g1" || kind == "g2" }

// craceFillBody sets every settable field of the request body to the value of variant v (1..3) so that the three
// variants have the same encoded length. Fields named Shard_ID carry the id of the real shard in variants 1 and 2.
func craceFillBody(req reflect.Value, v int, shardID []byte) {
	b := req.Elem().FieldByName("Body")
	if !b.IsValid() || b.IsNil() {
		return
	}
	s := b.Elem()
	fill := func(n int) []byte {
		x := make([]byte, n)
		for i := range x {
			x[i] = byte(v)
		}
		return x
	}
	for i := 0; i < s.NumField(); i++ {
		f := s.Field(i)
		if !f.CanSet() {
			continue
		}
		name := s.Type().Field(i).Name
		bytesVal := fill(32)
		if name == "Shard_ID" {
			bytesVal = fill(16)
			if v != 3 && len(shardID) == 16 {
				bytesVal = append([]byte(nil), shardID...)
			}
		}
		switch f.Kind() {
		case reflect.Bool:
			f.SetBool(true)
		case reflect.Int32, reflect.Int64:
			f.SetInt(int64(v))
		case reflect.Uint32, reflect.Uint64:
			f.SetUint(uint64(v))
		case reflect.String:
			f.SetString(fmt.Sprintf("/nonexistent/verif-crace/v%d", v))
		case reflect.Slice:
			if f.Type().Elem().Kind() == reflect.Uint8 {
				f.SetBytes(bytesVal)
			} else if f.Type().Elem().Kind() == reflect.Slice && f.Type().Elem().Elem().Kind() == reflect.Uint8 {
				f.Set(reflect.Append(reflect.MakeSlice(f.Type(), 0, 1), reflect.ValueOf(bytesVal)))
			}
		}
	}
}

// craceIsYEffect: does a recorded dependency call carry the values of body variant 2?
func craceIsYEffect(call string) bool {
	return strings.Contains(call, "(2)") || strings.Contains(call, "verif-crace/v2") || strings.Contains(call, "02020202")
}

func craceSetSignature(req reflect.Value, key, sign []byte) {
	m := req.MethodByName("SetSignature")
	sg := reflect.New(m.Type().In(0).Elem())
	sg.Elem().FieldByName("Key").SetBytes(append([]byte(nil), key...))
	sg.Elem().FieldByName("Sign").SetBytes(append([]byte(nil), sign...))
	m.Call([]reflect.Value{sg})
}

func craceGetSignature(req reflect.Value) (key, sign []byte) {
	sg := req.MethodByName("GetSignature").Call(nil)[0]
	if sg.IsNil() {
		return nil, nil
	}
	return sg.Elem().FieldByName("Key").Bytes(), sg.Elem().FieldByName("Sign").Bytes()
}

type craceReq struct {
	method    string
	kind      string
	m         reflect.Value
	req       reflect.Value
	streaming bool
}

// craceBuild makes the request of the kind for method m. ok=false: the method has a shape this file cannot call.
// seen holds the signatures already made for this method, by kind: further requests of a kind are REPLAYS (the same
// signature bytes), and the forged request carries the very signature of the genuine g1 request in flight.
func craceBuild(f *ctlFixture, h, kind string, shardID []byte, seen map[string][2][]byte) (r craceReq, ok bool) {
	m := reflect.ValueOf(f.srv).MethodByName(h)
	mk := func(v int) (reflect.Value, bool, bool) {
		req, streaming, ok := ctlBuildRequest(m.Type())
		if ok {
			craceFillBody(req, v, shardID)
		}
		return req, streaming, ok
	}
	signAs := func(k *keys.PrivateKey, req reflect.Value, slot string) {
		if ks, ok := seen[slot]; ok {
			craceSetSignature(req, ks[0], ks[1])
			return
		}
		if err := f.sign(k, req.Interface()); err != nil {
			panic("signing control request: " + err.Error())
		}
		key, sg := craceGetSignature(req)
		seen[slot] = [2][]byte{key, sg}
	}
	variant := 2
	switch kind {
	case "g1":
		variant = 1
	case "g2":
		variant = 3
	}
	req, streaming, ok := mk(variant)
	if !ok {
		return r, false
	}
	switch kind {
	case "g1":
		signAs(ctlAdminKey, req, "g1")
	case "g2":
		signAs(ctlAdmin2Key, req, "g2")
	case "fo":
		x, _, _ := mk(1)
		signAs(ctlAdminKey, x, "g1")
		xb, _ := x.Interface().(ctlSigned).ReadSignedData(nil)
		yb, _ := req.Interface().(ctlSigned).ReadSignedData(nil)
		if len(xb) != 0 && len(xb) == len(yb) && string(xb) != string(yb) {
			k, s := craceGetSignature(x) // the Signature of the genuine request, as seen on the wire
			craceSetSignature(req, k, s)
		} else {
			// a body without fields: the signature of some other signed data
			var sig neofscrypto.Signature
			if err := sig.Calculate(neofsecdsa.Signer(ctlAdminKey.PrivateKey), []byte{8, 1}); err != nil {
				panic(err)
			}
			craceSetSignature(req, sig.PublicKeyBytes(), sig.Value())
		}
	case "wk":
		signAs(ctlOtherKey, req, "wk")
	case "bs":
		signAs(ctlAdminKey, req, "bs-undamaged")
		k, s := craceGetSignature(req)
		s = append([]byte(nil), s...)
		s[len(s)/2] ^= 0x40
		craceSetSignature(req, k, s)
	case "ns":
	}
	return craceReq{method: h, kind: kind, m: m, req: req, streaming: streaming}, true
}

type craceOutcome struct {
	denied   bool
	code     grpccodes.Code
	err      error
	panicked string
}

func craceCall(f *ctlFixture, r craceReq) (o craceOutcome) {
	defer func() {
		if p := recover(); p != nil {
			o.panicked = fmt.Sprint(p)
			o.denied = false
		}
	}()
	var out []reflect.Value
	if r.streaming {
		out = r.m.Call([]reflect.Value{r.req, reflect.ValueOf(&ctlStream{f.rec})})
	} else {
		out = r.m.Call([]reflect.Value{reflect.ValueOf(context.Background()), r.req})
	}
	if e := out[len(out)-1]; !e.IsNil() {
		o.err = e.Interface().(error)
		o.code = grpcstatus.Code(o.err)
	}
	o.denied = o.code == grpccodes.PermissionDenied
	return o
}

// craceBarrier lines the requests of a round up at a named point: the point is opened when every request of the
// round has either arrived at it or has returned without reaching it (a request parked at the point cannot return,
// so before the opening the returned requests are exactly those that never arrive). No expectation about who reaches
// the point is built in. A request can also be kept from the point by another one parked at it (an implementation
// that holds a lock across the point): then the round runs into the timeout and goes on uncoordinated; after the
// first timeout of a run the waits are short, so that such an implementation costs seconds, not minutes.
type craceBarrier struct {
	mu       sync.Mutex
	total    int
	arrived  int
	finished int
	gate     chan struct{}
	full     int // rounds in which the point was opened by the last arrival/return, with at least 2 requests parked
}

var craceTimedOut atomic.Bool

func craceBarrierTimeout() time.Duration {
	if craceTimedOut.Load() {
		return 150 * time.Millisecond
	}
	return 5 * time.Second
}

func (b *craceBarrier) arm(total int) {
	b.mu.Lock()
	b.total, b.arrived, b.finished, b.gate = total, 0, 0, make(chan struct{})
	b.mu.Unlock()
}

// openIfComplete is called with b.mu held.
func (b *craceBarrier) openIfComplete() {
	if b.gate != nil && b.arrived+b.finished >= b.total {
		if b.arrived >= 2 {
			b.full++
		}
		close(b.gate)
		b.gate = nil
	}
}

// arrive is called from the named point.
func (b *craceBarrier) arrive() {
	b.mu.Lock()
	if b.gate == nil {
		b.mu.Unlock()
		return
	}
	g := b.gate
	b.arrived++
	b.openIfComplete()
	b.mu.Unlock()
	select {
	case <-g:
	case <-time.After(craceBarrierTimeout()):
		craceTimedOut.Store(true)
		b.mu.Lock()
		if b.gate == g { // give up on this round
			close(g)
			b.gate = nil
		}
		b.mu.Unlock()
	}
}

// finish is called when a request of the round has returned.
func (b *craceBarrier) finish() {
	b.mu.Lock()
	b.finished++
	b.openIfComplete()
	b.mu.Unlock()
}

func craceGen(c *runCtx) []string {
	var ops []string
	for _, svc := range []string{"ctl", "irctl"} {
		ms := ctlMethodNames(svc)
		all := strings.Join(ms, ",")
		// all methods of the service in flight together, lined up before the verification
		ops = append(ops, fmt.Sprintf("rpc crace svc=%s ms=%s sync=1 n=%d g1=1 g2=1 fo=1 wk=1 ns=1 bs=1", svc, all, c.n(2, 6)))
		// and uncoordinated
		ops = append(ops, fmt.Sprintf("rpc crace svc=%s ms=%s sync=0 n=%d g1=1 g2=1 fo=1 wk=1 ns=1 bs=1", svc, all, c.n(40, 300)))
		for _, h := range ms {
			// one method: replays of the genuine requests race with forged ones
			ops = append(ops, fmt.Sprintf("rpc crace svc=%s ms=%s sync=1 n=%d g1=%d g2=%d fo=%d wk=%d ns=%d bs=%d", svc, h, c.n(4, 12),
				1+c.rng.IntN(3), c.rng.IntN(3), 1+c.rng.IntN(3), c.rng.IntN(2), c.rng.IntN(2), c.rng.IntN(2)))
		}
		// volume on a few methods: many replayers, a few forgers
		for i := 0; i < 3; i++ {
			h := ms[c.rng.IntN(len(ms))]
			ops = append(ops, fmt.Sprintf("rpc crace svc=%s ms=%s sync=0 n=%d g1=%d g2=%d fo=%d wk=1 ns=0 bs=1", svc, h, c.n(600, 5000),
				4+c.rng.IntN(5), c.rng.IntN(3), 1+c.rng.IntN(3)))
		}
	}
	return ops
}

func craceExec(c *runCtx, line string, o opLine) {
	svc := o.kv["svc"]
	f := newCtlFixture(svc)
	if f == nil {
		c.emit(line, "=> bad-op")
		return
	}
	defer f.cleanup()
	names := strings.Split(o.kv["ms"], ",")
	sort.Strings(names)
	for i, h := range names {
		m := reflect.ValueOf(f.srv).MethodByName(h)
		_, inIface := f.ifaceT.MethodByName(h)
		if !m.IsValid() || !inIface || (i > 0 && names[i-1] == h) {
			c.emit(line, "=> bad-op")
			return
		}
	}
	num := func(k string, max int) (int, bool) {
		s, ok := o.kv[k]
		if !ok || s == "" || strings.TrimLeft(s, "0123456789") != "" || len(s) > 5 {
			return 0, false
		}
		v := o.int(k)
		return v, v <= max
	}
	syncMode, ok1 := num("sync", 1)
	n, ok2 := num("n", 5000)
	counts := map[string]int{}
	total := 0
	okc := true
	for _, k := range craceKinds {
		v, ok := num(k, 16)
		okc = okc && ok
		counts[k] = v
		total += v
	}
	if !ok1 || !ok2 || !okc || n < 1 || total == 0 {
		c.emit(line, "=> bad-op")
		return
	}
	var shardID []byte
	if f.eng != nil {
		if sh := f.eng.DumpInfo().Shards; len(sh) > 0 {
			shardID = sh[0].ID.Bytes()
		}
	}
	var reqs []craceReq
	for _, h := range names {
		seen := map[string][2][]byte{}
		for _, k := range craceKinds {
			for i := 0; i < counts[k]; i++ {
				r, ok := craceBuild(f, h, k, shardID, seen)
				if !ok {
					c.emit(line, "=> undriven")
					c.oracle("every-control-method-is-driven", false, "method "+h+" of "+svc+" has a shape harness/eng_rpc_ctlrace.go cannot call")
					return
				}
				reqs = append(reqs, r)
			}
		}
	}
	before := ctlShardState(f.eng)
	bar, barScan := &craceBarrier{}, &craceBarrier{}
	if syncMode == 1 {
		verifhook.SetPoint(func(name string) {
			switch name {
			case "ctl.auth.afterKeyScan", "irctl.auth.afterKeyScan":
				barScan.arrive()
			case "ctl.auth.beforeVerify", "irctl.auth.beforeVerify":
				bar.arrive()
			}
		})
		defer verifhook.SetPoint(nil)
	}
	outs := make([][]craceOutcome, len(reqs))
	run := func(rounds int) {
		var wg sync.WaitGroup
		for i := range reqs {
			wg.Add(1)
			go func(i int) {
				defer wg.Done()
				for k := 0; k < rounds; k++ {
					outs[i] = append(outs[i], craceCall(f, reqs[i]))
					if syncMode == 1 {
						barScan.finish()
						bar.finish()
					}
				}
			}(i)
		}
		wg.Wait()
	}
	if syncMode == 1 {
		for k := 0; k < n; k++ {
			barScan.arm(len(reqs))
			bar.arm(len(reqs))
			run(1)
		}
	} else {
		run(n)
	}
	verifhook.SetPoint(nil)
	after := ctlShardState(f.eng)
	calls := f.rec.snapshot()

	passed, denied := 0, 0
	for i := range reqs {
		for _, out := range outs[i] {
			if out.denied {
				denied++
			} else {
				passed++
			}
		}
	}
	c.emit(line, fmt.Sprintf("=> ok passed=%d denied=%d", passed, denied)) // before the oracles: the op is the witness
	if denied > 0 && passed > 0 {
		c.nontrivial(line)
	}
	for i, r := range reqs {
		for k, out := range outs[i] {
			desc := fmt.Sprintf("service=%s method=%s kind=%s attempt=%d of %d, %d requests in flight (sync=%d): code=%v err=%v panic=%q", svc, r.method, r.kind, k+1, n, len(reqs), syncMode, out.code, out.err, clip(out.panicked))
			sig := svc // at most 6 recorded failures per assertion and service: every one of them is shrunk by replaying
			switch {
			case craceAuthorised(r.kind):
				c.oracleSig("authorised-request-passes-whatever-else-is-in-flight", sig, !out.denied, desc)
			case r.kind == "fo":
				c.oracleSig("request-with-a-signature-of-another-body-is-denied-whatever-else-is-in-flight", sig, out.denied, desc)
			default:
				c.oracleSig("unauthorised-request-is-denied-whatever-else-is-in-flight", sig, out.denied, desc)
			}
		}
	}
	var yEffects []string
	for _, call := range calls {
		if craceIsYEffect(call) {
			yEffects = append(yEffects, call)
		}
	}
	if len(yEffects) > 8 {
		yEffects = yEffects[:8]
	}
	c.oracle("never-authorised-body-has-no-effect", len(yEffects) == 0 && before == after,
		fmt.Sprintf("service=%s methods=%s: dependency calls carrying the values of the body no configured key signed: %v; shards %s->%s", svc, o.kv["ms"], yEffects, before, after))
	c.count("crace:" + svc)
	c.count(fmt.Sprintf("crace-sync:%d", syncMode))
	if syncMode == 1 {
		// how often the forced schedule was really reached (a round that ran into the timeout is only a weaker trial)
		c.hist["crace-rounds"] += n
		c.hist["crace-rounds-lined-up-before-verify"] += bar.full
		c.hist["crace-rounds-lined-up-after-scan"] += barScan.full
	}
}
