package main

import (
	"bytes"
	"encoding/hex"
	"fmt"
	"math/big"
	"regexp"
	"strings"

	objectcore "github.com/nspcc-dev/neofs-node/pkg/core/object"
	"github.com/nspcc-dev/neofs-node/pkg/util/verifbridge"
)

func init() {
	engines["int256"] = seqRunner{gen: i256Gen, exec: i256Exec}.engine()
}

var (
	bigMax    = new(big.Int).Sub(new(big.Int).Lsh(big.NewInt(1), 256), big.NewInt(1))
	bigMin    = new(big.Int).Neg(bigMax)
	decimalRE = regexp.MustCompile(`^[+-]?[0-9]+$`)
)

func hx(s string) string { return hex.EncodeToString([]byte(s)) }
func unhx(s string) string {
	b, err := hex.DecodeString(s)
	if err != nil {
		panic(err)
	}
	return string(b)
}

// i256Values returns boundary values of the 257-bit range plus seeded random ones, as decimal strings.
func i256Values(c *runCtx, n int) []string {
	var out []string
	add := func(b *big.Int) {
		out = append(out, b.String(), new(big.Int).Neg(b).String())
	}
	for _, sh := range []uint{0, 1, 7, 8, 63, 64, 65, 127, 128, 192, 248, 255, 256} {
		p := new(big.Int).Lsh(big.NewInt(1), sh)
		add(p)
		add(new(big.Int).Sub(p, big.NewInt(1)))
		add(new(big.Int).Add(p, big.NewInt(1)))
	}
	add(big.NewInt(0))
	add(big.NewInt(255))
	add(big.NewInt(256))
	for i := 0; i < n; i++ {
		bits := 1 + c.rng.IntN(257)
		b := new(big.Int)
		for j := 0; j < 5; j++ {
			b.Lsh(b, 64)
			b.Or(b, new(big.Int).SetUint64(c.rng.Uint64()))
		}
		b.Rsh(b, uint(320-bits))
		if b.Cmp(bigMax) > 0 {
			b.Set(bigMax)
		}
		add(b)
	}
	return out
}

func i256Strings(c *runCtx, vals []string, n int) []string {
	out := []string{"", "+", "-", "0", "-0", "+0", "00", "-00", "007", "+007", "-007", "++5", "+-5", "-+5", "--5", "+ 5", " 5", "5 ",
		"5a", "a5", "0x10", "1_000", "1e3", "١٢", "5+", "5-", "+", "-", "0000000000000000000000000000000000000000000000000000000000000000000000000000000000000001",
		bigMax.String(), "-" + bigMax.String(), "+" + bigMax.String(), "++" + bigMax.String(), "-+" + bigMax.String(),
		new(big.Int).Add(bigMax, big.NewInt(1)).String(), "-" + new(big.Int).Add(bigMax, big.NewInt(1)).String(),
		"18446744073709551615", "18446744073709551616", "99999999999999999999", "-18446744073709551616", "099999999999999999999",
		strings.Repeat("9", 78), strings.Repeat("9", 77), strings.Repeat("9", 79), strings.Repeat("0", 90) + "1",
	}
	alphabet := "0123456789+-0000 a_.xe"
	for i := 0; i < n; i++ {
		switch c.rng.IntN(4) {
		case 0: // a valid value with decoration
			v := vals[c.rng.IntN(len(vals))]
			pre := []string{"", "+", "0", "00", "+0", "++", "-", "-+", "+-"}[c.rng.IntN(9)]
			if strings.HasPrefix(v, "-") && c.rng.IntN(2) == 0 {
				v = "-" + []string{"", "0", "000", "+"}[c.rng.IntN(4)] + v[1:]
			} else {
				v = pre + v
			}
			out = append(out, v)
		case 1: // random over a small alphabet
			l := c.rng.IntN(8)
			var sb strings.Builder
			for j := 0; j < l; j++ {
				sb.WriteByte(alphabet[c.rng.IntN(len(alphabet))])
			}
			out = append(out, sb.String())
		case 2: // one mutated character of a valid value
			v := []byte(vals[c.rng.IntN(len(vals))])
			v[c.rng.IntN(len(v))] = alphabet[c.rng.IntN(len(alphabet))]
			out = append(out, string(v))
		default: // long digit strings around the 78-digit boundary
			l := 70 + c.rng.IntN(12)
			var sb strings.Builder
			if c.rng.IntN(3) == 0 {
				sb.WriteByte("+-"[c.rng.IntN(2)])
			}
			for j := 0; j < l; j++ {
				sb.WriteByte(byte('0' + c.rng.IntN(10)))
			}
			out = append(out, sb.String())
		}
	}
	return out
}

func i256Gen(c *runCtx, run func([]string)) {
	vals := i256Values(c, c.n(150, 3000))
	strs := i256Strings(c, vals, c.n(3000, 200000))
	var ops []string
	for _, s := range strs {
		ops = append(ops, "int256 parse s="+hx(s)+"_")
		ops = append(ops, "int256 split s="+hx(s)+"_")
		for _, neg := range []int{0, 1} {
			ops = append(ops, fmt.Sprintf("int256 norm neg=%d s=%s_", neg, hx(s)))
		}
	}
	for _, v := range vals {
		ops = append(ops, "int256 parse s="+hx(v)+"_")
	}
	for i := 0; i < c.n(6000, 600000); i++ {
		a, b := vals[c.rng.IntN(len(vals))], vals[c.rng.IntN(len(vals))]
		if c.rng.IntN(6) == 0 { // near neighbours
			x, _ := new(big.Int).SetString(a, 10)
			x.Add(x, big.NewInt(int64(c.rng.IntN(5)-2)))
			if x.CmpAbs(bigMax) <= 0 {
				b = x.String()
			}
		}
		ops = append(ops, fmt.Sprintf("int256 cmp a=%s b=%s", a, b))
	}
	for i := 0; i < c.n(2500, 200000); i++ {
		a, b := strs[c.rng.IntN(len(strs))], strs[c.rng.IntN(len(strs))]
		if c.rng.IntN(2) == 0 {
			a = vals[c.rng.IntN(len(vals))]
		}
		if c.rng.IntN(2) == 0 {
			b = vals[c.rng.IntN(len(vals))]
		}
		ops = append(ops, fmt.Sprintf("int256 cmpstr a=%s_ b=%s_", hx(a), hx(b)))
	}
	// raw 33-byte keys: valid encodings, negative zero, bad sign bytes, bad lengths
	for i := 0; i < c.n(1500, 100000); i++ {
		var b []byte
		v := vals[c.rng.IntN(len(vals))]
		z, err := verifbridge.S256ParseDecimal(v)
		if err != nil {
			continue
		}
		e := z.EncodeBytes()
		b = e[:]
		switch c.rng.IntN(8) {
		case 0:
			b[0] = byte(c.rng.IntN(256))
		case 1:
			b = b[:c.rng.IntN(34)]
		case 2:
			b = append(b, 0)
		case 3:
			b = append([]byte{0}, bytes.Repeat([]byte{0xff}, 32)...)
		case 4:
			b[1+c.rng.IntN(32)] ^= byte(1 << c.rng.IntN(8))
		}
		ops = append(ops, "int256 dec b="+hex.EncodeToString(b)+"_")
	}
	run(ops)
}

func ordStr(i int) string {
	switch {
	case i < 0:
		return "lt"
	case i > 0:
		return "gt"
	}
	return "eq"
}

func i256Exec(c *runCtx, ops []string) {
	c.independent = true
	for _, line := range ops {
		o := parseOp(line)
		c.count(o.name)
		switch o.name {
		case "parse":
			s := unhx(strings.TrimSuffix(o.kv["s"], "_"))
			z, err := verifbridge.S256ParseDecimal(s)
			want, okBig := new(big.Int).SetString(s, 10)
			valid := decimalRE.MatchString(s) && okBig && want.Cmp(bigMax) <= 0 && want.Cmp(bigMin) >= 0
			if err != nil {
				c.emit(line, "=> err")
				c.oracle("parse-accepts-exactly-signed-digit-strings", !valid, fmt.Sprintf("ParseDecimal(%q) rejected a valid decimal in range", s))
				continue
			}
			e := z.EncodeBytes()
			c.emit(line, "=> ok v="+z.String()+" enc="+hex.EncodeToString(e[:]))
			c.oracle("parse-accepts-exactly-signed-digit-strings", valid, fmt.Sprintf("ParseDecimal(%q) accepted (value %s) but the string is not an optionally signed digit string in range", s, z.String()))
			if valid {
				c.nontrivial("p" + s)
				c.oracle("parse-value", z.String() == want.String(), fmt.Sprintf("ParseDecimal(%q)=%s want %s", s, z.String(), want))
				back, err := verifbridge.S256ParseDecimal(z.String())
				c.oracle("print-parse-roundtrip", err == nil && back.Cmp(&z) == 0 && back.String() == z.String(), fmt.Sprintf("%q", s))
				d, err := verifbridge.S256DecodeBytes(e[:])
				c.oracle("decode-encode", err == nil && d.Cmp(&z) == 0 && d.String() == z.String(), fmt.Sprintf("value %s", z.String()))
			}
		case "norm":
			s := unhx(strings.TrimSuffix(o.kv["s"], "_"))
			neg := o.kv["neg"] == "1"
			z, err := verifbridge.S256ParseNormalizedDecimal(neg, s)
			if err != nil {
				c.emit(line, "=> err")
				continue
			}
			c.emit(line, "=> ok v="+z.String())
		case "split":
			s := unhx(strings.TrimSuffix(o.kv["s"], "_"))
			neg, d, err := objectcore.VerifSplitIntString(s)
			if err != nil {
				c.emit(line, "=> err")
				c.oracle("split-accepts-signed-digit-strings", !decimalRE.MatchString(s), fmt.Sprintf("splitIntString(%q) rejected", s))
				continue
			}
			c.emit(line, fmt.Sprintf("=> ok neg=%v d=%s", neg, d))
			c.oracle("split-accepts-signed-digit-strings", decimalRE.MatchString(s), fmt.Sprintf("splitIntString(%q) accepted", s))
			// readers agree: split+normalized parse == ParseDecimal wherever both are defined
			z1, e1 := verifbridge.S256ParseNormalizedDecimal(neg, d)
			z2, e2 := verifbridge.S256ParseDecimal(s)
			c.oracle("readers-agree", (e1 == nil) == (e2 == nil) && (e1 != nil || z1.String() == z2.String()),
				fmt.Sprintf("%q: split+ParseNormalizedDecimal=(%s,%v) ParseDecimal=(%s,%v)", s, z1.String(), e1, z2.String(), e2))
		case "cmp":
			a, err1 := verifbridge.S256ParseDecimal(o.kv["a"])
			b, err2 := verifbridge.S256ParseDecimal(o.kv["b"])
			if err1 != nil || err2 != nil {
				c.emit(line, "=> err")
				continue
			}
			ea, eb := a.EncodeBytes(), b.EncodeBytes()
			bc := bytes.Compare(ea[:], eb[:])
			c.emit(line, "=> ok cmp="+ordStr(a.Cmp(&b))+" bytes="+ordStr(bc))
			ba, _ := new(big.Int).SetString(o.kv["a"], 10)
			bb, _ := new(big.Int).SetString(o.kv["b"], 10)
			c.oracle("key-order-is-numeric-order", ordStr(bc) == ordStr(ba.Cmp(bb)), fmt.Sprintf("a=%s b=%s bytes.Compare=%d", ba, bb, bc))
			c.oracle("cmp-is-numeric-order", ordStr(a.Cmp(&b)) == ordStr(ba.Cmp(bb)), fmt.Sprintf("a=%s b=%s Cmp=%d", ba, bb, a.Cmp(&b)))
			cs, err := objectcore.VerifCompareIntStrings(o.kv["a"], o.kv["b"])
			c.oracle("string-compare-is-numeric-order", err == nil && ordStr(cs) == ordStr(ba.Cmp(bb)), fmt.Sprintf("a=%s b=%s compareIntStrings=%d,%v", ba, bb, cs, err))
			c.nontrivial("c" + o.kv["a"] + "/" + o.kv["b"])
		case "cmpstr":
			a, b := unhx(strings.TrimSuffix(o.kv["a"], "_")), unhx(strings.TrimSuffix(o.kv["b"], "_"))
			r, err := objectcore.VerifCompareIntStrings(a, b)
			if err != nil {
				c.emit(line, "=> err")
				continue
			}
			c.emit(line, "=> ok cmp="+ordStr(r))
			ba, oka := new(big.Int).SetString(a, 10)
			bb, okb := new(big.Int).SetString(b, 10)
			if oka && okb && decimalRE.MatchString(a) && decimalRE.MatchString(b) {
				c.oracle("string-compare-is-numeric-order", ordStr(r) == ordStr(ba.Cmp(bb)), fmt.Sprintf("a=%q b=%q compareIntStrings=%d", a, b, r))
			}
		case "dec":
			b, _ := hex.DecodeString(strings.TrimSuffix(o.kv["b"], "_"))
			z, err := verifbridge.S256DecodeBytes(b)
			if err != nil {
				c.emit(line, "=> err")
				continue
			}
			e := z.EncodeBytes()
			c.emit(line, "=> ok v="+z.String()+" enc="+hex.EncodeToString(e[:]))
		default:
			c.emit(line, "=> bad-op")
		}
	}
}
