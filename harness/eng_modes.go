package main

// Engine `modes` (C14, C43): a REAL shard (with and without write-cache) is driven through operation histories that
// include every modifying request, the reads of the mode table, the background jobs as explicit steps (one
// removeGarbage pass, one pass of the write-cache flush workers, the new-epoch handler) and SetMode to every mode,
// optionally with a component failure injected through pkg/util/verifhook.
//
// After every operation the observation is: outcome class, reported mode, the components' actual modes, blobstor and
// write-cache content, Exists of every address. After every operation executed while the shard REPORTS a read-only
// mode the content digest of every file under the shard's directory (blobstor tree, write-cache tree, bolt file) is
// compared with the digest taken after the previous operation.

import (
	"bytes"
	"crypto/sha256"
	"encoding/binary"
	"encoding/hex"
	"errors"
	"fmt"
	"io/fs"
	"os"
	"path/filepath"
	"sort"
	"strconv"
	"strings"
	"sync/atomic"
	"time"

	bolterrors "github.com/nspcc-dev/bbolt/errors"
	"github.com/nspcc-dev/neofs-node/pkg/local_object_storage/blobstor/common"
	"github.com/nspcc-dev/neofs-node/pkg/local_object_storage/blobstor/fstree"
	meta "github.com/nspcc-dev/neofs-node/pkg/local_object_storage/metabase"
	"github.com/nspcc-dev/neofs-node/pkg/local_object_storage/shard"
	"github.com/nspcc-dev/neofs-node/pkg/local_object_storage/shard/mode"
	"github.com/nspcc-dev/neofs-node/pkg/local_object_storage/writecache"
	"github.com/nspcc-dev/neofs-node/pkg/util/verifhook"
	apistatus "github.com/nspcc-dev/neofs-sdk-go/client/status"
	cid "github.com/nspcc-dev/neofs-sdk-go/container/id"
	"github.com/nspcc-dev/neofs-sdk-go/object"
	oid "github.com/nspcc-dev/neofs-sdk-go/object/id"
)

func init() {
	engines["modes"] = seqRunner{gen: modesGen, exec: modesExec}.engine()
}

const (
	modesNC = 2 // containers 1..modesNC
	modesNO = 8 // object ids 1..modesNO
)

var errModesInjected = errors.New("injected component failure")

// modesFault is the fault point armed for the SetMode call in progress ("" = none).
var modesFault atomic.Value

var modesFaultPoints = map[string]string{
	"metaEntry": "metabase.setmode", "metaOpen": "metabase.openbolt",
	"blob": "shard.setmode.storage", "wc": "writecache.setmode",
}

// The write-cache's REAL flush scheduler runs with a short tick (verifhook.Duration) and is parked at its per-tick
// fault point, except during a `settle` op. The hook points in the scheduler (unchanged code) tell the harness how
// many schedulers are alive (start / exit) and how many ticks have been taken.
var (
	modesSchedAlive atomic.Int64 // flush schedulers started and not yet returned
	modesTicks      atomic.Int64 // scheduler ticks seen (parked or not)
	modesUnparked   atomic.Bool  // `settle` in progress: ticks do their work
)

const modesTick = 10 * time.Millisecond

func modesDurationFn(name string) time.Duration {
	if name == "writecache.flush.tick" {
		return modesTick
	}
	return 0
}

func modesPointFn(name string) {
	if name == "writecache.flush.scheduler.exit" {
		modesSchedAlive.Add(-1)
	}
}

func modesFaultFn(name string) error {
	switch name {
	case "wc.flush.scheduler": // a flush scheduler starts (runFlushLoop)
		modesSchedAlive.Add(1)
		return nil
	case "writecache.flush.scheduler":
		modesTicks.Add(1)
		if modesUnparked.Load() {
			return nil
		}
		return errModesInjected // the background scheduler is parked; `flushtick` runs the workers explicitly, `settle` lets it run
	case "writecache.flush.errpause":
		return errModesInjected // no 10 s back-off after a failed flush: the next tick is tried at once
	}
	if cur, _ := modesFault.Load().(string); cur != "" && cur == name {
		return errModesInjected
	}
	return nil
}

// modesPay: container 2 is unpaid since epoch 1, everything else is paid.
type modesPay struct{}

func (modesPay) PaymentsDisabled() bool { return false }
func (modesPay) UnpaidSince(c cid.ID) (int64, error) {
	if cidNum(c) == 2 {
		return 1, nil
	}
	return -1, nil
}

func modesErr(err error) string {
	switch {
	case err == nil:
		return "ok"
	case errors.Is(err, shard.ErrReadOnlyMode):
		return "readOnly"
	case errors.Is(err, shard.ErrDegradedMode):
		return "degraded"
	case errors.Is(err, errModesInjected):
		return "injected"
	case errors.Is(err, meta.ErrDegradedMode), errors.Is(err, meta.ErrReadOnlyMode), errors.Is(err, common.ErrReadOnly),
		errors.Is(err, writecache.ErrReadOnly), errors.Is(err, bolterrors.ErrDatabaseNotOpen), errors.Is(err, bolterrors.ErrDatabaseReadOnly):
		return "compRefused"
	case errors.Is(err, meta.ErrLockObjectRemoval):
		return "lockRemoval"
	case errors.As(err, new(apistatus.LockNonRegularObject)):
		return "lockNonRegular"
	case errors.As(err, new(apistatus.ObjectLocked)):
		return "locked"
	case errors.As(err, new(apistatus.ObjectAlreadyRemoved)):
		return "alreadyRemoved"
	case errors.Is(err, meta.ErrObjectIsExpired):
		return "expired"
	case errors.As(err, new(apistatus.ObjectNotFound)):
		return "notFound"
	case errors.Is(err, meta.ErrObjectWasNotRemoved):
		return "notRemoved"
	case errors.Is(err, meta.ErrReviveFromContainerGarbage):
		return "cnrGarbage"
	case strings.Contains(err.Error(), "write-cache is disabled"):
		return "wcDisabled"
	}
	return "other"
}

// modesDigest hashes the relative path and content of every regular file under dir.
func modesDigest(dir string) string {
	var parts []string
	_ = filepath.WalkDir(dir, func(p string, d fs.DirEntry, err error) error {
		if err != nil || d.IsDir() {
			return nil
		}
		b, rerr := os.ReadFile(p)
		if rerr != nil {
			return nil
		}
		rel, _ := filepath.Rel(dir, p)
		h := sha256.Sum256(b)
		parts = append(parts, rel+":"+strconv.Itoa(len(b))+":"+hex.EncodeToString(h[:8]))
		return nil
	})
	sort.Strings(parts)
	return strings.Join(parts, "\n")
}

func modesDigestDiff(a, b string) string {
	am := map[string]bool{}
	for _, l := range strings.Split(a, "\n") {
		am[l] = true
	}
	bm := map[string]bool{}
	for _, l := range strings.Split(b, "\n") {
		bm[l] = true
	}
	var d []string
	for l := range am {
		if !bm[l] {
			d = append(d, "-"+l)
		}
	}
	for l := range bm {
		if !am[l] {
			d = append(d, "+"+l)
		}
	}
	sort.Strings(d)
	if len(d) > 6 {
		d = d[:6]
	}
	return strings.Join(d, " ")
}

func modesObj(o opLine) *object.Object {
	h := mHdr{id: o.kv["o"], typ: o.kv["typ"]}
	if v, ok := o.kv["size"]; ok {
		h.size, _ = strconv.Atoi(v)
	}
	if v, ok := o.kv["assoc"]; ok {
		h.assoc, _ = strconv.Atoi(v)
	}
	if v, ok := o.kv["exp"]; ok {
		h.exp, h.hasExp = v, true
	}
	if h.typ == "" {
		h.typ = "REG"
	}
	return buildHdr(o.int("c"), h, nil)
}

func modesIDs(xs []int) []oid.ID {
	r := make([]oid.ID, len(xs))
	for i, x := range xs {
		r[i] = numOID(x)
	}
	return r
}

func showAddrList(as []oid.Address) string {
	if len(as) == 0 {
		return "-"
	}
	type ca struct{ c, o int }
	l := make([]ca, len(as))
	for i, a := range as {
		l[i] = ca{cidNum(a.Container()), oidNum(a.Object())}
	}
	sort.Slice(l, func(i, j int) bool { return l[i].c < l[j].c || (l[i].c == l[j].c && l[i].o < l[j].o) })
	s := make([]string, len(l))
	for i, x := range l {
		s[i] = fmt.Sprintf("%d/%d", x.c, x.o)
	}
	return strings.Join(s, ",")
}

func modesExec(c *runCtx, ops []string) {
	verifhook.SetFault(modesFaultFn)
	verifhook.SetPoint(modesPointFn)
	verifhook.SetDuration(modesDurationFn)
	modesFault.Store("")
	modesUnparked.Store(false)
	dir := scratchDir("modes")
	defer os.RemoveAll(dir)

	var (
		sh    *shard.Shard
		bs    *fstree.FSTree
		ep    *epochSrc
		hasWC bool
		last  string // digest after the previous operation
		// the switch that failed last, while no later switch has succeeded ("" = reported and actual modes agree)
		failedSwitch string
		// the components have been closed and opened again without Init and no switch has succeeded since
		reopened bool
		// that cycle happened in a mode without metabase: Shard.Open opened a bolt handle the mode does not use
		handleLeft bool
	)
	closeShard := func() {
		if sh != nil {
			_ = sh.Close()
			sh = nil
		}
	}
	defer closeShard()
	var sub string
	start := func(m mode.Mode) {
		e := &epochSrc{}
		if ep != nil {
			e.e.Store(ep.e.Load())
		}
		ep = e
		bs = fstree.New(fstree.WithPath(filepath.Join(sub, "blob")), fstree.WithDepth(1), fstree.WithNoSync(true))
		sh = newShard(sub, shardCfg{wc: hasWC, epoch: ep, extra: []shard.Option{shard.WithBlobstor(bs), shard.WithContainerPayments(modesPay{}), shard.WithMode(m)}})
	}
	open := func(wc bool) {
		closeShard()
		sub = filepath.Join(dir, fmt.Sprintf("sh%d", c.nOps))
		ep = nil
		hasWC = wc
		start(mode.ReadWrite)
		last = ""
		failedSwitch = ""
		reopened, handleLeft = false, false
	}
	// settle lets the real background activity of the shard run: the write-cache flush scheduler is unparked until it
	// has taken two ticks (one full pass over the cache is then complete), parked again, and the flush workers are
	// waited for. When no scheduler is alive (or none shows up in time) nothing can be waited for: the op takes a
	// few tick periods and returns.
	settle := func() {
		if !hasWC || sh.VerifWriteCache() == nil {
			time.Sleep(2 * modesTick)
			return
		}
		waitTicks := func(from, n int64, limit time.Duration) {
			deadline := time.Now().Add(limit)
			for modesTicks.Load() < from+n && time.Now().Before(deadline) {
				time.Sleep(time.Millisecond)
			}
		}
		limit := 30 * modesTick
		if modesSchedAlive.Load() > 0 {
			limit = 30 * time.Second
		}
		t0 := modesTicks.Load()
		modesUnparked.Store(true)
		waitTicks(t0, 2, limit)
		modesUnparked.Store(false)
		if t1 := modesTicks.Load(); t1 > t0 {
			waitTicks(t1, 1, 30*time.Second) // the pass in progress ends before the next (parked) tick
		}
		writecache.VerifWaitFlushed(sh.VerifWriteCache())
	}
	shardDir := func() string { return sub }

	dump := func() string {
		mm, mopen := sh.VerifMetabaseMode()
		b2s := func(b bool) string {
			if b {
				return "1"
			}
			return "0"
		}
		wcm := "-"
		var wcAddrs []oid.Address
		if hasWC {
			m, ro := writecache.VerifMode(sh.VerifWriteCache())
			wcm = fmt.Sprintf("%d,%s", uint32(m), b2s(ro))
			_ = writecache.VerifFiles(sh.VerifWriteCache(), func(a oid.Address, _ []byte) error {
				wcAddrs = append(wcAddrs, a)
				return nil
			})
		}
		var blobAddrs []oid.Address
		_ = bs.IterateAddresses(func(a oid.Address) error {
			blobAddrs = append(blobAddrs, a)
			return nil
		}, true)
		var ex strings.Builder
		for cn := 1; cn <= modesNC; cn++ {
			for o := 1; o <= modesNO; o++ {
				ok, err := sh.Exists(numAddr(cn, o), false)
				switch e := modesErr(err); e {
				case "ok":
					if ok {
						ex.WriteByte('T')
					} else {
						ex.WriteByte('F')
					}
				case "notFound":
					ex.WriteByte('N')
				case "alreadyRemoved":
					ex.WriteByte('R')
				case "expired":
					ex.WriteByte('X')
				case "compRefused":
					ex.WriteByte('C')
				default:
					ex.WriteByte('O')
				}
			}
		}
		return fmt.Sprintf("mode=%d meta=%d,%s blobro=%s wcm=%s blob=%s wc=%s ex=%s", uint32(sh.GetMode()), uint32(mm), b2s(mopen),
			b2s(bs.VerifReadOnly()), wcm, showAddrList(blobAddrs), showAddrList(wcAddrs), ex.String())
	}

	oracle := func(assertion string, ok bool, detail string) {
		if strings.HasPrefix(assertion, "after-failed-switch:") && c.prop != "C43" {
			return // the window after a failed switch is C43's subject (C14 quantifies over fault-free histories)
		}
		if strings.HasPrefix(assertion, "after-reopen:") && c.prop != "C14" {
			return // stored data over the close/open cycle is C14's subject
		}
		if !ok {
			if c.hist["oracle_fail:"+assertion] >= 2 { // two witnesses per assertion are recorded (each is shrunk separately)
				c.count("oracle_fail:" + assertion)
				return
			}
		}
		c.oracle(assertion, ok, detail)
	}
	storedSet := func() map[string]bool {
		m := map[string]bool{}
		_ = bs.IterateAddresses(func(a oid.Address) error {
			m[fmt.Sprintf("%d/%d", cidNum(a.Container()), oidNum(a.Object()))] = true
			return nil
		}, true)
		if hasWC {
			_ = writecache.VerifFiles(sh.VerifWriteCache(), func(a oid.Address, _ []byte) error {
				m[fmt.Sprintf("%d/%d", cidNum(a.Container()), oidNum(a.Object()))] = true
				return nil
			})
		}
		return m
	}
	// compsAgree: every component is in the mode the shard reports
	compsAgree := func() bool {
		m := sh.GetMode()
		mm, mopen := sh.VerifMetabaseMode()
		if mm != m || bs.VerifReadOnly() != m.ReadOnly() {
			return false
		}
		if mopen == m.NoMetabase() && !(mopen && handleLeft) {
			// (an open handle in a mode without metabase is what Shard.Open leaves behind after a close/open cycle in
			// such a mode: no request can see it, the metabase refuses on its mode; it is closed by the next switch)
			return false
		}
		if hasWC {
			wm, _ := writecache.VerifMode(sh.VerifWriteCache())
			return wm == m
		}
		return true
	}
	for _, line := range ops {
		o := parseOp(line)
		c.count(o.name)
		if o.name == "cfg" {
			if _, err := strconv.Atoi(o.kv["wc"]); err != nil {
				c.emit(line, "=> bad-op")
				continue
			}
			open(o.kv["wc"] != "0")
			c.emit(line, "=> ok "+dump())
			last = modesDigest(shardDir())
			continue
		}
		if sh == nil {
			open(true)
			last = modesDigest(shardDir())
		}
		before := sh.GetMode()
		storedBefore := storedSet()
		mmBefore, _ := sh.VerifMetabaseMode()
		reopenedBefore := reopened
		var (
			err   error
			extra string
			known = true
		)
		safe := func(f func()) {
			defer func() {
				if r := recover(); r != nil {
					err = fmt.Errorf("panic: %v", r)
				}
			}()
			f()
		}
		safe(func() {
			switch o.name {
			case "put":
				err = sh.Put(modesObj(o), nil)
			case "get":
				_, err = sh.Get(numAddr(o.int("c"), o.int("o")), false)
			case "head":
				_, err = sh.Head(numAddr(o.int("c"), o.int("o")), false)
			case "exists":
				var ok bool
				ok, err = sh.Exists(numAddr(o.int("c"), o.int("o")), false)
				if err == nil {
					extra = map[bool]string{true: " 1", false: " 0"}[ok]
				}
			case "islocked":
				var ok bool
				ok, err = sh.IsLocked(numAddr(o.int("c"), o.int("o")))
				if err == nil {
					extra = map[bool]string{true: " 1", false: " 0"}[ok]
				}
			case "delete":
				err = sh.Delete(numCID(o.int("c")), modesIDs(o.ints("ids")))
			case "mark":
				mk := meta.GarbageMarkDefault
				if o.int("red") != 0 {
					mk = meta.GarbageMarkRedundant
				}
				err = sh.MarkGarbage(numCID(o.int("c")), modesIDs(o.ints("ids")), mk)
			case "inhumecnr":
				err = sh.InhumeContainer(numCID(o.int("c")))
			case "delcnr":
				err = sh.DeleteContainer(c.ctx(), numCID(o.int("c")))
			case "revive":
				_, err = sh.ReviveObject(numAddr(o.int("c"), o.int("o")))
			case "list":
				var res []oid.Address
				items, _, lerr := sh.ListWithCursor(100, nil)
				if errors.Is(lerr, meta.ErrEndOfListing) {
					lerr = nil
				}
				err = lerr
				for _, it := range items {
					res = append(res, it.Address)
				}
				if err == nil {
					extra = " " + showAddrList(res)
				}
			case "select":
				fl := object.NewSearchFilters()
				fl.AddPhyFilter()
				_, err = sh.Select(numCID(o.int("c")), fl)
			case "listcnr":
				var cs []cid.ID
				cs, err = sh.ListContainers()
				if err == nil {
					var ns []int
					for _, x := range cs {
						ns = append(ns, cidNum(x))
					}
					sort.Ints(ns)
					extra = " " + joinInts(ns)
				}
			case "cinfo":
				var ci meta.ContainerInfo
				ci, err = sh.ContainerInfo(numCID(o.int("c")))
				_ = ci // the numbers are the metabase counters' business (C02); only the outcome class is observed here
			case "flush":
				err = sh.FlushWriteCache(false)
			case "flushtick":
				if hasWC {
					// a batch nobody takes within 30 ticks: no flush worker is running (closed and opened again without Init)
					writecache.VerifFlushTickWithin(sh.VerifWriteCache(), 30*modesTick)
				}
			case "settle":
				settle()
			case "reopen": // Shard.Close, Shard.Open and NO Init: StorageEngine.BlockExecution / ResumeExecution
				err = sh.Close()
				if oerr := sh.Open(); err == nil {
					err = oerr
				}
			case "gc":
				sh.VerifRemoveGarbage()
			case "epoch":
				e := o.u64("e")
				ep.e.Store(e)
				sh.VerifHandleNewEpoch(e)
			case "restore":
				var buf bytes.Buffer
				buf.WriteString("NEOF")
				for _, id := range o.ints("ids") {
					b := buildHdr(o.int("c"), mHdr{id: strconv.Itoa(id), typ: "REG"}, nil).Marshal()
					var sz [4]byte
					binary.LittleEndian.PutUint32(sz[:], uint32(len(b)))
					buf.Write(sz[:])
					buf.Write(b)
				}
				_, _, err = sh.Restore(&buf, false)
			case "restart": // stop the shard and start it again on the same directory with a CONFIGURED mode
				m, perr := strconv.ParseUint(o.kv["m"], 10, 32)
				if perr != nil {
					known = false
					return
				}
				closeShard()
				start(mode.Mode(m))
				reopened, handleLeft = false, false
			case "setmode":
				m, perr := strconv.ParseUint(o.kv["m"], 10, 32)
				f, okf := o.kv["fail"]
				if !okf {
					f = "none"
				}
				pt, okp := modesFaultPoints[f]
				if perr != nil || (f != "none" && !okp) {
					known = false
					return
				}
				modesFault.Store(pt)
				err = sh.SetMode(mode.Mode(m))
				modesFault.Store("")
			default:
				known = false
			}
		})
		if !known {
			c.emit(line, "=> bad-op")
			continue
		}
		res := modesErr(err)
		if res == "other" && err != nil {
			c.count("other:" + clip(err.Error()))
		}
		c.count("res:" + res)
		now := modesDigest(shardDir())
		stored := storedSet()
		dumped := dump()
		c.emit(line, "=> "+res+extra+" "+dumped) // recorded first: a failing oracle reports the sequence INCLUDING this op
		if mmAfter, _ := sh.VerifMetabaseMode(); o.name == "reopen" {
			reopened = true
			handleLeft = mmAfter.NoMetabase()
		} else if mmAfter != mmBefore {
			handleLeft = false
		}

		// ---- the properties' own oracles
		// the properties name the modes; the oracles do not go through the predicates under test
		isRO := before == mode.ReadOnly || before == mode.DegradedReadOnly || before == mode.Disabled
		noMeta := before == mode.Degraded || before == mode.DegradedReadOnly || before == mode.Disabled
		// After a FAILED switch, until the next successful one, the components may be in other modes than the
		// reported one (docs/shard-modes.md says so): assertions evaluated in that window carry the prefix
		// "after-failed-switch:" and the failed switch in their detail (known finding C43-partial-switch).
		pfx, sfx := "", ""
		if failedSwitch != "" {
			pfx, sfx = "after-failed-switch:", " [after the failed switch "+failedSwitch+"]"
		}
		if isRO {
			c.count("in-read-only:" + o.name)
			leaves := o.name == "restart" // a restart opens and initializes every component for writing before the configured mode applies
			if o.name == "setmode" {
				if m, perr := strconv.ParseUint(o.kv["m"], 10, 32); perr == nil && (m == 0 || m == 2) {
					leaves = true // the request to leave the read-only mode may write (it re-opens the components for writing)
				}
			}
			if !leaves {
				toNoMeta := false
				if o.name == "setmode" {
					m, _ := strconv.ParseUint(o.kv["m"], 10, 32)
					toNoMeta = m == 3 || m == 4294967295
				}
				if reopenedBefore && toNoMeta && failedSwitch == "" {
					// known finding C14-reopen-switch-flush: the close/open cycle left the blobstor writable and the
					// write-cache flushes before it enters a mode without metabase
					oracle("after-reopen:switch-to-mode-without-metabase-freezes-stored-data", last == now,
						fmt.Sprintf("files under the shard directory changed during %q in mode %s: %s [after the close/open cycle without Init]", line, before, modesDigestDiff(last, now)))
				} else {
					if reopenedBefore {
						sfx += " [after a close/open cycle without Init]"
					}
					oracle(pfx+"read-only-mode-freezes-stored-data", last == now,
						fmt.Sprintf("files under the shard directory changed during %q in mode %s: %s%s", line, before, modesDigestDiff(last, now), sfx))
				}
			}
			switch o.name {
			case "put", "delete", "mark", "inhumecnr", "delcnr", "revive", "restore":
				// holds whatever the components' state is: the guard reads the reported mode only
				oracle("modifying-request-fails-with-mode-error", res == "readOnly",
					fmt.Sprintf("%q in mode %s answered %s (%v)", line, before, res, err))
			case "flush":
				oracle("modifying-request-fails-with-mode-error", res == "readOnly" || (!hasWC && res == "wcDisabled"),
					fmt.Sprintf("%q in mode %s answered %s (%v)", line, before, res, err))
			}
		}
		// the mode table: which requests the reported mode accepts (no mode-related refusal) and rejects
		rejected := res == "readOnly" || res == "degraded" || res == "compRefused" || res == "injected"
		wantReject, table := false, true
		switch o.name {
		case "put", "restore":
			wantReject = isRO
		case "delete", "mark", "inhumecnr", "delcnr", "revive":
			wantReject = isRO || noMeta
		case "flush":
			wantReject = (isRO || noMeta) && hasWC
			if !hasWC {
				table = false // answers "write-cache is disabled" in every mode
			}
		case "list", "select", "listcnr", "cinfo", "islocked":
			wantReject = noMeta
		case "get", "head", "exists":
			wantReject = false
		default:
			table = false
		}
		if table && res != "other" {
			oracle(pfx+"outcome-matches-reported-mode", rejected == wantReject,
				fmt.Sprintf("%q in reported mode %s answered %s (%v); the mode table says %s%s", line, before, res, err,
					map[bool]string{true: "reject", false: "accept"}[wantReject], sfx))
		}
		if o.name == "setmode" || o.name == "restart" {
			// a switch, successful or not, never loses a stored object (the write-cache may hand objects to the blobstor)
			lost := ""
			for a := range storedBefore {
				if !stored[a] {
					lost += " " + a
				}
			}
			oracle("mode-switch-keeps-stored-objects", lost == "", fmt.Sprintf("%q lost%s", line, lost))
			if res == "ok" {
				failedSwitch = ""
				reopened = false
				want := o.kv["m"]
				oracle("successful-switch-reports-and-reaches-target", fmt.Sprint(uint32(sh.GetMode())) == want && compsAgree(),
					fmt.Sprintf("%q succeeded; reported %s, components: %s", line, sh.GetMode(), dumped))
			} else if o.name == "setmode" {
				failedSwitch = line
				oracle("failed-switch-keeps-reported-mode", sh.GetMode() == before, fmt.Sprintf("%q failed; reported mode %s -> %s", line, before, sh.GetMode()))
			}
		}
		last = now
	}
	if len(ops) > 5 {
		c.nontrivial(fmt.Sprint(ops))
	}
}

// ---------------------------------------------------------------------------- generation

type modesWorld struct {
	c   *runCtx
	typ [modesNO + 1]string
	asc [modesNO + 1]int
	exp [modesNO + 1]int // -1 = no expiration attribute
}

func newModesWorld(c *runCtx) *modesWorld {
	w := &modesWorld{c: c}
	for i := 1; i <= modesNO; i++ {
		w.typ[i], w.exp[i] = "REG", -1
		if c.rng.IntN(4) == 0 {
			w.exp[i] = 1 + c.rng.IntN(6)
		}
	}
	// ids 7 and 8 are a tombstone and a lock for one of the regular objects
	w.typ[7], w.asc[7], w.exp[7] = "TS", 1+c.rng.IntN(6), 2+c.rng.IntN(5)
	w.typ[8], w.asc[8], w.exp[8] = "LOCK", 1+c.rng.IntN(6), 2+c.rng.IntN(5)
	if c.rng.IntN(3) == 0 {
		w.typ[8], w.asc[8], w.exp[8] = "REG", 0, -1
	}
	return w
}

func (w *modesWorld) put(cn, id int) string {
	s := fmt.Sprintf("modes put c=%d o=%d typ=%s size=%d", cn, id, w.typ[id], id*10)
	if w.asc[id] != 0 {
		s += fmt.Sprintf(" assoc=%d", w.asc[id])
	}
	if w.exp[id] >= 0 {
		s += fmt.Sprintf(" exp=%d", w.exp[id])
	}
	return s
}

func (w *modesWorld) ids() string {
	n := 1 + w.c.rng.IntN(3)
	seen := map[int]bool{}
	var xs []int
	for len(xs) < n {
		x := 1 + w.c.rng.IntN(modesNO)
		if !seen[x] {
			seen[x] = true
			xs = append(xs, x)
		}
	}
	return joinInts(xs)
}

// op draws one operation; writes is the weight (percent) of modifying requests and background jobs.
func (w *modesWorld) op() string {
	r := w.c.rng
	cn, id := 1+r.IntN(modesNC), 1+r.IntN(modesNO)
	switch k := r.IntN(100); {
	case k < 22:
		return w.put(cn, id)
	case k < 28:
		return fmt.Sprintf("modes delete c=%d ids=%s", cn, w.ids())
	case k < 36:
		return fmt.Sprintf("modes mark c=%d ids=%s red=%d", cn, w.ids(), r.IntN(2))
	case k < 38:
		return fmt.Sprintf("modes inhumecnr c=%d", cn)
	case k < 40:
		return fmt.Sprintf("modes delcnr c=%d", cn)
	case k < 45:
		return fmt.Sprintf("modes revive c=%d o=%d", cn, id)
	case k < 48:
		return fmt.Sprintf("modes restore c=%d ids=%s", cn, w.ids())
	case k < 54:
		return "modes flush"
	case k < 59:
		return "modes flushtick"
	case k < 62:
		return "modes settle"
	case k < 72:
		return "modes gc"
	case k < 78:
		return fmt.Sprintf("modes epoch e=%d", r.IntN(9))
	case k < 83:
		return fmt.Sprintf("modes get c=%d o=%d", cn, id)
	case k < 87:
		return fmt.Sprintf("modes head c=%d o=%d", cn, id)
	case k < 90:
		return fmt.Sprintf("modes exists c=%d o=%d", cn, id)
	case k < 92:
		return fmt.Sprintf("modes islocked c=%d o=%d", cn, id)
	case k < 94:
		return "modes list"
	case k < 96:
		return fmt.Sprintf("modes select c=%d", cn)
	case k < 98:
		return "modes listcnr"
	default:
		return fmt.Sprintf("modes cinfo c=%d", cn)
	}
}

var modesAll = []uint32{0, 1, 2, 3, 4294967295}

func modesGen(c *runCtx, run func([]string)) {
	faults := c.prop == "C43"
	for i := 0; i < c.n(70, 3000); i++ {
		w := newModesWorld(c)
		r := c.rng
		ops := []string{fmt.Sprintf("modes cfg wc=%d", i%2)}
		// a writable prefix that leaves objects in every place: blobstor, write-cache, garbage, graveyard
		for j, n := 0, 4+r.IntN(9); j < n; j++ {
			if r.IntN(3) == 0 {
				ops = append(ops, w.put(1+r.IntN(modesNC), 1+r.IntN(modesNO)))
			} else {
				ops = append(ops, w.op())
			}
		}
		if !faults && r.IntN(10) == 0 { // the maintenance cycle in read-write mode: nothing flushes until a restart
			ops = append(ops, "modes reopen", w.put(1+r.IntN(modesNC), 1+r.IntN(modesNO)), "modes settle", "modes flushtick")
		}
		// a close/open cycle without Init has happened and no switch since: a switch to a mode without metabase would
		// now flush the cache into the writable blobstor (known finding C14-reopen-switch-flush); only every 12th
		// history keeps such switches, the others go to ReadOnly first
		reopened, triggers := false, i%12 == 5
		setmode := func(m uint32) string {
			if reopened && !triggers && (m == 3 || m == 4294967295) {
				m = 1
			}
			reopened = false
			s := fmt.Sprintf("modes setmode m=%d", m)
			if faults && r.IntN(3) == 0 {
				s += " fail=" + []string{"metaEntry", "metaOpen", "blob", "wc"}[r.IntN(4)]
			}
			return s
		}
		for phase, np := 0, 1+r.IntN(3); phase < np; phase++ {
			var m uint32
			if faults {
				m = modesAll[r.IntN(len(modesAll))]
			} else {
				// C14: mostly the two read-only modes, sometimes a writable one in between
				m = []uint32{1, 3, 1, 3, 1, 3, 4294967295, 0, 2}[r.IntN(9)]
			}
			if r.IntN(5) == 0 {
				ops = append(ops, fmt.Sprintf("modes restart m=%d", m)) // the period starts by configuration
				reopened = false
			} else {
				ops = append(ops, setmode(m))
			}
			// C14: in every second period the engine's maintenance cycle (close, open again without Init) happens at
			// some point, followed by a tick of the real flush scheduler
			cycleAt := -1
			if !faults && r.IntN(2) == 0 {
				cycleAt = r.IntN(4)
			}
			for j, n := 0, 3+r.IntN(10); j < n; j++ {
				if j == cycleAt {
					ops = append(ops, "modes reopen", "modes settle")
					reopened = true
				}
				if r.IntN(8) == 0 {
					if faults {
						ops = append(ops, setmode(modesAll[r.IntN(len(modesAll))]))
					} else {
						ops = append(ops, setmode([]uint32{1, 3, 3, 1, 4294967295}[r.IntN(5)]))
					}
				} else {
					ops = append(ops, w.op())
				}
			}
		}
		// back to read-write and a full read-back
		ops = append(ops, "modes setmode m=0")
		if faults {
			ops = append(ops, "modes setmode m=0")
		}
		ops = append(ops, w.put(1, 1+r.IntN(modesNO)), "modes gc", "modes flush", "modes list")
		run(ops)
	}
}
