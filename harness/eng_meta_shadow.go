package main

import "github.com/nspcc-dev/neofs-node/pkg/local_object_storage/blobstor/common"

func numShardID() common.ID { return common.ID{} }

// metaShadow is the property oracle's own view of the history (filled in below).
type metaShadow struct{ epoch int }

func newMetaShadow() *metaShadow                           { return &metaShadow{} }
func (s *metaShadow) put(cn int, o opLine, err error)      {}
func (s *metaShadow) mark(cn int, ids []int, red bool)     {}
func (s *metaShadow) inhumeCnr(cn int)                     {}
func (s *metaShadow) delCnr(cn int)                        {}
func (s *metaShadow) delete(cn int, ids []int)             {}
func (s *metaShadow) revive(cn, o int, ok bool)            {}
func (s *metaShadow) check(c *runCtx, m *metaDB, d string) {}
