package main

import (
	"bytes"
	"context"
	"crypto/sha256"
	"errors"
	"fmt"
	"io"
	"sort"
	"strings"
	"sync"
	"time"

	"github.com/google/uuid"
	"github.com/nspcc-dev/neo-go/pkg/crypto/keys"
	clientcore "github.com/nspcc-dev/neofs-node/pkg/core/client"
	objectcore "github.com/nspcc-dev/neofs-node/pkg/core/object"
	putsvc "github.com/nspcc-dev/neofs-node/pkg/services/object/put"
	"github.com/nspcc-dev/neofs-node/pkg/services/object/tombstone"
	objutil "github.com/nspcc-dev/neofs-node/pkg/services/object/util"
	"github.com/nspcc-dev/neofs-node/pkg/util/verifbridge"
	"github.com/nspcc-dev/neofs-sdk-go/checksum"
	"github.com/nspcc-dev/neofs-sdk-go/client"
	apistatus "github.com/nspcc-dev/neofs-sdk-go/client/status"
	cid "github.com/nspcc-dev/neofs-sdk-go/container/id"
	"github.com/nspcc-dev/neofs-sdk-go/netmap"
	"github.com/nspcc-dev/neofs-sdk-go/object"
	oid "github.com/nspcc-dev/neofs-sdk-go/object/id"
	protoobject "github.com/nspcc-dev/neofs-sdk-go/proto/object"
	"github.com/nspcc-dev/neofs-sdk-go/session"
	sessionv2 "github.com/nspcc-dev/neofs-sdk-go/session/v2"
	"github.com/nspcc-dev/neofs-sdk-go/user"
	"github.com/nspcc-dev/neofs-sdk-go/version"
	"go.uber.org/zap"
	"google.golang.org/protobuf/encoding/protowire"
)

// ---------------------------------------------------------------------------------------------------------
// op  validate authseq cap=C objs=…        (C24: authentication has no memory)
//
// One FormatValidator with ONE real ObjectSessionsCache of capacity C validates the objects of the list in order
// (FormatValidator.Validate -> icrypto.AuthenticateObject). An object is the number
//     sigBad*1000 + token*100 + owner*10 + signer
// users/keys: 1 Alice, 2 Bob, 3 the gateway (session key); tokens (valTokens): 0 none, 1 V1 Alice->gw,
// 2 V1 Bob->gw, 3 V2 Alice->gw, 4 V2 Bob->gw, 5 V1 Alice->gw with a broken token signature, 6 the same for V2,
// 7 V1 Alice->Bob's key. Observation: the verdict class of every object.
// Oracles: every verdict equals the verdict of a FRESH validator (empty cache) on the same object; an accepted
// object is bound to its owner (the owner signed it, or the session was issued by the owner).
// ---------------------------------------------------------------------------------------------------------

func valUserKey(n int) *keys.PrivateKey {
	b := make([]byte, 32)
	b[0], b[31] = 11, byte(n)
	k, err := keys.NewPrivateKeyFromBytes(b)
	if err != nil {
		panic(err)
	}
	return k
}

var valUsers = func() map[int]user.Signer {
	m := map[int]user.Signer{}
	for n := 1; n <= 3; n++ {
		m[n] = user.NewAutoIDSigner(valUserKey(n).PrivateKey)
	}
	return m
}()

const valTokenKinds = 9

type valToken struct {
	v1             *session.Object
	v2             *sessionv2.Token
	issuer, subjct int
	sigValid       bool
}

var (
	valTokensOnce sync.Once
	valTokensTab  map[int]valToken
)

func valTokens() map[int]valToken {
	valTokensOnce.Do(func() {
		valTokensTab = map[int]valToken{}
		mkV1 := func(issuer, subject int, breakSig bool) valToken {
			var tok session.Object
			tok.SetID(uuid.UUID{byte(issuer), byte(subject), 1})
			tok.SetExp(100)
			tok.SetNbf(1)
			tok.SetIat(1)
			tok.BindContainer(numCID(1))
			tok.ForVerb(session.VerbObjectPut)
			tok.SetAuthKey(valUsers[subject].Public())
			if err := tok.Sign(valUsers[issuer]); err != nil {
				panic(err)
			}
			if breakSig {
				tok.SetExp(101) // signed data changed after signing
			}
			return valToken{v1: &tok, issuer: issuer, subjct: subject, sigValid: !breakSig}
		}
		mkV2 := func(issuer, subject int, breakSig bool) valToken {
			var tok sessionv2.Token
			tok.SetVersion(sessionv2.TokenCurrentVersion)
			now := time.Now()
			tok.SetIat(now)
			tok.SetNbf(now)
			tok.SetExp(now.Add(time.Hour))
			sctx, err := sessionv2.NewContext(numCID(1), []sessionv2.Verb{sessionv2.VerbObjectPut})
			if err != nil {
				panic(err)
			}
			if err := tok.SetContexts([]sessionv2.Context{sctx}); err != nil {
				panic(err)
			}
			if err := tok.SetSubjects([]sessionv2.Target{sessionv2.NewTargetUser(valUsers[subject].UserID())}); err != nil {
				panic(err)
			}
			if err := tok.Sign(valUsers[issuer]); err != nil {
				panic(err)
			}
			if breakSig {
				tok.SetExp(now.Add(2 * time.Hour))
			}
			return valToken{v2: &tok, issuer: issuer, subjct: subject, sigValid: !breakSig}
		}
		valTokensTab[1] = mkV1(1, 3, false)
		valTokensTab[2] = mkV1(2, 3, false)
		valTokensTab[3] = mkV2(1, 3, false)
		valTokensTab[4] = mkV2(2, 3, false)
		valTokensTab[5] = mkV1(1, 3, true)
		valTokensTab[6] = mkV2(1, 3, true)
		valTokensTab[7] = mkV1(1, 2, false)
		// forged tokens: another body (the session key is Bob's) under the SIGNATURE of a genuine token of Alice -
		// the signature value alone says nothing about the body it comes with
		{
			var tok session.Object
			tok.SetID(uuid.UUID{1, 2, 8})
			tok.SetExp(100)
			tok.SetNbf(1)
			tok.SetIat(1)
			tok.BindContainer(numCID(1))
			tok.ForVerb(session.VerbObjectPut)
			tok.SetAuthKey(valUsers[2].Public())
			tok.SetIssuer(valUsers[1].UserID())
			sig, _ := valTokensTab[1].v1.Signature()
			tok.AttachSignature(sig)
			valTokensTab[8] = valToken{v1: &tok, issuer: 1, subjct: 2, sigValid: false}
		}
		{
			g := mkV2(1, 2, false)
			sig, _ := valTokensTab[3].v2.Signature()
			g.v2.AttachSignature(sig)
			g.sigValid = false
			valTokensTab[9] = g
		}
	})
	return valTokensTab
}

// valAuthObject builds the sealed object of a code (nil: the code is outside the table)
func valAuthObject(code int) *object.Object {
	sigBad, tok, owner, signer := code/1000, code/100%10, code/10%10, code%10
	if sigBad > 1 || tok > valTokenKinds || owner < 1 || owner > 3 || signer < 1 || signer > 3 {
		return nil
	}
	obj := object.New(numCID(1), valUsers[owner].UserID())
	ver := version.Current()
	obj.SetVersion(&ver)
	obj.SetType(object.TypeRegular)
	obj.SetCreationEpoch(9)
	payload := detPayload(8, code)
	obj.SetPayloadSize(uint64(len(payload)))
	obj.SetPayloadChecksum(checksum.NewSHA256(sha256.Sum256(payload)))
	obj.SetAttributes(object.NewAttribute("code", fmt.Sprint(code)))
	if tok > 0 {
		t := valTokens()[tok]
		if t.v1 != nil {
			obj.SetSessionToken(t.v1)
		} else {
			obj.SetSessionTokenV2(t.v2)
		}
	}
	if err := obj.CalculateAndSetID(); err != nil {
		panic(err)
	}
	if err := obj.Sign(valUsers[signer]); err != nil {
		panic(err)
	}
	if sigBad == 1 {
		sig := obj.Signature()
		v := append([]byte(nil), sig.Value()...)
		v[len(v)-1] ^= 1
		obj.SetSignature(ptrSig(sig.Scheme(), sig.PublicKeyBytes(), v))
	}
	return obj
}

func valAuthClass(err error) string {
	if err == nil {
		return "ok"
	}
	s := err.Error()
	switch {
	case strings.Contains(s, "session token is not for object's signer"), strings.Contains(s, "session v2 token is not for object's signer"):
		return "sessionKey"
	case strings.Contains(s, "different object owner and session"):
		return "sessionOwner"
	case strings.Contains(s, "session token: "), strings.Contains(s, "session token v2: "):
		return "sessionToken"
	case strings.Contains(s, "owner mismatches signature"):
		return "owner"
	case strings.Contains(s, "signature mismatch"):
		return "signature"
	}
	return "other"
}

func valNewFmt(cache *verifbridge.ObjectSessionsCache) *objectcore.FormatValidator {
	return objectcore.NewFormatValidator(nil, nil, valCnrs{known: numCID(1)}, objectcore.WithNetState(valEpoch{}),
		objectcore.WithLockSource(valLocks{}), objectcore.WithSessionTokensCache(cache))
}

func valAuthSeq(c *runCtx, line string, o opLine) {
	capN, codes := o.int("cap"), o.ints("objs")
	if capN < 1 || capN > 64 {
		c.emit(line, "=> bad-op")
		return
	}
	objs := make([]*object.Object, len(codes))
	for i, code := range codes {
		if objs[i] = valAuthObject(code); objs[i] == nil {
			c.emit(line, "=> bad-op")
			return
		}
	}
	shared := valNewFmt(verifbridge.NewObjectSessionsCache(capN))
	var got, fresh []string
	var errs []error
	func() {
		defer func() {
			if r := recover(); r != nil {
				got = append(got, "panic")
			}
		}()
		for _, obj := range objs {
			err := shared.Validate(context.Background(), obj, false, false)
			got = append(got, valAuthClass(err))
			errs = append(errs, err)
			fresh = append(fresh, valAuthClass(valNewFmt(verifbridge.NewObjectSessionsCache(1)).Validate(context.Background(), obj, false, false)))
		}
	}()
	c.emit(line, "=> v="+strings.Join(got, ","))
	for i := range errs {
		code := codes[i]
		tok, owner, signer := code/100%10, code/10%10, code%10
		detail := fmt.Sprintf("object #%d (code %d: token %d, owner %d, signer %d) after %v: shared validator says %q (%v), a fresh validator says %q",
			i+1, code, tok, owner, signer, codes[:i], got[i], errs[i], fresh[i])
		c.oracle("verdict-independent-of-validation-history", got[i] == fresh[i], detail)
		if errs[i] == nil {
			bound := signer == owner
			if tok > 0 {
				t := valTokens()[tok]
				bound = t.issuer == owner && t.subjct == signer && t.sigValid
			}
			c.oracle("accepted-object-bound-to-its-owner", bound && code/1000 == 0, detail)
		}
	}
	if len(codes) > 1 {
		c.nontrivial(line)
	}
}

// ---------------------------------------------------------------------------------------------------------
// op  validate entry via=V typ=T kind=K hdr=H sealed=S       (C24: no object of invalid format is stored)
//
// A cluster of three REAL put services: container nodes 1 and 2 (REP 2), node 3 outside the container; every node
// has its own recording local storage and its own FormatValidator with the REAL tombstone verifier over a fixed
// object universe (valHead) and a table-driven split-chain verifier. Remote hops are real too: a replication
// request is decoded and handed to the receiver's ValidateAndStoreObjectLocally (what Server.Replicate does after
// its signature checks), a forwarded PUT becomes a local-only PUT stream of the receiver's Service.
//
//	via   0 PUT at node 1; 1 local-only PUT (TTL 1) at node 1; 2 PUT at node 3 (forwards to 1 and 2 as local-only
//	      PUTs); 3 local-only PUT at node 3 (refused); 4 Replicate to node 1
//	typ   0 regular 1 tombstone 2 lock 3 link;  kind: content variant (valContentOK); hdr 1: broken signature
//	sealed 1: sealed by the client; 0: the serving node seals it (owner = the node's key; not for via=4)
//
// Observation: verdict class for the sender and the nodes that stored the object. Oracle: whatever a node's local
// storage received has a valid header and valid content (decided by the table, independently of the validators).
// ---------------------------------------------------------------------------------------------------------

func valContentOK(typ, kind int) (ok, known bool) {
	switch typ {
	case 0:
		return true, kind == 0
	case 1:
		return kind == 0 || kind == 7 || kind == 8 || kind == 9, kind >= 0 && kind <= 10
	case 2:
		return kind == 0, kind == 0 || kind == 10
	case 3:
		return kind == 0, kind >= 0 && kind <= 4
	}
	return false, false
}

var valSplitV1 = object.NewSplitID()

// valHead: the object universe the tombstone verifier sees (ids 20..29) — ObjectSource of tombstone.Verifier
type valObjSource struct{}

func (valObjSource) Head(_ context.Context, addr oid.Address) (*object.Object, error) {
	h := object.New(numCID(1), valUsers[1].UserID())
	h.SetID(addr.Object())
	switch oidNum(addr.Object()) {
	case 20:
		return h, nil
	case 21:
		h.SetType(object.TypeLock)
		return h, nil
	case 22:
		h.SetType(object.TypeTombstone)
		return h, nil
	case 23:
		h.SetType(object.TypeLink)
		return h, nil
	case 24: // child of a finished V2 chain (first part 30 has a link object)
		h.SetFirstID(numOID(30))
		h.SetPreviousID(numOID(30))
		return h, nil
	case 25: // child of a finished V1 chain
		h.SetSplitID(valSplitV1)
		return h, nil
	case 27:
		return nil, apistatus.ErrObjectAlreadyRemoved
	case 28:
		return nil, object.NewSplitInfoError(object.NewSplitInfo())
	case 29: // child of an unfinished V2 chain (first part 31, no link object)
		h.SetFirstID(numOID(31))
		h.SetPreviousID(numOID(31))
		return h, nil
	}
	return nil, errors.New("header is not available")
}

func (valObjSource) SearchOne(_ context.Context, _ cid.ID, fs object.SearchFilters) (oid.ID, error) {
	for _, f := range fs {
		if f.Header() == object.FilterFirstSplitObject && f.Value() == numOID(30).String() {
			return numOID(40), nil
		}
		if f.Header() == object.FilterSplitID && f.Value() == valSplitV1.String() {
			return numOID(41), nil
		}
	}
	return oid.ID{}, nil
}

type valSplitVerifier struct{}

func (valSplitVerifier) VerifySplit(_ context.Context, _ cid.ID, first oid.ID, children []object.MeasuredObject) error {
	if first != numOID(50) || len(children) != 2 || children[0].ObjectID() != numOID(50) {
		return errors.New("split chain is not the stored one")
	}
	return nil
}

type valStore struct {
	mu   sync.Mutex
	objs []*object.Object
}

func (s *valStore) Put(_ context.Context, obj *object.Object, _ []byte) error {
	s.mu.Lock()
	defer s.mu.Unlock()
	cp := *obj
	cp.SetPayload(append([]byte(nil), obj.Payload()...))
	s.objs = append(s.objs, &cp)
	return nil
}
func (s *valStore) IsLocked(context.Context, oid.Address) (bool, error) { return false, nil }

type valNetState struct{}

func (valNetState) CurrentEpoch() uint64         { return 10 }
func (valNetState) CurrentBlock() uint32         { return 100 }
func (valNetState) CurrentEpochDuration() uint64 { return 240 }

type valMaxSize struct{}

func (valMaxSize) MaxObjectSize() uint64 { return 1 << 20 }

type valPayments struct{}

func (valPayments) UnpaidSince(cid.ID) (int64, error) { return -1, nil }

type valCnrNodes struct{ lists [][]netmap.NodeInfo }

func (x valCnrNodes) Unsorted() [][]netmap.NodeInfo                     { return x.lists }
func (x valCnrNodes) SortForObject(oid.ID) ([][]netmap.NodeInfo, error) { return x.lists, nil }
func (x valCnrNodes) PrimaryCounts() []uint                             { return []uint{2} }
func (x valCnrNodes) ECRules() []verifbridge.ECRule                     { return nil }

type valNode struct {
	n     int
	cl    *valCluster
	store *valStore
	svc   *putsvc.Service
	key   *keys.PrivateKey
}

type valCluster struct{ nodes map[int]*valNode }

func (x *valNode) IsLocalNodePublicKey(pk []byte) bool { return putNodeNum(pk) == x.n }
func (x *valNode) GetContainerNodes(id cid.ID) (putsvc.ContainerNodes, error) {
	if id != numCID(1) {
		return nil, apistatus.ErrContainerNotFound
	}
	ns := make([]netmap.NodeInfo, 2)
	for i := range ns {
		ns[i].SetPublicKey(putNodeKey(i + 1))
		ns[i].SetNetworkEndpoints(fmt.Sprintf("localhost:%d", 10001+i))
	}
	return valCnrNodes{lists: [][]netmap.NodeInfo{ns}}, nil
}
func (x *valNode) GetEpochBlock(uint64) (uint32, error)       { return 0, errors.New("unsupported") }
func (x *valNode) GetEpochBlockByTime(uint32) (uint32, error) { return 0, errors.New("unsupported") }

// SendReplicationRequestToNode: the receiver's Replicate handler decodes the object and calls its storage step
func (x *valNode) SendReplicationRequestToNode(ctx context.Context, req []byte, node netmap.NodeInfo) ([]byte, error) {
	b := req
	for len(b) > 0 {
		num, typ, n := protowire.ConsumeTag(b)
		if n < 0 {
			return nil, protowire.ParseError(n)
		}
		b = b[n:]
		if num == protoobject.FieldReplicateRequestObject && typ == protowire.BytesType {
			v, n := protowire.ConsumeBytes(b)
			if n < 0 {
				return nil, protowire.ParseError(n)
			}
			var obj object.Object
			if err := obj.Unmarshal(v); err != nil {
				return nil, err
			}
			return nil, x.cl.nodes[putNodeNum(node.PublicKey())].svc.ValidateAndStoreObjectLocally(ctx, obj)
		}
		n = protowire.ConsumeFieldValue(num, typ, b)
		if n < 0 {
			return nil, protowire.ParseError(n)
		}
		b = b[n:]
	}
	return nil, errors.New("replicate request without object")
}

// Get: a client of the remote node whose ObjectPutInit is a local-only PUT stream of that node's Service
func (x *valNode) Get(_ context.Context, node netmap.NodeInfo) (clientcore.MultiAddressClient, error) {
	return &valClient{to: x.cl.nodes[putNodeNum(node.PublicKey())]}, nil
}

type valClient struct {
	clientcore.MultiAddressClient
	to *valNode
}

type valWriter struct {
	to  *valNode
	hdr object.Object
	buf bytes.Buffer
}

func (c *valClient) ObjectPutInit(_ context.Context, hdr object.Object, _ user.Signer, _ client.PrmObjectPutInit) (client.ObjectWriter, error) {
	return &valWriter{to: c.to, hdr: hdr}, nil
}
func (w *valWriter) Write(p []byte) (int, error)         { return w.buf.Write(p) }
func (w *valWriter) ReadFrom(r io.Reader) (int64, error) { return w.buf.ReadFrom(r) }
func (w *valWriter) GetResult() client.ResObjectPut      { return client.ResObjectPut{} }
func (w *valWriter) Close() error {
	hdr := w.hdr.CutPayload()
	return valStream(w.to, hdr, w.buf.Bytes(), true)
}

// valStream: one PUT stream served by the node's real Service
func valStream(nd *valNode, hdr *object.Object, payload []byte, localOnly bool) error {
	st, err := nd.svc.Put(context.Background())
	if err != nil {
		return err
	}
	cp := new(objutil.CommonPrm).WithLocalOnly(localOnly)
	if err := st.Init(new(putsvc.PutInitPrm).WithObject(hdr).WithCommonPrm(cp)); err != nil {
		return err
	}
	for off := 0; off < len(payload); off += 3 {
		if err := st.SendChunk(new(putsvc.PutChunkPrm).WithChunk(payload[off:min(off+3, len(payload))])); err != nil {
			return err
		}
	}
	_, err = st.Close()
	return err
}

func valNewCluster() *valCluster {
	cl := &valCluster{nodes: map[int]*valNode{}}
	for n := 1; n <= 3; n++ {
		nd := &valNode{n: n, cl: cl, store: &valStore{}, key: valUserKey(20 + n)}
		nd.svc = putsvc.NewService(nd, nd, nil, valQuota{}, valPayments{},
			putsvc.WithLogger(zap.NewNop()),
			putsvc.WithKeyStorage(objutil.NewKeyStorage(&nd.key.PrivateKey, nil, valNetState{})),
			putsvc.WithMaxSizeSource(valMaxSize{}),
			putsvc.WithObjectStorage(nd.store),
			putsvc.WithContainerSource(valCnrs{known: numCID(1)}),
			putsvc.WithNetworkState(valNetState{}),
			putsvc.WithClientConstructor(nd),
			putsvc.WithTombstoneVerifier(tombstone.NewVerifier(valObjSource{})),
			putsvc.WithSplitChainVerifier(valSplitVerifier{}),
			putsvc.WithSessionsCache(verifbridge.NewObjectSessionsCache(8)),
		)
		cl.nodes[n] = nd
	}
	return cl
}

// valEntryObject builds the header and the streamed payload of (typ, kind, hdr) owned and (if sealed) signed by owner
func valEntryObject(typ, kind, hdr int, owner user.Signer, sealed bool) (*object.Object, []byte) {
	obj := object.New(numCID(1), owner.UserID())
	ver := version.Current()
	obj.SetVersion(&ver)
	obj.SetCreationEpoch(9)
	obj.SetAttributes(object.NewAttribute("k", fmt.Sprintf("%d-%d-%d", typ, kind, hdr)))
	var payload []byte
	switch typ {
	case 0:
		obj.SetType(object.TypeRegular)
		payload = detPayload(10, 5)
	case 1, 2:
		obj.SetAttributes(object.NewAttribute("k", fmt.Sprintf("%d-%d-%d", typ, kind, hdr)), object.NewAttribute(object.AttributeExpirationEpoch, "100"))
		target := numOID(20)
		if typ == 1 && kind < 10 {
			target = numOID(20 + kind)
		}
		if typ == 1 {
			obj.AssociateDeleted(target)
		} else {
			obj.AssociateLocked(target)
		}
		if kind == 10 {
			payload = detPayload(5, 7)
		}
	case 3:
		obj.SetType(object.TypeLink)
		first := numOID(50)
		if kind == 3 {
			first = numOID(60)
		}
		if kind != 4 {
			obj.SetFirstID(first)
		}
		// the parent (the big object) sealed by the owner
		par := object.New(numCID(1), owner.UserID())
		par.SetVersion(&ver)
		par.SetCreationEpoch(9)
		par.SetPayloadSize(20)
		par.SetPayloadChecksum(checksum.NewSHA256(sha256.Sum256(detPayload(20, 9))))
		if err := par.CalculateAndSetID(); err != nil {
			panic(err)
		}
		if err := par.Sign(owner); err != nil {
			panic(err)
		}
		obj.SetParent(par)
		obj.SetParentID(par.GetID())
		var l object.Link
		var ms []object.MeasuredObject
		for _, k := range []int{50, 51} {
			var m object.MeasuredObject
			m.SetObjectID(numOID(k))
			m.SetObjectSize(10)
			ms = append(ms, m)
		}
		l.SetObjects(ms)
		switch kind {
		case 1:
		case 2:
			payload = []byte{0xff, 0xff, 0xff}
		default:
			payload = l.Marshal()
		}
	}
	obj.SetPayloadSize(uint64(len(payload)))
	if !sealed {
		return obj, payload
	}
	obj.SetPayloadChecksum(checksum.NewSHA256(sha256.Sum256(payload)))
	if err := obj.CalculateAndSetID(); err != nil {
		panic(err)
	}
	if err := obj.Sign(owner); err != nil {
		panic(err)
	}
	if hdr == 1 {
		sig := obj.Signature()
		v := append([]byte(nil), sig.Value()...)
		v[len(v)-1] ^= 1
		obj.SetSignature(ptrSig(sig.Scheme(), sig.PublicKeyBytes(), v))
	}
	return obj, payload
}

func valEntryClass(err error) string {
	if err == nil {
		return "ok"
	}
	s := err.Error()
	switch {
	case strings.Contains(s, "incomplete object PUT by placement"): // the refusals of the nodes asked, whatever their reasons
		return "fail"
	case strings.Contains(s, "not compliant with the container storage policy"):
		return "policy"
	case strings.Contains(s, "could not validate object format"), strings.Contains(s, "validate object format"):
		return "format"
	case strings.Contains(s, "could not validate payload content"), strings.Contains(s, "validate payload content"):
		return "content"
	}
	return "fail"
}

func valEntry(c *runCtx, line string, o opLine) {
	via, typ, kind, hdr, sealed := o.int("via"), o.int("typ"), o.int("kind"), o.int("hdr"), o.int("sealed") == 1
	contentOK, known := valContentOK(typ, kind)
	if !known || via < 0 || via > 4 || hdr < 0 || hdr > 1 || ((via == 4 || typ == 3) && !sealed) || (!sealed && hdr != 0) {
		c.emit(line, "=> bad-op")
		return
	}
	cl := valNewCluster()
	at := cl.nodes[1]
	if via == 2 || via == 3 {
		at = cl.nodes[3]
	}
	owner := valUsers[1]
	if !sealed {
		owner = user.NewAutoIDSigner(at.key.PrivateKey)
	}
	hdrObj, payload := valEntryObject(typ, kind, hdr, owner, sealed)
	var err error
	obs := ""
	func() {
		defer func() {
			if r := recover(); r != nil {
				obs = fmt.Sprintf("=> panic %v", r)
			}
		}()
		if via == 4 {
			full := *hdrObj
			full.SetPayload(payload)
			err = at.svc.ValidateAndStoreObjectLocally(context.Background(), full)
		} else {
			err = valStream(at, hdrObj, payload, via == 1 || via == 3)
		}
	}()
	var stored []int
	for n := 1; n <= 3; n++ {
		if len(cl.nodes[n].store.objs) > 0 {
			stored = append(stored, n)
		}
	}
	sort.Ints(stored)
	if obs == "" {
		obs = "=> " + valEntryClass(err) + " stored=" + joinInts(stored)
	}
	c.emit(line, obs)
	c.count("entry:" + valEntryClass(err))
	detail := fmt.Sprintf("obs=%q err=%v", obs, err)
	c.oracle("no-panic", !strings.HasPrefix(obs, "=> panic"), detail)
	for n := 1; n <= 3; n++ {
		for _, so := range cl.nodes[n].store.objs {
			d := fmt.Sprintf("node %d stored %s object %s (content kind %d): %s", n, so.Type(), so.GetID(), kind, detail)
			c.oracle("stored-object-content-valid", contentOK, d)
			c.oracle("stored-object-header-valid", hdr == 0 && so.VerifyID() == nil && so.VerifySignature(), d)
			cs, csSet := so.PayloadChecksum()
			sum := sha256.Sum256(so.Payload())
			c.oracle("stored-payload-matches-header", csSet && bytes.Equal(cs.Value(), sum[:]) && uint64(len(so.Payload())) == so.PayloadSize(), d)
			c.oracle("stored-only-on-container-nodes", n != 3, d)
		}
	}
	if !contentOK || hdr != 0 || via >= 1 {
		c.nontrivial(line)
	}
}

// ---- generation ----

func valGenAuth(c *runCtx) []string {
	var ops []string
	// every token with a legit object first, then the same token on objects of every other owner / signer, then the
	// legit one again; capacities 1 (every second token evicts), 2 and 8
	for tok := 1; tok <= valTokenKinds; tok++ {
		t := valTokens()[tok]
		legit := tok*100 + t.issuer*10 + t.subjct
		for _, capN := range []int{1, 2, 8} {
			for owner := 1; owner <= 3; owner++ {
				forged := tok*100 + owner*10 + t.subjct
				ops = append(ops, fmt.Sprintf("validate authseq cap=%d objs=%d,%d,%d", capN, legit, forged, legit))
				ops = append(ops, fmt.Sprintf("validate authseq cap=%d objs=%d,%d,%d", capN, forged, legit, forged))
			}
		}
	}
	// a genuine token first, then the forged token that carries its signature (and back)
	for _, pr := range [][2]int{{1, 8}, {3, 9}} {
		g, f := valTokens()[pr[0]], valTokens()[pr[1]]
		legit := pr[0]*100 + g.issuer*10 + g.subjct
		forged := pr[1]*100 + f.issuer*10 + f.subjct
		for _, capN := range []int{1, 2, 8} {
			ops = append(ops, fmt.Sprintf("validate authseq cap=%d objs=%d,%d,%d", capN, legit, forged, legit))
			ops = append(ops, fmt.Sprintf("validate authseq cap=%d objs=%d,%d", capN, forged, legit))
		}
	}
	// random sequences over all tokens, owners, signers, with broken object signatures
	for i := 0; i < c.n(120, 3000); i++ {
		n := 2 + c.rng.IntN(7)
		codes := make([]int, n)
		ntok := 1 + c.rng.IntN(3) // few distinct tokens per sequence: collisions on the cache key
		toks := make([]int, ntok)
		for j := range toks {
			toks[j] = c.rng.IntN(valTokenKinds + 1)
		}
		for j := range codes {
			tok := toks[c.rng.IntN(ntok)]
			owner, signer := 1+c.rng.IntN(3), 1+c.rng.IntN(3)
			if tok > 0 && c.rng.IntN(3) > 0 {
				signer = valTokens()[tok].subjct
			}
			if tok > 0 && c.rng.IntN(2) == 0 {
				owner = valTokens()[tok].issuer
			}
			if tok == 0 && c.rng.IntN(2) == 0 {
				signer = owner
			}
			codes[j] = tok*100 + owner*10 + signer
			if c.rng.IntN(10) == 0 {
				codes[j] += 1000
			}
		}
		ops = append(ops, fmt.Sprintf("validate authseq cap=%d objs=%s", []int{1, 2, 3, 8}[c.rng.IntN(4)], joinInts(codes)))
	}
	return ops
}

func valGenEntry(c *runCtx) []string {
	var ops []string
	kinds := map[int][]int{0: {0}, 1: {0, 1, 2, 3, 4, 5, 6, 7, 8, 9, 10}, 2: {0, 10}, 3: {0, 1, 2, 3, 4}}
	for via := 0; via <= 4; via++ {
		for typ := 0; typ <= 3; typ++ {
			for _, kind := range kinds[typ] {
				ops = append(ops, fmt.Sprintf("validate entry via=%d typ=%d kind=%d hdr=0 sealed=1", via, typ, kind))
				if via != 4 && typ != 3 {
					ops = append(ops, fmt.Sprintf("validate entry via=%d typ=%d kind=%d hdr=0 sealed=0", via, typ, kind))
				}
				if kind == 0 || c.rng.IntN(4) == 0 {
					ops = append(ops, fmt.Sprintf("validate entry via=%d typ=%d kind=%d hdr=1 sealed=1", via, typ, kind))
				}
			}
		}
	}
	return ops
}
