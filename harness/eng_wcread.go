package main

// Engine `wcread` (C16): deterministic interleavings of flushers, readers, writers and deleters on a REAL shard with a
// real write-cache whose main storage is a real FSTree behind a failure-injecting wrapper.
//
// Schedule control: the `verifhook.Point` lines in writecache/{flush,put,delete,get}.go and shard/{get,head,range}.go
// call back into the harness; the callback parks the calling goroutine on a channel when the logical thread that is
// currently allowed to run reaches the pause point named by its op line. Exactly one logical thread runs at any time,
// so every op line is deterministic: "start op X on thread t and run it to point P" / "release thread t to point P".
// Flush jobs are executed by the real flushWorker goroutines (the timer-driven scheduler is stopped; the harness hands
// batches over flushCh exactly as the scheduler does).

import (
	"bytes"
	"errors"
	"fmt"
	"io"
	"os"
	"path/filepath"
	"sort"
	"strings"
	"time"

	"github.com/nspcc-dev/neofs-node/pkg/local_object_storage/blobstor/common"
	"github.com/nspcc-dev/neofs-node/pkg/local_object_storage/blobstor/fstree"
	"github.com/nspcc-dev/neofs-node/pkg/local_object_storage/shard"
	"github.com/nspcc-dev/neofs-node/pkg/local_object_storage/writecache"
	"github.com/nspcc-dev/neofs-node/pkg/util/verifhook"
	apistatus "github.com/nspcc-dev/neofs-sdk-go/client/status"
	oid "github.com/nspcc-dev/neofs-sdk-go/object/id"
)

func init() {
	engines["wcread"] = seqRunner{gen: wcrGen, exec: wcrExec}.engine()
}

const (
	wcrPayload = 48
	wcrMaxAddr = 9
)

var wcrPoints = map[string]bool{"end": true, "flush.afterRead": true, "flush.afterMainPut": true, "flush.afterCacheDelete": true,
	"delete.afterFile": true, "put.afterFile": true, "get.afterCounter": true, "get.afterCacheMiss": true}

type wcrEvent struct {
	parked bool
	result string
}

type wcrThread struct {
	id          int
	kind        string // flush | get | put | del
	a           int    // address of get/put/del
	as          []int  // addresses of a flush job
	readKind    string
	resume      chan struct{}
	parkAt      string
	batch       bool
	pastMainPut bool
	tracked     bool // a read that started while the object was live (acknowledged put, no delete since)
	delOverlap  bool // a put during which a delete of the same address was in flight (the two are concurrent)
}

type wcrCtl struct {
	cur     *wcrThread
	ev      chan wcrEvent
	threads map[int]*wcrThread // in-flight logical threads
	live    map[int]bool
	tainted map[int]bool
}

func (ctl *wcrCtl) hasAddr(t *wcrThread, a int) bool {
	for _, x := range t.as {
		if x == a {
			return true
		}
	}
	return false
}

// updateTaint marks the addresses hit by the recorded finding's trigger: a delete of the address in flight while a flush
// job of the same address is past its main-storage put (its pending cache delete can then remove a NEWER copy).
func (ctl *wcrCtl) updateTaint() {
	for _, d := range ctl.threads {
		if d.kind != "del" {
			continue
		}
		for _, f := range ctl.threads {
			if f.kind == "flush" && f.pastMainPut && ctl.hasAddr(f, d.a) {
				ctl.tainted[d.a] = true
			}
		}
	}
}

func (ctl *wcrCtl) flusherInFlight(a int) bool {
	for _, f := range ctl.threads {
		if f.kind == "flush" && ctl.hasAddr(f, a) {
			return true
		}
	}
	return false
}

func (ctl *wcrCtl) deleterInFlight(a int) bool {
	for _, d := range ctl.threads {
		if d.kind == "del" && d.a == a {
			return true
		}
	}
	return false
}

// point is the verifhook callback; it runs on the goroutine of the only logical thread that is running.
func (ctl *wcrCtl) point(name string) {
	t := ctl.cur
	if t == nil {
		return
	}
	name = strings.TrimPrefix(strings.TrimPrefix(name, "wc."), "shard.")
	if name == "flush.done" {
		if t.kind == "flush" {
			ctl.ev <- wcrEvent{result: "flushed"}
		}
		return
	}
	if t.kind == "flush" && name == "flush.afterMainPut" {
		t.pastMainPut = true
		ctl.updateTaint()
	}
	inLoop := name == "flush.afterCacheDelete" || name == "delete.afterFile"
	if name == t.parkAt && !(inLoop && t.batch) {
		ctl.ev <- wcrEvent{parked: true}
		<-t.resume
	}
}

func (ctl *wcrCtl) wait() wcrEvent {
	select {
	case e := <-ctl.ev:
		return e
	case <-time.After(20 * time.Second):
		panic("wcread: the running thread neither parked nor finished within 20 s")
	}
}

func wcrJoin(xs []int) string {
	sort.Ints(xs)
	return joinInts(xs)
}

func wcrExec(c *runCtx, ops []string) {
	dir := scratchDir("wcread")
	defer os.RemoveAll(dir)
	mainFS := fstree.New(fstree.WithPath(filepath.Join(dir, "main")), fstree.WithDepth(1), fstree.WithNoSync(true),
		fstree.WithCombinedWriteInterval(200*time.Microsecond))
	main := &failingStorage{FSTree: mainFS}
	objLen := len(mkObject(1, 1, detPayload(wcrPayload, 1)).Marshal())
	sh := newShard(dir, shardCfg{wc: true,
		wcOpts: []writecache.Option{writecache.WithMaxCacheSize(uint64(2*objLen + objLen/2)), writecache.WithFlushWorkersCount(8)},
		extra:  []shard.Option{shard.WithBlobstor(main)}})
	wc := sh.VerifWriteCache()
	writecache.VerifStopScheduler(wc)
	// make the container known to the metabase (Shard.Delete skips the blobstor for containers the metabase never saw)
	if err := sh.Put(mkObject(1, wcrMaxAddr+1, nil), nil); err != nil {
		panic(err)
	}
	if err := sh.Delete(numCID(1), []oid.ID{numOID(wcrMaxAddr + 1)}); err != nil {
		panic(err)
	}
	ctl := &wcrCtl{ev: make(chan wcrEvent), threads: map[int]*wcrThread{}, live: map[int]bool{}, tainted: map[int]bool{}}
	verifhook.SetPoint(ctl.point)
	defer func() {
		// release whatever is still parked (shrunk sequences end anywhere), then close
		for _, t := range ctl.threads {
			t.parkAt = "end"
			ctl.cur = t
			t.resume <- struct{}{}
			ctl.wait()
		}
		ctl.cur = nil
		verifhook.SetPoint(nil)
		_ = sh.Close()
	}()

	want := func(a int) []byte { return mkObject(1, a, detPayload(wcrPayload, a)).Marshal() }
	cause := func(a int) string {
		if ctl.tainted[a] {
			return "cause=delete-overlapped-flush-past-main-put"
		}
		return "cause=none"
	}
	// doRead runs one read of the chosen kind to completion and classifies the result
	doRead := func(kind string, a int) string {
		addr := numAddr(1, a)
		exp := mkObject(1, a, detPayload(wcrPayload, a))
		var err error
		good := false
		switch kind {
		case "get", "getm":
			o, e := sh.Get(addr, kind == "get")
			err = e
			good = e == nil && bytes.Equal(o.Marshal(), exp.Marshal())
		case "bytes":
			b, e := sh.GetBytes(addr)
			err = e
			good = e == nil && bytes.Equal(b, exp.Marshal())
		case "head":
			o, e := sh.Head(addr, false)
			err = e
			good = e == nil && bytes.Equal(o.CutPayload().Marshal(), exp.CutPayload().Marshal())
		case "range":
			_, _, rc, e := sh.GetRangeStream(addr.Container(), addr.Object(), common.NewPayloadRange(5, 20), false)
			err = e
			if e == nil {
				b, re := io.ReadAll(rc)
				rc.Close()
				good = re == nil && bytes.Equal(b, exp.Payload()[5:25])
			}
		default:
			return "badkind"
		}
		switch {
		case good:
			return fmt.Sprintf("v=%d", a)
		case err == nil:
			return "corrupt"
		case errors.Is(err, apistatus.ErrObjectNotFound) || errors.As(err, new(apistatus.ObjectNotFound)):
			return "notfound"
		default:
			return "err"
		}
	}
	list := func(as []oid.Address) []int {
		var r []int
		for _, a := range as {
			r = append(r, oidNum(a.Object()))
		}
		return r
	}
	observe := func() string {
		files, _ := writecache.VerifFileAddrs(wc)
		var mains []oid.Address
		_ = mainFS.IterateAddresses(func(a oid.Address) error { mains = append(mains, a); return nil }, true)
		return fmt.Sprintf("files=%s ctr=%s main=%s infl=%s", wcrJoin(list(files)), wcrJoin(list(writecache.VerifCounterAddrs(wc))),
			wcrJoin(list(mains)), wcrJoin(list(writecache.VerifInflight(wc))))
	}
	// the property's oracle at an op boundary: every live object is in the cache or in the main storage with identical
	// bytes, and every read path (with and without the metabase) returns it while other threads are parked mid-way
	checkLive := func() {
		saved := ctl.cur
		ctl.cur = nil
		defer func() { ctl.cur = saved }()
		for a := 1; a <= wcrMaxAddr; a++ {
			if !ctl.live[a] {
				continue
			}
			addr := numAddr(1, a)
			inCache := false
			_ = writecache.VerifFiles(wc, func(x oid.Address, d []byte) error {
				if x == addr && bytes.Equal(d, want(a)) {
					inCache = true
				}
				return nil
			})
			mb, merr := mainFS.GetBytes(addr)
			inMain := merr == nil && bytes.Equal(mb, want(a))
			c.oracleSig("acknowledged-object-is-in-cache-or-main-storage", cause(a), inCache || inMain,
				fmt.Sprintf("object %d is neither in the write-cache nor in the main storage (main: %v); %s", a, merr, cause(a)))
			for _, k := range []string{"getm", "head", "bytes", "range"} {
				r := doRead(k, a)
				c.oracleSig("read-after-acknowledged-put-returns-the-object", cause(a), r == fmt.Sprintf("v=%d", a),
					fmt.Sprintf("quiescent %s of object %d: %s; %s", k, a, r, cause(a)))
			}
		}
	}
	// finished handles the completion of thread t
	finished := func(t *wcrThread, e wcrEvent) string {
		delete(ctl.threads, t.id)
		res := e.result
		switch t.kind {
		case "flush":
			if writecache.VerifTakeFlushErr(wc) {
				res = "err=1"
			} else {
				res = "err=0"
			}
		case "put":
			if res == "ack" {
				if !t.delOverlap && !ctl.deleterInFlight(t.a) {
					ctl.live[t.a] = true
					if !ctl.flusherInFlight(t.a) {
						delete(ctl.tainted, t.a)
					}
				}
			}
		case "get":
			if t.tracked {
				c.oracleSig("read-after-acknowledged-put-returns-the-object", cause(t.a), res == fmt.Sprintf("v=%d", t.a),
					fmt.Sprintf("%s of object %d started after its put was acknowledged (no delete since): %s; %s", t.readKind, t.a, res, cause(t.a)))
			}
		}
		return res
	}
	// advance lets thread t run until it parks at `park` or finishes
	advance := func(t *wcrThread, park string, ok bool, start func()) string {
		t.parkAt = park
		ctl.cur = t
		main.fail.Store(!ok)
		start()
		e := ctl.wait()
		main.fail.Store(false)
		ctl.cur = nil
		ctl.updateTaint()
		if e.parked {
			return "parked"
		}
		return "done " + finished(t, e)
	}

	interleaved := false
	for _, line := range ops {
		o := parseOp(line)
		c.count(o.name)
		full := line
		park := o.kv["park"]
		if park == "" {
			park = "end"
		}
		if _, has := o.kv["t"]; !has || !wcrPoints[park] {
			c.emit(line, "=> bad-op")
			continue
		}
		tid := o.int("t")
		ok := o.kv["ok"] != "0"
		cur, busy := ctl.threads[tid]
		var res string
		startThread := func(t *wcrThread, run func() string) {
			if len(ctl.threads) > 0 {
				interleaved = true
			}
			t.id, t.resume = tid, make(chan struct{})
			ctl.threads[tid] = t
			ctl.updateTaint()
			res = advance(t, park, ok, func() {
				if t.kind == "flush" {
					var addrs []oid.Address
					for _, a := range t.as {
						addrs = append(addrs, numAddr(1, a))
					}
					writecache.VerifSendFlush(wc, addrs)
					return
				}
				go func() { ctl.ev <- wcrEvent{result: run()} }()
			})
		}
		via := o.kv["via"]
		if o.name == "put" {
			if _, hasA := o.kv["a"]; !hasA {
				c.emit(line, "=> bad-op")
				continue
			}
			if via == "" {
				// the admission decision is an input of the model: predict it from the accounted size
				via = "cache"
				if size, _ := writecache.VerifSize(wc); uint64(2*objLen+objLen/2) < size+uint64(objLen) {
					via = "main"
				}
				full = line + " via=" + via
			}
			if via != "cache" && via != "main" {
				c.emit(line, "=> bad-op")
				continue
			}
		}
		switch {
		case o.name == "release":
			if !busy {
				res = "idle"
				break
			}
			interleaved = interleaved || len(ctl.threads) > 1
			res = advance(cur, park, ok, func() { cur.resume <- struct{}{} })
		case busy:
			res = "busy"
		case o.name == "put":
			a := o.int("a")
			obj := mkObject(1, a, detPayload(wcrPayload, a))
			data := obj.Marshal()
			startThread(&wcrThread{kind: "put", a: a, delOverlap: ctl.deleterInFlight(a)}, func() string {
				if err := sh.Put(obj, data); err != nil {
					return "fail"
				}
				return "ack"
			})
		case o.name == "flush":
			as := o.ints("as")
			if len(as) == 0 {
				c.emit(line, "=> bad-op")
				continue
			}
			startThread(&wcrThread{kind: "flush", as: as, batch: len(as) != 1}, nil)
		case o.name == "get":
			a, kind := o.int("a"), o.kv["kind"]
			if kind != "get" && kind != "getm" && kind != "bytes" && kind != "head" && kind != "range" {
				c.emit(line, "=> bad-op")
				continue
			}
			c.count("read:" + kind)
			startThread(&wcrThread{kind: "get", a: a, readKind: kind, tracked: ctl.live[a]}, func() string { return doRead(kind, a) })
		case o.name == "del":
			a := o.int("a")
			ctl.live[a] = false
			for _, t := range ctl.threads { // reads overlapping a delete are not covered by the property
				if t.kind == "get" && t.a == a {
					t.tracked = false
				}
				if t.kind == "put" && t.a == a {
					t.delOverlap = true
				}
			}
			startThread(&wcrThread{kind: "del", a: a}, func() string {
				if err := sh.Delete(numCID(1), []oid.ID{numOID(a)}); err != nil {
					return "err"
				}
				return "deleted"
			})
		default:
			c.emit(line, "=> bad-op")
			continue
		}
		if strings.HasPrefix(res, "parked") {
			c.count("parked:" + park)
		}
		c.emit(full, "=> "+res+" "+observe())
		checkLive()
	}
	if interleaved {
		c.nontrivial(strings.Join(ops, ";"))
	}
}

// ---------------------------------------------------------------------------------------------------- generation

var wcrFlushPoints = []string{"flush.afterRead", "flush.afterMainPut", "delete.afterFile", "flush.afterCacheDelete", "end"}
var wcrGetPoints = []string{"get.afterCounter", "get.afterCacheMiss", "end"}
var wcrKinds = []string{"get", "getm", "bytes", "head", "range"}

// interleavings calls f with every merge of the given per-thread segment lists that keeps each thread's order.
func wcrInterleavings(threads [][]string, f func([]string)) {
	idx := make([]int, len(threads))
	var cur []string
	var rec func()
	rec = func() {
		done := true
		for i := range threads {
			if idx[i] < len(threads[i]) {
				done = false
				cur = append(cur, threads[i][idx[i]])
				idx[i]++
				rec()
				idx[i]--
				cur = cur[:len(cur)-1]
			}
		}
		if done {
			f(append([]string(nil), cur...))
		}
	}
	rec()
}

func wcrFlusher(t int, as string, batch bool, failAt int) []string {
	pts := wcrFlushPoints
	if batch {
		pts = []string{"flush.afterRead", "flush.afterMainPut", "end"}
	}
	var segs []string
	for i, p := range pts {
		okS := ""
		if i == failAt {
			okS = " ok=0"
		}
		if i == 0 {
			segs = append(segs, fmt.Sprintf("wcread flush t=%d as=%s park=%s%s", t, as, p, okS))
		} else {
			segs = append(segs, fmt.Sprintf("wcread release t=%d park=%s%s", t, p, okS))
		}
	}
	return segs
}

func wcrReader(t, a int, kind string) []string {
	var segs []string
	for i, p := range wcrGetPoints {
		if i == 0 {
			segs = append(segs, fmt.Sprintf("wcread get t=%d a=%d kind=%s park=%s", t, a, kind, p))
		} else {
			segs = append(segs, fmt.Sprintf("wcread release t=%d park=%s", t, p))
		}
	}
	return segs
}

func wcrWriter(t, a int) []string {
	return []string{fmt.Sprintf("wcread put t=%d a=%d park=put.afterFile", t, a), fmt.Sprintf("wcread release t=%d park=end", t)}
}

func wcrGen(c *runCtx, run func([]string)) {
	// (1) the systematic part: interleavings of one flusher x one reader x one re-put, one or two addresses
	type family struct {
		prefix  []string
		threads [][]string
	}
	var fams []family
	// KIND is replaced per generated sequence, so that all read paths rotate through the interleavings
	fams = append(fams, family{[]string{"wcread put t=0 a=1"}, [][]string{wcrFlusher(1, "1", false, -1), wcrReader(3, 1, "KIND"), wcrWriter(5, 1)}})
	fams = append(fams, family{[]string{"wcread put t=0 a=1", "wcread put t=0 a=2"},
		[][]string{wcrFlusher(1, "2,1", true, -1), wcrReader(3, 1, "KIND"), wcrWriter(5, 1)}})
	// the main storage fails the first flusher's PutBatch (it ends there); a second flusher retries
	fams = append(fams, family{[]string{"wcread put t=0 a=1", "wcread put t=0 a=2"},
		[][]string{append(wcrFlusher(1, "1,2", true, 1)[:2], wcrFlusher(1, "2,1", true, -1)...), wcrReader(3, 2, "KIND"), wcrWriter(5, 2)}})
	nseq := 0
	emit := func(prefix, merged []string) {
		seq := append(append([]string(nil), prefix...), merged...)
		kind := wcrKinds[nseq%len(wcrKinds)]
		nseq++
		for k := range seq {
			seq[k] = strings.Replace(seq[k], "kind=KIND", "kind="+kind, 1)
		}
		run(seq)
	}
	if c.thorough() {
		// ALL interleavings (2520 + 560 + 2520 merges)
		for _, fm := range fams {
			wcrInterleavings(fm.threads, func(s []string) { emit(fm.prefix, s) })
		}
	} else {
		// seeded sample: random merges of the same families
		for i := 0; i < c.n(40, 0); i++ {
			fm := fams[c.rng.IntN(len(fams))]
			idx := make([]int, len(fm.threads))
			var seq []string
			for {
				var avail []int
				for j := range fm.threads {
					if idx[j] < len(fm.threads[j]) {
						avail = append(avail, j)
					}
				}
				if len(avail) == 0 {
					break
				}
				j := avail[c.rng.IntN(len(avail))]
				seq = append(seq, fm.threads[j][idx[j]])
				idx[j]++
			}
			emit(fm.prefix, seq)
		}
	}
	// (2) random schedules: several flushers and readers, deletes, cache-full fall-through, failing main storage
	for i := 0; i < c.n(80, 1500); i++ {
		var ops []string
		n := 8 + c.rng.IntN(18)
		live := map[int]bool{}      // generator-side shadow: metabase-consulting reads are only asked for live objects
		delParked := map[int]bool{} // a deleter parked mid-way
		parkedDel := 0
		nAddr := 2 + c.rng.IntN(3)
		pick := func(xs []string) string { return xs[c.rng.IntN(len(xs))] }
		okS := func() string {
			if c.rng.IntN(5) == 0 {
				return " ok=0"
			}
			return ""
		}
		for j := 0; j < n; j++ {
			a := 1 + c.rng.IntN(nAddr)
			switch k := c.rng.IntN(100); {
			case k < 20:
				o := okS()
				ops = append(ops, fmt.Sprintf("wcread put t=0 a=%d%s", a, o))
				if o == "" && !delParked[a] {
					live[a] = true
				}
			case k < 27:
				ops = append(ops, fmt.Sprintf("wcread put t=5 a=%d park=%s", a, pick([]string{"put.afterFile", "end"})))
			case k < 47:
				as := []int{a}
				for len(as) < 3 && c.rng.IntN(2) == 0 {
					as = append(as, 1+c.rng.IntN(nAddr))
				}
				ops = append(ops, fmt.Sprintf("wcread flush t=%d as=%s park=%s%s", 1+c.rng.IntN(2), joinInts(as), pick(wcrFlushPoints), okS()))
			case k < 67:
				kind := pick(wcrKinds)
				if (kind == "getm" || kind == "head") && !live[a] {
					kind = "get"
				}
				ops = append(ops, fmt.Sprintf("wcread get t=%d a=%d kind=%s park=%s", 3+c.rng.IntN(2), a, kind, pick(wcrGetPoints)))
			case k < 75:
				if parkedDel != 0 { // thread 6 is busy with a parked delete: let it finish first
					ops = append(ops, "wcread release t=6 park=end")
					delParked[parkedDel] = false
					parkedDel = 0
				}
				live[a] = false
				p := pick([]string{"end", "end", "delete.afterFile"})
				if p != "end" {
					delParked[a] = true
					parkedDel = a
				}
				ops = append(ops, fmt.Sprintf("wcread del t=6 a=%d park=%s", a, p))
			default:
				t := 1 + c.rng.IntN(6)
				p := "end"
				switch t {
				case 1, 2:
					p = pick(wcrFlushPoints)
				case 3, 4:
					p = pick(wcrGetPoints)
				case 6:
					if parkedDel != 0 {
						delParked[parkedDel] = false
						parkedDel = 0
					}
				}
				ops = append(ops, fmt.Sprintf("wcread release t=%d park=%s%s", t, p, okS()))
			}
		}
		run(ops)
	}
}
