package main

import (
	"fmt"
	"os"
)

// engine is one correspondence driver: it runs the real implementation on
// generated inputs, writes the operation lines and the implementation's
// canonical observations, and evaluates the property's own oracle.
type engineFn func(ctx *runCtx) error

var engines = map[string]engineFn{}

func main() {
	if len(os.Args) < 2 {
		fmt.Fprintln(os.Stderr, "usage: vh <engine> [flags]")
		os.Exit(2)
	}
	e, ok := engines[os.Args[1]]
	if !ok {
		fmt.Fprintf(os.Stderr, "unknown engine %q\n", os.Args[1])
		os.Exit(2)
	}
	ctx, err := newRunCtx(os.Args[1], os.Args[2:])
	if err != nil {
		fmt.Fprintln(os.Stderr, err)
		os.Exit(2)
	}
	if err := e(ctx); err != nil {
		fmt.Fprintln(os.Stderr, "engine error:", err)
		ctx.finish()
		os.Exit(3)
	}
	ctx.finish()
}
