package main

import (
	"errors"
	"fmt"
	"github.com/nspcc-dev/neofs-sdk-go/object"
	"os"
	"path/filepath"
	"strings"

	"github.com/nspcc-dev/neofs-node/pkg/local_object_storage/engine"
	"github.com/nspcc-dev/neofs-node/pkg/local_object_storage/shard"
	"github.com/nspcc-dev/neofs-node/pkg/local_object_storage/shard/mode"
	apistatus "github.com/nspcc-dev/neofs-sdk-go/client/status"
	"github.com/nspcc-dev/neofs-sdk-go/container"
	cid "github.com/nspcc-dev/neofs-sdk-go/container/id"
)

func init() {
	engines["grace"] = graceEngine
}

// payFake is a settable shard.ContainerPayments.
type payFake struct {
	disabled bool
	since    int64
	err      error
}

func (p *payFake) PaymentsDisabled() bool { return p.disabled }
func (p *payFake) UnpaidSince(cid.ID) (int64, error) {
	if p.err != nil {
		return 0, p.err
	}
	return p.since, nil
}

// srcFake is a container source answering the same for every container.
type srcFake struct{ answer string }

func (s srcFake) Get(cid.ID) (container.Container, error) {
	switch s.answer {
	case "notfound":
		return container.Container{}, apistatus.ErrContainerNotFound
	case "transient":
		return container.Container{}, errors.New("connection refused")
	}
	return container.Container{}, nil
}

// srcFakeN answers per container (containers numCID(20+i)); anything else is "found".
type srcFakeN struct{ answers map[cid.ID]string }

func (s srcFakeN) Get(id cid.ID) (container.Container, error) { return srcFake{s.answers[id]}.Get(id) }

func graceEngine(c *runCtx) error {
	dir := scratchDir("grace")
	defer os.RemoveAll(dir)
	pay := &payFake{}
	sh := newShard(filepath.Join(dir, "sh"), shardCfg{extra: []shard.Option{shard.WithContainerPayments(pay)}})
	defer sh.Close()
	nextCnr := 100
	nEng := 0
	c.independent = true
	exec := func(ops []string) {
		for _, line := range ops {
			o := parseOp(line)
			c.count(o.name)
			switch o.name {
			case "epoch":
				e, u := o.u64("e"), int64(o.int("unpaid"))
				payOn, perr, lerr := o.kv["pay"] == "1", o.kv["perr"] == "1", o.kv["lerr"] == "1"
				nextCnr++
				obj := mkObject(nextCnr, 1, detPayload(8, 1))
				if err := sh.Put(obj, nil); err != nil {
					c.emit(line, "=> err put")
					continue
				}
				pay.disabled, pay.since, pay.err = !payOn, u, nil
				if perr {
					pay.err = errors.New("payment check failed")
				}
				if lerr {
					if err := sh.SetMode(mode.DegradedReadOnly); err != nil {
						panic(err)
					}
				}
				sh.VerifHandleNewEpoch(e)
				if lerr {
					if err := sh.SetMode(mode.ReadWrite); err != nil {
						panic(err)
					}
				}
				ex, err := sh.Exists(obj.Address(), true)
				discarded := err != nil || !ex
				c.emit(line, fmt.Sprintf("=> ok discarded=%v", discarded))
				// property oracle, from the statement
				want := payOn && !perr && !lerr && u >= 0 && uint64(u) <= e && e-uint64(u) >= 3
				c.oracle("discard-only-after-grace-period", discarded == want,
					fmt.Sprintf("epoch=%d unpaidSince=%d payments=%v checkErr=%v listErr=%v: discarded=%v want %v", e, u, payOn, perr, lerr, discarded, want))
				if payOn && !perr && !lerr && u >= 0 {
					c.nontrivial(line)
				}
			case "startup":
				nEng++
				edir := filepath.Join(dir, fmt.Sprintf("e%d", nEng))
				// first life: store an object; second life: start with the given container source answer
				e1, _ := newEngine(edir, 2, shardCfg{})
				obj := mkObject(7, 1, detPayload(8, 2))
				if err := e1.Put(c.ctx(), obj, nil); err != nil {
					panic(err)
				}
				e1.Close()
				e2, _ := newEngine(edir, 2, shardCfg{}, engine.WithContainersSource(srcFake{o.kv["src"]}))
				_, err := e2.Get(c.ctx(), obj.Address())
				discarded := err != nil
				e2.Close()
				os.RemoveAll(edir)
				c.emit(line, fmt.Sprintf("=> ok discarded=%v", discarded))
				c.oracle("discard-only-when-definitely-absent", discarded == (o.kv["src"] == "notfound"),
					fmt.Sprintf("container source answer %q: discarded=%v", o.kv["src"], discarded))
				c.nontrivial(line)
			case "startupn":
				// several containers on ONE shard, each with its own answer of the container source: the decision about a
				// container depends on its own answer only (the cleanup walks the shard's containers in id order)
				nEng++
				edir := filepath.Join(dir, fmt.Sprintf("e%d", nEng))
				srcs := strings.Split(o.kv["srcs"], ",")
				e1, _ := newEngine(edir, 1, shardCfg{})
				ans := map[cid.ID]string{}
				var objs []*object.Object
				for i, a := range srcs {
					obj := mkObject(20+i, 1, detPayload(8, i))
					if err := e1.Put(c.ctx(), obj, nil); err != nil {
						panic(err)
					}
					objs = append(objs, obj)
					ans[obj.GetContainerID()] = a
				}
				e1.Close()
				e2, _ := newEngine(edir, 1, shardCfg{}, engine.WithContainersSource(srcFakeN{ans}))
				var got []string
				okAll := true
				for i, obj := range objs {
					_, err := e2.Get(c.ctx(), obj.Address())
					got = append(got, fmt.Sprint(err != nil))
					okAll = okAll && (err != nil) == (srcs[i] == "notfound")
				}
				e2.Close()
				os.RemoveAll(edir)
				c.emit(line, "=> ok discarded="+strings.Join(got, ","))
				c.oracle("discard-only-when-definitely-absent", okAll, fmt.Sprintf("container source answers %v: discarded=%v", srcs, got))
				c.nontrivial(line)
			default:
				c.emit(line, "=> bad-op")
			}
		}
	}
	if c.replay != "" {
		seqs, err := c.replayLines()
		if err != nil {
			return err
		}
		for _, s := range seqs {
			c.reset()
			exec(s)
		}
		return nil
	}
	c.reset()
	var ops []string
	// the whole table of the property's quantifier text
	for e := 0; e <= 10; e++ {
		for u := -1; u <= 12; u++ {
			for pay := 0; pay <= 1; pay++ {
				for perr := 0; perr <= 1; perr++ {
					ops = append(ops, fmt.Sprintf("grace epoch e=%d unpaid=%d pay=%d perr=%d lerr=0", e, u, pay, perr))
				}
			}
			if u%3 == 0 {
				ops = append(ops, fmt.Sprintf("grace epoch e=%d unpaid=%d pay=1 perr=0 lerr=1", e, u))
			}
		}
	}
	// large epochs and marks
	bigE := []uint64{1 << 32, 1<<63 - 1, 1 << 63, 1<<63 + 5, 1<<64 - 1}
	bigU := []int64{0, 1, 1 << 32, 1<<63 - 1, 1<<63 - 4, -1, -(1 << 62)}
	for _, e := range bigE {
		for _, u := range bigU {
			ops = append(ops, fmt.Sprintf("grace epoch e=%d unpaid=%d pay=1 perr=0 lerr=0", e, u))
		}
	}
	for _, s := range []string{"found", "notfound", "transient"} {
		ops = append(ops, "grace startup src="+s)
	}
	// every combination of answers for three containers of one shard
	ans := []string{"found", "notfound", "transient"}
	for _, a := range ans {
		for _, b := range ans {
			ops = append(ops, "grace startupn srcs="+a+","+b)
			for _, d := range ans {
				ops = append(ops, "grace startupn srcs="+a+","+b+","+d)
			}
		}
	}
	exec(ops)
	return nil
}
