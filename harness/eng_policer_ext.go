package main

import (
	"context"
	"fmt"
	"sort"
	"strconv"
	"strings"

	objectcore "github.com/nspcc-dev/neofs-node/pkg/core/object"
	"github.com/nspcc-dev/neofs-node/pkg/services/policer"
	"github.com/nspcc-dev/neofs-node/pkg/services/replicator"
	"github.com/nspcc-dev/neofs-node/pkg/util/verifbridge"
	"github.com/nspcc-dev/neofs-sdk-go/netmap"
	"github.com/nspcc-dev/neofs-sdk-go/object"
	oid "github.com/nspcc-dev/neofs-sdk-go/object/id"
)

// Extensions of the policer engine:
//   op `task`     — the REAL Replicator.HandleTask on one scripted task, the context cancelled while a transfer is in
//                   flight (C27: "a copy is reported only if the remote node stored the object");
//   op `recreate` — the REAL pass over a local EC part with a scripted state of the sibling parts: checkECParts,
//                   recreateECParts, recreateECPart through the REAL replicator (C22: the order in which the nodes are
//                   offered a re-created part);
//   network-map MAINTENANCE nodes at every position of the placement vector (C27: the uint32 shortage counter).

// ---------------------------------------------------------------------------------------------
// the counter of processNodes: no task asks for more copies than a rule requires

func polQuantityOracle(c *runCtx, in polPassIn, cs *polCase, desc string) {
	if len(cs.tasks) == 0 {
		return
	}
	// the largest number of copies a rule of this pass can require
	maxReq := 1
	for i, l := range in.lists {
		if i < len(in.rep) {
			maxReq = max(maxReq, in.rep[i])
		}
		if in.typ != "REG" {
			maxReq = max(maxReq, len(l)) // LOCK/LINK (and TOMBSTONE over EC lists) are wanted on every node of the list
		}
	}
	for _, t := range cs.tasks {
		if t.part >= 0 {
			c.oracle("recreated-part-asks-for-one-copy", t.q == 1, desc)
			continue
		}
		// shortage replication asks for at most what the rule requires; rebalancing asks for one copy per candidate
		c.oracle("task-quantity-within-rule-requirement", t.q <= maxReq || t.q == len(t.nodes), desc)
	}
}

// ---------------------------------------------------------------------------------------------
// op `task`

type polDone struct{ done []int }

func (d *polDone) SubmitSuccessfulReplication(n netmap.NodeInfo) {
	d.done = append(d.done, polNodeID(n))
}

func polParseDots(s string) []int {
	if s == "-" {
		return nil
	}
	var xs []int
	for _, t := range strings.Split(s, ".") {
		v, err := strconv.Atoi(t)
		if err != nil || v < 0 {
			panic("bad list " + s)
		}
		xs = append(xs, v)
	}
	return xs
}

func polBitKey(o opLine, k string) bool {
	switch o.kv[k] {
	case "0":
		return false
	case "1":
		return true
	}
	panic("bad bit " + k)
}

func polExecTask(c *runCtx, f *polFixture, o opLine, line string) {
	var q, me, cut int
	var nodes []int
	var repl string
	var cutStored, stored, withObj bool
	ok := true
	func() {
		defer func() {
			if recover() != nil {
				ok = false
			}
		}()
		for _, k := range []string{"q", "nodes", "me", "repl", "cut", "cs", "stored", "obj"} {
			if _, has := o.kv[k]; !has {
				panic("missing " + k)
			}
		}
		q, me, cut = o.int("q"), o.int("me"), o.int("cut")
		nodes = polParseDots(o.kv["nodes"])
		repl = o.kv["repl"]
		cutStored, stored, withObj = polBitKey(o, "cs"), polBitKey(o, "stored"), polBitKey(o, "obj")
		if q < 0 || q > 4294967295 || me < 0 || me > 200 || cut < 0 || cut > len(repl) || len(repl) > 200 || strings.Trim(repl, "01") != "" {
			panic("range")
		}
		for _, n := range nodes {
			if n == 0 || (n > len(repl) && n != me) {
				panic("node")
			}
		}
	}()
	if !ok {
		c.emit(line, "=> bad-op")
		return
	}
	cs := &polCase{me: me, repl: repl, headOK: map[int]bool{}, stored: map[int]bool{}, cutAt: cut, cutStored: cutStored}
	f.cur = cs
	ctx, cancel := context.WithCancel(context.Background())
	defer cancel()
	cs.cancel = cancel
	var task replicator.Task
	objNum := polStoredObj
	if !stored && !withObj {
		objNum = polMissingObj
	}
	task.SetObjectAddress(numAddr(1, objNum))
	if withObj {
		task.SetObject(mkObject(1, polStoredObj, detPayload(64, 3)))
	}
	task.SetCopiesNumber(uint32(q))
	var nl []netmap.NodeInfo
	for _, n := range nodes {
		nl = append(nl, polNode(n, false))
	}
	task.SetNodes(nl)
	var res polDone
	f.repl.HandleTask(ctx, task, &res)

	var st []int
	for n := range cs.stored {
		st = append(st, n)
	}
	sort.Ints(st)
	obs := fmt.Sprintf("=> ok done=%s stored=%s", polDots(res.done), joinInts(st))
	c.emit(line, obs)
	desc := line + "  " + obs
	// the property's sentence: never more successes than asked for, never a success for a node that did not store
	sound := len(res.done) <= q
	seen := map[int]bool{}
	for _, n := range res.done {
		real := cs.stored[n]
		if n == me {
			real = withObj // stored by the local storage engine (the task carried the object)
		}
		sound = sound && polContains(nodes, n) && real && !seen[n]
		seen[n] = true
	}
	c.oracle("replicator-reports-only-real-stores-within-quantity", sound, desc)
	if cut != 0 && polContains(nodes, cut) {
		c.count("task-with-cancellation")
	}
	if len(res.done) > 0 || cut != 0 {
		c.nontrivial(line)
	}
}

func policerTaskGen(c *runCtx, run func([]string)) {
	var ops []string
	line := func(q int, nodes []int, me int, repl string, cut int, cs, stored, obj int) string {
		return fmt.Sprintf("policer task q=%d nodes=%s me=%d repl=%s cut=%d cs=%d stored=%d obj=%d", q, polDots(nodes), me, repl, cut, cs, stored, obj)
	}
	// (1) small scope: every list of 1..3 distinct nodes out of {1,2,3} (+ the local node 9 at every place), every
	// acceptance table, every quantity 0..3, the context cancelled at every node or never, both outcomes of the
	// interrupted transfer
	var lists [][]int
	var rec func(cur []int)
	rec = func(cur []int) {
		if len(cur) > 0 {
			lists = append(lists, append([]int(nil), cur...))
		}
		if len(cur) == 3 {
			return
		}
		for _, x := range []int{1, 2, 3, 9} {
			if !polContains(cur, x) {
				rec(append(cur, x))
			}
		}
	}
	rec(nil)
	for _, l := range lists {
		for _, repl := range polAllStrings("01", 3) {
			for q := 0; q <= 3; q++ {
				for cut := 0; cut <= 3; cut++ {
					if cut != 0 && !polContains(l, cut) && c.rng.IntN(8) != 0 {
						continue
					}
					if !c.thorough() && c.rng.IntN(3) != 0 {
						continue
					}
					cs, obj, stored := c.rng.IntN(2), 0, 1
					if c.rng.IntN(4) == 0 {
						obj = 1
					}
					if c.rng.IntN(10) == 0 {
						stored = 0
					}
					ops = append(ops, line(q, l, 9, repl, cut, cs, stored, obj))
				}
			}
		}
	}
	// (2) seeded longer tasks
	for i := 0; i < c.n(1500, 40000); i++ {
		n := 2 + c.rng.IntN(6)
		perm := c.rng.Perm(n)
		k := 1 + c.rng.IntN(n)
		var l []int
		for _, x := range perm[:k] {
			l = append(l, x+1)
		}
		me := polMaxNode + 1
		if c.rng.IntN(3) == 0 {
			me = l[c.rng.IntN(len(l))]
		}
		b := make([]byte, n)
		for j := range b {
			b[j] = '0'
			if c.rng.IntN(100) < 65 {
				b[j] = '1'
			}
		}
		cut := 0
		if c.rng.IntN(2) == 0 {
			cut = l[c.rng.IntN(len(l))]
			if cut > n {
				cut = 0
			}
		}
		q := c.rng.IntN(k + 2)
		if c.rng.IntN(40) == 0 {
			q = 4294967295
		}
		stored, obj := 1, 0
		if c.rng.IntN(10) == 0 {
			stored = 0
		}
		if c.rng.IntN(4) == 0 {
			obj = 1
		}
		ops = append(ops, line(q, l, me, string(b), cut, c.rng.IntN(2), stored, obj))
	}
	// (3) malformed
	ops = append(ops, "policer task q=1", "policer task q=1 nodes=1.x me=9 repl=11 cut=0 cs=0 stored=1 obj=0",
		"policer task q=1 nodes=1.3 me=9 repl=11 cut=0 cs=0 stored=1 obj=0", "policer task q=1 nodes=1 me=9 repl=11 cut=3 cs=0 stored=1 obj=0",
		"policer task q=1 nodes=1 me=9 repl=12 cut=0 cs=0 stored=1 obj=0", "policer task q=1 nodes=1 me=9 repl=11 cut=0 cs=2 stored=1 obj=0")
	run(ops)
}

// ---------------------------------------------------------------------------------------------
// network-map MAINTENANCE nodes at every position of the placement vector

func policerMaintGen(c *runCtx, run func([]string)) {
	var ops []string
	// (1) one list of L distinct nodes, REP 1..min(L,3), the local node at every position or outside the container,
	// every single node and every pair of nodes in the MAINTENANCE state of the network map, truthful answers of the
	// others for a few holder sets (the rule covered by its first nodes / by its last nodes / by nobody)
	maxL := 5
	if c.thorough() {
		maxL = 6
	}
	for L := 2; L <= maxL; L++ {
		list := make([]int, L)
		for i := range list {
			list[i] = i + 1
		}
		var msets [][]int
		for a := 1; a <= L; a++ {
			msets = append(msets, []int{a})
			for b := a + 1; b <= L; b++ {
				msets = append(msets, []int{a, b})
			}
		}
		for me := 0; me <= L; me++ {
			meID := me
			if me == 0 {
				meID = polMaxNode
			}
			for _, ms := range msets {
				if polContains(ms, meID) {
					continue
				}
				for copies := 1; copies <= L && copies <= 3; copies++ {
					for variant := 0; variant < 4; variant++ {
						if len(ms) == 2 && !c.thorough() && c.rng.IntN(2) != 0 {
							continue
						}
						ans := make([]byte, L)
						for i := range ans {
							switch variant {
							case 0: // the first `copies` nodes hold the object
								ans[i] = 'n'
								if i < copies {
									ans[i] = 'h'
								}
							case 1: // the last `copies` nodes hold it
								ans[i] = 'n'
								if i >= L-copies {
									ans[i] = 'h'
								}
							case 2: // everybody holds it
								ans[i] = 'h'
							default:
								ans[i] = "hn"[c.rng.IntN(2)]
							}
						}
						typ := "REG"
						if variant == 3 && c.rng.IntN(4) == 0 {
							typ = []string{"TS", "LOCK", "LINK"}[c.rng.IntN(3)]
						}
						ops = append(ops, polPassLine(typ, "-", "ok", []int{copies}, "-", [][]int{list}, meID, 1, append([]int(nil), ms...),
							string(ans), strings.Repeat("1", L), 1, 1, 0))
					}
				}
			}
		}
	}
	// (2) seeded: several overlapping lists, maintenance flags with p=1/3
	for i := 0; i < c.n(1500, 40000); i++ {
		n := 3 + c.rng.IntN(4)
		nv := 1 + c.rng.IntN(3)
		var lists [][]int
		var rep []int
		for v := 0; v < nv; v++ {
			perm := c.rng.Perm(n)
			k := 1 + c.rng.IntN(n)
			l := make([]int, k)
			for j := range l {
				l[j] = perm[j] + 1
			}
			lists = append(lists, l)
			rep = append(rep, 1+c.rng.IntN(min(3, k)))
		}
		me := 1 + c.rng.IntN(n+1)
		if me == n+1 {
			me = polMaxNode
		}
		var maint []int
		for m := 1; m <= n; m++ {
			if c.rng.IntN(3) == 0 && m != me {
				maint = append(maint, m)
			}
		}
		ans := make([]byte, n)
		repl := make([]byte, n)
		for j := range ans {
			ans[j] = "hhhnnnme"[c.rng.IntN(8)]
			repl[j] = "1110"[c.rng.IntN(4)]
		}
		typ := []string{"REG", "REG", "REG", "TS", "LOCK", "LINK"}[c.rng.IntN(6)]
		ops = append(ops, polPassLine(typ, "-", "ok", rep, "-", lists, me, 1, maint, string(ans), string(repl), 1, 1+c.rng.IntN(2), 0))
	}
	run(ops)
}

// ---------------------------------------------------------------------------------------------
// op `recreate`

type polRecIn struct {
	rep       []int
	ecr       [][2]int
	lists     [][]int
	ri, lp    int
	me, size  int
	parts     []string
	rfail     map[int]bool
	ans, repl string
}

func polParseRecreate(o opLine) (in polRecIn, ok bool) {
	defer func() {
		if recover() != nil {
			ok = false
		}
	}()
	for _, k := range []string{"rep", "ecr", "lists", "ri", "lp", "me", "size", "parts", "rfail", "ans", "repl"} {
		if _, has := o.kv[k]; !has {
			return in, false
		}
	}
	in.rep, in.ecr, in.lists = o.ints("rep"), polParsePairs(o.kv["ecr"]), polParseLists(o.kv["lists"])
	in.ri, in.lp, in.me, in.size = o.int("ri"), o.int("lp"), o.int("me"), o.int("size")
	in.parts = strings.Split(o.kv["parts"], ".")
	in.rfail = map[int]bool{}
	for _, p := range o.ints("rfail") {
		if p < 0 {
			return in, false
		}
		in.rfail[p] = true
	}
	in.ans, in.repl = o.kv["ans"], o.kv["repl"]
	if len(in.ans) != len(in.repl) || len(in.ans) > 200 || strings.Trim(in.ans, "hnme") != "" || strings.Trim(in.repl, "01") != "" {
		return in, false
	}
	if in.me < 1 || in.me > len(in.ans) || in.size < 1 || in.size > 4096 || in.ri < 0 || in.lp < 0 {
		return in, false
	}
	for _, r := range in.rep {
		if r < 0 {
			return in, false
		}
	}
	for _, l := range in.lists {
		for _, n := range l {
			if n < 1 || n > len(in.ans) {
				return in, false
			}
		}
	}
	if len(in.lists) != len(in.rep)+len(in.ecr) || in.ri >= len(in.ecr) {
		return in, false
	}
	for _, r := range in.ecr {
		if r[0] < 0 || r[1] < 0 {
			return in, false
		}
	}
	d, par := in.ecr[in.ri][0], in.ecr[in.ri][1]
	nodes := in.lists[len(in.rep)+in.ri]
	seen := map[int]bool{}
	for _, n := range nodes {
		if seen[n] {
			return in, false
		}
		seen[n] = true
	}
	if d < 1 || d > 64 || par < 1 || par > 64 || in.lp >= d+par || !seen[in.me] || len(in.parts) != d+par {
		return in, false
	}
	for _, row := range in.parts {
		if len(row) != len(nodes) || strings.Trim(row, "hnme") != "" {
			return in, false
		}
	}
	return in, true
}

func polPairsStr(ps [][2]int) string {
	if len(ps) == 0 {
		return "-"
	}
	s := make([]string, len(ps))
	for i, p := range ps {
		s[i] = fmt.Sprintf("%d.%d", p[0], p[1])
	}
	return strings.Join(s, ",")
}

func polExecRecreate(c *runCtx, f *polFixture, o opLine, line string) {
	in, ok := polParseRecreate(o)
	if !ok {
		c.emit(line, "=> bad-op")
		return
	}
	d, par := in.ecr[in.ri][0], in.ecr[in.ri][1]
	total := d + par
	nodes := in.lists[len(in.rep)+in.ri]
	payload := detPayload(in.size, 5)
	parts, _, err := verifbridge.ECEncode(verifbridge.ECRule{DataPartNum: uint8(d), ParityPartNum: uint8(par)}, payload)
	if err != nil {
		panic(err)
	}
	cs := &polCase{me: in.me, ans: in.ans, repl: in.repl, headOK: map[int]bool{}, stored: map[int]bool{}, wantParts: parts}
	f.cur = cs
	var pheads, ranges [][2]int
	parent := *mkObject(3, 77, payload).CutPayload()
	env := &policer.VerifECEnv{RuleIdx: in.ri, Parent: parent, Parts: parts, LocalKey: polNode(in.me, false).PublicKey(), Replicator: polRecorder{f}}
	for _, l := range in.lists {
		nl := make([]netmap.NodeInfo, 0, len(l))
		for _, n := range l {
			nl = append(nl, polNode(n, false))
		}
		env.NodeLists = append(env.NodeLists, nl)
	}
	for _, r := range in.rep {
		env.RepRules = append(env.RepRules, uint(r))
	}
	for _, r := range in.ecr {
		env.ECRules = append(env.ECRules, [2]uint8{uint8(r[0]), uint8(r[1])})
	}
	env.PartStatus = func(node netmap.NodeInfo, local bool, p int, ranged bool) int {
		id := polNodeID(node)
		cs.mtx.Lock()
		defer cs.mtx.Unlock()
		if ranged {
			ranges = append(ranges, [2]int{p, id})
		} else {
			pheads = append(pheads, [2]int{p, id})
		}
		if ranged && in.rfail[p] {
			return policer.VerifPartError
		}
		if local && ranged && p == in.lp {
			return policer.VerifPartHolds // the local part itself
		}
		pos := -1
		for i, n := range nodes {
			if n == id {
				pos = i
			}
		}
		if pos < 0 {
			return policer.VerifPartError
		}
		switch in.parts[p][pos] {
		case 'h':
			return policer.VerifPartHolds
		case 'n':
			return policer.VerifPartNotFound
		case 'm':
			return policer.VerifPartMaintenance
		}
		return policer.VerifPartError
	}
	env.Head = func(n netmap.NodeInfo, _ oid.Address) error {
		id := polNodeID(n)
		cs.mtx.Lock()
		defer cs.mtx.Unlock()
		cs.heads = append(cs.heads, id)
		switch cs.ans[id-1] {
		case 'h':
			cs.headOK[id] = true
			return nil
		case 'n':
			return polErrNotFound
		case 'm':
			return polErrMaint
		}
		return polErrOther
	}
	p, err := policer.VerifNewEC(env)
	if err != nil {
		panic(err)
	}
	local := env.VerifPartObject(in.lp)
	// the local part is in the storage engine behind the real replicator (a move of the part reads it from there)
	if err := f.eng.Put(context.Background(), &local, nil); err != nil {
		panic(err)
	}
	awa := objectcore.AddressWithAttributes{Address: oid.NewAddress(numCID(3), local.GetID()), Type: object.TypeRegular, Attributes: []string{"", "", ""}, ShardIDs: []string{"shard0"}}
	awa.Attributes[0], awa.Attributes[1] = policer.VerifECAttributes(in.ri, in.lp)
	par77 := numOID(77)
	awa.Attributes[2] = string(par77[:])
	p.VerifProcessObject(context.Background(), awa)

	var recs, own []polTask
	for _, t := range cs.tasks {
		if t.part >= 0 {
			recs = append(recs, t)
		} else {
			own = append(own, t)
		}
	}
	sort.SliceStable(recs, func(i, j int) bool { return recs[i].part < recs[j].part })
	rs := "-"
	if len(recs) > 0 {
		var xs []string
		for _, t := range recs {
			xs = append(xs, fmt.Sprintf("%d:%s:%s", t.part, polDots(t.nodes), polDots(t.done)))
		}
		rs = strings.Join(xs, ";")
	}
	ownCase := &polCase{heads: cs.heads, tasks: own}
	ownObs := polShowOut(polPassOut{deleted: env.Deleted, cs: ownCase})
	obs := fmt.Sprintf("=> ok pheads=%s ranges=%s rec=%s %s", polPairsStr(pheads), polPairsStr(ranges), rs, strings.TrimPrefix(ownObs, "=> ok "))
	c.emit(line, obs)
	desc := line + "  " + obs

	// --- C22 on the order USED to place a re-created part
	seqOf := func(part int) []int {
		var s []int
		for i := range verifbridge.ECNodeSequenceForPart(part, total, len(nodes)) {
			s = append(s, nodes[i])
		}
		return s
	}
	firsts := map[int]int{}
	for _, t := range recs {
		once := len(t.nodes) == len(nodes)
		cnt := map[int]int{}
		for _, n := range t.nodes {
			cnt[n]++
		}
		for _, n := range nodes {
			once = once && cnt[n] == 1
		}
		c.oracle("recreated-part-offered-to-every-node-of-its-rule-once", once, desc)
		if len(nodes) >= total && len(t.nodes) > 0 {
			c.oracle("recreated-part-starts-at-the-node-with-its-own-index", t.nodes[0] == nodes[t.part], desc)
			if prev, dup := firsts[t.nodes[0]]; dup {
				c.oracle("recreated-parts-start-at-distinct-nodes", false, desc+fmt.Sprintf(" (parts %d and %d)", prev, t.part))
			}
			firsts[t.nodes[0]] = t.part
		}
		c.oracle("recreated-part-offered-in-the-order-of-its-node-sequence", fmt.Sprint(t.nodes) == fmt.Sprint(seqOf(t.part)), desc)
		c.oracle("recreated-part-asks-for-one-copy", t.q == 1 && len(t.done) <= 1, desc)
		lost := true
		for pos := range nodes {
			lost = lost && in.parts[t.part][pos] != 'h' && in.parts[t.part][pos] != 'm'
		}
		c.oracle("only-lost-parts-are-recreated", lost && t.part != in.lp, desc)
	}
	c.oracle("recreated-part-equals-the-lost-part", len(cs.badParts) == 0, desc+" "+strings.Join(cs.badParts, ","))
	polReplicatorOracleRec(c, in.me, cs, recs, desc)
	if len(recs) > 0 {
		c.count("with-recreated-part")
		c.count(fmt.Sprintf("recreated:%d", len(recs)))
		c.nontrivial(line)
	}
	if len(in.rep) > 0 {
		c.count("recreate-with-rep-rules")
	}
}

// the replicator's report for a task that carries the object: the local node may be among the successes
func polReplicatorOracleRec(c *runCtx, me int, cs *polCase, recs []polTask, desc string) {
	for _, t := range recs {
		okT := len(t.done) <= t.q
		for _, n := range t.done {
			okT = okT && polContains(t.nodes, n) && (n == me || cs.stored[n])
		}
		c.oracle("replicator-reports-only-real-stores-within-quantity", okT, desc)
	}
}

func policerRecreateGen(c *runCtx, run func([]string)) {
	var ops []string
	for i := 0; i < c.n(500, 12000); i++ {
		d, par := 1+c.rng.IntN(4), 1+c.rng.IntN(3)
		total := d + par
		nNodes := 1 + c.rng.IntN(min(2*total+2, 14))
		if c.rng.IntN(3) == 0 {
			nNodes = total * (1 + c.rng.IntN(2)) // the usual shape: a multiple of the number of parts
		}
		u := nNodes + c.rng.IntN(3)
		perm := c.rng.Perm(u)
		nodes := make([]int, nNodes)
		for j := range nodes {
			nodes[j] = perm[j] + 1
		}
		randList := func() []int {
			pp := c.rng.Perm(u)
			k := 1 + c.rng.IntN(u)
			l := make([]int, k)
			for j := range l {
				l[j] = pp[j] + 1
			}
			return l
		}
		var lists [][]int
		var rep []int
		if c.rng.IntN(3) == 0 {
			l := randList()
			lists = append(lists, l)
			rep = append(rep, 1+c.rng.IntN(min(3, len(l))))
		}
		ne := 1 + c.rng.IntN(2)
		ri := c.rng.IntN(ne)
		var ecr [][2]int
		for e := 0; e < ne; e++ {
			if e == ri {
				lists = append(lists, nodes)
				ecr = append(ecr, [2]int{d, par})
			} else {
				lists = append(lists, randList())
				ecr = append(ecr, [2]int{1 + c.rng.IntN(3), 1 + c.rng.IntN(2)})
			}
		}
		me := nodes[c.rng.IntN(nNodes)]
		lp := c.rng.IntN(total)
		rows := make([][]byte, total)
		forceLost := -1
		if c.rng.IntN(2) == 0 && total > 1 {
			forceLost = (lp + 1 + c.rng.IntN(total-1)) % total
		}
		for p := range rows {
			rows[p] = []byte(strings.Repeat("n", nNodes))
			for j := range rows[p] {
				if c.rng.IntN(10) == 0 {
					rows[p][j] = 'e'
				}
			}
			var seq []int
			for idx := range verifbridge.ECNodeSequenceForPart(p, total, nNodes) {
				seq = append(seq, idx)
			}
			r := c.rng.IntN(100)
			switch {
			case p == forceLost || r < 18: // lost
			case r < 24: // its first node is under maintenance
				rows[p][seq[0]] = 'm'
			case r < 36 && len(seq) > 1: // held by a fallback node
				rows[p][seq[1+c.rng.IntN(len(seq)-1)]] = 'h'
			default:
				rows[p][seq[0]] = 'h'
			}
		}
		var rfail []int
		for p := 0; p < total; p++ {
			if c.rng.IntN(20) == 0 {
				rfail = append(rfail, p)
			}
		}
		ans := make([]byte, u)
		repl := make([]byte, u)
		for j := range ans {
			ans[j] = "hnnnme"[c.rng.IntN(6)]
			repl[j] = "1110"[c.rng.IntN(4)]
		}
		var ls, rw []string
		for _, l := range lists {
			ls = append(ls, polDots(l))
		}
		for _, r := range rows {
			rw = append(rw, string(r))
		}
		ops = append(ops, fmt.Sprintf("policer recreate rep=%s ecr=%s lists=%s ri=%d lp=%d me=%d size=%d parts=%s rfail=%s ans=%s repl=%s",
			joinInts(rep), polPairsStr(ecr), strings.Join(ls, "/"), ri, lp, me, 1+c.rng.IntN(200), strings.Join(rw, "."), joinInts(rfail), string(ans), string(repl)))
	}
	ops = append(ops, "policer recreate rep=- ecr=2.1",
		"policer recreate rep=- ecr=2.1 lists=1.2.3 ri=1 lp=0 me=1 size=10 parts=hnn.nhn.nnh rfail=- ans=nnn repl=111",
		"policer recreate rep=- ecr=2.1 lists=1.2.3 ri=0 lp=3 me=1 size=10 parts=hnn.nhn.nnh rfail=- ans=nnn repl=111",
		"policer recreate rep=- ecr=2.1 lists=1.2.2 ri=0 lp=0 me=1 size=10 parts=hnn.nhn.nnh rfail=- ans=nnn repl=111",
		"policer recreate rep=- ecr=2.1 lists=1.2.3 ri=0 lp=0 me=1 size=10 parts=hnn.nhn rfail=- ans=nnn repl=111",
		"policer recreate rep=- ecr=2.0 lists=1.2.3 ri=0 lp=0 me=1 size=10 parts=hnn.nhn rfail=- ans=nnn repl=111")
	run(ops)
}
