package main

// Engine "ir", stateful stream of C35: the REAL inner ring indexer WITH its cache
// (pkg/innerring/indexer.go, cache timeout > 0 as in production) behind the real Server getters,
// the real startup vote, the real alphabet processor (emission) and the real netmap processor
// (epoch tick), over a chain whose key lists change, whose lookups fail and recover, and a clock
// the ops advance.  A sequence (after `reset`) is one node life:
//
//   ir ixstart to=T               process (re)start: fresh Server/indexer with cache timeout T (time units; 0 = no cache)
//   ir ixchain ir=<ids> comm=<ids>  the chain's inner ring / committee key lists (ids 0..9, the node's key is 0)
//   ir ixfail ir=N comm=M         the next N InnerRingKeys and the next M Committee calls fail
//   ir ixwait d=D                 D time units pass
//   ir ixreset                    RPC reconnection (Server.restartFSChain -> indexer.reset)
//   ir ixget g=alpha|aidx|active|iridx|size   one Server getter
//   ir ixvote n=N nval=V          validator vote (N alphabet contracts, V validators)
//   ir ixemit n=N nodes=K emission=E   gas emission
//   ir ixtick                     new epoch tick
//
// Observation: the value / the number of recorded chain-mutating calls, and the RPC lookups the op made
// (`rpc=<InnerRingKeys calls>,<Committee calls>`; 0,0 = served from the cache).
//
// Time: one unit is an hour of the indexer's wall clock; `ixwait` makes the cached indexes older
// (Server.VerifElapse), so the few microseconds a run really takes never reach a boundary.
//
// Oracle (independent of the model, from the engine's own bookkeeping of what the fetchers returned):
// a non-negative index / alphabet status / a chain-mutating call is allowed only if no lookup failed and
// the cache was not dropped since BOTH lists were last read, the node's key is at exactly that position
// in the list as it was last read, and that read is younger than the cache timeout (or was made by this
// very call).

import (
	"errors"
	"fmt"
	"strings"
	"time"

	"github.com/google/uuid"
	"github.com/nspcc-dev/neo-go/pkg/crypto/keys"
	"github.com/nspcc-dev/neofs-node/pkg/innerring"
	alphaproc "github.com/nspcc-dev/neofs-node/pkg/innerring/processors/alphabet"
	nmproc "github.com/nspcc-dev/neofs-node/pkg/innerring/processors/netmap"
	"github.com/nspcc-dev/neofs-node/pkg/morph/client"
	cntcli "github.com/nspcc-dev/neofs-node/pkg/morph/client/container"
	nmcli "github.com/nspcc-dev/neofs-node/pkg/morph/client/netmap"
	"github.com/nspcc-dev/neofs-node/pkg/morph/event"
	"go.uber.org/zap"
)

const ixUnit = time.Hour

var ixReported = map[string]int{}

type ixRead struct {
	list []int
	at   int
	op   int // number of the op that made the read
}

type ixWorld struct {
	srv *innerring.Server
	ch  *authChain
	cli *client.Client

	irL, commL       []int
	failIR, failComm int
	now, timeout     int
	nOp              int
	rpcIR, rpcComm   int

	// the oracle's bookkeeping
	irRead, commRead *ixRead
	irOK, commOK     bool
	dirty            bool
}

func ixKeys(ids []int) keys.PublicKeys {
	ks := make(keys.PublicKeys, 0, len(ids))
	for _, id := range ids {
		if id == 0 {
			ks = append(ks, irKey(20).PublicKey())
		} else {
			ks = append(ks, irKey(70+id).PublicKey())
		}
	}
	return ks
}

func ixPos(l []int) int {
	for i, k := range l {
		if k == 0 {
			return i
		}
	}
	return -1
}

type ixIRFetcher struct{ w *ixWorld }

func (f ixIRFetcher) InnerRingKeys() (keys.PublicKeys, error) {
	w := f.w
	w.rpcIR++
	if w.failIR > 0 {
		w.failIR--
		w.dirty, w.irOK, w.commOK = true, false, false
		return nil, errors.New("harness: RPC node is not available")
	}
	w.irRead = &ixRead{list: append([]int(nil), w.irL...), at: w.now, op: w.nOp}
	w.irOK = true
	if w.commOK {
		w.dirty = false
	}
	return ixKeys(w.irL), nil
}

type ixCommFetcher struct{ w *ixWorld }

func (f ixCommFetcher) Committee() (keys.PublicKeys, error) {
	w := f.w
	w.rpcComm++
	if w.failComm > 0 {
		w.failComm--
		w.dirty, w.irOK, w.commOK = true, false, false
		return nil, errors.New("harness: RPC node is not available")
	}
	w.commRead = &ixRead{list: append([]int(nil), w.commL...), at: w.now, op: w.nOp}
	w.commOK = true
	if w.irOK {
		w.dirty = false
	}
	return ixKeys(w.commL), nil
}

func newIxWorld() *ixWorld {
	w := &ixWorld{}
	iw := irWorldFor(4)
	w.ch = &authChain{w: iw, sessions: map[uuid.UUID]int{}}
	w.cli = client.VerifNewInterceptedClient(irKey(20), w.ch.intercept, irNotaryHash, irProxyHash, iw.alphabet)
	w.start(10, 8)
	return w
}

// start is a process start: nothing has been read yet.
func (w *ixWorld) start(timeout, contracts int) {
	w.timeout = timeout
	w.srv = innerring.VerifNewCachingStateServer(zap.NewNop(), w.cli, irKey(20).PublicKey(), authContracts(contracts),
		ixIRFetcher{w}, ixCommFetcher{w}, time.Duration(timeout)*ixUnit)
	w.irRead, w.commRead, w.irOK, w.commOK, w.dirty = nil, nil, false, false, false
}

// mayServe is the property's condition for a value taken from list read r.
func (w *ixWorld) mayServe(r *ixRead) (bool, string) {
	switch {
	case r == nil:
		return false, "the list has never been read"
	case w.dirty:
		return false, "a lookup failed or the cache was dropped after the lists were last read"
	case r.op != w.nOp && w.now-r.at >= w.timeout:
		return false, fmt.Sprintf("the list was read %d time units ago, cache timeout is %d", w.now-r.at, w.timeout)
	}
	return true, ""
}

func (w *ixWorld) checkIndex(orc func(string, bool, string), line, what string, v int, r *ixRead) {
	if v < 0 {
		return
	}
	ok, why := w.mayServe(r)
	if ok && ixPos(r.list) != v {
		ok, why = false, fmt.Sprintf("the node's key is at position %d of the list as last read (%s)", ixPos(r.list), joinInts(r.list))
	}
	orc("index-served-only-from-last-successful-lookup", ok, fmt.Sprintf("%s: %s=%d but %s", line, what, v, why))
}

func ixList(o opLine, k string) ([]int, bool) {
	v, ok := o.kv[k]
	if !ok || v == "" {
		return nil, false
	}
	if v == "-" {
		return nil, true
	}
	var r []int
	for _, p := range strings.Split(v, ",") {
		if len(p) != 1 || p[0] < '0' || p[0] > '9' {
			return nil, false
		}
		r = append(r, int(p[0]-'0'))
	}
	return r, len(r) <= 8
}

func ixNat(o opLine, k string, max int) (int, bool) {
	v, ok := o.kv[k]
	if !ok || v == "" || len(v) > 4 {
		return 0, false
	}
	n := 0
	for _, ch := range v {
		if ch < '0' || ch > '9' {
			return 0, false
		}
		n = n*10 + int(ch-'0')
	}
	return n, n <= max
}

func (w *ixWorld) exec(c *runCtx, line string, o opLine) {
	c.count(o.name)
	var pend []func()
	orc := func(a string, ok bool, d string) {
		pend = append(pend, func() {
			// every failure is shrunk by re-running the harness: one witness per assertion and run is enough
			if !ok {
				if ixReported[a] >= 1 {
					c.count("oracle_fail_not_shrunk:" + a)
					return
				}
				ixReported[a]++
			}
			c.oracle(a, ok, d)
		})
	}
	emitObs := func(obs string) {
		c.emit(line, obs)
		for _, f := range pend {
			f()
		}
	}
	w.nOp++
	w.rpcIR, w.rpcComm = 0, 0
	rpc := func() string { return fmt.Sprintf("rpc=%d,%d", w.rpcIR, w.rpcComm) }
	note := func(obs string) {
		// non-trivial: an answer from the cache, or a call whose lookup failed
		if w.rpcIR+w.rpcComm == 0 || w.dirty {
			c.nontrivial(fmt.Sprintf("%s|%s|%v|%d", line, obs, w.dirty, w.timeout))
		}
		switch {
		case w.rpcIR+w.rpcComm == 0:
			c.count("ix:cached")
		case w.dirty:
			c.count("ix:lookup-failed")
		default:
			c.count("ix:lookup-ok")
		}
	}
	switch o.name {
	case "ixstart":
		t, ok := ixNat(o, "to", 100)
		if !ok {
			emitObs("=> bad-op")
			return
		}
		w.start(t, 8)
		emitObs("=> ok")
	case "ixchain":
		il, ok1 := ixList(o, "ir")
		cl, ok2 := ixList(o, "comm")
		if !ok1 || !ok2 {
			emitObs("=> bad-op")
			return
		}
		w.irL, w.commL = il, cl
		emitObs("=> ok")
	case "ixfail":
		a, ok1 := ixNat(o, "ir", 100)
		b, ok2 := ixNat(o, "comm", 100)
		if !ok1 || !ok2 {
			emitObs("=> bad-op")
			return
		}
		w.failIR, w.failComm = a, b
		emitObs("=> ok")
	case "ixwait":
		d, ok := ixNat(o, "d", 1000)
		if !ok {
			emitObs("=> bad-op")
			return
		}
		w.now += d
		w.srv.VerifElapse(time.Duration(d) * ixUnit)
		emitObs("=> ok")
	case "ixreset":
		w.srv.VerifResetIndexer()
		w.dirty, w.irOK, w.commOK = true, false, false
		emitObs("=> ok")
	case "ixget":
		var obs string
		switch o.kv["g"] {
		case "alpha":
			v := w.srv.IsAlphabet()
			if v {
				ok, why := w.mayServe(w.commRead)
				if ok && ixPos(w.commRead.list) < 0 {
					ok, why = false, "the node's key is not in the committee as last read ("+joinInts(w.commRead.list)+")"
				}
				orc("alphabet-status-only-from-last-successful-lookup", ok, line+": IsAlphabet()=true but "+why)
			}
			obs = fmt.Sprintf("=> ok v=%v %s", v, rpc())
		case "aidx":
			v := w.srv.AlphabetIndex()
			w.checkIndex(orc, line, "AlphabetIndex()", v, w.commRead)
			obs = fmt.Sprintf("=> ok v=%d %s", v, rpc())
		case "active":
			v := w.srv.IsActive()
			if v {
				ok, why := w.mayServe(w.irRead)
				if ok && ixPos(w.irRead.list) < 0 {
					ok, why = false, "the node's key is not in the inner ring list as last read ("+joinInts(w.irRead.list)+")"
				}
				orc("active-status-only-from-last-successful-lookup", ok, line+": IsActive()=true but "+why)
			}
			obs = fmt.Sprintf("=> ok v=%v %s", v, rpc())
		case "iridx":
			v := w.srv.InnerRingIndex()
			w.checkIndex(orc, line, "InnerRingIndex()", v, w.irRead)
			obs = fmt.Sprintf("=> ok v=%d %s", v, rpc())
		case "size":
			v := w.srv.InnerRingSize()
			if v > 0 {
				ok, why := w.mayServe(w.irRead)
				if ok && len(w.irRead.list) != v {
					ok, why = false, "the inner ring list as last read is "+joinInts(w.irRead.list)
				}
				orc("ring-size-only-from-last-successful-lookup", ok, fmt.Sprintf("%s: InnerRingSize()=%d but %s", line, v, why))
			}
			obs = fmt.Sprintf("=> ok v=%d %s", v, rpc())
		default:
			emitObs("=> bad-op")
			return
		}
		note(obs)
		emitObs(obs)
	case "ixvote", "ixemit", "ixtick":
		n, nodes := 0, 0
		var es []string
		switch o.name {
		case "ixvote":
			var ok1, ok2 bool
			var nval int
			n, ok1 = ixNat(o, "n", 8)
			nval, ok2 = ixNat(o, "nval", 8)
			if !ok1 || !ok2 {
				emitObs("=> bad-op")
				return
			}
			var vals keys.PublicKeys
			for i := 0; i < nval; i++ {
				vals = append(vals, irKey(90+i).PublicKey())
			}
			w.ch.voted = false
			w.srv.VerifSetAlphabetContracts(authContracts(n))
			if err := w.srv.VerifStartupVote(vals); err != nil {
				panic(err)
			}
		case "ixemit":
			var ok1, ok2, ok3 bool
			var em int
			n, ok1 = ixNat(o, "n", 8)
			nodes, ok2 = ixNat(o, "nodes", 8)
			em, ok3 = ixNat(o, "emission", 1000)
			if !ok1 || !ok2 || !ok3 {
				emitObs("=> bad-op")
				return
			}
			w.ch.nodes = nodes
			nc, err := nmcli.NewFromMorph(w.cli, irContracts[1])
			if err != nil {
				panic(err)
			}
			ap, err := alphaproc.New(&alphaproc.Params{Log: zap.NewNop(), PoolSize: 1, AlphabetContracts: authContracts(n), NetmapClient: nc,
				FSChainClient: w.cli, IRList: w.srv, StorageEmission: uint64(em)})
			if err != nil {
				panic(err)
			}
			ap.HandleGasEmission(authNewEpochEvent())
			ap.VerifSync()
		case "ixtick":
			n = 1 << 20 // no alphabet contract is involved: any alphabet index acts
			w.ch.nodes = 2
			nc, err := nmcli.NewFromMorph(w.cli, irContracts[1])
			if err != nil {
				panic(err)
			}
			cc, err := cntcli.NewFromMorph(w.cli, irContracts[0])
			if err != nil {
				panic(err)
			}
			nop := func(event.Event) {}
			np, err := nmproc.New(&nmproc.Params{Log: zap.NewNop(), PoolSize: 1, NetmapClient: nc, EpochTimer: authEpoch{}, EpochState: authEpoch{},
				AlphabetState: w.srv, ContainerWrapper: cc, AlphabetSyncHandler: nop, NotaryDepositHandler: nop, NodeValidator: authEpoch{}})
			if err != nil {
				panic(err)
			}
			np.HandleNewEpochTick()
			np.VerifSync()
		}
		es = w.ch.take()
		if len(es) > 0 {
			// the node acted with alphabet authority
			ok, why := w.mayServe(w.commRead)
			if ok {
				if p := ixPos(w.commRead.list); p < 0 || p >= n {
					ok, why = false, fmt.Sprintf("the node's key is at position %d of the committee as last read (%s), alphabet contracts: %d",
						p, joinInts(w.commRead.list), n)
				}
			}
			orc("acts-only-on-last-successful-committee-lookup", ok, line+": sent "+authEffects(es)+" but "+why)
		}
		name := "effects"
		if o.name == "ixvote" {
			name = "invokes"
		}
		obs := fmt.Sprintf("=> ok %s=%d %s", name, len(es), rpc())
		note(obs)
		emitObs(obs)
	default:
		emitObs("=> bad-op")
	}
}

// ---- generation -----------------------------------------------------------------------------

func ixGenList(c *runCtx, pSelf int) []int {
	r := c.rng
	n := r.IntN(6)
	perm := r.Perm(5)
	var l []int
	for i := 0; i < n; i++ {
		l = append(l, perm[i%5]+1)
	}
	if r.IntN(100) < pSelf {
		if len(l) == 0 || r.IntN(4) == 0 {
			l = append(l, 0)
		} else {
			l[r.IntN(len(l))] = 0
		}
	}
	return l
}

func ixGenEval(c *runCtx) string {
	r := c.rng
	switch x := r.IntN(20); {
	case x < 5:
		return "ir ixget g=alpha"
	case x < 10:
		return "ir ixget g=aidx"
	case x < 12:
		return "ir ixget g=" + []string{"active", "iridx", "size"}[r.IntN(3)]
	case x < 15:
		return fmt.Sprintf("ir ixvote n=%d nval=%d", []int{0, 1, 4, 7}[r.IntN(4)], []int{0, 1, 4}[r.IntN(3)])
	case x < 18:
		return fmt.Sprintf("ir ixemit n=%d nodes=%d emission=%d", []int{0, 1, 4, 7}[r.IntN(4)], r.IntN(3), []int{0, 9}[r.IntN(2)])
	}
	return "ir ixtick"
}

// irGenIndexer generates node lives over the caching indexer.
func irGenIndexer(c *runCtx, run func([]string)) {
	r := c.rng
	nseq := c.n(70, 1500)
	for s := 0; s < nseq; s++ {
		var ops []string
		to := []int{0, 2, 5, 5, 10, 10}[r.IntN(6)]
		ops = append(ops, fmt.Sprintf("ir ixstart to=%d", to))
		pSelf := []int{0, 50, 50, 90}[r.IntN(4)] // how often the node is a committee member in this life
		ops = append(ops, fmt.Sprintf("ir ixchain ir=%s comm=%s", joinInts(ixGenList(c, 70)), joinInts(ixGenList(c, pSelf))))
		if r.IntN(2) == 0 { // the very first lookups fail
			ops = append(ops, fmt.Sprintf("ir ixfail ir=%d comm=%d", r.IntN(2), r.IntN(3)))
		}
		n := 8 + r.IntN(18)
		for i := 0; i < n; i++ {
			switch x := r.IntN(100); {
			case x < 45:
				ops = append(ops, ixGenEval(c))
			case x < 58:
				ops = append(ops, fmt.Sprintf("ir ixfail ir=%d comm=%d", r.IntN(3), r.IntN(3)))
			case x < 72:
				d := []int{1, 1, 2, 3, 5, 9, 10, 11}[r.IntN(8)]
				if to > 0 && r.IntN(3) == 0 {
					d = to - 1 + r.IntN(3)
				}
				ops = append(ops, fmt.Sprintf("ir ixwait d=%d", d))
			case x < 82:
				ops = append(ops, "ir ixreset")
				if r.IntN(2) == 0 { // the first request to the new endpoint fails
					ops = append(ops, fmt.Sprintf("ir ixfail ir=%d comm=%d", r.IntN(2), 1+r.IntN(2)), ixGenEval(c))
				}
			case x < 97:
				ops = append(ops, fmt.Sprintf("ir ixchain ir=%s comm=%s", joinInts(ixGenList(c, 70)), joinInts(ixGenList(c, pSelf))))
			default:
				ops = append(ops, fmt.Sprintf("ir ixstart to=%d", []int{0, 5, 10}[r.IntN(3)]))
			}
		}
		run(ops)
	}
}
