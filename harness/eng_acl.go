package main

// Engine "acl" (C28, C30): runs the REAL object ACL service (pkg/services/object/acl/v2: request classification, bearer
// and session token verification) and the REAL checker (pkg/services/object/acl: basic ACL, sticky bit, eACL through the
// SDK validator and the node's header sources) on generated requests, in the order the handlers of
// pkg/services/object/server.go call them, and prints the decision. The Lean model (Model/ACL.lean) prints its decision for
// the same line. The oracle is a reference decision written from the property text (aclRef*), evaluated on the same input.

import (
	"context"
	"crypto/sha256"
	"errors"
	"fmt"
	"math/big"
	"os"
	"sort"
	"strconv"
	"strings"
	"time"

	"github.com/nspcc-dev/neo-go/pkg/core/block"
	"github.com/nspcc-dev/neo-go/pkg/core/transaction"
	"github.com/nspcc-dev/neo-go/pkg/crypto/keys"
	"github.com/nspcc-dev/neo-go/pkg/neorpc/result"
	"github.com/nspcc-dev/neo-go/pkg/smartcontract/trigger"
	"github.com/nspcc-dev/neo-go/pkg/util"
	"github.com/nspcc-dev/neofs-node/pkg/local_object_storage/engine"
	aclsvc "github.com/nspcc-dev/neofs-node/pkg/services/object/acl"
	v2 "github.com/nspcc-dev/neofs-node/pkg/services/object/acl/v2"
	"github.com/nspcc-dev/neofs-node/pkg/services/object/common"
	"github.com/nspcc-dev/neofs-node/pkg/util/verifbridge"
	"github.com/nspcc-dev/neofs-sdk-go/bearer"
	"github.com/nspcc-dev/neofs-sdk-go/checksum"
	apistatus "github.com/nspcc-dev/neofs-sdk-go/client/status"
	"github.com/nspcc-dev/neofs-sdk-go/container"
	"github.com/nspcc-dev/neofs-sdk-go/container/acl"
	cid "github.com/nspcc-dev/neofs-sdk-go/container/id"
	neofscrypto "github.com/nspcc-dev/neofs-sdk-go/crypto"
	"github.com/nspcc-dev/neofs-sdk-go/eacl"
	"github.com/nspcc-dev/neofs-sdk-go/netmap"
	"github.com/nspcc-dev/neofs-sdk-go/object"
	oid "github.com/nspcc-dev/neofs-sdk-go/object/id"
	protoacl "github.com/nspcc-dev/neofs-sdk-go/proto/acl"
	protoobject "github.com/nspcc-dev/neofs-sdk-go/proto/object"
	"github.com/nspcc-dev/neofs-sdk-go/proto/refs"
	protosession "github.com/nspcc-dev/neofs-sdk-go/proto/session"
	"github.com/nspcc-dev/neofs-sdk-go/user"
	"github.com/nspcc-dev/neofs-sdk-go/version"
)

func init() {
	engines["acl"] = seqRunner{gen: aclGen, exec: aclExec}.engine()
}

// ------------------------------------------------------------------ universe

const aclNKeys = 7

type aclWorldT struct {
	priv  [aclNKeys]*keys.PrivateKey
	pub   [aclNKeys][]byte
	usr   [aclNKeys]user.ID
	sign  [aclNKeys]user.Signer
	eng   *engine.StorageEngine
	put   map[oid.ID]bool
	cache *verifbridge.ObjectSessionsCache
}

var aclW *aclWorldT
var aclDebug = os.Getenv("ACL_DEBUG") != ""

func aclWorld() *aclWorldT {
	if aclW != nil {
		return aclW
	}
	w := &aclWorldT{put: map[oid.ID]bool{}}
	for i := 1; i < aclNKeys; i++ {
		b := make([]byte, 32)
		b[31] = byte(i)
		b[0] = byte(11 * i)
		p, err := keys.NewPrivateKeyFromBytes(b)
		if err != nil {
			panic(err)
		}
		w.priv[i] = p
		w.pub[i] = p.PublicKey().Bytes()
		w.sign[i] = user.NewAutoIDSignerRFC6979(p.PrivateKey)
		w.usr[i] = w.sign[i].UserID()
	}
	e, _ := newEngine(scratchDir("acl"), 1, shardCfg{})
	w.eng = e
	aclW = w
	return w
}

func (w *aclWorldT) userNum(u user.ID) int {
	for i := 1; i < aclNKeys; i++ {
		if w.usr[i] == u {
			return i
		}
	}
	return 0
}

// ------------------------------------------------------------------ fakes

type aclCnrSrc struct {
	id  cid.ID
	cnr container.Container
}

func (s aclCnrSrc) Get(id cid.ID) (container.Container, error) {
	if id != s.id {
		return container.Container{}, apistatus.ContainerNotFound{}
	}
	return s.cnr, nil
}

type aclEACLSrc struct {
	mode  string // table | none | err
	table eacl.Table
}

func (s aclEACLSrc) GetEACL(cid.ID) (eacl.Table, error) {
	switch s.mode {
	case "none":
		return eacl.Table{}, apistatus.ErrEACLNotFound
	case "err":
		return eacl.Table{}, errors.New("eacl source failure")
	}
	return s.table, nil
}

type aclIR struct{ keys [][]byte }

func (s aclIR) InnerRingKeys() [][]byte { return s.keys }

type aclFSChain struct {
	cn    [][]byte
	cnErr bool
}

func (aclFSChain) InvokeContainedScript(*transaction.Transaction, *block.Header, *trigger.Type, *bool) (*result.Invoke, error) {
	return nil, errors.New("no chain")
}
func (s aclFSChain) InContainerInLastTwoEpochs(_ cid.ID, pub []byte) (bool, error) {
	if s.cnErr {
		return false, errors.New("placement failure")
	}
	for _, k := range s.cn {
		if string(k) == string(pub) {
			return true, nil
		}
	}
	return false, nil
}
func (aclFSChain) HasUserInNNS(string, util.Uint160) (bool, error) { return false, nil }

type aclNetmap struct {
	epoch uint64
	inCnr bool
}

func (s aclNetmap) GetNetMapByEpoch(uint64) (*netmap.NetMap, error) {
	return nil, errors.New("no netmap")
}
func (s aclNetmap) NetMap() (*netmap.NetMap, error)            { return nil, errors.New("no netmap") }
func (s aclNetmap) Epoch() (uint64, error)                     { return s.epoch, nil }
func (s aclNetmap) ServerInContainer(cid.ID) (bool, error)     { return s.inCnr, nil }
func (s aclNetmap) GetEpochBlock(uint64) (uint32, error)       { return 0, errors.New("no chain") }
func (s aclNetmap) GetEpochBlockByTime(uint32) (uint32, error) { return 0, errors.New("no chain") }

type aclTime struct{ t time.Time }

func (s aclTime) Now() time.Time { return s.t }

type aclHdrSrc struct{}

func (aclHdrSrc) Head(context.Context, oid.Address) (*object.Object, error) {
	return nil, errors.New("first object is not available")
}

// ------------------------------------------------------------------ line <-> data

type aclHdr struct{ k, v string }

type aclFilter struct {
	src, matcher int
	k, v         string
}

type aclTarget struct {
	role       int
	keys, accs []int
	junk       bool
}

type aclRecord struct {
	action, op int
	targets    []aclTarget
	filters    []aclFilter
}

func aclVal(s string) string {
	if s == "~" {
		return ""
	}
	return s
}

func aclShowVal(s string) string {
	if s == "" {
		return "~"
	}
	return s
}

func aclParseHdrs(s string) []aclHdr {
	if s == "-" || s == "" {
		return nil
	}
	var out []aclHdr
	for _, p := range strings.Split(s, "|") {
		kv := strings.SplitN(p, ",", 2)
		if len(kv) != 2 {
			panic("bad header " + p)
		}
		out = append(out, aclHdr{kv[0], aclVal(kv[1])})
	}
	return out
}

func aclShowHdrs(hs []aclHdr) string {
	if len(hs) == 0 {
		return "-"
	}
	var ps []string
	for _, h := range hs {
		ps = append(ps, h.k+","+aclShowVal(h.v))
	}
	return strings.Join(ps, "|")
}

// table: records ';'  record: action/op/targets/filters  targets '|': r<role>[k<id>]*[a<id>]*[j]  filters '|': src,matcher,key,val
func aclParseTable(s string) []aclRecord {
	if s == "-" || s == "" {
		return nil
	}
	var out []aclRecord
	for _, rs := range strings.Split(s, ";") {
		f := strings.Split(rs, "/")
		if len(f) != 4 {
			panic("bad record " + rs)
		}
		var r aclRecord
		r.action, _ = strconv.Atoi(f[0])
		r.op, _ = strconv.Atoi(f[1])
		if f[2] != "-" {
			for _, ts := range strings.Split(f[2], "|") {
				var t aclTarget
				i := 0
				for i < len(ts) {
					c := ts[i]
					i++
					j := i
					for j < len(ts) && ts[j] >= '0' && ts[j] <= '9' {
						j++
					}
					n, _ := strconv.Atoi(ts[i:j])
					switch c {
					case 'r':
						t.role = n
					case 'k':
						t.keys = append(t.keys, n)
					case 'a':
						t.accs = append(t.accs, n)
					case 'j':
						t.junk = true
					default:
						panic("bad target " + ts)
					}
					i = j
				}
				r.targets = append(r.targets, t)
			}
		}
		if f[3] != "-" {
			for _, fs := range strings.Split(f[3], "|") {
				p := strings.SplitN(fs, ",", 4)
				if len(p) != 4 {
					panic("bad filter " + fs)
				}
				var fl aclFilter
				fl.src, _ = strconv.Atoi(p[0])
				fl.matcher, _ = strconv.Atoi(p[1])
				fl.k, fl.v = p[2], aclVal(p[3])
				r.filters = append(r.filters, fl)
			}
		}
		out = append(out, r)
	}
	return out
}

func aclShowTable(rs []aclRecord) string {
	if len(rs) == 0 {
		return "-"
	}
	var out []string
	for _, r := range rs {
		var ts, fs []string
		for _, t := range r.targets {
			s := "r" + strconv.Itoa(t.role)
			for _, k := range t.keys {
				s += "k" + strconv.Itoa(k)
			}
			for _, a := range t.accs {
				s += "a" + strconv.Itoa(a)
			}
			if t.junk {
				s += "j0"
			}
			ts = append(ts, s)
		}
		for _, f := range r.filters {
			fs = append(fs, fmt.Sprintf("%d,%d,%s,%s", f.src, f.matcher, f.k, aclShowVal(f.v)))
		}
		tss, fss := "-", "-"
		if len(ts) > 0 {
			tss = strings.Join(ts, "|")
		}
		if len(fs) > 0 {
			fss = strings.Join(fs, "|")
		}
		out = append(out, fmt.Sprintf("%d/%d/%s/%s", r.action, r.op, tss, fss))
	}
	return strings.Join(out, ";")
}

// symbolic header keys / values -> the real ones
const aclThisCnr, aclOtherCnr = 1, 2

// aclCID: container ids whose text form is not a decimal number (numCID(1) is "111…12" in base58, which the numeric
// matchers would compare as a number)
func aclCID(n int) cid.ID { return cid.ID(sha256.Sum256([]byte{'c', byte(n)})) }

func aclRealKey(k string) string {
	switch k {
	case "$cid":
		return eacl.FilterObjectContainerID
	case "$oid":
		return eacl.FilterObjectID
	case "$owner":
		return eacl.FilterObjectOwnerID
	case "$epoch":
		return eacl.FilterObjectCreationEpoch
	case "$size":
		return eacl.FilterObjectPayloadSize
	case "$type":
		return eacl.FilterObjectType
	}
	return k
}

func (w *aclWorldT) realVal(v string, objID oid.ID) string {
	switch {
	case v == "@c1":
		return aclCID(aclThisCnr).EncodeToString()
	case v == "@c2":
		return aclCID(aclOtherCnr).EncodeToString()
	case v == "@o":
		return objID.EncodeToString()
	case strings.HasPrefix(v, "@u") && len(v) == 3:
		return w.usr[int(v[2]-'0')].EncodeToString()
	}
	return v
}

func (w *aclWorldT) realTable(rs []aclRecord, objID oid.ID) eacl.Table {
	var recs []eacl.Record
	for _, r := range rs {
		var ts []eacl.Target
		for _, t := range r.targets {
			tg := eacl.NewTargetByRole(eacl.Role(t.role))
			var subj [][]byte
			for _, k := range t.keys {
				subj = append(subj, w.pub[k])
			}
			for _, a := range t.accs {
				u := w.usr[a]
				subj = append(subj, u[:])
			}
			if t.junk {
				subj = append(subj, []byte{1, 2, 3, 4, 5})
			}
			if subj != nil {
				tg.SetRawSubjects(subj)
			}
			ts = append(ts, tg)
		}
		var fs []eacl.Filter
		for _, f := range r.filters {
			fs = append(fs, eacl.ConstructFilter(eacl.FilterHeaderType(f.src), aclRealKey(f.k), eacl.Match(f.matcher), w.realVal(f.v, objID)))
		}
		recs = append(recs, eacl.ConstructRecord(eacl.Action(r.action), eacl.Operation(r.op), ts, fs...))
	}
	return eacl.ConstructTable(recs)
}

// ------------------------------------------------------------------ the request of one op line

type aclBearer struct {
	iss, sgn, sig int
	nbf, iat, exp uint64
	cnr, tgt      int
	table         []aclRecord
}

type aclReq struct {
	op     int // handler-level acl.Op: 1 get 2 head 3 put 4 delete 5 search 6 range 7 hash
	put    bool
	ph     string
	basic  uint32
	snd    int
	own    int
	ir, cn []int
	cnErr  bool
	oown   int
	ttl    uint32
	split  int
	inCnr  bool
	cur    uint64
	st     string
	stT    []aclRecord
	b      *aclBearer
	xh     []aclHdr
	loc    bool
	hasOID bool
	oattr  []aclHdr
	oep    uint64
	osz    uint64
}

func aclParseReq(o opLine) aclReq {
	var r aclReq
	r.op = o.int("op")
	r.put = o.int("put") == 1
	r.ph = o.kv["ph"]
	r.basic = uint32(o.u64("basic"))
	r.snd, r.own = o.int("snd"), o.int("own")
	r.ir, r.cn = o.ints("ir"), o.ints("cn")
	r.cnErr = o.int("cnerr") == 1
	r.oown = o.int("oown")
	r.ttl = uint32(o.u64("ttl"))
	r.split = o.int("split")
	r.inCnr = o.int("incnr") == 1
	r.cur = o.u64("cur")
	r.st = o.kv["st"]
	if r.st != "none" && r.st != "err" {
		r.stT = aclParseTable(r.st)
		r.st = "table"
	}
	if b := o.kv["b"]; b != "none" {
		p := strings.Split(b, ",")
		if len(p) != 8 {
			panic("bad bearer " + b)
		}
		at := func(i int) int { v, _ := strconv.Atoi(p[i]); return v }
		r.b = &aclBearer{iss: at(0), sgn: at(1), sig: at(2), nbf: uint64(at(3)), iat: uint64(at(4)), exp: uint64(at(5)), cnr: at(6), tgt: at(7)}
		r.b.table = aclParseTable(o.kv["bt"])
	}
	r.xh = aclParseHdrs(o.kv["xh"])
	r.loc = o.int("loc") == 1
	r.hasOID = o.int("oid") == 1
	r.oattr = aclParseHdrs(o.kv["oattr"])
	r.oep, r.osz = o.u64("oep"), o.u64("osz")
	return r
}

func (r aclReq) line() string {
	b2i := func(b bool) int {
		if b {
			return 1
		}
		return 0
	}
	st := r.st
	if st == "table" {
		st = aclShowTable(r.stT)
	}
	b, bt := "none", "-"
	if r.b != nil {
		b = fmt.Sprintf("%d,%d,%d,%d,%d,%d,%d,%d", r.b.iss, r.b.sgn, r.b.sig, r.b.nbf, r.b.iat, r.b.exp, r.b.cnr, r.b.tgt)
		bt = aclShowTable(r.b.table)
	}
	return fmt.Sprintf("acl req op=%d put=%d ph=%s basic=%d snd=%d own=%d ir=%s cn=%s cnerr=%d oown=%d ttl=%d split=%d incnr=%d cur=%d st=%s b=%s bt=%s xh=%s loc=%d oid=%d oattr=%s oep=%d osz=%d",
		r.op, b2i(r.put), r.ph, r.basic, r.snd, r.own, joinInts(r.ir), joinInts(r.cn), b2i(r.cnErr), r.oown, r.ttl, r.split, b2i(r.inCnr), r.cur,
		st, b, bt, aclShowHdrs(r.xh), b2i(r.loc), b2i(r.hasOID), aclShowHdrs(r.oattr), r.oep, r.osz)
}

// the object the request is about (one fixed header per descriptor; id = hash of the descriptor)
func (w *aclWorldT) object(r aclReq) (*object.Object, oid.ID) {
	obj := object.New(aclCID(aclThisCnr), w.usr[r.oown])
	obj.SetCreationEpoch(r.oep)
	obj.SetPayloadSize(r.osz)
	v := version.Current()
	obj.SetVersion(&v)
	if r.put && r.op == 4 {
		obj.SetType(object.TypeTombstone)
	} else {
		obj.SetType(object.TypeRegular)
	}
	var as []object.Attribute
	for _, h := range r.oattr {
		as = append(as, object.NewAttribute(h.k, h.v))
	}
	obj.SetAttributes(as...)
	obj.SetPayloadChecksum(checksum.NewSHA256(sha256.Sum256(detPayload(int(r.osz), 3))))
	loc := byte(0)
	if r.loc {
		loc = 1 // stored and not stored objects never share an id: the storage engine lives as long as the run
	}
	h := sha256.Sum256(append(obj.Marshal(), loc))
	id := oid.ID(h)
	return obj, id
}

func (w *aclWorldT) bearerMsg(r aclReq, objID oid.ID) *protoacl.BearerToken {
	b := r.b
	var tok bearer.Token
	t := w.realTable(b.table, objID)
	switch b.cnr {
	case 1:
		t.SetCID(aclCID(aclThisCnr))
	case 2:
		t.SetCID(aclCID(aclOtherCnr))
	}
	tok.SetEACLTable(t)
	if b.tgt != 0 {
		tok.ForUser(w.usr[b.tgt])
	}
	tok.SetNbf(b.nbf)
	tok.SetIat(b.iat)
	tok.SetExp(b.exp)
	if b.iss != 0 {
		tok.SetIssuer(w.usr[b.iss])
	}
	var sig neofscrypto.Signature
	if err := sig.Calculate(w.sign[b.sgn], tok.SignedData()); err != nil {
		panic(err)
	}
	tok.AttachSignature(sig)
	m := tok.ProtoMessage()
	if b.sig == 0 { // tampered: one bit of the signature value
		m.Signature.Sign[len(m.Signature.Sign)/2] ^= 0x10
	}
	return m
}

type aclOutcome struct {
	role string
	dec  string
}

func aclRoleName(r acl.Role) string {
	switch r {
	case acl.RoleOwner:
		return "owner"
	case acl.RoleContainer:
		return "cnr"
	case acl.RoleInnerRing:
		return "ir"
	case acl.RoleOthers:
		return "others"
	}
	return "?"
}

// aclRun performs what a handler of pkg/services/object/server.go performs for the request, with the real service and checker.
func (w *aclWorldT) run(r aclReq) (out aclOutcome) {
	defer func() {
		if p := recover(); p != nil {
			out = aclOutcome{"-", "panic"}
			if aclDebug {
				fmt.Println("PANIC", p)
			}
		}
	}()
	ctx := context.Background()
	cnrID := aclCID(aclThisCnr)
	obj, objID := w.object(r)
	if !r.hasOID {
		objID = oid.ID{}
	}
	var cnr container.Container
	cnr.SetOwner(w.usr[r.own])
	var ba acl.Basic
	ba.FromBits(r.basic)
	cnr.SetBasicACL(ba)
	var irKeys, cnKeys [][]byte
	for _, k := range r.ir {
		irKeys = append(irKeys, w.pub[k])
	}
	for _, k := range r.cn {
		cnKeys = append(cnKeys, w.pub[k])
	}
	fsChain := aclFSChain{cn: cnKeys, cnErr: r.cnErr}
	svc := v2.New(fsChain, verifbridge.NewObjectSessionsCache(8),
		v2.WithIRFetcher(aclIR{irKeys}),
		v2.WithNetmapper(aclNetmap{epoch: r.cur, inCnr: r.inCnr}),
		v2.WithContainerSource(aclCnrSrc{cnrID, cnr}),
		v2.WithTimeProvider(aclTime{time.Unix(1000, 0)}))
	es := aclEACLSrc{mode: r.st}
	if r.st == "table" {
		es.table = w.realTable(r.stT, objID)
	}
	chk := aclsvc.NewChecker(new(aclsvc.CheckerPrm).SetEACLSource(es).SetValidator(eacl.NewValidator()).
		SetLocalStorage(w.eng).SetHeaderSource(aclHdrSrc{}))

	if r.loc && r.hasOID && !w.put[objID] {
		o := *obj
		o.SetID(objID)
		o.SetPayload(detPayload(int(r.osz), 3))
		if err := w.eng.Put(ctx, &o, nil); err != nil {
			panic(err)
		}
		w.put[objID] = true
		if aclDebug {
			_, herr := w.eng.Head(ctx, oid.NewAddress(cnrID, objID), false)
			fmt.Println("HEAD after put:", herr)
		}
	}

	// --- request meta header: tokens (handleRequestMetaHeader)
	meta := &protosession.RequestMetaHeader{Ttl: r.ttl}
	for _, h := range r.xh {
		meta.XHeaders = append(meta.XHeaders, &protosession.XHeader{Key: h.k, Value: h.v})
	}
	vh := &protosession.RequestVerificationHeader{BodySignature: &refs.Signature{Key: w.pub[r.snd], Scheme: refs.SignatureScheme_ECDSA_SHA512}}
	var tokens common.RequestTokens
	if r.b != nil {
		meta.BearerToken = w.bearerMsg(r, objID)
		tok, err := svc.VerifyBearerTokenMessage(meta.BearerToken)
		if err != nil {
			return aclOutcome{"-", "deny-token"}
		}
		tokens.Bearer = &tok
	}

	addr := &refs.Address{ContainerId: cnrID.ProtoMessage()}
	if r.hasOID {
		addr.ObjectId = objID.ProtoMessage()
	}
	var info v2.RequestInfo
	var objOwner user.ID
	var err error
	var req any
	switch {
	case r.put:
		hdr := obj.ProtoMessage().Header
		switch r.split {
		case 1:
			hdr.Split = &protoobject.Header_Split{SplitId: []byte{1, 2, 3, 4, 5, 6, 0x47, 8, 0x89, 10, 11, 12, 13, 14, 15, 16}}
		case 2:
			hdr.Split = &protoobject.Header_Split{First: numOID(77).ProtoMessage()}
		}
		init := &protoobject.PutRequest_Body_Init{Header: hdr}
		if r.hasOID {
			init.ObjectId = objID.ProtoMessage()
		}
		pr := &protoobject.PutRequest{Body: &protoobject.PutRequest_Body{ObjectPart: &protoobject.PutRequest_Body_Init_{Init: init}}, MetaHeader: meta, VerifyHeader: vh}
		req = pr
		info, objOwner, err = svc.PutRequestToInfo(ctx, pr, init, cnrID, acl.Op(r.op), tokens)
		if errors.Is(err, v2.ErrSkipRequest) {
			return aclOutcome{"-", "skip"}
		}
	case r.op == 1:
		q := &protoobject.GetRequest{Body: &protoobject.GetRequest_Body{Address: addr}, MetaHeader: meta, VerifyHeader: vh}
		req = q
		info, err = svc.GetRequestToInfo(ctx, q, cnrID, tokens)
	case r.op == 2:
		q := &protoobject.HeadRequest{Body: &protoobject.HeadRequest_Body{Address: addr}, MetaHeader: meta, VerifyHeader: vh}
		req = q
		info, err = svc.HeadRequestToInfo(ctx, q, cnrID, tokens)
	case r.op == 4:
		q := &protoobject.DeleteRequest{Body: &protoobject.DeleteRequest_Body{Address: addr}, MetaHeader: meta, VerifyHeader: vh}
		req = q
		info, err = svc.DeleteRequestToInfo(ctx, q, cnrID, tokens)
	case r.op == 5:
		q := &protoobject.SearchV2Request{Body: &protoobject.SearchV2Request_Body{ContainerId: cnrID.ProtoMessage()}, MetaHeader: meta, VerifyHeader: vh}
		req = q
		info, err = svc.SearchV2RequestToInfo(ctx, q, cnrID, tokens)
	case r.op == 6, r.op == 7:
		q := &protoobject.GetRangeRequest{Body: &protoobject.GetRangeRequest_Body{Address: addr}, MetaHeader: meta, VerifyHeader: vh}
		req = q
		info, err = svc.RangeRequestToInfo(ctx, q, cnrID, tokens)
		if r.op == 7 { // there is no handler for GetRangeHash any more: the checker is asked directly
			info.Operation = acl.OpObjectHash
		}
	default:
		return aclOutcome{"-", "bad-op"}
	}
	if err != nil {
		if errors.As(err, new(apistatus.ObjectAccessDenied)) {
			return aclOutcome{"-", "deny-bearer"}
		}
		return aclOutcome{"-", "err"}
	}
	out.role = aclRoleName(info.RequestRole)
	if !chk.CheckBasicACL(info) {
		out.dec = "deny-basic"
		return
	}
	if r.put && !chk.StickyBitCheck(info, objOwner) {
		out.dec = "deny-sticky"
		return
	}
	var msg any = req
	switch r.ph {
	case "bin":
		hm := obj.ProtoMessage().Header
		hb := make([]byte, hm.MarshaledSize())
		hm.MarshalStable(hb)
		msg = hb
	case "resp":
		if r.op == 1 {
			msg = &protoobject.GetResponse{Body: &protoobject.GetResponse_Body{ObjectPart: &protoobject.GetResponse_Body_Init_{
				Init: &protoobject.GetResponse_Body_Init{ObjectId: addr.ObjectId, Header: obj.ProtoMessage().Header}}}}
		} else {
			msg = &protoobject.HeadResponse{Body: &protoobject.HeadResponse_Body{Head: &protoobject.HeadResponse_Body_Header{
				Header: &protoobject.HeaderWithSignature{Header: obj.ProtoMessage().Header}}}}
		}
	}
	err = chk.CheckEACL(ctx, msg, cnrID, objID, info)
	switch {
	case err == nil:
		out.dec = "allow"
	case errors.Is(err, v2.ErrNotMatched):
		out.dec = "allow-recheck"
	default:
		out.dec = "deny-eacl"
		if aclDebug {
			fmt.Println("EACL", err)
		}
	}
	return
}

// ------------------------------------------------------------------ reference decision (from the property text)

// aclRefHdrs: the headers the rules speak about, from the generator's ground truth: the request's X-headers and the object's
// headers (all of them for GET/HEAD/PUT; the address only for DELETE/RANGE/HASH; nothing for SEARCH).
func aclRefHdrs(r aclReq) (xh, oh []aclHdr, known bool) {
	xh = r.xh
	known = true
	addr := []aclHdr{{"$cid", "@c1"}}
	if r.hasOID {
		addr = append(addr, aclHdr{"$oid", "@o"})
	}
	full := func() []aclHdr {
		typ := "REGULAR"
		if r.put && r.op == 4 {
			typ = "TOMBSTONE"
		}
		hs := append([]aclHdr{}, addr...)
		hs = append(hs, aclHdr{"$owner", "@u" + strconv.Itoa(r.oown)}, aclHdr{"$epoch", strconv.FormatUint(r.oep, 10)},
			aclHdr{"$size", strconv.FormatUint(r.osz, 10)}, aclHdr{"$type", typ})
		return append(hs, r.oattr...)
	}
	switch {
	case r.put:
		oh = full()
	case r.op == 1 || r.op == 2:
		if r.ph == "req" && !(r.loc && r.hasOID) {
			return xh, addr, false // the object is not at hand yet
		}
		oh = full()
	case r.op == 5:
		oh = nil
	default:
		oh = addr
	}
	return
}

func aclRefNum(s string) (*big.Int, bool) {
	if s == "" {
		return nil, false
	}
	t := s
	if t[0] == '+' || t[0] == '-' {
		t = t[1:]
	}
	if t == "" {
		return nil, false
	}
	for _, c := range t {
		if c < '0' || c > '9' {
			return nil, false
		}
	}
	n, ok := new(big.Int).SetString(s, 10)
	return n, ok
}

func aclRefFilter(f aclFilter, xh, oh []aclHdr) bool {
	var hs []aclHdr
	switch f.src {
	case 1:
		hs = xh
	case 2:
		hs = oh
	}
	present, hit := false, false
	for _, h := range hs {
		if h.k != f.k {
			continue
		}
		present = true
		switch f.matcher {
		case 1:
			hit = hit || h.v == f.v
		case 2:
			hit = hit || h.v != f.v
		case 4, 5, 6, 7:
			a, ok1 := aclRefNum(h.v)
			b, ok2 := aclRefNum(f.v)
			if ok1 && ok2 {
				c := a.Cmp(b)
				hit = hit || (f.matcher == 4 && c > 0) || (f.matcher == 5 && c >= 0) || (f.matcher == 6 && c < 0) || (f.matcher == 7 && c <= 0)
			}
		}
	}
	if f.matcher == 3 {
		return !present
	}
	return hit
}

// does the table deny: the first record for this operation and requester whose filters all hit decides
func aclRefDenies(t []aclRecord, op int, ownerRole bool, snd int, xh, oh []aclHdr) bool {
	for _, rec := range t {
		if rec.op != op {
			continue
		}
		tgt := false
		for _, tg := range rec.targets {
			if tg.role == 2 {
				continue
			}
			if len(tg.keys) > 0 || len(tg.accs) > 0 {
				tgt = tgt || inList(tg.keys, snd) || inList(tg.accs, snd)
			} else {
				tgt = tgt || (tg.role == 1 && ownerRole) || (tg.role == 3 && !ownerRole)
			}
		}
		if !tgt {
			continue
		}
		all := true
		for _, f := range rec.filters {
			all = all && aclRefFilter(f, xh, oh)
		}
		if all {
			return rec.action != 1
		}
	}
	return false
}

// aclRef: may the request be served according to the property's sentence. undecided = the object headers are not at hand.
func aclRef(r aclReq) (serve, undecided bool, why string) {
	if r.b != nil {
		b := r.b
		valid := b.sig == 1 && b.iss == b.sgn && b.nbf <= r.cur && b.iat <= r.cur && r.cur <= b.exp &&
			b.iss == r.own && (b.cnr == 0 || b.cnr == 1) && (b.tgt == 0 || b.tgt == r.snd)
		if !valid {
			return false, false, "bearer" // stricter than the sentence: the code rejects instead of falling back to the stored table
		}
	}
	// role
	role := "others"
	switch {
	case r.snd == r.own:
		role = "owner"
	case inList(r.ir, r.snd):
		role = "ir"
	case !r.cnErr && inList(r.cn, r.snd):
		role = "cnr"
	}
	op := r.op
	if r.put && op == 4 && role == "cnr" && r.ttl == 1 {
		op = 3
	}
	bit := func(n int) bool { return r.basic>>uint(n)&1 == 1 }
	sec := 4 * (op - 1)
	var basic bool
	switch role {
	case "owner":
		basic = bit(sec + 3)
	case "others":
		basic = bit(sec + 1)
	case "cnr":
		basic = op == 1 || op == 2 || op == 3 || op == 5 || op == 7 || bit(sec+2)
	case "ir":
		basic = op == 1 || op == 2 || op == 5 || op == 7
	}
	if !basic {
		return false, false, "basic"
	}
	if r.put && bit(29) && role != "cnr" && r.oown != r.snd {
		return false, false, "sticky"
	}
	if bit(28) || role == "ir" || role == "cnr" {
		return true, false, ""
	}
	// which table
	var table []aclRecord
	tableKnown := true
	useBearer := false
	if r.b != nil {
		useBearer = bit(sec)
	}
	if useBearer {
		table = r.b.table
	} else {
		switch r.st {
		case "none":
		case "err":
			tableKnown = false
		default:
			table = r.stT
		}
	}
	if !tableKnown {
		return false, false, "eacl-unavailable"
	}
	xh, oh, known := aclRefHdrs(r)
	if !known {
		// only records without object filters can be judged now
		return true, true, ""
	}
	if aclRefDenies(table, op, role == "owner", r.snd, xh, oh) {
		return false, false, "eacl"
	}
	return true, false, ""
}

// ------------------------------------------------------------------ generator

var aclBoundaryWords = []uint32{0, 0xFFFFFFFF, 0x1C8C8CCC, 0x0C8C8CCC, 0x1FBF8CFF, 0x0FBF8CFF, 0x1FBFBFFF, 0x0FBFBFFF, 0x1FBF9FFF, 0x0FBF9FFF,
	0x2FBFBFFF, 0x3FBFBFFF, 0x0FFFFFFF, 0x2FFFFFFF, 0x10000000, 0x20000000, 0x0EEEEEEE, 0x01111111, 0x02222222, 0x04444444, 0x08888888}

func aclGenHdrs(c *runCtx, keys []string, vals []string, max int) []aclHdr {
	var hs []aclHdr
	for i := c.rng.IntN(max + 1); i > 0; i-- {
		hs = append(hs, aclHdr{keys[c.rng.IntN(len(keys))], vals[c.rng.IntN(len(vals))]})
	}
	return hs
}

var aclAttrKeys = []string{"a0", "a1", "a2"}
var aclXKeys = []string{"x0", "x1"}
var aclVals = []string{"v", "w", "5", "10", "-3", "+7", "007", "", "1e3", "99999999999999999999999"}

func aclGenTable(c *runCtx, r *aclReq, eop int) []aclRecord {
	n := c.rng.IntN(4)
	var t []aclRecord
	for i := 0; i < n; i++ {
		var rec aclRecord
		switch c.rng.IntN(10) {
		case 0:
			rec.action = 0
		case 1:
			rec.action = 3
		case 2, 3, 4, 5:
			rec.action = 2
		default:
			rec.action = 1
		}
		rec.op = eop
		if c.rng.IntN(5) == 0 {
			rec.op = c.rng.IntN(9)
		}
		for j := 1 + c.rng.IntN(2); j > 0; j-- {
			var tg aclTarget
			tg.role = []int{1, 3, 3, 1, 2, 0, 4}[c.rng.IntN(7)]
			switch c.rng.IntN(5) {
			case 0:
				tg.keys = []int{1 + c.rng.IntN(4)}
				if c.rng.IntN(2) == 0 {
					tg.keys = append(tg.keys, r.snd)
				}
			case 1:
				tg.accs = []int{1 + c.rng.IntN(4)}
				if c.rng.IntN(2) == 0 {
					tg.accs = append(tg.accs, r.snd)
				}
			case 2:
				tg.junk = c.rng.IntN(2) == 0
			}
			rec.targets = append(rec.targets, tg)
		}
		for j := c.rng.IntN(3); j > 0; j-- {
			var f aclFilter
			f.src = []int{1, 2, 2, 2, 3, 0}[c.rng.IntN(6)]
			f.matcher = []int{1, 1, 2, 3, 4, 5, 6, 7, 0, 8}[c.rng.IntN(10)]
			if f.src == 1 {
				f.k = aclXKeys[c.rng.IntN(len(aclXKeys))]
			} else {
				f.k = append(aclAttrKeys, "$cid", "$oid", "$owner", "$epoch", "$size", "$type")[c.rng.IntN(9)]
			}
			// value: often one that hits
			switch {
			case f.k == "$cid":
				f.v = []string{"@c1", "@c2"}[c.rng.IntN(2)]
			case f.k == "$oid":
				f.v = []string{"@o", "zzz"}[c.rng.IntN(2)]
			case f.k == "$owner":
				f.v = "@u" + strconv.Itoa(1+c.rng.IntN(4))
			case f.k == "$epoch":
				f.v = strconv.Itoa(int(r.oep) + c.rng.IntN(3) - 1)
				if f.v == "-1" && c.rng.IntN(2) == 0 {
					f.v = "x"
				}
			case f.k == "$size":
				f.v = strconv.Itoa(int(r.osz) + c.rng.IntN(3) - 1)
			case f.k == "$type":
				f.v = []string{"REGULAR", "TOMBSTONE"}[c.rng.IntN(2)]
			default:
				f.v = aclVals[c.rng.IntN(len(aclVals))]
				var pool []aclHdr
				if f.src == 1 {
					pool = r.xh
				} else {
					pool = r.oattr
				}
				if len(pool) > 0 && c.rng.IntN(2) == 0 {
					h := pool[c.rng.IntN(len(pool))]
					f.k, f.v = h.k, h.v
				}
			}
			rec.filters = append(rec.filters, f)
		}
		t = append(t, rec)
	}
	return t
}

func aclGenReq(c *runCtx) aclReq {
	var r aclReq
	r.op = []int{1, 1, 2, 2, 3, 3, 4, 4, 5, 6, 7}[c.rng.IntN(11)]
	r.ph = "req"
	switch r.op {
	case 3:
		r.put = true
	case 4:
		r.put = c.rng.IntN(2) == 0 // tombstone PUT or Delete RPC
	case 1, 2:
		r.ph = []string{"req", "req", "bin", "bin", "resp"}[c.rng.IntN(5)]
	}
	switch c.rng.IntN(10) {
	case 0, 1:
		r.basic = aclBoundaryWords[c.rng.IntN(len(aclBoundaryWords))]
	case 2:
		r.basic = c.rng.Uint32()
	default: // mostly open word with a few bits knocked out, extendable more often than not
		r.basic = 0x0FFFFFFF &^ (1 << uint(c.rng.IntN(28))) &^ (1 << uint(c.rng.IntN(28)))
		if c.rng.IntN(4) == 0 {
			r.basic |= 1 << 28
		}
		if c.rng.IntN(3) == 0 {
			r.basic |= 1 << 29
		}
	}
	r.snd = 1 + c.rng.IntN(4)
	r.own = 1 + c.rng.IntN(3)
	for k := 1; k <= 5; k++ {
		if c.rng.IntN(12) == 0 {
			r.ir = append(r.ir, k)
		}
		if c.rng.IntN(9) == 0 {
			r.cn = append(r.cn, k)
		}
	}
	r.cnErr = c.rng.IntN(12) == 0
	r.oown = 1 + c.rng.IntN(4)
	if c.rng.IntN(2) == 0 {
		r.oown = r.snd
	}
	r.ttl = uint32(1 + c.rng.IntN(2))
	r.inCnr = c.rng.IntN(4) != 0
	if r.put {
		switch c.rng.IntN(8) {
		case 0:
			r.split = 1
		case 1:
			r.split = 2
		}
	}
	r.cur = uint64(3 + c.rng.IntN(5))
	r.xh = aclGenHdrs(c, aclXKeys, aclVals, 2)
	for _, k := range aclAttrKeys { // object attributes: unique keys, non-empty values (the SDK rejects anything else)
		if c.rng.IntN(2) == 0 {
			v := aclVals[c.rng.IntN(len(aclVals))]
			if v == "" {
				v = "0"
			}
			r.oattr = append(r.oattr, aclHdr{k, v})
		}
	}
	r.oep = uint64(c.rng.IntN(4))
	r.osz = uint64(c.rng.IntN(4))
	r.hasOID = r.op != 5 && (!r.put || c.rng.IntN(2) == 0)
	r.loc = (r.op == 1 || r.op == 2) && c.rng.IntN(2) == 0
	eop := r.op
	switch c.rng.IntN(8) {
	case 0:
		r.st = "none"
	case 1:
		r.st = "err"
	default:
		r.st = "table"
		r.stT = aclGenTable(c, &r, eop)
	}
	if c.rng.IntN(5) < 2 {
		b := &aclBearer{iss: r.own, sgn: r.own, sig: 1, nbf: r.cur - uint64(c.rng.IntN(2)), iat: r.cur - uint64(c.rng.IntN(2)), exp: r.cur + uint64(c.rng.IntN(2)), cnr: c.rng.IntN(2), tgt: 0}
		if c.rng.IntN(2) == 0 {
			b.tgt = r.snd
		}
		switch c.rng.IntN(24) { // one defect at a time
		case 0:
			b.exp = r.cur - 1
		case 1:
			b.nbf = r.cur + 1
			b.exp = r.cur + 2
		case 2:
			b.iat = r.cur + 1
			b.exp = r.cur + 2
		case 3:
			b.sig = 0
		case 4:
			b.iss = 1 + c.rng.IntN(4) // issuer field differs from the signer (or not the owner)
		case 5:
			b.sgn = 1 + c.rng.IntN(4)
			b.iss = b.sgn // correctly signed, but by somebody else
		case 6:
			b.cnr = 2
		case 7:
			b.tgt = 1 + c.rng.IntN(4)
		case 8:
			b.iss = 0
		}
		b.table = aclGenTable(c, &r, eop)
		r.b = b
	}
	return r
}

func aclGen(c *runCtx, run func([]string)) {
	if c.prop == "C30" {
		tokGen(c, run)
		return
	}
	n := c.n(9000, 200000)
	var ops []string
	// every operation x role x single section bit: the layout of the basic ACL word
	for op := 1; op <= 7; op++ {
		for bit := 0; bit < 32; bit++ {
			for who := 0; who < 4; who++ {
				r := aclReq{op: op, put: op == 3, ph: "req", basic: 1 << uint(bit), snd: 2, own: 1, oown: 2, ttl: 2, inCnr: true, cur: 5, st: "none", hasOID: op != 5}
				switch who {
				case 0:
					r.own = 2
				case 1:
					r.ir = []int{2}
				case 2:
					r.cn = []int{2}
				}
				ops = append(ops, r.line())
				r.basic = ^r.basic
				ops = append(ops, r.line())
			}
		}
	}
	for i := 0; i < n; i++ {
		ops = append(ops, aclGenReq(c).line())
	}
	run(ops)
}

func aclExec(c *runCtx, ops []string) {
	c.independent = true // request lines are self-contained; token lines share the sequence's service, caches, epoch and time
	for _, l := range ops {
		if !strings.HasPrefix(l, "acl req ") {
			c.independent = false
		}
	}
	w := aclWorld()
	for _, line := range ops {
		o := parseOp(line)
		if o.name != "req" {
			if tokExec(c, w, line, o) {
				continue
			}
			c.emit(line, "=> bad-op")
			continue
		}
		var r aclReq
		func() {
			defer func() {
				if p := recover(); p != nil {
					r.op = -1
				}
			}()
			r = aclParseReq(o)
		}()
		if r.op < 1 || r.op > 7 || r.snd < 1 || r.snd >= aclNKeys || r.own < 1 || r.own >= aclNKeys || r.oown < 1 || r.oown >= aclNKeys || (r.ph != "req" && r.ph != "bin" && r.ph != "resp") {
			c.emit(line, "=> bad-op")
			continue
		}
		out := w.run(r)
		c.count("op:" + strconv.Itoa(r.op))
		c.count("dec:" + out.dec)
		c.count("role:" + out.role)
		c.emit(line, "=> role="+out.role+" d="+out.dec)

		// ---- the property's own oracle
		serve, undecided, why := aclRef(r)
		served := out.dec == "allow" || out.dec == "allow-recheck"
		if out.dec == "skip" || out.dec == "err" {
			continue
		}
		desc := fmt.Sprintf("impl=%s reference: serve=%v undecided=%v why=%s", out.dec, serve, undecided, why)
		switch why {
		case "basic":
			c.oracle("served-only-if-basic-acl-allows-role", !served, desc)
		case "sticky":
			c.oracle("sticky-put-only-by-object-owner", !served, desc)
		case "eacl", "eacl-unavailable":
			c.oracleSig("served-only-if-applicable-table-does-not-deny", r.ph, !served, desc)
		case "bearer":
			c.oracle("invalid-bearer-token-never-honoured", !served, desc)
		}
		if serve && !undecided && r.split != 2 {
			c.oracle("not-denied-without-a-rule", served, desc)
		}
		if served && (len(r.stT) > 0 || r.b != nil) && r.basic>>28&1 == 0 {
			key := line
			c.nontrivial(key)
		}
	}
}

var _ = sort.Ints
