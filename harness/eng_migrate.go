package main

// Engine "migrate" (property C42): a random object history is applied to a fresh current-format metabase
// through the real Put/MarkGarbage/Delete/… API (the NATIVE database).  For every "open"/"crash" op the native
// bolt file is snapshotted and rewritten into an OLD format (version 10 or 9) by the inverse of the documented
// format changes (VERSION.md; the old writers are no longer in the tree, the repository's own version tests build
// their fixtures the same way): associate values as Base58 strings, homomorphic-hash index entries, stale
// counters, and for 9 no per-container counters + shard-wide counters + the container-volume bucket.  The old
// file is opened by the real code (Open/Init → checkVersion → migrateFrom*), without interruption and with the
// process killed right after the k-th committed transaction (child process, point "meta.migrate.batch") and
// reopened.  Observations: the raw content of the file before / in the middle / after (digest per bucket,
// counters, version), and every read view of the upgraded database.  The model derives the same from the history
// (Model/Meta.lean) through its old-format writer and `Migrate.migrate`.
//
// Object ids: 0x80 00…00 <n> (not storage.go's numOID): an id with 29+ leading zero bytes has a Base58 form of
// exactly 32 characters, which the upgrade takes for an already rewritten raw id.  Real ids are SHA-256 values.

import (
	"bytes"
	"encoding/binary"
	"encoding/hex"
	"encoding/json"
	"errors"
	"fmt"
	"os"
	"os/exec"
	"path/filepath"
	"sort"
	"strconv"
	"strings"
	"time"

	"github.com/mr-tron/base58"
	"github.com/nspcc-dev/bbolt"
	objectcore "github.com/nspcc-dev/neofs-node/pkg/core/object"
	meta "github.com/nspcc-dev/neofs-node/pkg/local_object_storage/metabase"
	"github.com/nspcc-dev/neofs-node/pkg/util/verifhook"
	"github.com/nspcc-dev/neofs-sdk-go/checksum"
	cid "github.com/nspcc-dev/neofs-sdk-go/container/id"
	"github.com/nspcc-dev/neofs-sdk-go/object"
	oid "github.com/nspcc-dev/neofs-sdk-go/object/id"
)

func init() {
	engines["migrate"] = seqRunner{gen: migGen, exec: migExec}.engine()
	engines["migrate-child"] = func(*runCtx) error { migChild(); return nil }
}

const (
	migBulkHomoBase  = 100000
	migBulkAssocBase = 200000
	migAttrAssoc     = object.AttributeAssociatedObject
	migAttrHomo      = object.FilterPayloadHomomorphicHash //nolint:staticcheck
)

func migOID(n int) oid.ID {
	var id oid.ID
	if n == 0 {
		return id
	}
	id[0] = 0x80
	binary.BigEndian.PutUint64(id[24:], uint64(n))
	return id
}

func migNum(id oid.ID) int { return int(binary.BigEndian.Uint64(id[24:])) }

func migAddr(c, o int) oid.Address { return oid.NewAddress(numCID(c), migOID(o)) }

func migIDs(xs []int) []oid.ID {
	out := make([]oid.ID, len(xs))
	for i, x := range xs {
		out[i] = migOID(x)
	}
	return out
}

// ---------------------------------------------------------------------------- objects

func migBuildHdr(cn int, h mHdr, parent *object.Object) *object.Object {
	idn, _ := strconv.Atoi(h.id)
	obj := mkObject(cn, 1, nil)
	obj.SetID(migOID(idn))
	if idn == 0 {
		obj.ResetID()
	}
	obj.SetPayloadSize(uint64(h.size))
	switch h.typ {
	case "TS":
		obj.AssociateDeleted(migOID(h.assoc))
		if h.assoc == 0 {
			obj.SetAttributes()
			obj.SetType(object.TypeTombstone)
		}
	case "LOCK":
		obj.AssociateLocked(migOID(h.assoc))
		if h.assoc == 0 {
			obj.SetAttributes()
			obj.SetType(object.TypeLock)
		}
	case "LINK":
		obj.SetType(object.TypeLink)
	case "SG":
		obj.SetType(object.TypeStorageGroup) //nolint:staticcheck
	default:
		obj.SetType(object.TypeRegular)
	}
	attrs := obj.Attributes()
	if h.hasExp {
		attrs = append(attrs, object.NewAttribute(object.AttributeExpirationEpoch, h.exp))
	}
	if h.hasEC {
		attrs = append(attrs, object.NewAttribute("__NEOFS__EC_RULE_IDX", strconv.Itoa(h.ecRule)),
			object.NewAttribute("__NEOFS__EC_PART_IDX", strconv.Itoa(h.ecPart)))
	}
	obj.SetAttributes(attrs...)
	if parent != nil {
		obj.SetParent(parent)
	}
	if h.parentID != 0 && parent == nil {
		obj.SetParentID(migOID(h.parentID))
	}
	if h.first != 0 {
		obj.SetFirstID(migOID(h.first))
	}
	if h.split != 0 {
		obj.SetSplitID(numSplitID(h.split))
	}
	if h.other {
		obj.SetPreviousID(migOID(200))
	}
	return obj
}

// migBuildObj builds the object of a put line: the header chain of engine "meta" plus the extras of this engine
// on the object itself: homo=<hex 64 bytes> (payload homomorphic hash), attrs=<hex key>:<hex value>,…
func migBuildObj(cn int, o opLine) (*object.Object, []byte) {
	self, _ := parseHdr(o, "")
	var parent *object.Object
	if p, ok := parseHdr(o, "p."); ok {
		var gp *object.Object
		if g, ok := parseHdr(o, "g."); ok {
			gp = migBuildHdr(cn, g, nil)
		}
		parent = migBuildHdr(cn, p, gp)
	}
	obj := migBuildHdr(cn, self, parent)
	if v := o.kv["attrs"]; v != "" && v != "-" {
		attrs := obj.Attributes()
		for _, p := range strings.Split(v, ",") {
			kv := strings.Split(p, ":")
			if len(kv) == 2 {
				attrs = append(attrs, object.NewAttribute(unhx(kv[0]), unhx(kv[1])))
			}
		}
		obj.SetAttributes(attrs...)
	}
	var homo []byte
	if v := o.kv["homo"]; v != "" && v != "-" {
		homo, _ = hex.DecodeString(v)
		obj.SetPayloadHomomorphicHash(checksum.New(checksum.TillichZemor, homo))
	}
	return obj, homo
}

// ---------------------------------------------------------------------------- databases

type migContainers struct{ gone map[int]bool }

func (m migContainers) Exists(c cid.ID) (bool, error) { return !m.gone[cidNum(c)], nil }

func migBoltOpts() *bbolt.Options {
	return &bbolt.Options{NoSync: true, NoGrowSync: true, NoFreelistSync: true, Timeout: 5 * time.Second}
}

func migOpenMeta(path string, ep *epochSrc, gone map[int]bool) (*meta.DB, error) {
	db := meta.New(meta.WithPath(path), meta.WithPermissions(0o700), meta.WithEpochState(ep),
		meta.WithMaxBatchDelay(time.Microsecond), meta.WithBoltDBOptions(migBoltOpts()),
		meta.WithContainers(migContainers{gone: gone}))
	if err := db.Open(false); err != nil {
		return nil, err
	}
	if err := db.Init(numShardID()); err != nil {
		db.Close()
		return nil, err
	}
	return db, nil
}

type migWorld struct {
	dir    string
	native *meta.DB
	ep     *epochSrc
	homo   map[[2]int][]byte // (container, object) → homomorphic hash of the object's put lines
	nfile  int
}

func newMigWorld() *migWorld {
	w := &migWorld{dir: scratchDir("migrate"), ep: &epochSrc{}, homo: map[[2]int][]byte{}}
	db, err := migOpenMeta(filepath.Join(w.dir, "native"), w.ep, nil)
	if err != nil {
		panic(err)
	}
	w.native = db
	return w
}

func (w *migWorld) close() {
	w.native.Close()
	os.RemoveAll(w.dir)
}

// ---------------------------------------------------------------------------- raw content

type migBucket struct {
	cn   int
	keys [][]byte // families 0..5, in key order
	red  []int    // garbage marks with the "redundant" value
	ctr  []uint64 // keys 6..12 (nil when none of them is present)
	part bool     // only some of the counter keys are present
}

type migRaw struct {
	ver     string
	legacy  bool
	vol     bool
	buckets []migBucket
}

func migReadRaw(path string) migRaw {
	bdb, err := bbolt.Open(path, 0o600, &bbolt.Options{ReadOnly: true, Timeout: 5 * time.Second})
	if err != nil {
		panic(fmt.Errorf("raw open %s: %w", path, err))
	}
	defer bdb.Close()
	var r migRaw
	_ = bdb.View(func(tx *bbolt.Tx) error { r = migReadRawTx(tx); return nil })
	return r
}

func migReadRawTx(tx *bbolt.Tx) migRaw {
	r := migRaw{ver: "-"}
	_ = tx.ForEach(func(name []byte, b *bbolt.Bucket) error {
		switch {
		case len(name) == 1 && name[0] == 5:
			if v := b.Get([]byte("version")); len(v) == 8 {
				r.ver = strconv.FormatUint(binary.LittleEndian.Uint64(v), 10)
			}
			r.legacy = b.Get([]byte("phy_counter")) != nil || b.Get([]byte("logic_counter")) != nil
		case len(name) == 1 && name[0] == 3:
			r.vol = true
		case len(name) == 33 && name[0] == 0xFF:
			mb := migBucket{cn: cidNum(cid.ID(name[1:]))}
			var ctr [7]uint64
			nctr := 0
			_ = b.ForEach(func(k, v []byte) error {
				switch {
				case len(k) == 1 && k[0] >= 6 && k[0] <= 12:
					if len(v) == 8 {
						ctr[k[0]-6] = binary.LittleEndian.Uint64(v)
						nctr++
					}
				default:
					mb.keys = append(mb.keys, bytes.Clone(k))
					if k[0] == 5 && len(k) == 33 && bytes.Equal(v, []byte{1}) {
						mb.red = append(mb.red, migNum(oid.ID(k[1:])))
					}
				}
				return nil
			})
			if nctr > 0 {
				mb.ctr = ctr[:]
				mb.part = nctr != 7
			}
			r.buckets = append(r.buckets, mb)
		}
		return nil
	})
	return r
}

// migDigest is FNV-1a (64 bit) over the keys, each preceded by its length (2 bytes, big endian).
func migDigest(keys [][]byte) string {
	h := uint64(14695981039346656037)
	step := func(b byte) { h ^= uint64(b); h *= 1099511628211 }
	for _, k := range keys {
		step(byte(len(k) >> 8))
		step(byte(len(k)))
		for _, b := range k {
			step(b)
		}
	}
	return fmt.Sprintf("%016x", h)
}

func (r migRaw) String() string {
	var bs, red, ctr []string
	for _, b := range r.buckets {
		bs = append(bs, fmt.Sprintf("%d:%d:%s", b.cn, len(b.keys), migDigest(b.keys)))
		if len(b.red) > 0 {
			red = append(red, fmt.Sprintf("%d:%s", b.cn, strings.ReplaceAll(joinInts(b.red), ",", ".")))
		}
		var v [7]uint64
		copy(v[:], b.ctr)
		ctr = append(ctr, fmt.Sprintf("%d:%d/%d/%d/%d/%d/%d/%d", b.cn, v[0], v[1], v[2], v[3], v[4], v[5], v[6]))
	}
	j := func(xs []string) string {
		if len(xs) == 0 {
			return "-"
		}
		return strings.Join(xs, ";")
	}
	bi := func(b bool) int {
		if b {
			return 1
		}
		return 0
	}
	return fmt.Sprintf("ver=%s leg=%d vol=%d b=%s red=%s", r.ver, bi(r.legacy), bi(r.vol), j(bs), j(red)) + " ctr=" + j(ctr)
}

// show is the content line; the counters only for supported source versions.
func (r migRaw) show(withCtr bool) string {
	if withCtr {
		return r.String()
	}
	return r.contentOnly() + " ctr=-"
}

// contentOnly is the content line without the counters (format 10 files carry stale ones).
func (r migRaw) contentOnly() string {
	s := r.String()
	return s[:strings.Index(s, " ctr=")]
}

func migIsBulk(k []byte) bool {
	var id []byte
	switch {
	case len(k) >= 33 && (k[0] == 0 || k[0] == 3 || k[0] == 5):
		id = k[1:33]
	case len(k) >= 33 && (k[0] == 1 || k[0] == 2):
		id = k[len(k)-32:]
	default:
		return false
	}
	return id[0] == 0x80 && binary.BigEndian.Uint64(id[24:]) >= migBulkHomoBase
}

// ---------------------------------------------------------------------------- the old-format file

type migSpec struct {
	from   string // "9", "10", or any other version number / "none" for the gate
	gone   map[int]bool
	badctr bool
	bc     int // bulk container
	nh, na int // filler entries: homomorphic-hash pairs, associate pairs
	short  int // filler associate pairs whose target id has a 32-character Base58 form
}

func migParseSpec(o opLine) migSpec {
	s := migSpec{from: o.kv["from"], gone: map[int]bool{}, badctr: o.kv["badctr"] == "1"}
	for _, g := range o.ints("gone") {
		s.gone[g] = true
	}
	geti := func(k string) int {
		if v, ok := o.kv[k]; ok {
			n, _ := strconv.Atoi(v)
			return n
		}
		return 0
	}
	s.bc, s.nh, s.na, s.short = geti("bc"), geti("nh"), geti("na"), geti("short")
	return s
}

func migKeyPlain(attr string, val []byte, id oid.ID) []byte {
	k := append([]byte{2}, attr...)
	k = append(k, 0)
	k = append(k, val...)
	k = append(k, 0)
	return append(k, id[:]...)
}

func migKeyIDAttr(id oid.ID, attr string, val []byte) []byte {
	k := append([]byte{3}, id[:]...)
	k = append(k, attr...)
	k = append(k, 0)
	return append(k, val...)
}

func migBulkHomo(i int) []byte {
	h := make([]byte, 64)
	h[0] = 0xAA
	binary.BigEndian.PutUint64(h[56:], uint64(i+1))
	return h
}

// materialise writes the old-format file for the current native state.
func (w *migWorld) materialise(s migSpec) string {
	w.nfile++
	path := filepath.Join(w.dir, fmt.Sprintf("old%d", w.nfile))
	if err := w.native.VerifBolt().View(func(tx *bbolt.Tx) error { return tx.CopyFile(path, 0o600) }); err != nil {
		panic(err)
	}
	bdb, err := bbolt.Open(path, 0o600, migBoltOpts())
	if err != nil {
		panic(err)
	}
	defer bdb.Close()
	err = bdb.Update(func(tx *bbolt.Tx) error {
		if s.bc != 0 && s.nh+s.na+s.short > 0 {
			bcid := numCID(s.bc)
			if _, err := tx.CreateBucketIfNotExists(append([]byte{0xFF}, bcid[:]...)); err != nil {
				return err
			}
		}
		var names [][]byte
		_ = tx.ForEach(func(name []byte, _ *bbolt.Bucket) error {
			if len(name) == 33 && name[0] == 0xFF {
				names = append(names, bytes.Clone(name))
			}
			return nil
		})
		pref := append(append([]byte{2}, migAttrAssoc...), 0)
		for _, name := range names {
			b := tx.Bucket(name)
			cn := cidNum(cid.ID(name[1:]))
			// associate values back to Base58 strings
			var fwd [][]byte
			c := b.Cursor()
			for k, _ := c.Seek(pref); bytes.HasPrefix(k, pref); k, _ = c.Next() {
				fwd = append(fwd, bytes.Clone(k))
			}
			for _, k := range fwd {
				val, id := k[len(pref):len(k)-33], oid.ID(k[len(k)-32:])
				if len(val) != 32 {
					continue
				}
				str := []byte(base58.Encode(val))
				if err := b.Delete(k); err != nil {
					return err
				}
				if err := b.Delete(migKeyIDAttr(id, migAttrAssoc, val)); err != nil {
					return err
				}
				if err := b.Put(migKeyPlain(migAttrAssoc, str, id), nil); err != nil {
					return err
				}
				if err := b.Put(migKeyIDAttr(id, migAttrAssoc, str), nil); err != nil {
					return err
				}
			}
			// homomorphic hashes of the indexed objects that carry one
			for key, h := range w.homo {
				if key[0] != cn {
					continue
				}
				id := migOID(key[1])
				idk := append([]byte{0}, id[:]...)
				if k, _ := b.Cursor().Seek(idk); !bytes.Equal(k, idk) {
					continue
				}
				if err := b.Put(migKeyPlain(migAttrHomo, h, id), nil); err != nil {
					return err
				}
				if err := b.Put(migKeyIDAttr(id, migAttrHomo, h), nil); err != nil {
					return err
				}
			}
			if cn == s.bc {
				for i := 0; i < s.nh; i++ {
					id, h := migOID(migBulkHomoBase+i), migBulkHomo(i)
					if err := b.Put(migKeyPlain(migAttrHomo, h, id), nil); err != nil {
						return err
					}
					if err := b.Put(migKeyIDAttr(id, migAttrHomo, h), nil); err != nil {
						return err
					}
				}
				for i := 0; i < s.na+s.short; i++ {
					id := migOID(migBulkAssocBase + i)
					target := migOID(1 + i%12)
					if i >= s.na {
						target = numOID(1 + i%12)
					}
					str := []byte(target.EncodeToString())
					if err := b.Put(migKeyPlain(migAttrAssoc, str, id), nil); err != nil {
						return err
					}
					if err := b.Put(migKeyIDAttr(id, migAttrAssoc, str), nil); err != nil {
						return err
					}
				}
			}
			u64 := func(v uint64) []byte { return binary.LittleEndian.AppendUint64(nil, v) }
			if s.from == "9" {
				for k := byte(6); k <= 12; k++ {
					if err := b.Delete([]byte{k}); err != nil {
						return err
					}
				}
			} else if v := b.Get([]byte{6}); s.badctr && len(v) == 8 && binary.LittleEndian.Uint64(v) > 0 {
				// the double counting format 11 repairs: garbage and payload counters off
				for _, kd := range [][2]uint64{{6, 1}, {11, 3}, {12, 1000}} {
					var cur uint64
					if v := b.Get([]byte{byte(kd[0])}); len(v) == 8 {
						cur = binary.LittleEndian.Uint64(v)
					}
					if err := b.Put([]byte{byte(kd[0])}, u64(cur+kd[1])); err != nil {
						return err
					}
				}
			}
		}
		info, err := tx.CreateBucketIfNotExists([]byte{5})
		if err != nil {
			return err
		}
		if s.from == "none" {
			if err := info.Delete([]byte("version")); err != nil {
				return err
			}
		} else {
			v, err := strconv.ParseUint(s.from, 10, 64)
			if err != nil {
				return err
			}
			if err := info.Put([]byte("version"), binary.LittleEndian.AppendUint64(nil, v)); err != nil {
				return err
			}
		}
		if s.from == "9" {
			if err := info.Put([]byte("phy_counter"), binary.LittleEndian.AppendUint64(nil, 12345678)); err != nil {
				return err
			}
			if err := info.Put([]byte("logic_counter"), binary.LittleEndian.AppendUint64(nil, 12345678)); err != nil {
				return err
			}
			vol, err := tx.CreateBucketIfNotExists([]byte{3})
			if err != nil {
				return err
			}
			for _, name := range names {
				cb, err := vol.CreateBucketIfNotExists(name[1:])
				if err != nil {
					return err
				}
				if err := cb.Put([]byte{0}, binary.LittleEndian.AppendUint64(nil, 777)); err != nil {
					return err
				}
				if err := cb.Put([]byte{1}, binary.LittleEndian.AppendUint64(nil, 7)); err != nil {
					return err
				}
			}
		}
		return nil
	})
	if err != nil {
		panic(fmt.Errorf("materialise: %w", err))
	}
	return path
}

// migInvOK is the old format's invariant on a raw bucket: the two attribute families mirror each other for the
// attributes the upgrade touches.
func migInvOK(b migBucket) bool {
	set := map[string]bool{}
	for _, k := range b.keys {
		set[string(k)] = true
	}
	for _, a := range []string{migAttrAssoc, migAttrHomo} {
		fp := append(append([]byte{2}, a...), 0)
		for _, k := range b.keys {
			if bytes.HasPrefix(k, fp) && len(k) >= len(fp)+33 {
				val, id := k[len(fp):len(k)-33], oid.ID(k[len(k)-32:])
				if a == migAttrAssoc && !set[string(migKeyIDAttr(id, a, val))] {
					return false
				}
			}
			if k[0] == 3 && len(k) >= 33+len(a)+1 && bytes.HasPrefix(k[33:], append([]byte(a), 0)) {
				if !set[string(migKeyPlain(a, k[33+len(a)+1:], oid.ID(k[1:33])))] {
					return false
				}
			}
		}
	}
	return true
}

// ---------------------------------------------------------------------------- views

func migDump(db *meta.DB, epoch uint64) string {
	var ex, ge, gr, lk strings.Builder
	for c := 1; c <= metaNC; c++ {
		for o := 1; o <= metaNO; o++ {
			a := migAddr(c, o)
			ok, err := db.Exists(a, false)
			switch {
			case err != nil:
				ex.WriteString(metaErrClass(err))
			case ok:
				ex.WriteString("T")
			default:
				ex.WriteString("F")
			}
			_, err = db.Get(a, false)
			ge.WriteString(metaErrClass(err))
			_, err = db.Get(a, true)
			gr.WriteString(metaErrClass(err))
			l, err := db.IsLocked(a)
			if err != nil {
				lk.WriteString("O")
			} else if l {
				lk.WriteString("1")
			} else {
				lk.WriteString("0")
			}
		}
	}
	var list []string
	var cur *meta.Cursor
	for guard := 0; guard < 100; guard++ {
		res, next, err := db.ListWithCursor(3, cur)
		if err != nil {
			if !errors.Is(err, meta.ErrEndOfListing) {
				list = append(list, "ERR")
			}
			break
		}
		for _, r := range res {
			list = append(list, fmt.Sprintf("%d/%d", cidNum(r.Address.Container()), migNum(r.Address.Object())))
		}
		list = append(list, "|")
		cur = next
	}
	var exp []string
	_ = db.IterateExpired(epoch, func(a oid.Address, t object.Type) error {
		exp = append(exp, fmt.Sprintf("%d/%d:%s", cidNum(a.Container()), migNum(a.Object()), typeName(t)))
		return nil
	})
	var garb []string
	bins, _ := db.GetGarbage(5)
	for _, b := range bins {
		var ids []string
		for _, id := range b.Objects {
			ids = append(ids, strconv.Itoa(migNum(id)))
		}
		garb = append(garb, fmt.Sprintf("%d:%s", cidNum(b.Container), strings.Join(ids, ".")))
	}
	j := func(xs []string) string {
		if len(xs) == 0 {
			return "-"
		}
		return strings.Join(xs, ",")
	}
	return fmt.Sprintf("E=%s G=%s R=%s L=%s list=%s exp=%s garb=%s", ex.String(), ge.String(), gr.String(), lk.String(), j(list), j(exp), j(garb))
}

func migCounters(db *meta.DB) string {
	ctr, _ := db.ObjectCounters()
	var info []string
	for c := 1; c <= metaNC; c++ {
		ci, _ := db.GetContainerInfo(numCID(c))
		info = append(info, fmt.Sprintf("%d/%d", ci.StorageSize, ci.ObjectsNumber))
	}
	return fmt.Sprintf("ctr=%d,%d,%d,%d,%d,%d,%d info=%s", ctr.Phy, ctr.Root, ctr.TS, ctr.Lock, ctr.Link, ctr.GC, ctr.Payload, strings.Join(info, ","))
}

// migSearches runs a fixed set of queries (user attribute, object type, associate by Base58 string, associate
// by prefix) over every container and prints the result ids.
func migSearches(db *meta.DB) string {
	type q struct {
		attr string
		op   object.SearchMatchType
		val  string
	}
	qs := []q{
		{"Tag", object.MatchStringEqual, "a"},
		{object.FilterType, object.MatchStringEqual, "TOMBSTONE"},
		{object.FilterType, object.MatchStringEqual, "LOCK"},
		{"$Object:homomorphicHashX", object.MatchStringEqual, "x1"},
		{"$Object:homomorphicHashX", object.MatchCommonPrefix, "x"},
	}
	for t := 1; t <= metaNO; t += 2 {
		qs = append(qs, q{migAttrAssoc, object.MatchStringEqual, migOID(t).EncodeToString()})
	}
	qs = append(qs, q{migAttrAssoc, object.MatchCommonPrefix, migOID(1).EncodeToString()[:3]})
	var out []string
	for c := 1; c <= metaNC; c++ {
		for qi, x := range qs {
			var fs object.SearchFilters
			fs.AddFilter(x.attr, x.val, x.op)
			attrs := []string{x.attr}
			ofs, cur, err := objectcore.PreprocessSearchQuery(fs, attrs, "")
			if err != nil {
				out = append(out, fmt.Sprintf("%d.%d:err", c, qi))
				continue
			}
			res, _, err := db.Search(numCID(c), ofs, attrs, cur, 1000)
			if err != nil {
				out = append(out, fmt.Sprintf("%d.%d:dberr", c, qi))
				continue
			}
			if len(res) == 0 {
				continue
			}
			var ids []string
			for _, r := range res {
				if migNum(r.ID) >= migBulkHomoBase {
					continue // filler entries
				}
				ids = append(ids, strconv.Itoa(migNum(r.ID))+"/"+strings.Join(r.Attributes, "/"))
			}
			if len(ids) == 0 {
				continue
			}
			out = append(out, fmt.Sprintf("%d.%d:%s", c, qi, strings.Join(ids, ".")))
		}
	}
	if len(out) == 0 {
		return "-"
	}
	return strings.Join(out, ",")
}

// ---------------------------------------------------------------------------- the child process

type migChildReq struct {
	Path string `json:"path"`
	K    int    `json:"k"`
	Gone []int  `json:"gone"`
}

// migChild opens the database and dies right after the K-th committed upgrade transaction (exit 9), or right
// after Init returned (exit 0 / 8 on error): nothing is closed.
func migChild() {
	var req migChildReq
	if err := json.Unmarshal([]byte(os.Getenv("VH_MIGRATE_CHILD")), &req); err != nil {
		os.Exit(7)
	}
	n := 0
	verifhook.SetPoint(func(name string) {
		if name != "meta.migrate.batch" {
			return
		}
		n++
		if n == req.K {
			os.Exit(9)
		}
	})
	gone := map[int]bool{}
	for _, g := range req.Gone {
		gone[g] = true
	}
	if _, err := migOpenMeta(req.Path, &epochSrc{}, gone); err != nil {
		os.Exit(8)
	}
	os.Exit(0)
}

type migCrash struct{}

// migRunInProc is the in-process variant of the interruption: the K-th point panics (the point is outside any
// transaction), the panic is caught here and the bolt handle is closed without any further write.
func migRunInProc(path string, k int, gone map[int]bool) (code int) {
	n := 0
	verifhook.SetPoint(func(name string) {
		if name != "meta.migrate.batch" {
			return
		}
		n++
		if n == k {
			panic(migCrash{})
		}
	})
	defer verifhook.SetPoint(nil)
	db := meta.New(meta.WithPath(path), meta.WithPermissions(0o700), meta.WithEpochState(&epochSrc{}),
		meta.WithMaxBatchDelay(time.Microsecond), meta.WithBoltDBOptions(migBoltOpts()),
		meta.WithContainers(migContainers{gone: gone}))
	defer func() {
		if r := recover(); r != nil {
			if _, ok := r.(migCrash); !ok {
				panic(r)
			}
			code = 9
		}
		db.Close()
	}()
	if err := db.Open(false); err != nil {
		return 8
	}
	if err := db.Init(numShardID()); err != nil {
		return 8
	}
	return 0
}

func migRunChild(path string, k int, gone map[int]bool) int {
	req := migChildReq{Path: path, K: k, Gone: sortedKeys(gone)}
	b, _ := json.Marshal(req)
	cmd := exec.Command(os.Args[0], "migrate-child")
	cmd.Env = append(os.Environ(), "VH_MIGRATE_CHILD="+string(b))
	err := cmd.Run()
	var ee *exec.ExitError
	if errors.As(err, &ee) {
		return ee.ExitCode()
	}
	if err != nil {
		panic(err)
	}
	return 0
}

// ---------------------------------------------------------------------------- executor

func migErrClass(err error) string {
	switch {
	case err == nil:
		return "ok"
	case errors.Is(err, meta.ErrOutdatedVersion):
		return "refused"
	}
	return "err"
}

func migExec(c *runCtx, ops []string) {
	w := newMigWorld()
	defer w.close()
	for _, line := range ops {
		o := parseOp(line)
		c.count(o.name)
		switch o.name {
		case "facts":
			cur, from := meta.VerifMetaVersions()
			var fs []int
			for _, f := range from {
				fs = append(fs, int(f))
			}
			c.emit(line, fmt.Sprintf("=> cur=%d from=%s", cur, joinInts(fs)))
		case "epoch":
			w.ep.e.Store(o.u64("e"))
			c.emit(line, "=> ok")
		case "put":
			cn := o.int("c")
			obj, homo := migBuildObj(cn, o)
			err := w.native.Put(obj)
			if homo != nil {
				w.homo[[2]int{cn, o.int("o")}] = homo
			}
			c.count("put:" + metaErrClass(err))
			c.emit(line, "=> "+metaErrClass(err))
		case "mark":
			_, err := w.native.MarkGarbage(numCID(o.int("c")), migIDs(o.ints("ids")), meta.GarbageMark(o.int("red")))
			c.emit(line, "=> "+metaErrClass(err))
		case "inhumecnr":
			_, err := w.native.InhumeContainer(numCID(o.int("c")))
			c.emit(line, "=> "+metaErrClass(err))
		case "delcnr":
			err := w.native.DeleteContainer(numCID(o.int("c")))
			c.emit(line, "=> "+metaErrClass(err))
		case "delete":
			_, _, err := w.native.Delete(numCID(o.int("c")), migIDs(o.ints("ids")))
			c.emit(line, "=> "+metaErrClass(err))
		case "revive":
			st, _ := w.native.ReviveObject(migAddr(o.int("c"), o.int("o")))
			res := "=> notrevived"
			switch st.StatusType() {
			case meta.ReviveStatusGraveyard:
				res = fmt.Sprintf("=> graveyard tomb=%d", migNum(st.TombstoneAddress().Object()))
			case meta.ReviveStatusGarbage:
				res = "=> garbage"
			}
			c.emit(line, res)
		case "open", "crash":
			c.emit(line, w.upgrade(c, o, line))
		default:
			c.emit(line, "=> bad-op")
		}
	}
}

// nativeContent is the raw content of the native database without its counters.
func (w *migWorld) nativeRaw() migRaw {
	var r migRaw
	_ = w.native.VerifBolt().View(func(tx *bbolt.Tx) error { r = migReadRawTx(tx); return nil })
	return r
}

// sameContent compares the upgraded file with the native database on the buckets of live containers, filler
// entries aside.
func migSameContent(up, nat migRaw, gone map[int]bool, bc int) (bool, string) {
	strip := func(r migRaw) map[int][]string {
		m := map[int][]string{}
		for _, b := range r.buckets {
			if gone[b.cn] {
				continue
			}
			var ks []string
			for _, k := range b.keys {
				if !migIsBulk(k) {
					ks = append(ks, hex.EncodeToString(k))
				}
			}
			for _, id := range b.red {
				ks = append(ks, fmt.Sprintf("red:%d", id))
			}
			if len(ks) == 0 && b.cn == bc {
				continue // the bucket exists because of the filler only
			}
			m[b.cn] = ks
		}
		return m
	}
	a, b := strip(up), strip(nat)
	for cn, ks := range a {
		other, ok := b[cn]
		if !ok {
			return false, fmt.Sprintf("bucket %d only in the upgraded database", cn)
		}
		sa, sb := map[string]bool{}, map[string]bool{}
		for _, k := range ks {
			sa[k] = true
		}
		for _, k := range other {
			sb[k] = true
		}
		for _, k := range ks {
			if !sb[k] {
				return false, fmt.Sprintf("container %d: key %s only in the upgraded database", cn, k)
			}
		}
		for _, k := range other {
			if !sa[k] {
				return false, fmt.Sprintf("container %d: key %s only in the native database", cn, k)
			}
		}
	}
	for cn := range b {
		if _, ok := a[cn]; !ok {
			return false, fmt.Sprintf("bucket %d only in the native database", cn)
		}
	}
	return true, ""
}

func (w *migWorld) upgrade(c *runCtx, o opLine, line string) string {
	s := migParseSpec(o)
	t0 := time.Now()
	tick := func(what string) {
		if traceOps {
			fmt.Fprintln(os.Stderr, "T", what, time.Since(t0))
			t0 = time.Now()
		}
	}
	path := w.materialise(s)
	tick("materialise")
	old := migReadRaw(path)
	tick("readraw")
	supported := s.from == "9" || s.from == "10"
	if supported {
		okInv := true
		for _, b := range old.buckets {
			okInv = okInv && migInvOK(b)
		}
		c.oracle("old-format-file-satisfies-the-format-invariant", okInv, line)
	}
	k := 0
	crashed := 0
	mid := "-"
	if o.name == "crash" {
		k = o.int("k")
		var code int
		if o.kv["via"] == "proc" {
			code = migRunChild(path, k, s.gone)
			c.count("crash-via-child-process")
		} else {
			code = migRunInProc(path, k, s.gone)
		}
		switch code {
		case 9:
			crashed = 1
		case 0, 8:
		default:
			return fmt.Sprintf("=> child-exit-%d", code)
		}
		mid = migReadRaw(path).show(supported)
		c.count(fmt.Sprintf("crash:%d", crashed))
	}
	tick("child")
	db, err := migOpenMeta(path, w.ep, s.gone)
	tick("open")
	res := migErrClass(err)
	if err != nil {
		now := migReadRaw(path)
		if o.name == "open" {
			c.oracle("refused-database-is-left-unchanged", now.String() == old.String(), "before: "+old.String()+" after: "+now.String())
			c.oracle("only-unsupported-versions-are-refused", !supported && s.from != "11" && s.from != "none", line)
		}
		return fmt.Sprintf("=> %s old=[%s] crashed=%d mid=[%s] new=[%s]", res, old.show(supported), crashed, mid, now.show(supported))
	}
	views := "-"
	epoch := w.ep.CurrentEpoch()
	if len(s.gone) == 0 {
		views = migDump(db, epoch)
	}
	counters := migCounters(db)
	searches := migSearches(db)
	tick("views")
	db.Close()
	now := migReadRaw(path)
	tick("close+readraw")
	if supported {
		c.nontrivial(old.String() + "|" + strconv.Itoa(k))
		c.count("from:" + s.from)
		if s.short == 0 {
			same, why := migSameContent(now, w.nativeRaw(), s.gone, s.bc)
			c.oracleSig("upgraded-content-equals-native", why[:min(len(why), 24)], same, why)
		}
		c.oracle("upgraded-version-is-current", now.ver == "11" && !now.legacy && !now.vol, now.String())
		if len(s.gone) == 0 && s.short == 0 {
			nv := migDump(w.native, epoch)
			c.oracle("statuses-and-listings-equal-native", views == nv, "upgraded: "+views+" native: "+nv)
			ns := migSearches(w.native)
			c.oracle("search-results-equal-native", searches == ns, "upgraded: "+searches+" native: "+ns)
			// the typed counters are exact in a natively written database (C02); garbage/payload counters are
			// compared with the model's recount only
			nc, _ := w.native.ObjectCounters()
			uc := strings.Split(strings.TrimPrefix(strings.Fields(counters)[0], "ctr="), ",")
			typed := fmt.Sprintf("%d,%d,%d,%d,%d", nc.Phy, nc.Root, nc.TS, nc.Lock, nc.Link)
			c.oracle("typed-counters-equal-native", strings.Join(uc[:5], ",") == typed, "upgraded: "+counters+" native: "+typed)
		}
		if o.name == "crash" {
			// the uninterrupted upgrade of the same old file
			ref := w.materialise(s)
			rdb, rerr := migOpenMeta(ref, w.ep, s.gone)
			if rerr == nil {
				rdb.Close()
			}
			rr := migReadRaw(ref)
			c.oracle("resumed-upgrade-equals-uninterrupted", rerr == nil && rr.String() == now.String(), "resumed: "+now.String()+" uninterrupted: "+rr.String())
		}
	} else if o.name == "open" {
		c.oracle("only-supported-versions-are-opened", s.from == "11" || s.from == "none", line)
		if s.from == "11" {
			c.oracle("current-version-is-opened-without-changes", now.contentOnly() == old.contentOnly(), "before: "+old.String()+" after: "+now.String())
		}
	}
	if !supported {
		counters, views = "ctr=- info=-", "-"
	}
	return fmt.Sprintf("=> %s old=[%s] crashed=%d mid=[%s] new=[%s] %s views=[%s]", res, old.show(supported), crashed, mid, now.show(supported), counters, views)
}

// ---------------------------------------------------------------------------- generator

func migGen(c *runCtx, run func([]string)) {
	run([]string{"migrate facts"})
	nseq := c.n(20, 300)
	for s := 0; s < nseq; s++ {
		g := newMetaGenState(c)
		r := c.rng
		// extras of this engine, fixed per object of the world
		extra := map[[2]int]string{}
		for cn := 1; cn <= metaNC; cn++ {
			for o := 1; o <= 8; o++ {
				var parts []string
				if r.IntN(2) == 0 {
					h := make([]byte, 64)
					h[0], h[63] = byte(1+r.IntN(3)), byte(o)
					parts = append(parts, "homo="+hex.EncodeToString(h))
				}
				var attrs []string
				if r.IntN(3) == 0 {
					attrs = append(attrs, hx("Tag")+":"+hx([]string{"a", "b", "17"}[r.IntN(3)]))
				}
				if r.IntN(6) == 0 {
					attrs = append(attrs, hx("$Object:homomorphicHashX")+":"+hx("x"+strconv.Itoa(r.IntN(3))))
				}
				if len(attrs) > 0 {
					parts = append(parts, "attrs="+strings.Join(attrs, ","))
				}
				extra[[2]int{cn, o}] = strings.Join(parts, " ")
			}
		}
		n := 6 + r.IntN(24)
		var ops []string
		for i := 0; i < n; i++ {
			op := strings.Replace(g.op(), "meta ", "migrate ", 1)
			if po := parseOp(op); po.name == "put" {
				if e := extra[[2]int{po.int("c"), po.int("o")}]; e != "" {
					op += " " + e
				}
			}
			ops = append(ops, op)
			if i > 3 && r.IntN(14) == 0 {
				ops = append(ops, migUpgradeOps(c, s, false)...)
			}
		}
		ops = append(ops, migUpgradeOps(c, s, true)...)
		run(ops)
	}
	// the version gate on an empty and on a filled database
	for _, v := range []string{"0", "8", "12", "255", "11", "none"} {
		if v == "0" || v == "12" {
			run([]string{"migrate open from=" + v + migConsts()})
		}
		run([]string{"migrate put c=1 o=1 typ=REG size=5", "migrate put c=1 o=2 typ=LOCK assoc=1", "migrate open from=" + v + migConsts()})
	}
}

// migConsts are the header constants of every object of the engine (the model's writer needs them).
func migConsts() string {
	obj := mkObject(1, 1, nil)
	cs, _ := obj.PayloadChecksum()
	own := obj.Owner()
	return fmt.Sprintf(" ver=%s own=%s cs=%s", hx(obj.Version().String()), hex.EncodeToString(own[:]), hex.EncodeToString(cs.Value()))
}

func migUpgradeOps(c *runCtx, seq int, last bool) []string {
	r := c.rng
	from := []string{"10", "10", "9"}[r.IntN(3)]
	spec := "from=" + from
	if r.IntN(5) == 0 {
		spec += fmt.Sprintf(" gone=%d", 1+r.IntN(2))
	} else {
		spec += " gone=-"
	}
	if from == "10" && r.IntN(2) == 0 {
		spec += " badctr=1"
	}
	// batches hold 1000 entries: a few histories carry filler entries to span several batches
	big := last && seq%10 == 3
	if big {
		spec += fmt.Sprintf(" bc=%d nh=%d na=%d", 1+r.IntN(2), []int{990, 1000, 1003, 2100}[r.IntN(4)], []int{5, 998, 1000, 1012}[r.IntN(4)])
	} else if r.IntN(3) == 0 {
		spec += fmt.Sprintf(" bc=%d nh=%d na=%d", 1+r.IntN(3), r.IntN(4), r.IntN(4))
	}
	spec += migConsts()
	out := []string{"migrate open " + spec}
	if last {
		// every transaction boundary: 3 transactions without filler from 10 (one batch per step + the final one),
		// one more from 9, more with filler; the last k is past the end (nothing to interrupt)
		kmax := 4
		if from == "9" {
			kmax = 5
		}
		if big {
			kmax += 4
		}
		proc := r.IntN(kmax) + 1
		for k := 1; k <= kmax; k++ {
			if big && r.IntN(2) == 0 && k != proc {
				continue // the model of a filler case is slow: every other boundary
			}
			via := ""
			if k == proc && seq%3 == 0 {
				via = " via=proc"
			}
			out = append(out, fmt.Sprintf("migrate crash k=%d%s %s", k, via, spec))
		}
	}
	return out
}

var _ = sort.Ints
