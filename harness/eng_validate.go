package main

import (
	"bytes"
	"context"
	"crypto/ecdsa"
	"crypto/elliptic"
	"crypto/sha256"
	"errors"
	"fmt"
	"hash/fnv"
	"math"
	"strings"

	"github.com/nspcc-dev/neo-go/pkg/crypto/keys"
	objectcore "github.com/nspcc-dev/neofs-node/pkg/core/object"
	putsvc "github.com/nspcc-dev/neofs-node/pkg/services/object/put"
	"github.com/nspcc-dev/neofs-sdk-go/checksum"
	apistatus "github.com/nspcc-dev/neofs-sdk-go/client/status"
	"github.com/nspcc-dev/neofs-sdk-go/container"
	cid "github.com/nspcc-dev/neofs-sdk-go/container/id"
	neofscrypto "github.com/nspcc-dev/neofs-sdk-go/crypto"
	"github.com/nspcc-dev/neofs-sdk-go/netmap"
	"github.com/nspcc-dev/neofs-sdk-go/object"
	oid "github.com/nspcc-dev/neofs-sdk-go/object/id"
	"github.com/nspcc-dev/neofs-sdk-go/user"
	"github.com/nspcc-dev/neofs-sdk-go/version"
)

// Engine "validate" (C24, partial): streams SDK-built objects (valid, or corrupted in one header field) in
// arbitrary chunkings through the REAL validatingTarget + FormatValidator of the PUT pipeline, over a
// recording downstream target that may fail a write, and compares where/why the stream is rejected with
// Model/Validate.lean. Oracle: whatever the downstream target was told to store is re-validated independently.
//
// op: validate stream kind=K size=S chunks=… unprep=U fail=J quota=Q max=M
//
//	kind   header corruption (see valKinds); size: declared payload size; chunks: streamed chunk lengths
//	unprep 1 = unprepared object (the node will slice and sign); fail: the J-th downstream Write fails (0 never)
//	quota  hard quota left in bytes (0 = unlimited); max: maximum payload size
//
// ops authseq (one validator with the real shared session-token cache over a sequence of objects) and entry (three real
// put services: PUT, local-only PUT, forwarded PUT, Replicate with system objects of valid / invalid content) are in
// eng_validate_entry.go.
func init() {
	engines["validate"] = seqRunner{gen: valGen, exec: valExec}.engine()
}

const (
	vkValid = iota
	vkWrongID
	vkBadSignature
	vkWrongOwner
	vkChecksumMismatch
	vkNoChecksum
	vkDupAttribute
	vkEmptyAttribute
	vkZeroByteAttribute
	vkNoContainer
	vkNoSignature
	vkUnknownContainer
	vkBadExpiration
	vkExpired
	vkTZChecksum
	vkNoID
	vkNoOwner
	vkOldVersion
	vkWrongIDSigned // the signature signs the wrong ID: only the ID check can reject it
	vkKinds
)

var valKey2 = func() *keys.PrivateKey {
	b := make([]byte, 32)
	b[31] = 9
	b[0] = 5
	k, err := keys.NewPrivateKeyFromBytes(b)
	if err != nil {
		panic(err)
	}
	return k
}()

type valCnrs struct{ known cid.ID }

func (x valCnrs) Get(id cid.ID) (container.Container, error) {
	if id != x.known {
		return container.Container{}, apistatus.ErrContainerNotFound
	}
	var c container.Container
	var pp netmap.PlacementPolicy
	var rd netmap.ReplicaDescriptor
	rd.SetNumberOfObjects(1)
	pp.SetReplicas([]netmap.ReplicaDescriptor{rd})
	c.SetPlacementPolicy(pp)
	return c, nil
}

type valLocks struct{}

func (valLocks) IsLocked(context.Context, oid.Address) (bool, error) { return false, nil }

type valEpoch struct{}

func (valEpoch) CurrentEpoch() uint64 { return 10 }

type valQuota struct{ hard uint64 }

func (q valQuota) AvailableQuotasLeft(cid.ID, user.ID) (uint64, uint64, error) {
	if q.hard == 0 {
		return math.MaxUint64, math.MaxUint64, nil
	}
	return math.MaxUint64, q.hard, nil
}

var errValDown = errors.New("downstream write failure")

type valDown struct {
	hdr     *object.Object
	got     []byte
	writes  int
	failAt  int
	closed  bool
	hdrSeen bool
}

func (d *valDown) WriteHeader(o *object.Object) error { d.hdr = o; d.hdrSeen = true; return nil }
func (d *valDown) Write(p []byte) (int, error) {
	d.writes++
	if d.failAt > 0 && d.writes == d.failAt {
		return 0, errValDown
	}
	d.got = append(d.got, p...)
	return len(p), nil
}
func (d *valDown) Close() (oid.ID, error) { d.closed = true; return d.hdr.GetID(), nil }

func valClass(err error) string {
	switch {
	case errors.Is(err, putsvc.ErrWrongPayloadSize):
		return "size"
	case errors.Is(err, putsvc.ErrExceedingMaxSize):
		return "max"
	case errors.Is(err, apistatus.ErrQuotaExceeded):
		return "quota"
	case errors.Is(err, errValDown):
		return "down"
	case strings.Contains(err.Error(), "incorrect payload checksum"):
		return "checksum"
	default:
		return "format"
	}
}

func valObject(kind, size int, unprep bool) *object.Object {
	signer := user.NewAutoIDSigner(putKey.PrivateKey)
	cnr := numCID(1)
	obj := object.New(cnr, signer.UserID())
	ver := version.Current()
	obj.SetVersion(&ver)
	obj.SetType(object.TypeRegular)
	obj.SetCreationEpoch(9)
	obj.SetPayloadSize(uint64(size))
	intended := detPayload(size, 3)
	obj.SetAttributes(object.NewAttribute("k1", "v1"), object.NewAttribute("k2", "v2"))
	switch kind {
	case vkDupAttribute:
		obj.SetAttributes(object.NewAttribute("k1", "v1"), object.NewAttribute("k1", "v2"))
	case vkEmptyAttribute:
		obj.SetAttributes(object.NewAttribute("k1", ""))
	case vkZeroByteAttribute:
		obj.SetAttributes(object.NewAttribute("k1", "a\x00b"))
	case vkBadExpiration:
		obj.SetAttributes(object.NewAttribute(object.AttributeExpirationEpoch, "abc"))
	case vkExpired:
		obj.SetAttributes(object.NewAttribute(object.AttributeExpirationEpoch, "5"))
	case vkNoContainer:
		obj.SetContainerID(cid.ID{})
	case vkUnknownContainer:
		obj.SetContainerID(numCID(2))
	case vkNoOwner:
		obj.SetOwner(user.ID{})
	case vkWrongOwner:
		obj.SetOwner(user.NewFromECDSAPublicKey(valKey2.PrivateKey.PublicKey))
	case vkOldVersion:
		v := version.New(2, 10)
		obj.SetVersion(&v)
	}
	if unprep {
		return obj
	}
	switch kind {
	case vkNoChecksum:
	case vkTZChecksum:
		obj.SetPayloadChecksum(checksum.New(checksum.TillichZemor, make([]byte, 64)))
	case vkChecksumMismatch:
		obj.SetPayloadChecksum(checksum.NewSHA256(sha256.Sum256(append(intended, 1))))
	default:
		obj.SetPayloadChecksum(checksum.NewSHA256(sha256.Sum256(intended)))
	}
	if err := obj.CalculateAndSetID(); err != nil {
		panic(err)
	}
	if kind == vkWrongIDSigned {
		obj.SetID(numOID(78))
	}
	if kind != vkNoSignature {
		if err := obj.Sign(signer); err != nil {
			panic(err)
		}
	}
	switch kind {
	case vkWrongID:
		obj.SetID(numOID(77))
	case vkNoID:
		obj.ResetID()
	case vkBadSignature:
		sig := obj.Signature()
		v := append([]byte(nil), sig.Value()...)
		v[len(v)-1] ^= 1
		ns := neofscrypto.NewSignatureFromRawKey(sig.Scheme(), sig.PublicKeyBytes(), v)
		obj.SetSignature(&ns)
	}
	return obj
}

func valExec(c *runCtx, ops []string) {
	c.independent = true
	for _, line := range ops {
		o := parseOp(line)
		c.count(o.name)
		switch o.name {
		case "stream":
		case "authseq":
			valAuthSeq(c, line, o)
			continue
		case "entry":
			valEntry(c, line, o)
			continue
		default:
			c.emit(line, "=> bad-op")
			continue
		}
		kind, size, chunks, unprep := o.int("kind"), o.int("size"), o.ints("chunks"), o.int("unprep") == 1
		failAt, quota, maxSz := o.int("fail"), o.int("quota"), o.int("max")
		if kind < 0 || kind >= vkKinds {
			c.emit(line, "=> bad-op")
			continue
		}
		c.count(fmt.Sprintf("kind:%d", kind))
		obj := valObject(kind, size, unprep)
		total := 0
		for _, x := range chunks {
			total += x
		}
		stream := detPayload(total, 3)
		fv := objectcore.NewFormatValidator(nil, nil, valCnrs{known: numCID(1)}, objectcore.WithNetState(valEpoch{}), objectcore.WithLockSource(valLocks{}))
		down := &valDown{failAt: failAt}
		cnr, _ := valCnrs{known: numCID(1)}.Get(numCID(1))
		t := putsvc.VerifNewValidatingTarget(down, fv, unprep, uint64(maxSz), valQuota{hard: uint64(quota)}, cnr, false)

		obs := ""
		var ferr error
		func() {
			defer func() {
				if r := recover(); r != nil {
					obs = "=> panic"
				}
			}()
			if err := t.WriteHeader(obj); err != nil {
				ferr = err
				obs = "=> hdr:" + valClass(err)
				return
			}
			off := 0
			for i, ln := range chunks {
				if _, err := t.Write(stream[off : off+ln]); err != nil {
					ferr = err
					obs = fmt.Sprintf("=> w%d:%s", i+1, valClass(err))
					return
				}
				off += ln
			}
			if _, err := t.Close(); err != nil {
				ferr = err
				obs = "=> close:" + valClass(err)
				return
			}
			h := fnv.New32a()
			h.Write(down.got)
			obs = fmt.Sprintf("=> ok down=%d fnv=%d", len(down.got), h.Sum32())
		}()
		c.emit(line, obs)
		detail := fmt.Sprintf("obs=%q err=%v down.hdr=%v down.bytes=%d down.closed=%v", obs, ferr, down.hdrSeen, len(down.got), down.closed)
		c.oracle("no-panic", obs != "=> panic", detail)
		// nothing is stored after a rejection; a rejected header reaches nobody
		c.oracle("rejected-stream-not-stored", ferr == nil || !down.closed, detail)
		c.oracle("rejected-header-not-forwarded", !strings.HasPrefix(obs, "=> hdr:") || !down.hdrSeen, detail)
		// a failed downstream write is never reported as success
		c.oracle("downstream-write-error-surfaces", !(failAt > 0 && failAt <= len(chunks)) || ferr != nil, detail)
		if ferr == nil && obs != "=> panic" {
			// independent re-validation of what the downstream target was told to store
			c.oracle("stored-bytes-are-the-streamed-bytes", bytes.Equal(down.got, stream), detail)
			if !unprep {
				h := down.hdr
				cs, csSet := h.PayloadChecksum()
				sum := sha256.Sum256(down.got)
				c.oracle("stored-payload-length-matches-header", uint64(len(down.got)) == h.PayloadSize(), detail)
				c.oracle("stored-payload-checksum-matches-header", csSet && cs.Type() == checksum.SHA256 && bytes.Equal(cs.Value(), sum[:]), detail)
				c.oracle("stored-id-matches-header", h.VerifyID() == nil, detail)
				c.oracle("stored-signature-verifies", h.VerifySignature(), detail)
				sig := h.Signature()
				ownerOK := false
				if sig != nil {
					if pk, err := keys.NewPublicKeyFromBytes(sig.PublicKeyBytes(), elliptic.P256()); err == nil {
						ownerOK = user.NewFromECDSAPublicKey(ecdsa.PublicKey(*pk)) == h.Owner()
					}
				}
				c.oracle("stored-owner-is-the-signer", ownerOK, detail)
				c.oracle("stored-size-within-limit", h.PayloadSize() <= uint64(maxSz), detail)
			}
			seen := map[string]bool{}
			attrsOK := true
			for _, a := range down.hdr.Attributes() {
				attrsOK = attrsOK && !seen[a.Key()] && a.Value() != "" && a.Key() != "" && !strings.ContainsRune(a.Key()+a.Value(), 0)
				seen[a.Key()] = true
			}
			c.oracle("stored-attributes-valid", attrsOK, detail)
		}
		if len(chunks) > 1 || kind != vkValid {
			c.nontrivial(line)
		}
	}
}

func ptrSig(scheme neofscrypto.Scheme, pub, val []byte) *neofscrypto.Signature {
	s := neofscrypto.NewSignatureFromRawKey(scheme, pub, val)
	return &s
}

func valGen(c *runCtx, run func([]string)) {
	var ops []string
	ops = append(ops, valGenAuth(c)...)
	ops = append(ops, valGenEntry(c)...)
	chunkings := func(total int) [][]int {
		out := [][]int{{total}}
		if total > 1 {
			out = append(out, []int{1, total - 1}, []int{total - 1, 1}, []int{total / 2, total - total/2})
		}
		// random chunking incl. empty chunks
		var r []int
		left := total
		for left > 0 {
			x := c.rng.IntN(left + 1)
			r = append(r, x)
			left -= x
		}
		if len(r) > 0 {
			out = append(out, r)
		}
		return out
	}
	sizes := []int{0, 1, 7, 64, 300}
	for _, size := range sizes {
		for kind := 0; kind < vkKinds; kind++ {
			for unprep := 0; unprep <= 1; unprep++ {
				for _, ch := range chunkings(size) {
					ops = append(ops, fmt.Sprintf("validate stream kind=%d size=%d chunks=%s unprep=%d fail=0 quota=0 max=1000", kind, size, joinInts(ch), unprep))
				}
			}
		}
		// payload shorter / longer than declared, limits, quotas, failing downstream writes
		for i := 0; i < c.n(12, 300); i++ {
			total := size + c.rng.IntN(5) - 2
			if total < 0 {
				total = 0
			}
			if c.rng.IntN(3) == 0 {
				total = size
			}
			chs := chunkings(total)
			ch := chs[c.rng.IntN(len(chs))]
			fail := 0
			if c.rng.IntN(3) == 0 && len(ch) > 0 {
				fail = 1 + c.rng.IntN(len(ch))
			}
			quota := 0
			if c.rng.IntN(3) == 0 {
				quota = 1 + c.rng.IntN(size+3)
			}
			maxSz := 1000
			if c.rng.IntN(5) == 0 {
				maxSz = c.rng.IntN(size + 2)
			}
			ops = append(ops, fmt.Sprintf("validate stream kind=0 size=%d chunks=%s unprep=%d fail=%d quota=%d max=%d", size, joinInts(ch), c.rng.IntN(2), fail, quota, maxSz))
		}
	}
	run(ops)
}
