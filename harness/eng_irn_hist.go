package main

import (
	"bytes"
	"encoding/hex"
	"errors"
	"fmt"
	"math/big"
	"math/rand/v2"
	"sort"
	"strings"

	"github.com/nspcc-dev/neo-go/pkg/core/transaction"
	"github.com/nspcc-dev/neo-go/pkg/crypto/hash"
	"github.com/nspcc-dev/neo-go/pkg/encoding/address"
	"github.com/nspcc-dev/neo-go/pkg/io"
	"github.com/nspcc-dev/neo-go/pkg/neorpc/result"
	"github.com/nspcc-dev/neo-go/pkg/network/payload"
	"github.com/nspcc-dev/neo-go/pkg/smartcontract/scparser"
	"github.com/nspcc-dev/neo-go/pkg/util"
	"github.com/nspcc-dev/neo-go/pkg/vm/emit"
	"github.com/nspcc-dev/neo-go/pkg/vm/stackitem"
	netmaprpc "github.com/nspcc-dev/neofs-contract/rpc/netmap"
	irnetmap "github.com/nspcc-dev/neofs-node/pkg/innerring/processors/netmap"
	"github.com/nspcc-dev/neofs-node/pkg/innerring/processors/netmap/nodevalidation"
	irlocode "github.com/nspcc-dev/neofs-node/pkg/innerring/processors/netmap/nodevalidation/locode"
	"github.com/nspcc-dev/neofs-node/pkg/innerring/processors/netmap/nodevalidation/privatedomains"
	statevalidation "github.com/nspcc-dev/neofs-node/pkg/innerring/processors/netmap/nodevalidation/state"
	"github.com/nspcc-dev/neofs-node/pkg/innerring/processors/netmap/nodevalidation/structure"
	cntClient "github.com/nspcc-dev/neofs-node/pkg/morph/client/container"
	nmClient "github.com/nspcc-dev/neofs-node/pkg/morph/client/netmap"
	"github.com/nspcc-dev/neofs-node/pkg/morph/event"
	netmapEvent "github.com/nspcc-dev/neofs-node/pkg/morph/event/netmap"
	"github.com/nspcc-dev/neofs-sdk-go/netmap"
)

// Histories of engine irn (C38): events against ONE netmap processor and ONE
// nodevalidation.CompositeValidator instance, both created by `hinit` and alive until the end of
// the sequence, like in the inner ring process. The same storage node keys announce themselves
// again and again with changing content between changes of the world the validators look at:
//
//	hnns    the NNS records of the verified-nodes domains (privatedomains validator, REAL code over a fake NNS)
//	hserve  what the storage node serves at its endpoints (availability: a fake that compares the WHOLE
//	        announced descriptor, apart from the state, with the served one, like compareNodeInfos)
//	hext    the external validator's policy (a fake judging the attribute values of the descriptor)
//	hchain  the contract's network map (read by the new epoch handler into the processor's snapshot)
//
// and epoch events (htick, hepoch, halpha) run on the same processor. state / structure / locode
// validators are the real ones. What must hold: the verdict on a candidate is a function of the
// candidate and of the world as it is NOW; nothing an earlier candidate did may change it.

type irnHist struct {
	vs        []int
	val       *nodevalidation.CompositeValidator
	proc      *irnetmap.Processor
	nns       map[string]bool // domain|record
	nnsDown   bool
	live      map[string]string // hex public key -> fingerprint of the served descriptor
	extDeny   map[string]bool   // attribute values rejected by the external validator
	chain     []int
	chainDown bool
	sync      int
	deposit   int
	placement int
}

var irnDomains = []string{"", "nodes.example", "other.example"}

const irnHistKeys = 5

func irnRecordOf(pub []byte) string {
	buf := io.NewBufBinWriter()
	emit.CheckSig(buf.BinWriter, pub)
	return "address=" + address.Uint160ToString(hash.Hash160(buf.Bytes()))
}

// the fake NNS of a history: the records set by the last hnns op
type irnHistNNS struct{ h *irnHist }

func (n irnHistNNS) CheckDomainRecord(domain, record string) error {
	if n.h.nnsDown {
		return errors.New("nns unavailable")
	}
	if n.h.nns[domain+"|"+record] {
		return nil
	}
	return fmt.Errorf("wrapped: %w", privatedomains.ErrMissingDomainRecord)
}

// canonical content of a descriptor apart from its state
func irnFingerprint(ni netmap.NodeInfo) string {
	var eps, attrs []string
	for e := range ni.NetworkEndpoints() {
		eps = append(eps, e)
	}
	for k, v := range ni.Attributes() {
		attrs = append(attrs, k+"="+v)
	}
	sort.Strings(attrs)
	return hex.EncodeToString(ni.PublicKey()) + "|" + strings.Join(eps, ",") + "|" + strings.Join(attrs, ",")
}

// availability: every announced endpoint answers with the announced information
type irnHistLive struct{ h *irnHist }

func (v irnHistLive) Verify(ni netmap.NodeInfo) error {
	if ni.NumberOfNetworkEndpoints() == 0 {
		return nil
	}
	served, ok := v.h.live[hex.EncodeToString(ni.PublicKey())]
	if !ok {
		return errors.New("could not ping node")
	}
	if served != irnFingerprint(ni) {
		return errors.New("EndpointInfo result differs")
	}
	return nil
}

// external validator: a policy over the announced attribute values
type irnHistExt struct{ h *irnHist }

func (v irnHistExt) Verify(ni netmap.NodeInfo) error {
	for _, k := range []string{"Price", "Capacity", "Tag"} {
		if val := ni.Attribute(k); val != "" && v.h.extDeny[val] {
			return errors.New("external validator: denied")
		}
	}
	return nil
}

func (h *irnHist) validator(i int) irnetmap.NodeValidator {
	switch i {
	case 0:
		return statevalidation.New()
	case 1:
		return structure.New()
	case 2:
		return irnHistLive{h}
	case 3:
		return privatedomains.New(irnHistNNS{h})
	case 4:
		return irlocode.New()
	case 5:
		return irnHistExt{h}
	}
	panic("bad validator index")
}

func (s *irnState) newHist(vs []int, alpha bool, counter uint64) *irnHist {
	h := &irnHist{vs: vs, nns: map[string]bool{}, live: map[string]string{}, extDeny: map[string]bool{}}
	var list []irnetmap.NodeValidator
	for pos, i := range vs {
		list = append(list, irnRec{s, pos, h.validator(i)})
	}
	h.val = nodevalidation.New(list...)
	if s.cnr == nil {
		var err error
		s.cnr, err = cntClient.NewFromMorph(s.fake.cli, util.Uint160{8, 8, 8})
		if err != nil {
			panic(err)
		}
	}
	if s.nmHist == nil {
		// like the inner ring's own netmap client: calls are made as alphabet notary requests
		var err error
		s.nmHist, err = nmClient.NewFromMorph(s.fake.cli, util.Uint160{9, 9, 9}, nmClient.AsAlphabet())
		if err != nil {
			panic(err)
		}
	}
	h.proc = irnetmap.VerifNewProcessorFull(s.nmHist, s.cnr, s, s, s, h.val,
		func(event.Event) { h.sync++ }, func(event.Event) { h.deposit++ })
	s.alpha = alpha
	s.counter.Store(counter)
	s.resets = 0
	return h
}

type irnCand struct {
	irnNode
	k, av, domIdx int
}

func irnParseCand(o opLine) (irnCand, bool) {
	for _, k := range []string{"k", "st", "addrs", "attrs", "av", "dom", "lc", "lck", "lcf"} {
		if _, ok := o.kv[k]; !ok {
			return irnCand{}, false
		}
	}
	c := irnCand{irnNode: irnParseNode(o), k: o.int("k"), av: o.int("av"), domIdx: o.int("dom")}
	seen := map[string]bool{}
	for _, a := range c.attrs {
		if seen[a] {
			return c, false
		}
		seen[a] = true
	}
	if c.st < 0 || c.st > 3 || len(c.lcf) != 6 || c.domIdx < 0 || c.domIdx > 2 || c.k < 1 || c.k > irnHistKeys {
		return c, false
	}
	for _, b := range append(append([]int{}, c.addrs...), c.lcf...) {
		if b != 0 && b != 1 {
			return c, false
		}
	}
	return c, true
}

// node2 is the contract structure of the candidate (what an AddNode request carries)
func (c irnCand) node2() netmaprpc.NetmapNode2 {
	var eps []string
	for i, ok := range c.addrs {
		if ok == 1 {
			eps = append(eps, fmt.Sprintf("/ip4/10.0.%d.%d/tcp/8080", c.k, i+1))
		} else {
			eps = append(eps, fmt.Sprintf("/ip4/10.0.%d.%d/udp/80", c.k, i+1))
		}
	}
	attrs := map[string]string{}
	for _, k := range c.attrs {
		attrs[k] = fmt.Sprintf("v%d", c.av)
	}
	for _, kv := range c.locodeAttrs() {
		attrs[kv[0]] = kv[1]
	}
	if c.domIdx > 0 {
		attrs["VerifiedNodesDomain"] = irnDomains[c.domIdx]
	}
	state := big.NewInt(0)
	switch c.st {
	case 1:
		state = netmaprpc.NodeStateOnline
	case 2:
		state = netmaprpc.NodeStateOffline
	case 3:
		state = netmaprpc.NodeStateMaintenance
	}
	return netmaprpc.NetmapNode2{Addresses: eps, Attributes: attrs, Key: ircKeys[c.k].PublicKey(), State: state}
}

// the served information is compared apart from the state
func (c irnCand) servedInfo() netmap.NodeInfo {
	c.st = 1
	n2 := c.node2()
	ni, err := netmapEvent.Node2Info(&n2)
	if err != nil {
		panic(err)
	}
	return ni
}

func irnKeyID(pub []byte) int {
	for i := 1; i <= irnHistKeys; i++ {
		if bytes.Equal(pub, ircPub(i)) {
			return i
		}
	}
	return 0
}

// chain answers of a history: the contract's node list, recorded epoch requests
func (s *irnState) histInvokeFunction(method string, args []irArg) ([]stackitem.Item, string) {
	h := s.hist
	switch method {
	case "newEpoch":
		if len(args) == 1 {
			s.reqs = append(s.reqs, int(args[0].int()))
		}
	case "listNodes":
		if h == nil || h.chainDown {
			return nil, "verif: network map is not available"
		}
		items := []stackitem.Item{}
		for _, k := range h.chain {
			n2 := netmaprpc.NetmapNode2{Addresses: []string{fmt.Sprintf("/ip4/10.0.%d.1/tcp/8080", k)}, Attributes: map[string]string{"Price": "v0"},
				Key: ircKeys[k].PublicKey(), State: netmaprpc.NodeStateOnline}
			it, err := n2.ToStackItem()
			if err != nil {
				panic(err)
			}
			items = append(items, it)
		}
		return []stackitem.Item{stackitem.NewInterop(result.Iterator{Values: items})}, ""
	}
	return nil, "verif: recorded " + method
}

// histIntercept sees the notary calls of the ONE client under the history processor by name: a
// contract method invoked as a notary request (NewEpoch of a tick) is recorded with its argument
// and is not an approval; NotarySignAndInvokeTX (approval of a storage node's request) goes on
// to the client, where it is counted.
func (s *irnState) histIntercept(method string, args ...any) (bool, any, error) {
	switch method {
	case "NotaryInvoke", "NotaryInvokeNotAlpha":
		if len(args) == 3 {
			if m, _ := args[1].(string); m == "newEpoch" {
				if a, _ := args[2].([]any); len(a) == 1 {
					if e, ok := a[0].(uint64); ok {
						s.reqs = append(s.reqs, int(e))
					}
				}
			} else {
				s.otherInvokes++
			}
		}
		return true, nil, errors.New("verif: notary invocation recorded")
	case "TestInvokeIterator":
		// the container list read by the placement update of the new epoch handler: no containers
		if len(args) == 3 && args[0] == (util.Uint160{8, 8, 8}) {
			if s.hist != nil {
				s.hist.placement++
			}
			return true, []stackitem.Item{}, nil
		}
	}
	return false, nil, nil
}

func (s *irnState) histInvokeScript(script []byte) bool {
	if _, method, _, args, err := scparser.ParseAppCallNonStrict(script); err == nil {
		switch method {
		case "newEpoch":
			if len(args) == 1 {
				if v, err := scparser.GetInt64FromInstr(args[0].Instruction); err == nil {
					s.reqs = append(s.reqs, int(v))
				}
			}
		}
		return false
	}
	s.scripts++
	return len(script) >= 2 && script[0] == 0xA8 && script[1] == 1
}

// irnHistRun executes one history op; ok=false: not a history op / malformed
func irnHistRun(c *runCtx, s *irnState, line string, o opLine, orc func(string, bool, string)) (obs string, ok bool) {
	h := s.hist
	epochObs := func() string {
		return fmt.Sprintf("=> req=%s counter=%d resets=%d", joinInts(s.reqs), s.counter.Load(), s.resets)
	}
	has := func(keys ...string) bool {
		for _, k := range keys {
			if _, ok := o.kv[k]; !ok {
				return false
			}
		}
		return true
	}
	switch o.name {
	case "hinit":
		if !has("vs", "alpha", "counter") {
			return "", false
		}
		for _, v := range o.ints("vs") {
			if v < 0 || v > 5 {
				return "", false
			}
		}
		s.hist = s.newHist(o.ints("vs"), o.flag("alpha"), o.u64("counter"))
		return epochObs(), true
	case "hnns":
		if !has("recs", "down") {
			return "", false
		}
		h.nns = map[string]bool{}
		for _, r := range o.ints("recs") {
			d, k := r/10, r%10
			if d >= 0 && d < len(irnDomains) && k >= 1 && k <= irnHistKeys {
				h.nns[irnDomains[d]+"|"+irnRecordOf(ircPub(k))] = true
			}
		}
		h.nnsDown = o.flag("down")
		return "=> ok", true
	case "hserve":
		if !has("k", "up") {
			return "", false
		}
		k := o.int("k")
		if !o.flag("up") {
			if k >= 1 && k <= irnHistKeys {
				delete(h.live, hex.EncodeToString(ircPub(k)))
			}
			return "=> ok", true
		}
		cand, good := irnParseCand(o)
		if !good {
			return "", false
		}
		h.live[hex.EncodeToString(ircPub(k))] = irnFingerprint(cand.servedInfo())
		return "=> ok", true
	case "hext":
		if !has("deny") {
			return "", false
		}
		h.extDeny = map[string]bool{}
		for _, v := range o.ints("deny") {
			h.extDeny[fmt.Sprintf("v%d", v)] = true
		}
		return "=> ok", true
	case "hchain":
		if !has("keys", "down") {
			return "", false
		}
		for _, k := range o.ints("keys") {
			if k < 1 || k > irnHistKeys {
				return "", false
			}
		}
		h.chain, h.chainDown = o.ints("keys"), o.flag("down")
		return "=> ok", true
	case "hadd":
		cand, good := irnParseCand(o)
		if !good || !has("halts") {
			return "", false
		}
		script := []byte{0xA8, 0}
		if o.flag("halts") {
			script[1] = 1
		}
		tx := transaction.New(script, 0)
		tx.Signers = []transaction.Signer{{}, {}}
		n2 := cand.node2()
		// the property's own reading, evaluated BEFORE the processor sees the candidate: every
		// configured validator, as a FRESH instance over the world as it is now, accepts the descriptor
		wantOK := false
		if ni, err := netmapEvent.Node2Info(&n2); err == nil {
			wantOK = true
			for _, i := range h.vs {
				if h.validator(i).Verify(ni) != nil {
					wantOK = false
				}
			}
		}
		h.proc.VerifProcessAddNode(netmapEvent.VerifNewAddNode(n2, &payload.P2PNotaryRequest{MainTransaction: tx}))
		by := "-"
		if s.failed >= 0 {
			by = fmt.Sprint(s.failed)
		}
		approved := s.fake.notaryCalls > 0
		if approved {
			c.nontrivial("hadd" + fmt.Sprint(cand.k, cand.st, cand.addrs, cand.attrs, cand.av, cand.domIdx, cand.lc, cand.lck, cand.lcf, h.vs))
		}
		c.count(fmt.Sprintf("hadd:approved=%v", approved))
		must := s.alpha && o.flag("halts") && wantOK
		orc("history:admitted-only-by-alphabet-with-valid-script-and-all-validators-accepting-now", !approved || must, line)
		orc("history:acceptable-candidate-is-admitted-whatever-was-announced-before", approved || !must, line)
		return fmt.Sprintf("=> notary=%d script=%d calls=%d by=%s", s.fake.notaryCalls, s.scripts, s.calls, by), true
	case "hupd":
		tx := transaction.New([]byte{0x40}, 0)
		tx.Signers = []transaction.Signer{{}, {}}
		h.proc.VerifProcessUpdatePeer(netmapEvent.VerifNewUpdatePeer(ircKeys[2].PublicKey(), &payload.P2PNotaryRequest{MainTransaction: tx}))
		orc("history:peer-update-approved-only-by-alphabet", s.fake.notaryCalls == 0 || s.alpha, line)
		return fmt.Sprintf("=> notary=%d", s.fake.notaryCalls), true
	case "htick":
		before := s.counter.Load()
		h.proc.VerifProcessNewEpochTick()
		if s.alpha {
			orc("history:alphabet-tick-requests-exactly-the-next-epoch-once", len(s.reqs) == 1 && s.reqs[0] == int(before)+1, line+" "+epochObs())
			c.nontrivial(fmt.Sprint(line, before))
		} else {
			orc("history:non-alphabet-tick-requests-nothing", len(s.reqs) == 0, line+" "+epochObs())
		}
		orc("history:tick-approves-nothing", s.fake.notaryCalls == 0 && s.otherInvokes == 0, line)
		return epochObs(), true
	case "halpha":
		if !has("b") {
			return "", false
		}
		s.alpha = o.flag("b")
		return epochObs(), true
	case "hepoch":
		if !has("e") {
			return "", false
		}
		h.sync, h.deposit, h.placement = 0, 0, 0
		h.proc.VerifProcessNewEpoch(netmapEvent.VerifNewEpoch(o.u64("e"), util.Uint256{1}))
		orc("history:notification-sets-the-epoch", s.counter.Load() == o.u64("e") && len(s.reqs) == 0 && s.fake.notaryCalls == 0, line+" "+epochObs())
		var keys []int
		for _, pub := range h.proc.VerifCurMapKeys() {
			keys = append(keys, irnKeyID(pub))
		}
		return fmt.Sprintf("%s placement=%d sync=%d deposit=%d map=%s", epochObs(), h.placement, h.sync, h.deposit, joinInts(keys)), true
	}
	return "", false
}

func irnIsHistOp(name string) bool {
	switch name {
	case "hinit", "hnns", "hserve", "hext", "hchain", "hadd", "hupd", "htick", "halpha", "hepoch":
		return true
	}
	return false
}

// ---- generation ----

type irnGenCand struct {
	st, av, dom int
	addrs       []int
	attrs       []string
	lc, lck     int
	lcf         []int
}

func (g irnGenCand) fields(k int) string {
	at := "-"
	if len(g.attrs) > 0 {
		at = strings.Join(g.attrs, ",")
	}
	return fmt.Sprintf("k=%d st=%d addrs=%s attrs=%s av=%d dom=%d lc=%d lck=%d lcf=%s", k, g.st, joinInts(g.addrs), at, g.av, g.dom, g.lc, g.lck, joinInts(g.lcf))
}

func (g irnGenCand) clone() irnGenCand {
	g.addrs = append([]int(nil), g.addrs...)
	g.attrs = append([]string(nil), g.attrs...)
	g.lcf = append([]int(nil), g.lcf...)
	return g
}

// irnGenHistory: 2..3 storage nodes keep announcing themselves; most of the time a node announces what it
// serves and is entitled to (approved), sometimes it changes ONE thing (state, endpoint, attribute set or value,
// verified domain, locode) with or without restarting with the new content, sometimes the world changes under
// it (NNS record removed, node stops answering, external policy) - approvals and rejections of the SAME key alternate.
func irnGenHistory(r *rand.Rand) []string {
	flip := func(p int) int {
		if r.IntN(p) == 0 {
			return 0
		}
		return 1
	}
	vs := []int{0, 1, 2, 3, 4}
	if r.IntN(2) == 0 {
		vs = append(vs, 5)
	}
	switch r.IntN(6) {
	case 0:
		r.Shuffle(len(vs), func(i, j int) { vs[i], vs[j] = vs[j], vs[i] })
	case 1:
		var sub []int
		for _, v := range vs {
			if r.IntN(4) != 0 {
				sub = append(sub, v)
			}
		}
		vs = sub
	}
	cur := r.IntN(10)
	hist := []string{fmt.Sprintf("irn hinit vs=%s alpha=%d counter=%d", joinInts(vs), flip(10), cur)}
	nk := 2 + r.IntN(2)
	base := map[int]irnGenCand{}
	recs := map[int]bool{}
	nnsDown := 0
	emitNNS := func() {
		var l []int
		for rec := range recs {
			l = append(l, rec)
		}
		sort.Ints(l)
		hist = append(hist, fmt.Sprintf("irn hnns recs=%s down=%d", joinInts(l), nnsDown))
	}
	for k := 1; k <= nk; k++ {
		g := irnGenCand{st: []int{1, 1, 3}[r.IntN(3)], av: r.IntN(3), dom: r.IntN(3), lc: r.IntN(2), lck: 1, lcf: []int{1, 1, 1, 1, 1, 1}}
		for n := r.IntN(3); n > 0; n-- {
			g.addrs = append(g.addrs, 1)
		}
		for _, a := range []string{"Price", "Capacity", "Tag"} {
			if r.IntN(2) == 0 {
				g.attrs = append(g.attrs, a)
			}
		}
		base[k] = g
		if g.dom > 0 && r.IntN(6) != 0 {
			recs[g.dom*10+k] = true
		}
		if r.IntN(8) != 0 {
			hist = append(hist, "irn hserve up=1 "+g.fields(k))
		}
	}
	emitNNS()
	mutate := func(g irnGenCand) irnGenCand {
		g = g.clone()
		switch r.IntN(9) {
		case 0:
			g.st = []int{2, 0, 1, 3}[r.IntN(4)]
		case 1:
			g.addrs = append(g.addrs, flip(2))
		case 2:
			if len(g.addrs) > 0 {
				g.addrs[r.IntN(len(g.addrs))] = 0
			} else {
				g.addrs = []int{1}
			}
		case 3:
			g.av = (g.av + 1 + r.IntN(2)) % 3
		case 4:
			g.dom = (g.dom + 1 + r.IntN(2)) % 3
		case 5:
			g.lc, g.lck = 1, flip(2)
		case 6:
			g.lc = 1
			g.lcf[r.IntN(6)] = 0
		case 7:
			all := []string{"Price", "Capacity", "Tag"}
			g.attrs = nil
			for _, a := range all {
				if r.IntN(2) == 0 {
					g.attrs = append(g.attrs, a)
				}
			}
		case 8:
			g.lc = 1 - g.lc
		}
		return g
	}
	var chain []int
	for n := 8 + r.IntN(17); n > 0; n-- {
		k := 1 + r.IntN(nk)
		switch x := r.IntN(100); {
		case x < 50: // (re-)announcement
			g := base[k]
			if r.IntN(3) == 0 {
				g = mutate(g)
				if r.IntN(3) == 0 { // the node really restarted with the new content
					base[k] = g
					hist = append(hist, "irn hserve up=1 "+g.fields(k))
				}
			}
			hist = append(hist, fmt.Sprintf("irn hadd halts=%d %s", flip(12), g.fields(k)))
		case x < 58:
			if r.IntN(3) == 0 {
				hist = append(hist, fmt.Sprintf("irn hserve k=%d up=0", k))
			} else {
				g := base[k]
				if r.IntN(3) == 0 {
					g = mutate(g)
				}
				hist = append(hist, "irn hserve up=1 "+g.fields(k))
			}
		case x < 66:
			rec := (1+r.IntN(2))*10 + k
			if d := base[k].dom; d > 0 && r.IntN(2) == 0 {
				rec = d*10 + k
			}
			if recs[rec] {
				delete(recs, rec)
			} else {
				recs[rec] = true
			}
			nnsDown = 1 - flip(8)
			emitNNS()
		case x < 71:
			var deny []int
			for v := 0; v < 3; v++ {
				if r.IntN(3) == 0 {
					deny = append(deny, v)
				}
			}
			hist = append(hist, "irn hext deny="+joinInts(deny))
		case x < 77:
			chain = nil
			for q := 1; q <= nk; q++ {
				if r.IntN(2) == 0 {
					chain = append(chain, q)
				}
			}
			if r.IntN(4) == 0 {
				r.Shuffle(len(chain), func(i, j int) { chain[i], chain[j] = chain[j], chain[i] })
			}
			hist = append(hist, fmt.Sprintf("irn hchain keys=%s down=%d", joinInts(chain), 1-flip(6)))
		case x < 85:
			e := cur + 1
			if r.IntN(4) == 0 {
				e = r.IntN(14)
			}
			cur = e
			hist = append(hist, fmt.Sprintf("irn hepoch e=%d", e))
		case x < 93:
			hist = append(hist, "irn htick")
		case x < 97:
			hist = append(hist, fmt.Sprintf("irn halpha b=%d", flip(3)))
		default:
			hist = append(hist, "irn hupd")
		}
	}
	return hist
}
