package main

import (
	"fmt"
	"strconv"
	"strings"
	"sync"
	"time"

	"github.com/nspcc-dev/neofs-node/pkg/timers"
)

func init() {
	engines["timers"] = seqRunner{gen: timersGen, exec: timersExec}.engine()
}

var timerFracs = [][2]uint32{{1, 2}, {1, 1}, {3, 2}, {0, 1}, {2, 3}}

// timersOverlapWait bounds how long a handler waits for the call it started in another goroutine. On the unchanged
// code the call is blocked by the timers' mutex until the handler (and the whole UpdateTime) returns, so every
// started overlap costs exactly this long.
const timersOverlapWait = 2 * time.Millisecond

var timersSites = []string{"e0", "e1", "d0", "d1", "d2", "d3", "d4"}

func timersGen(c *runCtx, run func([]string)) {
	evs := []string{}
	for _, lt := range []int{0, 2} {
		for _, dur := range []int{0, 4, 6} {
			evs = append(evs, fmt.Sprintf("timers reset lt=%d dur=%d", lt, dur))
		}
	}
	for t := 0; t <= 8; t++ {
		evs = append(evs, fmt.Sprintf("timers update t=%d", t))
	}
	// all histories up to a small length
	maxLen := 3
	if c.thorough() {
		maxLen = 5
	}
	var rec func(prefix []string, depth int)
	rec = func(prefix []string, depth int) {
		if depth > 0 {
			run(append([]string{"timers new"}, prefix...))
		}
		if depth == maxLen {
			return
		}
		for _, e := range evs {
			rec(append(prefix[:len(prefix):len(prefix)], e), depth+1)
		}
	}
	rec(nil, 0)
	// seeded longer histories, incl. large values near the uint64 range
	for i := 0; i < c.n(1500, 60000); i++ {
		ops := []string{"timers new"}
		n := 4 + c.rng.IntN(14)
		base := uint64(0)
		if c.rng.IntN(10) == 0 {
			base = 1<<64 - 40
		}
		for j := 0; j < n; j++ {
			if c.rng.IntN(4) == 0 {
				ops = append(ops, fmt.Sprintf("timers reset lt=%d dur=%d", base+uint64(c.rng.IntN(12)), c.rng.IntN(14)))
			} else {
				ops = append(ops, fmt.Sprintf("timers update t=%d", base+uint64(c.rng.IntN(30))))
			}
		}
		run(ops)
	}
	// calls overlapping a running UpdateTime: every site x {Reset, UpdateTime with the same time, with a later time}
	// right at the deadline of a small epoch, followed by the block times that show whether the re-arm survived
	for _, site := range timersSites {
		for _, call := range []string{"call=reset lt=6 dur=4", "call=reset lt=6 dur=0", "call=update t2=6", "call=update t2=9", "call=update t2=2"} {
			for _, t := range []int{3, 6} {
				run([]string{"timers new", "timers reset lt=0 dur=6",
					fmt.Sprintf("timers update t=%d in=%s %s", t, site, call),
					"timers update t=6", "timers update t=8", "timers update t=10", "timers update t=12"})
			}
		}
	}
	// seeded histories mixing atomic and overlapped calls
	for i := 0; i < c.n(250, 10000); i++ {
		ops := []string{"timers new"}
		n := 4 + c.rng.IntN(10)
		for j := 0; j < n; j++ {
			switch k := c.rng.IntN(10); {
			case k < 2:
				ops = append(ops, fmt.Sprintf("timers reset lt=%d dur=%d", c.rng.IntN(12), c.rng.IntN(14)))
			case k < 6:
				ops = append(ops, fmt.Sprintf("timers update t=%d", c.rng.IntN(30)))
			default:
				site := timersSites[c.rng.IntN(len(timersSites))]
				t := c.rng.IntN(30)
				if c.rng.IntN(2) == 0 {
					ops = append(ops, fmt.Sprintf("timers update t=%d in=%s call=reset lt=%d dur=%d", t, site, t+c.rng.IntN(3), c.rng.IntN(14)))
				} else {
					t2 := t
					if c.rng.IntN(3) == 0 {
						t2 = c.rng.IntN(30)
					}
					ops = append(ops, fmt.Sprintf("timers update t=%d in=%s call=update t2=%d", t, site, t2))
				}
			}
		}
		run(ops)
	}
}

// timersAtom is one atomic call of the linearised history the oracle follows.
type timersAtom struct {
	reset       bool
	lt, dur, at uint64 // reset: lt, dur; update: at
}

func timersExec(c *runCtx, ops []string) {
	var et *timers.EpochTimers
	var mu sync.Mutex // the counters: handlers may run in two goroutines when calls overlap
	var eFired int
	dFired := make([]int, len(timerFracs))
	// an overlapped call requested by the current op: handler `in` starts it in another goroutine when it runs
	type overlap struct {
		in   string
		call func()
	}
	var req *overlap
	var pending chan struct{}
	var inside bool
	handler := func(name string, bump func()) timers.Tick {
		return func() {
			mu.Lock()
			bump()
			r := req
			if r != nil && r.in == name {
				req = nil
			} else {
				r = nil
			}
			mu.Unlock()
			if r == nil {
				return
			}
			started, done := make(chan struct{}), make(chan struct{})
			go func() {
				close(started)
				r.call()
				close(done)
			}()
			<-started
			fin := false
			select {
			case <-done:
				fin = true
			case <-time.After(timersOverlapWait):
			}
			mu.Lock()
			pending, inside = done, fin
			mu.Unlock()
		}
	}
	mkTimers := func(fracs [][2]uint32) {
		var tt timers.EpochTicks
		tt.NewEpochTicks = []timers.Tick{handler("e0", func() { eFired++ }), handler("e1", func() { eFired++ })}
		for i, f := range fracs {
			tt.DeltaTicks = append(tt.DeltaTicks, timers.SubEpochTick{Tick: handler(fmt.Sprintf("d%d", i), func() { dFired[i]++ }), EpochMul: f[0], EpochDiv: f[1]})
		}
		et = timers.NewTimers(tt)
	}
	nFracs := 0
	// oracle state, from the property text
	type sched struct {
		active bool
		at     uint64
		fired  bool
	}
	var eS sched
	dS := make([]sched, len(timerFracs))
	// follow one atomic call; returns per handler how often it must fire (-1: nothing is claimed, e.g. uint64 overflow
	// of the schedule or a fraction above one)
	follow := func(a timersAtom, wantE *int, wantD []int) {
		if a.reset {
			overflow := a.lt+a.dur < a.lt
			eS = sched{active: !overflow, at: a.lt + a.dur}
			for i, f := range timerFracs {
				dS[i] = sched{active: !overflow && f[0] <= f[1], at: a.lt + a.dur*uint64(f[0])/uint64(f[1])}
			}
			return
		}
		one := func(s *sched, want *int) {
			if !s.active {
				*want = -1
				return
			}
			if !s.fired && s.at <= a.at {
				s.fired = true
				if *want >= 0 {
					*want++
				}
			}
		}
		one(&eS, wantE)
		for i := range dS {
			one(&dS[i], &wantD[i])
		}
	}
	for _, line := range ops {
		o := parseOp(line)
		c.count(o.name)
		if et == nil && o.name != "new" {
			mkTimers(nil) // a history that does not start with `new` (shrinking): timers without sub-epoch handlers
			nFracs = 0
		}
		switch o.name {
		case "new":
			mkTimers(timerFracs)
			nFracs = len(timerFracs)
			c.emit(line, "=> ok")
		case "reset":
			lt, dur := o.u64("lt"), o.u64("dur")
			et.Reset(lt, dur)
			c.emit(line, "=> ok")
			follow(timersAtom{reset: true, lt: lt, dur: dur}, nil, nil)
		case "update":
			t := o.u64("t")
			site, overlapped := o.kv["in"]
			var call timersAtom
			if overlapped {
				ok := false
				for _, s := range timersSites {
					ok = ok || s == site
				}
				switch o.kv["call"] {
				case "reset":
					call = timersAtom{reset: true, lt: o.u64("lt"), dur: o.u64("dur")}
				case "update":
					call = timersAtom{at: o.u64("t2")}
				default:
					ok = false
				}
				if !ok {
					c.emit(line, "=> bad-op")
					continue
				}
			}
			mu.Lock()
			eFired = 0
			for i := range dFired {
				dFired[i] = 0
			}
			pending, inside, req = nil, false, nil
			if overlapped {
				tm := et
				if call.reset {
					req = &overlap{in: site, call: func() { tm.Reset(call.lt, call.dur) }}
				} else {
					req = &overlap{in: site, call: func() { tm.UpdateTime(call.at) }}
				}
				c.count("update:overlapped:" + o.kv["call"])
			}
			mu.Unlock()
			et.UpdateTime(t)
			mu.Lock()
			p := pending
			req = nil
			mu.Unlock()
			stuck := false
			if p != nil {
				select {
				case <-p:
				case <-time.After(10 * time.Second):
					stuck = true
				}
			}
			mu.Lock()
			e, ds := eFired, append([]int(nil), dFired[:nFracs]...)
			fin := inside
			mu.Unlock()
			var dss []string
			for _, d := range ds {
				dss = append(dss, strconv.Itoa(d))
			}
			obs := fmt.Sprintf("=> ok e=%d d=%s", e/2, strings.Join(dss, ","))
			if overlapped {
				started := 0
				if p != nil {
					started = 1
					c.count("update:overlapped:started")
					if fin {
						c.count("update:overlapped:completed-while-the-handler-ran")
					}
				}
				obs += fmt.Sprintf(" started=%d", started)
				if stuck {
					obs = "=> stuck"
				}
			}
			c.emit(line, obs)
			// the property's oracle over the linearised history: this UpdateTime, then the overlapped call (if made)
			wantE, wantD := 0, make([]int, len(timerFracs))
			atE, atD := eS.at, make([]uint64, len(timerFracs)) // the schedules this UpdateTime works with
			for i := range dS {
				atD[i] = dS[i].at
			}
			follow(timersAtom{at: t}, &wantE, wantD)
			what := fmt.Sprintf("block time %d", t)
			if p != nil {
				follow(call, &wantE, wantD)
				if call.reset {
					what += fmt.Sprintf(" with Reset(%d,%d) issued while handler %s ran", call.lt, call.dur, site)
				} else {
					what += fmt.Sprintf(" with UpdateTime(%d) issued while handler %s ran", call.at, site)
				}
			}
			c.oracle("all-new-epoch-handlers-fire-together", e%2 == 0, fmt.Sprintf("%s: fired %d handler calls of 2 handlers", what, e))
			c.oracle("overlapped-call-returns", !stuck, what+": the overlapped call did not return within 10s")
			if wantE >= 0 {
				c.oracle("new-epoch-fires-exactly-once-at-its-time", e/2 == wantE,
					fmt.Sprintf("new-epoch scheduled at %d, %s: fired %d times, want %d", atE, what, e/2, wantE))
			}
			for i := 0; i < nFracs; i++ {
				if wantD[i] >= 0 {
					name := fmt.Sprintf("sub-epoch-%d/%d", timerFracs[i][0], timerFracs[i][1])
					c.oracle(name+"-fires-exactly-once-at-its-time", ds[i] == wantD[i],
						fmt.Sprintf("%s scheduled at %d, %s: fired %d times, want %d", name, atD[i], what, ds[i], wantD[i]))
				}
			}
		default:
			c.emit(line, "=> bad-op")
		}
	}
	if len(ops) > 3 {
		c.nontrivial(strings.Join(ops, ";"))
	}
}
