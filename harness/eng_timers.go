package main

import (
	"fmt"
	"strconv"
	"strings"

	"github.com/nspcc-dev/neofs-node/pkg/timers"
)

func init() {
	engines["timers"] = seqRunner{gen: timersGen, exec: timersExec}.engine()
}

var timerFracs = [][2]uint32{{1, 2}, {1, 1}, {3, 2}, {0, 1}, {2, 3}}

func timersGen(c *runCtx, run func([]string)) {
	evs := []string{}
	for _, lt := range []int{0, 2} {
		for _, dur := range []int{0, 4, 6} {
			evs = append(evs, fmt.Sprintf("timers reset lt=%d dur=%d", lt, dur))
		}
	}
	for t := 0; t <= 8; t++ {
		evs = append(evs, fmt.Sprintf("timers update t=%d", t))
	}
	// all histories up to a small length
	maxLen := 3
	if c.thorough() {
		maxLen = 5
	}
	var rec func(prefix []string, depth int)
	rec = func(prefix []string, depth int) {
		if depth > 0 {
			run(append([]string{"timers new"}, prefix...))
		}
		if depth == maxLen {
			return
		}
		for _, e := range evs {
			rec(append(prefix[:len(prefix):len(prefix)], e), depth+1)
		}
	}
	rec(nil, 0)
	// seeded longer histories, incl. large values near the uint64 range
	for i := 0; i < c.n(1500, 60000); i++ {
		ops := []string{"timers new"}
		n := 4 + c.rng.IntN(14)
		base := uint64(0)
		if c.rng.IntN(10) == 0 {
			base = 1<<64 - 40
		}
		for j := 0; j < n; j++ {
			if c.rng.IntN(4) == 0 {
				ops = append(ops, fmt.Sprintf("timers reset lt=%d dur=%d", base+uint64(c.rng.IntN(12)), c.rng.IntN(14)))
			} else {
				ops = append(ops, fmt.Sprintf("timers update t=%d", base+uint64(c.rng.IntN(30))))
			}
		}
		run(ops)
	}
}

func timersExec(c *runCtx, ops []string) {
	var et *timers.EpochTimers
	var eFired int
	dFired := make([]int, len(timerFracs))
	// oracle state, from the property text
	type sched struct {
		active bool
		at     uint64
		fired  bool
	}
	var eS sched
	dS := make([]sched, len(timerFracs))
	for _, line := range ops {
		o := parseOp(line)
		c.count(o.name)
		switch o.name {
		case "new":
			var tt timers.EpochTicks
			tt.NewEpochTicks = []timers.Tick{func() { eFired++ }, func() { eFired++ }}
			for i, f := range timerFracs {
				tt.DeltaTicks = append(tt.DeltaTicks, timers.SubEpochTick{Tick: func() { dFired[i]++ }, EpochMul: f[0], EpochDiv: f[1]})
			}
			et = timers.NewTimers(tt)
			c.emit(line, "=> ok")
		case "reset":
			lt, dur := o.u64("lt"), o.u64("dur")
			et.Reset(lt, dur)
			c.emit(line, "=> ok")
			overflow := lt+dur < lt
			eS = sched{active: !overflow, at: lt + dur}
			for i, f := range timerFracs {
				dS[i] = sched{active: !overflow && f[0] <= f[1], at: lt + dur*uint64(f[0])/uint64(f[1])}
			}
		case "update":
			t := o.u64("t")
			eFired = 0
			for i := range dFired {
				dFired[i] = 0
			}
			et.UpdateTime(t)
			var ds []string
			for _, d := range dFired {
				ds = append(ds, strconv.Itoa(d))
			}
			c.emit(line, fmt.Sprintf("=> ok e=%d d=%s", eFired/2, strings.Join(ds, ",")))
			chk := func(name string, s *sched, fired int) {
				if !s.active {
					return
				}
				want := 0
				if !s.fired && s.at <= t {
					want = 1
					s.fired = true
				}
				c.oracle(name+"-fires-exactly-once-at-its-time", fired == want,
					fmt.Sprintf("%s scheduled at %d, block time %d: fired %d times, want %d", name, s.at, t, fired, want))
			}
			c.oracle("all-new-epoch-handlers-fire-together", eFired == 0 || eFired == 2, fmt.Sprintf("fired %d of 2", eFired))
			chk("new-epoch", &eS, eFired/2)
			for i := range dS {
				chk(fmt.Sprintf("sub-epoch-%d/%d", timerFracs[i][0], timerFracs[i][1]), &dS[i], dFired[i])
			}
		default:
			c.emit(line, "=> bad-op")
		}
	}
	if len(ops) > 3 {
		c.nontrivial(strings.Join(ops, ";"))
	}
}
