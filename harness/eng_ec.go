package main

import (
	"fmt"

	"github.com/nspcc-dev/neofs-node/pkg/util/verifbridge"
)

func init() {
	engines["ec"] = seqRunner{gen: ecGen, exec: ecExec}.engine()
}

func ecGen(c *runCtx, run func([]string)) {
	switch c.prop {
	case "C22":
		ecGenNodeSeq(c, run)
	case "C21":
		ecGenCoding(c, run)
	default:
		ecGenNodeSeq(c, run)
		ecGenCoding(c, run)
	}
}

// ecGenNodeSeq enumerates (part, total, nodes) triples: the whole domain of the
// property's quantifier text in the thorough tier, a dense corner of it plus a
// seeded sample of the rest in the quick tier.
func ecGenNodeSeq(c *runCtx, run func([]string)) {
	maxT, maxN := 10, 36
	if c.thorough() {
		maxT, maxN = 32, 128
	}
	var ops []string
	for total := 1; total <= maxT; total++ {
		for part := 0; part < total; part++ {
			for nodes := 0; nodes <= maxN; nodes++ {
				ops = append(ops, fmt.Sprintf("ec nodeseq part=%d total=%d nodes=%d", part, total, nodes))
			}
		}
	}
	if !c.thorough() {
		for i := 0; i < c.n(3000, 0); i++ {
			total := 1 + c.rng.IntN(32)
			ops = append(ops, fmt.Sprintf("ec nodeseq part=%d total=%d nodes=%d", c.rng.IntN(total), total, c.rng.IntN(129)))
		}
	}
	// degenerate inputs the code accepts: no parts at all
	for nodes := 0; nodes <= 3; nodes++ {
		ops = append(ops, fmt.Sprintf("ec nodeseq part=0 total=0 nodes=%d", nodes))
	}
	run(ops)
}

func ecExec(c *runCtx, ops []string) {
	c.independent = true
	for _, line := range ops {
		o := parseOp(line)
		switch o.name {
		case "nodeseq":
			ecExecNodeSeq(c, line, o)
		default:
			ecExecCoding(c, line, o)
		}
	}
}

func ecExecNodeSeq(c *runCtx, line string, o opLine) {
	part, total, nodes := o.int("part"), o.int("total"), o.int("nodes")
	var seq []int
	for i := range verifbridge.ECNodeSequenceForPart(part, total, nodes) {
		seq = append(seq, i)
		if len(seq) > 4*nodes+8 { // a broken iterator must not hang the run
			break
		}
	}
	c.emit(line, "=> ok seq="+joinInts(seq))
	c.count("nodeseq")
	if total >= 1 {
		// property oracle, written from the statement
		seen := make([]int, nodes)
		okRange := true
		for _, i := range seq {
			if i < 0 || i >= nodes {
				okRange = false
				break
			}
			seen[i]++
		}
		once := okRange && len(seq) == nodes
		for _, n := range seen {
			if n != 1 {
				once = false
			}
		}
		c.oracle("each-node-once", once, fmt.Sprintf("part=%d total=%d nodes=%d seq=%v", part, total, nodes, seq))
		if nodes >= total {
			c.oracle("part-starts-at-own-index", len(seq) > 0 && seq[0] == part, fmt.Sprintf("part=%d total=%d nodes=%d seq=%v", part, total, nodes, seq))
		}
		if nodes > total && total > 1 {
			c.nontrivial(fmt.Sprintf("%d/%d/%d", part, total, nodes))
		}
	}
}

func ecGenCoding(c *runCtx, run func([]string)) {}

func ecExecCoding(c *runCtx, line string, o opLine) {
	c.emit(line, "=> bad-op")
}
