package main

import (
	"bytes"
	"crypto/sha256"
	"encoding/hex"
	"fmt"
	"hash/fnv"
	"strings"
	"unsafe"

	putsvc "github.com/nspcc-dev/neofs-node/pkg/services/object/put"

	"github.com/nspcc-dev/neofs-node/pkg/util/verifbridge"
)

func init() {
	engines["ec"] = seqRunner{gen: ecGen, exec: ecExec}.engine()
}

func ecGen(c *runCtx, run func([]string)) {
	switch c.prop {
	case "C22":
		ecGenNodeSeq(c, run)
	case "C21":
		ecGenCoding(c, run)
	default:
		ecGenNodeSeq(c, run)
		ecGenCoding(c, run)
	}
}

// ecGenNodeSeq enumerates (part, total, nodes) triples: the whole domain of the
// property's quantifier text in the thorough tier, a dense corner of it plus a
// seeded sample of the rest in the quick tier.
func ecGenNodeSeq(c *runCtx, run func([]string)) {
	maxT, maxN := 10, 36
	if c.thorough() {
		maxT, maxN = 32, 128
	}
	var ops []string
	for total := 1; total <= maxT; total++ {
		for part := 0; part < total; part++ {
			for nodes := 0; nodes <= maxN; nodes++ {
				ops = append(ops, fmt.Sprintf("ec nodeseq part=%d total=%d nodes=%d", part, total, nodes))
			}
		}
	}
	if !c.thorough() {
		for i := 0; i < c.n(3000, 0); i++ {
			total := 1 + c.rng.IntN(32)
			ops = append(ops, fmt.Sprintf("ec nodeseq part=%d total=%d nodes=%d", c.rng.IntN(total), total, c.rng.IntN(129)))
		}
	}
	// degenerate inputs the code accepts: no parts at all
	for nodes := 0; nodes <= 3; nodes++ {
		ops = append(ops, fmt.Sprintf("ec nodeseq part=0 total=0 nodes=%d", nodes))
	}
	run(ops)
}

func ecExec(c *runCtx, ops []string) {
	c.independent = true
	for _, line := range ops {
		o := parseOp(line)
		switch o.name {
		case "nodeseq":
			ecExecNodeSeq(c, line, o)
		default:
			ecExecCoding(c, line, o)
		}
	}
}

func ecExecNodeSeq(c *runCtx, line string, o opLine) {
	part, total, nodes := o.int("part"), o.int("total"), o.int("nodes")
	var seq []int
	for i := range verifbridge.ECNodeSequenceForPart(part, total, nodes) {
		seq = append(seq, i)
		if len(seq) > 4*nodes+8 { // a broken iterator must not hang the run
			break
		}
	}
	c.emit(line, "=> ok seq="+joinInts(seq))
	c.count("nodeseq")
	if total >= 1 {
		// property oracle, written from the statement
		seen := make([]int, nodes)
		okRange := true
		for _, i := range seq {
			if i < 0 || i >= nodes {
				okRange = false
				break
			}
			seen[i]++
		}
		once := okRange && len(seq) == nodes
		for _, n := range seen {
			if n != 1 {
				once = false
			}
		}
		c.oracle("each-node-once", once, fmt.Sprintf("part=%d total=%d nodes=%d seq=%v", part, total, nodes, seq))
		if nodes >= total {
			c.oracle("part-starts-at-own-index", len(seq) > 0 && seq[0] == part, fmt.Sprintf("part=%d total=%d nodes=%d seq=%v", part, total, nodes, seq))
		}
		if nodes > total && total > 1 {
			c.nontrivial(fmt.Sprintf("%d/%d/%d", part, total, nodes))
		}
	}
}

func ecGenCoding(c *runCtx, run func([]string)) {
	var ops []string
	maxD, maxP := 5, 3
	lens := []int{0, 1, 2, 3, 5, 8, 16, 17, 100, 255, 256, 1000, 1023, 1024, 1025, 4096}
	if c.thorough() {
		maxD, maxP = 8, 4
	}
	for d := 1; d <= maxD; d++ {
		for p := 0; p <= maxP; p++ {
			n := d + p
			for _, ln := range lens {
				seed := c.rng.IntN(250)
				// every erasure pattern of at most p parts for small rules, plus too-many-erased patterns
				var pats [][]int
				if n <= 8 {
					for k := 0; k <= p+1 && k <= n; k++ {
						pats = append(pats, subsetsOfSize(n, k)...)
					}
				}
				if len(pats) > 60 && !c.thorough() {
					c.rng.Shuffle(len(pats), func(i, j int) { pats[i], pats[j] = pats[j], pats[i] })
					pats = pats[:60]
				}
				for _, er := range pats {
					ops = append(ops, fmt.Sprintf("ec code d=%d p=%d len=%d seed=%d erase=%s", d, p, ln, seed, joinInts(er)))
				}
				// partial reconstruction
				for t := 0; t < 3; t++ {
					present, required := make([]int, 0), make([]int, 0)
					for i := 0; i < n; i++ {
						if c.rng.IntN(4) != 0 {
							present = append(present, i)
						}
						if c.rng.IntN(3) == 0 {
							required = append(required, i)
						}
					}
					ops = append(ops, fmt.Sprintf("ec recon d=%d p=%d len=%d seed=%d present=%s required=%s", d, p, ln, seed, joinInts(present), joinInts(required)))
				}
				// DecodeRange: a window of parts with exactly one part missing, at every position of the window
				// (first, inside, LAST) - the get service calls it with the failed part first
				if ln > 0 && p > 0 {
					for t := 0; t < 3; t++ {
						fr := c.rng.IntN(n)
						to := fr + c.rng.IntN(n-fr)
						miss := []int{fr, to, fr + (to-fr)/2}[t]
						var present []int
						for i := 0; i < n; i++ {
							if i != miss {
								present = append(present, i)
							}
						}
						ops = append(ops, fmt.Sprintf("ec rrange d=%d p=%d len=%d seed=%d present=%s from=%d to=%d", d, p, ln, seed, joinInts(present), fr, to))
					}
				}
				// memory layout of Split for several capacities
				for _, extra := range []int{0, 1, ln / 2, ln, 3 * ln, 1024} {
					ops = append(ops, fmt.Sprintf("ec layout d=%d p=%d len=%d cap=%d", d, p, ln, ln+extra))
				}
			}
		}
	}
	// several rules from one pooled buffer
	for i := 0; i < c.n(400, 6000); i++ {
		k := 1 + c.rng.IntN(4)
		rules := ""
		for j := 0; j < k; j++ {
			if j > 0 {
				rules += ","
			}
			rules += fmt.Sprintf("%d/%d", 1+c.rng.IntN(6), c.rng.IntN(4))
		}
		ln := []int{0, 1, 7, 64, 500, 1000, 1023, 1024, 1025, 3000}[c.rng.IntN(10)]
		if c.rng.IntN(3) == 0 {
			ln = c.rng.IntN(1100)
		}
		ops = append(ops, fmt.Sprintf("ec multi rules=%s len=%d seed=%d", rules, ln, c.rng.IntN(250)))
	}
	run(ops)
}

func fnv32(b []byte) uint32 {
	h := fnv.New32a()
	h.Write(b)
	return h.Sum32()
}

func ecExecCoding(c *runCtx, line string, o opLine) {
	c.count(o.name)
	switch o.name {
	case "code", "recon", "rrange":
		d, p, ln, seed := o.int("d"), o.int("p"), o.int("len"), o.int("seed")
		rule := verifbridge.ECRule{DataPartNum: uint8(d), ParityPartNum: uint8(p)}
		payload := detPayload(ln, seed)
		parts, sums, err := verifbridge.ECEncode(rule, append([]byte(nil), payload...))
		if err != nil {
			c.emit(line, "=> err encode")
			return
		}
		sz := 0
		eq := true
		for i, pt := range parts {
			if i == 0 {
				sz = len(pt)
			}
			eq = eq && len(pt) == sz
			sum := sha256.Sum256(pt)
			c.oracle("announced-hash-matches-part", hex.EncodeToString(sum[:]) == sums[i], fmt.Sprintf("rule %d/%d len %d part %d", d, p, ln, i))
		}
		c.oracle("parts-have-equal-length", eq && len(parts) == d+p, fmt.Sprintf("rule %d/%d len %d", d, p, ln))
		concat := verifbridge.ECConcatDataParts(rule, uint64(ln), parts)
		c.oracle("data-parts-concatenate-to-payload", bytes.Equal(concat, payload) || (ln == 0 && len(concat) == 0), fmt.Sprintf("rule %d/%d len %d", d, p, ln))
		orig := make([][]byte, len(parts))
		for i := range parts {
			orig[i] = append([]byte(nil), parts[i]...)
		}
		if o.name == "code" {
			er := o.ints("erase")
			for _, i := range er {
				parts[i] = nil
			}
			got, err := verifbridge.ECDecode(rule, uint64(ln), parts)
			desc := fmt.Sprintf("rule %d/%d len %d erased %v", d, p, ln, er)
			if err != nil {
				c.emit(line, fmt.Sprintf("=> ok n=%d sz=%d decode=err", len(orig), sz))
				if ln > 0 {
					c.oracle("any-d-parts-decode-to-payload", len(er) > p, desc+": "+err.Error())
				}
				return
			}
			c.emit(line, fmt.Sprintf("=> ok n=%d sz=%d decode=%d", len(orig), sz, fnv32(got)))
			c.oracle("any-d-parts-decode-to-payload", bytes.Equal(got, payload), desc)
			if len(er) > 0 && ln > 0 {
				c.nontrivial(line)
			}
			return
		}
		present, required := o.ints("present"), o.ints("required")
		if o.name == "rrange" {
			fr, to := o.int("from"), o.int("to")
			if ln == 0 || to < fr || to >= d+p {
				c.emit(line, "=> bad-op")
				return
			}
			required = nil
			for i := fr; i <= to; i++ {
				required = append(required, i)
			}
		}
		for i := range parts {
			if !inList(present, i) {
				parts[i] = nil
			}
		}
		if o.name == "rrange" {
			err = verifbridge.ECDecodeRange(rule, o.int("from"), o.int("to"), parts)
		} else {
			err = verifbridge.ECDecodeIndexes(rule, parts, required)
		}
		if err != nil {
			c.emit(line, "=> ok recon=err")
			if ln > 0 {
				c.oracle("partial-reconstruction-restores-requested-parts", len(present) < d, fmt.Sprintf("rule %d/%d len %d present %v required %v: %v", d, p, ln, present, required, err))
			}
			return
		}
		flags := ""
		good := true
		for i := range parts {
			switch {
			case len(parts[i]) == 0:
				flags += "0"
				good = good && !inList(required, i) && !inList(present, i)
			case bytes.Equal(parts[i], orig[i]):
				flags += "1"
			default:
				flags += "X"
				good = false
			}
		}
		c.emit(line, "=> ok recon="+flags)
		if ln > 0 {
			c.oracle("partial-reconstruction-restores-requested-parts", good, fmt.Sprintf("rule %d/%d len %d present %v required %v flags %s", d, p, ln, present, required, flags))
			c.nontrivial(line)
		}
	case "layout":
		d, p, ln, cp := o.int("d"), o.int("p"), o.int("len"), o.int("cap")
		rule := verifbridge.ECRule{DataPartNum: uint8(d), ParityPartNum: uint8(p)}
		touched := ln
		var desc string
		for _, fill := range []byte{0xAA, 0x55} {
			buf := make([]byte, cp)
			copy(buf, detPayload(ln, 3))
			for i := ln; i < cp; i++ {
				buf[i] = fill
			}
			parts, _, err := verifbridge.ECEncode(rule, buf[:ln])
			if err != nil {
				c.emit(line, "=> err encode")
				return
			}
			desc = ""
			for i, pt := range parts {
				if i > 0 {
					desc += ","
				}
				if len(pt) == 0 || cp == 0 {
					desc += "e"
					continue
				}
				off := int(uintptr(unsafe.Pointer(&pt[0])) - uintptr(unsafe.Pointer(&buf[:1][0])))
				if off >= 0 && off < cp {
					desc += fmt.Sprintf("v%d", off)
				} else {
					desc += "f"
				}
			}
			for i := cp - 1; i >= ln; i-- {
				if buf[i] != fill {
					if i+1 > touched {
						touched = i + 1
					}
					break
				}
			}
			c.oracle("payload-bytes-untouched-by-encode", bytes.Equal(buf[:ln], detPayload(ln, 3)), fmt.Sprintf("rule %d/%d len %d cap %d", d, p, ln, cp))
		}
		c.emit(line, fmt.Sprintf("=> ok sh=%s touched=%d", desc, touched))
	case "multi":
		var rules []verifbridge.ECRule
		for _, r := range strings.Split(o.kv["rules"], ",") {
			var d, p int
			fmt.Sscanf(r, "%d/%d", &d, &p)
			rules = append(rules, verifbridge.ECRule{DataPartNum: uint8(d), ParityPartNum: uint8(p)})
		}
		ln := o.int("len")
		payload := detPayload(ln, o.int("seed"))
		hdr := mkObject(1, 1, nil)
		hdr.SetPayloadSize(uint64(ln))
		enc, err := putsvc.VerifECEncodeParent(rules, hdr, bytes.NewReader(payload))
		if err != nil {
			c.emit(line, "=> err")
			return
		}
		flags := ""
		for i, r := range rules {
			want, _, _ := verifbridge.ECEncode(r, append([]byte(nil), payload...))
			ok := len(want) == len(enc[i])
			for j := range want {
				ok = ok && bytes.Equal(want[j], enc[i][j])
			}
			if ok {
				flags += "1"
			} else {
				flags += "0"
			}
			c.oracle("multi-rule-encoding-keeps-every-encoding-intact", ok, fmt.Sprintf("rules %s len %d: encoding #%d (%d/%d) differs from an independent encoding", o.kv["rules"], ln, i, r.DataPartNum, r.ParityPartNum))
			if ln > 0 {
				got, err := verifbridge.ECDecode(r, uint64(ln), enc[i])
				c.oracle("multi-rule-encoding-decodes", err == nil && bytes.Equal(got, payload), fmt.Sprintf("rules %s len %d rule #%d", o.kv["rules"], ln, i))
			}
		}
		c.emit(line, "=> ok intact="+flags)
		if len(rules) > 1 && ln > 0 {
			c.nontrivial(line)
		}
	default:
		c.emit(line, "=> bad-op")
	}
}
