package main

import (
	"context"
	"encoding/base64"
	"encoding/json"
	"fmt"
	"io"
	"net/http"
	"net/http/httptest"
	"sync"

	"github.com/nspcc-dev/neo-go/pkg/crypto/keys"
	"github.com/nspcc-dev/neo-go/pkg/neorpc/result"
	"github.com/nspcc-dev/neo-go/pkg/rpcclient"
	"github.com/nspcc-dev/neo-go/pkg/vm/stackitem"
	"github.com/nspcc-dev/neo-go/pkg/wallet"
	morphclient "github.com/nspcc-dev/neofs-node/pkg/morph/client"
)

// irFake is an in-process fake of the FS chain's JSON-RPC endpoint: the real morph client
// (and the real neo-go RPC client under it) talk to it over a loopback HTTP connection.
// What the chain answers is set by the engine before it calls into the processor.
type irFake struct {
	srv *httptest.Server
	mu  sync.Mutex
	// invokeFunction answers a test invocation of a contract method: stack items or a fault
	invokeFunction func(method string, args []irArg) ([]stackitem.Item, string)
	// invokeScript answers invokescript (IsValidScript): HALT or not
	invokeScript func(script []byte) bool
	// containedScript answers invokecontainedscript (N3 witness verification)
	containedScript func(script []byte) bool
	// notary invocations (NotarySignAndInvokeTX) seen since the last reset
	notaryCalls int
	calls       []string
	cli         *morphclient.Client
	// cliPlain has no notary support: invocations go straight to the RPC actor
	cliPlain *morphclient.Client
	acc      *wallet.Account
}

type irArg struct {
	Type  string          `json:"type"`
	Value json.RawMessage `json:"value"`
}

func (a irArg) bytes() []byte {
	var s string
	if json.Unmarshal(a.Value, &s) != nil {
		return nil
	}
	b, err := base64.StdEncoding.DecodeString(s)
	if err != nil {
		return nil
	}
	return b
}

func (a irArg) int() int64 {
	var s string
	if json.Unmarshal(a.Value, &s) == nil {
		var v int64
		fmt.Sscan(s, &v)
		return v
	}
	var v int64
	json.Unmarshal(a.Value, &v)
	return v
}

type irRPCReq struct {
	ID     json.RawMessage   `json:"id"`
	Method string            `json:"method"`
	Params []json.RawMessage `json:"params"`
}

func invokeJSON(halt bool, exception string, stack []stackitem.Item) any {
	st := "HALT"
	if !halt {
		st = "FAULT"
	}
	items := make([]json.RawMessage, 0, len(stack))
	for _, it := range stack {
		if iter, ok := it.Value().(result.Iterator); ok { // an iterator expanded in place (no sessions)
			b, err := json.Marshal(iter)
			if err != nil {
				panic(err)
			}
			items = append(items, b)
			continue
		}
		b, err := stackitem.ToJSONWithTypes(it)
		if err != nil {
			panic(err)
		}
		items = append(items, b)
	}
	m := map[string]any{"state": st, "gasconsumed": "1", "script": "", "stack": items, "notifications": []any{}}
	if exception != "" {
		m["exception"] = exception
	} else {
		m["exception"] = nil
	}
	return m
}

func newIRFake() *irFake {
	f := &irFake{}
	f.srv = httptest.NewServer(http.HandlerFunc(func(w http.ResponseWriter, r *http.Request) {
		body, _ := io.ReadAll(r.Body)
		var req irRPCReq
		if err := json.Unmarshal(body, &req); err != nil {
			http.Error(w, err.Error(), 400)
			return
		}
		res, rpcErr := f.handle(req)
		out := map[string]any{"jsonrpc": "2.0", "id": req.ID}
		if rpcErr != "" {
			out["error"] = map[string]any{"code": -32603, "message": rpcErr}
		} else {
			out["result"] = res
		}
		w.Header().Set("Content-Type", "application/json")
		json.NewEncoder(w).Encode(out)
	}))
	rpc, err := rpcclient.New(context.Background(), f.srv.URL, rpcclient.Options{})
	if err != nil {
		panic(err)
	}
	if err := rpc.Init(); err != nil {
		panic(fmt.Errorf("fake rpc init: %w", err))
	}
	pk, err := keys.NewPrivateKeyFromBytes(append(make([]byte, 31), 0x77))
	if err != nil {
		panic(err)
	}
	f.acc = wallet.NewAccountFromPrivateKey(pk)
	f.cli, err = morphclient.VerifNewClient(rpc, f.acc, func() {
		f.mu.Lock()
		f.notaryCalls++
		f.mu.Unlock()
	})
	if err != nil {
		panic(err)
	}
	f.cliPlain, err = morphclient.VerifNewClient(rpc, f.acc, nil)
	if err != nil {
		panic(err)
	}
	return f
}

func (f *irFake) reset() {
	f.mu.Lock()
	f.notaryCalls = 0
	f.calls = f.calls[:0]
	f.mu.Unlock()
}

func (f *irFake) handle(req irRPCReq) (any, string) {
	f.mu.Lock()
	f.calls = append(f.calls, req.Method)
	f.mu.Unlock()
	switch req.Method {
	case "getversion":
		return map[string]any{
			"tcpport": 1, "nonce": 1, "useragent": "/verif-fake/",
			"protocol": map[string]any{
				"addressversion": 53, "network": 42, "msperblock": 1000, "maxtraceableblocks": 100000,
				"maxvaliduntilblockincrement": 5760, "maxtransactionsperblock": 512, "memorypoolmaxtransactions": 50000,
				"validatorscount": 1, "initialgasdistribution": 0, "hardforks": []any{}, "standbycommittee": []string{},
				"seedlist": []string{},
			},
			"rpc": map[string]any{"maxiteratorresultitems": 100, "sessionenabled": false},
		}, ""
	case "getnativecontracts":
		return []any{}, ""
	case "getblockcount":
		return 100, ""
	case "invokefunction":
		if len(req.Params) < 2 {
			return nil, "bad params"
		}
		var method string
		json.Unmarshal(req.Params[1], &method)
		var args []irArg
		if len(req.Params) > 2 {
			json.Unmarshal(req.Params[2], &args)
		}
		if f.invokeFunction == nil {
			return invokeJSON(false, "method not found: "+method, nil), ""
		}
		stack, fault := f.invokeFunction(method, args)
		return invokeJSON(fault == "", fault, stack), ""
	case "invokescript":
		var s string
		json.Unmarshal(req.Params[0], &s)
		script, _ := base64.StdEncoding.DecodeString(s)
		ok := f.invokeScript != nil && f.invokeScript(script)
		return invokeJSON(ok, "", nil), ""
	case "invokecontainedscript":
		var tx struct {
			Script string `json:"script"`
		}
		json.Unmarshal(req.Params[0], &tx)
		script, _ := base64.StdEncoding.DecodeString(tx.Script)
		ok := f.containedScript != nil && f.containedScript(script)
		return invokeJSON(true, "", []stackitem.Item{stackitem.NewBool(ok)}), ""
	}
	return nil, "verif fake: unsupported method " + req.Method
}
