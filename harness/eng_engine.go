package main

import (
	"errors"
	"fmt"
	"io"
	"os"
	"path/filepath"
	"strconv"
	"strings"
	"sync/atomic"
	"time"

	"github.com/nspcc-dev/bbolt"
	"github.com/nspcc-dev/neofs-node/pkg/local_object_storage/blobstor/common"
	"github.com/nspcc-dev/neofs-node/pkg/local_object_storage/blobstor/fstree"
	"github.com/nspcc-dev/neofs-node/pkg/local_object_storage/engine"
	meta "github.com/nspcc-dev/neofs-node/pkg/local_object_storage/metabase"
	"github.com/nspcc-dev/neofs-node/pkg/local_object_storage/shard"
	"github.com/nspcc-dev/neofs-node/pkg/local_object_storage/shard/mode"
	apistatus "github.com/nspcc-dev/neofs-sdk-go/client/status"
	"github.com/nspcc-dev/neofs-sdk-go/object"
	oid "github.com/nspcc-dev/neofs-sdk-go/object/id"
)

// Engine "eng": the REAL storage engine over 2-4 real shards (metabase + FSTree behind a fault-injecting
// wrapper), with the shard visiting order fixed per operation through the verif order hook, against
// Model/Engine.lean. Serves C20 (reads), C19 (evacuation), C08 (locks).

func init() {
	engines["eng"] = seqRunner{gen: engGen, exec: engExec}.engine()
}

const engNO = 8 // object ids 1..engNO (one container)

var errEngIO = errors.New("injected blob i/o error")

// engOracle records at most two failures per (assertion, kind of detail) and run: every recorded failure is
// shrunk by the pipeline through repeated replays of the real engine; the kind is the detail without numbers,
// so that a rare kind of failure is never crowded out by a frequent one.
var engFailSeen = map[string]int{}

func engOracle(c *runCtx, assertion string, ok bool, detail string) {
	if !ok {
		key := assertion + "|" + strings.Map(func(r rune) rune {
			if r >= '0' && r <= '9' {
				return -1
			}
			return r
		}, detail)
		engFailSeen[key]++
		if engFailSeen[key] > 2 {
			c.nOracle++
			c.count("oracle_fail_not_recorded:" + assertion)
			return
		}
	}
	c.oracle(assertion, ok, detail)
}

// faultStore is a shard's blob storage: a real FSTree whose reads / writes fail while the flags are set.
type faultStore struct {
	*fstree.FSTree
	failR, failW atomic.Bool
}

func (s *faultStore) GetBytes(a oid.Address) ([]byte, error) {
	if s.failR.Load() {
		return nil, errEngIO
	}
	return s.FSTree.GetBytes(a)
}

func (s *faultStore) Get(a oid.Address) (*object.Object, error) {
	if s.failR.Load() {
		return nil, errEngIO
	}
	return s.FSTree.Get(a)
}

func (s *faultStore) GetRangeStream(a oid.Address, rng common.PayloadRange, h bool) (*object.Object, uint64, io.ReadCloser, error) {
	if s.failR.Load() {
		return nil, 0, nil, errEngIO
	}
	return s.FSTree.GetRangeStream(a, rng, h)
}

func (s *faultStore) GetStream(a oid.Address) (*object.Object, io.ReadCloser, error) {
	if s.failR.Load() {
		return nil, nil, errEngIO
	}
	return s.FSTree.GetStream(a)
}

func (s *faultStore) Head(a oid.Address) (*object.Object, error) {
	if s.failR.Load() {
		return nil, errEngIO
	}
	return s.FSTree.Head(a)
}

func (s *faultStore) ReadHeader(a oid.Address, b []byte) (int, error) {
	if s.failR.Load() {
		return 0, errEngIO
	}
	return s.FSTree.ReadHeader(a, b)
}

func (s *faultStore) ReadObject(a oid.Address, b []byte) (int, io.ReadCloser, error) {
	if s.failR.Load() {
		return 0, nil, errEngIO
	}
	return s.FSTree.ReadObject(a, b)
}

func (s *faultStore) ReadPayloadRange(a oid.Address, off, ln uint64, b []byte, f func([]byte) error) (io.ReadCloser, error) {
	if s.failR.Load() {
		return nil, errEngIO
	}
	return s.FSTree.ReadPayloadRange(a, off, ln, b, f)
}

func (s *faultStore) ReadObjectParts(b []byte, a oid.Address, rng common.PayloadRange, f func([]byte) error) (int, io.ReadCloser, error) {
	if s.failR.Load() {
		return 0, nil, errEngIO
	}
	return s.FSTree.ReadObjectParts(b, a, rng, f)
}

func (s *faultStore) Put(a oid.Address, d []byte) error {
	if s.failW.Load() {
		return errEngIO
	}
	return s.FSTree.Put(a, d)
}

func (s *faultStore) PutBatch(m map[oid.Address][]byte) error {
	if s.failW.Load() {
		return errEngIO
	}
	return s.FSTree.PutBatch(m)
}

type engWorld struct {
	e      *engine.StorageEngine
	ids    []string
	stores []*faultStore
	epoch  *epochSrc
	dir    string
}

func newEngWorld(n int, thr uint32) *engWorld {
	w := &engWorld{dir: scratchDir("eng"), epoch: &epochSrc{}}
	w.e = engine.New(engine.WithErrorThreshold(thr))
	for i := 0; i < n; i++ {
		dir := filepath.Join(w.dir, fmt.Sprintf("s%d", i))
		fs := &faultStore{FSTree: fstree.New(fstree.WithPath(filepath.Join(dir, "blob")), fstree.WithDepth(1), fstree.WithNoSync(true),
			fstree.WithCombinedWriteInterval(200*time.Microsecond))}
		id, err := w.e.AddShard(
			shard.WithBlobstor(fs),
			shard.WithMetaBaseOptions(meta.WithPath(filepath.Join(dir, "meta")), meta.WithPermissions(0o700), meta.WithEpochState(w.epoch),
				meta.WithMaxBatchDelay(time.Microsecond),
				meta.WithBoltDBOptions(&bbolt.Options{NoSync: true, NoGrowSync: true, NoFreelistSync: true, Timeout: time.Second})),
			shard.WithGCRemoverSleepInterval(time.Hour),
			shard.WithContainerPayments(&payFake{disabled: true}),
		)
		if err != nil {
			panic(err)
		}
		w.ids = append(w.ids, id.String())
		w.stores = append(w.stores, fs)
	}
	if err := w.e.Init(); err != nil {
		panic(err)
	}
	return w
}

func (w *engWorld) close() {
	engine.VerifSetShardOrder(nil, nil)
	w.e.Close()
	os.RemoveAll(w.dir)
}

func (w *engWorld) order(idx []int) []string {
	r := make([]string, 0, len(idx))
	for _, i := range idx {
		if i >= 0 && i < len(w.ids) {
			r = append(r, w.ids[i])
		}
	}
	return r
}

func engErrClass(err error) string {
	switch {
	case err == nil:
		return "ok"
	case errors.Is(err, meta.ErrLockObjectRemoval):
		return "lockRemoval"
	case errors.As(err, new(apistatus.LockNonRegularObject)):
		return "lockNonRegular"
	case errors.As(err, new(apistatus.ObjectLocked)):
		return "locked"
	case errors.As(err, new(apistatus.ObjectAlreadyRemoved)):
		return "removed"
	case errors.Is(err, meta.ErrObjectIsExpired):
		return "expired"
	case errors.As(err, new(apistatus.ObjectNotFound)):
		return "notFound"
	case errors.Is(err, shard.ErrMustBeReadOnly):
		return "mustBeRO"
	case errors.Is(err, shard.ErrReadOnlyMode), errors.Is(err, meta.ErrReadOnlyMode), errors.Is(err, common.ErrReadOnly):
		return "readOnly"
	case errors.Is(err, shard.ErrDegradedMode), errors.Is(err, meta.ErrDegradedMode):
		return "degraded"
	case errors.Is(err, errEngIO):
		return "io"
	}
	return "other"
}

var engModes = map[string]mode.Mode{"rw": mode.ReadWrite, "ro": mode.ReadOnly, "deg": mode.Degraded, "degro": mode.DegradedReadOnly, "off": mode.Disabled}

func engModeName(m mode.Mode) string {
	for k, v := range engModes {
		if v == m {
			return k
		}
	}
	return "?"
}

type engShardView struct {
	mode   mode.Mode
	codes  [engNO + 1]byte // K indexed+available, n unknown, N garbage-marked, R removed, X expired; 0 in degraded modes
	blob   [engNO + 1]bool
	locked [engNO + 1]bool
	failR  bool
}

func (w *engWorld) view() []engShardView {
	vs := make([]engShardView, len(w.ids))
	for i, id := range w.ids {
		sh := w.e.VerifShardStr(id)
		v := &vs[i]
		v.mode = sh.GetMode()
		v.failR = w.stores[i].failR.Load()
		for o := 1; o <= engNO; o++ {
			a := numAddr(1, o)
			v.blob[o], _ = w.stores[i].FSTree.Exists(a)
			if v.mode.NoMetabase() {
				continue
			}
			ex, err := sh.Exists(a, false)
			switch c := engErrClass(err); {
			case err == nil && ex:
				v.codes[o] = 'K'
			case err == nil:
				v.codes[o] = 'n'
			case c == "notFound":
				v.codes[o] = 'N'
			case c == "removed":
				v.codes[o] = 'R'
			case c == "expired":
				v.codes[o] = 'X'
			default:
				v.codes[o] = '?'
			}
			v.locked[o], _ = sh.IsLocked(a)
		}
	}
	return vs
}

func (w *engWorld) dump(vs []engShardView) string {
	var sb strings.Builder
	for i, v := range vs {
		if i > 0 {
			sb.WriteByte(' ')
		}
		fmt.Fprintf(&sb, "s%d=%s/%d/", i, engModeName(v.mode), w.e.VerifErrorCount(w.ids[i]))
		bits := func(b [engNO + 1]bool) string {
			r := make([]byte, engNO)
			for o := 1; o <= engNO; o++ {
				r[o-1] = '0'
				if b[o] {
					r[o-1] = '1'
				}
			}
			return string(r)
		}
		if v.mode.NoMetabase() {
			sb.WriteString("-/" + bits(v.blob) + "/-")
		} else {
			sb.WriteString(string(v.codes[1:]) + "/" + bits(v.blob) + "/" + bits(v.locked))
		}
	}
	return sb.String()
}

// holds: the shard would hand out object o when asked by the first pass of a read.
func (v *engShardView) holds(o int) bool {
	if v.failR || !v.blob[o] {
		return false
	}
	return v.mode.NoMetabase() || v.codes[o] == 'K'
}

// holdsNoFault: holds, read failures aside.
func (v *engShardView) holdsNoFault(o int) bool {
	if o < 1 || o > engNO || !v.blob[o] {
		return false
	}
	return v.mode.NoMetabase() || v.codes[o] == 'K'
}

func slicesDeleteFunc[T any](s []T, f func(T) bool) []T {
	r := s[:0]
	for _, x := range s {
		if !f(x) {
			r = append(r, x)
		}
	}
	return r
}

// engLockOracle: C08 on the real shards' state: an object with an accepted, unexpired lock is retrievable for
// every visiting order, i.e. some shard holds it and no shard with a metabase reports it removed or expired.
func engLockOracle(c *runCtx, vs []engShardView, lock, t int, missed bool) {
	held, bad, suspended := false, false, false
	noLock, codes := 0, ""
	for i := range vs {
		v := &vs[i]
		if v.blob[t] && v.failR {
			suspended = true // a read failure on a holder: nothing can be said while it lasts
		}
		held = held || v.holdsNoFault(t)
		if !v.mode.NoMetabase() {
			if v.codes[t] == 'R' || v.codes[t] == 'X' {
				bad = true
			}
			if v.blob[t] {
				codes += string(v.codes[t])
				if !v.locked[t] {
					noLock++
				}
			}
		} else if v.blob[t] {
			codes += "-"
		}
	}
	if suspended {
		return
	}
	engOracle(c, "locked-object-retrievable-for-every-order", held && !bad,
		fmt.Sprintf("object %d has the accepted, unexpired lock %d but is not retrievable for every order: held=%v removed-or-expired-somewhere=%v holders-without-lock=%d holder-codes=%s. lock-missed-by-a-holder-at-acceptance=%v",
			t, lock, held, bad, noLock, codes, missed))
}

// engEvacOracle: C19 on the real shards' state before and after an evacuation.
func engEvacOracle(c *runCtx, before, after []engShardView, srcs []int, ok, strict bool, listed map[[2]int]bool) {
	if c.prop != "C19" && c.prop != "" {
		return
	}
	isSrc := map[int]bool{}
	for _, s := range srcs {
		isSrc[s] = true
	}
	for _, s := range srcs {
		if s < 0 || s >= len(before) {
			return
		}
		engOracle(c, "evacuation-leaves-sources-unchanged", before[s] == after[s], fmt.Sprintf("source shard %d changed during evacuation", s))
	}
	if !ok || !strict {
		return
	}
	degradedTarget := false // a remaining shard without metabase takes objects as blobs only and reports no status
	for j := range after {
		degradedTarget = degradedTarget || (!isSrc[j] && after[j].mode.NoMetabase())
	}
	for _, s := range srcs {
		if before[s].mode.NoMetabase() {
			continue
		}
		for id := 1; id <= engNO; id++ {
			if before[s].codes[id] == 'K' && before[s].blob[id] {
				known, served := false, false
				for j := range after {
					if isSrc[j] {
						continue
					}
					v := &after[j]
					known = known || (v.mode.NoMetabase() && v.blob[id]) || (!v.mode.NoMetabase() && v.codes[id] != 'n')
					served = served || v.holdsNoFault(id)
				}
				engOracle(c, "evacuated-object-known-to-a-remaining-shard", known,
					fmt.Sprintf("object %d was available on source shard %d; after the successful evacuation no remaining shard knows it; listed-by-source=%v", id, s, listed[[2]int{s, id}]))
				engOracle(c, "evacuated-object-served-by-a-remaining-shard", served || degradedTarget,
					fmt.Sprintf("object %d was available on source shard %d; after the successful evacuation no remaining shard serves it: listed-by-source=%v remaining=%s", id, s, listed[[2]int{s, id}], engRemaining(after, isSrc, id)))
			}
			if before[s].locked[id] {
				l := false
				for j := range after {
					l = l || (!isSrc[j] && !after[j].mode.NoMetabase() && after[j].locked[id])
				}
				engOracle(c, "evacuated-lock-still-protects-on-a-remaining-shard", l || degradedTarget,
					fmt.Sprintf("object %d was locked on source shard %d; after the successful evacuation no remaining shard reports it locked", id, s))
			}
		}
	}
}

func engRemaining(vs []engShardView, isSrc map[int]bool, id int) string {
	var r []string
	for i := range vs {
		if isSrc[i] {
			continue
		}
		c := string(vs[i].codes[id])
		if vs[i].mode.NoMetabase() {
			c = "-"
		}
		r = append(r, fmt.Sprintf("s%d:%s:%s:blob=%v", i, engModeName(vs[i].mode), c, vs[i].blob[id]))
	}
	return strings.Join(r, ",")
}

func engBuildObj(o opLine) *object.Object {
	h := mHdr{id: o.kv["o"], typ: map[string]string{"reg": "REG", "ts": "TS", "lock": "LOCK"}[o.kv["k"]], assoc: o.int("t"), size: 16}
	if e := o.int("exp"); e != 0 {
		h.exp, h.hasExp = strconv.Itoa(e), true
	}
	obj := buildHdr(1, h, nil)
	p := detPayload(16, o.int("o"))
	obj.SetPayload(p)
	return obj
}

func engShowObj(obj *object.Object) string {
	k := map[object.Type]string{object.TypeRegular: "reg", object.TypeTombstone: "ts", object.TypeLock: "lock"}[obj.Type()]
	t := 0
	if a := obj.AssociatedObject(); !a.IsZero() {
		t = oidNum(a)
	}
	exp := 0
	for _, a := range obj.Attributes() {
		if a.Key() == object.AttributeExpirationEpoch {
			exp, _ = strconv.Atoi(a.Value())
		}
	}
	return fmt.Sprintf("ok id=%d k=%s t=%d exp=%d", oidNum(obj.GetID()), k, t, exp)
}

func engExec(c *runCtx, ops []string) {
	var w *engWorld
	defer func() {
		if w != nil {
			w.close()
		}
	}()
	// shadow of what the engine acknowledged (for the history-level oracles)
	removedAck := map[int]bool{}
	forcedDel := map[int]bool{} // a forced removal (Engine.Delete/Drop) was issued since the object was last stored
	type lockRec struct {
		lock, target, exp int
		missed            bool // some holder of the target did not index the lock when it was accepted (known finding C08)
	}
	var locks []lockRec // locks the engine accepted for an object it stored
	epoch := 0
	for _, line := range ops {
		o := parseOp(line)
		c.count(o.name)
		if o.name == "init" {
			if w != nil {
				w.close()
			}
			n := o.int("n")
			if n < 1 || n > 4 {
				c.emit(line, "=> bad-op")
				continue
			}
			w = newEngWorld(n, uint32(o.int("thr")))
			removedAck = map[int]bool{}
			forcedDel = map[int]bool{}
			locks, epoch = nil, 0
			c.emit(line, "=> ok | "+w.dump(w.view()))
			continue
		}
		if w == nil {
			c.emit(line, "=> bad-op")
			continue
		}
		ord, bord := o.ints("ord"), o.ints("bord")
		engine.VerifSetShardOrder(w.order(ord), w.order(bord))
		before := w.view()
		var res string
		var post []func(after []engShardView) // oracles, evaluated after the op line is recorded
		switch o.name {
		case "put":
			obj := engBuildObj(o)
			err := w.e.Put(c.ctx(), obj, nil)
			res = engErrClass(err)
			if err == nil && o.kv["k"] == "ts" {
				removedAck[o.int("t")] = true
			}
			if err == nil && o.kv["k"] == "reg" {
				delete(removedAck, o.int("o")) // stored (again): the earlier removal no longer describes the state
				heldBefore := false
				for i := range before {
					heldBefore = heldBefore || before[i].holdsNoFault(o.int("o"))
				}
				if !heldBefore { // a put of an object that is still served is a no-op: the pending forced removal stays
					delete(forcedDel, o.int("o"))
				}
			}
			if err == nil && o.kv["k"] == "lock" {
				t, stored := o.int("t"), false
				for i := range before { // stored with metadata: a lock protects what a metabase indexes
					stored = stored || (before[i].holdsNoFault(t) && !before[i].mode.NoMetabase())
				}
				// an object whose removal the engine acknowledged (tombstone, forced removal) and that nobody stored
				// again is not "an object it stores", even while its bytes wait for the collector
				// (a forced removal overrides locks by design, also the locks that arrive before the collector ran)
				if stored && t >= 1 && t <= engNO && !removedAck[t] && !forcedDel[t] {
					lr := lockRec{lock: o.int("o"), target: t, exp: o.int("exp")}
					post = append(post, func(after []engShardView) {
						for i := range after { // a holder with a metabase that does not know the lock it should have got
							if !after[i].mode.NoMetabase() && after[i].blob[t] && !after[i].locked[t] {
								lr.missed = true
							}
						}
						locks = append(locks, lr)
					})
				}
			}
		case "get", "head":
			id := o.int("o")
			var obj *object.Object
			var err error
			if o.name == "get" {
				obj, err = w.e.Get(c.ctx(), numAddr(1, id))
			} else {
				obj, err = w.e.Head(c.ctx(), numAddr(1, id), false)
			}
			if err == nil {
				res = engShowObj(obj)
			} else {
				res = engErrClass(err)
			}
			ack := removedAck[id]
			post = append(post, func([]engShardView) { engReadOracle(c, o.name, id, before, ord, err, obj, ack) })
		case "del":
			err := w.e.Delete(c.ctx(), numAddr(1, o.int("o")), engine.GarbageMarkDefault)
			res = engErrClass(err)
			forced := o.int("o") // a forced removal overrides locks by design
			forcedDel[forced] = true
			locks = slicesDeleteFunc(locks, func(l lockRec) bool { return l.lock == forced || l.target == forced })
			if err == nil {
				id := o.int("o")
				post = append(post, func(after []engShardView) {
					// the mark took effect wherever a metabase is readable (a lock keeps a marked object available until GC)
					for i := range after {
						if !after[i].mode.NoMetabase() && after[i].codes[id] == 'K' {
							return
						}
					}
					removedAck[id] = true
				})
			}
		case "drop":
			err := w.e.Drop(c.ctx(), numAddr(1, o.int("o")))
			res = engErrClass(err)
			forced := o.int("o")
			forcedDel[forced] = true
			locks = slicesDeleteFunc(locks, func(l lockRec) bool { return l.lock == forced || l.target == forced })
		case "islocked":
			l, err := w.e.IsLocked(c.ctx(), numAddr(1, o.int("o")))
			if err != nil {
				res = engErrClass(err)
			} else if l {
				res = "ok locked=1"
			} else {
				res = "ok locked=0"
			}
		case "mode":
			i := o.int("s")
			m, ok := engModes[o.kv["m"]]
			if i < 0 || i >= len(w.ids) || !ok {
				c.emit(line, "=> bad-op")
				continue
			}
			if err := w.e.SetShardMode(w.e.VerifShardStr(w.ids[i]).ID(), m, o.int("reset") != 0); err != nil {
				panic(fmt.Errorf("set mode: %w", err))
			}
			res = "ok"
		case "fail":
			i := o.int("s")
			if i < 0 || i >= len(w.ids) {
				c.emit(line, "=> bad-op")
				continue
			}
			w.stores[i].failR.Store(o.int("r") != 0)
			w.stores[i].failW.Store(o.int("w") != 0)
			res = "ok"
		case "epoch":
			ep := o.u64("e")
			epoch = int(ep)
			w.epoch.e.Store(ep)
			for _, id := range w.ids {
				w.e.VerifShardStr(id).VerifHandleNewEpoch(ep)
			}
			res = "ok"
		case "gc":
			i := o.int("s")
			if i < 0 || i >= len(w.ids) {
				c.emit(line, "=> bad-op")
				continue
			}
			w.e.VerifShardStr(w.ids[i]).VerifRemoveGarbage()
			res = "ok"
		case "evac":
			var sids []common.ID
			for _, i := range o.ints("src") {
				if i >= 0 && i < len(w.ids) {
					sids = append(sids, w.e.VerifShardStr(w.ids[i]).ID())
				} else {
					sids = append(sids, common.ID{})
				}
			}
			listed := map[[2]int]bool{} // what the sources list (the evacuation moves what is listed)
			for _, i := range o.ints("src") {
				if i >= 0 && i < len(w.ids) {
					if lst, _, lerr := w.e.VerifShardStr(w.ids[i]).ListWithCursor(1000, nil); lerr == nil {
						for _, a := range lst {
							listed[[2]int{i, oidNum(a.Address.Object())}] = true
						}
					}
				}
			}
			n, err := w.e.Evacuate(c.ctx(), sids, o.int("ignore") != 0, nil)
			res = fmt.Sprintf("%s moved=%d", engErrClass(err), n)
			srcs, ok, strict := o.ints("src"), err == nil, o.int("ignore") == 0
			post = append(post, func(after []engShardView) { engEvacOracle(c, before, after, srcs, ok, strict, listed) })
		default:
			c.emit(line, "=> bad-op")
			continue
		}
		after := w.view()
		c.emit(line, "=> "+res+" | "+w.dump(after))
		for _, f := range post {
			f(after)
		}
		if c.prop == "C08" || c.prop == "" {
			for _, l := range locks {
				if l.exp != 0 && epoch > l.exp {
					continue // the lock has expired
				}
				engLockOracle(c, after, l.lock, l.target, l.missed)
			}
		}
	}
	if len(ops) > 6 {
		c.nontrivial(fmt.Sprint(ops))
	}
}

// engReadOracle evaluates C20's predicate on a read of the REAL engine against what the real shards held
// immediately before the read.
func engReadOracle(c *runCtx, op string, id int, vs []engShardView, ord []int, err error, obj *object.Object, removedAck bool) {
	if c.prop != "C20" && c.prop != "" {
		return
	}
	var holder, removed, expired, metaAvail, degBlob = -1, false, false, false, false
	visited := map[int]bool{}
	for _, i := range ord {
		if i < 0 || i >= len(vs) || visited[i] {
			continue
		}
		visited[i] = true
		v := &vs[i]
		if v.holds(id) && holder < 0 {
			holder = i
		}
		if !v.mode.NoMetabase() {
			switch v.codes[id] {
			case 'R':
				removed = true
			case 'X':
				expired = true
			case 'K':
				metaAvail = true
			}
		} else if v.blob[id] {
			degBlob = true
		}
	}
	got := err == nil && obj != nil && oidNum(obj.GetID()) == id
	cls := engErrClass(err)
	if holder >= 0 && !removed && !expired {
		engOracle(c, op+"-finds-object-held-by-some-shard", got,
			fmt.Sprintf("object %d is held as available by shard %d, no shard reports it removed, order %v: %s returned %s", id, holder, ord, op, cls))
	}
	if !metaAvail && !degBlob {
		engOracle(c, op+"-never-returns-object-no-shard-has-available", !got,
			fmt.Sprintf("object %d: no shard with a metabase has it available and no degraded shard holds its blob, order %v: %s returned the object", id, ord, op))
	}
	if removed && holder < 0 && !expired {
		engOracle(c, op+"-reports-removed", cls == "removed",
			fmt.Sprintf("object %d is reported removed by a shard and held by none, order %v: %s returned %s", id, ord, op, cls))
	}
	if removedAck {
		engOracle(c, "read-of-object-whose-removal-the-engine-accepted", !got,
			fmt.Sprintf("the engine accepted a removal of object %d (tombstone or delete) and later %s returned it, order %v; holders=%s", id, op, ord, engHolders(vs, id)))
	}
}

func engHolders(vs []engShardView, id int) string {
	var r []string
	for i := range vs {
		if vs[i].blob[id] {
			c := string(vs[i].codes[id])
			if vs[i].mode.NoMetabase() {
				c = "-"
			}
			r = append(r, fmt.Sprintf("s%d:%s:%s", i, engModeName(vs[i].mode), c))
		}
	}
	return strings.Join(r, ",")
}

// ---------------------------------------------------------------------------- generation

type engGenState struct {
	c    *runCtx
	n    int
	hdr  [engNO + 1]string // fixed header per id: "k=… t=… exp=…"
	kind [engNO + 1]string
}

func (g *engGenState) perm() string {
	p := g.c.rng.Perm(g.n)
	return joinInts(p)
}

func (g *engGenState) id() int { return 1 + g.c.rng.IntN(engNO) }

func (g *engGenState) regID() int {
	for range 20 {
		if i := g.id(); g.kind[i] == "reg" {
			return i
		}
	}
	return 1
}

func engGen(c *runCtx, run func([]string)) {
	for i := 0; i < c.n(150, 6000); i++ {
		g := &engGenState{c: c, n: 2 + c.rng.IntN(3)}
		if c.rng.IntN(8) == 0 {
			g.n = 1
		}
		thr := []int{0, 0, 2, 3}[c.rng.IntN(4)]
		exp := func() int {
			if c.rng.IntN(3) == 0 {
				return 1 + c.rng.IntN(6)
			}
			return 0
		}
		for o := 1; o <= engNO; o++ {
			switch {
			case o <= 4:
				g.kind[o] = "reg"
				g.hdr[o] = fmt.Sprintf("k=reg t=0 exp=%d", exp())
			case o <= 6:
				g.kind[o] = "ts"
				t := 1 + c.rng.IntN(4)
				if c.rng.IntN(8) == 0 {
					t = 1 + c.rng.IntN(engNO)
				}
				g.hdr[o] = fmt.Sprintf("k=ts t=%d exp=%d", t, exp())
			default:
				g.kind[o] = "lock"
				t := 1 + c.rng.IntN(4)
				if c.rng.IntN(10) == 0 {
					t = 1 + c.rng.IntN(engNO)
				}
				g.hdr[o] = fmt.Sprintf("k=lock t=%d exp=%d", t, exp())
			}
		}
		if c.rng.IntN(3) == 0 {
			// two locks of ONE object with different lifetimes, the lock with the smaller id expiring first (or last):
			// the object stays protected while ANY of its locks is alive
			t := 1 + c.rng.IntN(4)
			e1, e2 := 1+c.rng.IntN(3), []int{0, 4, 5, 6}[c.rng.IntN(4)]
			if c.rng.IntN(3) == 0 {
				e1, e2 = e2, e1
			}
			g.hdr[7] = fmt.Sprintf("k=lock t=%d exp=%d", t, e1)
			g.hdr[8] = fmt.Sprintf("k=lock t=%d exp=%d", t, e2)
		}
		ops := []string{fmt.Sprintf("eng init n=%d thr=%d", g.n, thr)}
		epoch := 0
		nops := 8 + c.rng.IntN(25)
		for j := 0; j < nops; j++ {
			switch k := c.rng.IntN(100); {
			case k < 28:
				o := g.id()
				if c.rng.IntN(3) > 0 {
					o = g.regID()
				}
				ops = append(ops, fmt.Sprintf("eng put o=%d %s ord=%s bord=%s", o, g.hdr[o], g.perm(), g.perm()))
			case k < 50:
				ops = append(ops, fmt.Sprintf("eng get o=%d ord=%s bord=%s", g.regID(), g.perm(), g.perm()))
			case k < 56:
				ops = append(ops, fmt.Sprintf("eng head o=%d ord=%s bord=%s", g.id(), g.perm(), g.perm()))
			case k < 64:
				ops = append(ops, fmt.Sprintf("eng del o=%d ord=%s bord=%s", g.regID(), g.perm(), g.perm()))
			case k < 67:
				ops = append(ops, fmt.Sprintf("eng drop o=%d ord=%s bord=%s", g.id(), g.perm(), g.perm()))
			case k < 70:
				ops = append(ops, fmt.Sprintf("eng islocked o=%d ord=%s bord=%s", g.regID(), g.perm(), g.perm()))
			case k < 80:
				m := []string{"rw", "rw", "ro", "deg", "degro", "off"}[c.rng.IntN(6)]
				ops = append(ops, fmt.Sprintf("eng mode s=%d m=%s reset=%d", c.rng.IntN(g.n), m, c.rng.IntN(2)))
			case k < 86:
				ops = append(ops, fmt.Sprintf("eng fail s=%d r=%d w=%d", c.rng.IntN(g.n), c.rng.IntN(2), c.rng.IntN(2)))
			case k < 90:
				epoch += 1 + c.rng.IntN(3)
				ops = append(ops, fmt.Sprintf("eng epoch e=%d", epoch))
			case k < 96:
				ops = append(ops, fmt.Sprintf("eng gc s=%d ord=%s bord=%s", c.rng.IntN(g.n), g.perm(), g.perm()))
			default:
				s := c.rng.IntN(g.n)
				ops = append(ops, fmt.Sprintf("eng mode s=%d m=ro reset=0", s))
				if g.n >= 3 && c.rng.IntN(3) == 0 {
					// several sources in one call (objects may be held by more than one of them after an
					// earlier evacuation)
					s2 := (s + 1 + c.rng.IntN(g.n-1)) % g.n
					ops = append(ops, fmt.Sprintf("eng mode s=%d m=ro reset=0", s2))
					ops = append(ops, fmt.Sprintf("eng evac src=%d,%d ord=%s bord=%s ignore=%d", s, s2, g.perm(), g.perm(), c.rng.IntN(2)))
				} else {
					ops = append(ops, fmt.Sprintf("eng evac src=%d ord=%s bord=%s ignore=%d", s, g.perm(), g.perm(), c.rng.IntN(2)))
				}
			}
		}
		run(ops)
	}
}
