package main

// Op `rpc auth` of engine `rpc` (C29): WHO is the request authenticated as, and by what?
//
//	rpc auth h=<handler> tls=none|owner|other ttl=1|2 vh=none|ok|bad|forged who=owner|client
//
// The REAL object service server is built over the REAL request classifier (acl/v2.Service: getRequestCredentials,
// classify) and recording fakes of everything behind it. The request arrives
//
//   - over a plain connection (tls=none) or over TLS with a client certificate (peerauth.AuthInfo in the gRPC peer
//     of the context) whose key is the container owner's (tls=owner) or a stranger's (tls=other);
//   - with meta header TTL 1 or 2;
//   - without a verification header (vh=none), with a correct one made by `who` (vh=ok), with one made by `who`
//     whose body signature was damaged afterwards (vh=bad), or with one that merely NAMES the key of `who` in all
//     three signatures over random bytes (vh=forged).
//
// The container is private (basic ACL: only the owner may do anything) and has no extended ACL, so the request is
// served iff it is classified as the owner. Observation: refused st=signature | refused st=denied id=.. role=.. |
// served id=.. role=.. where id says which key the ACL stage was given (hdr:<who> / peer:<tls>).
//
// Model (Model/ReqAuth.lean + the regenerated handler skeleton): signatures are verified unless the header is
// absent, TTL is 1 and the peer is TLS-authenticated; the identity is the TLS key in exactly that case and the
// header's key otherwise. Oracles (the property itself): a served request was authenticated — by a verification
// header that verifies or by the TLS handshake — and the identity handed to the ACL stage is the authenticated one.

import (
	"context"
	"crypto/tls"
	"crypto/x509"
	"fmt"
	"io"
	"strings"
	"time"

	"github.com/nspcc-dev/neo-go/pkg/crypto/keys"
	"github.com/nspcc-dev/neofs-node/pkg/network/peerauth"
	objectsvc "github.com/nspcc-dev/neofs-node/pkg/services/object"
	aclsvc "github.com/nspcc-dev/neofs-node/pkg/services/object/acl/v2"
	"github.com/nspcc-dev/neofs-node/pkg/services/object/common"
	"github.com/nspcc-dev/neofs-node/pkg/util/verifbridge"
	"github.com/nspcc-dev/neofs-sdk-go/bearer"
	"github.com/nspcc-dev/neofs-sdk-go/container"
	"github.com/nspcc-dev/neofs-sdk-go/container/acl"
	cid "github.com/nspcc-dev/neofs-sdk-go/container/id"
	neofscrypto "github.com/nspcc-dev/neofs-sdk-go/crypto"
	neofsecdsa "github.com/nspcc-dev/neofs-sdk-go/crypto/ecdsa"
	oid "github.com/nspcc-dev/neofs-sdk-go/object/id"
	protoacl "github.com/nspcc-dev/neofs-sdk-go/proto/acl"
	protoobject "github.com/nspcc-dev/neofs-sdk-go/proto/object"
	"github.com/nspcc-dev/neofs-sdk-go/proto/refs"
	protosession "github.com/nspcc-dev/neofs-sdk-go/proto/session"
	"github.com/nspcc-dev/neofs-sdk-go/session"
	sessionv2 "github.com/nspcc-dev/neofs-sdk-go/session/v2"
	"github.com/nspcc-dev/neofs-sdk-go/user"
	"go.uber.org/zap"
	grpccodes "google.golang.org/grpc/codes"
	"google.golang.org/grpc/credentials"
	"google.golang.org/grpc/peer"
	grpcstatus "google.golang.org/grpc/status"
)

var (
	rpcOwnerKey = mustKey(0x53)
	rpcPeerKey  = mustKey(0x54)
)

func rpcKeyName(pub []byte) string {
	switch string(pub) {
	case string(rpcOwnerKey.PublicKey().Bytes()):
		return "owner"
	case string(rpcClientKey.PublicKey().Bytes()):
		return "client"
	case string(rpcPeerKey.PublicKey().Bytes()):
		return "other"
	case "":
		return "nil"
	}
	return "unknown"
}

func rpcKeyByName(n string) *keys.PrivateKey {
	switch n {
	case "owner":
		return rpcOwnerKey
	case "client":
		return rpcClientKey
	case "other":
		return rpcPeerKey
	}
	return nil
}

// authInfo is the ACLInfoExtractor of the server: the real acl/v2.Service, recorded.
type authInfo struct {
	r   *rpcRec
	svc aclsvc.Service
}

func (i authInfo) PutRequestToInfo(ctx context.Context, r *protoobject.PutRequest, in *protoobject.PutRequest_Body_Init, c cid.ID, op acl.Op, t common.RequestTokens) (aclsvc.RequestInfo, user.ID, error) {
	i.r.chk("reqInfo")
	return i.svc.PutRequestToInfo(ctx, r, in, c, op, t)
}
func (i authInfo) DeleteRequestToInfo(ctx context.Context, r *protoobject.DeleteRequest, c cid.ID, t common.RequestTokens) (aclsvc.RequestInfo, error) {
	i.r.chk("reqInfo")
	return i.svc.DeleteRequestToInfo(ctx, r, c, t)
}
func (i authInfo) HeadRequestToInfo(ctx context.Context, r *protoobject.HeadRequest, c cid.ID, t common.RequestTokens) (aclsvc.RequestInfo, error) {
	i.r.chk("reqInfo")
	return i.svc.HeadRequestToInfo(ctx, r, c, t)
}
func (i authInfo) GetRequestToInfo(ctx context.Context, r *protoobject.GetRequest, c cid.ID, t common.RequestTokens) (aclsvc.RequestInfo, error) {
	i.r.chk("reqInfo")
	return i.svc.GetRequestToInfo(ctx, r, c, t)
}
func (i authInfo) RangeRequestToInfo(ctx context.Context, r *protoobject.GetRangeRequest, c cid.ID, t common.RequestTokens) (aclsvc.RequestInfo, error) {
	i.r.chk("reqInfo")
	return i.svc.RangeRequestToInfo(ctx, r, c, t)
}
func (i authInfo) SearchV2RequestToInfo(ctx context.Context, r *protoobject.SearchV2Request, c cid.ID, t common.RequestTokens) (aclsvc.RequestInfo, error) {
	i.r.chk("reqInfo")
	return i.svc.SearchV2RequestToInfo(ctx, r, c, t)
}
func (i authInfo) VerifySessionTokenMessage(m *protosession.SessionTokenV2, v sessionv2.Verb, c cid.ID) (sessionv2.Token, error) {
	i.r.chk("token")
	return i.svc.VerifySessionTokenMessage(m, v, c)
}
func (i authInfo) VerifySessionV1TokenMessage(m *protosession.SessionToken, v session.ObjectVerb, c cid.ID, o oid.ID) (session.Object, error) {
	i.r.chk("token")
	return i.svc.VerifySessionV1TokenMessage(m, v, c, o)
}
func (i authInfo) VerifyBearerTokenMessage(m *protoacl.BearerToken) (bearer.Token, error) {
	i.r.chk("token")
	return i.svc.VerifyBearerTokenMessage(m)
}

// authACL is the ACLChecker: the basic ACL of the container decides, and what it was asked about is recorded.
type authACL struct {
	r     *rpcRec
	asked *[]string // "<key name>/<role>" per CheckBasicACL call
}

func (a authACL) CheckBasicACL(info aclsvc.RequestInfo) bool {
	a.r.chk("basic")
	*a.asked = append(*a.asked, rpcKeyName(info.SenderKey)+"/"+aclRoleName(info.RequestRole))
	return info.Container.BasicACL().IsOpAllowed(info.Operation, info.RequestRole)
}
func (a authACL) CheckEACL(context.Context, any, cid.ID, oid.ID, aclsvc.RequestInfo) error {
	a.r.chk("eacl")
	return nil
}
func (a authACL) StickyBitCheck(aclsvc.RequestInfo, user.ID) bool { a.r.chk("sticky"); return true }

func rpcAuthServer() (*objectsvc.Server, *rpcRec, *[]string) {
	rec := &rpcRec{}
	cfg := &rpcCfg{basicOK: true, stickyOK: true, selfNodeSet: true,
		serverKey: rpcServerKey.PublicKey().Bytes(), clientKey: neofscrypto.PublicKeyBytes(rpcSigner().Public())}
	var cnr container.Container
	cnr.SetOwner(user.NewFromECDSAPublicKey(rpcOwnerKey.PrivateKey.PublicKey))
	cnr.SetBasicACL(acl.Private)
	svc := aclsvc.New(aclFSChain{}, verifbridge.NewObjectSessionsCache(8),
		aclsvc.WithIRFetcher(aclIR{}),
		aclsvc.WithNetmapper(aclNetmap{epoch: 10, inCnr: true}),
		aclsvc.WithContainerSource(aclCnrSrc{numCID(1), cnr}),
		aclsvc.WithTimeProvider(aclTime{time.Unix(1000, 0)}),
		aclsvc.WithLogger(zap.NewNop()))
	asked := new([]string)
	srv := objectsvc.New(rpcHandlers{rec}, rpcFSChain{rec, cfg}, rpcStorage{rec}, nil, rpcServerKey.PrivateKey, rpcMetrics{},
		authACL{rec, asked}, authInfo{rec, svc}, rpcClients{rec}, zap.NewNop())
	return srv, rec, asked
}

// rpcAuthCtx is the context of a request that arrived over TLS with a client certificate carrying the key.
func rpcAuthCtx(tlsKey string) context.Context {
	ctx := context.Background()
	k := rpcKeyByName(tlsKey)
	if k == nil {
		return ctx
	}
	ai, err := peerauth.NewAuthInfo(credentials.TLSInfo{State: tls.ConnectionState{
		PeerCertificates: []*x509.Certificate{{PublicKey: &k.PrivateKey.PublicKey}}}})
	if err != nil {
		panic(err)
	}
	return peer.NewContext(ctx, &peer.Peer{AuthInfo: ai})
}

// rpcDetRand is a deterministic byte stream for forged signatures.
type rpcDetRand struct{ s uint64 }

func (r *rpcDetRand) Read(p []byte) (int, error) {
	for i := range p {
		r.s = r.s*6364136223846793005 + 1442695040888963407
		p[i] = byte(r.s >> 56)
	}
	return len(p), nil
}

var _ io.Reader = (*rpcDetRand)(nil)

func rpcForgedHeader(who *keys.PrivateKey) *protosession.RequestVerificationHeader {
	rnd := &rpcDetRand{s: 29}
	mk := func() *refs.Signature {
		sig := make([]byte, 65)
		rnd.Read(sig)
		sig[0] = 4
		return &refs.Signature{Key: who.PublicKey().Bytes(), Sign: sig, Scheme: refs.SignatureScheme_ECDSA_SHA512}
	}
	return &protosession.RequestVerificationHeader{BodySignature: mk(), MetaSignature: mk(), OriginSignature: mk()}
}

type rpcAuthReq struct {
	h, tls, vh, who string
	ttl             int
}

func rpcParseAuth(o opLine) (r rpcAuthReq, ok bool) {
	r = rpcAuthReq{h: o.kv["h"], tls: o.kv["tls"], vh: o.kv["vh"], who: o.kv["who"]}
	switch o.kv["ttl"] {
	case "1":
		r.ttl = 1
	case "2":
		r.ttl = 2
	default:
		return r, false
	}
	if r.tls != "none" && r.tls != "owner" && r.tls != "other" {
		return r, false
	}
	if r.vh != "none" && r.vh != "ok" && r.vh != "bad" && r.vh != "forged" {
		return r, false
	}
	if r.who != "owner" && r.who != "client" {
		return r, false
	}
	return r, true
}

// rpcAuthInvoke sends the request to the real handler.
func rpcAuthInvoke(srv *objectsvc.Server, rec *rpcRec, a rpcAuthReq) (res rpcResult, known bool) {
	known = true
	defer func() {
		if p := recover(); p != nil {
			res.panicked = fmt.Sprint(p)
		}
	}()
	who := rpcKeyByName(a.who)
	signer := neofsecdsa.Signer(who.PrivateKey)
	meta := &protosession.RequestMetaHeader{Ttl: uint32(a.ttl)}
	ctx := rpcAuthCtx(a.tls)
	finish := func(vh **protosession.RequestVerificationHeader, f func() (*protosession.RequestVerificationHeader, error)) {
		switch a.vh {
		case "none":
		case "forged":
			*vh = rpcForgedHeader(who)
		default:
			x, err := f()
			if err != nil {
				panic("signing: " + err.Error())
			}
			if a.vh == "bad" {
				corrupt(x)
			}
			*vh = x
		}
	}
	code := func(c uint32) { res.codes = append(res.codes, c) }
	switch a.h {
	case "Get":
		req := &protoobject.GetRequest{Body: &protoobject.GetRequest_Body{Address: rpcAddr()}, MetaHeader: meta}
		finish(&req.VerifyHeader, func() (*protosession.RequestVerificationHeader, error) {
			return neofscrypto.SignRequestWithBuffer(signer, req, nil)
		})
		st := &rpcGetStream{rpcStream{r: rec, ctx: ctx}}
		res.err = srv.Get(req, st)
		res.codes = st.codes
	case "GetRange":
		req := &protoobject.GetRangeRequest{Body: &protoobject.GetRangeRequest_Body{Address: rpcAddr(), Range: &protoobject.Range{Offset: 1, Length: 8}}, MetaHeader: meta}
		finish(&req.VerifyHeader, func() (*protosession.RequestVerificationHeader, error) {
			return neofscrypto.SignRequestWithBuffer(signer, req, nil)
		})
		st := &rpcRangeStream{rpcStream{r: rec, ctx: ctx}}
		res.err = srv.GetRange(req, st)
		res.codes = st.codes
	case "Head", "HeadBuffered":
		req := &protoobject.HeadRequest{Body: &protoobject.HeadRequest_Body{Address: rpcAddr()}, MetaHeader: meta}
		finish(&req.VerifyHeader, func() (*protosession.RequestVerificationHeader, error) {
			return neofscrypto.SignRequestWithBuffer(signer, req, nil)
		})
		if a.h == "Head" {
			r, err := srv.Head(ctx, req)
			res.err = err
			if r != nil {
				code(r.GetMetaHeader().GetStatus().GetCode())
			}
		} else {
			r := srv.HeadBuffered(ctx, req)
			switch m := any(r).(type) {
			case *protoobject.HeadResponse:
				code(m.GetMetaHeader().GetStatus().GetCode())
			default:
				code(0)
			}
		}
	case "Delete":
		req := &protoobject.DeleteRequest{Body: &protoobject.DeleteRequest_Body{Address: rpcAddr()}, MetaHeader: meta}
		finish(&req.VerifyHeader, func() (*protosession.RequestVerificationHeader, error) {
			return neofscrypto.SignRequestWithBuffer(signer, req, nil)
		})
		r, err := srv.Delete(ctx, req)
		res.err = err
		if r != nil {
			code(r.GetMetaHeader().GetStatus().GetCode())
		}
	case "SearchV2", "SearchV2Buffered":
		req := &protoobject.SearchV2Request{Body: &protoobject.SearchV2Request_Body{ContainerId: numCID(1).ProtoMessage(), Version: 1, Count: 2}, MetaHeader: meta}
		finish(&req.VerifyHeader, func() (*protosession.RequestVerificationHeader, error) {
			return neofscrypto.SignRequestWithBuffer(signer, req, nil)
		})
		if a.h == "SearchV2" {
			r, err := srv.SearchV2(ctx, req)
			res.err = err
			if r != nil {
				code(r.GetMetaHeader().GetStatus().GetCode())
			}
		} else {
			r := srv.SearchV2Buffered(ctx, req)
			switch m := any(r).(type) {
			case *protoobject.SearchV2Response:
				code(m.GetMetaHeader().GetStatus().GetCode())
			default:
				code(0)
			}
		}
	case "Search":
		req := &protoobject.SearchRequest{Body: &protoobject.SearchRequest_Body{ContainerId: numCID(1).ProtoMessage(), Version: 1}, MetaHeader: meta}
		finish(&req.VerifyHeader, func() (*protosession.RequestVerificationHeader, error) {
			return neofscrypto.SignRequestWithBuffer(signer, req, nil)
		})
		st := &rpcSearchStream{rpcStream{r: rec, ctx: ctx}}
		res.err = srv.Search(req, st)
		res.codes = st.codes
	case "GetRangeHash":
		req := &protoobject.GetRangeHashRequest{Body: &protoobject.GetRangeHashRequest_Body{Address: rpcAddr()}, MetaHeader: meta}
		finish(&req.VerifyHeader, func() (*protosession.RequestVerificationHeader, error) {
			return neofscrypto.SignRequestWithBuffer(signer, req, nil)
		})
		r, err := srv.GetRangeHash(ctx, req)
		res.err = err
		if r != nil {
			code(r.GetMetaHeader().GetStatus().GetCode())
		}
	case "Put":
		obj := mkObject(1, 7, detPayload(16, 3))
		obj.SetOwner(user.NewFromECDSAPublicKey(rpcOwnerKey.PrivateKey.PublicKey))
		mo := obj.ProtoMessage()
		initReq := &protoobject.PutRequest{Body: &protoobject.PutRequest_Body{ObjectPart: &protoobject.PutRequest_Body_Init_{
			Init: &protoobject.PutRequest_Body_Init{ObjectId: mo.ObjectId, Signature: mo.Signature, Header: mo.Header}}}, MetaHeader: meta}
		finish(&initReq.VerifyHeader, func() (*protosession.RequestVerificationHeader, error) {
			return neofscrypto.SignRequestWithBuffer(signer, initReq, nil)
		})
		st := &rpcPutStream{rpcStream: rpcStream{r: rec, ctx: ctx}, reqs: []*protoobject.PutRequest{initReq}}
		res.err = srv.Put(st)
		res.codes = st.codes
	default:
		return res, false
	}
	return res, true
}

// rpcAuthExec runs one `rpc auth` line.
func rpcAuthExec(c *runCtx, line string, o opLine) {
	a, ok := rpcParseAuth(o)
	isHandler := false
	for _, n := range rpcHandlerNames() {
		isHandler = isHandler || n == a.h
	}
	if !ok || !isHandler || a.h == "Replicate" {
		c.emit(line, "=> bad-op")
		return
	}
	srv, rec, asked := rpcAuthServer()
	res, known := rpcAuthInvoke(srv, rec, a)
	c.count("auth-h:" + a.h)
	c.count(fmt.Sprintf("auth:tls=%s,ttl=%d,vh=%s", a.tls, a.ttl, a.vh))
	if !known {
		c.emit(line, "=> undriven")
		c.oracle("every-handler-is-driven", false, "handler "+a.h+" has no authentication request builder in harness/eng_rpc_auth.go")
		return
	}
	effects := append([]string(nil), rec.effects...)
	if res.panicked != "" && a.h == "Put" && strings.Contains(res.panicked, "nil pointer") && len(*asked) > 0 {
		effects = append(effects, "storage:PutInit") // the zero putsvc.Streamer: the handler went on to initialise the stream
	}
	stub := res.panicked != "" && strings.Contains(res.panicked, "must not be called") ||
		res.err != nil && grpcstatus.Code(res.err) == grpccodes.Unimplemented
	class := "none"
	if len(res.codes) > 0 {
		class = codeClass(res.codes[len(res.codes)-1])
	}
	id := "-"
	if len(*asked) > 0 {
		id = (*asked)[len(*asked)-1]
	}
	served := len(effects) > 0
	desc := fmt.Sprintf("handler=%s tls=%s ttl=%d vh=%s who=%s: effects=%v checks=%v acl-stage-was-given=%v codes=%v err=%v panic=%q",
		a.h, a.tls, a.ttl, a.vh, a.who, effects, rec.checks, *asked, res.codes, res.err, res.panicked)
	var obs string
	switch {
	case stub:
		obs = "=> refused st=stub"
	case served:
		obs = "=> served id=" + id
	case id != "-":
		obs = "=> refused st=" + class + " id=" + id
	default:
		obs = "=> refused st=" + class
	}
	c.count("auth-obs:" + strings.Fields(strings.TrimPrefix(obs, "=> "))[0])
	c.emit(line, obs)
	if stub {
		return
	}
	// ---- the property: authenticity is established before the ACL stage and before any effect
	hdrOK := a.vh == "ok"
	tlsOK := a.vh == "none" && a.ttl == 1 && a.tls != "none" // the only case the signatures may be skipped
	authenticated := hdrOK || tlsOK
	reached := len(*asked) > 0 || served
	c.oracle("unauthenticated-request-has-no-effect", authenticated || len(effects) == 0, desc)
	c.oracle("unauthenticated-request-never-reaches-access-control", authenticated || !reached, desc)
	if !authenticated {
		c.oracle("unauthenticated-request-gets-the-signature-status", class == "signature", desc)
		if len(effects) == 0 {
			c.nontrivial(line)
		}
	}
	if authenticated && len(*asked) > 0 {
		want := a.who
		if tlsOK {
			want = a.tls
		}
		c.oracle("access-control-is-asked-about-the-authenticated-key", strings.HasPrefix(id, want+"/"), desc+" authenticated-key="+want)
		// private container: only its owner is served
		c.oracle("only-the-owner-is-served-in-a-private-container", served == (want == "owner"), desc)
	}
	if res.panicked != "" && !(a.h == "Put" && strings.Contains(res.panicked, "nil pointer")) {
		c.oracle("handler-does-not-panic", false, desc)
	}
}

// rpcAuthGen: every handler x the full table tls x ttl x vh x who (3*2*4*2 = 48 per handler; vh=none ignores who).
func rpcAuthGen() []string {
	var ops []string
	for _, h := range rpcHandlerNames() {
		if h == "Replicate" {
			continue
		}
		for _, tlsK := range []string{"none", "owner", "other"} {
			for ttl := 1; ttl <= 2; ttl++ {
				for _, vh := range []string{"none", "ok", "bad", "forged"} {
					for _, who := range []string{"owner", "client"} {
						if vh == "none" && who == "client" {
							continue
						}
						ops = append(ops, fmt.Sprintf("rpc auth h=%s tls=%s ttl=%d vh=%s who=%s", h, tlsK, ttl, vh, who))
					}
				}
			}
		}
	}
	return ops
}
