package main

import (
	"errors"
	"fmt"
	"os"
	"sort"
	"strconv"
	"strings"

	"github.com/nspcc-dev/neofs-node/pkg/local_object_storage/blobstor/common"
	"github.com/nspcc-dev/neofs-node/pkg/local_object_storage/engine"
	meta "github.com/nspcc-dev/neofs-node/pkg/local_object_storage/metabase"
	"github.com/nspcc-dev/neofs-node/pkg/local_object_storage/shard"
)

// Engine "elist" (C06): cursor listing at shard level (Shard.ListWithCursor with arbitrary counts and cursors)
// and at engine level (StorageEngine.ListWithCursor over 1..4 real shards holding overlapping copies), against
// Model/Meta.lean dbList + Model/ListMerge.lean engList.
func init() {
	engines["elist"] = seqRunner{gen: elistGen, exec: elistExec}.engine()
}

const (
	elistNC = 4  // containers 1..4 (5 is used as a container that never exists)
	elistNO = 10 // object ids 1..10 (11, 12 only appear in cursors)
)

type elistWorld struct {
	dir    string
	eng    *engine.StorageEngine
	ids    []common.ID
	shards []*shard.Shard
	epoch  *epochSrc
}

func newElistWorld(n int) *elistWorld {
	w := &elistWorld{dir: scratchDir("elist"), epoch: &epochSrc{}}
	w.eng, w.ids = newEngine(w.dir, n, shardCfg{epoch: w.epoch})
	for _, id := range w.ids {
		w.shards = append(w.shards, w.eng.VerifShard(id))
	}
	return w
}

func (w *elistWorld) close() {
	if w.eng != nil {
		w.eng.Close()
	}
	os.RemoveAll(w.dir)
}

func (w *elistWorld) shardIdx(id string) int {
	for i, x := range w.ids {
		if x.String() == id {
			return i
		}
	}
	return -1
}

func elistCursorArg(s string) (c, o int, ok bool) {
	if s == "" || s == "-" {
		return 0, 0, false
	}
	p := strings.Split(s, "/")
	c, _ = strconv.Atoi(p[0])
	o, _ = strconv.Atoi(p[1])
	return c, o, true
}

// shardPage runs one Shard.ListWithCursor call.
func (w *elistWorld) shardPage(k, count int, cur string) (page []string, next string) {
	var cursor *shard.Cursor
	if c, o, ok := elistCursorArg(cur); ok {
		cursor = shard.NewCursor(numCID(c), numOID(o))
	}
	res, nc, err := w.shards[k].ListWithCursor(count, cursor)
	if err != nil {
		if errors.Is(err, shard.ErrEndOfListing) {
			return nil, "end"
		}
		return nil, "ERR"
	}
	for _, r := range res {
		page = append(page, fmt.Sprintf("%d/%d", cidNum(r.Address.Container()), oidNum(r.Address.Object())))
	}
	return page, fmt.Sprintf("%d/%d", cidNum(nc.ContainerID()), oidNum(nc.LastObjectID()))
}

type elistItem struct {
	addr    string
	holders []int
}

// enginePage runs one StorageEngine.ListWithCursor call.
func (w *elistWorld) enginePage(count int, cur string) (items []elistItem, next string) {
	var cursor *engine.Cursor
	if c, o, ok := elistCursorArg(cur); ok {
		cursor = engine.NewCursor(numCID(c), numOID(o))
	}
	res, nc, err := w.eng.ListWithCursor(nil, uint32(count), cursor) //nolint:staticcheck // the context is unused
	if err != nil {
		if errors.Is(err, engine.ErrEndOfListing) {
			return nil, "end"
		}
		return nil, "ERR"
	}
	for _, r := range res {
		it := elistItem{addr: fmt.Sprintf("%d/%d", cidNum(r.Address.Container()), oidNum(r.Address.Object()))}
		for _, h := range r.ShardIDs {
			it.holders = append(it.holders, w.shardIdx(h))
		}
		sort.Ints(it.holders)
		items = append(items, it)
	}
	return items, fmt.Sprintf("%d/%d", cidNum(nc.ContainerID()), oidNum(nc.ObjectID()))
}

func showItems(items []elistItem) string {
	if len(items) == 0 {
		return "-"
	}
	var parts []string
	for _, it := range items {
		var hs []string
		for _, h := range it.holders {
			hs = append(hs, strconv.Itoa(h))
		}
		parts = append(parts, it.addr+"@"+strings.Join(hs, "+"))
	}
	return strings.Join(parts, ",")
}

func addrKey(a string) [2]int {
	c, o, _ := elistCursorArg(a)
	return [2]int{c, o}
}

func addrLess(a, b string) bool {
	x, y := addrKey(a), addrKey(b)
	return x[0] < y[0] || (x[0] == y[0] && x[1] < y[1])
}

// oneShot lists everything shard k can list after the cursor in a single huge page (the reference the paged
// listings are compared with by the oracle).
func (w *elistWorld) oneShot(k int, cur string) []string {
	p, _ := w.shardPage(k, 1000, cur)
	return p
}

func elistExec(c *runCtx, ops []string) {
	var w *elistWorld
	defer func() {
		if w != nil {
			w.close()
		}
	}()
	for _, line := range ops {
		o := parseOp(line)
		c.count(o.name)
		if o.name == "init" {
			if w != nil {
				w.close()
			}
			w = newElistWorld(o.int("n"))
			c.emit(line, "=> ok")
			continue
		}
		if w == nil {
			c.emit(line, "=> bad-op")
			continue
		}
		k := 0
		if _, ok := o.kv["sh"]; ok {
			k = o.int("sh")
			if k < 0 || k >= len(w.shards) {
				c.emit(line, "=> bad-op")
				continue
			}
		}
		sh := w.shards[k]
		var res string
		switch o.name {
		case "put":
			err := sh.Put(buildChainObj(o.int("c"), o), nil)
			res = "=> " + metaErrClass(err)
			c.count("put:" + metaErrClass(err))
		case "mark":
			err := sh.MarkGarbage(numCID(o.int("c")), idList(o.ints("ids")), meta.GarbageMark(o.int("red")))
			res = "=> " + metaErrClass(err)
		case "inhumecnr":
			res = "=> " + metaErrClass(sh.InhumeContainer(numCID(o.int("c"))))
		case "slist":
			count := o.int("count")
			page, next := w.shardPage(k, count, o.kv["cur"])
			j := "-"
			if len(page) > 0 {
				j = strings.Join(page, ",")
			}
			res = fmt.Sprintf("=> page=%s next=%s", j, next)
			// property oracle: the chain of pages of this size from this cursor equals the one-shot listing
			want := w.oneShot(k, o.kv["cur"])
			var got []string
			cur, guard := o.kv["cur"], 0
			for ; guard < 200; guard++ {
				p, n := w.shardPage(k, count, cur)
				if n == "end" || n == "ERR" {
					break
				}
				got = append(got, p...)
				cur = n
			}
			c.oracle("shard-pages-list-every-listable-object-exactly-once", count == 0 || strings.Join(got, ",") == strings.Join(want, ","),
				fmt.Sprintf("shard %d count %d cursor %s: pages give %v, everything listable after the cursor is %v", k, count, o.kv["cur"], got, want))
			if len(want) > 1 && count < len(want) {
				c.nontrivial(line + fmt.Sprint(want))
			}
		case "list":
			count := o.int("count")
			items, next := w.enginePage(count, o.kv["cur"])
			res = fmt.Sprintf("=> page=%s next=%s", showItems(items), next)
			// property oracle: the chain of engine pages = union of what the shards can list after the cursor,
			// ascending, each once, with exactly the holders
			holders := map[string][]int{}
			for i := range w.shards {
				for _, a := range w.oneShot(i, o.kv["cur"]) {
					holders[a] = append(holders[a], i)
				}
			}
			var want []string
			for a := range holders {
				want = append(want, a)
			}
			sort.Slice(want, func(i, j int) bool { return addrLess(want[i], want[j]) })
			var wantItems []elistItem
			for _, a := range want {
				wantItems = append(wantItems, elistItem{a, holders[a]})
			}
			var got []elistItem
			cur, guard := o.kv["cur"], 0
			for ; guard < 200; guard++ {
				p, n := w.enginePage(count, cur)
				if n == "end" || n == "ERR" {
					break
				}
				got = append(got, p...)
				cur = n
			}
			c.oracle("engine-pages-list-every-listable-object-once-with-its-holders", count == 0 || showItems(got) == showItems(wantItems),
				fmt.Sprintf("count %d cursor %s over %d shards: pages give %s, the shards can list %s", count, o.kv["cur"], len(w.shards), showItems(got), showItems(wantItems)))
			multi := 0
			for _, it := range wantItems {
				if len(it.holders) > 1 {
					multi++
				}
			}
			if multi > 0 && count < len(want) {
				c.nontrivial(line + showItems(wantItems))
			}
		default:
			c.emit(line, "=> bad-op")
			continue
		}
		c.emit(line, res)
	}
}

func elistGen(c *runCtx, run func([]string)) {
	nseq := c.n(70, 4000)
	for s := 0; s < nseq; s++ {
		n := 1 + c.rng.IntN(4)
		nc := 1 + c.rng.IntN(elistNC)
		ops := []string{fmt.Sprintf("elist init n=%d", n)}
		cn := func() int { return 1 + c.rng.IntN(nc) }
		randCur := func() string {
			switch c.rng.IntN(10) {
			case 0, 1, 2:
				return "-"
			case 3:
				return fmt.Sprintf("%d/%d", 1+c.rng.IntN(elistNC+1), 0) // start of a container (maybe absent)
			case 4:
				return fmt.Sprintf("%d/%d", 1+c.rng.IntN(elistNC+1), elistNO+2) // past the end of a container
			default:
				return fmt.Sprintf("%d/%d", 1+c.rng.IntN(nc+1), 1+c.rng.IntN(elistNO+1))
			}
		}
		nops := 10 + c.rng.IntN(30)
		for i := 0; i < nops; i++ {
			k := c.rng.IntN(n)
			switch r := c.rng.IntN(100); {
			case r < 45:
				// the same object on several shards: overlapping copies
				cnr, id := cn(), 1+c.rng.IntN(elistNO)
				copies := 1 + c.rng.IntN(n)
				for j := 0; j < copies; j++ {
					ops = append(ops, fmt.Sprintf("elist put sh=%d c=%d o=%d typ=REG size=%d", (k+j)%n, cnr, id, id))
				}
			case r < 50:
				ops = append(ops, fmt.Sprintf("elist put sh=%d c=%d o=%d typ=TS assoc=%d", k, cn(), 1+c.rng.IntN(elistNO), 1+c.rng.IntN(elistNO)))
			case r < 62:
				m := 1 + c.rng.IntN(3)
				ids := map[int]bool{}
				for j := 0; j < m; j++ {
					ids[1+c.rng.IntN(elistNO)] = true
				}
				ops = append(ops, fmt.Sprintf("elist mark sh=%d c=%d ids=%s red=%d", k, cn(), joinInts(sortedKeys(ids)), c.rng.IntN(4)/3))
			case r < 68:
				// Shard.DeleteContainer is the same metabase operation (InhumeContainer)
				ops = append(ops, fmt.Sprintf("elist inhumecnr sh=%d c=%d", k, cn()))
			case r < 82:
				ops = append(ops, fmt.Sprintf("elist list count=%d cur=%s", 1+c.rng.IntN(6), randCur()))
			case r < 92:
				ops = append(ops, fmt.Sprintf("elist slist sh=%d count=%d cur=%s", k, 1+c.rng.IntN(5), randCur()))
			case r < 94:
				ops = append(ops, fmt.Sprintf("elist list count=0 cur=%s", randCur()))
			default:
				ops = append(ops, fmt.Sprintf("elist list count=%d cur=-", 1+c.rng.IntN(3)))
			}
		}
		// always end with full listings in small pages
		ops = append(ops, "elist list count=1 cur=-", "elist list count=2 cur=-", fmt.Sprintf("elist slist sh=%d count=1 cur=-", c.rng.IntN(n)))
		run(ops)
	}
}
